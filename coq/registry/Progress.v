(** C18: registry calls terminate when overlapping deliveries terminate.
    - the only step of any activity that can fail to take effect is an attempt to take the
      [data] write mutex while another unfinished call holds it; the [race_fallback] mutex is
      only ever taken under the [data] mutex and is therefore always free when asked for;
    - the writer's "seen zero" flags are sticky;
    - a mutator call that is not locked out, run on its own with no delivery inside a read
      section, completes within 70 of its own steps, from wherever it is. *)
From Coq Require Import List Arith NArith ZArith Bool Lia.
From SH Require Import base.Pool gen.Extracted_halflock gen.Extracted_registry
  halflock.Model halflock.Safety halflock.Lemmas registry.Model registry.Tactics registry.Inv registry.PcInv registry.Events
  registry.Deliver.
Import ListNotations.
Arguments Nat.modulo : simpl never.
Arguments N.ltb : simpl never.
Arguments N.of_nat : simpl never.
Local Open Scope nat_scope.

Lemma cnt_exists {A} (P : A -> bool) l : 1 <= cnt P l -> exists k x, nth_error l k = Some x /\ P x = true.
Proof.
  induction l as [|h t IH]; intro H.
  - unfold cnt in H. simpl in H. lia.
  - rewrite cnt_cons in H. destruct (P h) eqn:E.
    + exists 0, h. auto.
    + simpl in H. destruct (IH H) as (k & x & Hk & Hx). exists (S k), x. auto.
Qed.

(** * Stickiness of the seen flags *)

(** After the generation flip a slot once seen idle stays seen: the flags only go from false to
    true (a poll of slot i is only executed while its flag is still false - invariant [i_old]). *)
Lemma barrier_sticky h old st s0 s1 it h' es st' t0 t1 it' :
  barrier_step h old st s0 s1 it = (h', es) -> crit h' = CSwapped old st' t0 t1 it' ->
  (st = SFlip \/ st = SHint \/ (st = SPoll0 /\ s0 = false) \/ (st = SPoll1 /\ s1 = false)) ->
  (s0 = true -> t0 = true) /\ (s1 = true -> t1 = true).
Proof.
  unfold barrier_step. intros Hb Hc Hst.
  destruct Hst as [->|[->|[[-> ->]|[-> ->]]]]; inversion Hb; subst; simpl in Hc; inversion Hc; subst; split; intros; congruence.
Qed.

Section Progress.
Variable q_ok s_ok : Z -> bool.
Notation fstep := (Model.fstep q_ok s_ok).

(** * The fallback mutex is never contended *)

Lemma fb_free_when_asked s fs k f :
  PInv s fs -> nth_error fs k = Some f -> fpc f = MFbLock -> crit (fb s) = CNone.
Proof.
  intros [[Hd Hf] Hfr] Hk Hpc.
  destruct (crit (fb s)) eqn:Hc; auto; exfalso;
    (assert (H1 : 1 <= cnt is_win (map vfb fs)) by (rewrite (i_win _ _ Hf), Hc; lia);
     destruct (cnt_exists _ _ H1) as (j & v & Hj & Hv);
     destruct v; try discriminate;
     rewrite nth_error_map in Hj; destruct (nth_error fs j) as [g|] eqn:Hg; [|discriminate]; simpl in Hj; inversion Hj as [Hvg];
     destruct (Hfr j g Hg) as [Hokg _]; destruct (Hfr k f Hk) as [Hokf _];
     unfold pc_ok in Hokf; rewrite Hpc in Hokf; destruct Hokf as (Hvf & Hvd & _);
     assert (Hgd : vdt g = WIn) by (unfold pc_ok in Hokg; destruct (fpc g); repeat match goal with H : _ /\ _ |- _ => destruct H end;
                                     repeat match goal with H : holds _ |- _ => destruct H as (? & ? & ?) end;
                                     repeat match goal with H : exists _, _ |- _ => destruct H end; congruence);
     assert (j = k) by (eapply (holder_unique (dt s) (map vdt fs)); eauto; rewrite nth_error_map; [rewrite Hg|rewrite Hk]; simpl; congruence);
     subst j; rewrite Hk in Hg; inversion Hg; subst g; congruence).
Qed.

(** * Which steps can fail to take effect *)

(** A step "takes effect" if it changes the frame or the shared state. *)
Definition effective (s : shared) (f : frame) : Prop :=
  let '(s', f', _) := fstep s f in s' <> s \/ f' <> f.

Lemma set_pc_neq f p : fpc f <> p -> set_pc f p <> f.
Proof. intros H E. apply H. rewrite <- E at 1. reflexivity. Qed.

(** In a reachable live world every unfinished frame's step takes effect, except an attempt to
    lock [data] while it is held - and then the holder is another, unfinished frame. *)
Theorem no_deadlock os0 ls s fs es :
  Model.run q_ok s_ok (sh_init os0, []) ls = ((s, fs), es) -> live s ->
  forall k f, nth_error fs k = Some f -> fpc f <> PDone ->
    (fpc (snd (fst (fstep s f))) <> fpc f \/ dt (fst (fst (fstep s f))) <> dt s \/ fb (fst (fst (fstep s f))) <> fb s) \/
    (fpc f = MDtLock /\ crit (dt s) <> CNone /\
     exists j g, j <> k /\ nth_error fs j = Some g /\ vdt g = WIn /\ fpc g <> PDone).
Proof.
  intros Hr [Had Haf] k f Hk Hnd.
  pose proof (pinv_run q_ok s_ok ls (sh_init os0, []) (s, fs) es (pinv_init os0) Hr) as HP. simpl in HP.
  pose proof HP as [[Hd Hf] Hfr]. destruct (Hfr k f Hk) as [Hok Hkind].
  unfold Model.fstep. rewrite Had, Haf. cbn [orb]. unfold pc_ok in Hok.
  destruct (fpc f) eqn:Hpc; try congruence.
  - left. left. destruct (os_get s _); simpl; discriminate.
  - left. left. simpl. discriminate.
  - left. left. hs. simpl. discriminate.
  - left. left. hs. simpl. discriminate.
  - left. left. hs. simpl. discriminate.
  - left. left. hs. simpl. discriminate.
  - left. left. hs. simpl. discriminate.
  - (* PDtPtr *) left. left. hs. simpl.
    match goal with |- context [dispatch_next ?a ?b ?c] => destruct (dispatch_next_cases a b c) as [E2|[[l2 E2]|[si [l2 E2]]]]; rewrite E2 end; discriminate.
  - (* PPrev *) left. left. simpl. destruct (after_runs_cases acts) as [E2|[l2 E2]]; rewrite E2; discriminate.
  - (* PRun *) left. left. destruct acts as [|a r]; simpl; [discriminate|].
    destruct r as [|b r']; simpl; [discriminate|]. intro E. inversion E.
    match goal with H : ?r = _ :: ?r |- _ => apply (f_equal (@length _)) in H; simpl in H; lia end.
  - left. left. hs. simpl. discriminate.
  - left. left. hs. simpl. discriminate.
  - (* MStart *) left. left. destruct (kind f) as [|[sg tg| |]]; try destruct (existsb _ _); simpl; discriminate.
  - (* MDtLock *)
    destruct Hok as [Hvf Hvd]. rewrite Hvd. unfold hstep. rewrite Had.
    destruct (crit (dt s)) eqn:Hc; simpl; [left; left; discriminate| | | |];
      (right; split; [reflexivity|]; split; [discriminate|];
       assert (H1 : 1 <= cnt is_win (map vdt fs)) by (rewrite (i_win _ _ Hd), Hc; lia);
       destruct (cnt_exists _ _ H1) as (j & v & Hj & Hv); destruct v; try discriminate;
       rewrite nth_error_map in Hj; destruct (nth_error fs j) as [g|] eqn:Hg; [|discriminate]; simpl in Hj;
       assert (Hvg : vdt g = WIn) by congruence;
       exists j, g; split; [intro; subst j; rewrite Hk in Hg; congruence|];
       split; [exact Hg|]; split; [exact Hvg|];
       destruct (Hfr j g Hg) as [Hokg _]; unfold pc_ok in Hokg; intro Hdone; rewrite Hdone in Hokg; destruct Hokg; congruence).
  - (* MDtLoad *)
    left. right. left. destruct Hok as (Hvf & Hvd & Hc). rewrite Hvd. unfold hstep. rewrite Had, Hc. simpl.
    intro E. apply (f_equal crit) in E. simpl in E. congruence.
  - (* MFbLock: always acquires *)
    left. left. destruct Hok as (Hvf & Hvd & Hc). rewrite Hvf. unfold hstep. rewrite Haf.
    rewrite (fb_free_when_asked s fs k f HP Hk Hpc). simpl. discriminate.
  - left. left. hs. simpl. discriminate.
  - left. left. split_conds; simpl; discriminate.
  - left. left. hs. simpl. discriminate.
  - (* MFbBarrier: the critical-section state always changes *)
    left. right. right. destruct Hok as (Hvf & Hst & _). rewrite Hvf. unfold hstep. rewrite Haf.
    unfold in_store in Hst. destruct (crit (fb s)) as [| | |old st a b it|] eqn:Hc; try discriminate.
    destruct (barrier_step (fb s) old st a b it) as [h2 e2] eqn:Hb. simpl.
    intro E. subst h2. unfold barrier_step in Hb.
    destruct st; inversion Hb as [[Hh He]]; apply (f_equal crit) in Hh; simpl in Hh; rewrite Hc in Hh; try discriminate;
      inversion Hh; try (destruct (a && b); discriminate); try (destruct (negb a); discriminate);
      try (destruct (negb b); try discriminate; unfold after_poll in *; destruct (_ && _); discriminate);
      try (unfold after_poll in *; destruct (_ && _); discriminate).
  - left. left. hs. simpl. discriminate.
  - left. left. split_conds; simpl; discriminate.
  - left. left. hs. simpl. discriminate.
  - (* MDtBarrier *)
    left. right. left. destruct Hok as (Hvf & Hvd & Hst). rewrite Hvd. unfold hstep. rewrite Had.
    unfold in_store in Hst. destruct (crit (dt s)) as [| | |old st a b it|] eqn:Hc; try discriminate.
    destruct (barrier_step (dt s) old st a b it) as [h2 e2] eqn:Hb. simpl.
    intro E. subst h2. unfold barrier_step in Hb.
    destruct st; inversion Hb as [[Hh He]]; apply (f_equal crit) in Hh; simpl in Hh; rewrite Hc in Hh; try discriminate;
      inversion Hh; try (destruct (a && b); discriminate); try (destruct (negb a); discriminate);
      try (destruct (negb b); try discriminate; unfold after_poll in *; destruct (_ && _); discriminate);
      try (unfold after_poll in *; destruct (_ && _); discriminate).
  - left. left. hs. simpl. discriminate.
  - left. left. hs. simpl. discriminate.
  - left. left. hs. simpl. discriminate.
Qed.

(** * A mutator call run on its own completes *)

Definition stage_rank (st : stage) : nat :=
  match st with SPre0 => 7 | SPre1 => 6 | SFlip => 5 | SHint => 3 | SPoll0 => 2 | SPoll1 => 1 | SFree => 0 end.
Definition unseen (s0 s1 : bool) : nat := b2n (negb s0) + b2n (negb s1).
Definition bmeasure (h : hl) : nat :=
  match crit h with CSwapped _ st s0 s1 _ => 1 + unseen s0 s1 * 8 + stage_rank st | _ => 0 end.

Definition mmeasure (s : shared) (f : frame) : nat :=
  match fpc f with
  | MStart => 75 | MDtLock => 74 | MDtLoad => 73 | MFbLock => 72 | MFbLoad => 71 | MDetect => 70 | MFbSwap => 69
  | MFbBarrier => 40 + bmeasure (fb s) | MFbUnlock => 39 | MSlotNew => 38 | MDtSwap => 37
  | MDtBarrier => 5 + bmeasure (dt s) | MDtUnlock => 2 | MErrFbUnlock => 3 | MErrDtUnlock => 2
  | _ => 0
  end.

Definition idle (h : hl) : Prop := c0 h = 0 /\ c1 h = 0.

(** With both slots idle, a barrier step strictly decreases the barrier measure. *)
Lemma barrier_progress h vs old st s0 s1 it h' es :
  HInv h vs -> idle h -> crit h = CSwapped old st s0 s1 it ->
  barrier_step h old st s0 s1 it = (h', es) ->
  bmeasure h' < bmeasure h /\ idle h' /\ aborted h' = aborted h.
Proof.
  intros Inv [Z0 Z1] Hc Hb. unfold bmeasure. rewrite Hc.
  destruct (i_old _ _ Inv _ _ _ _ _ Hc) as (_ & _ & _ & _ & G5 & G6 & G7 & G8 & G9).
  unfold barrier_step in Hb. unfold idle.
  destruct st; inversion Hb; subst; clear Hb; simpl; rewrite ?Z0, ?Z1; simpl.
  - destruct (G8 eq_refl) as [-> ->]. simpl. repeat split; auto; lia.
  - rewrite (G9 eq_refl). destruct s0; simpl; repeat split; auto; lia.
  - unfold after_poll. destruct s0, s1; simpl; repeat split; auto; lia.
  - specialize (G5 eq_refl). destruct s0, s1; simpl in *; try discriminate; repeat split; auto; lia.
  - rewrite (G6 eq_refl). unfold after_poll. destruct s1; simpl; repeat split; auto; lia.
  - rewrite (G7 eq_refl). unfold after_poll. destruct s0; simpl; repeat split; auto; lia.
  - repeat split; auto; lia.
Qed.

Lemma idle_set_crit h c : idle h -> idle (set_crit h c).
Proof. unfold idle, set_crit. simpl. auto. Qed.

Ltac fin_m := unfold idle, mmeasure, bmeasure in *; simpl;
  repeat match goal with H : fpc _ = _ |- _ => rewrite H end; simpl;
  repeat split; auto; try lia; try discriminate; try tauto.

Definition not_locked_out (s : shared) (f : frame) : Prop := crit (dt s) = CNone \/ vdt f = WIn.

(** One step of a mutator call that is not locked out, with every read section closed: the
    measure strictly decreases and the hypotheses persist. *)
Lemma mut_step_measure s fs k f s' f' es :
  PInv s fs -> nth_error fs k = Some f -> mut_pc (fpc f) = true -> fpc f <> PDone ->
  live s -> idle (dt s) -> idle (fb s) -> not_locked_out s f ->
  fstep s f = (s', f', es) ->
  mmeasure s' f' < mmeasure s f /\ idle (dt s') /\ idle (fb s') /\ mut_pc (fpc f') = true /\
  not_locked_out s' f' /\ live s'.
Proof.
  intros HP Hk Hm Hnd [Had Haf] Id If Hfree Hs.
  pose proof HP as [[Hd Hf] Hfr]. destruct (Hfr k f Hk) as [Hok Hkind].
  unfold Model.fstep in Hs. rewrite Had, Haf in Hs. cbn [orb] in Hs. unfold pc_ok in Hok. unfold live, not_locked_out in *.
  pose proof Id as [Id0 Id1]. pose proof If as [If0 If1].
  destruct (fpc f) eqn:Hpc; try discriminate; try congruence.
  - (* MStart *)
    destruct Hok as [_ Hvd]. destruct Hfree as [Hc|Hw]; [|congruence].
    destruct (kind f) as [|[sg tg| |]]; try destruct (existsb _ _); inversion Hs; subst; fin_m.
  - (* MDtLock *)
    destruct Hok as [_ Hvd]. destruct Hfree as [Hc|Hw]; [|congruence].
    rewrite Hvd in Hs. unfold hstep in Hs. rewrite Had, Hc in Hs. inversion Hs; subst; fin_m.
  - (* MDtLoad *)
    destruct Hok as (Hvf & Hvd & Hc). rewrite Hvd in Hs. unfold hstep in Hs. rewrite Had, Hc in Hs. inversion Hs; subst.
    destruct (load_update_ok f WIn (nth (ptr (dt s)) (dhist s) sd_init) Hkind Hpc) as [Hk2 Hcases].
    destruct (load_update_views f WIn (nth (ptr (dt s)) (dhist s) sd_init)) as (V1 & _).
    unfold mmeasure. rewrite Hpc. destruct Hcases as [E2|[E2|E2]]; rewrite E2; simpl; repeat split; auto; try lia; try (apply idle_set_crit; assumption); try assumption.
  - (* MFbLock *)
    destruct Hok as (Hvf & Hvd & Hc). rewrite Hvf in Hs. unfold hstep in Hs. rewrite Haf in Hs.
    rewrite (fb_free_when_asked s fs k f HP Hk Hpc) in Hs. inversion Hs; subst; fin_m.
  - (* MFbLoad *)
    destruct Hok as (Hvf & Hcf & Hvd & Hc). rewrite Hvf in Hs. unfold hstep in Hs. rewrite Haf, Hcf in Hs. inversion Hs; subst; fin_m.
  - (* MDetect *)
    destruct Hok as (Hvf & Hcf & Hvd & Hc). split_conds_in Hs; inversion Hs; subst; fin_m.
  - (* MFbSwap *)
    destruct Hok as (Hvf & Hcf & Hvd & Hc). rewrite Hvf in Hs. unfold hstep in Hs. rewrite Haf, Hcf in Hs. inversion Hs; subst; fin_m.
  - (* MFbBarrier *)
    destruct Hok as (Hvf & Hst & Hvd & Hc). rewrite Hvf in Hs. unfold hstep in Hs. rewrite Haf in Hs.
    unfold in_store in Hst. destruct (crit (fb s)) as [| | |old st a b it|] eqn:Hcr; try discriminate.
    destruct (barrier_step (fb s) old st a b it) as [h2 e2] eqn:Hb. inversion Hs; subst; clear Hs.
    destruct (barrier_progress _ _ _ _ _ _ _ _ _ Hf If Hcr Hb) as (Hlt & Hid & Hab).
    assert (Hpos : 1 <= bmeasure (fb s)) by (unfold bmeasure; rewrite Hcr; lia).
    unfold mmeasure. rewrite Hpc. cbn [fpc set_vfb set_vdt set_fb set_dt fb dt vfb vdt].
    destruct (in_store h2) eqn:Hin; cbn [fpc set_vfb set_vdt set_fb set_dt fb dt vfb vdt mut_pc];
      (split; [lia|]); (split; [split; assumption|]); (split; [exact Hid|]); (split; [reflexivity|]); (split; [right; assumption|]);
      split; congruence.
  - (* MFbUnlock *)
    destruct Hok as (Hvf & Hcf & Hvd & Hc). rewrite Hvf in Hs. unfold hstep in Hs. rewrite Haf, Hcf in Hs. inversion Hs; subst; fin_m.
  - (* MSlotNew *)
    destruct Hok as (Hvf & Hvd & Hc). split_conds_in Hs; inversion Hs; subst; fin_m.
  - (* MDtSwap *)
    destruct Hok as (Hvf & Hvd & Hc). rewrite Hvd in Hs. unfold hstep in Hs. rewrite Had, Hc in Hs. inversion Hs; subst; fin_m.
  - (* MDtBarrier *)
    destruct Hok as (Hvf & Hvd & Hst). rewrite Hvd in Hs. unfold hstep in Hs. rewrite Had in Hs.
    unfold in_store in Hst. destruct (crit (dt s)) as [| | |old st a b it|] eqn:Hcr; try discriminate.
    destruct (barrier_step (dt s) old st a b it) as [h2 e2] eqn:Hb. inversion Hs; subst; clear Hs.
    destruct (barrier_progress _ _ _ _ _ _ _ _ _ Hd Id Hcr Hb) as (Hlt & Hid & Hab).
    assert (Hpos : 1 <= bmeasure (dt s)) by (unfold bmeasure; rewrite Hcr; lia).
    unfold mmeasure. rewrite Hpc. cbn [fpc set_vfb set_vdt set_fb set_dt fb dt vfb vdt].
    destruct (in_store h2) eqn:Hin; cbn [fpc set_vfb set_vdt set_fb set_dt fb dt vfb vdt mut_pc];
      (split; [lia|]); (split; [exact Hid|]); (split; [split; assumption|]); (split; [reflexivity|]); (split; [right; reflexivity|]);
      split; congruence.
  - (* MDtUnlock *)
    destruct Hok as (Hvf & Hvd & Hc). rewrite Hvd in Hs. unfold hstep in Hs. rewrite Had in Hs.
    destruct Hc as [Hc|Hc]; rewrite Hc in Hs; inversion Hs; subst; fin_m.
  - (* MErrFbUnlock *)
    destruct Hok as (Hvf & Hcf & Hvd & Hc). rewrite Hvf in Hs. unfold hstep in Hs. rewrite Haf, Hcf in Hs. inversion Hs; subst; fin_m.
  - (* MErrDtUnlock *)
    destruct Hok as (Hvf & Hvd & Hc). rewrite Hvd in Hs. unfold hstep in Hs. rewrite Had, Hc in Hs. inversion Hs; subst; fin_m.
Qed.

Lemma solo_done n : forall s f, fpc f = PDone ->
  let '(s', f', _) := solo q_ok s_ok n s f in fpc f' = PDone.
Proof.
  induction n as [|n IH]; intros s f Hd; simpl; [assumption|].
  destruct (fstep s f) as [[s1 f1] e1] eqn:Hs.
  assert (Hd1 : fpc f1 = PDone).
  { unfold Model.fstep in Hs. destruct (aborted (dt s) || aborted (fb s)); rewrite ?Hd in Hs; inversion Hs; subst; assumption. }
  specialize (IH s1 f1 Hd1). destruct (solo q_ok s_ok n s1 f1) as [[s2 f2] e2]. assumption.
Qed.

Lemma mutator_completes_aux n : forall s fs k f,
  PInv s fs -> nth_error fs k = Some f -> mut_pc (fpc f) = true ->
  live s -> idle (dt s) -> idle (fb s) -> not_locked_out s f -> mmeasure s f <= n ->
  let '(s', f', _) := solo q_ok s_ok n s f in fpc f' = PDone.
Proof.
  induction n as [|n IH]; intros s fs k f HP Hk Hm Hl Id If Hnl Hle.
  - simpl. unfold mmeasure in Hle. destruct (fpc f); try discriminate; try lia; reflexivity.
  - destruct (pc_eq_done (fpc f)) as [Hd|Hnd]; [apply (solo_done (S n) s f Hd)|].
    simpl. destruct (fstep s f) as [[s1 f1] e1] eqn:Hs.
    destruct (mut_step_measure s fs k f s1 f1 e1 HP Hk Hm Hnd Hl Id If Hnl Hs) as (Hlt & Id1 & If1 & Hm1 & Hnl1 & Hl1).
    pose proof (pinv_step q_ok s_ok s fs k f s1 f1 e1 HP Hk Hs) as HP1.
    assert (Hk1 : nth_error (upd fs k f1) k = Some f1) by (apply nth_upd_eq; apply nth_error_Some; congruence).
    specialize (IH s1 (upd fs k f1) k f1 HP1 Hk1 Hm1 Hl1 Id1 If1 Hnl1 ltac:(lia)).
    destruct (solo q_ok s_ok n s1 f1) as [[s2 f2] e2]. assumption.
Qed.

(** C18: from every reachable live world in which no delivery is inside a read section of
    either half-lock (the deliveries that were in flight have returned and no new one arrives)
    a mutator call that is not locked out (the [data] mutex is free, or it holds it) completes on
    its own within 75 of its own steps - whatever stage of its barrier it is in and whatever
    its "seen" flags were. *)
Theorem mutator_completes_alone os0 ls s fs es :
  Model.run q_ok s_ok (sh_init os0, []) ls = ((s, fs), es) -> live s ->
  forall k f m, nth_error fs k = Some f -> kind f = KMut m ->
    idle (dt s) -> idle (fb s) -> not_locked_out s f ->
    let '(s', f', _) := solo q_ok s_ok 75 s f in fpc f' = PDone.
Proof.
  intros Hr Hl k f m Hk Hkd Id If Hnl.
  pose proof (pinv_run q_ok s_ok ls (sh_init os0, []) (s, fs) es (pinv_init os0) Hr) as HP. simpl in HP.
  assert (Hm : mut_pc (fpc f) = true).
  { destruct HP as [_ Hfr]. destruct (Hfr k f Hk) as [_ Ko]. unfold kind_ok in Ko. rewrite Hkd in Ko. exact Ko. }
  apply (mutator_completes_aux 75 s fs k f HP Hk Hm Hl Id If Hnl).
  unfold mmeasure, bmeasure. destruct (fpc f); try lia;
    match goal with |- context [crit ?h] => destruct (crit h) as [| | |old st a b it|] end; try lia;
    destruct st, a, b; simpl; lia.
Qed.

(** A register call for a forbidden signal panics before it touches anything: no lock is taken,
    nothing is left held, so it cannot wedge later calls. *)
Lemma forbidden_register_touches_nothing s f sg tag s' f' es :
  kind f = KMut (MRegister sg tag) -> fpc f = MStart -> existsb (Z.eqb sg) forbidden = true ->
  fstep s f = (s', f', es) -> s' = s /\ (aborted (dt s) || aborted (fb s) = false -> fpc f' = PDone /\ vdt f' = vdt f /\ vfb f' = vfb f).
Proof.
  intros Hk Hpc Hf Hs. unfold Model.fstep in Hs. destruct (aborted (dt s) || aborted (fb s)).
  - inversion Hs; subst. split; [reflexivity|discriminate].
  - rewrite Hpc, Hk, Hf in Hs. inversion Hs; subst. simpl. auto.
Qed.

(** What a spinning writer waits for is always a delivery that is inside a read section (and
    such a delivery completes on its own, [delivery_completes]). *)
Theorem barrier_waits_only_for_deliveries os0 ls s fs es :
  Model.run q_ok s_ok (sh_init os0, []) ls = ((s, fs), es) ->
  forall i, i < 2 -> cget (dt s) i <> 0 ->
    exists j g sg, nth_error fs j = Some g /\ kind g = KDeliver sg /\ in_slot i (vdt g) = true /\ fpc g <> PDone.
Proof.
  intros Hr i Hi Hc.
  pose proof (pinv_run q_ok s_ok ls (sh_init os0, []) (s, fs) es (pinv_init os0) Hr) as [[Hd _] Hfr]. simpl in Hd, Hfr.
  assert (H1 : 1 <= cnt (in_slot i) (map vdt fs)).
  { unfold cget in Hc. destruct (Nat.eqb i 0) eqn:E.
    - apply Nat.eqb_eq in E. subst. rewrite (i_c0 _ _ Hd). lia.
    - apply Nat.eqb_neq in E. assert (i = 1) by lia. subst. rewrite (i_c1 _ _ Hd). lia. }
  destruct (cnt_exists _ _ H1) as (j & v & Hj & Hv).
  rewrite nth_error_map in Hj. destruct (nth_error fs j) as [g|] eqn:Hg; [|discriminate]. simpl in Hj. inversion Hj; subst v.
  destruct (Hfr j g Hg) as [Hok Hkind]. unfold pc_ok in Hok. unfold kind_ok in Hkind.
  destruct (kind g) as [sg|m] eqn:Ek.
  - exists j, g, sg. repeat split; auto. intro Hdn. rewrite Hdn in Hok. destruct Hok as [_ Hx]. rewrite Hx in Hv. discriminate.
  - exfalso. destruct (fpc g); try discriminate;
      repeat match goal with H : _ /\ _ |- _ => destruct H end;
      match goal with H : vdt g = _ |- _ => rewrite H in Hv; discriminate end.
Qed.

End Progress.
