(** Non-vacuity: concrete reachable worlds that meet the hypotheses of the C01/C02/C03 theorems. *)
From Coq Require Import List NArith ZArith Bool.
From SH Require Import base.Pool halflock.Model registry.Model registry.Content.
Import ListNotations.

Definition ok (_ : Z) := true.

(** register(10, tag 7) to completion; a delivery of 10 up to the point where it holds the
    snapshot and has the action pending; unregister(id 1) up to the middle of its barrier. *)
Definition sched_mid : list label :=
  [LSpawn (KMut (MRegister 10 7))] ++ repeat (LStep 0) 25 ++
  [LSpawn (KDeliver 10)] ++ repeat (LStep 1) 7 ++
  [LSpawn (KMut (MUnregister 10 1))] ++ repeat (LStep 2) 12.

Example reader_inside_old_snapshot_while_writer_spins :
  let w := fst (run ok ok (sh_init [], []) sched_mid) in
  map (fun f => (fpc f, vdt f)) (snd w) =
    [(PDone, VIdle); (PRun [(1%N, 7%nat)], RHold 1 1); (MDtBarrier, WIn)] /\
  crit (dt (fst w)) = CSwapped 1 SPoll1 true false 3 /\ ptr (dt (fst w)) = 2%nat /\ freed (dt (fst w)) = [0%nat].
Proof. vm_compute. repeat split; reflexivity. Qed.

(** ... the writer cannot finish while the delivery is paused there (20 more steps of it
    change nothing but the spin counter) ... *)
Example writer_waits :
  let w := fst (run ok ok (sh_init [], []) (sched_mid ++ repeat (LStep 2) 20)) in
  map fpc (snd w) = [PDone; PRun [(1%N, 7%nat)]; MDtBarrier] /\ freed (dt (fst w)) = [0%nat].
Proof. vm_compute. split; reflexivity. Qed.

(** ... and once the delivery has run its action and dropped its guards, the removal completes,
    returns true, and has released the old snapshot. *)
Example removal_completes :
  let w := fst (run ok ok (sh_init [], []) (sched_mid ++ repeat (LStep 1) 3 ++ repeat (LStep 2) 6)) in
  map (fun f => (fpc f, res f, ran f, removed f)) (snd w) =
    [(PDone, 1%Z, [], []); (PDone, 0%Z, [(1%N, 7%nat)], []); (PDone, 1%Z, [], [1%N])] /\
  freed (dt (fst w)) = [1%nat; 0%nat] /\ slot_acts (cur (fst w)) 10 = [].
Proof. vm_compute. repeat split; reflexivity. Qed.

(** C04 non-vacuity: a siginfo-style handler was installed for signal 10; register(10) is
    paused right after Slot::new (the disposition is the library's, the slot is not yet
    published); a delivery arriving in that window calls the old handler exactly once (through
    the fallback), three-argument convention, and runs no action. *)
Definition sched_window : list label :=
  [LSpawn (KMut (MRegister 10 7))] ++ repeat (LStep 0) 13 ++ [LSpawn (KDeliver 10)] ++ repeat (LStep 1) 11.

Example delivery_in_the_fallback_window :
  let r := run ok ok (sh_init [(10%Z, DForeign true)], []) sched_window in
  map fpc (snd (fst r)) = [MDtSwap; PDone] /\
  os_get (fst (fst r)) 10 = DLib /\ slot_acts (cur (fst (fst r))) 10 = [] /\
  filter (fun ke => Z.eqb (e_op (snd ke)) 21) (snd r) = [(1%nat, ev 21 0 10 1 1)] /\
  filter (fun ke => Z.eqb (e_op (snd ke)) 22) (snd r) = [].
Proof. vm_compute. repeat split; reflexivity. Qed.
