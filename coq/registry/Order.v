(** C02, the rest: action lists are strictly sorted by id (= registration order, each action
    once); every action in a published state stems from a register call that has started; an
    action whose registration has been published is in the current state unless a removal of it
    has got as far as loading the write guard. *)
From Coq Require Import List Arith NArith ZArith Bool Lia Sorted.
From SH Require Import base.Pool gen.Extracted_halflock gen.Extracted_registry
  halflock.Model halflock.Safety halflock.Lemmas registry.Model registry.Tactics registry.Inv registry.PcInv registry.Events
  registry.Content registry.Holder.
Import ListNotations.
Arguments Nat.modulo : simpl never.
Arguments N.ltb : simpl never.
Arguments N.of_nat : simpl never.
Local Open Scope nat_scope.

Definition sorted (l : list (N * nat)) : Prop := StronglySorted N.lt (map fst l).

Lemma sorted_insert id tag l :
  sorted l -> (forall x, In x (map fst l) -> (x < id)%N) -> sorted (insert_act id tag l).
Proof.
  unfold sorted. induction l as [|[i t] r IH]; simpl; intros Hs Hlt.
  - constructor; constructor.
  - assert (Hi : (i < id)%N) by (apply Hlt; auto).
    destruct (N.ltb id i) eqn:E; [apply N.ltb_lt in E; lia|].
    simpl. inversion Hs; subst. constructor.
    + apply IH; auto.
    + rewrite Forall_forall in *. intros x Hx. apply insert_act_in in Hx. destruct Hx as [->|Hx]; auto.
Qed.

Lemma sorted_remove id l : sorted l -> sorted (remove_act id l).
Proof.
  unfold sorted, remove_act. induction l as [|[i t] r IH]; simpl; intro Hs; [constructor|].
  inversion Hs; subst. destruct (negb (N.eqb i id)); simpl; auto.
  constructor; auto. rewrite Forall_forall in *. intros x Hx. apply H2.
  apply in_map_iff in Hx. destruct Hx as [a [Ha Hin]]. apply filter_In in Hin. apply in_map_iff. exists a. tauto.
Qed.

Lemma insert_act_has id tag l : In (id, tag) (insert_act id tag l).
Proof. induction l as [|[i t] r IH]; simpl; auto. destruct (N.ltb id i); simpl; auto. Qed.

Lemma insert_act_keeps id tag l x : In x l -> In x (insert_act id tag l).
Proof. induction l as [|[i t] r IH]; simpl; [tauto|]. destruct (N.ltb id i); simpl; intros [H|H]; auto. Qed.

Lemma remove_act_keeps id l x : In x l -> fst x <> id -> In x (remove_act id l).
Proof.
  unfold remove_act. intros Hin Hne. apply filter_In. split; auto. apply negb_true_iff. apply N.eqb_neq. assumption.
Qed.

Definition all_sorted (d : sigdata) : Prop := forall sg, sorted (slot_acts d sg).

Lemma derived_sorted c g : wf c -> all_sorted c -> derived c g -> fpc g = MDtSwap -> all_sorted (local g).
Proof.
  unfold derived, all_sorted. intros Hw Hs Hd Hpc sg'. rewrite Hpc in Hd. simpl in Hd.
  destruct (kind g) as [|[sg tag|sg id|sg]]; [contradiction| | |].
  - destruct Hd as (Hl & _ & _ & Ha). rewrite Ha. destruct (Z.eqb sg' sg); auto.
    apply sorted_insert; auto. intros x Hx. rewrite Hl. exact (Hw _ _ Hx).
  - destruct Hd as (_ & Hr). destruct (Z.eqb (res g) 1).
    + destruct Hr as (_ & _ & Ha). rewrite Ha. destruct (Z.eqb sg' sg); auto. apply sorted_remove; auto.
    + destruct Hr as [_ ->]. auto.
  - destruct Hd as (_ & Hr). destruct (Z.eqb (res g) 1).
    + destruct Hr as (_ & Ha). rewrite Ha. destruct (Z.eqb sg' sg); auto. constructor.
    + destruct Hr as [_ ->]. auto.
Qed.

(** a mutator frame that has loaded the write guard (and everything later) *)
Definition past_load (p : pc) : bool :=
  match p with
  | MFbLock | MFbLoad | MDetect | MFbSwap | MFbBarrier | MFbUnlock | MSlotNew | MDtSwap | MDtBarrier | MDtUnlock
  | MErrFbUnlock | MErrDtUnlock | PDone => true
  | _ => false
  end.

(** a register call whose new state has been published *)
Definition published (g : frame) : bool :=
  match fpc g with MDtBarrier | MDtUnlock | PDone => Z.eqb (res g) 1 | _ => false end.

Definition removal_past_load (fs : list frame) (sg : Z) (id : N) : Prop :=
  exists k h, nth_error fs k = Some h /\ (kind h = KMut (MUnregister sg id) \/ kind h = KMut (MUnregSignal sg)) /\
              past_load (fpc h) = true.

(** [res] is 1 only on the successful path after the write guard was loaded. *)
Definition res_ok (g : frame) : Prop :=
  res g = 1%Z ->
  match fpc g with
  | MFbLock | MFbLoad | MDetect | MFbSwap | MFbBarrier | MFbUnlock | MSlotNew | MDtSwap | MDtBarrier | MDtUnlock | MErrFbUnlock | PDone => True
  | _ => False
  end.

Record OrdInv (s : shared) (fs : list frame) : Prop := {
  o_res : forall k g, nth_error fs k = Some g -> res_ok g;
  o_sorted : forall p, p < length (dhist s) -> all_sorted (content s p);
  o_origin : forall p, p < length (dhist s) -> forall sg id tag, In (id, tag) (slot_acts (content s p) sg) ->
               exists k g, nth_error fs k = Some g /\ kind g = KMut (MRegister sg tag) /\ lid g = id /\ past_load (fpc g) = true;
  o_present : forall k g sg tag, nth_error fs k = Some g -> kind g = KMut (MRegister sg tag) -> published g = true ->
               In (lid g, tag) (slot_acts (cur s) sg) \/ removal_past_load fs sg (lid g)
}.

Lemma insert_act_in_pair id tag l x : In x (insert_act id tag l) -> x = (id, tag) \/ In x l.
Proof.
  induction l as [|[i t] r IH]; simpl.
  - intros [H|[]]; auto.
  - destruct (N.ltb id i); simpl.
    + intros [H|[H|H]]; auto.
    + intros [H|H]; auto. destruct (IH H); auto.
Qed.

Lemma remove_act_sub id l x : In x (remove_act id l) -> In x l.
Proof. unfold remove_act. intro H. apply filter_In in H. tauto. Qed.

Lemma published_past g : published g = true -> past_load (fpc g) = true.
Proof. unfold published. destruct (fpc g); simpl; auto; discriminate. Qed.

Section Order.
Variable q_ok s_ok : Z -> bool.
Notation fstep := (Model.fstep q_ok s_ok).

Lemma step_fields s f s' f' es :
  fstep s f = (s', f', es) ->
  kind f' = kind f /\
  (past_load (fpc f) = true -> past_load (fpc f') = true /\ lid f' = lid f) /\
  (published f = true -> published f' = true).
Proof.
  unfold Model.fstep. destruct (aborted (dt s) || aborted (fb s)); [inversion 1; auto|].
  destruct (fpc f) eqn:Hpc; try hs; split_conds;
    (let H := fresh in intro H; inversion H; subst; unfold published; simpl; rewrite ?Hpc; simpl;
     try (destruct (load_update_views f v (nth (ptr (dt s)) (dhist s) sd_init)) as (_ & _ & Lk); rewrite Lk);
     repeat split; auto; try discriminate; try congruence;
     try (match goal with |- context [in_store ?h] => destruct (in_store h) end; simpl; auto; fail);
     try (match goal with |- context [match ?vv with WIn => _ | _ => _ end] => destruct vv end; simpl; auto; fail)).
Qed.

Lemma res_ok_step s f s' f' es : res_ok f -> fstep s f = (s', f', es) -> res_ok f'.
Proof.
  unfold res_ok, Model.fstep. intro Hr. destruct (aborted (dt s) || aborted (fb s)); [inversion 1; subst; exact Hr|].
  destruct (fpc f) eqn:Hpc; try hs; split_conds;
    (let H := fresh in intro H; inversion H; subst; simpl; auto; try discriminate; try exact Hr;
     try (match goal with |- context [in_store ?h] => destruct (in_store h) end; simpl; auto);
     try (match goal with |- context [match ?vv with WIn => _ | _ => _ end] => destruct vv end; simpl; auto);
     try exact Hr; try (rewrite Hpc; auto; fail); try (let Hx := fresh in intro Hx; exfalso; apply Hr; exact Hx)).
  unfold load_update. destruct (kind f) as [|[sg tg|sg aid|sg]]; simpl; auto;
      destruct (lookup sg _) as [sl|]; simpl; auto; try discriminate; [destruct (has_act _ _)|destruct (s_acts sl)]; simpl; auto; discriminate.
Qed.

Lemma published_origin s f s' f' es :
  res_ok f -> fstep s f = (s', f', es) -> published f' = true -> published f = true \/ fpc f = MDtSwap \/ fpc f = MDtLoad.
Proof.
  unfold res_ok, Model.fstep. intro Hr. destruct (aborted (dt s) || aborted (fb s)); [inversion 1; auto|].
  destruct (fpc f) eqn:Hpc; auto; try hs; split_conds;
    (let H := fresh in intro H; inversion H; subst; unfold published; simpl; rewrite ?Hpc; simpl; auto; try discriminate;
     try (match goal with |- context [in_store ?h] => destruct (in_store h) end; simpl; auto; discriminate);
     try (match goal with |- context [match ?vv with WIn => _ | _ => _ end] => destruct vv end; simpl; auto; discriminate);
     try (let Hx := fresh in intro Hx; apply Z.eqb_eq in Hx; specialize (Hr Hx); contradiction)).
  - match goal with |- context [dispatch_next ?a ?b ?c] => destruct (dispatch_next_cases a b c) as [E2|[[l E2]|[si [l E2]]]]; rewrite E2 end; discriminate.
  - destruct (after_runs_cases acts) as [E2|[l E2]]; rewrite E2; discriminate.
  - destruct (after_runs_cases acts) as [E2|[l E2]]; rewrite E2; discriminate.
Qed.

Lemma removal_mono s fs k f s' f' es sg id :
  nth_error fs k = Some f -> fstep s f = (s', f', es) ->
  removal_past_load fs sg id -> removal_past_load (upd fs k f') sg id.
Proof.
  intros Hk Hs (j & h & Hj & Hkd & Hpl).
  assert (Hlen : k < length fs) by (apply nth_error_Some; congruence).
  destruct (Nat.eq_dec j k) as [->|Hne].
  - rewrite Hk in Hj. inversion Hj; subst h. destruct (step_fields s f s' f' es Hs) as (Hkk & Hp & _).
    exists k, f'. rewrite nth_upd_eq by assumption. rewrite Hkk. split; [reflexivity|]. split; [assumption|apply Hp; assumption].
  - exists j, h. rewrite nth_upd_neq by assumption. auto.
Qed.

Lemma ordinv_step s fs k f s' f' es :
  Inv3 (s, fs) -> OrdInv s fs -> nth_error fs k = Some f -> fstep s f = (s', f', es) -> OrdInv s' (upd fs k f').
Proof.
  intros HI HO Hk Hs. pose proof HI as [[HP HC] HH]. simpl in HP, HC, HH.
  pose proof HP as [[Hd Hf] Hfr]. pose proof (Hfr k f Hk) as Hfok.
  assert (Hlen : k < length fs) by (apply nth_error_Some; congruence).
  destruct (step_fields s f s' f' es Hs) as (Hkind & Hpast & Hpubl).
  assert (Hptr_lt : ptr (dt s) < length (dhist s)) by (rewrite (c_dlen _ _ HC); apply (i_ptr _ _ Hd)).
  (* frames keep their identity as registration witnesses *)
  assert (Hwit : forall j g sg tag id, nth_error fs j = Some g -> kind g = KMut (MRegister sg tag) -> lid g = id -> past_load (fpc g) = true ->
            exists j' g', nth_error (upd fs k f') j' = Some g' /\ kind g' = KMut (MRegister sg tag) /\ lid g' = id /\ past_load (fpc g') = true).
  { intros j g sg tag id Hj Hkd Hl Hpl. destruct (Nat.eq_dec j k) as [->|Hne].
    - rewrite Hk in Hj. inversion Hj; subst g. exists k, f'. rewrite nth_upd_eq by assumption.
      destruct (Hpast Hpl) as [A B]. rewrite Hkind, B. auto.
    - exists j, g. rewrite nth_upd_neq by assumption. auto. }
  destruct (fstep_dt_nxt q_ok s_ok _ _ _ _ _ Hfok Hs) as [(Hn & Hp & Hh)|(Hpc & Hv & Hc & Hn & Hp & Hh & Hst)].
  - (* no publication *)
    assert (Hcur : cur s' = cur s) by (unfold cur, content; rewrite Hp, Hh; reflexivity).
    constructor.
    + intros j g Hj. apply nth_upd_cases in Hj. destruct Hj as [(-> & _ & ->)|[Hne Hj]];
        [eapply res_ok_step; [exact (o_res _ _ HO k f Hk)|exact Hs]|exact (o_res _ _ HO j g Hj)].
    + intros p Hlt. unfold content. rewrite Hh in *. apply (o_sorted _ _ HO p Hlt).
    + intros p Hlt sg id tag Hin. unfold content in Hin. rewrite Hh in *.
      destruct (o_origin _ _ HO p Hlt sg id tag Hin) as (j & g & Hj & Hkd & Hl & Hpl). eauto.
    + intros j g sg tag Hj Hkd Hpub. rewrite Hcur. apply nth_upd_cases in Hj. destruct Hj as [(-> & _ & ->)|[Hne Hj]].
      * rewrite Hkind in Hkd.
        assert (Hpf : published f = true).
        { destruct (published_origin s f s' f' es (o_res _ _ HO k f Hk) Hs Hpub) as [Hx|[Hx|Hx]]; [assumption| |].
          - (* MDtSwap without publication is impossible *)
            exfalso. destruct Hfok as [Hok _]. unfold pc_ok in Hok. rewrite Hx in Hok. destruct Hok as (_ & Hvd & Hcr).
            unfold Model.fstep in Hs. destruct (aborted (dt s) || aborted (fb s)) eqn:Hab.
            + inversion Hs; subst. unfold published in Hpub. rewrite Hx in Hpub. discriminate.
            + apply orb_false_iff in Hab. destruct Hab as [Had Haf]. rewrite Hx in Hs. rewrite Hvd in Hs. unfold hstep in Hs. rewrite Had, Hcr in Hs.
              inversion Hs; subst. simpl in Hn. lia.
          - (* MDtLoad: a register call never goes straight to the unlock *)
            exfalso. unfold Model.fstep in Hs. destruct (aborted (dt s) || aborted (fb s)) eqn:Hab.
            + inversion Hs; subst. unfold published in Hpub. rewrite Hx in Hpub. discriminate.
            + rewrite Hx in Hs. hsin Hs. inversion Hs; subst. unfold published, load_update in Hpub. rewrite Hkd in Hpub.
              destruct (lookup sg _); simpl in Hpub; discriminate. }
        destruct (Hpast (published_past f Hpf)) as [_ Hl]. rewrite Hl.
        destruct (o_present _ _ HO k f sg tag Hk Hkd Hpf) as [Hin|Hr]; [left; assumption|right; eapply removal_mono; eauto].
      * destruct (o_present _ _ HO j g sg tag Hj Hkd Hpub) as [Hin|Hr]; [left; assumption|right; eapply removal_mono; eauto].
  - (* the publishing step *)
    assert (Hcur' : cur s' = local f).
    { unfold cur, content. rewrite Hp, Hh, <- (c_dlen _ _ HC). rewrite app_nth2 by lia. rewrite Nat.sub_diag. reflexivity. }
    assert (Hder : derived (cur s) f) by (apply (h_pre _ _ HH k f Hk Hv); left; rewrite Hpc; reflexivity).
    assert (Hwfc : wf (cur s)) by (unfold cur; apply (h_wf _ _ HH); assumption).
    assert (Hsc : all_sorted (cur s)) by (unfold cur; apply (o_sorted _ _ HO); assumption).
    assert (Hf' : fpc f' = MDtBarrier /\ res f' = res f /\ lid f' = lid f).
    { unfold Model.fstep in Hs. destruct (aborted (dt s) || aborted (fb s)) eqn:Hab.
      - inversion Hs; subst. lia.
      - apply orb_false_iff in Hab. destruct Hab as [Had Haf]. rewrite Hpc in Hs. rewrite Hv in Hs. unfold hstep in Hs. rewrite Had, Hc in Hs.
        inversion Hs; subst. simpl. auto. }
    destruct Hf' as (Hpc' & Hres' & Hlid').
    constructor.
    + intros j g Hj. apply nth_upd_cases in Hj. destruct Hj as [(-> & _ & ->)|[Hne Hj]];
        [eapply res_ok_step; [exact (o_res _ _ HO k f Hk)|exact Hs]|exact (o_res _ _ HO j g Hj)].
    + intros p Hlt. unfold content. rewrite Hh in *. rewrite app_length in Hlt. simpl in Hlt.
      destruct (Nat.eq_dec p (length (dhist s))) as [->|Hne].
      * rewrite app_nth2 by lia. rewrite Nat.sub_diag. simpl. exact (derived_sorted _ _ Hwfc Hsc Hder Hpc).
      * rewrite app_nth1 by lia. apply (o_sorted _ _ HO). lia.
    + intros p Hlt sg id tag Hin. unfold content in Hin. rewrite Hh in *. rewrite app_length in Hlt. simpl in Hlt.
      destruct (Nat.eq_dec p (length (dhist s))) as [->|Hne].
      * rewrite app_nth2 in Hin by lia. rewrite Nat.sub_diag in Hin. simpl in Hin.
        assert (Hcase : In (id, tag) (slot_acts (cur s) sg) \/ (kind f = KMut (MRegister sg tag) /\ lid f = id)).
        { unfold derived in Hder. rewrite Hpc in Hder. simpl in Hder.
          destruct (kind f) as [|[sg0 tag0|sg0 id0|sg0]]; [contradiction| | |].
          - destruct Hder as (_ & _ & _ & Ha). rewrite Ha in Hin. destruct (Z.eqb sg sg0) eqn:E; [|auto].
            apply Z.eqb_eq in E. subst sg0. apply insert_act_in_pair in Hin. destruct Hin as [Heq|Hin]; [|auto].
            inversion Heq; subst. right. auto.
          - destruct Hder as (_ & Hr). destruct (Z.eqb (res f) 1).
            + destruct Hr as (_ & _ & Ha). rewrite Ha in Hin. destruct (Z.eqb sg sg0) eqn:E; [apply Z.eqb_eq in E; subst sg0; apply remove_act_sub in Hin|]; auto.
            + destruct Hr as [_ Hl]. rewrite Hl in Hin. auto.
          - destruct Hder as (_ & Hr). destruct (Z.eqb (res f) 1).
            + destruct Hr as (_ & Ha). rewrite Ha in Hin. destruct (Z.eqb sg sg0); [destruct Hin|auto].
            + destruct Hr as [_ Hl]. rewrite Hl in Hin. auto. }
        destruct Hcase as [Hin0|[Hkd Hl]].
        -- destruct (o_origin _ _ HO (ptr (dt s)) Hptr_lt sg id tag Hin0) as (j & g & Hj & Hkd & Hl & Hpl). eauto.
        -- exists k, f'. rewrite nth_upd_eq by assumption. rewrite Hkind, Hpc', Hlid'. auto.
      * rewrite app_nth1 in Hin by lia.
        destruct (o_origin _ _ HO p ltac:(lia) sg id tag Hin) as (j & g & Hj & Hkd & Hl & Hpl). eauto.
    + intros j g sg tag Hj Hkd Hpub. rewrite Hcur'.
      assert (Hsub : forall x, In x (slot_acts (cur s) sg) ->
                In x (slot_acts (local f) sg) \/
                ((kind f = KMut (MUnregister sg (fst x)) \/ kind f = KMut (MUnregSignal sg)) /\ res f = 1%Z)).
      { intros x Hx. unfold derived in Hder. rewrite Hpc in Hder. simpl in Hder.
        destruct (kind f) as [|[sg0 tag0|sg0 id0|sg0]]; [contradiction| | |].
        - destruct Hder as (_ & _ & _ & Ha). rewrite Ha. left. destruct (Z.eqb sg sg0) eqn:E; [|assumption].
          apply Z.eqb_eq in E. subst. apply insert_act_keeps. assumption.
        - destruct Hder as (_ & Hr). destruct (Z.eqb (res f) 1) eqn:Er.
          + destruct Hr as (_ & _ & Ha). rewrite Ha. destruct (Z.eqb sg sg0) eqn:E; [|auto].
            apply Z.eqb_eq in E. subst sg0. destruct (N.eq_dec (fst x) id0) as [<-|Hne].
            * right. apply Z.eqb_eq in Er. auto.
            * left. apply remove_act_keeps; assumption.
          + destruct Hr as [_ Hl]. rewrite Hl. auto.
        - destruct Hder as (_ & Hr). destruct (Z.eqb (res f) 1) eqn:Er.
          + destruct Hr as (_ & Ha). rewrite Ha. destruct (Z.eqb sg sg0) eqn:E; [|auto].
            apply Z.eqb_eq in E. subst sg0. right. apply Z.eqb_eq in Er. auto.
          + destruct Hr as [_ Hl]. rewrite Hl. auto. }
      apply nth_upd_cases in Hj. destruct Hj as [(-> & _ & ->)|[Hne Hj]].
      * (* the publishing frame itself is a register call *)
        rewrite Hkind in Hkd. left. rewrite Hlid'.
        unfold derived in Hder. rewrite Hpc, Hkd in Hder. simpl in Hder. destruct Hder as (_ & _ & _ & Ha).
        rewrite Ha, Z.eqb_refl. apply insert_act_has.
      * destruct (o_present _ _ HO j g sg tag Hj Hkd Hpub) as [Hin|Hr]; [|right; eapply removal_mono; eauto].
        destruct (Hsub _ Hin) as [Hin'|[Hkf Hr1]]; [left; assumption|].
        right. exists k, f'. rewrite nth_upd_eq by assumption. rewrite Hkind, Hpc'. simpl in Hkf. auto.
Qed.

End Order.

Section OrderRun.
Variable q_ok s_ok : Z -> bool.

Lemma ordinv_init os0 : OrdInv (sh_init os0) [].
Proof.
  constructor.
  - intros [|k] g H; discriminate.
  - intros p Hp sg. simpl in Hp. assert (p = 0) by lia. subst. unfold content, slot_acts. simpl. constructor.
  - intros p Hp sg id tag Hin. simpl in Hp. assert (p = 0) by lia. subst. unfold content, slot_acts in Hin. simpl in Hin. destruct Hin.
  - intros [|k] g sg tag H; discriminate.
Qed.

Definition Inv5 (w : world) : Prop := Inv3 w /\ OrdInv (fst w) (snd w).

Lemma inv5_wstep w l w' es : Inv5 w -> Model.wstep q_ok s_ok w l = (w', es) -> Inv5 w'.
Proof.
  intros [HI HO] Hs. split; [eapply inv3_wstep; eauto|].
  destruct w as [s fs]. simpl in *. destruct l as [k|kd]; simpl in Hs.
  - destruct (nth_error fs k) as [f|] eqn:Hn.
    + destruct (Model.fstep q_ok s_ok s f) as [[s1 f1] e1] eqn:Hf. inversion Hs; subst. simpl. eapply ordinv_step; eauto.
    + inversion Hs; subst. assumption.
  - inversion Hs; subst. simpl. destruct HO as [A B C D]. constructor; auto.
    + intros j g Hj. apply nth_app_cases in Hj. destruct Hj as [Hj|[_ ->]]; [eauto|]. unfold res_ok. destruct kd; simpl; discriminate.
    + intros p Hp sg id tag Hin. destruct (C p Hp sg id tag Hin) as (j & g & Hj & R). exists j, g. split; [|exact R].
      rewrite nth_error_app1; [assumption|]. apply nth_error_Some. congruence.
    + intros j g sg tag Hj Hkd Hpub. apply nth_app_cases in Hj. destruct Hj as [Hj|[_ ->]].
      * destruct (D j g sg tag Hj Hkd Hpub) as [Hin|(i & h & Hi & R)]; [left; assumption|].
        right. exists i, h. split; [|exact R]. rewrite nth_error_app1; [assumption|]. apply nth_error_Some. congruence.
      * destruct kd; discriminate.
Qed.

Lemma inv5_run ls : forall w w' es, Inv5 w -> Model.run q_ok s_ok w ls = (w', es) -> Inv5 w'.
Proof.
  induction ls as [|l r IH]; intros w w' es H Hr; simpl in Hr.
  - inversion Hr; subst. assumption.
  - destruct (Model.wstep q_ok s_ok w l) as [w1 e1] eqn:Hw. destruct (Model.run q_ok s_ok w1 r) as [w2 e2] eqn:Hr2.
    inversion Hr; subst. eapply IH; [|eauto]. eapply inv5_wstep; eauto.
Qed.

Lemma inv5_init os0 : Inv5 (sh_init os0, []).
Proof. split; [apply inv3_init|apply ordinv_init]. Qed.

(** The list a delivery runs is strictly increasing in action id: registration order, and no
    action twice. *)
Theorem delivery_order os0 ls s fs es :
  Model.run q_ok s_ok (sh_init os0, []) ls = ((s, fs), es) ->
  forall k g p, nth_error fs k = Some g -> snap g = Some p ->
    StronglySorted N.lt (map fst (ran g ++ pending g)).
Proof.
  intros Hr k g p Hk Hsn.
  pose proof (inv5_run ls _ _ _ (inv5_init os0) Hr) as [[[_ HC] _] HO]. simpl in HC, HO.
  pose proof (c_reader _ _ HC k g Hk) as H. unfold reader_ok in H. rewrite Hsn in H. destruct H as (Hp & He & _).
  rewrite He. apply (o_sorted _ _ HO p Hp).
Qed.

(** Every action a delivery runs was registered by a register call for that very signal that
    had started (it had already taken its id from its clone) - nothing is invented, and actions
    of other signals are never run. *)
Theorem delivery_runs_registered_actions os0 ls s fs es :
  Model.run q_ok s_ok (sh_init os0, []) ls = ((s, fs), es) ->
  forall k g p id tag, nth_error fs k = Some g -> snap g = Some p -> In (id, tag) (ran g ++ pending g) ->
    exists j r, nth_error fs j = Some r /\ kind r = KMut (MRegister (sig_of (kind g)) tag) /\ lid r = id /\ past_load (fpc r) = true.
Proof.
  intros Hr k g p id tag Hk Hsn Hin.
  pose proof (inv5_run ls _ _ _ (inv5_init os0) Hr) as [[[_ HC] _] HO]. simpl in HC, HO.
  pose proof (c_reader _ _ HC k g Hk) as H. unfold reader_ok in H. rewrite Hsn in H. destruct H as (Hp & He & _).
  rewrite He in Hin. exact (o_origin _ _ HO p Hp _ id tag Hin).
Qed.

(** An action whose registration has been published (in particular: has returned) and of which
    no removal has got as far as loading the write guard (in particular: none has begun) is in
    the list of every delivery of that signal that loads its snapshot now. *)
Theorem registered_action_is_loaded os0 ls s fs es :
  Model.run q_ok s_ok (sh_init os0, []) ls = ((s, fs), es) ->
  forall k g sg tag, nth_error fs k = Some g -> kind g = KMut (MRegister sg tag) -> published g = true ->
    ~ removal_past_load fs sg (lid g) ->
    forall j d s' d' es', nth_error fs j = Some d -> kind d = KDeliver sg -> fpc d = PDtPtr ->
      aborted (dt s) = false -> aborted (fb s) = false ->
      Model.fstep q_ok s_ok s d = (s', d', es') ->
      In (lid g, tag) (pending d') /\ ran d' = ran d.
Proof.
  intros Hr k g sg tag Hk Hkd Hpub Hnr j d s' d' es' Hj Hkdd Hpc Had Haf Hs.
  pose proof (inv5_run ls _ _ _ (inv5_init os0) Hr) as [[[[_ Hfr] _] _] HO]. simpl in Hfr, HO.
  destruct (load_reads_current q_ok s_ok s d s' d' es' (Hfr j d Hj) Hpc Had Haf Hs) as (_ & Hran & Hpend & _).
  split; [|assumption]. rewrite Hpend, Hkdd. simpl.
  destruct (o_present _ _ HO k g sg tag Hk Hkd Hpub) as [Hin|Hx]; [assumption|contradiction].
Qed.

End OrderRun.
