(** The base invariant of the concurrent registry model: both half-locks satisfy the half-lock
    invariant for the views of all activities, snapshot histories match the allocation
    counters, and every frame's program counter agrees with its views and with the
    critical-section state of the locks it holds. *)
From Coq Require Import List Arith NArith ZArith Bool Lia.
From SH Require Import base.Pool gen.Extracted_halflock gen.Extracted_registry
  halflock.Model halflock.Safety halflock.Lemmas registry.Model.
Import ListNotations.

Section Inv.
Variable q_ok s_ok : Z -> bool.
Notation fstep := (fstep q_ok s_ok).
Notation wstep := (wstep q_ok s_ok).
Notation run := (run q_ok s_ok).

(** * What one frame step does to each half-lock *)

Lemma load_update_views f v c : vdt (load_update f v c) = v /\ vfb (load_update f v c) = vfb f /\ kind (load_update f v c) = kind f.
Proof.
  unfold load_update. destruct (kind f) as [sg|m] eqn:Hk; [simpl; auto|].
  destruct m as [sg tag|sg aid|sg]; destruct (lookup sg (slots c)) as [sl|]; simpl; auto.
  - destruct (has_act aid (s_acts sl)); simpl; auto.
  - destruct (s_acts sl); simpl; auto.
Qed.

Ltac hs :=
  match goal with
  | |- context [hstep ?a ?b ?c] => let E := fresh "E" in destruct (hstep a b c) as [[? ?] ?] eqn:E
  end.

Ltac split_conds :=
  repeat match goal with
  | |- context [match os_get ?s ?x with _ => _ end] => destruct (os_get s x)
  | |- context [if q_ok ?x then _ else _] => destruct (q_ok x)
  | |- context [if s_ok ?x then _ else _] => destruct (s_ok x)
  | |- context [if existsb ?a ?b then _ else _] => destruct (existsb a b)
  | |- context [match kind ?f with _ => _ end] => destruct (kind f) as [|[]]
  | |- (match ?l with [] => _ | _ => _ end) = _ -> _ => destruct l
  end.

Ltac fin :=
  let H := fresh "H" in
  intro H; inversion H; subst; clear H; simpl;
  try match goal with |- context [load_update ?f ?v ?c] => let L1 := fresh "L" in let L2 := fresh "L" in
                 destruct (load_update_views f v c) as (L1 & L2 & _); rewrite ?L1, ?L2 end;
  eauto.

Lemma fstep_dt s f s' f' es :
  fstep s f = (s', f', es) ->
  (dt s' = dt s /\ vdt f' = vdt f) \/ exists o e, hstep (dt s) (vdt f) o = (dt s', vdt f', e).
Proof.
  unfold Model.fstep. destruct (aborted (dt s) || aborted (fb s)); [inversion 1; auto|].
  destruct (fpc f); try hs; split_conds; fin.
Qed.

Lemma fstep_fb s f s' f' es :
  fstep s f = (s', f', es) ->
  (fb s' = fb s /\ vfb f' = vfb f) \/ exists o e, hstep (fb s) (vfb f) o = (fb s', vfb f', e).
Proof.
  unfold Model.fstep. destruct (aborted (dt s) || aborted (fb s)); [inversion 1; auto|].
  destruct (fpc f); try hs; split_conds; fin.
Qed.

(** * The half-lock invariants for the whole pool *)

Definition HL2 (s : shared) (fs : list frame) : Prop :=
  HInv (dt s) (map vdt fs) /\ HInv (fb s) (map vfb fs).

Lemma hl2_step s fs k f s' f' es :
  HL2 s fs -> nth_error fs k = Some f -> fstep s f = (s', f', es) -> HL2 s' (upd fs k f').
Proof.
  intros [Hd Hf] Hn Hs. split; rewrite map_upd.
  - destruct (fstep_dt _ _ _ _ _ Hs) as [[-> ->]|(o & e & Hh)].
    + rewrite upd_same; [assumption|]. apply nth_map_some. assumption.
    + eapply hinv_step; eauto. apply (nth_map_some vdt) in Hn. exact Hn.
  - destruct (fstep_fb _ _ _ _ _ Hs) as [[-> ->]|(o & e & Hh)].
    + rewrite upd_same; [assumption|]. apply nth_map_some. assumption.
    + eapply hinv_step; eauto. apply (nth_map_some vfb) in Hn. exact Hn.
Qed.

Lemma hl2_spawn s fs k : HL2 s fs -> HL2 s (fs ++ [mk_frame k]).
Proof.
  intros [Hd Hf]. split; rewrite map_app; simpl; apply hinv_spawn; assumption.
Qed.

Lemma hl2_init os0 : HL2 (sh_init os0) [].
Proof. split; simpl; apply hinv_init. Qed.

Lemma hl2_wstep w l w' es : HL2 (fst w) (snd w) -> wstep w l = (w', es) -> HL2 (fst w') (snd w').
Proof.
  destruct w as [s fs]. simpl. intros H Hs. destruct l as [k|kd]; simpl in Hs.
  - destruct (nth_error fs k) as [f|] eqn:Hn.
    + destruct (Model.fstep q_ok s_ok s f) as [[s1 f1] e1] eqn:Hf. inversion Hs; subst. simpl.
      eapply hl2_step; eauto.
    + inversion Hs; subst. assumption.
  - inversion Hs; subst. simpl. apply hl2_spawn. assumption.
Qed.

Lemma hl2_run ls : forall w w' es, HL2 (fst w) (snd w) -> run w ls = (w', es) -> HL2 (fst w') (snd w').
Proof.
  induction ls as [|l r IH]; intros w w' es H Hr; simpl in Hr.
  - inversion Hr; subst. assumption.
  - destruct (Model.wstep q_ok s_ok w l) as [w1 e1] eqn:Hw. destruct (Model.run q_ok s_ok w1 r) as [w2 e2] eqn:Hr2.
    inversion Hr; subst. eapply IH; [|eauto]. eapply hl2_wstep; eauto.
Qed.

(** * No use after free, in every reachable world (first part of C01) *)

Theorem no_use_after_free os0 ls s fs es :
  run (sh_init os0, []) ls = ((s, fs), es) ->
  forall k f i p, nth_error fs k = Some f ->
    (vdt f = RHold i p -> ~ In p (freed (dt s))) /\ (vfb f = RHold i p -> ~ In p (freed (fb s))).
Proof.
  intros Hr k f i p Hn.
  pose proof (hl2_run ls (sh_init os0, []) (s, fs) es (hl2_init os0) Hr) as [Hd Hf]. simpl in *.
  split; intro Hv.
  - apply (hinv_safe _ _ Hd k i p). rewrite nth_error_map, Hn. simpl. congruence.
  - apply (hinv_safe _ _ Hf k i p). rewrite nth_error_map, Hn. simpl. congruence.
Qed.

(** No snapshot is released twice, and only snapshots that were allocated. *)
Theorem no_double_free os0 ls s fs es :
  run (sh_init os0, []) ls = ((s, fs), es) -> NoDup (freed (dt s)) /\ NoDup (freed (fb s)).
Proof.
  intros Hr.
  pose proof (hl2_run ls (sh_init os0, []) (s, fs) es (hl2_init os0) Hr) as [Hd Hf]. simpl in *.
  split; [apply (i_freed _ _ Hd)|apply (i_freed _ _ Hf)].
Qed.

End Inv.
