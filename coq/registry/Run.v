(** Executable entry point of the concurrent registry model for the lock-step correspondence.
    Input (integers), same encoding as harness/src/bin/ls_registry.rs:
      ndisp (sig kind)*  nsetup (k a b)*  nacts (k a b)*  nsched act*
    disposition kind 0 default, 1 ignore, 2 plain handler, 3 siginfo handler;
    op kind 1 deliver sig=a, 2 register sig=a tag=b, 3 unregister (a-th successful set-up
    registration), 4 unregister_signal sig=a.
    Output: 6 integers per event (activity, op, location, argument, result, ok), then -1 and one
    finished flag per activity.  After the schedule every unfinished activity is stepped
    round-robin (as the harness does).  Epochs are renumbered relative to the start of the
    scheduled part: the snapshot current then is 0, later allocations 1, 2, ... *)
From Coq Require Import List Arith NArith ZArith Bool.
From SH Require Import base.Pool gen.Extracted_halflock gen.Extracted_registry halflock.Model registry.Model.
Import ListNotations.
Open Scope Z_scope.

Definition all_ok (_ : Z) : bool := true.

(** OS verdicts of this platform as measured by the probes of C14 are not needed here: the
    lock-step scenarios only use valid catchable signals. *)
Definition step1 := fstep all_ok all_ok.

Fixpoint solo (fuel : nat) (s : shared) (f : frame) : shared * frame :=
  match fuel with
  | O => (s, f)
  | S n => match fpc f with
           | PDone => (s, f)
           | _ => let '(s', f', _) := step1 s f in solo n s' f'
           end
  end.

Fixpoint take3 (n : nat) (l : list Z) : list (Z * Z * Z) * list Z :=
  match n with
  | O => ([], l)
  | S n' => match l with
            | a :: b :: c :: r => let '(x, rest) := take3 n' r in ((a, b, c) :: x, rest)
            | _ => ([], [])
            end
  end.
Fixpoint take2 (n : nat) (l : list Z) : list (Z * Z) * list Z :=
  match n with
  | O => ([], l)
  | S n' => match l with
            | a :: b :: r => let '(x, rest) := take2 n' r in ((a, b) :: x, rest)
            | _ => ([], [])
            end
  end.

Definition disp_of (k : Z) : disp :=
  if k =? 1 then DIgn else if k =? 2 then DForeign false else if k =? 3 then DForeign true else DDfl.

Definition kind_of (regs : list (Z * N)) (o : Z * Z * Z) : fkind :=
  let '(k, a, b) := o in
  if k =? 1 then KDeliver a
  else if k =? 2 then KMut (MRegister a (Z.to_nat b))
  else if k =? 3 then match nth_error regs (Z.to_nat a) with
                      | Some (sg, id) => KMut (MUnregister sg id)
                      | None => KMut (MUnregister 0 0%N)
                      end
  else KMut (MUnregSignal a).

Fixpoint do_setup (s : shared) (regs : list (Z * N)) (ops : list (Z * Z * Z)) : shared * list (Z * N) :=
  match ops with
  | [] => (s, regs)
  | o :: r =>
      let k := kind_of regs o in
      let '(s', f') := solo 2000 s (mk_frame k) in
      let regs' := match k with
                   | KMut (MRegister sg _) => if res f' =? 1 then regs ++ [(sg, lid f')] else regs
                   | _ => regs
                   end in
      do_setup s' regs' r
  end.

Definition done (f : frame) : bool := match fpc f with PDone => true | _ => false end.

Fixpoint run_sched (w : world) (sch : list Z) : world * list (nat * hev) :=
  match sch with
  | [] => (w, [])
  | k :: r => let '(w1, e1) := wstep all_ok all_ok w (LStep (Z.to_nat k)) in
              let '(w2, e2) := run_sched w1 r in (w2, e1 ++ e2)
  end.

(** The harness decides which activities are alive at the beginning of each round. *)
Definition alive (w : world) : list nat :=
  filter (fun k => match nth_error (snd w) k with Some f => negb (done f) | None => false end) (seq 0 (length (snd w))).

Fixpoint wstep_round (w : world) (ks : list nat) : world * list (nat * hev) :=
  match ks with
  | [] => (w, [])
  | k :: r => let '(w1, e1) := wstep all_ok all_ok w (LStep k) in
              let '(w2, e2) := wstep_round w1 r in (w2, e1 ++ e2)
  end.

Fixpoint drain (fuel : nat) (w : world) : world * list (nat * hev) :=
  match fuel with
  | O => (w, [])
  | S n => match alive w with
           | [] => (w, [])
           | ks => let '(w1, e1) := wstep_round w ks in
                   let '(w2, e2) := drain n w1 in (w2, e1 ++ e2)
           end
  end.

Definition canon_epoch (base nxt0 : nat) (e : Z) : Z :=
  if e =? Z.of_nat base then 0 else e - Z.of_nat nxt0 + 1.

Definition canon (bd nd bf nf : nat) (e : hev) : hev :=
  let fix_ptr (base nx : nat) :=
    if e_op e =? 0 then ev (e_op e) (e_loc e) (e_arg e) (canon_epoch base nx (e_res e)) (e_ok e)
    else if e_op e =? 2 then ev (e_op e) (e_loc e) (canon_epoch base nx (e_arg e)) (canon_epoch base nx (e_res e)) (e_ok e)
    else if e_op e =? 11 then ev (e_op e) (e_loc e) (canon_epoch base nx (e_arg e)) (e_res e) (e_ok e)
    else e in
  if e_loc e =? 1 then fix_ptr bd nd else if e_loc e =? 11 then fix_ptr bf nf else e.

Definition flat (bd nd bf nf : nat) (es : list (nat * hev)) : list Z :=
  flat_map (fun ke => let e := canon bd nd bf nf (snd ke) in
                      [Z.of_nat (fst ke); e_op e; e_loc e; e_arg e; e_res e; e_ok e]) es.

Definition run_registry (inp : list Z) : list Z :=
  match inp with
  | nd :: r0 =>
      let '(disps, r1) := take2 (Z.to_nat nd) r0 in
      match r1 with
      | ns :: r2 =>
          let '(setup, r3) := take3 (Z.to_nat ns) r2 in
          match r3 with
          | na :: r4 =>
              let '(acts, r5) := take3 (Z.to_nat na) r4 in
              match r5 with
              | nsch :: sch =>
                  let s0 := sh_init (map (fun d => (fst d, disp_of (snd d))) disps) in
                  let '(s1, regs) := do_setup s0 [] setup in
                  let fs := map (fun o => mk_frame (kind_of regs o)) acts in
                  let bd := ptr (dt s1) in let ndx := nxt (dt s1) in
                  let bf := ptr (fb s1) in let nfx := nxt (fb s1) in
                  let '(w1, e1) := run_sched (s1, fs) (firstn (Z.to_nat nsch) sch) in
                  let '(w2, e2) := drain 3000 w1 in
                  flat bd ndx bf nfx (e1 ++ e2) ++ [-1] ++ map (fun f => bz (done f)) (snd w2)
              | _ => [-99]
              end
          | _ => [-99]
          end
      | _ => [-99]
      end
  | _ => [-99]
  end.
