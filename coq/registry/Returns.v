(** Return values of the removal calls versus the ghost list of removed actions. *)
From Coq Require Import List Arith NArith ZArith Bool Lia.
From SH Require Import base.Pool gen.Extracted_halflock gen.Extracted_registry
  halflock.Model halflock.Safety halflock.Lemmas registry.Model registry.Tactics registry.Inv registry.PcInv registry.Events
  registry.Content registry.Holder registry.Quiesce.
Import ListNotations.
Local Open Scope nat_scope.

Definition ret_ok (g : frame) : Prop :=
  match kind g with
  | KMut (MUnregister sg id) => res g = 1%Z -> removed g = [id]
  | _ => True
  end.

Section Returns.
Variable q_ok s_ok : Z -> bool.
Notation fstep := (Model.fstep q_ok s_ok).

Lemma res_step s f s' f' es :
  fstep s f = (s', f', es) -> fpc f <> MDtLoad -> res f' = res f \/ res f' = 0%Z.
Proof.
  unfold Model.fstep. destruct (aborted (dt s) || aborted (fb s)); [inversion 1; auto|].
  destruct (fpc f) eqn:Hpc; try congruence; try hs; split_conds;
    (let H := fresh in intro H; inversion H; subst; simpl; auto).
Qed.

Lemma ret_ok_step s f s' f' es : kind_ok f -> ret_ok f -> fstep s f = (s', f', es) -> ret_ok f'.
Proof.
  intros Hk Hr Hs. destruct (pc_eq_dec_load (fpc f)) as [Hl|Hnl].
  - unfold Model.fstep in Hs. destruct (aborted (dt s) || aborted (fb s)); [inversion Hs; subst; assumption|].
    rewrite Hl in Hs. hsin Hs. inversion Hs; subst. unfold ret_ok, load_update.
    destruct (kind f) as [sg|[sg tag|sg aid|sg]] eqn:Ek; simpl; rewrite ?Ek; auto;
      destruct (lookup sg _) as [sl|]; simpl; rewrite ?Ek; auto; try discriminate.
    + destruct (has_act aid (s_acts sl)); simpl; rewrite ?Ek; auto; discriminate.
    + destruct (s_acts sl); simpl; rewrite ?Ek; auto.
  - destruct (removed_preserved q_ok s_ok s f s' f' es Hs Hnl) as [Hrm Hkd].
    destruct (res_step s f s' f' es Hs Hnl) as [Hres|Hres]; unfold ret_ok in *; rewrite Hkd;
      destruct (kind f) as [|[sg tag|sg aid|sg]]; auto; rewrite Hrm, Hres; auto; discriminate.
Qed.

Lemma ret_ok_run ls : forall w w' es,
  Inv4 w -> (forall k g, nth_error (snd w) k = Some g -> ret_ok g) ->
  Model.run q_ok s_ok w ls = (w', es) -> forall k g, nth_error (snd w') k = Some g -> ret_ok g.
Proof.
  induction ls as [|l r IH]; intros w w' es HI H Hr; simpl in Hr.
  - inversion Hr; subst. assumption.
  - destruct (Model.wstep q_ok s_ok w l) as [w1 e1] eqn:Hw. destruct (Model.run q_ok s_ok w1 r) as [w2 e2] eqn:Hr2.
    inversion Hr; subst. eapply IH; [eapply inv4_wstep; eauto| |eauto].
    destruct w as [s fs]. simpl in *. destruct l as [k|kd]; simpl in Hw.
    + destruct (nth_error fs k) as [f|] eqn:Hn.
      * destruct (fstep s f) as [[s1 f1] e0] eqn:Hf. inversion Hw; subst. simpl.
        intros j g Hj. apply nth_upd_cases in Hj. destruct Hj as [(-> & _ & ->)|[_ Hj]]; [|eauto].
        destruct HI as [[[[_ Hfr] _] _] _]. simpl in Hfr. destruct (Hfr k f Hn) as [_ Hk].
        eapply ret_ok_step; eauto.
      * inversion Hw; subst. assumption.
    + inversion Hw; subst. simpl. intros j g Hj. apply nth_app_cases in Hj. destruct Hj as [Hj|[_ ->]]; [eauto|].
      unfold ret_ok. destruct kd as [|[]]; simpl; auto. discriminate.
Qed.

(** C01, in terms of the API: after [unregister(id)] has returned true - in the world of the
    return and in every later world - no delivery of that signal has the action still to run,
    and the current registry state does not contain it. *)
Theorem unregister_true_is_quiescent os0 ls s fs es :
  Model.run q_ok s_ok (sh_init os0, []) ls = ((s, fs), es) ->
  forall k g sg id, nth_error fs k = Some g -> kind g = KMut (MUnregister sg id) -> fpc g = PDone -> res g = 1%Z ->
    (forall j h, nth_error fs j = Some h -> sig_of (kind h) = sg -> ~ In id (map fst (pending h))) /\
    ~ In id (map fst (slot_acts (cur s) sg)).
Proof.
  intros Hr k g sg id Hk Hkd Hd Hres.
  assert (Hro : ret_ok g).
  { eapply (ret_ok_run ls (sh_init os0, []) (s, fs) es (inv4_init os0)); eauto. intros [|j] h H; discriminate. }
  unfold ret_ok in Hro. rewrite Hkd in Hro. specialize (Hro Hres).
  pose proof (removal_is_quiescent q_ok s_ok os0 ls s fs es Hr k g id Hk Hd) as H.
  rewrite Hro in H. specialize (H (or_introl eq_refl)). rewrite Hkd in H. simpl in H. exact H.
Qed.

(** The same for [unregister_signal]: every action it removed (the ghost list [removed], which
    is the id list of the signal's slot in the state it replaced, see [Holder.derived]). *)
Theorem unregister_signal_is_quiescent os0 ls s fs es :
  Model.run q_ok s_ok (sh_init os0, []) ls = ((s, fs), es) ->
  forall k g sg id, nth_error fs k = Some g -> kind g = KMut (MUnregSignal sg) -> fpc g = PDone -> In id (removed g) ->
    (forall j h, nth_error fs j = Some h -> sig_of (kind h) = sg -> ~ In id (map fst (pending h))) /\
    ~ In id (map fst (slot_acts (cur s) sg)).
Proof.
  intros Hr k g sg id Hk Hkd Hd Hin.
  pose proof (removal_is_quiescent q_ok s_ok os0 ls s fs es Hr k g id Hk Hd Hin) as H.
  rewrite Hkd in H. simpl in H. exact H.
Qed.

End Returns.
