(** C18, fair termination (mechanised): with finitely many activities (no further spawn), under
    any schedule made of rounds in each of which every activity is stepped at least once, every
    delivery and every register / unregister / unregister_signal call has returned after a
    number of rounds that is bounded by a function of the world the rounds start from.

    Phase 1: the sum of the deliveries' measures never increases and decreases in every round
    while a delivery is unfinished (a delivery's own step always decreases its measure; the
    measure is taken against a bound on the action-list length that accounts for the register
    calls that can still publish).  Phase 2: with all deliveries finished the slot counters are
    zero, every effective mutator step decreases the sum of the mutators' measures, and in every
    round some unfinished mutator that is not locked out takes a step. *)
From Coq Require Import List Arith NArith ZArith Bool Lia.
From SH Require Import base.Pool gen.Extracted_halflock gen.Extracted_registry
  halflock.Model halflock.Safety halflock.Lemmas registry.Model registry.Tactics registry.Inv registry.PcInv registry.Events
  registry.Deliver registry.Content registry.Holder registry.Progress.
Import ListNotations.
Arguments Nat.modulo : simpl never.
Arguments N.ltb : simpl never.
Arguments N.of_nat : simpl never.
Local Open Scope nat_scope.

(** * Lengths of action lists *)

Lemma fold_max_app l x : fold_right Nat.max 0 (l ++ [x]) = Nat.max (fold_right Nat.max 0 l) x.
Proof. induction l as [|h t IH]; simpl; [lia|]. rewrite IH. lia. Qed.

Lemma hist_len_app s x : fold_right Nat.max 0 (map sd_len (dhist s ++ [x])) = Nat.max (hist_len s) (sd_len x).
Proof. rewrite map_app. simpl. apply fold_max_app. Qed.

Lemma sd_len_update c sg sl nid :
  sd_len {| slots := update sg sl (slots c); next_id := nid |} <= Nat.max (sd_len c) (length (s_acts sl)).
Proof.
  unfold sd_len. simpl. induction (slots c) as [|[k w] t IH]; simpl.
  - unfold slot_len. simpl. lia.
  - destruct (Z.eqb k sg); simpl; unfold slot_len in *; simpl in *; lia.
Qed.

Lemma sd_len_app c sg sl nid :
  sd_len {| slots := slots c ++ [(sg, sl)]; next_id := nid |} = Nat.max (sd_len c) (length (s_acts sl)).
Proof. unfold sd_len. simpl. rewrite map_app. simpl. rewrite fold_max_app. reflexivity. Qed.

Lemma lookup_len c sg sl : lookup sg (slots c) = Some sl -> length (s_acts sl) <= sd_len c.
Proof.
  intro H. apply lookup_in in H. destruct H as [k Hin]. unfold sd_len. apply max_in.
  apply in_map_iff. exists (k, sl). auto.
Qed.

Lemma insert_act_length id tag l : length (insert_act id tag l) = S (length l).
Proof. induction l as [|[i t] r IH]; simpl; auto. destruct (N.ltb id i); simpl; auto. Qed.

Lemma remove_act_length id l : length (remove_act id l) <= length l.
Proof. unfold remove_act. induction l as [|a r IH]; simpl; auto. destruct (negb _); simpl; lia. Qed.

Lemma content_len s p : p < length (dhist s) -> sd_len (content s p) <= hist_len s.
Proof. intro H. unfold hist_len, content. apply max_in. apply in_map. apply nth_In. assumption. Qed.

Definition is_register (f : frame) : bool := match kind f with KMut (MRegister _ _) => true | _ => false end.

(** The clone of a register call may be one action longer than anything published. *)
Lemma load_update_len f c :
  kind_ok f -> fpc f = MDtLoad ->
  sd_len (local (load_update f WIn c)) <= sd_len c + b2n (is_register f).
Proof.
  unfold kind_ok, load_update, is_register. intros Hk Hpc.
  destruct (kind f) as [sg0|m]; [rewrite Hpc in Hk; discriminate|].
  destruct m as [sg tag|sg aid|sg]; destruct (lookup sg (slots c)) as [sl|] eqn:El; simpl; try lia.
  - pose proof (sd_len_update c sg {| s_prev := s_prev sl; s_acts := insert_act (next_id c) tag (s_acts sl) |} (N.succ (next_id c))) as H.
    simpl in H. rewrite insert_act_length in H. pose proof (lookup_len c sg sl El). lia.
  - unfold sd_len. simpl. lia.
  - destruct (has_act aid (s_acts sl)); simpl; [|lia].
    pose proof (sd_len_update c sg {| s_prev := s_prev sl; s_acts := remove_act aid (s_acts sl) |} (next_id c)) as H.
    simpl in H. pose proof (remove_act_length aid (s_acts sl)). pose proof (lookup_len c sg sl El). lia.
  - destruct (s_acts sl) eqn:Ea; simpl; [lia|].
    pose proof (sd_len_update c sg {| s_prev := s_prev sl; s_acts := [] |} (next_id c)) as H. simpl in H. lia.
Qed.

Definition LenInv (s : shared) (fs : list frame) : Prop :=
  forall k g, nth_error fs k = Some g -> vdt g = WIn -> post_load (fpc g) = true ->
    sd_len (local g) <= hist_len s + b2n (is_register g).

(** register calls that may still publish a (longer) state *)
Definition unpub (f : frame) : bool :=
  is_register f &&
  match fpc f with
  | MStart | MDtLock | MDtLoad | MFbLock | MFbLoad | MDetect | MFbSwap | MFbBarrier | MFbUnlock | MSlotNew | MDtSwap => true
  | _ => false
  end.

(** a bound on the length of any action list a delivery can ever load from now on *)
Definition Lb (s : shared) (fs : list frame) : nat := hist_len s + cnt unpub fs.

(** the measure of a delivery against a list-length bound [L] *)
Definition dm (L : nat) (f : frame) : nat :=
  match fpc f with
  | PStart => 12 + L | PForeign _ => 1
  | PFbGen => 11 + L | PFbInc => 10 + L | PFbPtr => 9 + L | PDtGen => 8 + L | PDtInc => 7 + L | PDtPtr => 6 + L
  | PPrev _ a => 4 + length a | PRun a => 3 + length a | PDtDec => 2 | PFbDec => 1
  | _ => 0
  end.

Definition sum (l : list nat) : nat := fold_right Nat.add 0 l.
Definition D (s : shared) (fs : list frame) : nat := sum (map (dm (Lb s fs)) fs).

Lemma sum_upd {A} (g : A -> nat) l k x y :
  nth_error l k = Some x -> sum (map g (upd l k y)) + g x = sum (map g l) + g y.
Proof.
  revert k; induction l as [|h t IH]; intros [|k] H; simpl in *; try discriminate.
  - inversion H; subst. lia.
  - specialize (IH k H). unfold sum in *. lia.
Qed.

Lemma sum_le {A} (g g' : A -> nat) l : (forall x, g x <= g' x) -> sum (map g l) <= sum (map g' l).
Proof. intro H. induction l as [|h t IH]; simpl; [lia|]. specialize (H h). unfold sum in *. lia. Qed.

Lemma dm_mono L L' f : L' <= L -> dm L' f <= dm L f.
Proof. intro H. unfold dm. destruct (fpc f); lia. Qed.

Lemma hist_len_lt s : ptr (dt s) < length (dhist s) -> sd_len (cur s) <= hist_len s.
Proof. intro H. apply content_len. assumption. Qed.

Section Fair.
Variable q_ok s_ok : Z -> bool.
Notation fstep := (Model.fstep q_ok s_ok).

Lemma hist_len_step s f s' f' es : fstep s f = (s', f', es) -> hist_len s <= hist_len s'.
Proof.
  intro Hs. destruct (fstep_dhist q_ok s_ok _ _ _ _ _ Hs) as [E|[_ E]]; unfold hist_len; rewrite E; [lia|].
  rewrite map_app. simpl. rewrite fold_max_app. lia.
Qed.

Lemma is_register_step s f s' f' es : fstep s f = (s', f', es) -> is_register f' = is_register f.
Proof. intro Hs. unfold is_register. rewrite (kind_preserved q_ok s_ok _ _ _ _ _ Hs). reflexivity. Qed.

(** A frame does not (re-)enter the set of calls that may still publish. *)
Lemma unpub_step s f s' f' es : fstep s f = (s', f', es) -> unpub f' = true -> unpub f = true.
Proof.
  intros Hs. unfold unpub. rewrite (is_register_step _ _ _ _ _ Hs). destruct (is_register f); [|auto]. simpl.
  revert Hs. unfold Model.fstep. destruct (aborted (dt s) || aborted (fb s)); [inversion 1; auto|].
  destruct (fpc f) eqn:Hpc; auto; try hs; split_conds;
    (let H := fresh in intro H; inversion H; subst; simpl; auto; try discriminate;
     try (match goal with |- context [dispatch_next ?a ?b ?c] => destruct (dispatch_next_cases a b c) as [E2|[[l2 E2]|[si [l2 E2]]]]; rewrite E2 end; discriminate);
     try (destruct (after_runs_cases acts) as [E2|[l2 E2]]; rewrite E2; discriminate);
     try (match goal with |- context [in_store ?h] => destruct (in_store h) end; simpl; auto; discriminate);
     try (match goal with |- context [match ?vv with WIn => _ | _ => _ end] => destruct vv end; simpl; auto; discriminate)).
  (* aborted: nothing moved *)
  all: try (rewrite Hpc; auto).
Qed.

Lemma leninv_step s fs k f s' f' es :
  PInv s fs -> CInv s fs -> HoldInv s fs -> LenInv s fs -> nth_error fs k = Some f -> fstep s f = (s', f', es) ->
  LenInv s' (upd fs k f').
Proof.
  intros HP HC HH HL Hk Hs j g Hj Hw Hpl.
  pose proof (hist_len_step _ _ _ _ _ Hs) as Hmono.
  apply nth_upd_cases in Hj. destruct Hj as [(-> & _ & ->)|[Hne Hj]].
  - (* the stepping frame *)
    pose proof HP as [[Hd Hf] Hfr]. destruct (Hfr k f Hk) as [Hok Hkok].
    rewrite (is_register_step _ _ _ _ _ Hs).
    unfold Model.fstep in Hs. destruct (aborted (dt s) || aborted (fb s)) eqn:Hab.
    { inversion Hs; subst. apply (HL k f' Hk Hw Hpl). }
    apply orb_false_iff in Hab. destruct Hab as [Had Haf]. unfold pc_ok in Hok.
    destruct (fpc f) eqn:Hpc;
      try (exfalso; try hsin Hs; split_conds_in Hs; try (destruct acts); inversion Hs; subst; simpl in Hpl;
           try (match type of Hpl with context [dispatch_next ?a ?b ?c] => destruct (dispatch_next_cases a b c) as [E2|[[l2 E2]|[si [l2 E2]]]]; rewrite E2 in Hpl end);
           try (match type of Hpl with context [after_runs ?a] => destruct (after_runs_cases a) as [E2|[l2 E2]]; rewrite E2 in Hpl end);
           simpl in Hpl; discriminate).
    + (* MDtLock: acquiring gives MDtLoad, not post-load *)
      exfalso. hsin Hs. inversion Hs; subst. simpl in Hpl. destruct v; simpl in Hpl; discriminate.
    + (* MDtLoad *)
      destruct Hok as (_ & Hvd & Hcr). rewrite Hvd in Hs. unfold hstep in Hs. rewrite Had, Hcr in Hs. inversion Hs; subst; clear Hs.
      pose proof (load_update_len f (nth (ptr (dt s)) (dhist s) sd_init) Hkok Hpc) as H1.
      assert (H2 : sd_len (nth (ptr (dt s)) (dhist s) sd_init) <= hist_len s).
      { apply hist_len_lt. rewrite (c_dlen _ _ HC). apply (i_ptr _ _ Hd). }
      unfold hist_len in *. simpl in *. lia.
    + (* MFbLock *) assert (H0 := HL k f Hk ltac:(tauto) ltac:(rewrite Hpc; reflexivity)).
      hsin Hs. inversion Hs; subst. simpl. unfold hist_len in *. simpl in *. exact H0.
    + assert (H0 := HL k f Hk ltac:(tauto) ltac:(rewrite Hpc; reflexivity)).
      hsin Hs. inversion Hs; subst. simpl. unfold hist_len in *. simpl in *. exact H0.
    + (* MDetect *) assert (H0 := HL k f Hk ltac:(tauto) ltac:(rewrite Hpc; reflexivity)).
      split_conds_in Hs; inversion Hs; subst; simpl; exact H0.
    + (* MFbSwap *) assert (H0 := HL k f Hk ltac:(tauto) ltac:(rewrite Hpc; reflexivity)).
      hsin Hs. inversion Hs; subst. simpl. unfold hist_len in *. simpl in *. exact H0.
    + assert (H0 := HL k f Hk ltac:(tauto) ltac:(rewrite Hpc; reflexivity)).
      hsin Hs. inversion Hs; subst. simpl. unfold hist_len in *. simpl in *. exact H0.
    + assert (H0 := HL k f Hk ltac:(tauto) ltac:(rewrite Hpc; reflexivity)).
      hsin Hs. inversion Hs; subst. simpl. unfold hist_len in *. simpl in *. exact H0.
    + (* MSlotNew *)
      assert (H0 := HL k f Hk ltac:(tauto) ltac:(rewrite Hpc; reflexivity)).
      destruct (h_kind _ _ HH k f Hk ltac:(rewrite Hpc; reflexivity)) as (sg & tag & Ek).
      assert (Hreg : is_register f = true) by (unfold is_register; rewrite Ek; reflexivity).
      rewrite Hreg in *. simpl in *. rewrite Ek in Hs. cbn [sig_of] in Hs.
      destruct (s_ok sg); inversion Hs; subst; simpl.
      * rewrite sd_len_app. simpl. unfold hist_len in *. simpl in *. lia.
      * unfold hist_len in *. simpl in *. lia.
    + (* MDtBarrier *) exfalso. hsin Hs. inversion Hs; subst. simpl in Hpl. destruct (in_store h); discriminate.
    + (* MErrFbUnlock *) assert (H0 := HL k f Hk ltac:(tauto) ltac:(rewrite Hpc; reflexivity)).
      hsin Hs. inversion Hs; subst. simpl. unfold hist_len in *. simpl in *. exact H0.
    + (* PDone *) exfalso. inversion Hs; subst. rewrite Hpc in Hpl. discriminate.
  - specialize (HL j g Hj Hw Hpl). lia.
Qed.

(** The bound on loadable list lengths never grows. *)
Lemma lb_step s fs k f s' f' es :
  PInv s fs -> CInv s fs -> HoldInv s fs -> LenInv s fs -> nth_error fs k = Some f -> fstep s f = (s', f', es) ->
  Lb s' (upd fs k f') <= Lb s fs /\ hist_len s' <= Lb s' (upd fs k f').
Proof.
  intros HP HC HH HL Hk Hs. pose proof HP as [[Hd Hf] Hfr]. pose proof (Hfr k f Hk) as Hfok.
  unfold Lb. split; [|lia].
  pose proof (cnt_upd unpub fs k f f' Hk) as Hc.
  destruct (fstep_dt_nxt q_ok s_ok _ _ _ _ _ Hfok Hs) as [(_ & _ & Hh)|(Hpc & Hv & _ & _ & _ & Hh & _)].
  - assert (Hu : b2n (unpub f') <= b2n (unpub f)).
    { destruct (unpub f') eqn:E; [rewrite (unpub_step _ _ _ _ _ Hs E); lia|simpl; lia]. }
    unfold hist_len. rewrite Hh. fold (hist_len s). lia.
  - (* publication *)
    assert (Hlen : sd_len (local f) <= hist_len s + b2n (is_register f)) by (apply (HL k f Hk Hv); rewrite Hpc; reflexivity).
    assert (Hf' : unpub f' = false).
    { destruct (unpub f') eqn:E; auto. exfalso. revert E. unfold unpub.
      pose proof (self_frame_ok q_ok s_ok s f s' f' es Hfok Hs) as [Hok' _].
      assert (Hp' : fpc f' = MDtBarrier).
      { unfold Model.fstep in Hs. destruct (aborted (dt s) || aborted (fb s)) eqn:Hab.
        - inversion Hs; subst. exfalso. apply (f_equal (@length _)) in Hh. rewrite app_length in Hh. simpl in Hh. lia.
        - rewrite Hpc in Hs. hsin Hs. inversion Hs; subst. reflexivity. }
      rewrite Hp'. rewrite andb_false_r. discriminate. }
    assert (Hfu : unpub f = is_register f) by (unfold unpub; rewrite Hpc; apply andb_true_r).
    rewrite Hf' in Hc. rewrite Hfu in Hc. simpl in Hc.
    unfold hist_len at 1. rewrite Hh. rewrite hist_len_app. lia.
Qed.

Record FInv (w : world) : Prop := {
  f_inv3 : Inv3 w;
  f_len : LenInv (fst w) (snd w);
  f_live : live (fst w);
  f_pool : (N.of_nat (length (snd w)) <= MAX_GUARDS)%N
}.

Lemma finv_step s fs k f s' f' es :
  FInv (s, fs) -> nth_error fs k = Some f -> fstep s f = (s', f', es) -> FInv (s', upd fs k f').
Proof.
  intros [HI HL Hl Hp] Hk Hs. simpl in *. pose proof HI as [[HP HC] HH]. simpl in HP, HC, HH.
  constructor; simpl.
  - apply (inv3_wstep q_ok s_ok (s, fs) (LStep k) _ (map (fun e => (k, e)) es) HI). simpl. rewrite Hk, Hs. reflexivity.
  - eapply leninv_step; eauto.
  - eapply (step_stays_live q_ok s_ok); eauto.
  - rewrite upd_length. assumption.
Qed.

(** One step: the sum of the deliveries' measures does not increase; it decreases when the
    stepping frame is an unfinished delivery. *)
Lemma D_step s fs k f s' f' es :
  FInv (s, fs) -> nth_error fs k = Some f -> fstep s f = (s', f', es) ->
  D s' (upd fs k f') <= D s fs /\
  (reader_pc (fpc f) = true -> fpc f <> PDone -> D s' (upd fs k f') < D s fs).
Proof.
  intros [HI HL Hl Hp] Hk Hs. simpl in *. pose proof HI as [[HP HC] HH]. simpl in HP, HC, HH.
  pose proof HP as [[Hd Hf] Hfr]. pose proof (Hfr k f Hk) as [Hok Hkok].
  destruct (lb_step s fs k f s' f' es HP HC HH HL Hk Hs) as [HLb Hhl].
  assert (Hhl0 : hist_len s <= Lb s fs) by (unfold Lb; lia).
  unfold D.
  pose proof (sum_upd (dm (Lb s' (upd fs k f'))) fs k f f' Hk) as Hsum.
  pose proof (sum_le (dm (Lb s' (upd fs k f'))) (dm (Lb s fs)) fs (fun x => dm_mono _ _ x HLb)) as Hle.
  assert (Hown : dm (Lb s' (upd fs k f')) f' <= dm (Lb s' (upd fs k f')) f /\
                 (reader_pc (fpc f) = true -> fpc f <> PDone -> dm (Lb s' (upd fs k f')) f' < dm (Lb s' (upd fs k f')) f)).
  { destruct Hl as [Had Haf].
    destruct (reader_pc (fpc f)) eqn:Hr.
    - (* a delivery *)
      destruct (pc_eq_done (fpc f)) as [Hdone|Hnd].
      + unfold Model.fstep in Hs. rewrite Had, Haf, Hdone in Hs. inversion Hs; subst. split; [lia|congruence].
      + assert (Hlt : dm (Lb s' (upd fs k f')) f' < dm (Lb s' (upd fs k f')) f).
        { set (L := Lb s' (upd fs k f')) in *.
          assert (HhL : hist_len s <= L) by (pose proof (hist_len_step _ _ _ _ _ Hs); lia).
          unfold Model.fstep in Hs. rewrite Had, Haf in Hs. cbn [orb] in Hs. unfold dm.
          destruct (fpc f) eqn:Hpc; try discriminate; try congruence;
            try (hsin Hs; inversion Hs; subst; simpl; lia).
          - destruct (os_get s _); inversion Hs; subst; simpl; lia.
          - inversion Hs; subst; simpl; lia.
          - (* PDtPtr *) hsin Hs. inversion Hs; subst. simpl.
            pose proof (dispatch_next_measure s (sig_of (kind f)) (held_ptr v) (nth (held_ptr (vfb f)) (fhist s) None)) as Dm.
            match type of Dm with context [dispatch_next ?a ?b ?c] => destruct (dispatch_next_cases a b c) as [E2|[[l2 E2]|[si [l2 E2]]]]; rewrite E2 in * end; simpl in *; lia.
          - inversion Hs; subst. simpl. pose proof (after_runs_measure acts) as Hm.
            destruct (after_runs_cases acts) as [E2|[l2 E2]]; rewrite E2 in *; simpl in *; lia.
          - destruct acts as [|a r]; inversion Hs; subst; simpl; try lia.
            pose proof (after_runs_measure r) as Hm. destruct (after_runs_cases r) as [E2|[l2 E2]]; rewrite E2 in *; simpl in *; lia. }
        split; [lia|intros; assumption].
    - (* a mutator: its pcs have measure 0 *)
      split; [|discriminate].
      assert (Hm : mut_pc (fpc f) = true) by (unfold kind_ok in Hkok; destruct (kind f); [congruence|assumption]).
      pose proof (self_frame_ok q_ok s_ok s f s' f' es (conj Hok Hkok) Hs) as [_ Hk'].
      assert (Hm' : mut_pc (fpc f') = true).
      { unfold kind_ok in Hk'. rewrite (kind_preserved q_ok s_ok _ _ _ _ _ Hs) in Hk'. unfold kind_ok in Hkok.
        destruct (kind f); [congruence|assumption]. }
      unfold dm. destruct (fpc f'); try discriminate; lia. }
  destruct Hown as [Ho1 Ho2]. split.
  - lia.
  - intros Hr Hnd. specialize (Ho2 Hr Hnd). lia.
Qed.

(** * Rounds *)

Definition step_k (w : world) (k : nat) : world := fst (Model.wstep q_ok s_ok w (LStep k)).
Fixpoint steps (w : world) (ks : list nat) : world :=
  match ks with [] => w | k :: r => steps (step_k w k) r end.
(** a round steps every activity of an [n]-element pool at least once, in any order, any number of times *)
Definition covers (n : nat) (r : list nat) : Prop := forall k, k < n -> In k r.

Lemma steps_app w a b : steps w (a ++ b) = steps (steps w a) b.
Proof. revert w; induction a as [|k a IH]; intro w; simpl; auto. Qed.

Lemma step_k_cases w k :
  (nth_error (snd w) k = None /\ step_k w k = w) \/
  exists f s' f' es, nth_error (snd w) k = Some f /\ fstep (fst w) f = (s', f', es) /\ step_k w k = (s', upd (snd w) k f').
Proof.
  destruct w as [s fs]. unfold step_k. simpl. destruct (nth_error fs k) as [f|] eqn:Hk; [right|left; auto].
  destruct (fstep s f) as [[s' f'] es] eqn:Hs. exists f, s', f', es. auto.
Qed.

Lemma finv_step_k w k : FInv w -> FInv (step_k w k).
Proof.
  intro HF. destruct (step_k_cases w k) as [[_ E]|(f & s' & f' & es & Hk & Hs & E)]; rewrite E; [assumption|].
  destruct w as [s fs]. eapply finv_step; eauto.
Qed.
Lemma finv_steps r : forall w, FInv w -> FInv (steps w r).
Proof. induction r as [|k r IH]; intros w HF; simpl; auto. apply IH, finv_step_k, HF. Qed.

Lemma step_k_length w k : length (snd (step_k w k)) = length (snd w).
Proof.
  destruct (step_k_cases w k) as [[_ E]|(f & s' & f' & es & Hk & Hs & E)]; rewrite E; auto. simpl. apply upd_length.
Qed.
Lemma steps_length r : forall w, length (snd (steps w r)) = length (snd w).
Proof. induction r as [|k r IH]; intro w; simpl; auto. rewrite IH. apply step_k_length. Qed.

(** * Phase 1: the deliveries finish *)

Definition is_done (p : pc) : bool := match p with PDone => true | _ => false end.
Definition del_pending (g : frame) : bool := reader_pc (fpc g) && negb (is_done (fpc g)).
Definition D' (w : world) : nat := D (fst w) (snd w).

Lemma del_pending_mut g : del_pending g = negb (mut_pc (fpc g)).
Proof. unfold del_pending. destruct (fpc g); reflexivity. Qed.
Lemma del_pending_spec g : del_pending g = true -> reader_pc (fpc g) = true /\ fpc g <> PDone.
Proof. unfold del_pending. destruct (fpc g); simpl; try discriminate; split; auto; discriminate. Qed.
Lemma dm_pos L g : del_pending g = true -> 1 <= dm L g.
Proof. unfold del_pending, dm. destruct (fpc g); simpl; try discriminate; lia. Qed.

Lemma sum_nth {A} (g : A -> nat) l k x : nth_error l k = Some x -> g x <= sum (map g l).
Proof.
  revert k; induction l as [|h t IH]; intros [|k] H; simpl in *; try discriminate.
  - inversion H; subst. lia.
  - specialize (IH k H). unfold sum in *. lia.
Qed.

Lemma D_round r : forall w, FInv w ->
  D' (steps w r) <= D' w /\
  forall k g, In k r -> nth_error (snd w) k = Some g -> del_pending g = true -> D' (steps w r) < D' w.
Proof.
  induction r as [|j r IH]; intros w HF; simpl.
  - split; [lia|intros k g []].
  - destruct (step_k_cases w j) as [[Hn E]|(f & s' & f' & es & Hj & Hs & E)]; rewrite E.
    + destruct (IH w HF) as [Hle Hlt]. split; [assumption|].
      intros k g [->|Hin] Hk Hp; [congruence|]. eapply Hlt; eauto.
    + destruct w as [s fs]. simpl in *.
      destruct (D_step s fs j f s' f' es HF Hj Hs) as [H1 H2].
      pose proof (finv_step s fs j f s' f' es HF Hj Hs) as HF1.
      destruct (IH (s', upd fs j f') HF1) as [Hle Hlt]. unfold D' in *. simpl in *. split; [lia|].
      intros k g Hin Hk Hp. destruct (Nat.eq_dec k j) as [->|Hne].
      * assert (g = f) by congruence. subst g. destruct (del_pending_spec f Hp) as [Hr Hnd].
        specialize (H2 Hr Hnd). lia.
      * destruct Hin as [->|Hin]; [congruence|].
        assert (Hk1 : nth_error (upd fs j f') k = Some g) by (rewrite nth_upd_neq; auto).
        specialize (Hlt k g Hin Hk1 Hp). lia.
Qed.

Definition dels_done (fs : list frame) : Prop := forall j g, nth_error fs j = Some g -> mut_pc (fpc g) = true.

Lemma dels_done_or_pending fs : dels_done fs \/ exists k g, nth_error fs k = Some g /\ del_pending g = true.
Proof.
  induction fs as [|h t IH].
  - left. intros [|j] g H; discriminate.
  - destruct (del_pending h) eqn:Eh; [right; exists 0, h; auto|].
    destruct IH as [IH|(k & g & Hk & Hp)]; [left|right; exists (S k), g; auto].
    intros [|j] g H; simpl in H; [inversion H; subst|eauto].
    rewrite del_pending_mut in Eh. destruct (mut_pc (fpc g)); auto; discriminate.
Qed.

(** a frame in a mutator pc (or finished) stays in one *)
Lemma mut_pc_step s f s' f' es :
  frame_ok s f -> mut_pc (fpc f) = true -> fstep s f = (s', f', es) -> mut_pc (fpc f') = true.
Proof.
  intros [Hok Hk] Hm Hs.
  pose proof (self_frame_ok q_ok s_ok s f s' f' es (conj Hok Hk) Hs) as [_ Hk'].
  unfold kind_ok in *. rewrite (kind_preserved q_ok s_ok _ _ _ _ _ Hs) in Hk'.
  destruct (kind f); [|assumption].
  assert (Hd : fpc f = PDone) by (destruct (fpc f); try discriminate; reflexivity).
  unfold Model.fstep in Hs. destruct (aborted (dt s) || aborted (fb s)); [inversion Hs; subst; assumption|].
  rewrite Hd in Hs. inversion Hs; subst. assumption.
Qed.

Lemma dels_done_step_k w k : FInv w -> dels_done (snd w) -> dels_done (snd (step_k w k)).
Proof.
  intros HF Hd. destruct (step_k_cases w k) as [[_ E]|(f & s' & f' & es & Hk & Hs & E)]; rewrite E; [assumption|].
  destruct w as [s fs]. simpl in *. intros j g Hj.
  destruct (nth_upd_cases fs k j f' g Hj) as [(-> & _ & ->)|[_ Hj']]; [|eauto].
  destruct HF as [[[[_ Hfr] _] _] _ _ _]. simpl in Hfr. eapply mut_pc_step; eauto.
Qed.
Lemma dels_done_steps r : forall w, FInv w -> dels_done (snd w) -> dels_done (snd (steps w r)).
Proof. induction r as [|k r IH]; intros w HF Hd; simpl; auto. apply IH; [apply finv_step_k|apply dels_done_step_k]; assumption. Qed.

Lemma phase1 rounds : forall w, FInv w ->
  (forall r, In r rounds -> covers (length (snd w)) r) -> D' w <= length rounds ->
  dels_done (snd (steps w (concat rounds))).
Proof.
  induction rounds as [|r rs IH]; intros w HF Hc Hn; simpl.
  - destruct (dels_done_or_pending (snd w)) as [H|(k & g & Hk & Hp)]; [assumption|].
    pose proof (sum_nth (dm (Lb (fst w) (snd w))) (snd w) k g Hk) as H1. pose proof (dm_pos (Lb (fst w) (snd w)) g Hp).
    unfold D', D in Hn. simpl in Hn. lia.
  - rewrite steps_app. destruct (dels_done_or_pending (snd w)) as [H|(k & g & Hk & Hp)].
    + apply dels_done_steps; [apply finv_steps; assumption|]. apply dels_done_steps; assumption.
    + apply IH.
      * apply finv_steps; assumption.
      * intros r' Hr'. rewrite steps_length. apply Hc. right; assumption.
      * destruct (D_round r w HF) as [_ Hlt].
        assert (Hin : In k r) by (apply (Hc r (or_introl eq_refl)); apply nth_error_Some; congruence).
        specialize (Hlt k g Hin Hk Hp). simpl in Hn. lia.
Qed.

(** * Phase 2: the register / unregister calls finish *)

Definition P2 (w : world) : Prop := FInv w /\ dels_done (snd w).
Definition MM (s : shared) (fs : list frame) : nat := sum (map (mmeasure s) fs).
Definition MM' (w : world) : nat := MM (fst w) (snd w).
Definition enabled (s : shared) (f : frame) : Prop := fpc f <> PDone /\ not_locked_out s f.
Definition all_done (fs : list frame) : Prop := forall j g, nth_error fs j = Some g -> fpc g = PDone.

Lemma cnt_map {A B} (P : B -> bool) (g : A -> B) l : cnt P (map g l) = cnt (fun x => P (g x)) l.
Proof. induction l as [|h t IH]; [reflexivity|]. simpl map. rewrite !cnt_cons, IH. reflexivity. Qed.
Lemma cnt_all_false {A} (P : A -> bool) l : (forall k x, nth_error l k = Some x -> P x = false) -> cnt P l = 0.
Proof.
  induction l as [|h t IH]; intro H; [reflexivity|]. rewrite cnt_cons, (H 0 h eq_refl), IH; [reflexivity|].
  intros k x Hk. apply (H (S k) x Hk).
Qed.

Lemma mut_views s g : pc_ok s g -> mut_pc (fpc g) = true ->
  (vdt g = VIdle \/ vdt g = WIn) /\ (vfb g = VIdle \/ vfb g = WIn).
Proof. unfold pc_ok. destruct (fpc g); try discriminate; intros H _; intuition. Qed.

Lemma p2_idle s fs : P2 (s, fs) -> idle (dt s) /\ idle (fb s).
Proof.
  intros [[[[[[Hd Hf] Hfr] _] _] _ _ _] Hdd]. simpl in *.
  assert (Hz : forall i, cnt (in_slot i) (map vdt fs) = 0 /\ cnt (in_slot i) (map vfb fs) = 0).
  { intro i. rewrite !cnt_map. split; apply cnt_all_false; intros k x Hk;
      destruct (Hfr k x Hk) as [Hok _]; destruct (mut_views s x Hok (Hdd k x Hk)) as [[E|E] [E'|E']]; rewrite ?E, ?E'; reflexivity. }
  unfold idle. rewrite <- (i_c0 _ _ Hd), <- (i_c1 _ _ Hd), <- (i_c0 _ _ Hf), <- (i_c1 _ _ Hf).
  destruct (Hz 0) as [A B]. destruct (Hz 1) as [A1 B1]. auto.
Qed.

Lemma map_ext_nth {A} (g g' : A -> nat) t : (forall j z, nth_error t j = Some z -> g' z = g z) -> map g' t = map g t.
Proof.
  induction t as [|a t IHt]; intro H; [reflexivity|]. simpl. rewrite (H 0 a eq_refl). f_equal.
  apply IHt. intros j z Hj. apply (H (S j) z Hj).
Qed.

Lemma sum_upd_ext {A} (g g' : A -> nat) l k x y :
  nth_error l k = Some x ->
  (forall j z, j <> k -> nth_error l j = Some z -> g' z = g z) ->
  sum (map g' (upd l k y)) + g x = sum (map g l) + g' y.
Proof.
  revert k; induction l as [|h t IH]; intros [|k] H He; simpl in *; try discriminate.
  - inversion H; subst.
    rewrite (map_ext_nth g g' t) by (intros j z Hj; apply (He (S j) z); [discriminate|assumption]). lia.
  - specialize (IH k H). rewrite (He 0 h ltac:(discriminate) eq_refl).
    assert (H2 : forall j z, j <> k -> nth_error t j = Some z -> g' z = g z) by (intros j z Hne Hj; apply (He (S j) z); [congruence|assumption]).
    specialize (IH H2). unfold sum in *. lia.
Qed.

Lemma mmeasure_state s s' g :
  bmeasure (dt s') = bmeasure (dt s) -> bmeasure (fb s') = bmeasure (fb s) -> mmeasure s' g = mmeasure s g.
Proof. intros E1 E2. unfold mmeasure. rewrite E1, E2. reflexivity. Qed.

Lemma mmeasure_nonbarrier s s' g : fpc g <> MFbBarrier -> fpc g <> MDtBarrier -> mmeasure s' g = mmeasure s g.
Proof. unfold mmeasure. destruct (fpc g); congruence. Qed.

Lemma barrier_pc_holds s g : pc_ok s g -> fpc g = MFbBarrier \/ fpc g = MDtBarrier -> vdt g = WIn.
Proof. unfold pc_ok. intros H [E|E]; rewrite E in H; tauto. Qed.

Lemma pc_eq_dec2 (p : pc) : (p = MFbBarrier \/ p = MDtBarrier) \/ (p <> MFbBarrier /\ p <> MDtBarrier).
Proof. destruct p; try (right; split; discriminate); left; auto. Qed.

(** One step in phase 2. *)
Lemma p2_step s fs k f s' f' es :
  P2 (s, fs) -> nth_error fs k = Some f -> fstep s f = (s', f', es) ->
  P2 (s', upd fs k f') /\
  (MM s' (upd fs k f') < MM s fs \/
   (MM s' (upd fs k f') <= MM s fs /\ ~ enabled s f /\ crit (dt s') = crit (dt s))).
Proof.
  intros HP2 Hk Hs. pose proof HP2 as [HF Hdd]. simpl in Hdd.
  assert (HP2' : P2 (s', upd fs k f')).
  { split; [eapply finv_step; eauto|]. apply (dels_done_step_k (s, fs) k HF) in Hdd.
    unfold step_k in Hdd. simpl in Hdd. rewrite Hk, Hs in Hdd. exact Hdd. }
  split; [exact HP2'|].
  destruct (p2_idle s fs HP2) as [Id If].
  pose proof HF as [[[HP _] _] _ Hl _]. simpl in HP, Hl.
  pose proof HP as [[Hd Hf] Hfr]. pose proof (Hfr k f Hk) as [Hok Hkok].
  pose proof (Hdd k f Hk) as Hm.
  destruct (pc_eq_done (fpc f)) as [Hdone|Hnd].
  { (* finished: nothing moves *)
    right. assert (E : s' = s /\ f' = f).
    { unfold Model.fstep in Hs. destruct (aborted (dt s) || aborted (fb s)); [inversion Hs; auto|]. rewrite Hdone in Hs. inversion Hs; auto. }
    destruct E as [-> ->]. rewrite (upd_same fs k f Hk). split; [lia|]. split; [intros [H _]; congruence|reflexivity]. }
  assert (Hcases : not_locked_out s f \/ (crit (dt s) <> CNone /\ vdt f = VIdle)).
  { destruct (mut_views s f Hok Hm) as [[E|E] _]; [|left; right; assumption].
    destruct (crit (dt s)) eqn:Hc; try (right; split; [discriminate|assumption]). left; left; assumption. }
  destruct Hcases as [Hen|[Hc Hv]].
  - (* an effective step *)
    left.
    destruct (mut_step_measure q_ok s_ok s fs k f s' f' es HP Hk Hm Hnd Hl Id If Hen Hs) as (Hlt & _).
    assert (Hoth : forall j z, j <> k -> nth_error fs j = Some z -> mmeasure s' z = mmeasure s z).
    { intros j z Hne Hj. destruct (pc_eq_dec2 (fpc z)) as [Hb|[Hb1 Hb2]]; [|apply mmeasure_nonbarrier; assumption].
      exfalso. destruct (Hfr j z Hj) as [Hokz _]. pose proof (barrier_pc_holds s z Hokz Hb) as Hw.
      assert (Hjz : nth_error (map vdt fs) j = Some WIn) by (rewrite <- Hw; apply nth_map_some; assumption).
      destruct Hen as [Hc|Hw'].
      - exact (holder_crit _ _ j Hd Hjz Hc).
      - assert (Hkz : nth_error (map vdt fs) k = Some WIn) by (rewrite <- Hw'; apply nth_map_some; assumption).
        apply Hne. exact (holder_unique _ _ j k Hd Hjz Hkz). }
    pose proof (sum_upd_ext (mmeasure s) (mmeasure s') fs k f f' Hk Hoth) as Hsum. unfold MM. lia.
  - (* locked out: at MStart or spinning at MDtLock *)
    right.
    assert (Hpc : fpc f = MStart \/ fpc f = MDtLock).
    { unfold pc_ok in Hok. destruct (fpc f); try discriminate; try congruence; auto;
        repeat match goal with H : _ /\ _ |- _ => destruct H end; congruence. }
    destruct Hl as [Had Haf].
    assert (E : bmeasure (dt s') = bmeasure (dt s) /\ bmeasure (fb s') = bmeasure (fb s) /\ crit (dt s') = crit (dt s)
                /\ mmeasure s' f' <= mmeasure s f).
    { unfold Model.fstep in Hs. rewrite Had, Haf in Hs. cbn [orb] in Hs. destruct Hpc as [Hpc|Hpc]; rewrite Hpc in Hs.
      - destruct (kind f) as [|[sg tg| |]]; try destruct (existsb _ _); inversion Hs; subst; unfold mmeasure; rewrite Hpc; simpl; repeat split; lia.
      - rewrite Hv in Hs. unfold hstep in Hs. rewrite Had in Hs.
        destruct (crit (dt s)) eqn:Hcr; [congruence| | | |]; inversion Hs; subst; unfold mmeasure; rewrite Hpc; simpl; rewrite ?Hcr; repeat split; lia. }
    destruct E as (E1 & E2 & E3 & E4).
    assert (Hoth : forall j z, j <> k -> nth_error fs j = Some z -> mmeasure s' z = mmeasure s z)
      by (intros; apply mmeasure_state; assumption).
    pose proof (sum_upd_ext (mmeasure s) (mmeasure s') fs k f f' Hk Hoth) as Hsum. unfold MM.
    split; [lia|]. split; [|assumption].
    intros [_ [Hc'|Hw]]; congruence.
Qed.

Lemma MM_round r : forall w, P2 w ->
  P2 (steps w r) /\ MM' (steps w r) <= MM' w /\
  forall k g, In k r -> nth_error (snd w) k = Some g -> enabled (fst w) g -> MM' (steps w r) < MM' w.
Proof.
  induction r as [|j r IH]; intros w HP; simpl.
  - split; [assumption|]. split; [lia|intros k g []].
  - destruct (step_k_cases w j) as [[Hn E]|(f & s' & f' & es & Hj & Hs & E)]; rewrite E.
    + destruct (IH w HP) as (HP' & Hle & Hlt). split; [assumption|]. split; [assumption|].
      intros k g [->|Hin] Hk Hp; [congruence|]. eapply Hlt; eauto.
    + destruct w as [s fs]. simpl in *.
      destruct (p2_step s fs j f s' f' es HP Hj Hs) as [HP1 Hm].
      destruct (IH (s', upd fs j f') HP1) as (HP' & Hle & Hlt). unfold MM' in *. simpl in *.
      split; [assumption|]. split; [destruct Hm as [Hm|[Hm _]]; lia|].
      intros k g Hin Hk Hen. destruct Hm as [Hm|(Hm & Hne & Hc)]; [lia|].
      destruct (Nat.eq_dec k j) as [->|Hkj]; [exfalso; apply Hne; congruence|].
      destruct Hin as [->|Hin]; [congruence|].
      assert (Hk1 : nth_error (upd fs j f') k = Some g) by (rewrite nth_upd_neq; auto).
      assert (Hen1 : enabled s' g).
      { destruct Hen as [Hnd Hnl]. split; [assumption|]. unfold not_locked_out in *. rewrite Hc. assumption. }
      specialize (Hlt k g Hin Hk1 Hen1). lia.
Qed.

Lemma all_done_or fs : all_done fs \/ exists k g, nth_error fs k = Some g /\ fpc g <> PDone.
Proof.
  induction fs as [|h t IH].
  - left. intros [|j] g H; discriminate.
  - destruct (pc_eq_done (fpc h)) as [Eh|Eh]; [|right; exists 0, h; auto].
    destruct IH as [IH|(k & g & Hk & Hp)]; [left|right; exists (S k), g; auto].
    intros [|j] g H; simpl in H; [inversion H; subst; assumption|eauto].
Qed.

(** While a call is unfinished, one that is not locked out exists: any, if the [data] mutex is
    free; its holder, otherwise. *)
Lemma exists_enabled s fs k g :
  P2 (s, fs) -> nth_error fs k = Some g -> fpc g <> PDone -> exists k' g', nth_error fs k' = Some g' /\ enabled s g'.
Proof.
  intros [HF Hdd] Hk Hnd. pose proof HF as [[[HP _] _] _ _ _]. simpl in HP. pose proof HP as [[Hd _] Hfr].
  destruct (crit (dt s)) eqn:Hc; [exists k, g; split; [assumption|split; [assumption|left; assumption]]| | | |].
  all: pose proof (i_win _ _ Hd) as Hw; rewrite Hc in Hw;
    destruct (cnt_exists is_win (map vdt fs) ltac:(lia)) as (k' & v & Hk' & Hv);
    destruct (nth_error fs k') as [g'|] eqn:Hg';
    [|apply nth_error_None in Hg'; assert (k' < length (map vdt fs)) by (apply nth_error_Some; congruence); rewrite map_length in *; lia];
    rewrite (nth_map_some vdt fs k' g' Hg') in Hk'; inversion Hk'; subst v;
    assert (Hwin : vdt g' = WIn) by (destruct (vdt g'); try discriminate; reflexivity);
    exists k', g'; split; [auto|]; split; [|right; assumption];
    intro Hdn; destruct (Hfr k' g' Hg') as [Hok _]; unfold pc_ok in Hok; rewrite Hdn in Hok; destruct Hok; congruence.
Qed.

Lemma all_done_step_k w k : all_done (snd w) -> step_k w k = w.
Proof.
  intro Hd. destruct (step_k_cases w k) as [[_ E]|(f & s' & f' & es & Hk & Hs & E)]; rewrite E; [reflexivity|].
  destruct w as [s fs]. simpl in *. pose proof (Hd k f Hk) as Hdn.
  assert (E2 : s' = s /\ f' = f).
  { unfold Model.fstep in Hs. destruct (aborted (dt s) || aborted (fb s)); [inversion Hs; auto|]. rewrite Hdn in Hs. inversion Hs; auto. }
  destruct E2 as [-> ->]. rewrite (upd_same fs k f Hk). reflexivity.
Qed.
Lemma all_done_steps r : forall w, all_done (snd w) -> steps w r = w.
Proof. induction r as [|k r IH]; intros w Hd; simpl; auto. rewrite (all_done_step_k w k Hd). apply IH, Hd. Qed.

Lemma mmeasure_pos s g : mut_pc (fpc g) = true -> fpc g <> PDone -> 1 <= mmeasure s g.
Proof. unfold mmeasure. destruct (fpc g); try discriminate; try congruence; lia. Qed.

Lemma phase2 rounds : forall w, P2 w ->
  (forall r, In r rounds -> covers (length (snd w)) r) -> MM' w <= length rounds ->
  all_done (snd (steps w (concat rounds))).
Proof.
  induction rounds as [|r rs IH]; intros w HP Hc Hn; simpl.
  - destruct (all_done_or (snd w)) as [H|(k & g & Hk & Hp)]; [assumption|].
    pose proof (sum_nth (mmeasure (fst w)) (snd w) k g Hk) as H1.
    destruct HP as [_ Hdd]. pose proof (mmeasure_pos (fst w) g (Hdd k g Hk) Hp).
    unfold MM', MM in Hn. simpl in Hn. lia.
  - rewrite steps_app. destruct (all_done_or (snd w)) as [H|(k & g & Hk & Hp)].
    + rewrite (all_done_steps r w H), (all_done_steps (concat rs) w H). exact H.
    + destruct (MM_round r w HP) as (HP1 & _ & Hlt). apply IH.
      * assumption.
      * intros r' Hr'. rewrite steps_length. apply Hc. right; assumption.
      * destruct w as [s fs]. destruct (exists_enabled s fs k g HP Hk Hp) as (k' & g' & Hk' & Hen).
        assert (Hin : In k' r) by (apply (Hc r (or_introl eq_refl)); apply nth_error_Some; simpl; congruence).
        specialize (Hlt k' g' Hin Hk' Hen). simpl in Hn. lia.
Qed.

Lemma bmeasure_le h : bmeasure h <= 24.
Proof. unfold bmeasure. destruct (crit h) as [| | |old st a b it|]; try lia. destruct st, a, b; simpl; lia. Qed.
Lemma mmeasure_le s g : mmeasure s g <= 75.
Proof. unfold mmeasure. pose proof (bmeasure_le (fb s)). pose proof (bmeasure_le (dt s)). destruct (fpc g); lia. Qed.
Lemma sum_bound {A} (g : A -> nat) c l : (forall x, g x <= c) -> sum (map g l) <= c * length l.
Proof. intro H. induction l as [|h t IH]; simpl; [lia|]. specialize (H h). unfold sum in *. lia. Qed.

(** * Fair termination *)

Lemma in_firstn {A} n (l : list A) x : In x (firstn n l) -> In x l.
Proof. revert l; induction n as [|n IH]; intros [|h t] H; simpl in *; try tauto. destruct H; auto. Qed.
Lemma in_skipn {A} n (l : list A) x : In x (skipn n l) -> In x l.
Proof. revert l; induction n as [|n IH]; intros [|h t] H; simpl in *; try tauto. auto. Qed.

Theorem fair_termination w rounds :
  FInv w -> (forall r, In r rounds -> covers (length (snd w)) r) ->
  D' w + 75 * length (snd w) <= length rounds ->
  all_done (snd (steps w (concat rounds))).
Proof.
  intros HF Hc Hn. set (n1 := D' w).
  rewrite <- (firstn_skipn n1 rounds), concat_app, steps_app.
  set (w1 := steps w (concat (firstn n1 rounds))).
  assert (HF1 : FInv w1) by (apply finv_steps; assumption).
  assert (Hd1 : dels_done (snd w1)).
  { apply phase1; [assumption| |].
    - intros r Hr. apply Hc. eapply in_firstn; eauto.
    - rewrite firstn_length_le; [unfold n1; lia|unfold n1; lia]. }
  apply phase2.
  - split; assumption.
  - intros r Hr. unfold w1. rewrite steps_length. apply Hc. eapply in_skipn; eauto.
  - rewrite skipn_length. pose proof (sum_bound (mmeasure (fst w1)) 75 (snd w1) (mmeasure_le (fst w1))) as Hb.
    unfold MM', MM. unfold w1 in Hb at 3. rewrite steps_length in Hb. unfold n1. lia.
Qed.

(** * Reachable worlds satisfy the invariant bundle *)

Lemma leninv_wstep w l w' es : Inv3 w -> LenInv (fst w) (snd w) -> Model.wstep q_ok s_ok w l = (w', es) -> LenInv (fst w') (snd w').
Proof.
  destruct w as [s fs]. intros HI HL Hs. pose proof HI as [[HP HC] HH]. simpl in *.
  destruct l as [k|kd]; simpl in Hs.
  - destruct (nth_error fs k) as [f|] eqn:Hk; [|inversion Hs; subst; assumption].
    destruct (fstep s f) as [[s1 f1] e1] eqn:Hf. inversion Hs; subst. simpl. eapply leninv_step; eauto.
  - inversion Hs; subst. simpl. intros j g Hj Hw. apply nth_app_cases in Hj. destruct Hj as [Hj|[_ ->]]; [eauto|].
    destruct kd; discriminate.
Qed.

Lemma leninv_run ls : forall w w' es, Inv3 w -> LenInv (fst w) (snd w) -> Model.run q_ok s_ok w ls = (w', es) -> LenInv (fst w') (snd w').
Proof.
  induction ls as [|l r IH]; intros w w' es HI HL Hr; simpl in Hr.
  - inversion Hr; subst. assumption.
  - destruct (Model.wstep q_ok s_ok w l) as [w1 e1] eqn:E1. destruct (Model.run q_ok s_ok w1 r) as [w2 e2] eqn:E2.
    inversion Hr; subst. eapply IH; [| |exact E2].
    + eapply (inv3_wstep q_ok s_ok); eauto.
    + eapply leninv_wstep; eauto.
Qed.

Lemma finv_reachable os0 ls w es :
  Model.run q_ok s_ok (sh_init os0, []) ls = (w, es) -> live (fst w) -> (N.of_nat (length (snd w)) <= MAX_GUARDS)%N -> FInv w.
Proof.
  intros Hr Hl Hp. constructor; auto.
  - eapply (inv3_run q_ok s_ok); [apply inv3_init|exact Hr].
  - eapply leninv_run; [apply (inv3_init os0)| |exact Hr]. intros k g Hk. destruct k; discriminate.
Qed.

(** C18, fair termination.  Take any reachable live world (any number of deliveries and of
    register / unregister / unregister_signal calls in flight, at any points of their code) with
    no further activity arriving.  Under every schedule made of rounds that each step every
    activity at least once (in any order, with any repetitions - a cut of any fair infinite
    schedule), after [D' w + 75 * n] rounds every activity has returned; [D' w] is the sum of the
    deliveries' remaining-step measures in [w], [n] the number of activities. *)
Theorem fair_termination_reachable os0 ls w es :
  Model.run q_ok s_ok (sh_init os0, []) ls = (w, es) -> live (fst w) -> (N.of_nat (length (snd w)) <= MAX_GUARDS)%N ->
  forall rounds, (forall r, In r rounds -> covers (length (snd w)) r) ->
  D' w + 75 * length (snd w) <= length rounds ->
  all_done (snd (steps w (concat rounds))).
Proof. intros Hr Hl Hp rounds Hc Hn. apply fair_termination; auto. eapply finv_reachable; eauto. Qed.

End Fair.

(** Non-vacuity: a delivery, a register call and an unregister_signal call caught in the middle
    of their code; the hypotheses hold, [D'] is a small number and round-robin rounds finish. *)
Definition ok_all (_ : Z) := true.
Definition fair_mid : list label :=
  [LSpawn (KMut (MRegister 10%Z 1)); LSpawn (KDeliver 10%Z); LSpawn (KMut (MUnregSignal 10%Z)); LSpawn (KMut (MRegister 10%Z 2))]
  ++ repeat (LStep 3) 40 ++ repeat (LStep 1) 7 ++ repeat (LStep 0) 30 ++ repeat (LStep 2) 2 ++ [LSpawn (KDeliver 10%Z)].
Example fair_example :
  let w := fst (run ok_all ok_all (sh_init [], []) fair_mid) in
  live (fst w) /\ (N.of_nat (length (snd w)) <= MAX_GUARDS)%N /\
  map (fun f => fpc f) (snd w) = [MDtBarrier; PRun [(1%N, 2)]; MDtLock; PDone; PStart] /\
  D' w + 75 * length (snd w) = 393 /\
  forallb (fun f => is_done (fpc f)) (snd (steps ok_all ok_all w (concat (repeat [0; 1; 2; 3; 4] 60)))) = true.
Proof. vm_compute. repeat split; auto; discriminate. Qed.
