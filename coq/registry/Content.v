(** Snapshot contents: the history of published registry states is append-only and indexed by
    allocation epoch; a delivery runs exactly the action list that its snapshot holds for its
    signal, in that order (C02); the mutex holder's clone is what gets published. *)
From Coq Require Import List Arith NArith ZArith Bool Lia.
From SH Require Import base.Pool gen.Extracted_halflock gen.Extracted_registry
  halflock.Model halflock.Safety halflock.Lemmas registry.Model registry.Tactics registry.Inv registry.PcInv registry.Events.
Import ListNotations.
Arguments Nat.modulo : simpl never.
Arguments N.ltb : simpl never.
Arguments N.of_nat : simpl never.
Local Open Scope nat_scope.

Definition content (s : shared) (p : nat) : sigdata := nth p (dhist s) sd_init.
Definition cur (s : shared) : sigdata := content s (ptr (dt s)).
Definition slot_acts (d : sigdata) (sg : Z) : list (N * nat) :=
  match lookup sg (slots d) with Some sl => s_acts sl | None => [] end.
Definition pending (f : frame) : list (N * nat) :=
  match fpc f with PPrev _ a | PRun a => a | _ => [] end.

(** Reader consistency: what a delivery has run plus what it still will run is the action list
    of the snapshot it loaded, for its signal. *)
Definition reader_ok (s : shared) (g : frame) : Prop :=
  match snap g with
  | None => ran g = [] /\ pending g = []
  | Some p => p < length (dhist s) /\ ran g ++ pending g = slot_acts (content s p) (sig_of (kind g))
              /\ (forall i q, vdt g = RHold i q -> q = p)
  end.

Definition before_load (p : pc) : bool :=
  match p with PStart | PForeign _ | PFbGen | PFbInc | PFbPtr | PDtGen | PDtInc | PDtPtr => true | _ => false end.

Record CInv (s : shared) (fs : list frame) : Prop := {
  c_dlen : length (dhist s) = nxt (dt s);
  c_flen : length (fhist s) = nxt (fb s);
  c_reader : forall k g, nth_error fs k = Some g -> reader_ok s g;
  c_snap : forall k g, nth_error fs k = Some g -> before_load (fpc g) = true \/ mut_pc (fpc g) = true -> fpc g <> PDone -> snap g = None
}.

Lemma after_runs_pending a : match after_runs a with PPrev _ l | PRun l => l | _ => [] end = a.
Proof. destruct a; reflexivity. Qed.

Lemma dispatch_next_pending sg d fc :
  match dispatch_next sg d fc with PPrev _ l | PRun l => l | _ => [] end = slot_acts d sg.
Proof.
  unfold dispatch_next, slot_acts. destruct (lookup sg (slots d)) as [sl|].
  - destruct (is_foreign (s_prev sl)); [reflexivity|apply after_runs_pending].
  - destruct fc as [[ps dd]|]; [|reflexivity]. destruct (Z.eqb ps sg); [|reflexivity]. destruct (is_foreign dd); reflexivity.
Qed.

Lemma content_app s p x : p < length (dhist s) -> nth p (dhist s ++ [x]) sd_init = nth p (dhist s) sd_init.
Proof. intro H. apply app_nth1. assumption. Qed.

Section Content.
Variable q_ok s_ok : Z -> bool.
Notation fstep := (Model.fstep q_ok s_ok).

(** What a step does to the history of published snapshots. *)
Lemma fstep_dhist s f s' f' es :
  fstep s f = (s', f', es) ->
  dhist s' = dhist s \/ (fpc f = MDtSwap /\ dhist s' = dhist s ++ [local f]).
Proof.
  unfold Model.fstep. destruct (aborted (dt s) || aborted (fb s)); [inversion 1; auto|].
  destruct (fpc f) eqn:Hpc; try hs; split_conds;
    (let H := fresh in intro H; inversion H; subst; simpl; auto).
Qed.

Lemma fstep_fhist s f s' f' es :
  fstep s f = (s', f', es) ->
  fhist s' = fhist s \/ (fpc f = MFbSwap /\ fhist s' = fhist s ++ [Some (sig_of (kind f), lprev f)]).
Proof.
  unfold Model.fstep. destruct (aborted (dt s) || aborted (fb s)); [inversion 1; auto|].
  destruct (fpc f) eqn:Hpc; try hs; split_conds;
    (let H := fresh in intro H; inversion H; subst; simpl; auto).
Qed.

Ltac use_nxt :=
  match goal with
  | E : hstep ?a ?b ?o = (?h, ?v, ?e) |- _ =>
      let N1 := fresh "N" in
      destruct (hstep_nxt _ _ _ _ _ _ E) as [[N1 ?]|(? & N1 & ? & ? & ? & ?)]; [|try discriminate N1]
  end.

(** The data pointer and the allocation counter change only in the publishing step. *)
Lemma fstep_dt_nxt s f s' f' es :
  frame_ok s f -> fstep s f = (s', f', es) ->
  (nxt (dt s') = nxt (dt s) /\ ptr (dt s') = ptr (dt s) /\ dhist s' = dhist s) \/
  (fpc f = MDtSwap /\ vdt f = WIn /\ crit (dt s) = CLoaded /\ nxt (dt s') = S (nxt (dt s)) /\ ptr (dt s') = nxt (dt s)
   /\ dhist s' = dhist s ++ [local f] /\ in_store (dt s') = true).
Proof.
  intros [Hok _]. unfold Model.fstep. destruct (aborted (dt s) || aborted (fb s)) eqn:Hab; [inversion 1; auto|].
  apply orb_false_iff in Hab. destruct Hab as [Had Haf].
  unfold pc_ok in Hok.
  destruct (fpc f) eqn:Hpc; try hs; try use_nxt; split_conds;
    try (let H := fresh in intro H; inversion H; subst; simpl; auto; try (left; repeat split; congruence); try (right; repeat split; congruence); fail).
  (* MDtSwap whose swap did not happen: impossible under pc_ok *)
  destruct Hok as (_ & Hv & Hc). rewrite Hv in E. unfold hstep in E. rewrite Had, Hc in E. inversion E; subst. simpl in *. lia.
Qed.

Lemma fstep_fb_nxt s f s' f' es :
  frame_ok s f -> fstep s f = (s', f', es) ->
  (nxt (fb s') = nxt (fb s) /\ ptr (fb s') = ptr (fb s) /\ fhist s' = fhist s) \/
  (fpc f = MFbSwap /\ vfb f = WIn /\ crit (fb s) = CLoaded /\ nxt (fb s') = S (nxt (fb s)) /\ ptr (fb s') = nxt (fb s)
   /\ fhist s' = fhist s ++ [Some (sig_of (kind f), lprev f)]).
Proof.
  intros [Hok _]. unfold Model.fstep. destruct (aborted (dt s) || aborted (fb s)) eqn:Hab; [inversion 1; auto|].
  apply orb_false_iff in Hab. destruct Hab as [Had Haf].
  unfold pc_ok in Hok.
  destruct (fpc f) eqn:Hpc; try hs; try use_nxt; split_conds;
    try (let H := fresh in intro H; inversion H; subst; simpl; auto; try (left; repeat split; congruence); try (right; repeat split; congruence); fail).
  destruct Hok as (Hv & Hc & _). rewrite Hv in E. unfold hstep in E. rewrite Haf, Hc in E. inversion E; subst. simpl in *. lia.
Qed.

Lemma reader_ok_stable s s' g :
  reader_ok s g -> (exists x, dhist s' = dhist s ++ x) -> reader_ok s' g.
Proof.
  unfold reader_ok, content. intros H [x Hx]. destruct (snap g) as [p|]; [|exact H].
  destruct H as (Hp & He & Hq). rewrite Hx. split; [rewrite app_length; lia|]. split; [|exact Hq].
  rewrite app_nth1 by assumption. exact He.
Qed.

Ltac fin_reader :=
  unfold reader_ok, pending; simpl;
  repeat match goal with
  | H : ?a = None |- context [?a] => rewrite H
  | H : ?a = Some _ |- context [?a] => rewrite H
  end; simpl; auto.

(** The stepping frame keeps reader consistency. *)
Lemma self_reader_ok s fs k f s' f' es :
  PInv s fs -> CInv s fs -> nth_error fs k = Some f -> fstep s f = (s', f', es) ->
  reader_ok s' f' /\ ((before_load (fpc f') = true \/ mut_pc (fpc f') = true) -> fpc f' <> PDone -> snap f' = None).
Proof.
  intros HP HC Hk Hs.
  destruct HP as [[Hd Hf] Hfr]. destruct (Hfr k f Hk) as [Hpc_ok Hkind].
  pose proof (c_reader _ _ HC k f Hk) as Hr. pose proof (c_snap _ _ HC k f Hk) as Hsn.
  assert (Hdh : exists x, dhist s' = dhist s ++ x).
  { destruct (fstep_dhist _ _ _ _ _ Hs) as [->|[_ ->]]; [exists []; rewrite app_nil_r; reflexivity|eauto]. }
  unfold Model.fstep in Hs.
  destruct (aborted (dt s) || aborted (fb s)) eqn:Hab.
  { inversion Hs; subst. split; [exact Hr|exact Hsn]. }
  apply orb_false_iff in Hab. destruct Hab as [Had Haf].
  unfold pc_ok in Hpc_ok. unfold reader_ok in Hr.
  destruct (fpc f) eqn:Hpc; simpl in Hsn;
    try (assert (Hnone : snap f = None) by (apply Hsn; [auto|discriminate]); rewrite Hnone in Hr; destruct Hr as [Hran Hpend]).
  - (* PStart *) destruct (os_get s _); inversion Hs; subst; split; fin_reader; intros; auto.
  - (* PForeign *) inversion Hs; subst; split; fin_reader; intros _ Hx; exfalso; apply Hx; reflexivity.
  - (* PFbGen *) hsin Hs. inversion Hs; subst; split; fin_reader.
  - hsin Hs. inversion Hs; subst; split; fin_reader.
  - hsin Hs. inversion Hs; subst; split; fin_reader.
  - hsin Hs. inversion Hs; subst; split; fin_reader.
  - hsin Hs. inversion Hs; subst; split; fin_reader.
  - (* PDtPtr *)
    destruct Hpc_ok as [_ [i Hv]]. rewrite Hv in Hs. unfold hstep in Hs. rewrite Had in Hs. inversion Hs; subst; clear Hs.
    unfold reader_ok, pending, content. simpl. split.
    + split; [destruct (i_ptr _ _ Hd) as [_ Hlt]; rewrite (c_dlen _ _ HC); exact Hlt|].
      split; [rewrite Hran; simpl; apply dispatch_next_pending|]. intros i0 q Hq. inversion Hq; reflexivity.
    + match goal with |- context [dispatch_next ?a ?b ?c] => destruct (dispatch_next_cases a b c) as [E2|[[l E2]|[si [l E2]]]] end;
        rewrite E2; simpl; intros [Hb|Hm] _; discriminate.
  - (* PPrev *)
    inversion Hs; subst; clear Hs. split.
    + unfold reader_ok, pending in *. simpl. rewrite Hpc in Hr. destruct (snap f); [|destruct Hr as [Hy Hx]; subst; simpl; auto].
      destruct Hr as (A & B & C). split; [exact A|]. split; [|exact C]. rewrite after_runs_pending. exact B.
    + destruct (after_runs_cases acts) as [E2|[l E2]]; rewrite E2; simpl; intros [Hb|Hm] _; discriminate.
  - (* PRun *)
    destruct acts as [|a rest]; inversion Hs; subst; clear Hs.
    + split.
      * unfold reader_ok, pending in *. simpl. rewrite Hpc in Hr. destruct (snap f); [|exact Hr]. simpl in Hr. exact Hr.
      * intros [Hb|Hm] _; simpl in *; discriminate.
    + split.
      * unfold reader_ok, pending in *. simpl. rewrite Hpc in Hr. destruct (snap f); [|destruct Hr as [_ Hx]; discriminate].
        destruct Hr as (A & B & C). split; [exact A|]. split; [|exact C]. rewrite after_runs_pending. rewrite <- app_assoc. exact B.
      * destruct (after_runs_cases rest) as [E2|[l E2]]; rewrite E2; simpl; intros [Hb|Hm] _; discriminate.
  - (* PDtDec *)
    hsin Hs. destruct Hpc_ok as [_ [i [p Hv]]]. rewrite Hv in E. unfold hstep in E. rewrite Had in E. inversion E; subst. inversion Hs; subst; clear Hs.
    split.
    + unfold reader_ok, pending in *. simpl. rewrite Hpc in Hr. destruct (snap f); [|exact Hr].
      destruct Hr as (A & B & C). split; [exact A|]. split; [exact B|]. intros; discriminate.
    + intros [Hb|Hm] _; simpl in *; discriminate.
  - (* PFbDec *)
    hsin Hs. inversion Hs; subst; clear Hs. split.
    + unfold reader_ok, pending in *. simpl. rewrite Hpc in Hr. exact Hr.
    + intros _ Hx; exfalso; apply Hx; reflexivity.
  - (* MStart *) split_conds_in Hs; inversion Hs; subst; split; fin_reader; try (intros _ Hx; exfalso; apply Hx; reflexivity).
  - (* MDtLock *) hsin Hs. inversion Hs; subst; split; fin_reader; destruct v; simpl; auto.
  - (* MDtLoad *)
    hsin Hs. inversion Hs; subst; clear Hs.
    destruct (load_update_ok f v (nth (ptr (dt s)) (dhist s) sd_init) Hkind Hpc) as [_ Hcases].
    assert (Hsnap : snap (load_update f v (nth (ptr (dt s)) (dhist s) sd_init)) = None /\ ran (load_update f v (nth (ptr (dt s)) (dhist s) sd_init)) = []).
    { unfold load_update. destruct (kind f) as [|[sg tg|sg aid|sg]]; simpl; auto;
        destruct (lookup sg _) as [sl|]; simpl; auto; [destruct (has_act _ _)|destruct (s_acts sl)]; simpl; auto. }
    destruct Hsnap as [S1 S2]. split.
    + unfold reader_ok, pending. rewrite S1, S2. destruct Hcases as [E2|[E2|E2]]; rewrite E2; auto.
    + intros; exact S1.
  - (* MFbLock *) hsin Hs. inversion Hs; subst; split; fin_reader; destruct v; simpl; auto.
  - hsin Hs. inversion Hs; subst; split; fin_reader.
  - (* MDetect *) split_conds_in Hs; inversion Hs; subst; split; fin_reader.
  - hsin Hs. inversion Hs; subst; split; fin_reader.
  - (* MFbBarrier *) hsin Hs. inversion Hs; subst; split; fin_reader; destruct (in_store h); simpl; auto.
  - hsin Hs. inversion Hs; subst; split; fin_reader.
  - (* MSlotNew *) split_conds_in Hs; inversion Hs; subst; split; fin_reader.
  - hsin Hs. inversion Hs; subst; split; fin_reader.
  - (* MDtBarrier *) hsin Hs. inversion Hs; subst; split; fin_reader; destruct (in_store h); simpl; auto.
  - (* MDtUnlock *) hsin Hs. inversion Hs; subst; split; fin_reader; intros _ Hx; exfalso; apply Hx; reflexivity.
  - hsin Hs. inversion Hs; subst; split; fin_reader.
  - (* MErrDtUnlock *) hsin Hs. inversion Hs; subst; split; fin_reader; intros _ Hx; exfalso; apply Hx; reflexivity.
  - (* PDone *) inversion Hs; subst. split; [unfold reader_ok; exact Hr| intros _ Hx; exfalso; apply Hx; assumption].
Qed.

Lemma cinv_step s fs k f s' f' es :
  PInv s fs -> CInv s fs -> nth_error fs k = Some f -> fstep s f = (s', f', es) -> CInv s' (upd fs k f').
Proof.
  intros HP HC Hk Hs.
  pose proof HP as [[Hd Hf] Hfr].
  pose proof (Hfr k f Hk) as Hfok.
  destruct (self_reader_ok s fs k f s' f' es HP HC Hk Hs) as [Hr Hsn].
  assert (Hdh : exists x, dhist s' = dhist s ++ x).
  { destruct (fstep_dhist _ _ _ _ _ Hs) as [->|[_ ->]]; [exists []; rewrite app_nil_r; reflexivity|eauto]. }
  constructor.
  - destruct (fstep_dt_nxt _ _ _ _ _ Hfok Hs) as [(A & _ & B)|(_ & _ & _ & A & _ & B & _)]; rewrite A, B.
    + apply (c_dlen _ _ HC).
    + rewrite app_length. simpl. rewrite (c_dlen _ _ HC). lia.
  - destruct (fstep_fb_nxt _ _ _ _ _ Hfok Hs) as [(A & _ & B)|(_ & _ & _ & A & _ & B)]; rewrite A, B.
    + apply (c_flen _ _ HC).
    + rewrite app_length. simpl. rewrite (c_flen _ _ HC). lia.
  - intros j g Hj. apply nth_upd_cases in Hj. destruct Hj as [(-> & _ & ->)|[Hne Hj]]; [exact Hr|].
    eapply reader_ok_stable; [exact (c_reader _ _ HC j g Hj)|exact Hdh].
  - intros j g Hj. apply nth_upd_cases in Hj. destruct Hj as [(-> & _ & ->)|[Hne Hj]]; [exact Hsn|].
    exact (c_snap _ _ HC j g Hj).
Qed.

Lemma mk_frame_reader_ok s k : reader_ok s (mk_frame k).
Proof. unfold reader_ok. simpl. destruct k; simpl; auto. Qed.

Lemma cinv_init os0 : CInv (sh_init os0) [].
Proof. constructor; simpl; auto; intros [|j] g H; discriminate. Qed.

Definition Inv2 (w : world) : Prop := PInv (fst w) (snd w) /\ CInv (fst w) (snd w).

Lemma inv2_wstep w l w' es : Inv2 w -> Model.wstep q_ok s_ok w l = (w', es) -> Inv2 w'.
Proof.
  destruct w as [s fs]. intros [HP HC] Hs. split; [eapply (pinv_wstep q_ok s_ok (s, fs)); eauto|].
  simpl in *. destruct l as [k|kd]; simpl in Hs.
  - destruct (nth_error fs k) as [f|] eqn:Hn.
    + destruct (fstep s f) as [[s1 f1] e1] eqn:Hf. inversion Hs; subst. simpl. eapply cinv_step; eauto.
    + inversion Hs; subst. assumption.
  - inversion Hs; subst. simpl. destruct HC as [A B C D]. constructor; auto.
    + intros j g Hj. apply nth_app_cases in Hj. destruct Hj as [Hj|[_ ->]]; [eauto|apply mk_frame_reader_ok].
    + intros j g Hj. apply nth_app_cases in Hj. destruct Hj as [Hj|[_ ->]]; [eauto|reflexivity].
Qed.

Lemma inv2_run ls : forall w w' es, Inv2 w -> Model.run q_ok s_ok w ls = (w', es) -> Inv2 w'.
Proof.
  induction ls as [|l r IH]; intros w w' es H Hr; simpl in Hr.
  - inversion Hr; subst. assumption.
  - destruct (Model.wstep q_ok s_ok w l) as [w1 e1] eqn:Hw. destruct (Model.run q_ok s_ok w1 r) as [w2 e2] eqn:Hr2.
    inversion Hr; subst. eapply IH; [|eauto]. eapply inv2_wstep; eauto.
Qed.

Lemma inv2_init os0 : Inv2 (sh_init os0, []).
Proof. split; [apply pinv_init|apply cinv_init]. Qed.

(** C02, core: in every reachable world, what a delivery has run so far followed by what it
    still has to run is exactly the action list (in id order = registration order) that the
    ONE snapshot it loaded holds for its signal - nothing else, nothing twice, nothing of
    another signal.  That snapshot was the current registry state at the instant of the load
    step, which lies within the delivery. *)
Theorem delivery_runs_one_snapshot os0 ls s fs es :
  Model.run q_ok s_ok (sh_init os0, []) ls = ((s, fs), es) ->
  forall k g, nth_error fs k = Some g ->
    match snap g with
    | Some p => p < length (dhist s) /\ ran g ++ pending g = slot_acts (content s p) (sig_of (kind g))
    | None => ran g = [] /\ pending g = []
    end.
Proof.
  intros Hr k g Hk.
  pose proof (inv2_run ls _ _ _ (inv2_init os0) Hr) as [_ HC]. simpl in HC.
  pose proof (c_reader _ _ HC k g Hk) as H. unfold reader_ok in H.
  destruct (snap g); tauto.
Qed.

End Content.

Section LoadCurrent.
Variable q_ok s_ok : Z -> bool.

(** The snapshot a delivery runs is the registry state that is current at its load step - an
    instant inside the delivery. *)
Lemma load_reads_current s f s' f' es :
  frame_ok s f -> fpc f = PDtPtr -> aborted (dt s) = false -> aborted (fb s) = false ->
  Model.fstep q_ok s_ok s f = (s', f', es) ->
  snap f' = Some (ptr (dt s)) /\ ran f' = ran f /\
  pending f' = slot_acts (cur s) (sig_of (kind f)) /\ dhist s' = dhist s.
Proof.
  intros [Hok _] Hpc Had Haf Hs. unfold pc_ok in Hok. rewrite Hpc in Hok. destruct Hok as [_ [i Hv]].
  unfold Model.fstep in Hs. rewrite Had, Haf, Hpc in Hs. simpl in Hs. rewrite Hv in Hs. unfold hstep in Hs. rewrite Had in Hs.
  inversion Hs; subst. simpl. repeat split; auto. unfold pending. simpl. apply dispatch_next_pending.
Qed.

(** [snap] is written by the load step only. *)
Lemma snap_preserved s f s' f' es :
  Model.fstep q_ok s_ok s f = (s', f', es) -> fpc f <> PDtPtr -> snap f' = snap f.
Proof.
  unfold Model.fstep. destruct (aborted (dt s) || aborted (fb s)); [inversion 1; auto|].
  destruct (fpc f) eqn:Hpc; try congruence; try hs; split_conds;
    (let H := fresh in intro H; inversion H; subst; simpl; auto);
    try (destruct (load_update_views f v (nth (ptr (dt s)) (dhist s) sd_init)) as (_ & _ & _)).
  all: unfold load_update; destruct (kind f) as [|[sg tg|sg aid|sg]]; simpl; auto;
    destruct (lookup sg _) as [sl|]; simpl; auto; [destruct (has_act _ _)|destruct (s_acts sl)]; simpl; auto.
Qed.

End LoadCurrent.
