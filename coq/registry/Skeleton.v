(** Tie between registry/Model.v and signal-hook-registry/src/lib.rs (see halflock/Skeleton.v). *)
From Coq Require Import ZArith NArith List String Bool.
From SH Require Import gen.Extracted_registry.
Import ListNotations. Open Scope string_scope.

Lemma skel_handler_ok : skel_handler =
  ["GlobalData::get"; "race_fallback.read()"; "data.read()"; "if let Some(slot) = sigdata.signals.get(&sig) {"; "slot.prev.execute"; "abort"; "for action in slot.actions.values() {"; "action(info)"; "}"; "}"; "else if let Some(prev) = fallback.as_ref() {"; "if prev.signal == sig {"; "prev.execute"; "}"; "}"].
Proof. reflexivity. Qed.

Lemma skel_register_sigaction_impl_ok : skel_register_sigaction_impl =
  ["assert!"; "register_unchecked_impl"].
Proof. reflexivity. Qed.

Lemma skel_register_unchecked_impl_ok : skel_register_unchecked_impl =
  ["GlobalData::ensure"; "data.write()"; "SignalData::clone(&lock)"; "id=ActionId(sigdata.next_id)"; "sigdata.next_id+=1"; "match sigdata.signals.entry(signal) {"; "assert!"; "occupied.actions.insert(id,action)"; "race_fallback.write()"; ".store(Some(Prev::detect(signal)?))"; "Slot::new(signal)?"; "slot.actions.insert(id,action)"; "place.insert(slot)"; "}"; "lock.store()"; "Ok(SigId)"].
Proof. reflexivity. Qed.

Lemma skel_unregister_ok : skel_unregister =
  ["GlobalData::ensure"; "data.write()"; "SignalData::clone(&lock)"; "if let Some(slot) = sigdata.signals.get_mut(&id.signal) {"; "replace=slot.actions.remove(&id.action).is_some()"; "}"; "if replace {"; "lock.store()"; "}"].
Proof. reflexivity. Qed.

Lemma skel_unregister_signal_ok : skel_unregister_signal =
  ["GlobalData::ensure"; "data.write()"; "SignalData::clone(&lock)"; "if let Some(slot) = sigdata.signals.get_mut(&signal) {"; "if !slot.actions.is_empty() {"; "slot.actions.clear()"; "replace=true"; "}"; "}"; "if replace {"; "lock.store()"; "}"].
Proof. reflexivity. Qed.

Lemma skel_prev_execute_ok : skel_prev_execute =
  ["if fptr != 0 && fptr != libc::SIG_DFL && fptr != libc::SIG_IGN {"; "if self.info.sa_flags & siginfo == 0 {"; "action(sig)"; "}"; "else {"; "action(sig,info,data)"; "}"; "}"].
Proof. reflexivity. Qed.

Lemma skel_prev_detect_ok : skel_prev_detect =
  ["if unsafe {"; "sigaction(signal,NULL,&mut old)"; "}"; "return Err"].
Proof. reflexivity. Qed.

Lemma skel_slot_new_ok : skel_slot_new =
  ["if unsafe {"; "sigaction(signal,&new,&mut old)"; "}"; "return Err"].
Proof. reflexivity. Qed.

Lemma registry_constants_ok : forbidden = [9; 19; 4; 8; 11]%Z /\ init_next_id = 1%N /\ sa_flag_names = ["SA_RESTART"; "SA_SIGINFO"].
Proof. repeat split; reflexivity. Qed.
