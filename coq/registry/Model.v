(** Executable SC model of the concurrent registry: signal-hook-registry/src/lib.rs over two
    half-locks ([data] and [race_fallback]), with the dispatcher, register, unregister and
    unregister_signal as step machines (DESIGN 3.1, 5.1-5.4, 5.18).

    Flat pool of activities: a [frame] is one delivery (handler invocation, on any thread, also
    nested on a thread that is in the middle of a mutator call) or one mutator call.  Any frame
    may step at any time ([LStep k]); frames may be spawned at any time ([LSpawn]).  Labels that
    do not apply are no-ops, so every label list is a schedule.

    Modelling notes: the id counter is an unbounded [N] here (the u128 wrap needs 2^128
    registrations; it is modelled explicitly in the sequential refinement, seqreg/); snapshot
    contents are immutable values indexed by allocation epoch ([dhist], [fhist]); a reader
    copies the action list of its slot when it loads the pointer (justified by the safety
    theorem: the snapshot it holds is not released while it is held). *)
From Coq Require Import List Arith NArith ZArith Bool.
From SH Require Import base.Pool gen.Extracted_halflock gen.Extracted_registry halflock.Model.
Import ListNotations.
Open Scope Z_scope.

Inductive disp := DDfl | DIgn | DForeign (siginfo : bool) | DLib.

Record slot := { s_prev : disp; s_acts : list (N * nat) }.   (* (id, tag) in increasing id order *)
Record sigdata := { slots : list (Z * slot); next_id : N }.
Definition fbdata := option (Z * disp).

Definition sd_init : sigdata := {| slots := []; next_id := init_next_id |}.

Fixpoint lookup {A} (s : Z) (l : list (Z * A)) : option A :=
  match l with
  | [] => None
  | (k, v) :: t => if k =? s then Some v else lookup s t
  end.

Fixpoint update {A} (s : Z) (v : A) (l : list (Z * A)) : list (Z * A) :=
  match l with
  | [] => [(s, v)]
  | (k, w) :: t => if k =? s then (k, v) :: t else (k, w) :: update s v t
  end.

(** BTreeMap insert in key order (ids are issued in increasing order; this keeps the list
    sorted whatever the id). *)
Fixpoint insert_act (id : N) (tag : nat) (l : list (N * nat)) : list (N * nat) :=
  match l with
  | [] => [(id, tag)]
  | (i, t) :: r => if N.ltb id i then (id, tag) :: l else (i, t) :: insert_act id tag r
  end.

Definition remove_act (id : N) (l : list (N * nat)) : list (N * nat) :=
  filter (fun a => negb (N.eqb (fst a) id)) l.
Definition has_act (id : N) (l : list (N * nat)) : bool := existsb (fun a => N.eqb (fst a) id) l.

Record shared := {
  dt : hl; fb : hl;
  dhist : list sigdata;        (* content of data epoch e *)
  fhist : list fbdata;         (* content of race_fallback epoch e *)
  os : list (Z * disp)         (* process dispositions; absent = default *)
}.

Definition os_get (s : shared) (sig : Z) : disp := match lookup sig (os s) with Some d => d | None => DDfl end.

Definition sh_init (os0 : list (Z * disp)) : shared :=
  {| dt := hl_init; fb := hl_init; dhist := [sd_init]; fhist := [None]; os := os0 |}.

Inductive mkind := MRegister (sig : Z) (tag : nat) | MUnregister (sig : Z) (id : N) | MUnregSignal (sig : Z).
Inductive fkind := KDeliver (sig : Z) | KMut (m : mkind).

Inductive pc :=
| PStart | PForeign (si : bool)
| PFbGen | PFbInc | PFbPtr | PDtGen | PDtInc | PDtPtr
| PPrev (si : bool) (acts : list (N * nat)) | PRun (acts : list (N * nat))
| PDtDec | PFbDec
| MStart | MDtLock | MDtLoad | MFbLock | MFbLoad | MDetect | MFbSwap | MFbBarrier | MFbUnlock
| MSlotNew | MDtSwap | MDtBarrier | MDtUnlock | MErrFbUnlock | MErrDtUnlock
| PDone.

Record frame := {
  kind : fkind; fpc : pc; vfb : view; vdt : view;
  local : sigdata;          (* mutator: the clone being modified *)
  lprev : disp;             (* register: what Prev::detect saw *)
  lid : N;                  (* register: the id taken from the clone *)
  res : Z;                  (* mutator: return value (1 ok/true, 0 err/false) *)
  ran : list (N * nat);     (* ghost: actions this delivery has run so far *)
  snap : option nat;        (* ghost: the data snapshot this delivery loaded *)
  removed : list N          (* ghost: ids of the actions this mutator call removes *)
}.

Definition mk_frame (k : fkind) : frame :=
  {| kind := k; fpc := match k with KDeliver _ => PStart | KMut _ => MStart end;
     vfb := VIdle; vdt := VIdle; local := sd_init; lprev := DDfl; lid := 0%N; res := 0; ran := []; snap := None; removed := [] |}.

Definition set_pc (f : frame) (p : pc) : frame :=
  {| kind := kind f; fpc := p; vfb := vfb f; vdt := vdt f; local := local f; lprev := lprev f; lid := lid f; res := res f; ran := ran f; snap := snap f; removed := removed f |}.
Definition set_vfb (f : frame) (v : view) (p : pc) : frame :=
  {| kind := kind f; fpc := p; vfb := v; vdt := vdt f; local := local f; lprev := lprev f; lid := lid f; res := res f; ran := ran f; snap := snap f; removed := removed f |}.
Definition set_vdt (f : frame) (v : view) (p : pc) : frame :=
  {| kind := kind f; fpc := p; vfb := vfb f; vdt := v; local := local f; lprev := lprev f; lid := lid f; res := res f; ran := ran f; snap := snap f; removed := removed f |}.

Definition set_dt (s : shared) (h : hl) : shared := {| dt := h; fb := fb s; dhist := dhist s; fhist := fhist s; os := os s |}.
Definition set_fb (s : shared) (h : hl) : shared := {| dt := dt s; fb := h; dhist := dhist s; fhist := fhist s; os := os s |}.

(** events of the registry: half-lock events with the location offset of the instance
    (data: 1..5, race_fallback: 11..15), and 20 Start / 21 CallPrev / 22 Run / 23 Ret,
    12 sigaction (arg = 2*sig + install). *)
Definition shift (off : Z) (e : hev) : hev :=
  if (e_loc e =? 0) then e else {| e_op := e_op e; e_loc := e_loc e + off; e_arg := e_arg e; e_res := e_res e; e_ok := e_ok e |}.
Definition bz (b : bool) : Z := if b then 1 else 0.

Definition is_foreign (d : disp) : option bool := match d with DForeign si => Some si | _ => None end.

Definition after_runs (acts : list (N * nat)) : pc := match acts with [] => PDtDec | _ => PRun acts end.

Definition held_ptr (v : view) : nat := match v with RHold _ p => p | _ => 0%nat end.

(** What the dispatcher does after loading the data pointer (the lookups are local
    computation on the snapshot): [content] is the data snapshot, [fbc] the fallback one. *)
Definition dispatch_next (sig : Z) (content : sigdata) (fbc : fbdata) : pc :=
  match lookup sig (slots content) with
  | Some sl =>
      match is_foreign (s_prev sl) with
      | Some si => PPrev si (s_acts sl)
      | None => after_runs (s_acts sl)
      end
  | None =>
      match fbc with
      | Some (psig, d) =>
          if psig =? sig then match is_foreign d with Some si => PPrev si [] | None => PDtDec end
          else PDtDec
      | None => PDtDec
      end
  end.

(** A mutator has the write guard on [data] and its view becomes [v]: clone the snapshot [c]
    and modify the clone (register takes the id from the clone). *)
Definition load_update (f : frame) (v : view) (c : sigdata) : frame :=
  let upd_rm (l : sigdata) (id : N) (r : Z) (p : pc) (rm : list N) :=
    {| kind := kind f; fpc := p; vfb := vfb f; vdt := v; local := l; lprev := lprev f; lid := id; res := r; ran := ran f; snap := snap f; removed := rm |} in
  let upd_local (l : sigdata) (id : N) (r : Z) (p : pc) := upd_rm l id r p [] in
  match kind f with
  | KMut (MRegister sg tag) =>
      let id := next_id c in
      let c1 := {| slots := slots c; next_id := N.succ id |} in
      match lookup sg (slots c) with
      | Some sl =>
          upd_local {| slots := update sg {| s_prev := s_prev sl; s_acts := insert_act id tag (s_acts sl) |} (slots c1);
                       next_id := next_id c1 |} id 1 MDtSwap
      | None => upd_local c1 id 1 MFbLock
      end
  | KMut (MUnregister sg id) =>
      match lookup sg (slots c) with
      | Some sl =>
          if has_act id (s_acts sl)
          then upd_rm {| slots := update sg {| s_prev := s_prev sl; s_acts := remove_act id (s_acts sl) |} (slots c);
                         next_id := next_id c |} id 1 MDtSwap [id]
          else upd_local c id 0 MDtUnlock
      | None => upd_local c id 0 MDtUnlock
      end
  | KMut (MUnregSignal sg) =>
      match lookup sg (slots c) with
      | Some sl =>
          match s_acts sl with
          | [] => upd_local c 0%N 0 MDtUnlock
          | _ => upd_rm {| slots := update sg {| s_prev := s_prev sl; s_acts := [] |} (slots c); next_id := next_id c |} 0%N 1 MDtSwap
                        (map fst (s_acts sl))
          end
      | None => upd_local c 0%N 0 MDtUnlock
      end
  | KDeliver _ => set_vdt f v PDone
  end.

Section Step.
(** OS verdicts: does sigaction(sig, NULL, &old) succeed, does installing succeed. *)
Variable q_ok s_ok : Z -> bool.

Definition sig_of (k : fkind) : Z :=
  match k with KDeliver s => s | KMut (MRegister s _) | KMut (MUnregister s _) | KMut (MUnregSignal s) => s end.

Definition fstep (s : shared) (f : frame) : shared * frame * list hev :=
  let sig := sig_of (kind f) in
  (* after the MAX_GUARDS abort the process is dead: nothing steps any more *)
  if aborted (dt s) || aborted (fb s) then (s, f, []) else
  match fpc f with
  (* ---------------- delivery ---------------- *)
  | PStart =>
      match os_get s sig with
      | DLib => (s, set_pc f PFbGen, [ev 20 0 sig 1 1])
      | DForeign si => (s, set_pc f (PForeign si), [ev 20 0 sig 2 1])
      | _ => (s, set_pc f PDone, [ev 20 0 sig 0 1])
      end
  | PForeign si => (s, set_pc f PDone, [ev 21 0 sig (bz si) 1])
  | PFbGen => let '(h, v, es) := hstep (fb s) (vfb f) OLoadGen in (set_fb s h, set_vfb f v PFbInc, map (shift 10) es)
  | PFbInc => let '(h, v, es) := hstep (fb s) (vfb f) OInc in (set_fb s h, set_vfb f v PFbPtr, map (shift 10) es)
  | PFbPtr => let '(h, v, es) := hstep (fb s) (vfb f) OLoadPtr in (set_fb s h, set_vfb f v PDtGen, map (shift 10) es)
  | PDtGen => let '(h, v, es) := hstep (dt s) (vdt f) OLoadGen in (set_dt s h, set_vdt f v PDtInc, es)
  | PDtInc => let '(h, v, es) := hstep (dt s) (vdt f) OInc in (set_dt s h, set_vdt f v PDtPtr, es)
  | PDtPtr =>
      let '(h, v, es) := hstep (dt s) (vdt f) OLoadPtr in
      let next := dispatch_next sig (nth (held_ptr v) (dhist s) sd_init) (nth (held_ptr (vfb f)) (fhist s) None) in
      (set_dt s h, {| kind := kind f; fpc := next; vfb := vfb f; vdt := v; local := local f; lprev := lprev f; lid := lid f;
                      res := res f; ran := ran f; snap := Some (held_ptr v); removed := removed f |}, es)
  | PPrev si acts => (s, set_pc f (after_runs acts), [ev 21 0 sig (bz si) 1])
  | PRun acts =>
      match acts with
      | [] => (s, set_pc f PDtDec, [])
      | a :: rest =>
          (s, {| kind := kind f; fpc := after_runs rest; vfb := vfb f; vdt := vdt f; local := local f; lprev := lprev f;
                 lid := lid f; res := res f; ran := ran f ++ [a]; snap := snap f; removed := removed f |}, [ev 22 0 (Z.of_nat (snd a)) 0 1])
      end
  | PDtDec => let '(h, v, es) := hstep (dt s) (vdt f) ODec in (set_dt s h, set_vdt f v PFbDec, es)
  | PFbDec => let '(h, v, es) := hstep (fb s) (vfb f) ODec in (set_fb s h, set_vfb f v PDone, map (shift 10) es)
  (* ---------------- mutators ---------------- *)
  | MStart =>
      (* the checked entry points assert!(!FORBIDDEN.contains(&signal)) before anything else *)
      match kind f with
      | KMut (MRegister sg _) =>
          if existsb (Z.eqb sg) forbidden then (s, set_pc f PDone, [ev 20 0 0 0 1; ev 98 0 0 0 1])
          else (s, set_pc f MDtLock, [ev 20 0 0 0 1])
      | _ => (s, set_pc f MDtLock, [ev 20 0 0 0 1])
      end
  | MDtLock =>
      let '(h, v, es) := hstep (dt s) (vdt f) OLock in
      (set_dt s h, set_vdt f v (match v with WIn => MDtLoad | _ => MDtLock end), es)
  | MDtLoad =>
      let '(h, v, es) := hstep (dt s) (vdt f) OWLoad in
      let f' := load_update f v (nth (ptr (dt s)) (dhist s) sd_init) in
      (set_dt s h, f', es)
  | MFbLock =>
      let '(h, v, es) := hstep (fb s) (vfb f) OLock in
      (set_fb s h, set_vfb f v (match v with WIn => MFbLoad | _ => MFbLock end), map (shift 10) es)
  | MFbLoad => let '(h, v, es) := hstep (fb s) (vfb f) OWLoad in (set_fb s h, set_vfb f v MDetect, map (shift 10) es)
  | MDetect =>
      if q_ok sig
      then (s, {| kind := kind f; fpc := MFbSwap; vfb := vfb f; vdt := vdt f; local := local f; lprev := os_get s sig;
                  lid := lid f; res := res f; ran := ran f; snap := snap f; removed := removed f |}, [ev 12 20 (2 * sig) 0 1])
      else (s, set_pc f MErrFbUnlock, [ev 12 20 (2 * sig) 0 1])
  | MFbSwap =>
      let '(h, v, es) := hstep (fb s) (vfb f) OSwap in
      ({| dt := dt s; fb := h; dhist := dhist s; fhist := fhist s ++ [Some (sig, lprev f)]; os := os s |},
       set_vfb f v MFbBarrier, map (shift 10) es)
  | MFbBarrier =>
      let '(h, v, es) := hstep (fb s) (vfb f) OBarrier in
      (set_fb s h, set_vfb f v (if in_store h then MFbBarrier else MFbUnlock), map (shift 10) es)
  | MFbUnlock => let '(h, v, es) := hstep (fb s) (vfb f) OUnlock in (set_fb s h, set_vfb f v MSlotNew, map (shift 10) es)
  | MSlotNew =>
      if s_ok sig
      then
        let old := os_get s sig in
        let tag := match kind f with KMut (MRegister _ t) => t | _ => 0%nat end in
        let l := local f in
        ({| dt := dt s; fb := fb s; dhist := dhist s; fhist := fhist s; os := update sig DLib (os s) |},
         {| kind := kind f; fpc := MDtSwap; vfb := vfb f; vdt := vdt f;
            local := {| slots := slots l ++ [(sig, {| s_prev := old; s_acts := [(lid f, tag)] |})]; next_id := next_id l |};
            lprev := lprev f; lid := lid f; res := res f; ran := ran f; snap := snap f; removed := removed f |},
         [ev 12 20 (2 * sig + 1) 0 1])
      else (s, {| kind := kind f; fpc := MErrDtUnlock; vfb := vfb f; vdt := vdt f; local := local f; lprev := lprev f;
                  lid := lid f; res := 0; ran := ran f; snap := snap f; removed := removed f |}, [ev 12 20 (2 * sig + 1) 0 1])
  | MDtSwap =>
      let '(h, v, es) := hstep (dt s) (vdt f) OSwap in
      ({| dt := h; fb := fb s; dhist := dhist s ++ [local f]; fhist := fhist s; os := os s |}, set_vdt f v MDtBarrier, es)
  | MDtBarrier =>
      let '(h, v, es) := hstep (dt s) (vdt f) OBarrier in
      (set_dt s h, set_vdt f v (if in_store h then MDtBarrier else MDtUnlock), es)
  | MDtUnlock =>
      let '(h, v, es) := hstep (dt s) (vdt f) OUnlock in
      (set_dt s h, set_vdt f v PDone, es ++ [ev 23 0 0 (res f) 1])
  | MErrFbUnlock =>
      let '(h, v, es) := hstep (fb s) (vfb f) OUnlock in
      (set_fb s h, {| kind := kind f; fpc := MErrDtUnlock; vfb := v; vdt := vdt f; local := local f; lprev := lprev f;
                      lid := lid f; res := 0; ran := ran f; snap := snap f; removed := removed f |}, map (shift 10) es)
  | MErrDtUnlock =>
      let '(h, v, es) := hstep (dt s) (vdt f) OUnlock in
      (set_dt s h, set_vdt f v PDone, es ++ [ev 23 0 0 0 1])
  | PDone => (s, f, [])
  end.

Inductive label := LStep (k : nat) | LSpawn (k : fkind).

Definition world := (shared * list frame)%type.

(** Events are tagged with the index of the activity that produced them. *)
Definition wstep (w : world) (l : label) : world * list (nat * hev) :=
  let '(s, fs) := w in
  match l with
  | LSpawn k => ((s, fs ++ [mk_frame k]), [])
  | LStep k =>
      match nth_error fs k with
      | None => (w, [])
      | Some f => let '(s', f', es) := fstep s f in ((s', upd fs k f'), map (fun e => (k, e)) es)
      end
  end.

Fixpoint run (w : world) (ls : list label) : world * list (nat * hev) :=
  match ls with
  | [] => (w, [])
  | l :: r => let '(w1, e1) := wstep w l in let '(w2, e2) := run w1 r in (w2, e1 ++ e2)
  end.

End Step.
