(** Second invariant of the concurrent registry model: every frame's program counter agrees
    with its two views and with the critical-section state of the half-locks it holds, and
    delivery frames only ever are at dispatcher program counters. *)
From Coq Require Import List Arith NArith ZArith Bool Lia.
From SH Require Import base.Pool gen.Extracted_halflock gen.Extracted_registry
  halflock.Model halflock.Safety halflock.Lemmas registry.Model registry.Inv.
Import ListNotations.
Arguments Nat.modulo : simpl never.
Arguments N.ltb : simpl never.
Arguments N.of_nat : simpl never.

Definition reader_pc (p : pc) : bool :=
  match p with
  | PStart | PForeign _ | PFbGen | PFbInc | PFbPtr | PDtGen | PDtInc | PDtPtr | PPrev _ _ | PRun _ | PDtDec | PFbDec | PDone => true
  | _ => false
  end.
Definition mut_pc (p : pc) : bool :=
  match p with
  | MStart | MDtLock | MDtLoad | MFbLock | MFbLoad | MDetect | MFbSwap | MFbBarrier | MFbUnlock
  | MSlotNew | MDtSwap | MDtBarrier | MDtUnlock | MErrFbUnlock | MErrDtUnlock | PDone => true
  | _ => false
  end.
Definition kind_ok (f : frame) : Prop :=
  match kind f with KDeliver _ => reader_pc (fpc f) = true | KMut _ => mut_pc (fpc f) = true end.

Definition holds (v : view) : Prop := exists i p, v = RHold i p.

Definition pc_ok (s : shared) (f : frame) : Prop :=
  match fpc f with
  | PStart | PForeign _ | PFbGen | PDone | MStart | MDtLock => vfb f = VIdle /\ vdt f = VIdle
  | PFbInc => (exists i, vfb f = RGen i) /\ vdt f = VIdle
  | PFbPtr => (exists i, vfb f = RInc i) /\ vdt f = VIdle
  | PDtGen => holds (vfb f) /\ vdt f = VIdle
  | PDtInc => holds (vfb f) /\ (exists i, vdt f = RGen i)
  | PDtPtr => holds (vfb f) /\ (exists i, vdt f = RInc i)
  | PPrev _ _ | PRun _ | PDtDec => holds (vfb f) /\ holds (vdt f)
  | PFbDec => holds (vfb f) /\ vdt f = VIdle
  | MDtLoad => vfb f = VIdle /\ vdt f = WIn /\ crit (dt s) = CLocked
  | MFbLock | MSlotNew | MDtSwap | MErrDtUnlock => vfb f = VIdle /\ vdt f = WIn /\ crit (dt s) = CLoaded
  | MFbLoad => vfb f = WIn /\ crit (fb s) = CLocked /\ vdt f = WIn /\ crit (dt s) = CLoaded
  | MDetect | MFbSwap | MErrFbUnlock => vfb f = WIn /\ crit (fb s) = CLoaded /\ vdt f = WIn /\ crit (dt s) = CLoaded
  | MFbBarrier => vfb f = WIn /\ in_store (fb s) = true /\ vdt f = WIn /\ crit (dt s) = CLoaded
  | MFbUnlock => vfb f = WIn /\ crit (fb s) = CStored /\ vdt f = WIn /\ crit (dt s) = CLoaded
  | MDtBarrier => vfb f = VIdle /\ vdt f = WIn /\ in_store (dt s) = true
  | MDtUnlock => vfb f = VIdle /\ vdt f = WIn /\ (crit (dt s) = CLoaded \/ crit (dt s) = CStored)
  end.

Definition frame_ok (s : shared) (f : frame) : Prop := pc_ok s f /\ kind_ok f.

(** A frame's claims survive a change of the shared state that leaves alone the critical
    sections it is inside of. *)
Lemma pc_ok_stable s s' g :
  pc_ok s g ->
  (vdt g = WIn -> crit (dt s') = crit (dt s)) ->
  (vfb g = WIn -> crit (fb s') = crit (fb s)) ->
  pc_ok s' g.
Proof.
  unfold pc_ok, in_store. intros H Hd Hf.
  destruct (fpc g); try exact H;
    repeat match goal with H : _ /\ _ |- _ => destruct H end;
    repeat match goal with
           | Hv : vdt g = WIn |- _ => specialize (Hd Hv); rewrite Hd; clear Hd
           | Hv : vfb g = WIn |- _ => specialize (Hf Hv); rewrite Hf; clear Hf
           end; auto.
Qed.

Section PcInv.
Variable q_ok s_ok : Z -> bool.
Notation fstep := (Model.fstep q_ok s_ok).

Definition PInv (s : shared) (fs : list frame) : Prop :=
  HL2 s fs /\ forall j g, nth_error fs j = Some g -> frame_ok s g.

Lemma holder_unique h vs j k :
  HInv h vs -> nth_error vs j = Some WIn -> nth_error vs k = Some WIn -> j = k.
Proof.
  intros Inv Hj Hk. destruct (Nat.eq_dec j k) as [|Hne]; auto.
  pose proof (cnt_two is_win vs j k WIn WIn Hne Hj Hk eq_refl eq_refl) as H2.
  rewrite (i_win _ _ Inv) in H2. destruct (crit h); lia.
Qed.

Lemma holder_crit h vs j : HInv h vs -> nth_error vs j = Some WIn -> crit h <> CNone.
Proof.
  intros Inv Hj Hc. pose proof (cnt_pos is_win vs j WIn Hj eq_refl) as H1.
  rewrite (i_win _ _ Inv), Hc in H1. lia.
Qed.

(** The step of frame [k] does not disturb the claims of another frame [j]. *)
Lemma other_frame_ok s fs k f s' f' es j g :
  HL2 s fs -> nth_error fs k = Some f -> fstep s f = (s', f', es) ->
  j <> k -> nth_error fs j = Some g -> frame_ok s g -> frame_ok s' g.
Proof.
  intros [Hd Hf] Hk Hs Hne Hj [Hpc Hkind]. split; [|exact Hkind].
  apply (pc_ok_stable s s' g Hpc).
  - intro Hw. destruct (fstep_dt _ _ _ _ _ _ _ Hs) as [[-> _]|(o & e & Hh)]; auto.
    destruct (hstep_crit _ _ _ _ _ _ Hh) as [?|[Hv|(Hv & Hc & _)]]; auto.
    + exfalso. apply Hne. eapply (holder_unique (dt s) (map vdt fs)); eauto.
      * rewrite nth_error_map, Hj. simpl. congruence.
      * rewrite nth_error_map, Hk. simpl. congruence.
    + exfalso. eapply (holder_crit (dt s) (map vdt fs) j); eauto.
      rewrite nth_error_map, Hj. simpl. congruence.
  - intro Hw. destruct (fstep_fb _ _ _ _ _ _ _ Hs) as [[-> _]|(o & e & Hh)]; auto.
    destruct (hstep_crit _ _ _ _ _ _ Hh) as [?|[Hv|(Hv & Hc & _)]]; auto.
    + exfalso. apply Hne. eapply (holder_unique (fb s) (map vfb fs)); eauto.
      * rewrite nth_error_map, Hj. simpl. congruence.
      * rewrite nth_error_map, Hk. simpl. congruence.
    + exfalso. eapply (holder_crit (fb s) (map vfb fs) j); eauto.
      rewrite nth_error_map, Hj. simpl. congruence.
Qed.

Lemma load_update_ok f v c :
  kind_ok f -> fpc f = MDtLoad ->
  let g := load_update f v c in
  kind_ok g /\ (fpc g = MDtSwap \/ fpc g = MFbLock \/ fpc g = MDtUnlock).
Proof.
  unfold kind_ok, load_update. intros Hk Hpc.
  destruct (kind f) as [sg|m] eqn:Ek.
  - rewrite Hpc in Hk. discriminate.
  - destruct m as [sg tag|sg aid|sg]; destruct (lookup sg (slots c)) as [sl|]; simpl; rewrite ?Ek; auto.
    + destruct (has_act aid (s_acts sl)); simpl; rewrite ?Ek; auto.
    + destruct (s_acts sl); simpl; rewrite ?Ek; auto.
Qed.

Lemma after_runs_reader a : reader_pc (after_runs a) = true.
Proof. destruct a; reflexivity. Qed.

Lemma dispatch_next_reader sg c fc : reader_pc (dispatch_next sg c fc) = true.
Proof.
  unfold dispatch_next. destruct (lookup sg (slots c)) as [sl|].
  - destruct (is_foreign (s_prev sl)); [reflexivity|apply after_runs_reader].
  - destruct fc as [[ps d]|]; [|reflexivity]. destruct (Z.eqb ps sg); [|reflexivity]. destruct (is_foreign d); reflexivity.
Qed.

Lemma after_runs_cases a : after_runs a = PDtDec \/ exists l, after_runs a = PRun l.
Proof. destruct a; simpl; eauto. Qed.

Lemma dispatch_next_cases sg c fc :
  let p := dispatch_next sg c fc in
  p = PDtDec \/ (exists l, p = PRun l) \/ (exists si l, p = PPrev si l).
Proof.
  unfold dispatch_next. destruct (lookup sg (slots c)) as [sl|].
  - destruct (is_foreign (s_prev sl)); [right; right; eauto|].
    destruct (after_runs_cases (s_acts sl)) as [->|[l ->]]; eauto.
  - destruct fc as [[ps d]|]; auto. destruct (Z.eqb ps sg); auto. destruct (is_foreign d); auto. right; right; eauto.
Qed.

Ltac fin_ok f :=
  repeat match goal with H : _ /\ _ |- _ => destruct H | H : exists _, _ |- _ => destruct H | H : holds _ |- _ => destruct H as (? & ? & ?) end;
  unfold frame_ok, pc_ok, kind_ok, holds, in_store; simpl; repeat split; eauto; try (destruct (kind f); auto; fail).

Ltac use_pc Hok Hpc := unfold frame_ok, pc_ok, kind_ok in Hok; rewrite Hpc in Hok; simpl in Hok.

(** The stepping frame itself. *)
Lemma self_frame_ok s f s' f' es :
  frame_ok s f -> fstep s f = (s', f', es) -> frame_ok s' f'.
Proof.
  intros Hok Hs. unfold Model.fstep in Hs.
  destruct (aborted (dt s) || aborted (fb s)) eqn:Hab; [inversion Hs; subst; exact Hok|].
  apply orb_false_iff in Hab. destruct Hab as [Had Haf].
  destruct (fpc f) eqn:Hpc; use_pc Hok Hpc; destruct Hok as [Hp Hk].
  - (* PStart *)
    destruct (os_get s _); inversion Hs; subst; clear Hs; fin_ok f.
  - (* PForeign *)
    inversion Hs; subst; clear Hs; fin_ok f.
  - (* PFbGen *)
    destruct Hp as [Hf Hd]. rewrite Hf in Hs. unfold hstep in Hs. rewrite Haf in Hs. inversion Hs; subst; clear Hs.
    fin_ok f.
  - (* PFbInc *)
    destruct Hp as [[i Hf] Hd]. rewrite Hf in Hs. unfold hstep in Hs. rewrite Haf in Hs.
    destruct (N.ltb _ _); inversion Hs; subst; clear Hs; fin_ok f.
  - (* PFbPtr *)
    destruct Hp as [[i Hf] Hd]. rewrite Hf in Hs. unfold hstep in Hs. rewrite Haf in Hs. inversion Hs; subst; clear Hs.
    fin_ok f.
  - (* PDtGen *)
    destruct Hp as [Hf Hd]. rewrite Hd in Hs. unfold hstep in Hs. rewrite Had in Hs. inversion Hs; subst; clear Hs.
    fin_ok f.
  - (* PDtInc *)
    destruct Hp as [Hf [i Hd]]. rewrite Hd in Hs. unfold hstep in Hs. rewrite Had in Hs.
    destruct (N.ltb _ _); inversion Hs; subst; clear Hs; fin_ok f.
  - (* PDtPtr *)
    destruct Hp as [Hf [i Hd]]. rewrite Hd in Hs. unfold hstep in Hs. rewrite Had in Hs. inversion Hs; subst; clear Hs.
    unfold frame_ok, pc_ok, kind_ok; simpl.
    match goal with |- context [dispatch_next ?a ?b ?c] =>
      pose proof (dispatch_next_reader a b c) as R; destruct (dispatch_next_cases a b c) as [E|[[l E]|[si [l E]]]]; rewrite E in *
    end; simpl; fin_ok f.
  - (* PPrev *)
    inversion Hs; subst; clear Hs. unfold frame_ok, pc_ok, kind_ok; simpl.
    pose proof (after_runs_reader acts) as R. destruct (after_runs_cases acts) as [E|[l E]]; rewrite E in *; simpl; fin_ok f.
  - (* PRun *)
    destruct acts as [|a rest]; inversion Hs; subst; clear Hs.
    + fin_ok f.
    + unfold frame_ok, pc_ok, kind_ok; simpl.
      pose proof (after_runs_reader rest) as R. destruct (after_runs_cases rest) as [E|[l E]]; rewrite E in *; simpl; fin_ok f.
  - (* PDtDec *)
    destruct Hp as [Hf [i [p Hd]]]. rewrite Hd in Hs. unfold hstep in Hs. rewrite Had in Hs. inversion Hs; subst; clear Hs.
    fin_ok f.
  - (* PFbDec *)
    destruct Hp as [[i [p Hf]] Hd]. rewrite Hf in Hs. unfold hstep in Hs. rewrite Haf in Hs. inversion Hs; subst; clear Hs.
    fin_ok f.
  - (* MStart *)
    destruct (kind f) as [|[sg tg| |]] eqn:Ek; try destruct (existsb _ _); inversion Hs; subst; clear Hs;
      unfold frame_ok, pc_ok, kind_ok; simpl; rewrite ?Ek; auto.
  - (* MDtLock *)
    destruct Hp as [Hf Hd]. rewrite Hd in Hs. unfold hstep in Hs. rewrite Had in Hs.
    destruct (crit (dt s)) eqn:Hc; inversion Hs; subst; clear Hs; fin_ok f.
  - (* MDtLoad *)
    destruct Hp as (Hf & Hd & Hc). rewrite Hd in Hs. unfold hstep in Hs. rewrite Had, Hc in Hs. inversion Hs; subst; clear Hs.
    assert (Hk' : kind_ok f) by (unfold kind_ok; rewrite Hpc; exact Hk).
    destruct (load_update_ok f WIn (nth (ptr (dt s)) (dhist s) sd_init) Hk' Hpc) as [K2 Hcases].
    destruct (load_update_views f WIn (nth (ptr (dt s)) (dhist s) sd_init)) as (V1 & V2 & _).
    split; [|exact K2]. unfold pc_ok. simpl.
    destruct Hcases as [E|[E|E]]; rewrite E; rewrite V1, V2; auto.
  - (* MFbLock *)
    destruct Hp as (Hf & Hd & Hc). rewrite Hf in Hs. unfold hstep in Hs. rewrite Haf in Hs.
    destruct (crit (fb s)) eqn:Hcf; inversion Hs; subst; clear Hs; fin_ok f.
  - (* MFbLoad *)
    destruct Hp as (Hf & Hcf & Hd & Hc). rewrite Hf in Hs. unfold hstep in Hs. rewrite Haf, Hcf in Hs. inversion Hs; subst; clear Hs.
    fin_ok f.
  - (* MDetect *)
    destruct (q_ok _); inversion Hs; subst; clear Hs; fin_ok f.
  - (* MFbSwap *)
    destruct Hp as (Hf & Hcf & Hd & Hc). rewrite Hf in Hs. unfold hstep in Hs. rewrite Haf, Hcf in Hs. inversion Hs; subst; clear Hs.
    fin_ok f.
  - (* MFbBarrier *)
    destruct Hp as (Hf & Hcf & Hd & Hc). rewrite Hf in Hs. unfold hstep in Hs. rewrite Haf in Hs.
    unfold in_store in Hcf. destruct (crit (fb s)) as [| | |old st s0 s1 it|] eqn:Hcr; try discriminate.
    destruct (barrier_step (fb s) old st s0 s1 it) as [h2 e2] eqn:Hb. inversion Hs; subst; clear Hs.
    apply barrier_step_shape in Hb. destruct Hb as (_ & _ & _ & _ & _ & Hcr').
    unfold frame_ok, pc_ok, kind_ok, in_store; simpl.
    destruct Hcr' as [E|(st' & t0 & t1 & it' & E)]; rewrite E; simpl; auto.
  - (* MFbUnlock *)
    destruct Hp as (Hf & Hcf & Hd & Hc). rewrite Hf in Hs. unfold hstep in Hs. rewrite Haf, Hcf in Hs. inversion Hs; subst; clear Hs.
    fin_ok f.
  - (* MSlotNew *)
    destruct (s_ok _); inversion Hs; subst; clear Hs; fin_ok f.
  - (* MDtSwap *)
    destruct Hp as (Hf & Hd & Hc). rewrite Hd in Hs. unfold hstep in Hs. rewrite Had, Hc in Hs. inversion Hs; subst; clear Hs.
    fin_ok f.
  - (* MDtBarrier *)
    destruct Hp as (Hf & Hd & Hc). rewrite Hd in Hs. unfold hstep in Hs. rewrite Had in Hs.
    unfold in_store in Hc. destruct (crit (dt s)) as [| | |old st s0 s1 it|] eqn:Hcr; try discriminate.
    destruct (barrier_step (dt s) old st s0 s1 it) as [h2 e2] eqn:Hb. inversion Hs; subst; clear Hs.
    apply barrier_step_shape in Hb. destruct Hb as (_ & _ & _ & _ & _ & Hcr').
    unfold frame_ok, pc_ok, kind_ok, in_store; simpl.
    destruct Hcr' as [E|(st' & t0 & t1 & it' & E)]; rewrite E; simpl; auto.
  - (* MDtUnlock *)
    destruct Hp as (Hf & Hd & Hc). rewrite Hd in Hs. unfold hstep in Hs. rewrite Had in Hs.
    destruct Hc as [Hc|Hc]; rewrite Hc in Hs; inversion Hs; subst; clear Hs; fin_ok f.
  - (* MErrFbUnlock *)
    destruct Hp as (Hf & Hcf & Hd & Hc). rewrite Hf in Hs. unfold hstep in Hs. rewrite Haf, Hcf in Hs. inversion Hs; subst; clear Hs.
    fin_ok f.
  - (* MErrDtUnlock *)
    destruct Hp as (Hf & Hd & Hc). rewrite Hd in Hs. unfold hstep in Hs. rewrite Had, Hc in Hs. inversion Hs; subst; clear Hs.
    fin_ok f.
  - (* PDone *)
    inversion Hs; subst. unfold frame_ok, pc_ok, kind_ok. rewrite Hpc. auto.
Qed.

Lemma pinv_step s fs k f s' f' es :
  PInv s fs -> nth_error fs k = Some f -> fstep s f = (s', f', es) -> PInv s' (upd fs k f').
Proof.
  intros [H2 Hfr] Hk Hs. split; [eapply hl2_step; eauto|].
  intros j g Hj. apply nth_upd_cases in Hj. destruct Hj as [(-> & _ & ->)|[Hne Hj]].
  - exact (self_frame_ok s f s' f' es (Hfr k f Hk) Hs).
  - exact (other_frame_ok s fs k f s' f' es j g H2 Hk Hs Hne Hj (Hfr j g Hj)).
Qed.

Lemma mk_frame_ok s k : frame_ok s (mk_frame k).
Proof. destruct k; unfold frame_ok, pc_ok, kind_ok; simpl; auto. Qed.

Lemma pinv_init os0 : PInv (sh_init os0) [].
Proof. split; [apply hl2_init|]. intros [|j] g H; discriminate. Qed.

Lemma pinv_wstep w l w' es : PInv (fst w) (snd w) -> Model.wstep q_ok s_ok w l = (w', es) -> PInv (fst w') (snd w').
Proof.
  destruct w as [s fs]. simpl. intros H Hs. destruct l as [k|kd]; simpl in Hs.
  - destruct (nth_error fs k) as [f|] eqn:Hn.
    + destruct (fstep s f) as [[s1 f1] e1] eqn:Hf. inversion Hs; subst. simpl. eapply pinv_step; eauto.
    + inversion Hs; subst. assumption.
  - inversion Hs; subst. simpl. destruct H as [H2 Hfr]. split; [apply hl2_spawn; assumption|].
    intros j g Hj. apply nth_app_cases in Hj. destruct Hj as [Hj|[_ ->]]; [eauto|apply mk_frame_ok].
Qed.

Lemma pinv_run ls : forall w w' es, PInv (fst w) (snd w) -> Model.run q_ok s_ok w ls = (w', es) -> PInv (fst w') (snd w').
Proof.
  induction ls as [|l r IH]; intros w w' es H Hr; simpl in Hr.
  - inversion Hr; subst. assumption.
  - destruct (Model.wstep q_ok s_ok w l) as [w1 e1] eqn:Hw. destruct (Model.run q_ok s_ok w1 r) as [w2 e2] eqn:Hr2.
    inversion Hr; subst. eapply IH; [|eauto]. eapply pinv_wstep; eauto.
Qed.

End PcInv.

Lemma pc_eq_dec_load (p : pc) : p = MDtLoad \/ p <> MDtLoad.
Proof. destruct p; auto; right; discriminate. Qed.
