(** C04: a handler that was installed before the library took a signal over is chained by every
    delivery that finds the library installed - also in the window in which the first
    registration has changed the disposition but not yet published its slot (the fallback),
    and while other signals are being registered.

    Assumption of the property, built into the model: nothing but the library changes
    dispositions ([os] is only written by [Slot::new]); and the initial dispositions [os0] do
    not contain the library's own handler. *)
From Coq Require Import List Arith NArith ZArith Bool Lia.
From SH Require Import base.Pool gen.Extracted_halflock gen.Extracted_registry
  halflock.Model halflock.Safety halflock.Lemmas registry.Model registry.Tactics registry.Inv registry.PcInv registry.Events
  registry.Content registry.Holder.
Import ListNotations.
Arguments Nat.modulo : simpl never.
Arguments N.ltb : simpl never.
Arguments N.of_nat : simpl never.
Local Open Scope nat_scope.

Definition os0_get (os0 : list (Z * disp)) (sg : Z) : disp :=
  match lookup sg os0 with Some d => d | None => DDfl end.

Definition fcur (s : shared) : fbdata := nth (ptr (fb s)) (fhist s) None.

Definition slot_of (d : sigdata) (sg : Z) : option slot := lookup sg (slots d).

(** What the mutex holder that registers signal [sg] has established, by program counter. *)
Definition chain_holder (os0 : list (Z * disp)) (s : shared) (g : frame) : Prop :=
  match kind g with
  | KMut (MRegister sg tag) =>
      match fpc g with
      | MFbLock | MFbLoad | MDetect | MErrFbUnlock | MErrDtUnlock => os_get s sg <> DLib
      | MFbSwap => os_get s sg <> DLib /\ (fpc g = MFbSwap -> lprev g = os0_get os0 sg)
      | MFbBarrier | MFbUnlock | MSlotNew => os_get s sg <> DLib /\ fcur s = Some (sg, os0_get os0 sg)
      | MDtSwap =>
          slot_of (cur s) sg = None ->
          os_get s sg = DLib /\ fcur s = Some (sg, os0_get os0 sg) /\
          exists sl, slot_of (local g) sg = Some sl /\ s_prev sl = os0_get os0 sg
      | _ => True
      end
  | _ => True
  end.

Record ChainInv (os0 : list (Z * disp)) (s : shared) (fs : list frame) : Prop := {
  x_os : forall sg, os_get s sg = DLib \/ os_get s sg = os0_get os0 sg;
  x_slot : forall p, p < length (dhist s) -> forall sg sl, slot_of (content s p) sg = Some sl ->
             s_prev sl = os0_get os0 sg /\ os_get s sg = DLib;
  x_mono : forall p, p < length (dhist s) -> forall sg, slot_of (content s p) sg <> None -> slot_of (cur s) sg <> None;
  x_lib : forall sg, os_get s sg = DLib ->
            slot_of (cur s) sg <> None \/
            exists k g tag, nth_error fs k = Some g /\ vdt g = WIn /\ kind g = KMut (MRegister sg tag) /\ fpc g = MDtSwap;
  x_holder : forall k g, nth_error fs k = Some g -> vdt g = WIn -> chain_holder os0 s g;
  x_local : forall k g, nth_error fs k = Some g -> vdt g = WIn -> post_load (fpc g) = true ->
              forall sg, (forall sl, slot_of (cur s) sg = Some sl -> exists sl', slot_of (local g) sg = Some sl' /\ s_prev sl' = s_prev sl) /\
                         (forall sl', slot_of (local g) sg = Some sl' ->
                            (exists sl, slot_of (cur s) sg = Some sl /\ s_prev sl = s_prev sl') \/
                            (slot_of (cur s) sg = None /\ fpc g = MDtSwap /\ exists tag, kind g = KMut (MRegister sg tag)));
  x_reader : forall k g sg, nth_error fs k = Some g -> kind g = KDeliver sg ->
              match fpc g with
              | PFbGen | PFbInc | PFbPtr => os_get s sg = DLib
              | PDtGen | PDtInc | PDtPtr =>
                  os_get s sg = DLib /\
                  (nth (held_ptr (vfb g)) (fhist s) None = Some (sg, os0_get os0 sg) \/ slot_of (cur s) sg <> None)
              | _ => True
              end
}.

(** The decision the dispatcher takes at its load step, given the invariant. *)
Lemma dispatch_choice os0 s fs k g sg :
  ChainInv os0 s fs -> CInv s fs -> HInv (dt s) (map vdt fs) ->
  nth_error fs k = Some g -> kind g = KDeliver sg -> fpc g = PDtPtr ->
  dispatch_next sg (cur s) (nth (held_ptr (vfb g)) (fhist s) None) =
    match is_foreign (os0_get os0 sg) with
    | Some si => PPrev si (slot_acts (cur s) sg)
    | None => after_runs (slot_acts (cur s) sg)
    end.
Proof.
  intros HX HC Hd Hk Hkd Hpc.
  pose proof (x_reader _ _ _ HX k g sg Hk Hkd) as Hr. rewrite Hpc in Hr. destruct Hr as [Hlib Hfb].
  unfold dispatch_next, slot_acts. fold (slot_of (cur s) sg).
  destruct (slot_of (cur s) sg) as [sl|] eqn:Es.
  - assert (Hp : ptr (dt s) < length (dhist s)) by (rewrite (c_dlen _ _ HC); apply (i_ptr _ _ Hd)).
    destruct (x_slot _ _ _ HX (ptr (dt s)) Hp sg sl Es) as [Hprev _]. rewrite Hprev. reflexivity.
  - destruct Hfb as [Hf|Hf]; [|congruence]. rewrite Hf. rewrite Z.eqb_refl.
    destruct (is_foreign (os0_get os0 sg)); reflexivity.
Qed.

Lemma os_get_update s sg sg' d :
  (match lookup sg' (update sg d (os s)) with Some x => x | None => DDfl end) =
  if Z.eqb sg' sg then d else os_get s sg'.
Proof.
  unfold os_get. destruct (Z.eqb sg' sg) eqn:E.
  - apply Z.eqb_eq in E. subst. rewrite lookup_update_same. reflexivity.
  - apply Z.eqb_neq in E. rewrite lookup_update_other by assumption. reflexivity.
Qed.

Section Chain.
Variable q_ok s_ok : Z -> bool.
Notation fstep := (Model.fstep q_ok s_ok).

(** The process dispositions are written by [Slot::new] only. *)
Lemma fstep_os s f s' f' es :
  fstep s f = (s', f', es) ->
  os s' = os s \/ (fpc f = MSlotNew /\ fpc f' = MDtSwap /\ os s' = update (sig_of (kind f)) DLib (os s)).
Proof.
  unfold Model.fstep. destruct (aborted (dt s) || aborted (fb s)); [inversion 1; auto|].
  destruct (fpc f) eqn:Hpc; try hs; split_conds;
    (let H := fresh in intro H; inversion H; subst; simpl; auto).
Qed.

Lemma os_mono s f s' f' es sg : fstep s f = (s', f', es) -> os_get s sg = DLib -> os_get s' sg = DLib.
Proof.
  intros Hs Hl. destruct (fstep_os _ _ _ _ _ Hs) as [E|(_ & _ & E)]; unfold os_get at 1; rewrite E; [exact Hl|].
  rewrite os_get_update. destruct (Z.eqb sg _); auto.
Qed.

End Chain.
