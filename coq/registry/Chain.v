(** C04: a handler that was installed before the library took a signal over is chained by every
    delivery that finds the library installed - also in the window in which the first
    registration has changed the disposition but not yet published its slot (the fallback),
    and while other signals are being registered.

    Assumption of the property, built into the model: nothing but the library changes
    dispositions ([os] is only written by [Slot::new]); and the initial dispositions [os0] do
    not contain the library's own handler. *)
From Coq Require Import List Arith NArith ZArith Bool Lia.
From SH Require Import base.Pool gen.Extracted_halflock gen.Extracted_registry
  halflock.Model halflock.Safety halflock.Lemmas registry.Model registry.Tactics registry.Inv registry.PcInv registry.Events
  registry.Content registry.Holder.
Import ListNotations.
Arguments Nat.modulo : simpl never.
Arguments N.ltb : simpl never.
Arguments N.of_nat : simpl never.
Local Open Scope nat_scope.

Definition os0_get (os0 : list (Z * disp)) (sg : Z) : disp :=
  match lookup sg os0 with Some d => d | None => DDfl end.

Definition fcur (s : shared) : fbdata := nth (ptr (fb s)) (fhist s) None.

Definition slot_of (d : sigdata) (sg : Z) : option slot := lookup sg (slots d).

(** What the mutex holder that registers signal [sg] has established, by program counter. *)
Definition chain_holder (os0 : list (Z * disp)) (s : shared) (g : frame) : Prop :=
  match kind g with
  | KMut (MRegister sg tag) =>
      match fpc g with
      | MFbLock | MFbLoad | MDetect | MErrFbUnlock | MErrDtUnlock => os_get s sg <> DLib
      | MFbSwap => os_get s sg <> DLib /\ (fpc g = MFbSwap -> lprev g = os0_get os0 sg)
      | MFbBarrier | MFbUnlock | MSlotNew => os_get s sg <> DLib /\ fcur s = Some (sg, os0_get os0 sg)
      | MDtSwap =>
          slot_of (cur s) sg = None ->
          os_get s sg = DLib /\ fcur s = Some (sg, os0_get os0 sg) /\
          exists sl, slot_of (local g) sg = Some sl /\ s_prev sl = os0_get os0 sg
      | _ => True
      end
  | _ => True
  end.

Record ChainInv (os0 : list (Z * disp)) (s : shared) (fs : list frame) : Prop := {
  x_os : forall sg, os_get s sg = DLib \/ os_get s sg = os0_get os0 sg;
  x_slot : forall p, p < length (dhist s) -> forall sg sl, slot_of (content s p) sg = Some sl ->
             s_prev sl = os0_get os0 sg /\ os_get s sg = DLib;
  x_mono : forall p, p < length (dhist s) -> forall sg, slot_of (content s p) sg <> None -> slot_of (cur s) sg <> None;
  x_lib : forall sg, os_get s sg = DLib ->
            slot_of (cur s) sg <> None \/
            exists k g tag, nth_error fs k = Some g /\ vdt g = WIn /\ kind g = KMut (MRegister sg tag) /\ fpc g = MDtSwap;
  x_holder : forall k g, nth_error fs k = Some g -> vdt g = WIn -> chain_holder os0 s g;
  x_local : forall k g, nth_error fs k = Some g -> vdt g = WIn -> post_load (fpc g) = true ->
              forall sg, (forall sl, slot_of (cur s) sg = Some sl -> exists sl', slot_of (local g) sg = Some sl' /\ s_prev sl' = s_prev sl) /\
                         (forall sl', slot_of (local g) sg = Some sl' ->
                            (exists sl, slot_of (cur s) sg = Some sl /\ s_prev sl = s_prev sl') \/
                            (slot_of (cur s) sg = None /\ fpc g = MDtSwap /\ exists tag, kind g = KMut (MRegister sg tag)));
  x_reader : forall k g sg, nth_error fs k = Some g -> kind g = KDeliver sg ->
              match fpc g with
              | PFbGen | PFbInc | PFbPtr => os_get s sg = DLib
              | PDtGen | PDtInc | PDtPtr =>
                  os_get s sg = DLib /\
                  (nth (held_ptr (vfb g)) (fhist s) None = Some (sg, os0_get os0 sg) \/ slot_of (cur s) sg <> None)
              | _ => True
              end
}.

(** The decision the dispatcher takes at its load step, given the invariant. *)
Lemma dispatch_choice os0 s fs k g sg :
  ChainInv os0 s fs -> CInv s fs -> HInv (dt s) (map vdt fs) ->
  nth_error fs k = Some g -> kind g = KDeliver sg -> fpc g = PDtPtr ->
  dispatch_next sg (cur s) (nth (held_ptr (vfb g)) (fhist s) None) =
    match is_foreign (os0_get os0 sg) with
    | Some si => PPrev si (slot_acts (cur s) sg)
    | None => after_runs (slot_acts (cur s) sg)
    end.
Proof.
  intros HX HC Hd Hk Hkd Hpc.
  pose proof (x_reader _ _ _ HX k g sg Hk Hkd) as Hr. rewrite Hpc in Hr. destruct Hr as [Hlib Hfb].
  unfold dispatch_next, slot_acts. fold (slot_of (cur s) sg).
  destruct (slot_of (cur s) sg) as [sl|] eqn:Es.
  - assert (Hp : ptr (dt s) < length (dhist s)) by (rewrite (c_dlen _ _ HC); apply (i_ptr _ _ Hd)).
    destruct (x_slot _ _ _ HX (ptr (dt s)) Hp sg sl Es) as [Hprev _]. rewrite Hprev. reflexivity.
  - destruct Hfb as [Hf|Hf]; [|congruence]. rewrite Hf. rewrite Z.eqb_refl.
    destruct (is_foreign (os0_get os0 sg)); reflexivity.
Qed.

Lemma os_get_update s sg sg' d :
  (match lookup sg' (update sg d (os s)) with Some x => x | None => DDfl end) =
  if Z.eqb sg' sg then d else os_get s sg'.
Proof.
  unfold os_get. destruct (Z.eqb sg' sg) eqn:E.
  - apply Z.eqb_eq in E. subst. rewrite lookup_update_same. reflexivity.
  - apply Z.eqb_neq in E. rewrite lookup_update_other by assumption. reflexivity.
Qed.

Lemma disp_eq_lib (d : disp) : d = DLib \/ d <> DLib.
Proof. destruct d; auto; right; discriminate. Qed.

Section Chain.
Variable q_ok s_ok : Z -> bool.
Notation fstep := (Model.fstep q_ok s_ok).

(** The process dispositions are written by [Slot::new] only. *)
Lemma fstep_os s f s' f' es :
  fstep s f = (s', f', es) ->
  os s' = os s \/ (fpc f = MSlotNew /\ fpc f' = MDtSwap /\ os s' = update (sig_of (kind f)) DLib (os s)).
Proof.
  unfold Model.fstep. destruct (aborted (dt s) || aborted (fb s)); [inversion 1; auto|].
  destruct (fpc f) eqn:Hpc; try hs; split_conds;
    (let H := fresh in intro H; inversion H; subst; simpl; auto).
Qed.

Lemma os_mono s f s' f' es sg : fstep s f = (s', f', es) -> os_get s sg = DLib -> os_get s' sg = DLib.
Proof.
  intros Hs Hl. destruct (fstep_os _ _ _ _ _ Hs) as [E|(_ & _ & E)]; unfold os_get at 1; rewrite E; [exact Hl|].
  rewrite os_get_update. destruct (Z.eqb sg _); auto.
Qed.

(** A frame that does not hold the data mutex changes neither the dispositions nor either
    snapshot history nor either current pointer. *)
Lemma non_holder_step s f s' f' es :
  frame_ok s f -> vdt f <> WIn -> fstep s f = (s', f', es) ->
  os s' = os s /\ ptr (fb s') = ptr (fb s) /\ fhist s' = fhist s /\ ptr (dt s') = ptr (dt s) /\ dhist s' = dhist s.
Proof.
  intros Hfok Hnw Hs. pose proof Hfok as [Hok _]. unfold pc_ok in Hok.
  destruct (fstep_os _ _ _ _ _ Hs) as [Ho|(Hpc & _)]; [|rewrite Hpc in Hok; tauto].
  destruct (fstep_fb_nxt q_ok s_ok _ _ _ _ _ Hfok Hs) as [(_ & Hp & Hh)|(Hpc & _)]; [|rewrite Hpc in Hok; tauto].
  destruct (fstep_dt_nxt q_ok s_ok _ _ _ _ _ Hfok Hs) as [(_ & Hp2 & Hh2)|(Hpc & Hv & _)]; [|congruence].
  auto.
Qed.

Lemma held_fb_lt s fs k g i p :
  HInv (fb s) (map vfb fs) -> CInv s fs -> nth_error fs k = Some g -> vfb g = RHold i p -> p < length (fhist s).
Proof.
  intros Hf HC Hk Hv. rewrite (c_flen _ _ HC).
  assert (Hj : nth_error (map vfb fs) k = Some (RHold i p)) by (rewrite nth_error_map, Hk; simpl; congruence).
  destruct (i_hold _ _ Hf k i p Hj) as [->|(st & a & b & it & Hc & _)].
  - apply (i_ptr _ _ Hf).
  - apply (i_old _ _ Hf _ _ _ _ _ Hc).
Qed.

(** What the reader clause of the invariant needs to survive a step of ANOTHER frame: the
    dispositions only grow towards the library, the fallback history is append-only, and a slot
    in the current data state persists. *)
Lemma reader_clause_stable os0 s s' fs k g sg :
  HInv (fb s) (map vfb fs) -> CInv s fs -> nth_error fs k = Some g -> kind g = KDeliver sg ->
  (forall x, os_get s x = DLib -> os_get s' x = DLib) ->
  (exists y, fhist s' = fhist s ++ y) ->
  (slot_of (cur s) sg <> None -> slot_of (cur s') sg <> None) ->
  match fpc g with
  | PFbGen | PFbInc | PFbPtr => os_get s sg = DLib
  | PDtGen | PDtInc | PDtPtr =>
      os_get s sg = DLib /\ (nth (held_ptr (vfb g)) (fhist s) None = Some (sg, os0_get os0 sg) \/ slot_of (cur s) sg <> None)
  | _ => True
  end ->
  pc_ok s g ->
  match fpc g with
  | PFbGen | PFbInc | PFbPtr => os_get s' sg = DLib
  | PDtGen | PDtInc | PDtPtr =>
      os_get s' sg = DLib /\ (nth (held_ptr (vfb g)) (fhist s') None = Some (sg, os0_get os0 sg) \/ slot_of (cur s') sg <> None)
  | _ => True
  end.
Proof.
  intros Hf HC Hk Hkd Hos [y Hy] Hslot H Hok. unfold pc_ok in Hok.
  destruct (fpc g); auto;
    destruct H as [H1 H2]; (split; [auto|]); (destruct H2 as [H2|H2]; [left|right; auto]);
    destruct Hok as [(i & p & Hv) _]; rewrite Hv in *; simpl in *;
    rewrite Hy, app_nth1; auto; eapply held_fb_lt; eauto.
Qed.

Lemma chain_holder_same os0 s s' g :
  (forall x, os_get s' x = os_get s x) -> fcur s' = fcur s -> cur s' = cur s ->
  chain_holder os0 s g -> chain_holder os0 s' g.
Proof.
  intros Ho Hf Hc H. unfold chain_holder in *. destruct (kind g) as [|[sg tag| |]]; auto.
  destruct (fpc g); auto; rewrite ?Ho, ?Hf, ?Hc; auto.
Qed.

(** * A step of a frame that does not hold the data mutex *)
Lemma chain_step_nonholder os0 s fs k f s' f' es :
  Inv3 (s, fs) -> ChainInv os0 s fs -> nth_error fs k = Some f -> vdt f <> WIn ->
  fstep s f = (s', f', es) -> ChainInv os0 s' (upd fs k f').
Proof.
  intros HI HX Hk Hnw Hs. pose proof HI as [[HP HC] HH]. simpl in HP, HC, HH.
  pose proof HP as [[Hd Hf] Hfr]. pose proof (Hfr k f Hk) as Hfok.
  destruct (non_holder_step s f s' f' es Hfok Hnw Hs) as (Ho & Hfp & Hfh & Hdp & Hdh).
  assert (Hos : forall x, os_get s' x = os_get s x) by (intro x; unfold os_get; rewrite Ho; reflexivity).
  assert (Hfc : fcur s' = fcur s) by (unfold fcur; rewrite Hfp, Hfh; reflexivity).
  assert (Hcu : cur s' = cur s) by (unfold cur, content; rewrite Hdp, Hdh; reflexivity).
  assert (Hct : forall p, content s' p = content s p) by (intro p; unfold content; rewrite Hdh; reflexivity).
  pose proof (self_frame_ok q_ok s_ok s f s' f' es Hfok Hs) as [Hok' Hkind'].
  assert (Hlen : k < length fs) by (apply nth_error_Some; congruence).
  assert (Hkd : kind f' = kind f) by (apply (kind_preserved q_ok s_ok s f s' f' es Hs)).
  (* if the stepping frame now holds the mutex it has just taken it *)
  assert (Hacq : vdt f' = WIn -> fpc f' = MDtLoad).
  { intro Hw. destruct Hfok as [Hok _]. unfold pc_ok in Hok. revert Hs Hw. clear - Hok Hnw. intros Hs Hw.
    unfold Model.fstep in Hs. destruct (aborted (dt s) || aborted (fb s)) eqn:Hab; [inversion Hs; subst; congruence|].
    apply orb_false_iff in Hab. destruct Hab as [Had Haf].
    destruct (fpc f) eqn:Hpc;
      try (exfalso; repeat match goal with H : _ /\ _ |- _ => destruct H end; congruence);
      try (exfalso; try hsin Hs; split_conds_in Hs; try (destruct acts); inversion Hs; subst; simpl in Hw; congruence).
    - (* PDtGen *) exfalso. destruct Hok as [_ Hv]. rewrite Hv in Hs. unfold hstep in Hs. rewrite Had in Hs. inversion Hs; subst. discriminate.
    - exfalso. destruct Hok as [_ [i Hv]]. rewrite Hv in Hs. unfold hstep in Hs. rewrite Had in Hs. destruct (N.ltb _ _); inversion Hs; subst; discriminate.
    - exfalso. destruct Hok as [_ [i Hv]]. rewrite Hv in Hs. unfold hstep in Hs. rewrite Had in Hs. inversion Hs; subst; discriminate.
    - exfalso. destruct Hok as [_ (i & p & Hv)]. rewrite Hv in Hs. unfold hstep in Hs. rewrite Had in Hs. inversion Hs; subst; discriminate.
    - (* MDtLock *) destruct Hok as [_ Hv]. rewrite Hv in Hs. unfold hstep in Hs. rewrite Had in Hs.
      destruct (crit (dt s)); inversion Hs; subst; simpl in *; try discriminate; reflexivity. }
  constructor.
  - intro sg. rewrite Hos. apply (x_os _ _ _ HX).
  - intros p Hp sg sl Hsl. rewrite Hct in Hsl. rewrite Hdh in Hp. rewrite Hos. apply (x_slot _ _ _ HX p Hp sg sl Hsl).
  - intros p Hp sg Hsl. rewrite Hct in Hsl. rewrite Hdh in Hp. rewrite Hcu. apply (x_mono _ _ _ HX p Hp sg Hsl).
  - intros sg Hl. rewrite Hos in Hl. rewrite Hcu. destruct (x_lib _ _ _ HX sg Hl) as [Hx|(j & g & tag & Hj & Hw & Hkg & Hpg)]; [left; assumption|].
    right. exists j, g, tag. split; [|auto]. rewrite nth_upd_neq; [assumption|]. intro E. subst j. rewrite Hk in Hj. inversion Hj; subst. contradiction.
  - intros j g Hj Hw. apply nth_upd_cases in Hj. destruct Hj as [(-> & _ & ->)|[Hne Hj]].
    + specialize (Hacq Hw). unfold chain_holder. destruct (kind f') as [|[sg tag| |]]; auto. rewrite Hacq. exact I.
    + apply (chain_holder_same os0 s s' g Hos Hfc Hcu). apply (x_holder _ _ _ HX j g Hj Hw).
  - intros j g Hj Hw Hpl. apply nth_upd_cases in Hj. destruct Hj as [(-> & _ & ->)|[Hne Hj]].
    + specialize (Hacq Hw). rewrite Hacq in Hpl. discriminate.
    + rewrite Hcu. apply (x_local _ _ _ HX j g Hj Hw Hpl).
  - intros j g sg Hj Hkg. apply nth_upd_cases in Hj. destruct Hj as [(-> & _ & ->)|[Hne Hj]].
    + (* the stepping delivery *)
      rewrite Hkd in Hkg.
      pose proof (x_reader _ _ _ HX k f sg Hk Hkg) as Hr.
      unfold Model.fstep in Hs. destruct (aborted (dt s) || aborted (fb s)) eqn:Hab.
      { inversion Hs; subst. exact Hr. }
      apply orb_false_iff in Hab. destruct Hab as [Had Haf].
      destruct Hfok as [Hok Hko]. unfold pc_ok in Hok. unfold kind_ok in Hko. rewrite Hkg in Hko.
      rewrite Hkg in Hs. cbn [sig_of] in Hs.
      destruct (fpc f) eqn:Hpc; try discriminate Hko.
      * (* PStart *) destruct (os_get s sg) eqn:Eo; inversion Hs; subst; simpl; auto; try (rewrite Hos; assumption).
      * (* PForeign *) inversion Hs; subst; simpl; auto.
      * (* PFbGen *) hsin Hs. inversion Hs; subst; simpl. rewrite Hos. exact Hr.
      * (* PFbInc *) hsin Hs. inversion Hs; subst; simpl. rewrite Hos. exact Hr.
      * (* PFbPtr: the fallback snapshot is loaded *)
        destruct Hok as [[i Hv] _]. rewrite Hv in Hs. unfold hstep in Hs. rewrite Haf in Hs. inversion Hs; subst; clear Hs. simpl.
        rewrite Hos. split; [exact Hr|]. rewrite Hcu.
        destruct (x_lib _ _ _ HX sg Hr) as [Hx|(j & g & tag & Hj & Hw & Hkg2 & Hpg)]; [right; assumption|].
        pose proof (x_holder _ _ _ HX j g Hj Hw) as Hch. unfold chain_holder in Hch. rewrite Hkg2, Hpg in Hch.
        destruct (slot_of (cur s) sg) eqn:Es; [right; discriminate|].
        left. destruct (Hch eq_refl) as (_ & Hfcur & _). exact Hfcur.
      * (* PDtGen *) hsin Hs. inversion Hs; subst; simpl. rewrite Hos, Hcu. exact Hr.
      * hsin Hs. inversion Hs; subst; simpl. rewrite Hos, Hcu. exact Hr.
      * (* PDtPtr *) hsin Hs. inversion Hs; subst; simpl.
        match goal with |- context [dispatch_next ?a ?b ?c] => destruct (dispatch_next_cases a b c) as [E2|[[l2 E2]|[si [l2 E2]]]]; rewrite E2 end; exact I.
      * inversion Hs; subst; simpl. destruct (after_runs_cases acts) as [E2|[l2 E2]]; rewrite E2; exact I.
      * destruct acts as [|a r]; inversion Hs; subst; simpl; auto. destruct (after_runs_cases r) as [E2|[l2 E2]]; rewrite E2; exact I.
      * hsin Hs. inversion Hs; subst; simpl; exact I.
      * hsin Hs. inversion Hs; subst; simpl; exact I.
      * inversion Hs; subst. rewrite Hpc. exact I.
    + pose proof (x_reader _ _ _ HX j g sg Hj Hkg) as Hr.
      destruct (fpc g); auto; rewrite ?Hos, ?Hfh, ?Hcu; exact Hr.
Qed.

Lemma slot_of_update c sg sl sg' nid :
  slot_of {| slots := update sg sl (slots c); next_id := nid |} sg' = if Z.eqb sg' sg then Some sl else slot_of c sg'.
Proof.
  unfold slot_of. simpl. destruct (Z.eqb sg' sg) eqn:E.
  - apply Z.eqb_eq in E. subst. apply lookup_update_same.
  - apply Z.eqb_neq in E. apply lookup_update_other. assumption.
Qed.

(** How the slots of the clone relate to the slots of the state it was cloned from, right after
    the write guard was loaded. *)
Lemma load_update_slots f c :
  kind_ok f -> fpc f = MDtLoad ->
  let g := load_update f WIn c in
  forall sg, (forall sl, slot_of c sg = Some sl -> exists sl', slot_of (local g) sg = Some sl' /\ s_prev sl' = s_prev sl) /\
             (forall sl', slot_of (local g) sg = Some sl' -> exists sl, slot_of c sg = Some sl /\ s_prev sl = s_prev sl').
Proof.
  unfold kind_ok, load_update. intros Hk Hpc.
  destruct (kind f) as [sg0|m] eqn:Ek; [rewrite Hpc in Hk; discriminate|].
  destruct m as [sg0 tag|sg0 aid|sg0]; destruct (lookup sg0 (slots c)) as [sl0|] eqn:El; simpl; intro sg;
    try (split; intros sl H; exists sl; auto; fail).
  - (* register, occupied *)
    rewrite slot_of_update. simpl. destruct (Z.eqb sg sg0) eqn:E.
    + apply Z.eqb_eq in E. subst sg0. unfold slot_of. rewrite El. split; intros sl H; inversion H; subst; eexists; split; eauto.
    + split; intros sl H; exists sl; auto.
  - (* unregister *)
    destruct (has_act aid (s_acts sl0)); simpl; [|split; intros sl H; exists sl; auto].
    rewrite slot_of_update. destruct (Z.eqb sg sg0) eqn:E.
    + apply Z.eqb_eq in E. subst sg0. unfold slot_of. rewrite El. split; intros sl H; inversion H; subst; eexists; split; eauto.
    + split; intros sl H; exists sl; auto.
  - (* unregister_signal *)
    destruct (s_acts sl0) eqn:Ea; simpl; [split; intros sl H; exists sl; auto|].
    rewrite slot_of_update. destruct (Z.eqb sg sg0) eqn:E.
    + apply Z.eqb_eq in E. subst sg0. unfold slot_of. rewrite El. split; intros sl H; inversion H; subst; eexists; split; eauto.
    + split; intros sl H; exists sl; auto.
Qed.

Definition local_rel (c : sigdata) (g : frame) : Prop :=
  forall sg, (forall sl, slot_of c sg = Some sl -> exists sl', slot_of (local g) sg = Some sl' /\ s_prev sl' = s_prev sl) /\
             (forall sl', slot_of (local g) sg = Some sl' ->
                (exists sl, slot_of c sg = Some sl /\ s_prev sl = s_prev sl') \/
                (slot_of c sg = None /\ fpc g = MDtSwap /\ exists tag, kind g = KMut (MRegister sg tag))).

Lemma local_rel_carry c g g' :
  local_rel c g -> local g' = local g -> kind g' = kind g -> (fpc g = MDtSwap -> fpc g' = MDtSwap) -> local_rel c g'.
Proof.
  unfold local_rel. intros H Hl Hk Hp sg. rewrite Hl, Hk. destruct (H sg) as [A B]. split; [exact A|].
  intros sl' Hsl. destruct (B sl' Hsl) as [?|(X & Y & Z)]; [left; assumption|right; auto].
Qed.

(** The stepping holder itself: its chain clause and the relation of its clone to the current
    state, after a step that leaves it holding the mutex. *)
Lemma self_chain os0 s fs k f s' f' es :
  Inv3 (s, fs) -> ChainInv os0 s fs -> nth_error fs k = Some f -> vdt f = WIn ->
  aborted (dt s) = false -> aborted (fb s) = false ->
  fstep s f = (s', f', es) -> vdt f' = WIn ->
  chain_holder os0 s' f' /\ (post_load (fpc f') = true -> local_rel (cur s') f').
Proof.
  intros HI HX Hk Hw Had Haf Hs Hw'. pose proof HI as [[HP HC] HH]. simpl in HP, HC, HH.
  pose proof HP as [[Hd Hf] Hfr]. pose proof (Hfr k f Hk) as Hfok. destruct Hfok as [Hok Hkok].
  assert (Huniq : forall j g, nth_error fs j = Some g -> vdt g = WIn -> j = k).
  { intros j g Hj Hwg. eapply (holder_unique (dt s) (map vdt fs)); eauto; rewrite nth_error_map; [rewrite Hj|rewrite Hk]; simpl; congruence. }
  pose proof (x_holder _ _ _ HX k f Hk Hw) as Hch.
  assert (Hlr : post_load (fpc f) = true -> local_rel (cur s) f) by (intro Hp; exact (x_local _ _ _ HX k f Hk Hw Hp)).
  unfold Model.fstep in Hs. rewrite Had, Haf in Hs. cbn [orb] in Hs. unfold pc_ok in Hok.
  destruct (fpc f) eqn:Hpc;
    try (exfalso; repeat match goal with H : _ /\ _ |- _ => destruct H end;
         repeat match goal with H : holds _ |- _ => destruct H as (? & ? & ?) end;
         repeat match goal with H : exists _, _ |- _ => destruct H end; congruence).
  - (* MDtLoad *)
    destruct Hok as (Hvf & _ & Hcr). rewrite Hw in Hs. unfold hstep in Hs. rewrite Had, Hcr in Hs. inversion Hs; subst; clear Hs.
    set (c := nth (ptr (dt s)) (dhist s) sd_init) in *.
    assert (Hc : c = cur s) by reflexivity.
    destruct (load_derived f c Hkok Hpc) as [Hder Hkd].
    destruct (load_update_ok f WIn c Hkok Hpc) as [_ Hcases].
    destruct (load_update_views f WIn c) as (_ & _ & Hkk).
    assert (Hcur : cur (set_dt s (set_crit (dt s) CLoaded)) = cur s) by reflexivity.
    split.
    + unfold chain_holder. rewrite Hkk. destruct (kind f) as [|[sg tag| |]] eqn:Ek; auto.
      unfold derived in Hder. rewrite Hkk in Hder. destruct Hder as (_ & _ & _ & Hpi).
      destruct Hcases as [E2|[E2|E2]]; rewrite E2 in *; simpl in Hpi; auto.
      * (* occupied: the signal has a slot *)
        intro Hnone. exfalso. unfold load_update in E2. rewrite Ek in E2.
        destruct (lookup sg (slots c)) eqn:El; simpl in E2; [|discriminate].
        rewrite Hcur in Hnone. unfold slot_of in Hnone. rewrite <- Hc in Hnone. congruence.
      * (* vacant: the library has not taken the signal yet *)
        destruct Hpi as [Hlk _]. intro Hl.
        assert (Hl0 : os_get s sg = DLib) by exact Hl.
        destruct (x_lib _ _ _ HX sg Hl0) as [Hx|(j & g & tag2 & Hj & Hwg & _ & Hpg)].
        -- apply Hx. unfold slot_of. rewrite <- Hc. exact Hlk.
        -- assert (j = k) by (eapply Huniq; eauto). subst j. rewrite Hk in Hj. inversion Hj; subst g. congruence.
    + intros _. rewrite Hcur, <- Hc. intro sg. destruct (load_update_slots f c Hkok Hpc sg) as [A B].
      split; [exact A|]. intros sl' Hsl. left. exact (B sl' Hsl).
  - (* MFbLock *)
    destruct Hok as (Hvf & _ & Hcr). hsin Hs. inversion Hs; subst; clear Hs. simpl in *.
    split.
    + unfold chain_holder in *. simpl. destruct (kind f) as [|[sg tag| |]]; auto. rewrite Hpc in Hch.
      match goal with |- context [match ?vv with WIn => _ | _ => _ end] => destruct vv end; simpl; exact Hch.
    + intros _. apply (local_rel_carry _ f); [apply Hlr; reflexivity|reflexivity|reflexivity|let HH0 := fresh in intro HH0; rewrite Hpc in HH0; discriminate].
  - (* MFbLoad *)
    hsin Hs. inversion Hs; subst; clear Hs. simpl in *. split.
    + unfold chain_holder in *. simpl. destruct (kind f) as [|[sg tag| |]]; auto. rewrite Hpc in Hch. exact Hch.
    + intros _. apply (local_rel_carry _ f); [apply Hlr; reflexivity|reflexivity|reflexivity|let HH0 := fresh in intro HH0; rewrite Hpc in HH0; discriminate].
  - (* MDetect *)
    assert (Hlr0 : local_rel (cur s) f) by (apply Hlr; reflexivity).
    split_conds_in Hs; inversion Hs; subst; clear Hs; simpl in *; split.
    + unfold chain_holder in *. simpl. destruct (kind f) as [|[sg tag| |]] eqn:Ek; auto. rewrite Hpc in Hch. simpl.
      split; [exact Hch|]. intros _. destruct (x_os _ _ _ HX sg); [contradiction|assumption].
    + intros _. apply (local_rel_carry _ f); [exact Hlr0|reflexivity|reflexivity|let HH0 := fresh in intro HH0; rewrite Hpc in HH0; discriminate].
    + unfold chain_holder in *. simpl. destruct (kind f) as [|[sg tag| |]]; auto. rewrite Hpc in Hch. exact Hch.
    + intros _. apply (local_rel_carry _ f); [exact Hlr0|reflexivity|reflexivity|let HH0 := fresh in intro HH0; rewrite Hpc in HH0; discriminate].
  - (* MFbSwap *)
    destruct Hok as (Hvf & Hcf & _ & Hcr). rewrite Hvf in Hs. unfold hstep in Hs. rewrite Haf, Hcf in Hs. inversion Hs; subst; clear Hs. simpl in *.
    split.
    + unfold chain_holder in *. simpl. destruct (kind f) as [|[sg tag| |]] eqn:Ek; auto. rewrite Hpc in Hch. destruct Hch as [Hnl Hlp].
      split; [exact Hnl|]. unfold fcur. simpl. rewrite <- (c_flen _ _ HC). rewrite app_nth2 by lia. rewrite Nat.sub_diag. simpl. rewrite (Hlp eq_refl). reflexivity.
    + intros _. apply (local_rel_carry _ f); [apply Hlr; reflexivity|reflexivity|reflexivity|let HH0 := fresh in intro HH0; rewrite Hpc in HH0; discriminate].
  - (* MFbBarrier *)
    destruct Hok as (Hvf & Hst & _ & Hcr). rewrite Hvf in Hs. unfold hstep in Hs. rewrite Haf in Hs.
    unfold in_store in Hst. destruct (crit (fb s)) as [| | |old st a b it|] eqn:Hcf; try discriminate.
    destruct (barrier_step (fb s) old st a b it) as [h2 e2] eqn:Hb. inversion Hs; subst; clear Hs. simpl in *.
    apply barrier_step_shape in Hb. destruct Hb as (Hp & _).
    assert (Hfc : fcur (set_fb s h2) = fcur s) by (unfold fcur; simpl; rewrite Hp; reflexivity).
    split.
    + unfold chain_holder in *. simpl. destruct (kind f) as [|[sg tag| |]]; auto. rewrite Hpc in Hch.
      destruct (in_store h2); simpl; rewrite Hfc; exact Hch.
    + intros _. apply (local_rel_carry _ f); [apply Hlr; reflexivity|reflexivity|reflexivity|let HH0 := fresh in intro HH0; rewrite Hpc in HH0; discriminate].
  - (* MFbUnlock *)
    destruct Hok as (Hvf & Hcf & _ & Hcr). rewrite Hvf in Hs. unfold hstep in Hs. rewrite Haf, Hcf in Hs. inversion Hs; subst; clear Hs. simpl in *.
    split.
    + unfold chain_holder in *. simpl. destruct (kind f) as [|[sg tag| |]]; auto. rewrite Hpc in Hch. exact Hch.
    + intros _. apply (local_rel_carry _ f); [apply Hlr; reflexivity|reflexivity|reflexivity|let HH0 := fresh in intro HH0; rewrite Hpc in HH0; discriminate].
  - (* MSlotNew *)
    assert (Hlr0 : local_rel (cur s) f) by (apply Hlr; reflexivity).
    destruct (h_kind _ _ HH k f Hk ltac:(rewrite Hpc; reflexivity)) as (sg & tag & Ek).
    assert (Hder : derived (cur s) f) by (apply (h_pre _ _ HH k f Hk Hw); left; rewrite Hpc; reflexivity).
    unfold derived in Hder. rewrite Ek, Hpc in Hder. simpl in Hder. destruct Hder as (_ & _ & _ & Hlk & Hsl).
    unfold chain_holder in Hch. rewrite Ek, Hpc in Hch. destruct Hch as [Hnl Hfc].
    rewrite Ek in Hs. cbn [sig_of] in Hs.
    split_conds_in Hs; inversion Hs; subst; clear Hs; simpl in *; split.
    + (* installed *)
      unfold chain_holder. simpl. rewrite ?Ek. intros _.
      assert (Eo : os_get {| dt := dt s; fb := fb s; dhist := dhist s; fhist := fhist s; os := update sg DLib (os s) |} sg = DLib).
      { unfold os_get. simpl. rewrite lookup_update_same. reflexivity. }
      split; [exact Eo|]. split; [exact Hfc|].
      eexists. split.
      * unfold slot_of. simpl. rewrite Hsl. rewrite lookup_app_new by assumption. rewrite Z.eqb_refl. reflexivity.
      * simpl. destruct (x_os _ _ _ HX sg); [contradiction|assumption].
    + intros _ sg'. destruct (Hlr0 sg') as [A B]. unfold slot_of in *. simpl. rewrite Hsl in *.
      rewrite lookup_app_new by assumption. destruct (Z.eqb sg' sg) eqn:E.
      * apply Z.eqb_eq in E. subst sg'. split.
        -- intros sl Hx. unfold cur, content in Hx. simpl in Hx. unfold cur, content in Hlk. congruence.
        -- intros sl' Hx. right. split; [exact Hlk|]. split; [reflexivity|eauto].
      * split; [exact A|]. intros sl' Hx. destruct (B sl' Hx) as [?|(_ & Hc2 & _)]; [left; assumption|congruence].
    + unfold chain_holder. simpl. rewrite ?Ek. exact Hnl.
    + intros _. apply (local_rel_carry _ f); [exact Hlr0|reflexivity|simpl; congruence|let HH0 := fresh in intro HH0; rewrite Hpc in HH0; discriminate].
  - (* MDtSwap *)
    destruct Hok as (_ & _ & Hcr). rewrite Hw in Hs. unfold hstep in Hs. rewrite Had, Hcr in Hs. inversion Hs; subst; clear Hs. simpl in *.
    split; [|simpl; discriminate]. unfold chain_holder. simpl. destruct (kind f) as [|[sg tag| |]]; auto.
  - (* MDtBarrier *)
    destruct Hok as (_ & _ & Hst). rewrite Hw in Hs. unfold hstep in Hs. rewrite Had in Hs.
    unfold in_store in Hst. destruct (crit (dt s)) as [| | |old st a b it|] eqn:Hcr; try discriminate.
    destruct (barrier_step (dt s) old st a b it) as [h2 e2] eqn:Hb. inversion Hs; subst; clear Hs. simpl in *.
    split; [|destruct (in_store h2); discriminate].
    unfold chain_holder. simpl. destruct (kind f) as [|[sg tag| |]]; auto. destruct (in_store h2); exact I.
  - (* MDtUnlock *)
    exfalso. destruct Hok as (_ & _ & Hcr). rewrite Hw in Hs. unfold hstep in Hs. rewrite Had in Hs.
    destruct Hcr as [Hcr|Hcr]; rewrite Hcr in Hs; inversion Hs; subst; discriminate.
  - (* MErrFbUnlock *)
    destruct Hok as (Hvf & Hcf & _ & Hcr). rewrite Hvf in Hs. unfold hstep in Hs. rewrite Haf, Hcf in Hs. inversion Hs; subst; clear Hs. simpl in *.
    split.
    + unfold chain_holder in *. simpl. destruct (kind f) as [|[sg tag| |]]; auto. rewrite Hpc in Hch. exact Hch.
    + intros _. apply (local_rel_carry _ f); [apply Hlr; reflexivity|reflexivity|reflexivity|let HH0 := fresh in intro HH0; rewrite Hpc in HH0; discriminate].
  - (* MErrDtUnlock *)
    exfalso. destruct Hok as (_ & _ & Hcr). rewrite Hw in Hs. unfold hstep in Hs. rewrite Had, Hcr in Hs. inversion Hs; subst; discriminate.
Qed.

(** * A step of the frame that holds the data mutex *)
Lemma chain_step_holder os0 s fs k f s' f' es :
  Inv3 (s, fs) -> ChainInv os0 s fs -> nth_error fs k = Some f -> vdt f = WIn ->
  aborted (dt s) || aborted (fb s) = false ->
  fstep s f = (s', f', es) -> ChainInv os0 s' (upd fs k f').
Proof.
  intros HI HX Hk Hw Hab Hs. pose proof HI as [[HP HC] HH]. simpl in HP, HC, HH.
  pose proof HP as [[Hd Hf] Hfr]. pose proof (Hfr k f Hk) as Hfok.
  pose proof (self_frame_ok q_ok s_ok s f s' f' es Hfok Hs) as [Hok' Hkind'].
  assert (Hlen : k < length fs) by (apply nth_error_Some; congruence).
  assert (Hkd : kind f' = kind f) by (apply (kind_preserved q_ok s_ok s f s' f' es Hs)).
  assert (Huniq : forall j g, nth_error fs j = Some g -> vdt g = WIn -> j = k).
  { intros j g Hj Hwg. eapply (holder_unique (dt s) (map vdt fs)); eauto; rewrite nth_error_map; [rewrite Hj|rewrite Hk]; simpl; congruence. }
  assert (Hptr_lt : ptr (dt s) < length (dhist s)) by (rewrite (c_dlen _ _ HC); apply (i_ptr _ _ Hd)).
  pose proof (x_holder _ _ _ HX k f Hk Hw) as Hch.
  (* general facts about the step *)
  assert (G1 : forall x, os_get s x = DLib -> os_get s' x = DLib) by (intros x; apply (os_mono s f s' f' es x Hs)).
  assert (G2 : exists y, fhist s' = fhist s ++ y).
  { destruct (fstep_fhist q_ok s_ok _ _ _ _ _ Hs) as [->|[_ ->]]; [exists []; rewrite app_nil_r; reflexivity|eauto]. }
  assert (G3 : forall p, p < length (dhist s) -> content s' p = content s p).
  { intros p Hp. unfold content. destruct (fstep_dhist q_ok s_ok _ _ _ _ _ Hs) as [->|[_ ->]]; [reflexivity|apply app_nth1; assumption]. }
  assert (Gpub : (ptr (dt s') = ptr (dt s) /\ dhist s' = dhist s /\ cur s' = cur s) \/
                 (fpc f = MDtSwap /\ dhist s' = dhist s ++ [local f] /\ cur s' = local f /\ fpc f' = MDtBarrier /\ os s' = os s /\ fhist s' = fhist s
                  /\ ptr (fb s') = ptr (fb s))).
  { destruct (fstep_dt_nxt q_ok s_ok _ _ _ _ _ Hfok Hs) as [(_ & Hp & Hh)|(Hpc & _ & Hc & _ & Hp & Hh & _)].
    - left. repeat split; auto. unfold cur, content. rewrite Hp, Hh. reflexivity.
    - right. apply orb_false_iff in Hab. destruct Hab as [Had Haf]. clear Hok' Hkind' Hkd G1 G2 G3.
      unfold Model.fstep in Hs. rewrite Had, Haf, Hpc in Hs. simpl in Hs. rewrite Hw in Hs. unfold hstep in Hs. rewrite Had, Hc in Hs.
      inversion Hs; subst. simpl. repeat split; auto.
      unfold cur, content. simpl. rewrite <- (c_dlen _ _ HC). rewrite app_nth2 by lia. rewrite Nat.sub_diag. reflexivity. }
  assert (G4 : forall sg, slot_of (cur s) sg <> None -> slot_of (cur s') sg <> None).
  { intros sg Hsl. destruct Gpub as [(_ & _ & ->)|(Hpc & _ & -> & _)]; [assumption|].
    destruct (slot_of (cur s) sg) as [sl|] eqn:Es; [|congruence].
    destruct (x_local _ _ _ HX k f Hk Hw ltac:(rewrite Hpc; reflexivity) sg) as [H1 _].
    destruct (H1 sl Es) as (sl' & E & _). rewrite E. discriminate. }
  assert (Hreader : forall j g sg, j <> k -> nth_error fs j = Some g -> kind g = KDeliver sg ->
            match fpc g with
            | PFbGen | PFbInc | PFbPtr => os_get s' sg = DLib
            | PDtGen | PDtInc | PDtPtr =>
                os_get s' sg = DLib /\ (nth (held_ptr (vfb g)) (fhist s') None = Some (sg, os0_get os0 sg) \/ slot_of (cur s') sg <> None)
            | _ => True
            end).
  { intros j g sg Hne Hj Hkg. destruct (Hfr j g Hj) as [Hokg _].
    apply (reader_clause_stable os0 s s' fs j g sg Hf HC Hj Hkg G1 G2 (G4 sg) (x_reader _ _ _ HX j g sg Hj Hkg) Hokg). }
  constructor.
  - (* x_os *)
    intro sg. destruct (fstep_os _ _ _ _ _ Hs) as [E|(_ & _ & E)].
    + assert (E2 : os_get s' sg = os_get s sg) by (unfold os_get; rewrite E; reflexivity). rewrite E2. apply (x_os _ _ _ HX).
    + assert (E2 : os_get s' sg = if Z.eqb sg (sig_of (kind f)) then DLib else os_get s sg) by (unfold os_get at 1; rewrite E; apply os_get_update).
      rewrite E2. destruct (Z.eqb sg _); [left; reflexivity|apply (x_os _ _ _ HX)].
  - (* x_slot *)
    intros p Hp sg sl Hsl.
    destruct Gpub as [(_ & Hh & _)|(Hpc & Hh & Hc' & _)]; rewrite Hh in Hp.
    + rewrite G3 in Hsl by assumption. destruct (x_slot _ _ _ HX p Hp sg sl Hsl) as [A B]. split; [assumption|apply G1; assumption].
    + rewrite app_length in Hp. simpl in Hp. destruct (Nat.eq_dec p (length (dhist s))) as [->|Hne].
      * assert (Hcl : content s' (length (dhist s)) = local f).
        { unfold content. rewrite Hh. rewrite app_nth2 by lia. rewrite Nat.sub_diag. reflexivity. }
        rewrite Hcl in Hsl.
        destruct (x_local _ _ _ HX k f Hk Hw ltac:(rewrite Hpc; reflexivity) sg) as [_ H2].
        destruct (H2 sl Hsl) as [(sl0 & E0 & Hp0)|(Enone & _ & tag & Ekd)].
        -- destruct (x_slot _ _ _ HX (ptr (dt s)) Hptr_lt sg sl0 E0) as [A B]. split; [congruence|apply G1; assumption].
        -- unfold chain_holder in Hch. rewrite Ekd, Hpc in Hch. destruct (Hch Enone) as (Hl & _ & sl2 & E2 & Hp2).
           rewrite E2 in Hsl. inversion Hsl; subst. split; [assumption|apply G1; assumption].
      * rewrite G3 in Hsl by lia. destruct (x_slot _ _ _ HX p ltac:(lia) sg sl Hsl) as [A B]. split; [assumption|apply G1; assumption].
  - (* x_mono *)
    intros p Hp sg Hsl.
    destruct Gpub as [(_ & Hh & Hc')|(Hpc & Hh & Hc' & _)]; rewrite Hh in Hp.
    + rewrite G3 in Hsl by assumption. rewrite Hc'. apply (x_mono _ _ _ HX p Hp sg Hsl).
    + rewrite app_length in Hp. simpl in Hp. destruct (Nat.eq_dec p (length (dhist s))) as [->|Hne].
      * assert (Hcl : content s' (length (dhist s)) = local f).
        { unfold content. rewrite Hh. rewrite app_nth2 by lia. rewrite Nat.sub_diag. reflexivity. }
        rewrite Hcl in Hsl. rewrite Hc'. assumption.
      * rewrite G3 in Hsl by lia. apply G4. apply (x_mono _ _ _ HX p ltac:(lia) sg Hsl).
  - (* x_lib *)
    intros sg Hl.
    destruct (disp_eq_lib (os_get s sg)) as [Hold|Hnew].
    + destruct (x_lib _ _ _ HX sg Hold) as [Hx|(j & g & tag & Hj & Hwg & Hkg & Hpg)]; [left; apply G4; assumption|].
      assert (j = k) by (eapply Huniq; eauto). subst j. rewrite Hk in Hj. inversion Hj; subst g.
      left. destruct Gpub as [(Hp & Hh & _)|(_ & _ & Hc' & _)].
      * (* f at MDtSwap did not publish: impossible when alive *)
        exfalso. destruct (fstep_dt_nxt q_ok s_ok _ _ _ _ _ Hfok Hs) as [(Hn & _)|(_ & _ & _ & _ & _ & Hh2 & _)].
        -- destruct Hfok as [Hok _]. unfold pc_ok in Hok. rewrite Hpg in Hok. destruct Hok as (_ & _ & Hcr).
           apply orb_false_iff in Hab. destruct Hab as [Had Haf].
           unfold Model.fstep in Hs. rewrite Had, Haf, Hpg in Hs. simpl in Hs. rewrite Hw in Hs. unfold hstep in Hs. rewrite Had, Hcr in Hs.
           inversion Hs; subst. simpl in Hn. lia.
        -- rewrite Hh in Hh2. apply (f_equal (@length _)) in Hh2. rewrite app_length in Hh2. simpl in Hh2. lia.
      * rewrite Hc'. unfold chain_holder in Hch. rewrite Hkg, Hpg in Hch.
        destruct (slot_of (cur s) sg) as [sl|] eqn:Es.
        -- destruct (x_local _ _ _ HX k f Hk Hw ltac:(rewrite Hpg; reflexivity) sg) as [H1 _].
           destruct (H1 sl Es) as (sl' & E & _). rewrite E. discriminate.
        -- destruct (Hch eq_refl) as (_ & _ & sl & E & _). rewrite E. discriminate.
    + (* the disposition has just become the library's: Slot::new by f *)
      destruct (fstep_os _ _ _ _ _ Hs) as [E|(Hpc & Hpc' & E)].
      * exfalso. apply Hnew. unfold os_get in *. rewrite E in Hl. exact Hl.
      * unfold os_get in Hl. rewrite E in Hl. rewrite os_get_update in Hl.
        destruct (Z.eqb sg (sig_of (kind f))) eqn:Eq; [|exfalso; apply Hnew; exact Hl].
        apply Z.eqb_eq in Eq. subst sg.
        destruct (h_kind _ _ HH k f Hk ltac:(rewrite Hpc; reflexivity)) as (sg0 & tag & Ekd).
        right. exists k, f', tag. rewrite nth_upd_eq by assumption. rewrite Hkd, Ekd. simpl.
        unfold pc_ok in Hok'. rewrite Hpc' in Hok'. tauto.
  - (* x_holder *)
    intros j g Hj Hwg. apply nth_upd_cases in Hj. destruct Hj as [(-> & _ & ->)|[Hne Hj]]; [|exfalso; apply Hne; apply (Huniq j g Hj Hwg)].
    apply orb_false_iff in Hab. destruct Hab as [Had Haf].
    apply (self_chain os0 s fs k f s' f' es HI HX Hk Hw Had Haf Hs Hwg).
  - (* x_local *)
    intros j g Hj Hwg Hpl. apply nth_upd_cases in Hj. destruct Hj as [(-> & _ & ->)|[Hne Hj]]; [|exfalso; apply Hne; apply (Huniq j g Hj Hwg)].
    apply orb_false_iff in Hab. destruct Hab as [Had Haf].
    apply (self_chain os0 s fs k f s' f' es HI HX Hk Hw Had Haf Hs Hwg). exact Hpl.
  - (* x_reader *)
    intros j g sg Hj Hkg. apply nth_upd_cases in Hj. destruct Hj as [(-> & _ & ->)|[Hne Hj]]; [|apply (Hreader j g sg Hne Hj Hkg)].
    exfalso. rewrite Hkd in Hkg. destruct Hfok as [Hok Hko]. unfold kind_ok in Hko. rewrite Hkg in Hko. unfold pc_ok in Hok.
    destruct (fpc f); try discriminate Hko; repeat match goal with H : _ /\ _ |- _ => destruct H end;
      repeat match goal with H : holds _ |- _ => destruct H as (? & ? & ?) end;
      repeat match goal with H : exists _, _ |- _ => destruct H end; congruence.
Qed.

End Chain.

Section ChainRun.
Variable q_ok s_ok : Z -> bool.

Lemma view_win_dec (v : view) : v = WIn \/ v <> WIn.
Proof. destruct v; auto; right; discriminate. Qed.

Lemma chaininv_step os0 s fs k f s' f' es :
  Inv3 (s, fs) -> ChainInv os0 s fs -> nth_error fs k = Some f -> Model.fstep q_ok s_ok s f = (s', f', es) ->
  ChainInv os0 s' (upd fs k f').
Proof.
  intros HI HX Hk Hs. destruct (aborted (dt s) || aborted (fb s)) eqn:Hab.
  - unfold Model.fstep in Hs. rewrite Hab in Hs. inversion Hs; subst. rewrite upd_same by assumption. assumption.
  - destruct (view_win_dec (vdt f)) as [Hw|Hnw].
    + eapply chain_step_holder; eauto.
    + eapply chain_step_nonholder; eauto.
Qed.

Definition no_lib (os0 : list (Z * disp)) : Prop := forall sg, os0_get os0 sg <> DLib.

Lemma chaininv_init os0 : no_lib os0 -> ChainInv os0 (sh_init os0) [].
Proof.
  intro Hn. constructor.
  - intro sg. right. reflexivity.
  - intros p Hp sg sl Hsl. simpl in Hp. assert (p = 0) by lia. subst. unfold content, slot_of in Hsl. simpl in Hsl. discriminate.
  - intros p Hp sg Hsl. simpl in Hp. assert (p = 0) by lia. subst. exact Hsl.
  - intros sg Hl. exfalso. apply (Hn sg). exact Hl.
  - intros [|k] g H; discriminate.
  - intros [|k] g H; discriminate.
  - intros [|k] g sg H; discriminate.
Qed.

Definition Inv6 (os0 : list (Z * disp)) (w : world) : Prop := Inv3 w /\ ChainInv os0 (fst w) (snd w).

Lemma inv6_wstep os0 w l w' es : Inv6 os0 w -> Model.wstep q_ok s_ok w l = (w', es) -> Inv6 os0 w'.
Proof.
  intros [HI HX] Hs. split; [eapply inv3_wstep; eauto|].
  destruct w as [s fs]. simpl in *. destruct l as [k|kd]; simpl in Hs.
  - destruct (nth_error fs k) as [f|] eqn:Hn.
    + destruct (Model.fstep q_ok s_ok s f) as [[s1 f1] e1] eqn:Hf. inversion Hs; subst. simpl. eapply chaininv_step; eauto.
    + inversion Hs; subst. assumption.
  - inversion Hs; subst. simpl. destruct HX as [A B C D E F G]. constructor.
    + exact A.
    + exact B.
    + exact C.
    + intros sg Hl. destruct (D sg Hl) as [?|(j & g & tag & Hj & R)]; [left; assumption|].
      right. exists j, g, tag. split; [|exact R]. rewrite nth_error_app1; [assumption|]. apply nth_error_Some. congruence.
    + intros j g Hj Hw. apply nth_app_cases in Hj. destruct Hj as [Hj|[_ ->]]; [exact (E j g Hj Hw)|destruct kd; discriminate].
    + intros j g Hj Hw. apply nth_app_cases in Hj. destruct Hj as [Hj|[_ ->]]; [exact (F j g Hj Hw)|destruct kd; discriminate].
    + intros j g sg Hj Hkg. apply nth_app_cases in Hj. destruct Hj as [Hj|[_ ->]]; [exact (G j g sg Hj Hkg)|destruct kd; simpl; exact I].
Qed.

Lemma inv6_run os0 ls : forall w w' es, Inv6 os0 w -> Model.run q_ok s_ok w ls = (w', es) -> Inv6 os0 w'.
Proof.
  induction ls as [|l r IH]; intros w w' es H Hr; simpl in Hr.
  - inversion Hr; subst. assumption.
  - destruct (Model.wstep q_ok s_ok w l) as [w1 e1] eqn:Hw. destruct (Model.run q_ok s_ok w1 r) as [w2 e2] eqn:Hr2.
    inversion Hr; subst. eapply IH; [|eauto]. eapply inv6_wstep; eauto.
Qed.

(** C04: in every reachable world, a delivery that found the library installed and now loads
    the data snapshot goes on to call the handler that was installed before the library took the
    signal over - with the calling convention it was installed with - exactly when there was
    one, and before any action; with a default or ignored previous disposition nothing is
    called.  This covers the window in which the slot is not yet published (the fallback) and
    concurrent first registrations of other signals. *)
Theorem chained_dispatch os0 ls s fs es :
  no_lib os0 ->
  Model.run q_ok s_ok (sh_init os0, []) ls = ((s, fs), es) ->
  forall k d sg s' d' es', nth_error fs k = Some d -> kind d = KDeliver sg -> fpc d = PDtPtr ->
    aborted (dt s) = false -> aborted (fb s) = false ->
    Model.fstep q_ok s_ok s d = (s', d', es') ->
    fpc d' = match is_foreign (os0_get os0 sg) with
             | Some si => PPrev si (slot_acts (cur s) sg)
             | None => after_runs (slot_acts (cur s) sg)
             end.
Proof.
  intros Hn Hr k d sg s' d' es' Hk Hkd Hpc Had Haf Hs.
  pose proof (inv6_run os0 ls _ _ _ (conj (inv3_init os0) (chaininv_init os0 Hn)) Hr) as [[[HP HC] _] HX]. simpl in HP, HC, HX.
  destruct HP as [[Hd _] Hfr]. destruct (Hfr k d Hk) as [Hok _]. unfold pc_ok in Hok. rewrite Hpc in Hok. destruct Hok as [_ [i Hv]].
  rewrite <- (dispatch_choice os0 s fs k d sg HX HC Hd Hk Hkd Hpc).
  unfold Model.fstep in Hs. rewrite Had, Haf, Hpc in Hs. simpl in Hs. rewrite Hv in Hs. unfold hstep in Hs. rewrite Had in Hs.
  inversion Hs; subst. simpl. rewrite Hkd. reflexivity.
Qed.

(** What the frame then does: from [PPrev si acts] exactly one call of the previous handler
    with convention [si] (one-argument / three-argument with the delivery's info and context),
    then the actions; from any later program counter no call of a previous handler. *)
Lemma prev_called_once_first s f si acts :
  fpc f = PPrev si acts -> aborted (dt s) || aborted (fb s) = false ->
  Model.fstep q_ok s_ok s f = (s, set_pc f (after_runs acts), [ev 21 0 (sig_of (kind f)) (bz si) 1]).
Proof. intros Hpc Hab. unfold Model.fstep. rewrite Hab, Hpc. reflexivity. Qed.

Lemma dec_events_no_prev h v h' v' e off :
  hstep h v ODec = (h', v', e) -> forallb (fun x => negb (Z.eqb (e_op x) 21)) (map (shift off) e) = true.
Proof.
  intro E. unfold hstep in E. destruct (aborted h); [inversion E; reflexivity|].
  destruct v; inversion E; subst; try reflexivity.
  simpl. destruct (shift_op off (ev 4 (slot_loc i) 1 (zn (cget h i)) 1)) as [-> _]. reflexivity.
Qed.

Lemma no_prev_call_later s f s' f' es :
  (exists a, fpc f = PRun a) \/ fpc f = PDtDec \/ fpc f = PFbDec \/ fpc f = PDone ->
  Model.fstep q_ok s_ok s f = (s', f', es) ->
  forallb (fun e => negb (Z.eqb (e_op e) 21)) es = true /\
  ((exists a, fpc f' = PRun a) \/ fpc f' = PDtDec \/ fpc f' = PFbDec \/ fpc f' = PDone).
Proof.
  intros Hpc Hs. unfold Model.fstep in Hs. destruct (aborted (dt s) || aborted (fb s)); [inversion Hs; subst; auto|].
  destruct Hpc as [[a Hpc]|[Hpc|[Hpc|Hpc]]]; rewrite Hpc in Hs.
  - destruct a as [|x r]; inversion Hs; subst; simpl.
    + split; [reflexivity|right; left; reflexivity].
    + split; [reflexivity|]. destruct (after_runs_cases r) as [E|[l E]]; rewrite E; eauto.
  - destruct (hstep (dt s) (vdt f) ODec) as [[h v] e] eqn:E. inversion Hs; subst. simpl. split.
    + pose proof (dec_events_no_prev _ _ _ _ _ 0%Z E) as H. 
      assert (Hm : map (shift 0%Z) es = es).
      { clear. induction es as [|x r IH]; simpl; [reflexivity|]. rewrite IH. f_equal. unfold shift. destruct (Z.eqb (e_loc x) 0); [reflexivity|].
        destruct x; simpl. f_equal. apply Z.add_0_r. }
      rewrite Hm in H. exact H.
    + right. right. left. reflexivity.
  - destruct (hstep (fb s) (vfb f) ODec) as [[h v] e] eqn:E. inversion Hs; subst. simpl. split.
    + apply (dec_events_no_prev _ _ _ _ _ 10%Z E).
    + right. right. right. reflexivity.
  - inversion Hs; subst. split; [reflexivity|right; right; right; assumption].
Qed.

End ChainRun.
