(** Bookkeeping of the mutex holder: how its private clone relates to the current published
    registry state before the swap, and that the clone IS the current state after it; every
    published state only contains ids below its id counter. *)
From Coq Require Import List Arith NArith ZArith Bool Lia.
From SH Require Import base.Pool gen.Extracted_halflock gen.Extracted_registry
  halflock.Model halflock.Safety halflock.Lemmas registry.Model registry.Tactics registry.Inv registry.PcInv registry.Events registry.Content.
Import ListNotations.
Arguments Nat.modulo : simpl never.
Arguments N.ltb : simpl never.
Arguments N.of_nat : simpl never.
Local Open Scope nat_scope.

(** * Association-list facts *)

Lemma lookup_update_same {A} sg (v : A) l : lookup sg (update sg v l) = Some v.
Proof.
  induction l as [|[k w] t IH]; simpl.
  - rewrite Z.eqb_refl. reflexivity.
  - destruct (Z.eqb k sg) eqn:E; simpl; rewrite E; auto.
Qed.

Lemma lookup_update_other {A} sg sg' (v : A) l : sg' <> sg -> lookup sg' (update sg v l) = lookup sg' l.
Proof.
  intro Hne. induction l as [|[k w] t IH]; simpl.
  - destruct (Z.eqb sg sg') eqn:E; [apply Z.eqb_eq in E; congruence|reflexivity].
  - destruct (Z.eqb k sg) eqn:E; simpl.
    + apply Z.eqb_eq in E. subst k. destruct (Z.eqb sg sg') eqn:E2; [apply Z.eqb_eq in E2; congruence|reflexivity].
    + destruct (Z.eqb k sg'); auto.
Qed.

Lemma lookup_app_new {A} sg sg' (v : A) l :
  lookup sg l = None -> lookup sg' (l ++ [(sg, v)]) = if Z.eqb sg' sg then Some v else lookup sg' l.
Proof.
  induction l as [|[k w] t IH]; simpl; intro H.
  - rewrite (Z.eqb_sym sg sg'). destruct (Z.eqb sg' sg); reflexivity.
  - destruct (Z.eqb k sg) eqn:E; [discriminate|]. specialize (IH H).
    destruct (Z.eqb k sg') eqn:E2.
    + apply Z.eqb_eq in E2. subst k. rewrite E. reflexivity.
    + exact IH.
Qed.

Lemma remove_act_not_in id l : ~ In id (map fst (remove_act id l)).
Proof.
  unfold remove_act. intro H. apply in_map_iff in H. destruct H as [[i t] [Hi Hin]]. simpl in Hi. subst i.
  apply filter_In in Hin. destruct Hin as [_ Hf]. simpl in Hf. rewrite N.eqb_refl in Hf. discriminate.
Qed.

Lemma remove_act_subset id l x : In x (map fst (remove_act id l)) -> In x (map fst l).
Proof.
  unfold remove_act. intro H. apply in_map_iff in H. destruct H as [a [Ha Hin]]. apply filter_In in Hin.
  apply in_map_iff. exists a. tauto.
Qed.

Lemma insert_act_in id tag l x : In x (map fst (insert_act id tag l)) -> x = id \/ In x (map fst l).
Proof.
  induction l as [|[i t] r IH]; simpl.
  - intros [H|[]]; auto.
  - destruct (N.ltb id i); simpl.
    + intros [H|[H|H]]; auto.
    + intros [H|H]; auto. destruct (IH H); auto.
Qed.

Lemma has_act_in id l : has_act id l = true <-> In id (map fst l).
Proof.
  unfold has_act. rewrite existsb_exists. split.
  - intros [a [Ha He]]. apply N.eqb_eq in He. subst. apply in_map. assumption.
  - intro H. apply in_map_iff in H. destruct H as [a [Ha Hin]]. exists a. split; auto. apply N.eqb_eq. assumption.
Qed.

(** * The relation between the holder's clone and the current state *)

Definition pre_insert (p : pc) : bool :=
  match p with MFbLock | MFbLoad | MDetect | MFbSwap | MFbBarrier | MFbUnlock | MSlotNew | MErrFbUnlock | MErrDtUnlock => true | _ => false end.

Definition wf (d : sigdata) : Prop := forall sg x, In x (map fst (slot_acts d sg)) -> (x < next_id d)%N.

Definition derived (c : sigdata) (g : frame) : Prop :=
  match kind g with
  | KMut (MRegister sg tag) =>
      lid g = next_id c /\ next_id (local g) = N.succ (next_id c) /\ removed g = [] /\
      (if pre_insert (fpc g)
       then lookup sg (slots c) = None /\ slots (local g) = slots c
       else forall sg', slot_acts (local g) sg' = if Z.eqb sg' sg then insert_act (lid g) tag (slot_acts c sg) else slot_acts c sg')
  | KMut (MUnregister sg id) =>
      next_id (local g) = next_id c /\
      (if Z.eqb (res g) 1
       then removed g = [id] /\ In id (map fst (slot_acts c sg)) /\
            forall sg', slot_acts (local g) sg' = if Z.eqb sg' sg then remove_act id (slot_acts c sg) else slot_acts c sg'
       else removed g = [] /\ local g = c)
  | KMut (MUnregSignal sg) =>
      next_id (local g) = next_id c /\
      (if Z.eqb (res g) 1
       then removed g = map fst (slot_acts c sg) /\ forall sg', slot_acts (local g) sg' = if Z.eqb sg' sg then [] else slot_acts c sg'
       else removed g = [] /\ local g = c)
  | KDeliver _ => False
  end.

(** between the load of the write guard and the swap *)
Definition post_load (p : pc) : bool :=
  match p with
  | MFbLock | MFbLoad | MDetect | MFbSwap | MFbBarrier | MFbUnlock | MSlotNew | MDtSwap | MErrFbUnlock | MErrDtUnlock => true
  | _ => false
  end.

Record HoldInv (s : shared) (fs : list frame) : Prop := {
  h_wf : forall p, p < length (dhist s) -> wf (content s p);
  h_pre : forall k g, nth_error fs k = Some g -> vdt g = WIn ->
            (post_load (fpc g) = true \/ (fpc g = MDtUnlock /\ crit (dt s) = CLoaded)) -> derived (cur s) g;
  h_kind : forall k g, nth_error fs k = Some g -> pre_insert (fpc g) = true -> exists sg tag, kind g = KMut (MRegister sg tag);
  h_post : forall k g, nth_error fs k = Some g -> vdt g = WIn ->
            (fpc g = MDtBarrier \/ (fpc g = MDtUnlock /\ crit (dt s) = CStored)) ->
            cur s = local g /\
            (forall id, In id (removed g) -> ~ In id (map fst (slot_acts (local g) (sig_of (kind g)))) /\ (id < next_id (local g))%N)
}.

Lemma wf_init : wf sd_init.
Proof. intros sg x. unfold slot_acts. simpl. tauto. Qed.

Lemma derived_wf c g : wf c -> derived c g -> fpc g = MDtSwap -> wf (local g).
Proof.
  unfold derived, wf. intros Hw Hd Hpc sg' x Hin. rewrite Hpc in Hd. simpl in Hd.
  destruct (kind g) as [|[sg tag|sg id|sg]]; [contradiction| | |].
  - destruct Hd as (Hl & Hn & _ & Ha). rewrite Hn, Ha in *. destruct (Z.eqb sg' sg).
    + apply insert_act_in in Hin. destruct Hin as [->|Hin]; [rewrite Hl; lia|]. specialize (Hw _ _ Hin). lia.
    + specialize (Hw _ _ Hin). lia.
  - destruct Hd as (Hn & Hr). rewrite Hn. destruct (Z.eqb (res g) 1).
    + destruct Hr as (_ & _ & Ha). rewrite Ha in Hin. destruct (Z.eqb sg' sg); [apply remove_act_subset in Hin|]; eauto.
    + destruct Hr as [_ Hl]. rewrite Hl in Hin. eauto.
  - destruct Hd as (Hn & Hr). rewrite Hn. destruct (Z.eqb (res g) 1).
    + destruct Hr as [_ Ha]. rewrite Ha in Hin. destruct (Z.eqb sg' sg); [destruct Hin|]; eauto.
    + destruct Hr as [_ Hl]. rewrite Hl in Hin. eauto.
Qed.

Lemma slot_acts_update c sg sl sg' nid :
  slot_acts {| slots := update sg sl (slots c); next_id := nid |} sg' = if Z.eqb sg' sg then s_acts sl else slot_acts c sg'.
Proof.
  unfold slot_acts. simpl. destruct (Z.eqb sg' sg) eqn:E.
  - apply Z.eqb_eq in E. subst. rewrite lookup_update_same. reflexivity.
  - apply Z.eqb_neq in E. rewrite lookup_update_other by assumption. reflexivity.
Qed.

(** What the clone looks like right after the write guard was loaded. *)
Lemma load_derived f c :
  kind_ok f -> fpc f = MDtLoad ->
  let g := load_update f WIn c in
  derived c g /\ (pre_insert (fpc g) = true -> exists sg tag, kind g = KMut (MRegister sg tag)).
Proof.
  unfold kind_ok, load_update, derived. intros Hk Hpc.
  destruct (kind f) as [sg|m] eqn:Ek; [rewrite Hpc in Hk; discriminate|].
  destruct m as [sg tag|sg aid|sg]; destruct (lookup sg (slots c)) as [sl|] eqn:El; simpl; rewrite ?Ek;
    try (assert (Hsa : slot_acts c sg = s_acts sl) by (unfold slot_acts; rewrite El; reflexivity)).
  - split; [|discriminate]. repeat split; auto. intro sg'. rewrite slot_acts_update. simpl. rewrite Hsa. reflexivity.
  - split; [|eauto]. repeat split; auto.
  - destruct (has_act aid (s_acts sl)) eqn:Eh; simpl; rewrite ?Ek; (split; [|discriminate]).
    + repeat split; auto.
      * rewrite Hsa. apply has_act_in. assumption.
      * intro sg'. rewrite slot_acts_update. simpl. rewrite Hsa. reflexivity.
    + repeat split; auto.
  - split; [|discriminate]. repeat split; auto.
  - destruct (s_acts sl) as [|a r] eqn:Ea; simpl; rewrite ?Ek; (split; [|discriminate]).
    + repeat split; auto.
    + repeat split; auto.
      * rewrite Hsa. reflexivity.
      * intro sg'. rewrite slot_acts_update. simpl. reflexivity.
  - split; [|discriminate]. repeat split; auto.
Qed.

Section Holder.
Variable q_ok s_ok : Z -> bool.
Notation fstep := (Model.fstep q_ok s_ok).

Lemma in_store_false_cases h : in_store h = false -> forall old st a b it, crit h <> CSwapped old st a b it.
Proof. unfold in_store. intros H old st a b it E. rewrite E in H. discriminate. Qed.

Lemma derived_same_fields c g g' :
  derived c g -> kind g' = kind g -> local g' = local g -> lid g' = lid g -> res g' = res g -> removed g' = removed g ->
  pre_insert (fpc g') = pre_insert (fpc g) -> derived c g'.
Proof.
  unfold derived. intros H Hk Hl Hi Hr Hm Hp. rewrite Hk, Hl, Hi, Hr, Hm, Hp. exact H.
Qed.

(** The stepping frame, in a step that does not publish. *)
Lemma self_hold s fs k f s' f' es :
  PInv s fs -> HoldInv s fs -> nth_error fs k = Some f -> fstep s f = (s', f', es) ->
  fpc f <> MDtSwap -> cur s' = cur s -> vdt f' = WIn ->
  ((post_load (fpc f') = true \/ (fpc f' = MDtUnlock /\ crit (dt s') = CLoaded)) -> derived (cur s) f') /\
  (pre_insert (fpc f') = true -> exists sg tag, kind f' = KMut (MRegister sg tag)) /\
  ((fpc f' = MDtBarrier \/ (fpc f' = MDtUnlock /\ crit (dt s') = CStored)) ->
     cur s = local f' /\
     (forall id, In id (removed f') -> ~ In id (map fst (slot_acts (local f') (sig_of (kind f')))) /\ (id < next_id (local f'))%N)).
Proof.
  intros HP HH Hk Hs Hnsw Hcur Hw'.
  destruct HP as [[Hd Hf] Hfr]. destruct (Hfr k f Hk) as [Hok Hkind].
  pose proof (self_frame_ok q_ok s_ok s f s' f' es (Hfr k f Hk) Hs) as [Hok' _].
  unfold Model.fstep in Hs.
  destruct (aborted (dt s) || aborted (fb s)) eqn:Hab.
  { inversion Hs; subst. repeat split; intros.
    - eapply (h_pre _ _ HH); eauto.
    - eapply (h_kind _ _ HH); eauto.
    - eapply (h_post _ _ HH); eauto.
    - eapply (h_post _ _ HH); eauto.
    - eapply (h_post _ _ HH); eauto. }
  apply orb_false_iff in Hab. destruct Hab as [Had Haf].
  unfold pc_ok in Hok.
  destruct (fpc f) eqn:Hpc; try congruence;
    (* dispatcher program counters never end up holding the write mutex *)
    try (exfalso; revert Hw' Hs; clear; intros Hw' Hs;
         try hsin Hs; split_conds_in Hs; try (destruct acts); inversion Hs; subst; simpl in Hw';
         repeat match goal with E : hstep _ _ _ = _ |- _ => unfold hstep in E end; fail).
  all: try (exfalso; try hsin Hs; split_conds_in Hs; inversion Hs; subst; simpl in *; unfold pc_ok in Hok'; simpl in Hok';
            repeat match goal with H : _ /\ _ |- _ => destruct H end; try congruence;
            repeat match goal with H : holds _ |- _ => destruct H as (? & ? & ?) end;
            repeat match goal with H : exists _, _ |- _ => destruct H end; congruence).
  - (* PDtPtr *) exfalso. hsin Hs. inversion Hs; subst. simpl in *. destruct Hok as [_ [i Hv]]. rewrite Hv in E. unfold hstep in E. rewrite Had in E.
    inversion E; subst. discriminate.
  - (* PRun *) exfalso. destruct acts; inversion Hs; subst; simpl in *; destruct Hok as [_ (i & q & Hv)]; congruence.
  - (* MDtLock -> MDtLoad *)
    hsin Hs. inversion Hs; subst; clear Hs. simpl in *. subst. simpl.
    repeat split; intros; try discriminate; repeat match goal with H : _ \/ _ |- _ => destruct H end; try discriminate;
      match goal with H : _ /\ _ |- _ => destruct H; discriminate end.
  - (* MDtLoad *)
    hsin Hs. destruct Hok as (Hvf & Hvd & Hcr). rewrite Hvd in E. unfold hstep in E. rewrite Had, Hcr in E. inversion E; subst; clear E.
    inversion Hs; subst; clear Hs.
    destruct (load_derived f (nth (ptr (dt s)) (dhist s) sd_init) Hkind Hpc) as [Hder Hkd].
    destruct (load_update_ok f WIn (nth (ptr (dt s)) (dhist s) sd_init) Hkind Hpc) as [_ Hcases].
    split; [intros _; exact Hder|]. split; [exact Hkd|].
    intros [Hb|[Hu Hc]].
    + destruct Hcases as [E2|[E2|E2]]; rewrite E2 in Hb; discriminate.
    + simpl in Hc. discriminate.
  - (* MFbLock *)
    assert (Hvd : vdt f = WIn) by tauto.
    assert (Hder : derived (cur s) f) by (apply (h_pre _ _ HH k f Hk Hvd); left; rewrite Hpc; reflexivity).
    assert (Hkk : exists sg tag, kind f = KMut (MRegister sg tag)) by (apply (h_kind _ _ HH k f Hk); rewrite Hpc; reflexivity).
    hsin Hs. inversion Hs; subst; clear Hs. simpl in *.
    match goal with E0 : hstep _ _ _ = (_, ?vv, _) |- _ => destruct vv end; simpl;
      (split; [intros _; eapply derived_same_fields; eauto; simpl; rewrite Hpc; reflexivity|]);
      (split; [intros _; exact Hkk|]); intros [Hb|[Hu _]]; discriminate.
  - (* MFbLoad *)
    assert (Hvd : vdt f = WIn) by tauto.
    assert (Hder : derived (cur s) f) by (apply (h_pre _ _ HH k f Hk Hvd); left; rewrite Hpc; reflexivity).
    assert (Hkk : exists sg tag, kind f = KMut (MRegister sg tag)) by (apply (h_kind _ _ HH k f Hk); rewrite Hpc; reflexivity).
    hsin Hs. inversion Hs; subst; clear Hs. simpl in *.
    (split; [intros _; eapply derived_same_fields; eauto; simpl; rewrite Hpc; reflexivity|]);
      (split; [intros _; exact Hkk|]); intros [Hb|[Hu _]]; discriminate.
  - (* MDetect *)
    assert (Hvd : vdt f = WIn) by tauto.
    assert (Hder : derived (cur s) f) by (apply (h_pre _ _ HH k f Hk Hvd); left; rewrite Hpc; reflexivity).
    assert (Hkk : exists sg tag, kind f = KMut (MRegister sg tag)) by (apply (h_kind _ _ HH k f Hk); rewrite Hpc; reflexivity).
    split_conds_in Hs; inversion Hs; subst; clear Hs; simpl in *;
    (split; [intros _; eapply derived_same_fields; eauto; simpl; rewrite Hpc; reflexivity|]);
      (split; [intros _; exact Hkk|]); intros [Hb|[Hu _]]; discriminate.
  - (* MFbSwap *)
    assert (Hvd : vdt f = WIn) by tauto.
    assert (Hder : derived (cur s) f) by (apply (h_pre _ _ HH k f Hk Hvd); left; rewrite Hpc; reflexivity).
    assert (Hkk : exists sg tag, kind f = KMut (MRegister sg tag)) by (apply (h_kind _ _ HH k f Hk); rewrite Hpc; reflexivity).
    hsin Hs. inversion Hs; subst; clear Hs. simpl in *.
    (split; [intros _; eapply derived_same_fields; eauto; simpl; rewrite Hpc; reflexivity|]);
      (split; [intros _; exact Hkk|]); intros [Hb|[Hu _]]; discriminate.
  - (* MFbBarrier *)
    assert (Hvd : vdt f = WIn) by tauto.
    assert (Hder : derived (cur s) f) by (apply (h_pre _ _ HH k f Hk Hvd); left; rewrite Hpc; reflexivity).
    assert (Hkk : exists sg tag, kind f = KMut (MRegister sg tag)) by (apply (h_kind _ _ HH k f Hk); rewrite Hpc; reflexivity).
    hsin Hs. inversion Hs; subst; clear Hs. simpl in *.
    destruct (in_store h); simpl;
    (split; [intros _; eapply derived_same_fields; eauto; simpl; rewrite Hpc; reflexivity|]);
      (split; [intros _; exact Hkk|]); intros [Hb|[Hu _]]; discriminate.
  - (* MFbUnlock *)
    assert (Hvd : vdt f = WIn) by tauto.
    assert (Hder : derived (cur s) f) by (apply (h_pre _ _ HH k f Hk Hvd); left; rewrite Hpc; reflexivity).
    assert (Hkk : exists sg tag, kind f = KMut (MRegister sg tag)) by (apply (h_kind _ _ HH k f Hk); rewrite Hpc; reflexivity).
    hsin Hs. inversion Hs; subst; clear Hs. simpl in *.
    (split; [intros _; eapply derived_same_fields; eauto; simpl; rewrite Hpc; reflexivity|]);
      (split; [intros _; exact Hkk|]); intros [Hb|[Hu _]]; discriminate.
  - (* MSlotNew *)
    assert (Hvd : vdt f = WIn) by tauto.
    assert (Hder : derived (cur s) f) by (apply (h_pre _ _ HH k f Hk Hvd); left; rewrite Hpc; reflexivity).
    assert (Hkk : exists sg tag, kind f = KMut (MRegister sg tag)) by (apply (h_kind _ _ HH k f Hk); rewrite Hpc; reflexivity).
    destruct Hkk as (sg & tag & Ek). rewrite Ek in Hs. simpl in Hs.
    split_conds_in Hs; inversion Hs; subst; clear Hs; simpl in *.
    + (* installed: the slot is inserted into the clone *)
      split; [|split; [discriminate|intros [Hb|[Hu _]]; discriminate]]. intros _.
      unfold derived in *. simpl. rewrite Ek in *. rewrite Hpc in Hder. simpl in Hder.
      destruct Hder as (Hl & Hn & Hrm & Hlk & Hsl). repeat split; auto. intro sg'.
      unfold slot_acts at 1. simpl. rewrite Hsl. rewrite lookup_app_new by assumption.
      assert (Hnone : slot_acts (cur s) sg = []) by (unfold slot_acts; rewrite Hlk; reflexivity).
      rewrite Hnone. simpl. destruct (Z.eqb sg' sg); reflexivity.
    + split; [intros _|split; [intros _; eauto|intros [Hb|[Hu _]]; discriminate]].
      unfold derived in *. simpl. rewrite Ek in *. rewrite Hpc in Hder. exact Hder.
  - (* MDtBarrier *)
    assert (Hvd : vdt f = WIn) by tauto.
    assert (Hpost : cur s = local f /\
       (forall id, In id (removed f) -> ~ In id (map fst (slot_acts (local f) (sig_of (kind f)))) /\ (id < next_id (local f))%N))
      by (apply (h_post _ _ HH k f Hk Hvd); left; assumption).
    destruct Hok as (Hvf & _ & Hst). rewrite Hvd in Hs. unfold hstep in Hs. rewrite Had in Hs.
    unfold in_store in Hst. destruct (crit (dt s)) as [| | |old st a b it|] eqn:Hcr; try discriminate.
    destruct (barrier_step (dt s) old st a b it) as [h2 e2] eqn:Hb.
    inversion Hs; subst; clear Hs. simpl in *.
    apply barrier_step_shape in Hb. destruct Hb as (_ & _ & _ & _ & _ & Hcr').
    split; [|split].
    + intros [Hp|[Hu Hc]].
      * destruct (in_store h2); discriminate.
      * exfalso. unfold in_store in Hu. destruct Hcr' as [E2|(st' & t0 & t1 & it' & E2)]; rewrite E2 in *; simpl in *; congruence.
    + destruct (in_store h2); discriminate.
    + intros _. exact Hpost.
  - (* MErrFbUnlock *)
    assert (Hvd : vdt f = WIn) by tauto.
    assert (Hder : derived (cur s) f) by (apply (h_pre _ _ HH k f Hk Hvd); left; rewrite Hpc; reflexivity).
    assert (Hkk : exists sg tag, kind f = KMut (MRegister sg tag)) by (apply (h_kind _ _ HH k f Hk); rewrite Hpc; reflexivity).
    hsin Hs. inversion Hs; subst; clear Hs. simpl in *.
    split; [intros _|split; [intros _; exact Hkk|intros [Hb|[Hu _]]; discriminate]].
    unfold derived in *. simpl. destruct Hkk as (sg & tag & Ek). rewrite Ek in *. rewrite Hpc in Hder. exact Hder.
Qed.


(** A frame other than the stepping one that holds the data mutex: the stepping frame cannot
    have changed the pointer, the history or the critical-section state. *)
Lemma other_holder_stable s fs k f s' f' es j g :
  PInv s fs -> nth_error fs k = Some f -> fstep s f = (s', f', es) ->
  j <> k -> nth_error fs j = Some g -> vdt g = WIn ->
  crit (dt s') = crit (dt s) /\ ptr (dt s') = ptr (dt s) /\ dhist s' = dhist s.
Proof.
  intros [[Hd Hf] Hfr] Hk Hs Hne Hj Hw.
  assert (Hjw : nth_error (map vdt fs) j = Some WIn) by (rewrite nth_error_map, Hj; simpl; congruence).
  split.
  - destruct (fstep_dt _ _ _ _ _ _ _ Hs) as [[-> _]|(o & e & Hh)]; auto.
    destruct (hstep_crit _ _ _ _ _ _ Hh) as [?|[Hv|(Hv & Hc & _)]]; auto.
    + exfalso. apply Hne. eapply (holder_unique (dt s) (map vdt fs)); eauto. rewrite nth_error_map, Hk. simpl. congruence.
    + exfalso. eapply (holder_crit (dt s) (map vdt fs) j); eauto.
  - destruct (fstep_dt_nxt q_ok s_ok _ _ _ _ _ (Hfr k f Hk) Hs) as [(_ & A & B)|(_ & Hv & _)]; auto.
    exfalso. apply Hne. eapply (holder_unique (dt s) (map vdt fs)); eauto. rewrite nth_error_map, Hk. simpl. congruence.
Qed.

Lemma holdinv_step s fs k f s' f' es :
  PInv s fs -> CInv s fs -> HoldInv s fs -> nth_error fs k = Some f -> fstep s f = (s', f', es) ->
  HoldInv s' (upd fs k f').
Proof.
  intros HP HC HH Hk Hs.
  destruct (aborted (dt s) || aborted (fb s)) eqn:Hab.
  { unfold Model.fstep in Hs. rewrite Hab in Hs. inversion Hs; subst. rewrite upd_same by assumption. assumption. }
  pose proof HP as [[Hd Hf] Hfr]. pose proof (Hfr k f Hk) as Hfok.
  pose proof (self_frame_ok q_ok s_ok s f s' f' es Hfok Hs) as [Hok' _].
  assert (Hlen : k < length fs) by (apply nth_error_Some; congruence).
  destruct (fstep_dt_nxt q_ok s_ok _ _ _ _ _ Hfok Hs) as [(Hn & Hp & Hh)|(Hpc & Hv & Hc & Hn & Hp & Hh & Hst)].
  - (* no publication *)
    assert (Hcur : cur s' = cur s) by (unfold cur, content; rewrite Hp, Hh; reflexivity).
    assert (Hnsw : fpc f <> MDtSwap).
    { intro E. destruct Hfok as [Hok _]. unfold pc_ok in Hok. rewrite E in Hok. destruct Hok as (_ & Hvd & Hcr).
      apply orb_false_iff in Hab. destruct Hab as [Had Haf].
      unfold Model.fstep in Hs. rewrite Had, Haf, E in Hs. simpl in Hs. rewrite Hvd in Hs. unfold hstep in Hs. rewrite Had, Hcr in Hs.
      inversion Hs; subst. simpl in Hn. lia. }
    constructor.
    + intros p Hlt. unfold content. rewrite Hh in *. apply (h_wf _ _ HH p Hlt).
    + intros j g Hj Hw Hcase. apply nth_upd_cases in Hj. destruct Hj as [(-> & _ & ->)|[Hne Hj]].
      * rewrite Hcur. apply (self_hold s fs k f s' f' es HP HH Hk Hs Hnsw Hcur Hw). exact Hcase.
      * destruct (other_holder_stable s fs k f s' f' es j g HP Hk Hs Hne Hj Hw) as (Hcr & _ & _).
        rewrite Hcur. rewrite Hcr in Hcase. exact (h_pre _ _ HH j g Hj Hw Hcase).
    + intros j g Hj Hpi. apply nth_upd_cases in Hj. destruct Hj as [(-> & _ & ->)|[Hne Hj]].
      * assert (Hw : vdt f' = WIn).
        { unfold pc_ok in Hok'. destruct (fpc f'); try discriminate; tauto. }
        apply (self_hold s fs k f s' f' es HP HH Hk Hs Hnsw Hcur Hw). exact Hpi.
      * exact (h_kind _ _ HH j g Hj Hpi).
    + intros j g Hj Hw Hcase. apply nth_upd_cases in Hj. destruct Hj as [(-> & _ & ->)|[Hne Hj]].
      * rewrite Hcur. apply (self_hold s fs k f s' f' es HP HH Hk Hs Hnsw Hcur Hw). exact Hcase.
      * destruct (other_holder_stable s fs k f s' f' es j g HP Hk Hs Hne Hj Hw) as (Hcr & _ & _).
        rewrite Hcur. rewrite Hcr in Hcase. exact (h_post _ _ HH j g Hj Hw Hcase).
  - (* the publishing step *)
    apply orb_false_iff in Hab. destruct Hab as [Had Haf].
    assert (Hf' : f' = set_vdt f WIn MDtBarrier).
    { unfold Model.fstep in Hs. rewrite Had, Haf, Hpc in Hs. simpl in Hs. rewrite Hv in Hs. unfold hstep in Hs. rewrite Had, Hc in Hs.
      inversion Hs; subst. reflexivity. }
    assert (Hcur' : cur s' = local f).
    { unfold cur, content. rewrite Hp, Hh, <- (c_dlen _ _ HC). rewrite app_nth2 by lia. rewrite Nat.sub_diag. reflexivity. }
    assert (Hder : derived (cur s) f) by (apply (h_pre _ _ HH k f Hk Hv); left; rewrite Hpc; reflexivity).
    assert (Hwfc : wf (cur s)).
    { unfold cur. apply (h_wf _ _ HH). rewrite (c_dlen _ _ HC). apply (i_ptr _ _ Hd). }
    assert (Hother : forall j g, j <> k -> nth_error fs j = Some g -> vdt g = WIn -> False).
    { intros j g Hne Hj Hw. apply Hne. eapply (holder_unique (dt s) (map vdt fs)); eauto.
      - rewrite nth_error_map, Hj. simpl. congruence.
      - rewrite nth_error_map, Hk. simpl. congruence. }
    constructor.
    + intros p Hlt. unfold content. rewrite Hh in *. rewrite app_length in Hlt. simpl in Hlt.
      destruct (Nat.eq_dec p (length (dhist s))) as [->|Hne].
      * rewrite app_nth2 by lia. rewrite Nat.sub_diag. simpl. exact (derived_wf _ _ Hwfc Hder Hpc).
      * rewrite app_nth1 by lia. apply (h_wf _ _ HH). lia.
    + intros j g Hj Hw Hcase. apply nth_upd_cases in Hj. destruct Hj as [(-> & _ & ->)|[Hne Hj]].
      * subst f'. simpl in Hcase. destruct Hcase as [Hx|[Hx _]]; discriminate.
      * exfalso. eauto.
    + intros j g Hj Hpi. apply nth_upd_cases in Hj. destruct Hj as [(-> & _ & ->)|[Hne Hj]].
      * subst f'. simpl in Hpi. discriminate.
      * exact (h_kind _ _ HH j g Hj Hpi).
    + intros j g Hj Hw Hcase. apply nth_upd_cases in Hj. destruct Hj as [(-> & _ & ->)|[Hne Hj]]; [|exfalso; eauto].
      subst f'. simpl. split; [exact Hcur'|].
      intros id Hin. unfold derived in Hder. rewrite Hpc in Hder. simpl in Hder.
      destruct (kind f) as [|[sg tag|sg aid|sg]] eqn:Ek; [contradiction| | |]; simpl.
      * destruct Hder as (_ & _ & Hrm & _). rewrite Hrm in Hin. destruct Hin.
      * destruct Hder as (Hnx & Hr). destruct (Z.eqb (res f) 1).
        -- destruct Hr as (Hrm & Hinc & Ha). rewrite Hrm in Hin. destruct Hin as [<-|[]].
           split; [rewrite Ha, Z.eqb_refl; apply remove_act_not_in|]. rewrite Hnx. exact (Hwfc _ _ Hinc).
        -- destruct Hr as [Hrm _]. rewrite Hrm in Hin. destruct Hin.
      * destruct Hder as (Hnx & Hr). destruct (Z.eqb (res f) 1).
        -- destruct Hr as (Hrm & Ha). rewrite Hrm in Hin.
           split; [rewrite Ha, Z.eqb_refl; simpl; tauto|]. rewrite Hnx. exact (Hwfc _ _ Hin).
        -- destruct Hr as [Hrm _]. rewrite Hrm in Hin. destruct Hin.
Qed.

End Holder.

Section HolderRun.
Variable q_ok s_ok : Z -> bool.

Lemma holdinv_init os0 : HoldInv (sh_init os0) [].
Proof.
  constructor.
  - intros p Hp. simpl in Hp. assert (p = 0) by lia. subst. unfold content. simpl. apply wf_init.
  - intros [|k] g H; discriminate.
  - intros [|k] g H; discriminate.
  - intros [|k] g H; discriminate.
Qed.

Definition Inv3 (w : world) : Prop := Inv2 w /\ HoldInv (fst w) (snd w).

Lemma inv3_wstep w l w' es : Inv3 w -> Model.wstep q_ok s_ok w l = (w', es) -> Inv3 w'.
Proof.
  intros [[HP HC] HH] Hs. split; [eapply inv2_wstep; eauto; split; assumption|].
  destruct w as [s fs]. simpl in *. destruct l as [k|kd]; simpl in Hs.
  - destruct (nth_error fs k) as [f|] eqn:Hn.
    + destruct (Model.fstep q_ok s_ok s f) as [[s1 f1] e1] eqn:Hf. inversion Hs; subst. simpl. eapply holdinv_step; eauto.
    + inversion Hs; subst. assumption.
  - inversion Hs; subst. simpl. destruct HH as [A B C D]. constructor; auto.
    + intros j g Hj Hw. apply nth_app_cases in Hj. destruct Hj as [Hj|[_ ->]]; [eauto|destruct kd; discriminate].
    + intros j g Hj Hw. apply nth_app_cases in Hj. destruct Hj as [Hj|[_ ->]]; [eauto|destruct kd; discriminate].
    + intros j g Hj Hw. apply nth_app_cases in Hj. destruct Hj as [Hj|[_ ->]]; [eauto|destruct kd; discriminate].
Qed.

Lemma inv3_run ls : forall w w' es, Inv3 w -> Model.run q_ok s_ok w ls = (w', es) -> Inv3 w'.
Proof.
  induction ls as [|l r IH]; intros w w' es H Hr; simpl in Hr.
  - inversion Hr; subst. assumption.
  - destruct (Model.wstep q_ok s_ok w l) as [w1 e1] eqn:Hw. destruct (Model.run q_ok s_ok w1 r) as [w2 e2] eqn:Hr2.
    inversion Hr; subst. eapply IH; [|eauto]. eapply inv3_wstep; eauto.
Qed.

Lemma inv3_init os0 : Inv3 (sh_init os0, []).
Proof. split; [apply inv2_init|apply holdinv_init]. Qed.

End HolderRun.
