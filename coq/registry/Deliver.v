(** Deliveries in reachable worlds: their steps are handler operations only (no lock, no
    allocation, no release, no yield/spin), and a delivery run on its own - every other
    activity paused wherever it is - finishes within its measure (C03, C01). *)
From Coq Require Import List Arith NArith ZArith Bool Lia.
From SH Require Import base.Pool gen.Extracted_halflock gen.Extracted_registry
  halflock.Model halflock.Safety halflock.Lemmas registry.Model registry.Inv registry.PcInv registry.Events.
Import ListNotations.
Arguments Nat.modulo : simpl never.
Arguments N.ltb : simpl never.
Arguments N.of_nat : simpl never.
Local Open Scope nat_scope.

Lemma pc_eq_done (p : pc) : p = PDone \/ p <> PDone.
Proof. destruct p; auto; right; discriminate. Qed.

Lemma hstep_abort h v o h' v' es :
  hstep h v o = (h', v', es) -> aborted h' = true ->
  aborted h = true \/ exists i, v = RGen i /\ N.ltb MAX_GUARDS (N.of_nat (cget h i)) = true.
Proof.
  intros Hs Ha. unfold hstep in Hs. destruct (aborted h) eqn:Hab; [auto|].
  destruct o, v; try (inversion Hs; subst; simpl in Ha; congruence).
  - destruct (N.ltb MAX_GUARDS (N.of_nat (cget h i))) eqn:El; [right; eauto|].
    inversion Hs; subst. unfold cset in Ha. destruct (Nat.eqb i 0); simpl in Ha; congruence.
  - inversion Hs; subst. unfold cset in Ha. destruct (Nat.eqb i 0); simpl in Ha; congruence.
  - destruct (crit h); inversion Hs; subst; simpl in Ha; congruence.
  - destruct (crit h); inversion Hs; subst; simpl in Ha; congruence.
  - destruct (crit h); inversion Hs; subst; simpl in Ha; congruence.
  - destruct (crit h) eqn:Hc; try (inversion Hs; subst; simpl in Ha; congruence).
    destruct (barrier_step h old st s0 s1 iter) as [h2 e2] eqn:Hb. inversion Hs; subst.
    apply barrier_step_shape in Hb. destruct Hb as (_ & _ & _ & _ & Hb & _). congruence.
  - destruct (crit h); inversion Hs; subst; simpl in Ha; congruence.
Qed.

Lemma counter_le_pool h vs i : HInv h vs -> i < 2 -> cget h i <= length vs.
Proof.
  intros Inv Hi. unfold cget. destruct (Nat.eqb i 0) eqn:E.
  - rewrite <- (i_c0 _ _ Inv). apply cnt_le_length.
  - apply Nat.eqb_neq in E. assert (i = 1) by lia. subst. rewrite <- (i_c1 _ _ Inv). apply cnt_le_length.
Qed.

Section Deliver.
Variable q_ok s_ok : Z -> bool.
Notation fstep := (Model.fstep q_ok s_ok).

Definition live (s : shared) : Prop := aborted (dt s) = false /\ aborted (fb s) = false.

(** With fewer activities than MAX_GUARDS (every activity occupies a stack; the real bound is
    isize::MAX) the abort branch of read() is never taken. *)
Lemma step_stays_live s fs k f s' f' es :
  PInv s fs -> nth_error fs k = Some f -> (N.of_nat (length fs) <= MAX_GUARDS)%N -> live s ->
  fstep s f = (s', f', es) -> live s'.
Proof.
  intros [[Hd Hf] Hfr] Hk Hb [Ld Lf] Hs. split.
  - destruct (aborted (dt s')) eqn:Ha; auto. exfalso.
    destruct (fstep_dt _ _ _ _ _ _ _ Hs) as [[E _]|(o & e & Hh)]; [congruence|].
    destruct (hstep_abort _ _ _ _ _ _ Hh Ha) as [?|(i & Hv & Hlt)]; [congruence|].
    assert (Hi : i < 2).
    { pose proof (i_ok _ _ Hd k (vdt f)) as V. rewrite nth_error_map, Hk in V. specialize (V eq_refl). rewrite Hv in V. exact V. }
    pose proof (counter_le_pool _ _ i Hd Hi) as Hc. rewrite map_length in Hc.
    apply N.ltb_lt in Hlt. lia.
  - destruct (aborted (fb s')) eqn:Ha; auto. exfalso.
    destruct (fstep_fb _ _ _ _ _ _ _ Hs) as [[E _]|(o & e & Hh)]; [congruence|].
    destruct (hstep_abort _ _ _ _ _ _ Hh Ha) as [?|(i & Hv & Hlt)]; [congruence|].
    assert (Hi : i < 2).
    { pose proof (i_ok _ _ Hf k (vfb f)) as V. rewrite nth_error_map, Hk in V. specialize (V eq_refl). rewrite Hv in V. exact V. }
    pose proof (counter_le_pool _ _ i Hf Hi) as Hc. rewrite map_length in Hc.
    apply N.ltb_lt in Hlt. lia.
Qed.

(** Run one frame on its own for [n] steps, every other activity paused. *)
Fixpoint solo (n : nat) (s : shared) (f : frame) : shared * frame * list hev :=
  match n with
  | O => (s, f, [])
  | S m => let '(s1, f1, e1) := fstep s f in let '(s2, f2, e2) := solo m s1 f1 in (s2, f2, e1 ++ e2)
  end.

Lemma forallb_app {A} (P : A -> bool) l1 l2 : forallb P l1 = true -> forallb P l2 = true -> forallb P (l1 ++ l2) = true.
Proof. intros. rewrite forallb_app. rewrite H, H0. reflexivity. Qed.

Lemma delivery_completes_aux n : forall s fs k f sg,
  PInv s fs -> nth_error fs k = Some f -> kind f = KDeliver sg ->
  (N.of_nat (length fs) <= MAX_GUARDS)%N -> live s -> rmeasure s f <= n ->
  let '(s', f', es) := solo n s f in
  fpc f' = PDone /\ forallb handler_op es = true /\ PInv s' (upd fs k f') /\ live s'.
Proof.
  induction n as [|n IH]; intros s fs k f sg HP Hk Hkind Hb Hl Hm.
  - simpl. assert (Hr : reader_pc (fpc f) = true).
    { destruct HP as [_ Hfr]. destruct (Hfr k f Hk) as [_ Ko]. unfold kind_ok in Ko. rewrite Hkind in Ko. exact Ko. }
    unfold rmeasure in Hm. rewrite upd_same by assumption.
    destruct (fpc f); try discriminate; try lia; auto.
  - simpl. destruct (fstep s f) as [[s1 f1] e1] eqn:Hs.
    assert (Hr : reader_pc (fpc f) = true).
    { destruct HP as [_ Hfr]. destruct (Hfr k f Hk) as [_ Ko]. unfold kind_ok in Ko. rewrite Hkind in Ko. exact Ko. }
    pose proof (pinv_step q_ok s_ok s fs k f s1 f1 e1 HP Hk Hs) as HP1.
    pose proof (step_stays_live s fs k f s1 f1 e1 HP Hk Hb Hl Hs) as Hl1.
    pose proof (reader_step_events q_ok s_ok s f s1 f1 e1 Hr Hs) as He1.
    pose proof (kind_preserved q_ok s_ok s f s1 f1 e1 Hs) as Hk1.
    assert (Hk1' : nth_error (upd fs k f1) k = Some f1).
    { apply nth_upd_eq. apply nth_error_Some. congruence. }
    assert (Hm1 : rmeasure s1 f1 <= n).
    { destruct (pc_eq_done (fpc f)) as [Hd|Hnd].
      - unfold Model.fstep in Hs. destruct (aborted (dt s) || aborted (fb s)); rewrite ?Hd in Hs; inversion Hs; subst;
          unfold rmeasure; rewrite Hd; lia.
      - destruct Hl as [La Lb]. destruct (reader_progress q_ok s_ok s f s1 f1 e1 Hr Hnd La Lb Hs) as [_ Hlt]. lia. }
    specialize (IH s1 (upd fs k f1) k f1 sg HP1 Hk1' (eq_trans Hk1 Hkind)).
    rewrite upd_length in IH. specialize (IH Hb Hl1 Hm1).
    destruct (solo n s1 f1) as [[s2 f2] e2]. destruct IH as (A & B & C & D).
    rewrite upd_upd in C.
    split; [exact A|]. split; [apply forallb_app; assumption|]. split; [exact C|exact D].
Qed.

(** In every reachable world, whatever a delivery does in a step is a handler operation: a
    load, fetch_add, fetch_sub, the call of the previous handler or of an action.  In
    particular it never locks, unlocks, swaps in a fresh allocation, releases (op 11), yields,
    spins, calls sigaction or panics. *)
Theorem delivery_steps_are_handler_ops os0 ls s fs es :
  Model.run q_ok s_ok (sh_init os0, []) ls = ((s, fs), es) ->
  forall k f sg s' f' es', nth_error fs k = Some f -> kind f = KDeliver sg ->
    fstep s f = (s', f', es') ->
    forallb handler_op es' = true /\ forallb (fun e => negb (forbidden_in_handler e)) es' = true.
Proof.
  intros Hr k f sg s' f' es' Hk Hkind Hs.
  pose proof (pinv_run q_ok s_ok ls (sh_init os0, []) (s, fs) es (pinv_init os0) Hr) as [_ Hfr]. simpl in Hfr.
  destruct (Hfr k f Hk) as [_ Ko]. unfold kind_ok in Ko. rewrite Hkind in Ko.
  pose proof (reader_step_events q_ok s_ok s f s' f' es' Ko Hs) as H. split; [exact H|].
  rewrite forallb_forall in *. intros e He. rewrite (handler_op_not_forbidden e (H e He)). reflexivity.
Qed.

(** From every reachable world (so: with every other activity - including a mutator on the
    same thread - paused at any instruction boundary) a delivery run on its own completes within
    [rmeasure] of its own steps, all of them handler operations.  The guard on the pool size
    excludes the MAX_GUARDS abort of read(). *)
Theorem delivery_completes os0 ls s fs es :
  Model.run q_ok s_ok (sh_init os0, []) ls = ((s, fs), es) ->
  forall k f sg, nth_error fs k = Some f -> kind f = KDeliver sg ->
    (N.of_nat (length fs) <= MAX_GUARDS)%N -> live s ->
    let '(s', f', es') := solo (rmeasure s f) s f in
    fpc f' = PDone /\ forallb handler_op es' = true.
Proof.
  intros Hr k f sg Hk Hkind Hb Hl.
  pose proof (pinv_run q_ok s_ok ls (sh_init os0, []) (s, fs) es (pinv_init os0) Hr) as HP. simpl in HP.
  pose proof (delivery_completes_aux (rmeasure s f) s fs k f sg HP Hk Hkind Hb Hl (le_n _)) as H.
  destruct (solo (rmeasure s f) s f) as [[s' f'] es']. tauto.
Qed.

(** The measure is at most 12 plus the longest action list of any published snapshot. *)
Lemma rmeasure_bound s f : rmeasure s f <= 12 + Nat.max (hist_len s) (match fpc f with PPrev _ a | PRun a => length a | _ => 0 end).
Proof. unfold rmeasure. destruct (fpc f); lia. Qed.

End Deliver.
