(** What a delivery (dispatcher invocation) does, step by step: only loads, fetch_add,
    fetch_sub and calls of the previous handler / the actions; never a lock, an allocation, a
    release, a yield or a spin; every step is enabled and strictly decreases a measure, so a
    delivery completes within a bounded number of its own steps wherever every other activity
    is paused (C03); releases are performed by mutator frames only (C01). *)
From Coq Require Import List Arith NArith ZArith Bool Lia.
From SH Require Import base.Pool gen.Extracted_halflock gen.Extracted_registry
  halflock.Model halflock.Safety halflock.Lemmas registry.Model registry.Inv registry.PcInv.
Import ListNotations.
Open Scope Z_scope.
Arguments Nat.modulo : simpl never.
Arguments N.ltb : simpl never.
Arguments N.of_nat : simpl never.

(** operation codes: 0 load, 3 fetch_add, 4 fetch_sub, 20 start, 21 call of the previous
    handler, 22 run of an action, 99 the MAX_GUARDS abort. *)
Definition handler_op (e : hev) : bool :=
  ((e_op e =? 0) || (e_op e =? 3) || (e_op e =? 4) || (e_op e =? 20) || (e_op e =? 21) || (e_op e =? 22) || (e_op e =? 99))
  && (e_ok e =? 1).

(** 2 swap (publishes a fresh allocation), 6 lock, 7 unlock, 8 yield, 9 spin, 11 free,
    12 sigaction, 98 panic *)
Definition forbidden_in_handler (e : hev) : bool :=
  (e_op e =? 2) || (e_op e =? 6) || (e_op e =? 7) || (e_op e =? 8) || (e_op e =? 9) || (e_op e =? 11) || (e_op e =? 12) || (e_op e =? 98).

Lemma handler_op_not_forbidden e : handler_op e = true -> forbidden_in_handler e = false.
Proof.
  unfold handler_op, forbidden_in_handler. intro H. apply andb_true_iff in H. destruct H as [H _].
  repeat (apply orb_true_iff in H; destruct H as [H|H]); apply Z.eqb_eq in H; rewrite H; reflexivity.
Qed.

Lemma shift_op off e : e_op (shift off e) = e_op e /\ e_ok (shift off e) = e_ok e.
Proof. unfold shift. destruct (e_loc e =? 0); simpl; auto. Qed.

Lemma reader_hstep_events h v o h' v' es :
  (o = OLoadGen \/ o = OInc \/ o = OLoadPtr \/ o = ODec) ->
  hstep h v o = (h', v', es) -> forallb handler_op es = true.
Proof.
  intros Ho Hs. unfold hstep in Hs. destruct (aborted h); [inversion Hs; reflexivity|].
  destruct Ho as [->|[->|[->| ->]]]; destruct v; inversion Hs; subst; try reflexivity.
  destruct (N.ltb _ _); inversion H0; subst; unfold slot_loc; destruct (Nat.eqb i 0); reflexivity.
Qed.

Lemma forallb_shift off es : forallb handler_op es = true -> forallb handler_op (map (shift off) es) = true.
Proof.
  induction es as [|e r IH]; simpl; auto. intro H. apply andb_true_iff in H. destruct H as [H1 H2].
  rewrite IH by assumption. unfold handler_op in *. destruct (shift_op off e) as [-> ->]. rewrite H1. reflexivity.
Qed.

Section Ev.
Variable q_ok s_ok : Z -> bool.
Notation fstep := (Model.fstep q_ok s_ok).

(** Every event of a step of a frame that is at a dispatcher program counter is a handler
    operation. *)
Lemma reader_step_events s f s' f' es :
  reader_pc (fpc f) = true -> fstep s f = (s', f', es) -> forallb handler_op es = true.
Proof.
  intros Hr Hs. unfold Model.fstep in Hs. destruct (aborted (dt s) || aborted (fb s)); [inversion Hs; reflexivity|].
  destruct (fpc f); try discriminate;
  try (match type of Hs with context [hstep ?a ?b ?c] =>
         let E := fresh "E" in destruct (hstep a b c) as [[h v] e] eqn:E;
         apply reader_hstep_events in E; [|tauto]; inversion Hs; subst; try apply forallb_shift; assumption end).
  - destruct (os_get s _); inversion Hs; subst; reflexivity.
  - inversion Hs; subst; reflexivity.
  - inversion Hs; subst; reflexivity.
  - destruct acts; inversion Hs; subst; reflexivity.
  - inversion Hs; subst; reflexivity.
Qed.

Ltac hs :=
  match goal with
  | |- context [hstep ?a ?b ?c] => let E := fresh "E" in destruct (hstep a b c) as [[? ?] ?] eqn:E
  end.

Ltac split_conds :=
  repeat match goal with
  | |- context [match os_get ?s ?x with _ => _ end] => destruct (os_get s x)
  | |- context [if q_ok ?x then _ else _] => destruct (q_ok x)
  | |- context [if s_ok ?x then _ else _] => destruct (s_ok x)
  | |- context [if existsb ?a ?b then _ else _] => destruct (existsb a b)
  | |- context [match kind ?f with _ => _ end] => destruct (kind f) as [|[]] eqn:?
  | |- (match ?l with [] => _ | _ => _ end) = _ -> _ => destruct l
  end.

Lemma kind_preserved s f s' f' es : fstep s f = (s', f', es) -> kind f' = kind f.
Proof.
  unfold Model.fstep. destruct (aborted (dt s) || aborted (fb s)); [inversion 1; auto|].
  destruct (fpc f); try hs; split_conds;
    (let H := fresh in intro H; inversion H; subst; simpl; try apply load_update_views; congruence).
Qed.

(** * Progress measure of a delivery *)

(** longest action list of any slot of any snapshot ever published *)
Definition slot_len (sl : Z * slot) : nat := length (s_acts (snd sl)).
Definition sd_len (d : sigdata) : nat := fold_right Nat.max 0%nat (map slot_len (slots d)).
Definition hist_len (s : shared) : nat := fold_right Nat.max 0%nat (map sd_len (dhist s)).

Definition rmeasure (s : shared) (f : frame) : nat :=
  let M := hist_len s in
  match fpc f with
  | PStart => 12 + M | PForeign _ => 1
  | PFbGen => 11 + M | PFbInc => 10 + M | PFbPtr => 9 + M | PDtGen => 8 + M | PDtInc => 7 + M | PDtPtr => 6 + M
  | PPrev _ a => 4 + length a | PRun a => 3 + length a | PDtDec => 2 | PFbDec => 1
  | _ => 0
  end%nat.

Lemma lookup_in {A} sg (l : list (Z * A)) v : lookup sg l = Some v -> exists k, In (k, v) l.
Proof.
  induction l as [|[k w] t IH]; simpl; [discriminate|]. destruct (k =? sg).
  - inversion 1; subst. eauto.
  - intro H. destruct (IH H) as [k' Hk]. eauto.
Qed.

Lemma max_in (l : list nat) x : In x l -> (x <= fold_right Nat.max 0 l)%nat.
Proof. induction l as [|h t IH]; simpl; [tauto|]. intros [->|H]; [lia|specialize (IH H); lia]. Qed.

Lemma nth_hist_len s p sg sl :
  lookup sg (slots (nth p (dhist s) sd_init)) = Some sl -> (length (s_acts sl) <= hist_len s)%nat.
Proof.
  intro H. destruct (lt_dec p (length (dhist s))) as [Hlt|Hge].
  - apply lookup_in in H. destruct H as [k Hin].
    assert (length (s_acts sl) <= sd_len (nth p (dhist s) sd_init))%nat.
    { unfold sd_len. apply max_in. apply in_map_iff. exists (k, sl). split; [reflexivity|assumption]. }
    assert (sd_len (nth p (dhist s) sd_init) <= hist_len s)%nat.
    { unfold hist_len. apply max_in. apply in_map. apply nth_In. assumption. }
    lia.
  - rewrite nth_overflow in H by lia. simpl in H. discriminate.
Qed.

Lemma after_runs_measure a : (match after_runs a with PRun l => 3 + length l | PDtDec => 2 | _ => 0 end <= 3 + length a)%nat.
Proof. destruct a; simpl; lia. Qed.

Lemma dispatch_next_measure s sg p fc :
  (match dispatch_next sg (nth p (dhist s) sd_init) fc with
   | PPrev _ a => 4 + length a | PRun a => 3 + length a | PDtDec => 2 | _ => 0 end <= 4 + hist_len s)%nat.
Proof.
  unfold dispatch_next. destruct (lookup sg (slots (nth p (dhist s) sd_init))) as [sl|] eqn:El.
  - apply nth_hist_len in El. destruct (is_foreign (s_prev sl)); [lia|].
    pose proof (after_runs_measure (s_acts sl)) as Hm. destruct (after_runs_cases (s_acts sl)) as [E|[l E]]; rewrite E in *; simpl in *; lia.
  - destruct fc as [[ps d]|]; [|lia]. destruct (ps =? sg); [|lia]. destruct (is_foreign d); simpl; lia.
Qed.

(** A delivery step strictly decreases the measure (so it is never blocked and never waits),
    without changing what the measure depends on. *)
Lemma reader_progress s f s' f' es :
  reader_pc (fpc f) = true -> fpc f <> PDone ->
  aborted (dt s) = false -> aborted (fb s) = false ->
  fstep s f = (s', f', es) ->
  dhist s' = dhist s /\ (rmeasure s' f' < rmeasure s f)%nat.
Proof.
  intros Hr Hnd Had Haf Hs. unfold Model.fstep in Hs. rewrite Had, Haf in Hs. simpl in Hs.
  unfold rmeasure.
  destruct (fpc f) eqn:Hpc; try discriminate; try congruence;
  try (match type of Hs with context [hstep ?a ?b ?c] =>
         let E := fresh "E" in destruct (hstep a b c) as [[h v] e] eqn:E end);
  try (inversion Hs; subst; unfold hist_len; simpl; split; [reflexivity|lia]).
  - destruct (os_get s _); inversion Hs; subst; simpl; split; auto; lia.
  - inversion Hs; subst; unfold hist_len; simpl. split; [reflexivity|].
    pose proof (dispatch_next_measure s (sig_of (kind f)) (held_ptr v) (nth (held_ptr (vfb f)) (fhist s) None)) as D.
    unfold hist_len in D.
    match type of D with context [dispatch_next ?a ?b ?c] => destruct (dispatch_next_cases a b c) as [E2|[[l E2]|[si [l E2]]]]; rewrite E2 in * end; simpl in *; lia.
  - inversion Hs; subst; simpl. split; [reflexivity|].
    pose proof (after_runs_measure acts) as Hm. destruct (after_runs_cases acts) as [E2|[l E2]]; rewrite E2 in *; simpl in *; lia.
  - destruct acts as [|a r]; inversion Hs; subst; simpl; split; auto; try lia.
    pose proof (after_runs_measure r) as Hm. destruct (after_runs_cases r) as [E2|[l E2]]; rewrite E2 in *; simpl in *; lia.
Qed.

End Ev.
