(** Quiescence of removal (C01): once the call that removed an action has released the old
    snapshot - and in particular once it has returned - no delivery has that action pending,
    in this world or in any later one, and no published state contains it again. *)
From Coq Require Import List Arith NArith ZArith Bool Lia.
From SH Require Import base.Pool gen.Extracted_halflock gen.Extracted_registry
  halflock.Model halflock.Safety halflock.Lemmas registry.Model registry.Tactics registry.Inv registry.PcInv registry.Events
  registry.Content registry.Holder.
Import ListNotations.
Arguments Nat.modulo : simpl never.
Arguments N.ltb : simpl never.
Arguments N.of_nat : simpl never.
Local Open Scope nat_scope.

(** The removal of action [id] of signal [sg] is complete: some unregister / unregister_signal
    call that removed it has released the old snapshot (it is about to unlock) or returned. *)
Definition gone (s : shared) (fs : list frame) (sg : Z) (id : N) : Prop :=
  exists k g, nth_error fs k = Some g /\ In id (removed g) /\ sig_of (kind g) = sg /\
    (fpc g = PDone \/ (fpc g = MDtUnlock /\ vdt g = WIn /\ crit (dt s) = CStored)).

Definition rm_ok (s : shared) (g : frame) : Prop :=
  removed g <> [] ->
  fpc g = PDone \/ (vdt g = WIn /\ (fpc g = MDtSwap \/ fpc g = MDtBarrier \/ (fpc g = MDtUnlock /\ crit (dt s) = CStored))).

Record QInv (s : shared) (fs : list frame) : Prop := {
  q_rm : forall k g, nth_error fs k = Some g -> rm_ok s g;
  q_cur : forall sg id, gone s fs sg id -> ~ In id (map fst (slot_acts (cur s) sg)) /\ (id < next_id (cur s))%N;
  q_old : forall sg id, gone s fs sg id -> forall old st a b it, crit (dt s) = CSwapped old st a b it ->
            ~ In id (map fst (slot_acts (content s old) sg));
  q_pend : forall sg id, gone s fs sg id -> forall j g, nth_error fs j = Some g -> sig_of (kind g) = sg ->
            ~ In id (map fst (pending g))
}.

Lemma barrier_free h old st a b it h' es :
  barrier_step h old st a b it = (h', es) -> crit h' = CStored -> st = SFree.
Proof. unfold barrier_step. destruct st; intro H; inversion H; subst; simpl; intro; try discriminate; reflexivity. Qed.

Section Quiesce.
Variable q_ok s_ok : Z -> bool.
Notation fstep := (Model.fstep q_ok s_ok).

(** [removed] is written only when the write guard is loaded. *)
Lemma removed_preserved s f s' f' es :
  fstep s f = (s', f', es) -> fpc f <> MDtLoad -> removed f' = removed f /\ kind f' = kind f.
Proof.
  unfold Model.fstep. destruct (aborted (dt s) || aborted (fb s)); [inversion 1; auto|].
  destruct (fpc f) eqn:Hpc; try congruence; try hs; split_conds;
    (let H := fresh in intro H; inversion H; subst; simpl; auto).
Qed.

Lemma load_update_rm f v c :
  kind_ok f -> fpc f = MDtLoad ->
  let g := load_update f v c in
  removed g = [] \/ fpc g = MDtSwap.
Proof.
  unfold kind_ok, load_update. intros Hk Hpc. destruct (kind f) as [sg0|m]; [rewrite Hpc in Hk; discriminate|].
  destruct m as [sg tag|sg aid|sg]; destruct (lookup sg (slots c)) as [sl|]; simpl; auto.
  - destruct (has_act aid (s_acts sl)); simpl; auto.
  - destruct (s_acts sl); simpl; auto.
Qed.

(** The stepping frame keeps [rm_ok]. *)
Lemma self_rm_ok s f s' f' es :
  frame_ok s f -> rm_ok s f -> fstep s f = (s', f', es) -> rm_ok s' f'.
Proof.
  intros Hfok Hrm Hs.
  pose proof (self_frame_ok q_ok s_ok s f s' f' es Hfok Hs) as [Hok' _].
  destruct Hfok as [Hok Hkok]. unfold rm_ok in *.
  unfold Model.fstep in Hs.
  destruct (aborted (dt s) || aborted (fb s)) eqn:Hab; [inversion Hs; subst; exact Hrm|].
  apply orb_false_iff in Hab. destruct Hab as [Had Haf].
  destruct (pc_eq_dec_load (fpc f)) as [Hl|Hnl].
  - (* MDtLoad *)
    rewrite Hl in Hs. hsin Hs. inversion Hs; subst; clear Hs. intro Hne.
    destruct (load_update_rm f v (nth (ptr (dt s)) (dhist s) sd_init) Hkok Hl) as [E2|E2]; [congruence|].
    right. unfold pc_ok in Hok'. rewrite E2 in Hok'. simpl in *. split; [tauto|auto].
  - assert (Hp : removed f' = removed f /\ kind f' = kind f).
    { apply (removed_preserved s f s' f' es); [|exact Hnl]. unfold Model.fstep. rewrite Had, Haf. exact Hs. }
    destruct Hp as [Hp _]. rewrite Hp. intro Hne. specialize (Hrm Hne).
    unfold pc_ok in Hok, Hok'.
    destruct Hrm as [Hd|(Hw & [Hsw|[Hb|(Hu & Hc)]])].
    + rewrite Hd in Hs. inversion Hs; subst. left. assumption.
    + rewrite Hsw in *. hsin Hs. destruct Hok as (_ & Hvd & Hcr). rewrite Hvd in E. unfold hstep in E. rewrite Had, Hcr in E.
      inversion E; subst. inversion Hs; subst. right. simpl. auto.
    + rewrite Hb in *. hsin Hs. destruct Hok as (_ & Hvd & Hst). rewrite Hvd in E. unfold hstep in E. rewrite Had in E.
      unfold in_store in Hst. destruct (crit (dt s)) as [| | |old st a b it|] eqn:Hcr; try discriminate.
      destruct (barrier_step (dt s) old st a b it) as [h2 e2] eqn:Hbs. inversion E; subst. inversion Hs; subst. simpl.
      right. split; [reflexivity|]. apply barrier_step_shape in Hbs. destruct Hbs as (_ & _ & _ & _ & _ & [E2|(st' & t0 & t1 & it' & E2)]).
      * unfold in_store. rewrite E2. right. right. auto.
      * unfold in_store. rewrite E2. right. left. reflexivity.
    + rewrite Hu in *. hsin Hs. rewrite Hw in E. unfold hstep in E. rewrite Had, Hc in E. inversion E; subst. inversion Hs; subst.
      left. reflexivity.
Qed.

(** A removal that is complete after the step was complete before it, unless the step is the
    release of the old snapshot by the removing call itself. *)
Lemma gone_back s fs k f s' f' es sg id :
  Inv3 (s, fs) -> QInv s fs -> nth_error fs k = Some f -> fstep s f = (s', f', es) ->
  gone s' (upd fs k f') sg id ->
  gone s fs sg id \/
  (fpc f = MDtBarrier /\ vdt f = WIn /\ In id (removed f) /\ sig_of (kind f) = sg /\ crit (dt s') = CStored /\
   (exists old a b it, crit (dt s) = CSwapped old SFree a b it) /\ ptr (dt s') = ptr (dt s) /\ dhist s' = dhist s).
Proof.
  intros [[HP HC] HH] HQ Hk Hs (j & g & Hj & Hin & Hsg & Hcase). simpl in HP, HC, HH.
  pose proof HP as [[Hd Hf] Hfr]. pose proof (Hfr k f Hk) as Hfok.
  apply nth_upd_cases in Hj. destruct Hj as [(-> & _ & ->)|[Hne Hj]].
  - (* the stepping frame is the witness *)
    destruct (aborted (dt s) || aborted (fb s)) eqn:Hab.
    { unfold Model.fstep in Hs. rewrite Hab in Hs. inversion Hs; subst. left. exists k, f'. auto. }
    apply orb_false_iff in Hab. destruct Hab as [Had Haf].
    destruct (pc_eq_dec_load (fpc f)) as [Hl|Hnl].
    + exfalso. unfold Model.fstep in Hs. rewrite Had, Haf, Hl in Hs. simpl in Hs. hsin Hs. inversion Hs; subst; clear Hs.
      destruct Hfok as [_ Hkok].
      destruct (load_update_rm f v (nth (ptr (dt s)) (dhist s) sd_init) Hkok Hl) as [E2|E2].
      * rewrite E2 in Hin. destruct Hin.
      * rewrite E2 in Hcase. destruct Hcase as [Hx|[Hx _]]; discriminate.
    + destruct (removed_preserved s f s' f' es Hs Hnl) as [Hrm Hkd]. rewrite Hrm in Hin. rewrite Hkd in Hsg.
      assert (Hne : removed f <> []) by (intro E; rewrite E in Hin; destruct Hin).
      destruct (q_rm _ _ HQ k f Hk Hne) as [Hdn|(Hw & [Hsw|[Hb|(Hu & Hc)]])].
      * left. exists k, f. auto.
      * exfalso. destruct Hfok as [Hok _]. unfold pc_ok in Hok. rewrite Hsw in Hok. destruct Hok as (_ & _ & Hcr).
        unfold Model.fstep in Hs. rewrite Had, Haf, Hsw in Hs. simpl in Hs. rewrite Hw in Hs. unfold hstep in Hs. rewrite Had, Hcr in Hs.
        inversion Hs; subst. simpl in Hcase. destruct Hcase as [Hx|[Hx _]]; discriminate.
      * destruct Hfok as [Hok _]. unfold pc_ok in Hok. rewrite Hb in Hok. destruct Hok as (_ & _ & Hst).
        unfold Model.fstep in Hs. rewrite Had, Haf, Hb in Hs. simpl in Hs. rewrite Hw in Hs. unfold hstep in Hs. rewrite Had in Hs.
        unfold in_store in Hst. destruct (crit (dt s)) as [| | |old st a b it|] eqn:Hcr; try discriminate.
        destruct (barrier_step (dt s) old st a b it) as [h2 e2] eqn:Hbs. inversion Hs; subst; clear Hs. simpl in *.
        destruct Hcase as [Hx|(Hx & _ & Hcs)]; [destruct (in_store h2); discriminate|].
        right. pose proof (barrier_free _ _ _ _ _ _ _ _ Hbs Hcs) as ->.
        apply barrier_step_shape in Hbs. destruct Hbs as (Hp & _).
        repeat split; auto. eauto.
      * left. exists k, f. split; [assumption|]. split; [assumption|]. split; [assumption|]. right. auto.
  - (* another frame is the witness *)
    left. exists j, g. split; [assumption|]. split; [assumption|]. split; [assumption|].
    destruct Hcase as [Hx|(Hx & Hw & Hc)]; [left; assumption|]. right.
    destruct (other_holder_stable q_ok s_ok s fs k f s' f' es j g HP Hk Hs Hne Hj Hw) as (Hcr & _ & _).
    rewrite <- Hcr. auto.
Qed.

(** What a step does to the list of actions the frame still has to run. *)
Lemma pending_step s f s' f' es :
  frame_ok s f -> fstep s f = (s', f', es) ->
  incl (pending f') (pending f) \/ (fpc f = PDtPtr /\ pending f' = slot_acts (cur s) (sig_of (kind f))).
Proof.
  intros [Hok Hkok] Hs. unfold Model.fstep in Hs.
  destruct (aborted (dt s) || aborted (fb s)) eqn:Hab; [inversion Hs; subst; left; apply incl_refl|].
  apply orb_false_iff in Hab. destruct Hab as [Had Haf].
  unfold pc_ok in Hok.
  destruct (fpc f) eqn:Hpc;
    try (left; try hsin Hs; split_conds_in Hs; inversion Hs; subst; unfold pending; simpl; rewrite ?Hpc;
         try (match goal with |- context [match ?vv with WIn => _ | _ => _ end] => destruct vv end);
         try (match goal with |- context [in_store ?h] => destruct (in_store h) end);
         simpl; try apply incl_refl; try (intros x Hx; destruct Hx); fail).
  - (* PDtPtr *)
    right. split; [reflexivity|]. destruct Hok as [_ [i Hv]]. rewrite Hv in Hs. unfold hstep in Hs. rewrite Had in Hs. inversion Hs; subst.
    unfold pending. simpl. apply dispatch_next_pending.
  - (* PPrev *)
    left. inversion Hs; subst. unfold pending. simpl. rewrite Hpc. rewrite after_runs_pending. apply incl_refl.
  - (* PRun *)
    left. destruct acts as [|a r]; inversion Hs; subst; unfold pending; simpl; rewrite Hpc.
    + apply incl_refl.
    + rewrite after_runs_pending. apply incl_tl. apply incl_refl.
  - (* MDtLoad *)
    left. hsin Hs. inversion Hs; subst.
    destruct (load_update_ok f v (nth (ptr (dt s)) (dhist s) sd_init) Hkok Hpc) as [_ [E2|[E2|E2]]];
      unfold pending; rewrite E2; intros x Hx; destruct Hx.
Qed.

Lemma derived_keeps_gone c g sg id :
  derived c g -> fpc g = MDtSwap ->
  ~ In id (map fst (slot_acts c sg)) -> (id < next_id c)%N ->
  ~ In id (map fst (slot_acts (local g) sg)) /\ (id < next_id (local g))%N.
Proof.
  unfold derived. intros Hd Hpc Hni Hlt. rewrite Hpc in Hd. simpl in Hd.
  destruct (kind g) as [|[sg0 tag|sg0 aid|sg0]]; [contradiction| | |].
  - destruct Hd as (Hl & Hn & _ & Ha). rewrite Hn, Ha. split; [|lia].
    destruct (Z.eqb sg sg0) eqn:E; [|assumption]. apply Z.eqb_eq in E. subst sg0.
    intro Hin. apply insert_act_in in Hin. destruct Hin as [->|Hin]; [rewrite Hl in Hlt; lia|contradiction].
  - destruct Hd as (Hn & Hr). rewrite Hn. split; [|assumption]. destruct (Z.eqb (res g) 1).
    + destruct Hr as (_ & _ & Ha). rewrite Ha. destruct (Z.eqb sg sg0) eqn:E; [|assumption].
      apply Z.eqb_eq in E. subst sg0. intro Hin. apply remove_act_subset in Hin. contradiction.
    + destruct Hr as [_ ->]. assumption.
  - destruct Hd as (Hn & Hr). rewrite Hn. split; [|assumption]. destruct (Z.eqb (res g) 1).
    + destruct Hr as (_ & Ha). rewrite Ha. destruct (Z.eqb sg sg0); [simpl; tauto|assumption].
    + destruct Hr as [_ ->]. assumption.
Qed.

Lemma qinv_step s fs k f s' f' es :
  Inv3 (s, fs) -> QInv s fs -> nth_error fs k = Some f -> fstep s f = (s', f', es) -> QInv s' (upd fs k f').
Proof.
  intros HI HQ Hk Hs. pose proof HI as [[HP HC] HH]. simpl in HP, HC, HH.
  pose proof HP as [[Hd Hf] Hfr]. pose proof (Hfr k f Hk) as Hfok.
  assert (Hpub : (nxt (dt s') = nxt (dt s) /\ ptr (dt s') = ptr (dt s) /\ dhist s' = dhist s) \/
                 (fpc f = MDtSwap /\ vdt f = WIn /\ crit (dt s) = CLoaded /\ nxt (dt s') = S (nxt (dt s)) /\ ptr (dt s') = nxt (dt s)
                  /\ dhist s' = dhist s ++ [local f] /\ in_store (dt s') = true))
    by (apply (fstep_dt_nxt q_ok s_ok _ _ _ _ _ Hfok Hs)).
  (* contents of already published epochs do not change *)
  assert (Hcont : forall p, p < length (dhist s) -> content s' p = content s p).
  { intros p Hp. unfold content. destruct Hpub as [(_ & _ & ->)|(_ & _ & _ & _ & _ & -> & _)]; [reflexivity|apply app_nth1; assumption]. }
  assert (Hptr_lt : ptr (dt s) < length (dhist s)) by (rewrite (c_dlen _ _ HC); apply (i_ptr _ _ Hd)).
  (* the current state after the step, for a removal that was complete before *)
  assert (Hcur_gone : forall sg id, gone s fs sg id ->
            ~ In id (map fst (slot_acts (cur s') sg)) /\ (id < next_id (cur s'))%N).
  { intros sg id G. destruct (q_cur _ _ HQ sg id G) as [Q1 Q1'].
    destruct Hpub as [(_ & Hp & Hh)|(Hpc & Hv & _ & _ & Hp & Hh & _)].
    - unfold cur, content. rewrite Hp, Hh. split; assumption.
    - assert (Hc' : cur s' = local f).
      { unfold cur, content. rewrite Hp, Hh, <- (c_dlen _ _ HC). rewrite app_nth2 by lia. rewrite Nat.sub_diag. reflexivity. }
      rewrite Hc'. apply (derived_keeps_gone (cur s) f sg id); auto.
      apply (h_pre _ _ HH k f Hk Hv). left. rewrite Hpc. reflexivity. }
  constructor.
  - (* q_rm *)
    intros j g Hj. apply nth_upd_cases in Hj. destruct Hj as [(-> & _ & ->)|[Hne Hj]].
    + apply (self_rm_ok s f s' f' es Hfok (q_rm _ _ HQ k f Hk) Hs).
    + pose proof (q_rm _ _ HQ j g Hj) as Hr. unfold rm_ok in *. intro Hne2. destruct (Hr Hne2) as [Hx|(Hw & Hx)]; [left; assumption|].
      right. split; [assumption|].
      destruct (other_holder_stable q_ok s_ok s fs k f s' f' es j g HP Hk Hs Hne Hj Hw) as (Hcr & _ & _). rewrite Hcr. exact Hx.
  - (* q_cur *)
    intros sg id G'. destruct (gone_back s fs k f s' f' es sg id HI HQ Hk Hs G') as [G|(Hb & Hw & Hin & Hsg & Hcs & _ & Hp & Hh)].
    + apply Hcur_gone. assumption.
    + destruct (h_post _ _ HH k f Hk Hw (or_introl Hb)) as [Hc Hcl].
      assert (Hc' : cur s' = cur s) by (unfold cur, content; rewrite Hp, Hh; reflexivity).
      rewrite Hc', Hc. rewrite <- Hsg. apply Hcl. assumption.
  - (* q_old *)
    intros sg id G' old st a b it Hcr'.
    destruct (gone_back s fs k f s' f' es sg id HI HQ Hk Hs G') as [G|(_ & _ & _ & _ & Hcs & _)]; [|congruence].
    assert (Hold : (exists st' a' b' it', crit (dt s) = CSwapped old st' a' b' it') \/ (fpc f = MDtSwap /\ old = ptr (dt s))).
    { destruct (fstep_dt _ _ _ _ _ _ _ Hs) as [[E _]|(o & e & Hh)].
      - rewrite E in Hcr'. left. eauto.
      - destruct (hstep_old _ _ _ _ _ _ _ _ _ _ _ Hh Hcr') as [?|(Hv & Ho & Hc & Hop)]; [left; assumption|].
        right. split; [|assumption].
        destruct Hpub as [(Hn & _)|(Hpc & _)]; [|assumption].
        exfalso. subst o. rewrite Hv in Hh. unfold hstep in Hh.
        destruct (aborted (dt s)).
        + injection Hh as E1 _ _. rewrite <- E1 in Hcr'. rewrite Hc in Hcr'. discriminate.
        + rewrite Hc in Hh. injection Hh as E1 _ _. rewrite <- E1 in Hn. simpl in Hn. lia. }
    destruct Hold as [(st' & a' & b' & it' & Hc)|[Hpc ->]].
    + rewrite Hcont.
      * apply (q_old _ _ HQ sg id G old st' a' b' it' Hc).
      * rewrite (c_dlen _ _ HC). apply (i_old _ _ Hd _ _ _ _ _ Hc).
    + rewrite Hcont by assumption. apply (q_cur _ _ HQ sg id G).
  - (* q_pend *)
    intros sg id G' j g Hj Hsg.
    destruct (gone_back s fs k f s' f' es sg id HI HQ Hk Hs G') as [G|(Hb & Hw & Hin & Hsgf & Hcs & (old & a & b & it & Hcr) & Hp & Hh)].
    + apply nth_upd_cases in Hj. destruct Hj as [(-> & _ & ->)|[Hne Hj]]; [|apply (q_pend _ _ HQ sg id G j g Hj Hsg)].
      assert (Hkd : kind f' = kind f) by (apply (kind_preserved q_ok s_ok s f s' f' es Hs)).
      rewrite Hkd in Hsg.
      destruct (pending_step s f s' f' es Hfok Hs) as [Hincl|[_ Hp]].
      * intro Hin. apply (q_pend _ _ HQ sg id G k f Hk Hsg). apply in_map_iff in Hin. destruct Hin as [x [Hx Hin]].
        apply in_map_iff. exists x. split; [assumption|apply Hincl; assumption].
      * rewrite Hp, Hsg. apply (q_cur _ _ HQ sg id G).
    + (* the release step: every delivery still running actions holds the current state *)
      destruct (h_post _ _ HH k f Hk Hw (or_introl Hb)) as [Hc Hcl].
      apply nth_upd_cases in Hj. destruct Hj as [(-> & _ & ->)|[Hne Hj]].
      * (* the remover itself has nothing pending *)
        pose proof (self_frame_ok q_ok s_ok s f s' f' es Hfok Hs) as [_ Hk'].
        assert (Hkd : kind f' = kind f) by (apply (kind_preserved q_ok s_ok s f s' f' es Hs)).
        unfold kind_ok in Hk'. destruct Hfok as [_ Hk0]. unfold kind_ok in Hk0. rewrite Hkd in Hk'.
        destruct (kind f); [rewrite Hb in Hk0; discriminate|].
        unfold pending. destruct (fpc f'); try discriminate; simpl; tauto.
      * intro Hing.
        assert (Hpne : pending g <> []) by (intro E; rewrite E in Hing; destruct Hing).
        destruct (Hfr j g Hj) as [Hokg _]. unfold pc_ok in Hokg.
        pose proof (c_reader _ _ HC j g Hj) as Hr. unfold reader_ok in Hr.
        assert (Hhold : exists i q, vdt g = RHold i q).
        { unfold pending in Hpne. destruct (fpc g); try congruence; destruct Hokg as [_ Hx]; exact Hx. }
        destruct Hhold as (i & q & Hv).
        destruct (snap g) as [p|]; [|destruct Hr as [_ Hx]; congruence].
        destruct Hr as (Hplt & Hrun & Hq). specialize (Hq i q Hv). subst q.
        assert (Hinp : In id (map fst (slot_acts (content s p) sg))).
        { rewrite <- Hsg, <- Hrun. rewrite map_app. apply in_or_app. right. exact Hing. }
        assert (Hpp : p = ptr (dt s)).
        { assert (Hjv : nth_error (map vdt fs) j = Some (RHold i p)) by (rewrite nth_error_map, Hj; simpl; congruence).
          destruct (i_hold _ _ Hd j i p Hjv) as [->|(st' & t0 & t1 & it' & Hc2 & Hseen)]; [reflexivity|].
          exfalso. rewrite Hcr in Hc2. inversion Hc2; subst.
          destruct (i_old _ _ Hd _ _ _ _ _ Hcr) as (_ & _ & _ & Hfree & _). destruct (Hfree eq_refl) as [-> ->].
          unfold seen in Hseen. destruct (Nat.eqb i 0); discriminate. }
        subst p. change (content s (ptr (dt s))) with (cur s) in Hinp. rewrite Hc in Hinp.
        rewrite <- Hsgf in Hinp. apply (Hcl id Hin). exact Hinp.
Qed.

End Quiesce.

Section QuiesceRun.
Variable q_ok s_ok : Z -> bool.

Lemma gone_spawn s fs kd sg id : gone s (fs ++ [mk_frame kd]) sg id -> gone s fs sg id.
Proof.
  intros (k & g & Hk & Hin & Hr). apply nth_app_cases in Hk. destruct Hk as [Hk|[_ ->]].
  - exists k, g. auto.
  - simpl in Hin. destruct Hin.
Qed.

Lemma qinv_init os0 : QInv (sh_init os0) [].
Proof.
  constructor.
  - intros [|k] g H; discriminate.
  - intros sg id (k & g & Hk & _). destruct k; discriminate.
  - intros sg id (k & g & Hk & _). destruct k; discriminate.
  - intros sg id (k & g & Hk & _). destruct k; discriminate.
Qed.

Definition Inv4 (w : world) : Prop := Inv3 w /\ QInv (fst w) (snd w).

Lemma inv4_wstep w l w' es : Inv4 w -> Model.wstep q_ok s_ok w l = (w', es) -> Inv4 w'.
Proof.
  intros [HI HQ] Hs. split; [eapply inv3_wstep; eauto|].
  destruct w as [s fs]. simpl in *. destruct l as [k|kd]; simpl in Hs.
  - destruct (nth_error fs k) as [f|] eqn:Hn.
    + destruct (Model.fstep q_ok s_ok s f) as [[s1 f1] e1] eqn:Hf. inversion Hs; subst. simpl. eapply qinv_step; eauto.
    + inversion Hs; subst. assumption.
  - inversion Hs; subst. simpl. destruct HQ as [A B C D]. constructor.
    + intros j g Hj. apply nth_app_cases in Hj. destruct Hj as [Hj|[_ ->]]; [eauto|]. unfold rm_ok. simpl. congruence.
    + intros sg id G. apply B. eapply gone_spawn; eauto.
    + intros sg id G. apply C. eapply gone_spawn; eauto.
    + intros sg id G j g Hj Hsg. apply gone_spawn in G. apply nth_app_cases in Hj. destruct Hj as [Hj|[_ ->]]; [eauto|].
      unfold pending. destruct kd; simpl; tauto.
Qed.

Lemma inv4_run ls : forall w w' es, Inv4 w -> Model.run q_ok s_ok w ls = (w', es) -> Inv4 w'.
Proof.
  induction ls as [|l r IH]; intros w w' es H Hr; simpl in Hr.
  - inversion Hr; subst. assumption.
  - destruct (Model.wstep q_ok s_ok w l) as [w1 e1] eqn:Hw. destruct (Model.run q_ok s_ok w1 r) as [w2 e2] eqn:Hr2.
    inversion Hr; subst. eapply IH; [|eauto]. eapply inv4_wstep; eauto.
Qed.

Lemma inv4_init os0 : Inv4 (sh_init os0, []).
Proof. split; [apply inv3_init|apply qinv_init]. Qed.

(** C01, quiescence: in every reachable world in which a removing call has returned (its frame
    is done) - hence at the moment of the return and at every later moment of every
    continuation - no delivery of that signal has a removed action still to run, and the
    current registry state does not contain it (so no later delivery will load it either: a
    delivery only ever runs actions of the state it loads, [delivery_runs_one_snapshot]). *)
Theorem removal_is_quiescent os0 ls s fs es :
  Model.run q_ok s_ok (sh_init os0, []) ls = ((s, fs), es) ->
  forall k g id, nth_error fs k = Some g -> fpc g = PDone -> In id (removed g) ->
    (forall j h, nth_error fs j = Some h -> sig_of (kind h) = sig_of (kind g) -> ~ In id (map fst (pending h))) /\
    ~ In id (map fst (slot_acts (cur s) (sig_of (kind g)))).
Proof.
  intros Hr k g id Hk Hd Hin.
  pose proof (inv4_run ls _ _ _ (inv4_init os0) Hr) as [_ HQ]. simpl in HQ.
  assert (G : gone s fs (sig_of (kind g)) id) by (exists k, g; auto).
  split.
  - intros j h Hj Hsg. apply (q_pend _ _ HQ _ id G j h Hj Hsg).
  - apply (q_cur _ _ HQ _ id G).
Qed.

End QuiesceRun.
