(** Shared tactics for case analysis of [fstep]. *)
From Coq Require Import List ZArith Bool.
From SH Require Import halflock.Model registry.Model.
Import ListNotations.

Ltac hs :=
  match goal with
  | |- context [hstep ?a ?b ?c] => let E := fresh "E" in destruct (hstep a b c) as [[? ?] ?] eqn:E
  end.

Ltac split_conds :=
  repeat match goal with
  | |- context [match os_get ?s ?x with _ => _ end] => destruct (os_get s x)
  | |- context [if existsb ?a ?b then _ else _] => destruct (existsb a b)
  | |- context [match kind ?f with _ => _ end] => destruct (kind f) as [|[]] eqn:?
  | |- (match ?l with [] => _ | _ => _ end) = _ -> _ => destruct l
  | |- context [if ?q ?x then _ else _] => is_var q; destruct (q x)
  end.

Ltac hsin Hs :=
  match type of Hs with
  | context [hstep ?a ?b ?c] => let E := fresh "E" in destruct (hstep a b c) as [[? ?] ?] eqn:E
  end.

Ltac split_conds_in Hs :=
  repeat match type of Hs with
  | context [match os_get ?s ?x with _ => _ end] => destruct (os_get s x)
  | context [if existsb ?a ?b then _ else _] => destruct (existsb a b)
  | context [match kind ?f with _ => _ end] => destruct (kind f) as [|[]] eqn:?
  | context [if ?q ?x then _ else _] => is_var q; destruct (q x)
  end.
