From Coq Require Import List Arith ZArith Bool.
From SH Require Import base.Pool gen.Extracted_iter iter.Model iter.NoLost iter.Reported props.C09.
Import ListNotations.
Check C09_no_lost_wakeup :
  forall raw c ls s, 1 <= c ->
  let w := reach raw c ls in
  slot (w_sh w) s <> [] -> midh (w_fr w) s \/ 0 < pipe (w_sh w) \/ covered w s.
Check C09_never_blocked_with_signal :
  forall raw c ls s, 1 <= c ->
  let w := reach raw c ls in
  cpc_ (w_co w) = CRead -> slot (w_sh w) s <> [] -> ~ midh (w_fr w) s -> 0 < pipe (w_sh w) \/ undrained w s.
Check C09_never_parked_with_signal :
  forall raw c ls s, 1 <= c ->
  let w := reach raw c ls in
  cpc_ (w_co w) = CIdle -> cres_ (w_co w) = RPending -> slot (w_sh w) s <> [] -> ~ midh (w_fr w) s ->
  (0 < pipe (w_sh w) /\ notified (w_sh w) = true) \/ undrained w s.
Check C09_reported_batch :
  forall m w k p s,
  nth_error (w_bats w) k = Some p -> p <= s -> s < MAX_SIGNUM -> slot (w_sh w) s <> [] ->
  (s - p) + tot (slot (w_sh w)) s <= m ->
  exists n, n <= m + 1 /\ length (ylog (w_sh w) s) < length (ylog (w_sh (brun k n w)) s).
Check C09_reported_wait :
  forall raw c ls s, 1 <= c ->
  let w := reach raw c ls in
  cpc_ (w_co w) = CIdle -> slot (w_sh w) s <> [] -> ~ midh (w_fr w) s -> ~ undrained w s ->
  (forall p, cit (w_co w) = Some p -> s < p) ->
  exists n, n <= s + tot (slot (w_sh w)) s + 1 /\
    length (ylog (w_sh w) s) < length (ylog (w_sh (brun (length (w_bats w)) n (fst (run w wait_call)))) s).
Check C09_reported_poll :
  forall raw c ls s o, 1 <= c -> o = OFNext \/ o = OPoll ->
  let w := reach raw c ls in
  closed (w_sh w) = false -> cpc_ (w_co w) = CIdle -> cit (w_co w) <> None ->
  slot (w_sh w) s <> [] -> ~ midh (w_fr w) s -> ~ undrained w s ->
  exists n, n <= 3 * tot (slot (w_sh w)) MAX_SIGNUM + 2 * MAX_SIGNUM + 7 /\
    length (ylog (w_sh w) s) < length (ylog (w_sh (pdrive o n w)) s).
Print Assumptions C09_no_lost_wakeup.
Print Assumptions C09_never_blocked_with_signal.
Print Assumptions C09_never_parked_with_signal.
Print Assumptions C09_reported_batch.
Print Assumptions C09_reported_wait.
Print Assumptions C09_reported_poll.
