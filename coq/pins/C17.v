(* Pinned statements of the C17 theorems; compiled on every run, output parsed by ./check. *)
From Coq Require Import ZArith List String.
From SH Require Import gen.Extracted_platform gen.Extracted_siginfo siginfo.Kernel siginfo.Model props.C17.
Import ListNotations. Open Scope Z_scope.
Check C17_cause_matches_kernel :
  forall i : siginfo, exists o : origin,
    extract i = Extracted o /\ o_signal o = si_signo i /\ o_cause o = kernel_cause (si_signo i) (si_code i).
Check C17_c_result_is_a_discriminant :
  forall signo code : Z,
    0 <= c_lookup signo code <= 11 /\ decode (c_lookup signo code) <> Invalid /\
    exists n : string, In (n, c_lookup signo code) icause_discriminants.
Check C17_process_iff :
  forall (i : siginfo) (o : origin), extract i = Extracted o ->
    o_process o = if kernel_fills_process (si_signo i) (si_code i) then Some (si_pid i, si_uid i) else None.
Check C17_chld_only_for_sigchld :
  forall (i : siginfo) (o : origin) (x : chld), extract i = Extracted o -> o_cause o = C_Chld x ->
    si_signo i = k_SIGCHLD /\ In (si_code i) chld_codes.
Check C17_exfiltrator_is_extract :
  forall i : siginfo, exfil_load (exfil_store [] i) = Some (extract i, []).
Check C17_tables_in_sync :
  forall (n : string) (d : Z), In (n, d) icause_discriminants ->
    d = c_default \/ exists r : row, In r c_consts /\ row_translated r = d.
Check C17_skeletons :
  model_skeleton = ex_skeleton /\ model_exfil_store_skeleton = exfil_store_skeleton /\
  model_exfil_load_skeleton = exfil_load_skeleton.
Check C17_sigchld_number :
  k_SIGCHLD = rust_SIGCHLD /\ In ("SIGCHLD"%string, k_SIGCHLD) platform_signals.
Print Assumptions C17_cause_matches_kernel.
Print Assumptions C17_c_result_is_a_discriminant.
Print Assumptions C17_process_iff.
Print Assumptions C17_chld_only_for_sigchld.
Print Assumptions C17_exfiltrator_is_extract.
Print Assumptions C17_tables_in_sync.
Print Assumptions C17_skeletons.
Print Assumptions C17_sigchld_number.
