(* Pinned statements of the C14 theorems; compiled on every run, output parsed by ./check. *)
From Coq Require Import ZArith NArith List.
From SH Require Import gen.Extracted_entry entry.Model props.C14.
Import ListNotations. Open Scope Z_scope.
Check C14_forbidden_list :
  forall s : Z, is_forbidden s = true <->
                (s = SIGKILL \/ s = SIGSTOP \/ s = SIGILL \/ s = SIGFPE \/ s = SIGSEGV).
Check C14_checked :
  forall (o : os) (k : fdkind) (f : fn_id) (sig : Z) (st : state),
  In f checked_eps -> k <> FdBad -> wf o st -> (f = FSignalsNew -> inst st = []) ->
  let r := entry o k f sig st in
  (is_forbidden sig = true -> r_out r = Panic PForbidden /\ refused o f sig st r) /\
  (iterator_ep f = true -> c_int sig -> out_of_table sig = true -> r_out r = Panic PIndex /\ refused o f sig st r) /\
  (f = FFlagCondDefault -> known sig = false ->
     r_out r = Err (EPrecheck EINVAL) /\ r_state r = st /\ refused o f sig st r) /\
  (is_forbidden sig = false -> (iterator_ep f = true -> out_of_table sig = false) ->
   (f = FFlagCondDefault -> known sig = true) ->
     (accepts o sig = false -> r_out r = Err EOs /\ refused o f sig st r) /\
     (accepts o sig = true -> registered f sig st r /\
        (iterator_ep f = false -> r_out r = OkId (next_id st) /\ r_kept r = all_params f))).
Check C14_unchecked_passthrough :
  forall (o : os) (k : fdkind) (f : fn_id) (sig : Z) (st : state),
  In f unchecked_eps -> wf o st ->
  let r := entry o k f sig st in
  (accepts o sig = true -> r_out r = OkId (next_id st) /\ registered f sig st r) /\
  (accepts o sig = false ->
     r_out r = Err EOs /\ same_core st (r_state r) /\
     fallback (r_state r) = (if os_query o sig then Some sig else fallback st) /\
     fallback_inert (r_state r) /\ r_released r = all_params f /\ r_kept r = [] /\ r_leaked r = []).
Check C14_unchecked_kill_stop :
  forall (o : os) (k : fdkind) (f : fn_id) (sig : Z) (st : state),
  In f unchecked_eps -> wf o st -> sig = SIGKILL \/ sig = SIGSTOP ->
  os_query o sig = true -> os_set o sig = false ->
  let r := entry o k f sig st in
  is_forbidden sig = true /\ r_out r = Err EOs /\ fallback (r_state r) = Some sig /\
  same_core st (r_state r) /\ fallback_inert (r_state r).
Check C14_invariant :
  (forall (o : os) (d : Z -> disp), (forall s, d s <> Lib) -> wf o (init_state d)) /\
  (forall (o : os) (k : fdkind) (f : fn_id) (sig : Z) (st : state),
     In f (checked_eps ++ unchecked_eps) -> wf o st -> (next_id st + 1 < 2 ^ 128)%N ->
     (f = FSignalsNew -> inst st = []) -> wf o (r_state (entry o k f sig st))).
Print Assumptions C14_forbidden_list.
Print Assumptions C14_checked.
Print Assumptions C14_unchecked_passthrough.
Print Assumptions C14_unchecked_kill_stop.
Print Assumptions C14_invariant.
