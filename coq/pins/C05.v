(* Pinned statements of the C05 theorems; compiled on every run, output parsed by ./check. *)
From Coq Require Import ZArith NArith List Bool.
From SH Require Import gen.Extracted_seqreg seqreg.Spec seqreg.Model props.C05.
Import ListNotations.
Open Scope Z_scope.
Check C05_refines :
  forall (query_ok set_ok : Z -> bool) (os0 : list (Z * pre_disp)) (ops : list op),
    let spec := s_run (2 ^ 128) (fun s => zmem s forbidden) (fun s => query_ok s && set_ok s) (pre_of os0)
                      (s_init 1) ops in
    let impl := c_run query_ok set_ok (c_init os0) ops in
    (successes (snd spec) < 2 ^ 128)%N ->
    snd impl = snd spec /\ abs (fst impl) = fst spec.
Check C05_ids_unique :
  forall (query_ok set_ok : Z -> bool) (os0 : list (Z * pre_disp)) (ops : list op),
    let outs := snd (c_run query_ok set_ok (c_init os0) ops) in
    (successes outs <= 2 ^ 128)%N -> NoDup (ids_of outs).
Check C05_unregister_exact :
  forall (query_ok set_ok : Z -> bool) (os0 : list (Z * pre_disp)) (ops : list op) (sig : Z) (id : N),
    let c := fst (c_run query_ok set_ok (c_init os0) ops) in
    let r := c_step query_ok set_ok c (Unregister sig id) in
    snd r = OBool (existsb (fun a => (fst a =? id)%N) (c_actions c sig)) /\
    (forall s, c_actions (fst r) s =
               filter (fun a => negb ((s =? sig) && (fst a =? id)%N)) (c_actions c s)) /\
    c_taken (fst r) = c_taken c /\ next_id (data (fst r)) = next_id (data c) /\ os (fst r) = os c.
Check C05_independent :
  forall (query_ok set_ok : Z -> bool) (os0 : list (Z * pre_disp)) (ops : list op) (o : op) (s2 : Z),
    op_sig o <> s2 ->
    let c := fst (c_run query_ok set_ok (c_init os0) ops) in
    let c' := fst (c_step query_ok set_ok c o) in
    c_actions c' s2 = c_actions c s2 /\
    os_get (os c') s2 = os_get (os c) s2 /\
    snd (c_step query_ok set_ok c' (Deliver s2)) = snd (c_step query_ok set_ok c (Deliver s2)).
Check C05_disposition_sticky :
  forall (query_ok set_ok : Z -> bool) (os0 : list (Z * pre_disp)) (ops1 : list op) (o : op) (ops2 : list op) (i : N),
    snd (c_step query_ok set_ok (fst (c_run query_ok set_ok (c_init os0) ops1)) o) = OId i ->
    os_get (os (fst (c_run query_ok set_ok (c_init os0) (ops1 ++ o :: ops2)))) (op_sig o) =
    DLib (Z.lor SA_RESTART SA_SIGINFO).
Print Assumptions C05_refines.
Print Assumptions C05_ids_unique.
Print Assumptions C05_unregister_exact.
Print Assumptions C05_independent.
Print Assumptions C05_disposition_sticky.
