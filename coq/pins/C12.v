(* Pinned statements of the C12 theorems; compiled on every run, output parsed by ./check. *)
From Coq Require Import ZArith List Bool.
From SH Require Import gen.Extracted_instance instance.Model instance.Defs instance.Spec instance.Examples props.C12.
Import ListNotations. Open Scope Z_scope.
Check C12_rejected_add_is_noop :
  forall (os : Z -> bool) (h k : list op) (i : nat) (via : bool) (n : Z),
  let call := OAdd i via n in
  let own := fst (step os (final os h) call) in
  rejected (fst own) ->
  nth_error (outs os (h ++ call :: k)) (length h) = Some own /\
  remove_nth (length h) (outs os (h ++ call :: k)) = outs os (h ++ k) /\
  obs_eq (final os (h ++ [call])) (final os h) /\
  obs_eq (final os (h ++ call :: k)) (final os (h ++ k)).
Check C12_never_aborts :
  forall (os : Z -> bool) (h : list op),
  Forall (fun o : out => fst o <> RAbort /\ fst o <> RDead) (outs os h) /\ dead (final os h) = false.
Check C12_readd_is_identity :
  forall (os : Z -> bool) (h : list op) (i : nat) (via : bool) (n : Z) (x : inst),
  nth_error (insts (final os h)) i = Some x -> usable x via = true -> watched x n ->
  step os (final os h) (OAdd i via n) = ((ROk, []), final os h).
Check C12_failed_constructor_registers_nothing :
  forall (os : Z -> bool) (h : list op) (e : exfk) (sigs : list Z),
  let st := final os h in
  let st' := final os (h ++ [ONew e sigs]) in
  let own := fst (step os st (ONew e sigs)) in
  rejected (fst own) ->
  reg (g st') = reg (g st) /\
  exists x, insts st' = insts st ++ [x] /\ gone x /\ i_rd_closes x = 1%nat /\ i_wr_closes x = 1%nat /\
            snd own = [1; 1] /\
            (forall en, In en (reg (g st')) -> ~ In (fst en) (recorded x)).
Check C12_cleanup :
  forall (os : Z -> bool) (h : list op) (i : nat) (x : inst),
  nth_error (insts (final os h)) i = Some x ->
  (gone x ->
     (forall e, In e (reg (g (final os h))) -> ~ In (fst e) (recorded x)) /\
     i_rd_closes x = 1%nat /\ i_wr_closes x = 1%nat) /\
  (~ gone x ->
     (forall k id, In (k, id) (i_ids x) -> In (id, k) (reg (g (final os h)))) /\
     i_wr_closes x = 0%nat /\ i_rd_closes x = (if i_alive x then 0 else 1)%nat).
Check C12_cleanup_only_own :
  forall (os : Z -> bool) (h : list op) (o : op) (e : nat * Z),
  In e (reg (g (final os h))) -> ~ In e (reg (g (final os (h ++ [o])))) ->
  exists i x x',
    nth_error (insts (final os h)) i = Some x /\ ~ gone x /\
    nth_error (insts (final os (h ++ [o]))) i = Some x' /\ gone x' /\ In (fst e) (recorded x').
Check C12_ids_disjoint :
  forall (os : Z -> bool) (h : list op) (i j : nat) (x y : inst) (id : nat),
  nth_error (insts (final os h)) i = Some x -> nth_error (insts (final os h)) j = Some y ->
  In id (recorded x) -> In id (recorded y) -> i = j.
Check C12_watched_is_delivered :
  forall (os : Z -> bool) (h : list op) (i : nat) (x : inst) (n : Z),
  nth_error (insts (final os h)) i = Some x -> ~ gone x -> watched x n ->
  ran (g (final os h)) x n = true.
Print Assumptions C12_rejected_add_is_noop.
Print Assumptions C12_never_aborts.
Print Assumptions C12_readd_is_identity.
Print Assumptions C12_failed_constructor_registers_nothing.
Print Assumptions C12_cleanup.
Print Assumptions C12_cleanup_only_own.
Print Assumptions C12_ids_disjoint.
Print Assumptions C12_watched_is_delivered.
(* the closed forms the proofs rest on (fail when the extracted skeletons change) *)
Check add_closed : forall os gl x n, add_signal os gl x n = add_spec os gl x n.
Check drop_state_closed : forall uw gl x, drop_state_if_last uw gl x = drop_last_spec gl x.
