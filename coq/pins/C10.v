From Coq Require Import List Arith ZArith Bool.
From SH Require Import base.Pool gen.Extracted_iter iter.Model iter.Sound props.C10.
Import ListNotations.
Check C10_counts :
  forall raw c ls s,
  let sh := w_sh (reach raw c ls) in
  length (ylog sh s) + length (slot sh s) <= nstored sh s /\ nstored sh s <= length (begun sh s).
Check C10_only_watched :
  forall raw c ls s,
  let sh := w_sh (reach raw c ls) in
  ylog sh s <> [] -> watch sh s = true /\ s < MAX_SIGNUM.
Check C10_fifo :
  forall c ls s,
  let sh := w_sh (reach true c ls) in
  stlog sh s = ylog sh s ++ slot sh s /\ length (slot sh s) <= CHAN_SLOTS /\
  forall v, occ v (ylog sh s) <= occ v (stlog sh s) /\ occ v (stlog sh s) <= occ v (begun sh s).
Check C10_signal_only :
  forall c ls s,
  let sh := w_sh (reach false c ls) in
  Forall (eq (zn s)) (ylog sh s) /\ length (slot sh s) <= 1.
Print Assumptions C10_counts.
Print Assumptions C10_only_watched.
Print Assumptions C10_fifo.
Print Assumptions C10_signal_only.
