From Coq Require Import List NArith ZArith Bool.
From SH Require Import base.Pool gen.Extracted_halflock halflock.Model registry.Model registry.Content registry.Chain props.C04.
Import ListNotations.
Check C04_chained :
  forall (q_ok s_ok : Z -> bool) os0 ls s fs es,
  no_lib os0 ->
  run q_ok s_ok (sh_init os0, []) ls = ((s, fs), es) ->
  forall k d sg s' d' es', nth_error fs k = Some d -> kind d = KDeliver sg -> fpc d = PDtPtr ->
    aborted (dt s) = false -> aborted (fb s) = false ->
    fstep q_ok s_ok s d = (s', d', es') ->
    fpc d' = match is_foreign (os0_get os0 sg) with
             | Some si => PPrev si (slot_acts (cur s) sg)
             | None => after_runs (slot_acts (cur s) sg)
             end.
Check C04_called_once_first :
  forall (q_ok s_ok : Z -> bool) s f si acts,
  fpc f = PPrev si acts -> aborted (dt s) || aborted (fb s) = false ->
  fstep q_ok s_ok s f = (s, set_pc f (after_runs acts), [ev 21 0 (sig_of (kind f)) (bz si) 1]).
Check C04_not_called_later :
  forall (q_ok s_ok : Z -> bool) s f s' f' es,
  (exists a, fpc f = PRun a) \/ fpc f = PDtDec \/ fpc f = PFbDec \/ fpc f = PDone ->
  fstep q_ok s_ok s f = (s', f', es) ->
  forallb (fun e => negb (Z.eqb (e_op e) 21)) es = true /\
  ((exists a, fpc f' = PRun a) \/ fpc f' = PDtDec \/ fpc f' = PFbDec \/ fpc f' = PDone).
Print Assumptions C04_chained.
Print Assumptions C04_called_once_first.
Print Assumptions C04_not_called_later.
