From Coq Require Import List NArith ZArith Bool.
From SH Require Import base.Pool gen.Extracted_halflock gen.Extracted_registry halflock.Model halflock.Safety registry.Model registry.PcInv registry.Deliver registry.Progress registry.Fair props.C18.
Import ListNotations.
Check C18_no_deadlock :
  forall (q_ok s_ok : Z -> bool) os0 ls s fs es,
  run q_ok s_ok (sh_init os0, []) ls = ((s, fs), es) -> live s ->
  forall k f, nth_error fs k = Some f -> fpc f <> PDone ->
    (fpc (snd (fst (fstep q_ok s_ok s f))) <> fpc f \/ dt (fst (fst (fstep q_ok s_ok s f))) <> dt s \/ fb (fst (fst (fstep q_ok s_ok s f))) <> fb s) \/
    (fpc f = MDtLock /\ crit (dt s) <> CNone /\
     exists j g, j <> k /\ nth_error fs j = Some g /\ vdt g = WIn /\ fpc g <> PDone).
Check C18_fallback_mutex_uncontended :
  forall s fs k f, PInv s fs -> nth_error fs k = Some f -> fpc f = MFbLock -> crit (fb s) = CNone.
Check C18_waits_only_for_deliveries :
  forall (q_ok s_ok : Z -> bool) os0 ls s fs es,
  run q_ok s_ok (sh_init os0, []) ls = ((s, fs), es) ->
  forall i, (i < 2)%nat -> cget (dt s) i <> 0%nat ->
    exists j g sg, nth_error fs j = Some g /\ kind g = KDeliver sg /\ in_slot i (vdt g) = true /\ fpc g <> PDone.
Check C18_completes_alone :
  forall (q_ok s_ok : Z -> bool) os0 ls s fs es,
  run q_ok s_ok (sh_init os0, []) ls = ((s, fs), es) -> live s ->
  forall k f m, nth_error fs k = Some f -> kind f = KMut m ->
    idle (dt s) -> idle (fb s) -> not_locked_out s f ->
    let '(s', f', _) := solo q_ok s_ok 75 s f in fpc f' = PDone.
Check C18_sticky_seen :
  forall h old st s0 s1 it h' es st' t0 t1 it',
  barrier_step h old st s0 s1 it = (h', es) -> crit h' = CSwapped old st' t0 t1 it' ->
  (st = SFlip \/ st = SHint \/ (st = SPoll0 /\ s0 = false) \/ (st = SPoll1 /\ s1 = false)) ->
  (s0 = true -> t0 = true) /\ (s1 = true -> t1 = true).
Check C18_panic_wedges_nobody :
  forall (q_ok s_ok : Z -> bool) s f sg tag s' f' es,
  kind f = KMut (MRegister sg tag) -> fpc f = MStart -> existsb (Z.eqb sg) forbidden = true ->
  fstep q_ok s_ok s f = (s', f', es) ->
  s' = s /\ (aborted (dt s) || aborted (fb s) = false -> fpc f' = PDone /\ vdt f' = vdt f /\ vfb f' = vfb f).
Local Open Scope nat_scope.
Check C18_fair_termination :
  forall (q_ok s_ok : Z -> bool) os0 ls w es,
  run q_ok s_ok (sh_init os0, []) ls = (w, es) -> live (fst w) -> (N.of_nat (length (snd w)) <= MAX_GUARDS)%N ->
  forall rounds, (forall r, In r rounds -> covers (length (snd w)) r) ->
  (D' w + 75 * length (snd w) <= length rounds)%nat ->
  all_done (snd (steps q_ok s_ok w (concat rounds))).
Check C18_round_deliveries :
  forall (q_ok s_ok : Z -> bool) r w, FInv w ->
  (D' (steps q_ok s_ok w r) <= D' w)%nat /\
  forall k g, In k r -> nth_error (snd w) k = Some g -> del_pending g = true -> (D' (steps q_ok s_ok w r) < D' w)%nat.
Check C18_round_calls :
  forall (q_ok s_ok : Z -> bool) r w, P2 w ->
  P2 (steps q_ok s_ok w r) /\ (MM' (steps q_ok s_ok w r) <= MM' w)%nat /\
  forall k g, In k r -> nth_error (snd w) k = Some g -> enabled (fst w) g -> (MM' (steps q_ok s_ok w r) < MM' w)%nat.
Print Assumptions C18_no_deadlock.
Print Assumptions C18_fallback_mutex_uncontended.
Print Assumptions C18_waits_only_for_deliveries.
Print Assumptions C18_completes_alone.
Print Assumptions C18_sticky_seen.
Print Assumptions C18_panic_wedges_nobody.
Print Assumptions C18_fair_termination.
Print Assumptions C18_round_deliveries.
Print Assumptions C18_round_calls.
