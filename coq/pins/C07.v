From Coq Require Import List Arith NArith ZArith Bool String.
From SH Require Import base.Pool gen.Extracted_channel channel.Defs channel.Word channel.Model channel.Skeleton
  channel.Inv channel.Account channel.Reach channel.ModelRA channel.InvRA channel.Refine props.C07.
Import ListNotations.
Local Open Scope N_scope.
Check C07_race_free :
  forall ls k f why,
  nth_error (snd (rrun rinit_world ls)) k = Some f -> rpcf f <> RRace why.
Check C07_ra_invariant :
  forall ls, RInv (fst (rrun rinit_world ls)) (snd (rrun rinit_world ls)).
Check C07_sc_worlds_are_view_worlds :
  forall ls w es,
  run init_world ls = (w, es) -> exists rls, world_rel w (rrun rinit_world rls).
Check C07_orderings :
  has_acq deq_ord_cas_ok = true /\ has_rel enq_ord_cas_ok = true /\
  (forall k, has_acq (slot_ord k) = true) /\ has_rel slot_init_swap_ord = true /\
  channel_unsafe_impls = ["Send: T: Send"; "Sync: T: Send"]%string.
Check C07_drop_once :
  forall ls s fs es,
  run init_world ls = ((s, fs), es) ->
  (forall x, cnt (is_send x) fs =
             (cnt (in_hand x) fs + occn x (channel_contents s) + cnt (took x) fs + occn x (dropped s))%nat) /\
  clobbered s = [] /\
  (forall i, In i (decode (qe s)) -> cells s i = None) /\
  (forall i, In i (decode (qf s)) -> cells s i <> None) /\
  (forall k f, nth_error fs k = Some f ->
     match fpc f, fkind f with
     | PCell, KSend _ => cells s (idx f) = None
     | PCell, KRecv => cells s (idx f) <> None
     | (PEnqLoad | PEnqCas), KSend v => cells s (idx f) = Some v
     | (PEnqLoad | PEnqCas), KRecv => cells s (idx f) = None
     | _, _ => True
     end).
Check C07_drop_once_quiescent :
  forall ls s fs es,
  run init_world ls = ((s, fs), es) -> (forall k f, nth_error fs k = Some f -> fpc f = PDone) ->
  forall x, cnt (is_send x) fs = (occn x (channel_contents s) + cnt (took x) fs + occn x (dropped s))%nat.
Print Assumptions C07_race_free.
Print Assumptions C07_ra_invariant.
Print Assumptions C07_sc_worlds_are_view_worlds.
Print Assumptions C07_orderings.
Print Assumptions C07_drop_once.
Print Assumptions C07_drop_once_quiescent.
