(* Pinned statements of the C16 theorems; compiled on every run, output parsed by ./check. *)
From Coq Require Import ZArith List String.
From SH Require Import gen.Extracted_details gen.Extracted_platform details.Kernel details.Model props.C16.
Open Scope Z_scope.
Check C16_matches_kernel : forall (st : pstate) (s : Z), known s = true -> emulate st s = kernel_default s.
Check C16_unknown_is_error : forall (st : pstate) (s : Z), known s = false -> emulate st s = Error.
Check C16_names_are_platform_names : forall (s : Z) (nm : string), signal_name s = Some nm -> In (nm, s) platform_signals.
Check C16_total : forall (st : pstate) (s : Z), emulate st s = if known s then kernel_default s else Error.
Check C16_context_independent : forall (st st' : pstate) (s : Z), emulate st s = emulate st' s.
Check C16_never_handler_nor_exit : forall (st : pstate) (s : Z), emulate st s <> HandlerRuns /\ emulate st s <> Exits.
Check C16_terminated_by_itself : forall (st : pstate) (s t : Z), emulate st s = TerminatedBy t -> t = s.
Print Assumptions C16_matches_kernel.
Print Assumptions C16_unknown_is_error.
Print Assumptions C16_names_are_platform_names.
Print Assumptions C16_total.
Print Assumptions C16_context_independent.
Print Assumptions C16_never_handler_nor_exit.
Print Assumptions C16_terminated_by_itself.
