(* Pinned statements of the C16 theorems; compiled on every run, output parsed by ./check. *)
From Coq Require Import ZArith List String.
From SH Require Import gen.Extracted_details gen.Extracted_platform details.Kernel details.Model props.C16.
Open Scope Z_scope.
Check C16_matches_kernel : forall (st : pstate) (s : Z), known s = true -> emulate st s = kernel_default s.
Check C16_unknown_is_error : forall (st : pstate) (s : Z), known s = false -> emulate st s = Error.
Check C16_names_are_platform_names : forall (s : Z) (nm : string), signal_name s = Some nm -> In (nm, s) platform_signals.
Print Assumptions C16_matches_kernel.
Print Assumptions C16_unknown_is_error.
Print Assumptions C16_names_are_platform_names.
