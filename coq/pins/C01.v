From Coq Require Import List NArith ZArith Bool.
From SH Require Import base.Pool gen.Extracted_halflock halflock.Model registry.Model props.C01.
Import ListNotations.
Check C01_no_use_after_free :
  forall (q_ok s_ok : Z -> bool) os0 ls s fs es,
  run q_ok s_ok (sh_init os0, []) ls = ((s, fs), es) ->
  forall k f i p, nth_error fs k = Some f ->
    (vdt f = RHold i p -> ~ In p (freed (dt s))) /\ (vfb f = RHold i p -> ~ In p (freed (fb s))).
Check C01_no_double_free :
  forall (q_ok s_ok : Z -> bool) os0 ls s fs es,
  run q_ok s_ok (sh_init os0, []) ls = ((s, fs), es) -> NoDup (freed (dt s)) /\ NoDup (freed (fb s)).
Print Assumptions C01_no_use_after_free.
Print Assumptions C01_no_double_free.
