From Coq Require Import List NArith ZArith Bool.
From SH Require Import base.Pool gen.Extracted_halflock halflock.Model registry.Model registry.Events registry.Content props.C01.
Import ListNotations.
Check C01_no_use_after_free :
  forall (q_ok s_ok : Z -> bool) os0 ls s fs es,
  run q_ok s_ok (sh_init os0, []) ls = ((s, fs), es) ->
  forall k f i p, nth_error fs k = Some f ->
    (vdt f = RHold i p -> ~ In p (freed (dt s))) /\ (vfb f = RHold i p -> ~ In p (freed (fb s))).
Check C01_no_double_free :
  forall (q_ok s_ok : Z -> bool) os0 ls s fs es,
  run q_ok s_ok (sh_init os0, []) ls = ((s, fs), es) -> NoDup (freed (dt s)) /\ NoDup (freed (fb s)).
Check C01_released_by_mutators_only :
  forall (q_ok s_ok : Z -> bool) os0 ls s fs es,
  run q_ok s_ok (sh_init os0, []) ls = ((s, fs), es) ->
  forall k f sg s' f' es', nth_error fs k = Some f -> kind f = KDeliver sg ->
    fstep q_ok s_ok s f = (s', f', es') ->
    forallb handler_op es' = true /\ forallb (fun e => negb (forbidden_in_handler e)) es' = true.
Check C01_unregister_quiescent :
  forall (q_ok s_ok : Z -> bool) os0 ls s fs es,
  run q_ok s_ok (sh_init os0, []) ls = ((s, fs), es) ->
  forall k g sg id, nth_error fs k = Some g -> kind g = KMut (MUnregister sg id) -> fpc g = PDone -> res g = 1%Z ->
    (forall j h, nth_error fs j = Some h -> sig_of (kind h) = sg -> ~ In id (map fst (pending h))) /\
    ~ In id (map fst (slot_acts (cur s) sg)).
Check C01_unregister_signal_quiescent :
  forall (q_ok s_ok : Z -> bool) os0 ls s fs es,
  run q_ok s_ok (sh_init os0, []) ls = ((s, fs), es) ->
  forall k g sg id, nth_error fs k = Some g -> kind g = KMut (MUnregSignal sg) -> fpc g = PDone -> In id (removed g) ->
    (forall j h, nth_error fs j = Some h -> sig_of (kind h) = sg -> ~ In id (map fst (pending h))) /\
    ~ In id (map fst (slot_acts (cur s) sg)).
Print Assumptions C01_no_use_after_free.
Print Assumptions C01_no_double_free.
Print Assumptions C01_released_by_mutators_only.
Print Assumptions C01_unregister_quiescent.
Print Assumptions C01_unregister_signal_quiescent.
