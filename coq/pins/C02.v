From Coq Require Import List NArith ZArith Bool Sorted.
From SH Require Import base.Pool gen.Extracted_halflock halflock.Model registry.Model registry.PcInv registry.Events registry.Content registry.Order props.C02.
Import ListNotations.
Check C02_one_snapshot :
  forall (q_ok s_ok : Z -> bool) os0 ls s fs es,
  run q_ok s_ok (sh_init os0, []) ls = ((s, fs), es) ->
  forall k g, nth_error fs k = Some g ->
    match snap g with
    | Some p => (p < length (dhist s))%nat /\ ran g ++ pending g = slot_acts (content s p) (sig_of (kind g))
    | None => ran g = [] /\ pending g = []
    end.
Check C02_snapshot_current_at_load :
  forall (q_ok s_ok : Z -> bool) s f s' f' es,
  frame_ok s f -> fpc f = PDtPtr -> aborted (dt s) = false -> aborted (fb s) = false ->
  fstep q_ok s_ok s f = (s', f', es) ->
  snap f' = Some (ptr (dt s)) /\ ran f' = ran f /\
  pending f' = slot_acts (cur s) (sig_of (kind f)) /\ dhist s' = dhist s.
Check C02_registration_order :
  forall (q_ok s_ok : Z -> bool) os0 ls s fs es,
  run q_ok s_ok (sh_init os0, []) ls = ((s, fs), es) ->
  forall k g p, nth_error fs k = Some g -> snap g = Some p ->
    StronglySorted N.lt (map fst (ran g ++ pending g)).
Check C02_only_registered_actions :
  forall (q_ok s_ok : Z -> bool) os0 ls s fs es,
  run q_ok s_ok (sh_init os0, []) ls = ((s, fs), es) ->
  forall k g p id tag, nth_error fs k = Some g -> snap g = Some p -> In (id, tag) (ran g ++ pending g) ->
    exists j r, nth_error fs j = Some r /\ kind r = KMut (MRegister (sig_of (kind g)) tag) /\ lid r = id /\ past_load (fpc r) = true.
Check C02_registered_action_runs :
  forall (q_ok s_ok : Z -> bool) os0 ls s fs es,
  run q_ok s_ok (sh_init os0, []) ls = ((s, fs), es) ->
  forall k g sg tag, nth_error fs k = Some g -> kind g = KMut (MRegister sg tag) -> published g = true ->
    ~ removal_past_load fs sg (lid g) ->
    forall j d s' d' es', nth_error fs j = Some d -> kind d = KDeliver sg -> fpc d = PDtPtr ->
      aborted (dt s) = false -> aborted (fb s) = false ->
      fstep q_ok s_ok s d = (s', d', es') ->
      In (lid g, tag) (pending d') /\ ran d' = ran d.
Print Assumptions C02_one_snapshot.
Print Assumptions C02_snapshot_current_at_load.
Print Assumptions C02_registration_order.
Print Assumptions C02_only_registered_actions.
Print Assumptions C02_registered_action_runs.
