(* Pinned statements of the C15 theorems; compiled on every run, output parsed by ./check. *)
From Coq Require Import ZArith List String Bool.
From SH Require Import gen.Extracted_flag flag.Model flag.Proofs props.C15.
Import ListNotations. Open Scope Z_scope. Open Scope list_scope.
Check C15_action_semantics :
  forall (sig : Z) (a : action) (m : mem),
    run_action sig a m =
    match a with
    | SetBool f => Continue (set_flag m f 1)
    | SetUsize f v => Continue (set_flag m f v)
    | CondExit status c => if fl m c =? 0 then Continue m else Stop (Exited (status mod 256) false) m
    | CondDefault c => if fl m c =? 0 then Continue m else emu sig m
    | Observe k => Continue {| fl := fl m; tr := EvObserve k (fl m) :: tr m |}
    end.
Check C15_sc_premise :
  forallb (fun d => forallb (fun s => is_seqcst (stmt_ord s)) (fd_body d))
          [fn_register; fn_register_usize; fn_register_conditional_shutdown; fn_register_conditional_default] = true
  /\ atexit_hooks_run exit_libc_fn = false
  /\ 0 < id_step /\ id_taken_before_step = true.
Check C15_flag_after_delivery :
  forall (s0 : state) (h : list op) (sig f v : Z) (a : action),
    let s := run h s0 in
    let s' := step (OpDeliver sig) s in
    alive s -> alive s' ->
    In a (actions_for sig (reg s)) -> setter a = Some (f, v) ->
    (forall a' v', In a' (actions_for sig (reg s)) -> setter a' = Some (f, v') -> v' = v) ->
    flag s' f = v.
Check C15_flag_after_delivery_last :
  forall (s0 : state) (h : list op) (sig f : Z),
    let s := run h s0 in
    let s' := step (OpDeliver sig) s in
    alive s -> alive s' ->
    flag s' f = match last_set f (actions_for sig (reg s)) with Some v => v | None => flag s f end.
Check C15_other_flags_untouched :
  forall (s0 : state) (h : list op) (sig f : Z),
    let s := run h s0 in
    let s' := step (OpDeliver sig) s in
    alive s -> alive s' ->
    (forall a v, In a (actions_for sig (reg s)) -> setter a <> Some (f, v)) ->
    flag s' f = flag s f /\ reg s' = reg s /\ next_id s' = next_id s.
Check C15_shutdown_iff :
  forall (s0 : state) (h : list op) (sig w : Z) (hooks : bool),
    let s := run h s0 in
    let s' := step (OpDeliver sig) s in
    let exits_at (m1 : mem) :=
      exists pre status c post,
        actions_for sig (reg s) = pre ++ CondExit status c :: post /\
        run_actions sig pre (st_mem s) = Continue m1 /\
        fl m1 c <> 0 /\ w = status mod 256 /\ hooks = false in
    alive s ->
    (halted s' = Some (Exited w hooks) -> exists m1, exits_at m1 /\ forall g, flag s' g = fl m1 g) /\
    ((exists m1, exits_at m1) -> halted s' = Some (Exited w hooks)).
Check C15_survives_iff :
  forall (s0 : state) (h : list op) (sig : Z),
    let s := run h s0 in
    alive s ->
    (alive (step (OpDeliver sig) s) <->
     forall pre a post m1 t m', actions_for sig (reg s) = pre ++ a :: post ->
       run_actions sig pre (st_mem s) = Continue m1 -> run_action sig a m1 <> Stop t m').
Check C15_double_ctrl_c :
  forall (h0 : list op) (sig status f : Z) (ws1 ws2 : list op),
    let s0 := run h0 init in
    alive s0 -> actions_for sig (reg s0) = [] ->
    Forall (keeps sig) ws1 -> Forall (keeps sig) ws2 ->
    let s1 := run (OpRegister sig (CondExit status f) :: OpRegister sig (SetBool f) :: ws1) s0 in
    alive s1 -> flag s1 f = 0 ->
    let s2 := step (OpDeliver sig) s1 in
    alive s2 /\ flag s2 f = 1 /\ (forall g, g <> f -> flag s2 g = flag s1 g) /\
    (let s3 := run ws2 s2 in
     alive s3 -> flag s3 f <> 0 ->
     let s4 := step (OpDeliver sig) s3 in
     halted s4 = Some (Exited (status mod 256) false) /\ forall g, flag s4 g = flag s3 g).
Check C15_double_ctrl_c_opposite_order :
  forall (h0 : list op) (sig status f : Z) (ws1 : list op),
    let s0 := run h0 init in
    alive s0 -> actions_for sig (reg s0) = [] ->
    Forall (keeps sig) ws1 ->
    let s1 := run (OpRegister sig (SetBool f) :: OpRegister sig (CondExit status f) :: ws1) s0 in
    alive s1 ->
    let s2 := step (OpDeliver sig) s1 in
    halted s2 = Some (Exited (status mod 256) false) /\ flag s2 f = 1 /\
    forall g, g <> f -> flag s2 g = flag s1 g.
Print Assumptions C15_action_semantics.
Print Assumptions C15_sc_premise.
Print Assumptions C15_flag_after_delivery.
Print Assumptions C15_flag_after_delivery_last.
Print Assumptions C15_other_flags_untouched.
Print Assumptions C15_shutdown_iff.
Print Assumptions C15_survives_iff.
Print Assumptions C15_double_ctrl_c.
Print Assumptions C15_double_ctrl_c_opposite_order.
Check C15_second_signal_during_first :
  forall (h0 : list op) (sig status f : Z) (ws1 : list op),
    let s0 := run h0 init in
    alive s0 -> actions_for sig (reg s0) = [] ->
    Forall (keeps sig) ws1 ->
    let s1 := run (OpRegister sig (CondExit status f) :: OpRegister sig (SetBool f) :: ws1) s0 in
    alive s1 -> flag s1 f = 0 ->
    let s2 := step (OpDeliver sig) s1 in
    let s3 := step (OpDeliver sig) s2 in
    alive s2 /\ halted s3 = Some (Exited (status mod 256) false).
Print Assumptions C15_second_signal_during_first.
