From Coq Require Import List Arith NArith ZArith Bool.
From SH Require Import base.Pool gen.Extracted_channel channel.Defs channel.Word channel.Model channel.Skeleton
  channel.Inv channel.Progress channel.ModelRA channel.InvRA channel.ProgressRA props.C08.
Import ListNotations.
Local Open Scope N_scope.
Check C08_no_panic :
  forall ls s fs es,
  run init_world ls = ((s, fs), es) -> forall k f, nth_error fs k = Some f -> forall why, fpc f <> PPanic why.
Check C08_no_panic_ra :
  forall ls k f why,
  nth_error (snd (rrun rinit_world ls)) k = Some f -> rpcf f <> RPanic why.
Check C08_bounded_solo :
  forall ls s fs es j f cs k,
  run init_world ls = ((s, fs), es) -> nth_error fs j = Some f ->
  (spur cs <= k)%nat -> (5 + k <= length cs)%nat ->
  forall s' fs' es', run (s, fs) (solo_labels j cs) = ((s', fs'), es') ->
  exists f', nth_error fs' j = Some f' /\ fpc f' = PDone /\
             (forall i, i <> j -> nth_error fs' i = nth_error fs i).
Check C08_bounded_solo_ra :
  forall ls j f cs k,
  let w := rrun rinit_world ls in
  nth_error (snd w) j = Some f -> (nonzeros cs <= k)%nat -> (8 + 2 * k <= length cs)%nat ->
  exists f', nth_error (snd (rrun w (rsolo j cs))) j = Some f' /\ rpcf f' = RDone /\
             (forall i, i <> j -> nth_error (snd (rrun w (rsolo j cs))) i = nth_error (snd w) i).
Check C08_step_progress :
  forall ls s fs es j f c s' f' es',
  run init_world ls = ((s, fs), es) -> nth_error fs j = Some f -> fstep s f c = (s', f', es') ->
  c <> 1%nat -> fpc f <> PDone -> (mu s' f' < mu s f)%nat.
Print Assumptions C08_no_panic.
Print Assumptions C08_no_panic_ra.
Print Assumptions C08_bounded_solo.
Print Assumptions C08_bounded_solo_ra.
Print Assumptions C08_step_progress.
