From Coq Require Import List Arith NArith ZArith Bool.
From SH Require Import base.Pool gen.Extracted_channel channel.Defs channel.Word channel.Model channel.Skeleton
  channel.Inv channel.Steps channel.Fifo channel.Account channel.Reach channel.ModelRA channel.InvRA channel.FifoRA props.C06.
Import ListNotations.
Local Open Scope N_scope.
Check C06_words :
  forall l, valid l ->
  decode (encode l) = l /\ encode l < 32768 /\
  dequeue_word (encode l) = match l with [] => None | h :: t => Some (h, encode t) end /\
  enq_find (encode l) = (if (length l <? 5)%nat then Some (N.of_nat (length l)) else None) /\
  (forall v, (length l < 5)%nat -> In v idxs -> ~ In v l -> enqueue_word (encode l) v = Some (encode (l ++ [v]))).
Check C06_valid_words_counted :
  length valid_lists = 326%nat /\ (forall l, valid l -> In l valid_lists) /\ new_words = Some (encode idxs, encode []).
Check C06_fifo :
  forall ls s fs es,
  run init_world ls = ((s, fs), es) ->
  map fst (g_in s) = g_out s ++ decode (qf s) /\
  (forall k f v, nth_error fs k = Some f -> fkind f = KRecv -> got f = Some v ->
     exists t i, tick f = Some t /\ nth_error (g_in s) t = Some (i, v) /\ nth_error (g_out s) t = Some i) /\
  (forall k f v t, nth_error fs k = Some f -> fkind f = KSend v -> tick f = Some t ->
     nth_error (g_in s) t = Some (idx f, v) /\ fpc f = PDone) /\
  (forall j k f g t, j <> k -> nth_error fs j = Some f -> nth_error fs k = Some g ->
     (fkind f = KRecv <-> fkind g = KRecv) -> tick f = Some t -> tick g = Some t -> False) /\
  (forall t, (t < length (g_out s))%nat -> exists k f, nth_error fs k = Some f /\ fkind f = KRecv /\ tick f = Some t) /\
  (forall t, (t < length (g_in s))%nat -> exists k f v, nth_error fs k = Some f /\ fkind f = KSend v /\ tick f = Some t).
Check C06_effects_ordered :
  forall ls1 ls2 s1 fs1 es1 s2 fs2 es2,
  run init_world ls1 = ((s1, fs1), es1) -> run (s1, fs1) ls2 = ((s2, fs2), es2) ->
  (exists a, g_in s2 = g_in s1 ++ a) /\ (exists b, g_out s2 = g_out s1 ++ b) /\
  (forall k f, nth_error fs1 k = Some f -> exists f', nth_error fs2 k = Some f' /\ fkind f' = fkind f /\
      (forall t, tick f = Some t -> tick f' = Some t) /\
      (forall t, tick f = None -> tick f' = Some t ->
         match fkind f with KSend _ => (length (g_in s1) <= t)%nat | KRecv => (length (g_out s1) <= t)%nat end)) /\
  (forall k f' t, nth_error fs1 k = None -> nth_error fs2 k = Some f' -> tick f' = Some t ->
         match fkind f' with KSend _ => (length (g_in s1) <= t)%nat | KRecv => (length (g_out s1) <= t)%nat end).
Check C06_drop_only_when_full :
  forall ls s fs es k f c s' f' es',
  run init_world ls = ((s, fs), es) -> nth_error fs k = Some f -> fstep s f c = (s', f', es') ->
  dropped s' <> dropped s ->
  exists v, fkind f = KSend v /\ dropped s' = dropped s ++ [v] /\ fpc f' = PDone /\ tick f' = None /\
    qe s = 0 /\ decode (qe s) = [] /\ holds f = None /\
    (length (decode (qf s)) + cnt holding fs = 5)%nat.
Check C06_empty_only_when_empty :
  forall ls s fs es k f c s' f' es',
  run init_world ls = ((s, fs), es) -> nth_error fs k = Some f -> fstep s f c = (s', f', es') ->
  fkind f = KRecv -> fpc f <> PDone -> fpc f' = PDone -> got f' = None ->
  qf s = 0 /\ decode (qf s) = [] /\ map fst (g_in s) = g_out s /\ tick f' = None.
Check C06_fifo_ra :
  forall ls,
  let w := grun ginit_world ls in
  let s := fst (fst w) in let fs := snd (fst w) in let g := snd w in
  fst w = rrun rinit_world ls /\
  map fst (gi g) = go g ++ decode (mval (lastm (mf s))) /\
  (forall k f v, nth_error fs k = Some f -> rkind f = KRecv -> rgot f = Some v ->
     exists t i, tick_of g k = Some t /\ nth_error (gi g) t = Some (i, v) /\ nth_error (go g) t = Some i) /\
  (forall k f v t, nth_error fs k = Some f -> rkind f = KSend v -> tick_of g k = Some t ->
     nth_error (gi g) t = Some (ridx f, v) /\ rpcf f = RDone) /\
  (forall j k f f2 t, j <> k -> nth_error fs j = Some f -> nth_error fs k = Some f2 ->
     (rkind f = KRecv <-> rkind f2 = KRecv) -> tick_of g j = Some t -> tick_of g k = Some t -> False).
Check C06_gives_up_on_zero_ra_partial :
  forall ls k f c s' f',
  let s := fst (rrun rinit_world ls) in let fs := snd (rrun rinit_world ls) in
  nth_error fs k = Some f -> rstep s f c = (s', f') ->
  rpcf f = RDeqLoad \/ rpcf f = RDeqCas -> rpcf f' = RDone ->
  exists t m, (rview f (qloc (deq_q (rkind f))) <= t)%nat /\
              nth_error (msgs s (deq_q (rkind f))) t = Some m /\ mval m = 0.
Print Assumptions C06_words.
Print Assumptions C06_valid_words_counted.
Print Assumptions C06_fifo.
Print Assumptions C06_effects_ordered.
Print Assumptions C06_drop_only_when_full.
Print Assumptions C06_empty_only_when_empty.
Print Assumptions C06_fifo_ra.
Print Assumptions C06_gives_up_on_zero_ra_partial.
