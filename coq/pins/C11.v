From Coq Require Import List Arith ZArith Bool.
From SH Require Import base.Pool gen.Extracted_iter iter.Model props.C11.
Import ListNotations.
Check C11_sticky :
  forall raw c ls1 ls2,
  closed (w_sh (reach raw c ls1)) = true -> closed (w_sh (reach raw c (ls1 ++ ls2))) = true.
Check C11_close_sets_flag :
  forall raw c ls k p, 1 <= c ->
  nth_error (w_fr (reach raw c ls)) k = Some (mkFrame FK p) -> p <> F0 ->
  closed (w_sh (reach raw c ls)) = true.
Check C11_pending_means_armed :
  forall raw c ls, 1 <= c ->
  let w := reach raw c ls in
  cpc_ (w_co w) = CIdle -> cres_ (w_co w) = RPending ->
  cop (w_co w) = OPoll /\ cb_last (w_co w) = Some false /\ 1 <= ncb (w_co w) /\
  (armed (w_sh w) = true \/ notified (w_sh w) = true).
Print Assumptions C11_sticky.
Print Assumptions C11_close_sets_flag.
Print Assumptions C11_pending_means_armed.
From SH Require Import iter.Close.
Check C11_not_blocked_after_close :
  forall raw c ls, 1 <= c ->
  let w := reach raw c ls in
  closew (w_sh w) = true -> cpc_ (w_co w) = CRead -> 0 < pipe (w_sh w).
Check C11_unblocks :
  forall raw c ls, 1 <= c ->
  let w := reach raw c ls in
  closew (w_sh w) = true ->
  exists n, n <= MAX_SIGNUM + 3 /\ cpc_ (w_co (csolo n w)) = CIdle /\
            (n = 0 \/ cres_ (w_co (csolo n w)) <> RPending).
Check C11_forever_ends :
  forall w, closed (w_sh w) = true -> cpc_ (w_co w) = CP1 ->
  cpc_ (w_co (cstep_w w)) = CIdle /\ cres_ (w_co (cstep_w w)) = RClosed.
Check C11_close_notifies_parked :
  forall raw c ls, 1 <= c ->
  let w := reach raw c ls in
  closew (w_sh w) = true -> cpc_ (w_co w) = CIdle -> cres_ (w_co w) = RPending -> notified (w_sh w) = true.
Print Assumptions C11_not_blocked_after_close.
Print Assumptions C11_unblocks.
Print Assumptions C11_forever_ends.
Print Assumptions C11_close_notifies_parked.
