From Coq Require Import List Arith ZArith Bool.
From SH Require Import base.Pool gen.Extracted_iter iter.Model props.C11.
Import ListNotations.
Check C11_sticky :
  forall raw c ls1 ls2,
  closed (w_sh (reach raw c ls1)) = true -> closed (w_sh (reach raw c (ls1 ++ ls2))) = true.
Check C11_close_sets_flag :
  forall raw c ls k p, 1 <= c ->
  nth_error (w_fr (reach raw c ls)) k = Some (mkFrame FK p) -> p <> F0 ->
  closed (w_sh (reach raw c ls)) = true.
Check C11_pending_means_armed :
  forall raw c ls, 1 <= c ->
  let w := reach raw c ls in
  cpc_ (w_co w) = CIdle -> cres_ (w_co w) = RPending ->
  cop (w_co w) = OPoll /\ cb_last (w_co w) = Some false /\ 1 <= ncb (w_co w) /\
  (armed (w_sh w) = true \/ notified (w_sh w) = true).
Print Assumptions C11_sticky.
Print Assumptions C11_close_sets_flag.
Print Assumptions C11_pending_means_armed.
From SH Require Import iter.Close.
Check C11_not_blocked_after_close :
  forall raw c ls, 1 <= c ->
  let w := reach raw c ls in
  closew (w_sh w) = true -> cpc_ (w_co w) = CRead -> 0 < pipe (w_sh w).
Check C11_unblocks :
  forall raw c ls, 1 <= c ->
  let w := reach raw c ls in
  closew (w_sh w) = true ->
  exists n, n <= MAX_SIGNUM + 3 /\ cpc_ (w_co (csolo n w)) = CIdle /\
            (n = 0 \/ cres_ (w_co (csolo n w)) <> RPending).
Check C11_forever_ends :
  forall w, closed (w_sh w) = true -> cpc_ (w_co w) = CP1 ->
  cpc_ (w_co (cstep_w w)) = CIdle /\ cres_ (w_co (cstep_w w)) = RClosed.
Check C11_close_notifies_parked :
  forall raw c ls, 1 <= c ->
  let w := reach raw c ls in
  closew (w_sh w) = true -> cpc_ (w_co w) = CIdle -> cres_ (w_co w) = RPending -> notified (w_sh w) = true.
Print Assumptions C11_not_blocked_after_close.
Print Assumptions C11_unblocks.
Print Assumptions C11_forever_ends.
Print Assumptions C11_close_notifies_parked.
From SH Require Import iter.Adapter.
Check C11_adapter_pending_means_waker_registered :
  forall (poll_read : shared -> rres * shared),
  (forall s, pipe s = 0 -> poll_read s = (RdPending, set_pipe s 0 true (notified s))) ->
  (forall s p, pipe s = S p -> poll_read s = (RdReady 1, set_pipe s p (armed s) (notified s))) ->
  forall pm cm,
  (pm, cm) = (tokio_poll_map, tokio_cb_map) \/ (pm, cm) = (asyncstd_poll_map, asyncstd_cb_map) ->
  forall raw c ls, 1 <= c ->
  let w := reach raw c ls in
  cpc_ (w_co w) = CIdle -> adapter_poll_next pm w = APending ->
  cop (w_co w) = OPoll /\ 1 <= ncb (w_co w) /\ cb_last (w_co w) = Some false /\
  (forall s, fst (adapter_cb poll_read cm s) = Some false ->
             fst (poll_read s) = RdPending /\ armed (snd (poll_read s)) = true) /\
  (armed (w_sh w) = true \/ notified (w_sh w) = true).
Check C11_adapter_closed_ends_stream :
  forall pm cm,
  (pm, cm) = (tokio_poll_map, tokio_cb_map) \/ (pm, cm) = (asyncstd_poll_map, asyncstd_cb_map) ->
  forall raw c ls, 1 <= c ->
  let w := reach raw c ls in
  closew (w_sh w) = true ->
  (cop (w_co w) = OPoll -> cpc_ (w_co w) <> CIdle ->
     exists n, 1 <= n /\ n <= MAX_SIGNUM + 3 /\ cpc_ (w_co (csolo n w)) = CIdle /\
               (adapter_poll_next pm (csolo n w) = AReadyNone \/ adapter_poll_next pm (csolo n w) = AReadySome)) /\
  (cpc_ (w_co w) = CP1 -> cpc_ (w_co (cstep_w w)) = CIdle /\ adapter_poll_next pm (cstep_w w) = AReadyNone) /\
  (cpc_ (w_co w) = CIdle -> adapter_poll_next pm w = APending -> notified (w_sh w) = true).
Print Assumptions C11_adapter_pending_means_waker_registered.
Print Assumptions C11_adapter_closed_ends_stream.
