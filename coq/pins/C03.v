From Coq Require Import List NArith ZArith Bool.
From SH Require Import base.Pool gen.Extracted_halflock halflock.Model registry.Model registry.Events registry.Deliver props.C03.
Import ListNotations.
Check C03_handler_ops_only :
  forall (q_ok s_ok : Z -> bool) os0 ls s fs es,
  run q_ok s_ok (sh_init os0, []) ls = ((s, fs), es) ->
  forall k f sg s' f' es', nth_error fs k = Some f -> kind f = KDeliver sg ->
    fstep q_ok s_ok s f = (s', f', es') ->
    forallb handler_op es' = true /\ forallb (fun e => negb (forbidden_in_handler e)) es' = true.
Check C03_bounded_solo :
  forall (q_ok s_ok : Z -> bool) os0 ls s fs es,
  run q_ok s_ok (sh_init os0, []) ls = ((s, fs), es) ->
  forall k f sg, nth_error fs k = Some f -> kind f = KDeliver sg ->
    (N.of_nat (length fs) <= MAX_GUARDS)%N -> live s ->
    let '(s', f', es') := solo q_ok s_ok (rmeasure s f) s f in
    fpc f' = PDone /\ forallb handler_op es' = true.
Check C03_bound_is_small :
  forall s f, (rmeasure s f <= 12 + Nat.max (hist_len s) (match fpc f with PPrev _ a | PRun a => length a | _ => 0 end))%nat.
Print Assumptions C03_handler_ops_only.
Print Assumptions C03_bounded_solo.
Print Assumptions C03_bound_is_small.
