(** Activity pools: lists updated at an index, and counting by predicate (DESIGN 3.1). *)
From Coq Require Import List Arith Lia Bool.
Import ListNotations.

Section Pool.
Context {A : Type}.

Fixpoint upd (l : list A) (k : nat) (x : A) : list A :=
  match l, k with
  | [], _ => []
  | _ :: t, 0 => x :: t
  | h :: t, S k' => h :: upd t k' x
  end.

Lemma upd_length l k x : length (upd l k x) = length l.
Proof. revert k; induction l as [|h t IH]; intros [|k]; simpl; auto. Qed.

Lemma nth_upd_eq l k x : k < length l -> nth_error (upd l k x) k = Some x.
Proof. revert k; induction l as [|h t IH]; intros [|k] H; simpl in *; try lia; auto. apply IH; lia. Qed.

Lemma nth_upd_neq l k j x : j <> k -> nth_error (upd l k x) j = nth_error l j.
Proof.
  revert k j; induction l as [|h t IH]; intros [|k] [|j] H; simpl; auto; try congruence.
Qed.

Lemma nth_upd_cases l k j x y :
  nth_error (upd l k x) j = Some y ->
  (j = k /\ k < length l /\ y = x) \/ (j <> k /\ nth_error l j = Some y).
Proof.
  intro H. destruct (Nat.eq_dec j k) as [->|Hne].
  - left. assert (k < length l).
    { rewrite <- (upd_length l k x). apply nth_error_Some. congruence. }
    rewrite nth_upd_eq in H by assumption. inversion H; auto.
  - right. rewrite nth_upd_neq in H by assumption. auto.
Qed.

Lemma upd_same l k x : nth_error l k = Some x -> upd l k x = l.
Proof. revert k; induction l as [|h t IH]; intros [|k] H; simpl in *; try congruence. f_equal; auto. Qed.

Lemma nth_app_cases (l : list A) x j y :
  nth_error (l ++ [x]) j = Some y -> nth_error l j = Some y \/ (j = length l /\ y = x).
Proof.
  intro H. destruct (lt_dec j (length l)).
  - rewrite nth_error_app1 in H by assumption. auto.
  - rewrite nth_error_app2 in H by lia. destruct (j - length l) eqn:E; simpl in H.
    + inversion H. right. split; [lia|reflexivity].
    + destruct n0; discriminate.
Qed.

Definition b2n (b : bool) : nat := if b then 1 else 0.

Definition cnt (P : A -> bool) (l : list A) : nat := length (filter P l).

Lemma cnt_cons P x l : cnt P (x :: l) = b2n (P x) + cnt P l.
Proof. unfold cnt; simpl. destruct (P x); reflexivity. Qed.

Lemma cnt_app P l1 l2 : cnt P (l1 ++ l2) = cnt P l1 + cnt P l2.
Proof. unfold cnt. rewrite filter_app, app_length. reflexivity. Qed.

Lemma cnt_upd P l k x y :
  nth_error l k = Some x -> cnt P (upd l k y) + b2n (P x) = cnt P l + b2n (P y).
Proof.
  revert k; induction l as [|h t IH]; intros [|k] H; simpl in *; try discriminate.
  - inversion H; subst. rewrite !cnt_cons. lia.
  - rewrite !cnt_cons. specialize (IH k H). lia.
Qed.

Lemma cnt_pos P l k x : nth_error l k = Some x -> P x = true -> 1 <= cnt P l.
Proof.
  revert k; induction l as [|h t IH]; intros [|k] H Hp; simpl in *; try discriminate.
  - inversion H; subst. rewrite cnt_cons, Hp. simpl. lia.
  - rewrite cnt_cons. specialize (IH k H Hp). lia.
Qed.

Lemma cnt_zero_none P l k x : cnt P l = 0 -> nth_error l k = Some x -> P x = false.
Proof.
  intros Hz Hn. destruct (P x) eqn:E; auto. pose proof (cnt_pos P l k x Hn E). lia.
Qed.

Lemma cnt_le_length P l : cnt P l <= length l.
Proof. unfold cnt. induction l as [|h t IH]; simpl; auto. destruct (P h); simpl; lia. Qed.

End Pool.

Lemma map_upd {A B} (f : A -> B) l k x : map f (upd l k x) = upd (map f l) k (f x).
Proof. revert k; induction l as [|h t IH]; intros [|k]; simpl; auto. f_equal; auto. Qed.

Lemma nth_map_some {A B} (f : A -> B) l k x : nth_error l k = Some x -> nth_error (map f l) k = Some (f x).
Proof. intro H. rewrite nth_error_map, H. reflexivity. Qed.

Lemma cnt_two {A} (P : A -> bool) l j k x y :
  j <> k -> nth_error l j = Some x -> nth_error l k = Some y -> P x = true -> P y = true -> 2 <= cnt P l.
Proof.
  revert j k; induction l as [|h t IH]; intros [|j] [|k] Hne Hj Hk Px Py; simpl in *; try discriminate; try congruence.
  - inversion Hj; subst. rewrite cnt_cons, Px. pose proof (cnt_pos P t k y Hk Py). simpl. lia.
  - inversion Hk; subst. rewrite cnt_cons, Py. pose proof (cnt_pos P t j x Hj Px). simpl. lia.
  - rewrite cnt_cons. assert (j <> k) by congruence. specialize (IH j k H Hj Hk Px Py). lia.
Qed.

Lemma upd_upd {A} (l : list A) k x y : upd (upd l k x) k y = upd l k y.
Proof. revert k; induction l as [|h t IH]; intros [|k]; simpl; auto. f_equal; auto. Qed.
