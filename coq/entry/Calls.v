(** Complete call lists of the functions component [entry] is modelled on, as they were when the
    model was written (translator/calls.py extracts the current ones on every run).  A lemma that
    fails names the function whose calls changed: re-read it, adapt the model if needed, then
    restate the list. *)
From Coq Require Import List String.
From SH Require Import gen.Extracted_calls_entry.
Import ListNotations. Open Scope string_scope.

Lemma calls_register_ok : calls_register =
  ["register_sigaction_impl"; "action"].
Proof. reflexivity. Qed.

Lemma calls_register_sigaction_ok : calls_register_sigaction =
  ["register_sigaction_impl"].
Proof. reflexivity. Qed.

Lemma calls_register_sigaction_impl_ok : calls_register_sigaction_impl =
  ["assert!"; ".contains"; "register_unchecked_impl"].
Proof. reflexivity. Qed.

Lemma calls_register_signal_unchecked_ok : calls_register_signal_unchecked =
  ["register_unchecked_impl"; "action"].
Proof. reflexivity. Qed.

Lemma calls_register_unchecked_ok : calls_register_unchecked =
  ["register_unchecked_impl"].
Proof. reflexivity. Qed.

Lemma calls_register_unchecked_impl_ok : calls_register_unchecked_impl =
  ["GlobalData::ensure"; "Arc::from"; ".write"; "SignalData::clone"; "ActionId"; ".entry"; "Entry::Occupied"; "assert!"; ".get_mut"; ".insert"; ".is_none"; "Entry::Vacant"; ".write"; ".store"; "Prev::detect"; "?"; "Slot::new"; "?"; ".insert"; ".insert"; ".store"].
Proof. reflexivity. Qed.

Lemma calls_unregister_ok : calls_unregister =
  ["GlobalData::ensure"; ".write"; "SignalData::clone"; ".get_mut"; ".remove"; ".is_some"; ".store"].
Proof. reflexivity. Qed.

Lemma calls_unregister_signal_ok : calls_unregister_signal =
  ["GlobalData::ensure"; ".write"; "SignalData::clone"; ".get_mut"; ".is_empty"; ".clear"; ".store"].
Proof. reflexivity. Qed.

Lemma calls_pipe_register_raw_ok : calls_pipe_register_raw =
  ["libc::getsockopt"; ".set_flags"; "?"; ".wake"; "super::register"].
Proof. reflexivity. Qed.

Lemma calls_pipe_register_ok : calls_pipe_register =
  ["register_raw"; ".into_raw_fd"].
Proof. reflexivity. Qed.

Lemma calls_flag_register_ok : calls_flag_register =
  ["low_level::register"; ".store"].
Proof. reflexivity. Qed.

Lemma calls_handle_add_signal_ok : calls_handle_add_signal =
  [".lock"; ".unwrap_or_else"; ".is_some"; "return"; "Arc::clone"; ".add_signal"; "Arc::clone"; "?"].
Proof. reflexivity. Qed.

Lemma calls_pending_add_signal_ok : calls_pending_add_signal =
  ["assert!"; "assert!"; "assert!"; ".supports_signal"; ".init"; ".store"; ".wake_readers"; "signal_hook_registry::register_sigaction"; "?"].
Proof. reflexivity. Qed.

Lemma calls_with_pipe_ok : calls_with_pipe =
  ["Arc::new"; "PendingSignals::new"; "Arc::clone"; "Handle::new"; ".add_signal"; ".borrow"; "?"].
Proof. reflexivity. Qed.
