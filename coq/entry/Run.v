(** Executable entry point of the entry model for the correspondence check (integer-list
    interface, see ocaml/main_template.ml; mirrored in checks/c14.py).

    input   [ep; fdk; sig;  nq; q_1..q_nq;  ns; s_1..s_ns;  d_1..d_64;  npre; (ep fdk sig)*npre]
      ep    0 register 1 register_sigaction 2 flag::register 3 flag::register_usize
            4 flag::register_conditional_shutdown 5 flag::register_conditional_default
            6 pipe::register 7 pipe::register_raw 8 Signals::new(&[sig]) 9 Signals::add_signal
            10 Handle::add_signal 11 register_signal_unchecked 12 register_unchecked
            (-1: no call, dump the state reached by the pre-operations)
      fdk   0 socket 1 pipe 2 invalid descriptor
      q_i   numbers for which sigaction(n, NULL, &old) succeeds (measured by the probe)
      s_i   numbers for which sigaction(n, &new, &old) succeeds (measured by the probe)
      pre   calls made before (applied by this same model, in order, from the initial state)
      d_i   initial disposition of signal i: 0 default 1 ignore 2 foreign handler 3 library handler
    output  [oc; od; next_id; fallback (-1 none); released mask; kept mask; leaked mask; |inst|;
             d_1..d_64 after;  (sig, number of actions)* for every slot of the registry]
      oc/od 0 Ok(id=od) 1 Ok(()) 2 Err(os) 3 Err(precheck, errno=od) 4 Err(descriptor)
            5 Panic(od: 1 forbidden 2 index 3 assert>=0 4 assert<MAX 5 supports 6 fresh-id 7 stuck)
      mask  RFlag 1, RFd 2, RArcPending 4, RArcWrite 8, RInstance 16, RAction 32 *)
From Coq Require Import ZArith NArith List Bool.
From SH Require Import gen.Extracted_entry entry.Model.
Import ListNotations. Open Scope Z_scope.

Definition ep_of (z : Z) : option fn_id := nth_error (checked_eps ++ unchecked_eps) (Z.to_nat z).
Definition fdk_of (z : Z) : fdkind := if z =? 0 then FdSocket else if z =? 1 then FdPipe else FdBad.
Definition disp_code (d : disp) : Z := match d with Dfl => 0 | Ign => 1 | Foreign => 2 | Lib => 3 end.
Definition disp_of_code (z : Z) : disp := if z =? 1 then Ign else if z =? 2 then Foreign else if z =? 3 then Lib else Dfl.
Definition res_bit (r : res) : Z := match r with RAction => 32 | RFlag => 1 | RFd => 2 | RArcPending => 4 | RArcWrite => 8 | RInstance => 16 end.
Definition mask (l : list res) : Z := fold_left (fun a r => a + res_bit r) l 0.
Definition why_code (w : pwhy) : Z :=
  match w with PForbidden => 1 | PIndex => 2 | PAssertNonneg => 3 | PAssertLtMax => 4 | PAssertSupports => 5
             | PAssertFreshId => 6 | PStuck => 7 end.
Definition out_code (x : outcome) : Z * Z :=
  match x with
  | OkId n => (0, Z.of_N n) | OkUnit => (1, 0) | Err EOs => (2, 0) | Err (EPrecheck e) => (3, e) | Err EFd => (4, 0)
  | Panic w => (5, why_code w)
  end.

Definition mem (l : list Z) (s : Z) : bool := existsb (Z.eqb s) l.

Fixpoint table (ds : list Z) (i : Z) (s : Z) : disp :=
  match ds with
  | [] => Dfl
  | d :: t => if s =? i then disp_of_code d else table t (i + 1) s
  end.

Fixpoint apply_pre (o : os) (n : nat) (l : list Z) (st : state) : state * list Z :=
  match n with
  | O => (st, l)
  | S n' =>
      match l with
      | e :: k :: s :: rest =>
          let st' := match ep_of e with
                     | Some f => r_state (entry o (fdk_of k) f s st)
                     | None => st
                     end in
          apply_pre o n' rest st'
      | _ => (st, [])
      end
  end.

Definition sigs64 : list Z := map Z.of_nat (seq 1 64).

Definition dump (oc od : Z) (r_rel r_kept r_leak : list res) (st : state) : list Z :=
  [oc; od; Z.of_N (next_id st); match fallback st with Some s => s | None => -1 end;
   mask r_rel; mask r_kept; mask r_leak; Z.of_nat (length (inst st))]
  ++ map (fun s => disp_code (disp_of st s)) sigs64
  ++ flat_map (fun p => [fst p; Z.of_nat (length (snd p))]) (reg st).

Definition run_entry (inp : list Z) : list Z :=
  match inp with
  | e :: k :: sig :: nq :: rest =>
      let qs := firstn (Z.to_nat nq) rest in
      match skipn (Z.to_nat nq) rest with
      | ns :: rest2 =>
          let ss := firstn (Z.to_nat ns) rest2 in
          let rest3 := skipn (Z.to_nat ns) rest2 in
          let ds := firstn 64 rest3 in
          match skipn 64 rest3 with
          | npre :: rest4 =>
              let o := {| os_query := mem qs; os_set := mem ss |} in
              let st := fst (apply_pre o (Z.to_nat npre) rest4 (init_state (table ds 1))) in
              match ep_of e with
              | Some f =>
                  let r := entry o (fdk_of k) f sig st in
                  let '(oc, od) := out_code (r_out r) in
                  dump oc od (r_released r) (r_kept r) (r_leaked r) (r_state r)
              | None => dump (-1) 0 [] [] [] st
              end
          | _ => [-99]
          end
      | _ => [-99]
      end
  | _ => [-99]
  end.
