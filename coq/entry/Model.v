(** Model of the registration entry points (property C14, DESIGN 5.14).

    Every function on the way from a public registration entry point down to
    [register_unchecked_impl] is given by its operation skeleton in the generated file
    [Extracted_entry] (translator/entry.py: one operation per statement part, in evaluation
    order, [?] placement included).  This file only says what ONE operation does to the
    abstract state; the entry points themselves are the interpreter [run] applied to the
    generated [body] table - nothing about the order of operations is restated here.

    Abstract state of the process between two library calls:
      - [disp_of]  the kernel's disposition of every signal number
      - [reg], [next_id]  the published [SignalData] (per signal: the action ids of its slot)
      - [fallback] the [race_fallback] cell (signal of the stored [Prev])
      - [inst]     the signals already added to the iterator instance the call operates on
    The operating system is the record [os]: [os_query s] = sigaction(s, NULL, &old) succeeds
    ([Prev::detect]), [os_set s] = sigaction(s, &new, &old) succeeds ([Slot::new]).  On Linux the
    query of SIGKILL/SIGSTOP succeeds and setting them fails; invalid numbers fail both.  The
    probe measures both verdicts per number on every run.

    Ownership: [f_locals] are resources owned by locals/parameters of the functions on the call
    stack (dropped at ANY exit: return, [?], unwinding), [f_action] those captured by the action
    closure (dropped at exit unless the action sits in the published snapshot), [f_raw] raw
    descriptors nobody owns (never closed).  No proofs here. *)
From Coq Require Import ZArith NArith List Bool.
From SH Require gen.Extracted_details.
From SH Require Import gen.Extracted_entry.
Import ListNotations. Open Scope Z_scope.

Inductive disp := Dfl | Ign | Foreign | Lib.
Record os := { os_query : Z -> bool; os_set : Z -> bool }.
Definition registry := list (Z * list N).

Record state := {
  disp_of : Z -> disp;
  reg : registry;
  next_id : N;
  fallback : option Z;
  inst : list Z
}.

(** what the descriptor handed to pipe::register / register_raw is *)
Inductive fdkind := FdSocket | FdPipe | FdBad.

Inductive perr := EOs | EPrecheck (errno : Z) | EFd.
Inductive pwhy := PForbidden | PIndex | PAssertNonneg | PAssertLtMax | PAssertSupports | PAssertFreshId | PStuck.
Inductive outcome := OkId (id : N) | OkUnit | Err (e : perr) | Panic (w : pwhy).

Inductive awhere := ALocal | ASlot | AClone.
Record frame := {
  f_locals : list res;
  f_raw : list res;
  f_action : list res;
  f_where : awhere;
  f_published : bool;
  f_clone : option (registry * N);
  f_id : option N;
  f_prev : option Z;
  f_slot : option (list N);
  f_result : option outcome     (* `let r = callee(..)` : result kept for a later `r` *)
}.

Definition set_locals fr v := {| f_locals := v; f_raw := f_raw fr; f_action := f_action fr; f_where := f_where fr; f_published := f_published fr; f_clone := f_clone fr; f_id := f_id fr; f_prev := f_prev fr; f_slot := f_slot fr; f_result := f_result fr |}.
Definition set_raw fr v := {| f_locals := f_locals fr; f_raw := v; f_action := f_action fr; f_where := f_where fr; f_published := f_published fr; f_clone := f_clone fr; f_id := f_id fr; f_prev := f_prev fr; f_slot := f_slot fr; f_result := f_result fr |}.
Definition set_action fr v := {| f_locals := f_locals fr; f_raw := f_raw fr; f_action := v; f_where := f_where fr; f_published := f_published fr; f_clone := f_clone fr; f_id := f_id fr; f_prev := f_prev fr; f_slot := f_slot fr; f_result := f_result fr |}.
Definition set_where fr v := {| f_locals := f_locals fr; f_raw := f_raw fr; f_action := f_action fr; f_where := v; f_published := f_published fr; f_clone := f_clone fr; f_id := f_id fr; f_prev := f_prev fr; f_slot := f_slot fr; f_result := f_result fr |}.
Definition set_published fr v := {| f_locals := f_locals fr; f_raw := f_raw fr; f_action := f_action fr; f_where := f_where fr; f_published := v; f_clone := f_clone fr; f_id := f_id fr; f_prev := f_prev fr; f_slot := f_slot fr; f_result := f_result fr |}.
Definition set_clone fr v := {| f_locals := f_locals fr; f_raw := f_raw fr; f_action := f_action fr; f_where := f_where fr; f_published := f_published fr; f_clone := v; f_id := f_id fr; f_prev := f_prev fr; f_slot := f_slot fr; f_result := f_result fr |}.
Definition set_id fr v := {| f_locals := f_locals fr; f_raw := f_raw fr; f_action := f_action fr; f_where := f_where fr; f_published := f_published fr; f_clone := f_clone fr; f_id := v; f_prev := f_prev fr; f_slot := f_slot fr; f_result := f_result fr |}.
Definition set_prev fr v := {| f_locals := f_locals fr; f_raw := f_raw fr; f_action := f_action fr; f_where := f_where fr; f_published := f_published fr; f_clone := f_clone fr; f_id := f_id fr; f_prev := v; f_slot := f_slot fr; f_result := f_result fr |}.
Definition set_slot fr v := {| f_locals := f_locals fr; f_raw := f_raw fr; f_action := f_action fr; f_where := f_where fr; f_published := f_published fr; f_clone := f_clone fr; f_id := f_id fr; f_prev := f_prev fr; f_slot := v; f_result := f_result fr |}.
Definition set_result fr v := {| f_locals := f_locals fr; f_raw := f_raw fr; f_action := f_action fr; f_where := f_where fr; f_published := f_published fr; f_clone := f_clone fr; f_id := f_id fr; f_prev := f_prev fr; f_slot := f_slot fr; f_result := v |}.

Definition st_disp st v := {| disp_of := v; reg := reg st; next_id := next_id st; fallback := fallback st; inst := inst st |}.
Definition st_data st r n := {| disp_of := disp_of st; reg := r; next_id := n; fallback := fallback st; inst := inst st |}.
Definition st_fallback st v := {| disp_of := disp_of st; reg := reg st; next_id := next_id st; fallback := v; inst := inst st |}.
Definition st_inst st v := {| disp_of := disp_of st; reg := reg st; next_id := next_id st; fallback := fallback st; inst := v |}.

Definition res_eqb (a b : res) : bool :=
  match a, b with
  | RAction, RAction | RFlag, RFlag | RFd, RFd | RArcPending, RArcPending | RArcWrite, RArcWrite | RInstance, RInstance => true
  | _, _ => false
  end.
Fixpoint has_res (r : res) (l : list res) : bool :=
  match l with
  | [] => false
  | x :: t => if res_eqb r x then true else has_res r t
  end.
(** append on resource lists (kept apart from [++] on ids / slots, which the proofs keep folded) *)
Fixpoint rcat (a b : list res) : list res :=
  match a with
  | [] => b
  | x :: t => x :: rcat t b
  end.
Fixpoint remove_one (r : res) (l : list res) : list res :=
  match l with
  | [] => []
  | x :: t => if res_eqb r x then t else x :: remove_one r t
  end.

Definition lookup (s : Z) (r : registry) : option (list N) :=
  match find (fun p => fst p =? s) r with Some p => Some (snd p) | None => None end.
Definition add_id (s : Z) (id : N) (r : registry) : registry :=
  map (fun p => if fst p =? s then (fst p, snd p ++ [id]) else p) r.
Definition set_disp (f : Z -> disp) (s : Z) (d : disp) : Z -> disp := fun x => if x =? s then d else f x.

Definition id_modulus : N := 2 ^ 128.
Definition id_succ (n : N) : N := ((n + 1) mod id_modulus)%N.

(** [signal as usize] on a 64-bit target *)
Definition as_usize (s : Z) : Z := if s <? 0 then 2 ^ 64 + s else s.
Definition known (s : Z) : bool := existsb (fun d => snd (fst d) =? s) Extracted_details.details.
Definition is_forbidden (s : Z) : bool := existsb (Z.eqb s) forbidden.
Definition in_inst (s : Z) (l : list Z) : bool := existsb (Z.eqb s) l.

Inductive step := Next (fr : frame) (st : state) | Exit (o : outcome) (fr : frame) (st : state).
Definition stuck fr st := Exit (Panic PStuck) fr st.

Definition exec_sop (o : os) (k : fdkind) (sig : Z) (call : fn_id -> frame -> state -> step)
           (s : sop) (fr : frame) (st : state) : step :=
  match s with
  | OAssertNotForbidden => if is_forbidden sig then Exit (Panic PForbidden) fr st else Next fr st
  | OCall f => match call f fr st with Exit r fr' st' => Exit r fr' st' | Next fr' st' => stuck fr' st' end
  | OCallBind f =>       (* `let r = f(..);` : whatever the callee returned is kept, execution continues *)
      match call f fr st with
      | Exit (Panic w) fr' st' => Exit (Panic w) fr' st'
      | Exit r fr' st' => Next (set_result fr' (Some r)) st'
      | Next fr' st' => stuck fr' st'
      end
  | OReturnBound => match f_result fr with Some r => Exit r fr st | None => stuck fr st end
  | OCallQ f =>
      match call f fr st with
      | Exit (OkId n) fr' st' => Next (set_id fr' (Some n)) st'
      | Exit OkUnit fr' st' => Next fr' st'
      | Exit r fr' st' => Exit r fr' st'
      | Next fr' st' => stuck fr' st'
      end
  | OEnsureGlobals | OLockData | OFallbackLock | OMutexLock | OSendProbe => Next fr st
  | OArcFromAction =>     (* the `action: F` parameter (if the caller handed one in) now lives in the Arc *)
      if has_res RAction (f_locals fr)
      then Next (set_action (set_locals fr (remove_one RAction (f_locals fr))) (rcat (f_action fr) [RAction])) st
      else Next fr st
  | OBuildInstance => Next fr (st_inst st [])      (* a new DeliveryState: no signal added yet *)
  | OCloneData => Next (set_clone fr (Some (reg st, next_id st))) st
  | OReadNextId => match f_clone fr with Some (_, n) => Next (set_id fr (Some n)) st | None => stuck fr st end
  | OIncrNextId => match f_clone fr with Some (r, n) => Next (set_clone fr (Some (r, id_succ n))) st | None => stuck fr st end
  | OAssertInsertFresh =>
      match f_clone fr, f_id fr with
      | Some (r, n), Some id =>
          match lookup sig r with
          | Some ids => if existsb (N.eqb id) ids then Exit (Panic PAssertFreshId) fr st
                        else Next (set_where (set_clone fr (Some (add_id sig id r, n))) AClone) st
          | None => stuck fr st
          end
      | _, _ => stuck fr st
      end
  | ODetect q => if os_query o sig then Next (set_prev fr (Some sig)) st
                 else if q then Exit (Err EOs) fr st else Next (set_prev fr None) st
  | OFallbackStore => Next fr (st_fallback st (f_prev fr))
  | OSlotNew q => if os_set o sig then Next (set_slot fr (Some [])) (st_disp st (set_disp (disp_of st) sig Lib))
                  else if q then Exit (Err EOs) fr st else Next (set_slot fr None) st
  | OSlotInsertAction =>
      match f_slot fr, f_id fr with
      | Some ids, Some id => Next (set_where (set_slot fr (Some (ids ++ [id]))) ASlot) st
      | _, _ => stuck fr st
      end
  | OPlaceInsert =>
      match f_slot fr, f_clone fr with
      | Some ids, Some (r, n) =>
          Next (set_where (set_clone fr (Some (r ++ [(sig, ids)], n)))
                          (match f_where fr with ASlot => AClone | w => w end)) st
      | _, _ => stuck fr st
      end
  | OPublish => match f_clone fr with Some (r, n) => Next (set_published fr true) (st_data st r n) | None => stuck fr st end
  | OReturnOkId => match f_id fr with Some id => Exit (OkId id) fr st | None => stuck fr st end
  | OReturnOkUnit => Exit OkUnit fr st
  | OReturnOkInstance => Exit OkUnit (set_locals fr (remove_one RInstance (f_locals fr))) st
  | OCapture r => if has_res r (f_locals fr)
                  then Next (set_action (set_locals fr (remove_one r (f_locals fr))) (rcat (f_action fr) [r])) st
                  else Next fr st
  | OCloneArc r => Next (set_locals fr (rcat (f_locals fr) [r])) st
  | OPrecheckSignalName => if known sig then Next fr st else Exit (Err (EPrecheck EINVAL)) fr st
  | OWakeFdNew => if has_res RFd (f_raw fr) && wakefd_drop_closes
                  then Next (set_locals (set_raw fr (remove_one RFd (f_raw fr))) (rcat (f_locals fr) [RFd])) st
                  else Next fr st
  | OSetFlags q => match k with FdBad => if q then Exit (Err EFd) fr st else Next fr st | _ => Next fr st end
  | OIntoRawFd => if has_res RFd (f_locals fr)
                  then Next (set_raw (set_locals fr (remove_one RFd (f_locals fr))) (rcat (f_raw fr) [RFd])) st
                  else Next fr st
  | OAssertNonneg => if sig <? 0 then Exit (Panic PAssertNonneg) fr st else Next fr st
  | OAssertLtMax => if as_usize sig <? MAX_SIGNUM then Next fr st else Exit (Panic PAssertLtMax) fr st
  | OAssertSupports => if signalonly_supports_all then Next fr st else Exit (Panic PAssertSupports) fr st
  | OExfilInit => if as_usize sig <? MAX_SIGNUM then Next fr st else Exit (Panic PIndex) fr st
  | OIndexIsSomeReturn =>
      if (as_usize sig <? MAX_SIGNUM) && ids_table_len_is_max
      then (if in_inst sig (inst st) then Exit OkUnit fr st else Next fr st)
      else Exit (Panic PIndex) fr st
  | OIndexAssign =>
      if (as_usize sig <? MAX_SIGNUM) && ids_table_len_is_max
      then Next fr (st_inst st (inst st ++ [sig]))
      else Exit (Panic PIndex) fr st
  | OSocketPair _ => Next (set_locals fr (rcat (f_locals fr) [RInstance])) st
  end.

Fixpoint exec_sops (o : os) (k : fdkind) (sig : Z) (call : fn_id -> frame -> state -> step)
         (l : list sop) (fr : frame) (st : state) : step :=
  match l with
  | [] => Next fr st
  | s :: rest =>
      match exec_sop o k sig call s fr st with
      | Next fr' st' => exec_sops o k sig call rest fr' st'
      | e => e
      end
  end.

Definition exec_op (o : os) (k : fdkind) (sig : Z) (call : fn_id -> frame -> state -> step)
           (p : op) (fr : frame) (st : state) : step :=
  match p with
  | Simple s => exec_sop o k sig call s fr st
  | MatchEntry occ vac =>
      match f_clone fr with
      | Some (r, _) => match lookup sig r with
                       | Some _ => exec_sops o k sig call occ fr st
                       | None => exec_sops o k sig call vac fr st
                       end
      | None => stuck fr st
      end
  | MatchProbe snd_arm wr_arm =>
      match k with
      | FdSocket => exec_sops o k sig call snd_arm fr st
      | _ => exec_sops o k sig call wr_arm fr st
      end
  | ForSignals b => exec_sops o k sig call b fr st      (* the front-end is called with the one-element list [sig] *)
  end.

Fixpoint exec_ops (o : os) (k : fdkind) (sig : Z) (call : fn_id -> frame -> state -> step)
         (l : list op) (fr : frame) (st : state) : step :=
  match l with
  | [] => Next fr st
  | p :: rest =>
      match exec_op o k sig call p fr st with
      | Next fr' st' => exec_ops o k sig call rest fr' st'
      | e => e
      end
  end.

(** [run d]: interpret the generated body of [f]; calls go to [run (d-1)].  The call graph is
    8 deep (Signals::new -> ... -> register_unchecked_impl). *)
Fixpoint run (d : nat) (o : os) (k : fdkind) (sig : Z) (f : fn_id) (fr : frame) (st : state) : step :=
  match d with
  | O => stuck fr st
  | S d' =>
      match exec_ops o k sig (run d' o k sig) (body f) fr st with
      | Next fr' st' => stuck fr' st'
      | e => e
      end
  end.

Definition owned_params (f : fn_id) : list res := map fst (filter (fun p => snd p) (params f)).
Definition raw_params (f : fn_id) : list res := map fst (filter (fun p => negb (snd p)) (params f)).
Definition all_params (f : fn_id) : list res := map fst (params f).

Definition init_frame (f : fn_id) : frame :=
  {| f_locals := owned_params f; f_raw := raw_params f; f_action := []; f_where := ALocal; f_published := false;
     f_clone := None; f_id := None; f_prev := None; f_slot := None; f_result := None |}.

(** outcome, state after, resources released (dropped/closed) during the call, resources kept
    (captured by the action that now sits in the published snapshot), resources leaked (raw
    descriptors nobody owns at the exit).  Every resource the call received or created ends in
    exactly one of the three lists (an iterator instance returned to the caller is in none). *)
Definition result := (outcome * state * list res * list res * list res)%type.
Definition r_out (r : result) : outcome := fst (fst (fst (fst r))).
Definition r_state (r : result) : state := snd (fst (fst (fst r))).
Definition r_released (r : result) : list res := snd (fst (fst r)).
Definition r_kept (r : result) : list res := snd (fst r).
Definition r_leaked (r : result) : list res := snd r.

Definition action_kept (fr : frame) : bool :=
  f_published fr && match f_where fr with AClone => true | _ => false end.

Definition finish (s : step) : result :=
  match s with
  | Exit r fr st => (r, st, rcat (f_locals fr) (if action_kept fr then [] else f_action fr),
                     (if action_kept fr then f_action fr else []), f_raw fr)
  | Next fr st => (Panic PStuck, st, rcat (f_locals fr) (f_action fr), [], f_raw fr)
  end.

Definition call_depth : nat := 10.
Definition entry (o : os) (k : fdkind) (f : fn_id) (sig : Z) (st : state) : result :=
  finish (run call_depth o k sig f (init_frame f) st).

Definition init_state (d : Z -> disp) : state :=
  {| disp_of := d; reg := []; next_id := initial_next_id; fallback := None; inst := [] |}.

(** The public entry points.  [FSignalsNew] = Signals::new(&[sig]) (fresh instance),
    [FSignalsAddSignal] / [FHandleAddSignal] operate on the instance described by [inst]. *)
Definition checked_eps : list fn_id :=
  [FRegister; FRegisterSigaction; FFlagRegister; FFlagRegisterUsize; FFlagCondShutdown; FFlagCondDefault;
   FPipeRegister; FPipeRegisterRaw; FSignalsNew; FSignalsAddSignal; FHandleAddSignal].
Definition unchecked_eps : list fn_id := [FRegisterSignalUnchecked; FRegisterUnchecked].
Definition iterator_ep (f : fn_id) : bool :=
  match f with FSignalsNew | FSignalsAddSignal | FHandleAddSignal => true | _ => false end.

(** ---- vocabulary of the C14 statements (definitions only) ---- *)
Definition accepts (o : os) (s : Z) : bool := os_query o s && os_set o s.
Definition out_of_table (s : Z) : bool := (s <? 0) || (MAX_SIGNUM <=? s).
(** the entry points take a [c_int] *)
Definition c_int (s : Z) : Prop := - 2 ^ 31 <= s < 2 ^ 31.

(** the handler consults [fallback] only when it runs for a signal without a slot; it runs only
    for signals whose disposition is the library's handler *)
Definition fallback_inert (st : state) : Prop :=
  forall s, disp_of st s = Lib -> lookup s (reg st) <> None.

(** invariant of the state between two library calls *)
Record wf (o : os) (st : state) : Prop := {
  wf_slots_accepted : forall s ids, lookup s (reg st) = Some ids -> accepts o s = true;
  wf_inert : fallback_inert st;
  wf_ids_below : forall s ids id, lookup s (reg st) = Some ids -> In id ids -> (id < next_id st)%N;
  wf_inst : forall s, In s (inst st) ->
            is_forbidden s = false /\ lookup s (reg st) <> None /\ out_of_table s = false
}.

Definition same_core (st st' : state) : Prop :=
  disp_of st' = disp_of st /\ reg st' = reg st /\ next_id st' = next_id st /\ inst st' = inst st.

(** what a refused call may have done to the race_fallback cell: nothing, or (only when the query
    succeeded and the set failed for a signal without a slot) overwritten it with [sig] *)
Definition fallback_story (o : os) (sig : Z) (st st' : state) : Prop :=
  fallback st' = fallback st \/
  (fallback st' = Some sig /\ os_query o sig = true /\ os_set o sig = false /\ lookup sig (reg st) = None).

Definition refused (o : os) (f : fn_id) (sig : Z) (st : state) (r : result) : Prop :=
  same_core st (r_state r) /\ fallback_story o sig st (r_state r) /\ fallback_inert (r_state r) /\
  incl (all_params f) (r_released r) /\ r_kept r = [] /\ r_leaked r = [].

Definition is_ok (x : outcome) : Prop := match x with OkId _ | OkUnit => True | _ => False end.

(** what an accepted call did *)
Definition registered (f : fn_id) (sig : Z) (st : state) (r : result) : Prop :=
  is_ok (r_out r) /\ r_released r = [] /\ r_leaked r = [] /\
  (disp_of (r_state r) sig = Lib \/ lookup sig (reg st) <> None) /\
  (forall s, s <> sig -> disp_of (r_state r) s = disp_of st s) /\
  lookup sig (reg (r_state r)) <> None /\ (forall s, s <> sig -> lookup s (reg (r_state r)) = lookup s (reg st)).
