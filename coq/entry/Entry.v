(** Proofs about the interpreted entry points (property C14).  Every lemma evaluates the
    interpreter [entry] on the GENERATED skeletons symbolically (all [sig : Z], all states);
    a reordered / dropped / added operation in the source changes the generated [body] table
    and makes the evaluation end in a different leaf, i.e. the lemma fails. *)
From Coq Require Import ZArith NArith List Bool Lia.
From SH Require gen.Extracted_details.
From SH Require Import gen.Extracted_entry entry.Model.
Import ListNotations. Open Scope Z_scope.

Arguments set_locals fr v /. Arguments set_raw fr v /. Arguments set_action fr v /. Arguments set_where fr v /.
Arguments set_published fr v /. Arguments set_clone fr v /. Arguments set_id fr v /. Arguments set_prev fr v /.
Arguments set_slot fr v /.
Arguments st_disp st v /. Arguments st_data st r n /. Arguments st_fallback st v /. Arguments st_inst st v /.
Arguments stuck fr st /.

Ltac ev := unfold entry, call_depth, init_frame;
  cbn -[is_forbidden lookup known in_inst as_usize Z.ltb Z.leb id_succ add_id set_disp N.eqb MAX_SIGNUM accepts out_of_table].

(** ---- small facts ---- *)
Lemma in_inst_nil : forall s, in_inst s [] = false. Proof. reflexivity. Qed.

Lemma in_inst_In : forall s l, in_inst s l = true <-> In s l.
Proof.
  intros s l. unfold in_inst. rewrite existsb_exists. split.
  - intros [x [Hin Hx]]. apply Z.eqb_eq in Hx. now subst.
  - intros H. exists s. split; auto. apply Z.eqb_refl.
Qed.

Lemma forbidden_sweep : forall (P : Z -> Prop), Forall P forbidden -> forall s, is_forbidden s = true -> P s.
Proof.
  intros P HP s H. unfold is_forbidden in H. apply existsb_exists in H. destruct H as [x [Hin Hx]].
  apply Z.eqb_eq in Hx. subst x. rewrite Forall_forall in HP. auto.
Qed.

Lemma forb_known : forall s, is_forbidden s = true -> known s = true.
Proof. apply forbidden_sweep. unfold forbidden. repeat (apply Forall_cons || apply Forall_nil); reflexivity. Qed.

Lemma forb_in_table : forall s, is_forbidden s = true ->
  (as_usize s <? MAX_SIGNUM) = true /\ (s <? 0) = false /\ out_of_table s = false.
Proof. apply forbidden_sweep. unfold forbidden. repeat (apply Forall_cons || apply Forall_nil); repeat split; reflexivity. Qed.

Lemma forbidden_list : forall s, is_forbidden s = true <->
  (s = SIGKILL \/ s = SIGSTOP \/ s = SIGILL \/ s = SIGFPE \/ s = SIGSEGV).
Proof.
  intros s. split.
  - revert s. apply forbidden_sweep. unfold forbidden, SIGKILL, SIGSTOP, SIGILL, SIGFPE, SIGSEGV.
    repeat (apply Forall_cons || apply Forall_nil); auto 6.
  - intros [H|[H|[H|[H|H]]]]; subst s; reflexivity.
Qed.

Lemma table_cases : forall s, out_of_table s = false ->
  (as_usize s <? MAX_SIGNUM) = true /\ (s <? 0) = false.
Proof.
  intros s H. unfold out_of_table in H. apply orb_false_iff in H. destruct H as [H1 H2].
  split; auto. unfold as_usize. rewrite H1. apply Z.leb_gt in H2. now apply Z.ltb_lt.
Qed.

Lemma out_of_table_index : forall s, c_int s -> out_of_table s = true -> (as_usize s <? MAX_SIGNUM) = false.
Proof.
  intros s [Hlo Hhi] H. unfold out_of_table in H. apply orb_true_iff in H. unfold as_usize.
  change (- 2 ^ 31) with (-2147483648) in Hlo. unfold MAX_SIGNUM in *.
  destruct (s <? 0) eqn:E.
  - apply Z.ltb_lt in E. apply Z.ltb_ge. change (2 ^ 64) with 18446744073709551616. lia.
  - destruct H as [H|H]; [discriminate|]. apply Z.leb_le in H. apply Z.ltb_ge. lia.
Qed.
