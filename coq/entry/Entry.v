(** Proofs about the interpreted entry points (property C14).  Every lemma evaluates the
    interpreter [entry] on the GENERATED skeletons symbolically (all [sig : Z], all states);
    a reordered / dropped / added operation in the source changes the generated [body] table
    and makes the evaluation end in a different leaf, i.e. the lemma fails. *)
From Coq Require Import ZArith NArith List Bool Lia.
From SH Require gen.Extracted_details.
From SH Require Import gen.Extracted_entry entry.Model.
Import ListNotations. Open Scope Z_scope.

Arguments set_locals fr v /. Arguments set_raw fr v /. Arguments set_action fr v /. Arguments set_where fr v /.
Arguments set_published fr v /. Arguments set_clone fr v /. Arguments set_id fr v /. Arguments set_prev fr v /.
Arguments set_slot fr v /. Arguments set_result fr v /.
Arguments st_disp st v /. Arguments st_data st r n /. Arguments st_fallback st v /. Arguments st_inst st v /.
Arguments stuck fr st /.

Lemma in_inst_nil : forall s, in_inst s [] = false. Proof. reflexivity. Qed.

(** Symbolic evaluation of [entry] on the generated skeleton: the state is split into its fields,
    the call is abstracted ([remember]) and evaluated ONCE in a hypothesis with [cbv] (everything
    about the interpreter unfolds; the atoms the outcome depends on stay folded), equations about
    the atoms that are in the context are rewritten, and so on until a result tuple is left. *)
Ltac ev_in H := unfold entry, call_depth, init_frame in H;
  cbv -[is_forbidden lookup known in_inst as_usize Z.ltb Z.leb id_succ add_id set_disp N.eqb MAX_SIGNUM
        existsb app os_query os_set] in H.
Ltac rw_atoms H :=
  repeat match goal with
  | E : ?a = ?b |- _ =>
      tryif first [is_var a | constr_eq a b] then fail else
      match type of H with context [a] => rewrite E in H end
  end.
Ltac split_state st :=
  let d := fresh "d" in let rg := fresh "rg" in let n := fresh "n" in let fb := fresh "fb" in let i := fresh "i" in
  destruct st as [d rg n fb i]; cbn [disp_of reg next_id fallback inst] in *.
Ltac eval_entry :=
  match goal with
  | |- context [entry ?o ?k ?f ?sig ?st] =>
      let r := fresh "r" in let Hr := fresh "Hr" in
      remember (entry o k f sig st) as r eqn:Hr; ev_in Hr;
      repeat (progress (rw_atoms Hr; rewrite ?in_inst_nil in Hr); ev_in Hr);
      subst r
  end.

(** ---- small facts ---- *)

Lemma in_inst_In : forall s l, in_inst s l = true <-> In s l.
Proof.
  intros s l. unfold in_inst. rewrite existsb_exists. split.
  - intros [x [Hin Hx]]. apply Z.eqb_eq in Hx. now subst.
  - intros H. exists s. split; auto. apply Z.eqb_refl.
Qed.

Lemma forbidden_sweep : forall (P : Z -> Prop), Forall P forbidden -> forall s, is_forbidden s = true -> P s.
Proof.
  intros P HP s H. unfold is_forbidden in H. apply existsb_exists in H. destruct H as [x [Hin Hx]].
  apply Z.eqb_eq in Hx. subst x. rewrite Forall_forall in HP. auto.
Qed.

Lemma forb_known : forall s, is_forbidden s = true -> known s = true.
Proof. apply forbidden_sweep. unfold forbidden. repeat (apply Forall_cons || apply Forall_nil); reflexivity. Qed.

Lemma forb_in_table : forall s, is_forbidden s = true ->
  (as_usize s <? MAX_SIGNUM) = true /\ (s <? 0) = false /\ out_of_table s = false.
Proof. apply forbidden_sweep. unfold forbidden. repeat (apply Forall_cons || apply Forall_nil); repeat split; reflexivity. Qed.

Lemma forbidden_list : forall s, is_forbidden s = true <->
  (s = SIGKILL \/ s = SIGSTOP \/ s = SIGILL \/ s = SIGFPE \/ s = SIGSEGV).
Proof.
  intros s. split.
  - revert s. apply forbidden_sweep. unfold forbidden, SIGKILL, SIGSTOP, SIGILL, SIGFPE, SIGSEGV.
    repeat (apply Forall_cons || apply Forall_nil); auto 6.
  - intros [H|[H|[H|[H|H]]]]; subst s; reflexivity.
Qed.

Lemma table_cases : forall s, out_of_table s = false ->
  (as_usize s <? MAX_SIGNUM) = true /\ (s <? 0) = false.
Proof.
  intros s H. unfold out_of_table in H. apply orb_false_iff in H. destruct H as [H1 H2].
  split; auto. unfold as_usize. rewrite H1. apply Z.leb_gt in H2. now apply Z.ltb_lt.
Qed.

Lemma out_of_table_index : forall s, c_int s -> out_of_table s = true -> (as_usize s <? MAX_SIGNUM) = false.
Proof.
  intros s [Hlo Hhi] H. unfold out_of_table in H. apply orb_true_iff in H. unfold as_usize.
  change (- 2 ^ 31) with (-2147483648) in Hlo. unfold MAX_SIGNUM in *.
  destruct (s <? 0) eqn:E.
  - apply Z.ltb_lt in E. apply Z.ltb_ge. change (2 ^ 64) with 18446744073709551616. lia.
  - destruct H as [H|H]; [discriminate|]. apply Z.leb_le in H. apply Z.ltb_ge. lia.
Qed.

(** ---- lookup algebra ---- *)
Lemma lookup_add_id : forall s sig id r,
  lookup s (add_id sig id r) = if s =? sig then option_map (fun ids => ids ++ [id]) (lookup sig r) else lookup s r.
Proof.
  intros s sig id r. unfold lookup, add_id. induction r as [|[a ids] r IH]; cbn [map find fst snd].
  - destruct (s =? sig); reflexivity.
  - destruct (a =? sig) eqn:Ea; cbn [fst snd].
    + apply Z.eqb_eq in Ea. subst a. destruct (s =? sig) eqn:Es.
      * apply Z.eqb_eq in Es. subst s. rewrite Z.eqb_refl. reflexivity.
      * rewrite Z.eqb_sym, Es. rewrite IH. reflexivity.
    + destruct (a =? s) eqn:Eas.
      * apply Z.eqb_eq in Eas. subst a. rewrite Ea. reflexivity.
      * rewrite IH. destruct (s =? sig) eqn:Es; [|reflexivity].
        apply Z.eqb_eq in Es. subst s. reflexivity.
Qed.

Lemma lookup_app : forall s sig ids r,
  lookup s (r ++ [(sig, ids)]) =
  match lookup s r with Some x => Some x | None => if sig =? s then Some ids else None end.
Proof.
  intros s sig ids r. unfold lookup. induction r as [|[a l] r IH]; cbn [app find fst snd].
  - destruct (sig =? s); reflexivity.
  - destruct (a =? s); [reflexivity|exact IH].
Qed.

Lemma fresh_below : forall (n : N) ids, (forall id, In id ids -> (id < n)%N) -> existsb (N.eqb n) ids = false.
Proof.
  intros n ids H. destruct (existsb (N.eqb n) ids) eqn:E; [|reflexivity].
  apply existsb_exists in E. destruct E as [x [Hin Hx]]. apply N.eqb_eq in Hx. subst x.
  specialize (H _ Hin). lia.
Qed.

Lemma not_in_inst_forbidden : forall o st s, wf o st -> is_forbidden s = true -> in_inst s (inst st) = false.
Proof.
  intros o st s W F. destruct (in_inst s (inst st)) eqn:E; [|reflexivity].
  apply in_inst_In in E. destruct (wf_inst _ _ W _ E) as [H _]. congruence.
Qed.

Lemma not_in_inst_out_of_table : forall o st s, wf o st -> out_of_table s = true -> in_inst s (inst st) = false.
Proof.
  intros o st s W F. destruct (in_inst s (inst st)) eqn:E; [|reflexivity].
  apply in_inst_In in E. destruct (wf_inst _ _ W _ E) as [_ [_ H]]. congruence.
Qed.

Lemma not_in_inst_unaccepted : forall o st s, wf o st -> accepts o s = false -> in_inst s (inst st) = false /\ lookup s (reg st) = None.
Proof.
  intros o st s W A. assert (L : lookup s (reg st) = None).
  { destruct (lookup s (reg st)) eqn:E; [|reflexivity]. rewrite (wf_slots_accepted _ _ W _ _ E) in A. discriminate. }
  split; [|exact L]. destruct (in_inst s (inst st)) eqn:E; [|reflexivity].
  apply in_inst_In in E. destruct (wf_inst _ _ W _ E) as [_ [H _]]. congruence.
Qed.

(** ---- the refusal clauses, for every checked entry point at once ---- *)
Ltac each_checked Hf := simpl in Hf; repeat (destruct Hf as [<-|Hf]); try contradiction.
(** case split on the descriptor kind only where the evaluation depends on it *)
Ltac pick_fd k Hk := destruct k; try (exfalso; apply Hk; reflexivity).
Ltac refused_tac W :=
  unfold refused, same_core, fallback_story, fallback_inert, r_out, r_state, r_released, r_kept, r_leaked, all_params;
  cbn [fst snd disp_of reg next_id fallback inst params map];
  repeat split; auto using incl_refl, incl_nil_l; try (apply (wf_inert _ _ W)).
Ltac new_inst Hnew := try (symmetry; apply Hnew; reflexivity).

Lemma checked_forbidden : forall o k f sig st,
  In f checked_eps -> k <> FdBad -> wf o st -> (f = FSignalsNew -> inst st = []) ->
  is_forbidden sig = true ->
  r_out (entry o k f sig st) = Panic PForbidden /\ refused o f sig st (entry o k f sig st).
Proof.
  intros o k f sig st Hf Hk W Hnew HF.
  pose proof (forb_known _ HF) as HK. destruct (forb_in_table _ HF) as [HT [HN _]].
  pose proof (not_in_inst_forbidden _ _ _ W HF) as HI.
  split_state st.
  pick_fd k Hk; each_checked Hf; eval_entry; refused_tac W; new_inst Hnew.
Qed.

Lemma checked_out_of_table : forall o k f sig st,
  In f checked_eps -> iterator_ep f = true -> wf o st -> (f = FSignalsNew -> inst st = []) ->
  c_int sig -> out_of_table sig = true ->
  r_out (entry o k f sig st) = Panic PIndex /\ refused o f sig st (entry o k f sig st).
Proof.
  intros o k f sig st Hf Hit W Hnew HC HO.
  pose proof (out_of_table_index _ HC HO) as HT.
  split_state st.
  each_checked Hf; try discriminate Hit; eval_entry; refused_tac W; new_inst Hnew.
Qed.

Lemma cond_default_unknown : forall o k sig st,
  wf o st -> known sig = false ->
  r_out (entry o k FFlagCondDefault sig st) = Err (EPrecheck EINVAL) /\
  r_state (entry o k FFlagCondDefault sig st) = st /\
  refused o FFlagCondDefault sig st (entry o k FFlagCondDefault sig st).
Proof.
  intros o k sig st W HK. split_state st. eval_entry. refused_tac W.
Qed.

Lemma checked_rejected : forall o k f sig st,
  In f checked_eps -> k <> FdBad -> wf o st -> (f = FSignalsNew -> inst st = []) ->
  is_forbidden sig = false ->
  (iterator_ep f = true -> out_of_table sig = false) ->
  (f = FFlagCondDefault -> known sig = true) ->
  accepts o sig = false ->
  r_out (entry o k f sig st) = Err EOs /\ refused o f sig st (entry o k f sig st).
Proof.
  intros o k f sig st Hf Hk W Hnew HF Hit Hcd HA.
  destruct (not_in_inst_unaccepted _ _ _ W HA) as [HI HL].
  assert (HTN : iterator_ep f = true -> (as_usize sig <? MAX_SIGNUM) = true /\ (sig <? 0) = false)
    by (intros E; apply table_cases; auto).
  unfold accepts in HA. split_state st.
  pick_fd k Hk; each_checked Hf;
    try (destruct (HTN eq_refl) as [HT HN]); try (pose proof (Hcd eq_refl) as HK);
    destruct (os_query o sig) eqn:HQ; cbn [andb] in HA; eval_entry;
    refused_tac W; new_inst Hnew; auto.
Qed.

Lemma set_disp_same : forall f s d, set_disp f s d s = d.
Proof. intros. unfold set_disp. now rewrite Z.eqb_refl. Qed.
Lemma set_disp_other : forall f s d x, x <> s -> set_disp f s d x = f x.
Proof. intros. unfold set_disp. destruct (x =? s) eqn:E; [apply Z.eqb_eq in E; contradiction|reflexivity]. Qed.
Lemma lookup_add_id_other : forall s sig id r, s <> sig -> lookup s (add_id sig id r) = lookup s r.
Proof.
  intros. rewrite lookup_add_id. destruct (s =? sig) eqn:E; [apply Z.eqb_eq in E; contradiction|reflexivity].
Qed.
Lemma lookup_app_other : forall s sig ids r, s <> sig -> lookup s (r ++ [(sig, ids)]) = lookup s r.
Proof.
  intros. rewrite lookup_app. destruct (lookup s r); [reflexivity|].
  destruct (sig =? s) eqn:E; [apply Z.eqb_eq in E; congruence|reflexivity].
Qed.
Lemma lookup_add_id_same : forall sig id r ids, lookup sig r = Some ids -> lookup sig (add_id sig id r) <> None.
Proof. intros. rewrite lookup_add_id, Z.eqb_refl, H. discriminate. Qed.
Lemma lookup_app_same : forall sig ids r, lookup sig (r ++ [(sig, ids)]) <> None.
Proof. intros. rewrite lookup_app. destruct (lookup sig r); [discriminate|]. rewrite Z.eqb_refl. discriminate. Qed.

Ltac registered_tac HL :=
  unfold registered, is_ok, r_out, r_state, r_released, r_kept, r_leaked;
  cbn [fst snd disp_of reg next_id fallback inst];
  repeat split;
  auto using set_disp_same, set_disp_other, lookup_add_id_other, lookup_app_other, lookup_app_same;
  try (right; rewrite HL; discriminate);
  try (rewrite HL; discriminate);
  try (eapply lookup_add_id_same; exact HL).

Lemma checked_accepted : forall o k f sig st,
  In f checked_eps -> k <> FdBad -> wf o st -> (f = FSignalsNew -> inst st = []) ->
  is_forbidden sig = false ->
  (iterator_ep f = true -> out_of_table sig = false) ->
  (f = FFlagCondDefault -> known sig = true) ->
  accepts o sig = true ->
  registered f sig st (entry o k f sig st).
Proof.
  intros o k f sig st Hf Hk W Hnew HF Hit Hcd HA.
  assert (HTN : iterator_ep f = true -> (as_usize sig <? MAX_SIGNUM) = true /\ (sig <? 0) = false)
    by (intros E; apply table_cases; auto).
  unfold accepts in HA. apply andb_true_iff in HA. destruct HA as [HQ HS].
  destruct (lookup sig (reg st)) as [ids|] eqn:HL.
  - pose proof (fresh_below _ _ (fun id => wf_ids_below _ _ W _ _ id HL)) as HFr.
    destruct (in_inst sig (inst st)) eqn:HI; split_state st;
    pick_fd k Hk; each_checked Hf;
      try (destruct (HTN eq_refl) as [HT HN]); try (pose proof (Hcd eq_refl) as HK);
      eval_entry; registered_tac HL.
  - destruct (in_inst sig (inst st)) eqn:HI.
    { apply in_inst_In in HI. destruct (wf_inst _ _ W _ HI) as [_ [H _]]. congruence. }
    split_state st.
    pick_fd k Hk; each_checked Hf;
      try (destruct (HTN eq_refl) as [HT HN]); try (pose proof (Hcd eq_refl) as HK);
      eval_entry; registered_tac HL.
Qed.

Lemma checked_ok_id : forall o k f sig st,
  In f checked_eps -> iterator_ep f = false -> k <> FdBad -> wf o st ->
  is_forbidden sig = false -> (f = FFlagCondDefault -> known sig = true) -> accepts o sig = true ->
  r_out (entry o k f sig st) = OkId (next_id st) /\ r_kept (entry o k f sig st) = all_params f /\
  next_id (r_state (entry o k f sig st)) = id_succ (next_id st).
Proof.
  intros o k f sig st Hf Hit Hk W HF Hcd HA.
  unfold accepts in HA. apply andb_true_iff in HA. destruct HA as [HQ HS].
  destruct (lookup sig (reg st)) as [ids|] eqn:HL;
    [pose proof (fresh_below _ _ (fun id => wf_ids_below _ _ W _ _ id HL)) as HFr|];
    split_state st;
    pick_fd k Hk; each_checked Hf; try discriminate Hit;
      try (pose proof (Hcd eq_refl) as HK); eval_entry;
      repeat split; reflexivity.
Qed.

(** ---- the unchecked entry points: the OS verdict passes through, also for forbidden numbers ---- *)
Lemma unchecked_accepted : forall o k f sig st,
  In f unchecked_eps -> wf o st -> accepts o sig = true ->
  r_out (entry o k f sig st) = OkId (next_id st) /\ registered f sig st (entry o k f sig st).
Proof.
  intros o k f sig st Hf W HA.
  unfold accepts in HA. apply andb_true_iff in HA. destruct HA as [HQ HS].
  destruct (lookup sig (reg st)) as [ids|] eqn:HL;
    [pose proof (fresh_below _ _ (fun id => wf_ids_below _ _ W _ _ id HL)) as HFr|];
    split_state st;
    each_checked Hf; eval_entry; (split; [reflexivity|]); registered_tac HL.
Qed.

Lemma unchecked_rejected : forall o k f sig st,
  In f unchecked_eps -> wf o st -> accepts o sig = false ->
  let r := entry o k f sig st in
  r_out r = Err EOs /\ same_core st (r_state r) /\
  fallback (r_state r) = (if os_query o sig then Some sig else fallback st) /\
  fallback_inert (r_state r) /\ r_released r = all_params f /\ r_kept r = [] /\ r_leaked r = [].
Proof.
  intros o k f sig st Hf W HA r. subst r.
  destruct (not_in_inst_unaccepted _ _ _ W HA) as [_ HL].
  unfold accepts in HA. split_state st.
  each_checked Hf; destruct (os_query o sig) eqn:HQ; cbn [andb] in HA; eval_entry;
    unfold same_core, fallback_inert, r_out, r_state, r_released, r_kept, r_leaked;
    cbn [fst snd disp_of reg next_id fallback inst];
    repeat split; auto; apply (wf_inert _ _ W).
Qed.

(** ---- the invariant: established by the initial state, preserved by every entry point ---- *)
Lemma wf_init : forall o d, (forall s, d s <> Lib) -> wf o (init_state d).
Proof.
  intros o d H. constructor; cbn.
  - intros s ids E. discriminate.
  - intros s E. exfalso. exact (H s E).
  - intros s ids id E. discriminate.
  - intros s [].
Qed.

Lemma wf_ext : forall o st st',
  disp_of st' = disp_of st -> reg st' = reg st -> next_id st' = next_id st -> inst st' = inst st ->
  wf o st -> wf o st'.
Proof.
  intros o st st' Hd Hr Hn Hi W. constructor; unfold fallback_inert; rewrite ?Hd, ?Hr, ?Hn, ?Hi.
  - apply (wf_slots_accepted _ _ W).
  - apply (wf_inert _ _ W).
  - apply (wf_ids_below _ _ W).
  - apply (wf_inst _ _ W).
Qed.

Lemma id_succ_small : forall n, (n + 1 < 2 ^ 128)%N -> id_succ n = (n + 1)%N.
Proof. intros n H. unfold id_succ, id_modulus. now apply N.mod_small. Qed.

Definition inst_grows (sig : Z) (old new : list Z) : Prop :=
  forall s, In s new -> In s old \/ (s = sig /\ is_forbidden sig = false /\ out_of_table sig = false).

Lemma wf_occupied : forall o st sig ids fb I,
  wf o st -> lookup sig (reg st) = Some ids -> (next_id st + 1 < 2 ^ 128)%N -> inst_grows sig (inst st) I ->
  wf o {| disp_of := disp_of st; reg := add_id sig (next_id st) (reg st); next_id := id_succ (next_id st);
          fallback := fb; inst := I |}.
Proof.
  intros o st sig ids fb I W HL Hn HI. rewrite (id_succ_small _ Hn).
  constructor; unfold fallback_inert; cbn [disp_of reg next_id inst].
  - intros s l. rewrite lookup_add_id. destruct (s =? sig) eqn:E.
    + apply Z.eqb_eq in E. subst s. intros _. apply (wf_slots_accepted _ _ W _ _ HL).
    + apply (wf_slots_accepted _ _ W).
  - intros s Hs. rewrite lookup_add_id. destruct (s =? sig) eqn:E.
    + rewrite HL. discriminate.
    + apply (wf_inert _ _ W _ Hs).
  - intros s l id. rewrite lookup_add_id. destruct (s =? sig) eqn:E.
    + rewrite HL. cbn. intros E'. injection E' as <-. intros Hin. apply in_app_or in Hin.
      destruct Hin as [Hin|[<-|[]]]; [|lia]. pose proof (wf_ids_below _ _ W _ _ _ HL Hin). lia.
    + intros E' Hin. pose proof (wf_ids_below _ _ W _ _ _ E' Hin). lia.
  - intros s Hs. rewrite lookup_add_id. destruct (HI s Hs) as [Hold|[-> [HF HT]]].
    + destruct (wf_inst _ _ W _ Hold) as [A [B C]]. repeat split; auto.
      destruct (s =? sig) eqn:E; [rewrite HL; discriminate|exact B].
    + rewrite Z.eqb_refl, HL. repeat split; auto. discriminate.
Qed.

Lemma wf_vacant : forall o st sig fb I,
  wf o st -> lookup sig (reg st) = None -> os_query o sig = true -> os_set o sig = true ->
  (next_id st + 1 < 2 ^ 128)%N -> inst_grows sig (inst st) I ->
  wf o {| disp_of := set_disp (disp_of st) sig Lib; reg := reg st ++ [(sig, [next_id st])];
          next_id := id_succ (next_id st); fallback := fb; inst := I |}.
Proof.
  intros o st sig fb I W HL HQ HS Hn HI. rewrite (id_succ_small _ Hn).
  constructor; unfold fallback_inert; cbn [disp_of reg next_id inst].
  - intros s l. rewrite lookup_app. destruct (lookup s (reg st)) eqn:E.
    + intros _. apply (wf_slots_accepted _ _ W _ _ E).
    + destruct (sig =? s) eqn:E2; [|discriminate]. apply Z.eqb_eq in E2. subst s. intros _.
      unfold accepts. now rewrite HQ, HS.
  - intros s Hs. rewrite lookup_app. unfold set_disp in Hs. destruct (s =? sig) eqn:E.
    + apply Z.eqb_eq in E. subst s. rewrite HL, Z.eqb_refl. discriminate.
    + pose proof (wf_inert _ _ W _ Hs) as H. destruct (lookup s (reg st)); [discriminate|contradiction].
  - intros s l id. rewrite lookup_app. destruct (lookup s (reg st)) eqn:E.
    + intros E' Hin. injection E' as <-. pose proof (wf_ids_below _ _ W _ _ _ E Hin). lia.
    + destruct (sig =? s); [|discriminate]. intros E'. injection E' as <-. intros [<-|[]]. lia.
  - intros s Hs. rewrite lookup_app. destruct (HI s Hs) as [Hold|[-> [HF HT]]].
    + destruct (wf_inst _ _ W _ Hold) as [A [B C]]. repeat split; auto.
      destruct (lookup s (reg st)); [discriminate|contradiction].
    + rewrite HL, Z.eqb_refl. repeat split; auto. discriminate.
Qed.

Lemma wf_occupied' : forall o d rg n fb i sig ids fb' I,
  wf o {| disp_of := d; reg := rg; next_id := n; fallback := fb; inst := i |} ->
  lookup sig rg = Some ids -> (n + 1 < 2 ^ 128)%N -> inst_grows sig i I ->
  wf o {| disp_of := d; reg := add_id sig n rg; next_id := id_succ n; fallback := fb'; inst := I |}.
Proof. intros o d rg n fb i sig ids fb' I W. exact (wf_occupied o _ sig ids fb' I W). Qed.

Lemma wf_vacant' : forall o d rg n fb i sig fb' I,
  wf o {| disp_of := d; reg := rg; next_id := n; fallback := fb; inst := i |} ->
  lookup sig rg = None -> os_query o sig = true -> os_set o sig = true ->
  (n + 1 < 2 ^ 128)%N -> inst_grows sig i I ->
  wf o {| disp_of := set_disp d sig Lib; reg := rg ++ [(sig, [n])]; next_id := id_succ n; fallback := fb'; inst := I |}.
Proof. intros o d rg n fb i sig fb' I W. exact (wf_vacant o _ sig fb' I W). Qed.

Lemma in_table_rev : forall s, (as_usize s <? MAX_SIGNUM) = true -> (s <? 0) = false -> out_of_table s = false.
Proof.
  intros s H1 H2. unfold out_of_table. rewrite H2. cbn. unfold as_usize in H1. rewrite H2 in H1.
  apply Z.ltb_lt in H1. now apply Z.leb_gt.
Qed.

Ltac split_atom H :=
  match type of H with
  | context [is_forbidden ?s] => destruct (is_forbidden s) eqn:?
  | context [known ?s] => destruct (known s) eqn:?
  | context [as_usize ?s <? MAX_SIGNUM] => destruct (as_usize s <? MAX_SIGNUM) eqn:?
  | context [?s <? 0] => destruct (s <? 0) eqn:?
  | context [in_inst ?s ?l] => destruct (in_inst s l) eqn:?
  | context [lookup ?s ?r] => destruct (lookup s r) eqn:?
  | context [existsb (N.eqb ?n) ?l] => destruct (existsb (N.eqb n) l) eqn:?
  | context [os_query ?o ?s] => destruct (os_query o s) eqn:?
  | context [os_set ?o ?s] => destruct (os_set o s) eqn:?
  end.

Ltac grows_tac :=
  let s := fresh "s" in let Hs := fresh "Hs" in
  intros s Hs; cbn [app] in Hs;
  first [ left; exact Hs
        | apply in_app_or in Hs; destruct Hs as [Hs|[<-|[]]]; [left; exact Hs|right; repeat split; auto using in_table_rev]
        | destruct Hs as [<-|[]]; right; repeat split; auto using in_table_rev ].

Lemma wf_preserved : forall o k f sig st,
  In f (checked_eps ++ unchecked_eps) -> wf o st -> (next_id st + 1 < 2 ^ 128)%N ->
  (f = FSignalsNew -> inst st = []) ->
  wf o (r_state (entry o k f sig st)).
Proof.
  intros o k f sig st Hf W Hn Hnew. split_state st.
  each_checked Hf;
    (remember (entry o k _ sig _) as r eqn:Hr; ev_in Hr; rewrite ?in_inst_nil in Hr; ev_in Hr;
     repeat (first [split_atom Hr | destruct k]; ev_in Hr; rewrite ?in_inst_nil in Hr; ev_in Hr);
     subst r; unfold r_state; cbn [fst snd app];
     first [ exact W
           | refine (wf_ext o _ _ _ _ _ _ W); cbn [disp_of reg next_id inst]; solve [reflexivity | symmetry; apply Hnew; reflexivity]
           | eapply wf_occupied'; [exact W|eassumption|exact Hn|grows_tac]
           | eapply wf_vacant'; [exact W|eassumption|eassumption|eassumption|exact Hn|grows_tac] ]).
Qed.

(** ---- non-vacuity: a concrete Linux/glibc verdict table (the probe re-measures it on every run)
         and a reachable state with several registrations ---- *)
Definition linux_query (s : Z) : bool := (1 <=? s) && (s <=? 64) && negb ((s =? 32) || (s =? 33)).
Definition linux_os : os :=
  {| os_query := linux_query; os_set := fun s => linux_query s && negb ((s =? SIGKILL) || (s =? SIGSTOP)) |}.
Definition st0 : state := init_state (fun _ => Dfl).
(** after register(SIGUSR1), register(SIGUSR2) twice, unchecked(SIGFPE), Signals::new(&[SIGUSR1]) *)
Definition st1 : state :=
  let step f s st := r_state (entry linux_os FdPipe f s st) in
  step FSignalsNew 10 (step FRegisterSignalUnchecked 8 (step FRegister 12 (step FRegister 12 (step FRegister 10 st0)))).

Example st0_wf : wf linux_os st0.
Proof. apply wf_init. discriminate. Qed.

Example st1_wf : wf linux_os st1.
Proof.
  unfold st1. repeat (apply wf_preserved; [cbn; tauto| |reflexivity|intros _; reflexivity]).
  exact st0_wf.
Qed.

Example st1_shape : reg st1 = [(10, [1%N; 5%N]); (12, [2%N; 3%N]); (8, [4%N])] /\ next_id st1 = 6%N /\ inst st1 = [10] /\
  disp_of st1 10 = Lib /\ disp_of st1 8 = Lib /\ disp_of st1 9 = Dfl /\ fallback st1 = Some 8.
Proof. vm_compute. repeat split; reflexivity. Qed.

Example ex_checked_kill : forall f, In f checked_eps ->
  r_out (entry linux_os FdPipe f SIGKILL st1) = Panic PForbidden /\
  reg (r_state (entry linux_os FdPipe f SIGKILL st1)) = reg st1 /\
  next_id (r_state (entry linux_os FdPipe f SIGKILL st1)) = 6%N /\
  r_released (entry linux_os FdPipe f SIGKILL st1) =
    (if iterator_ep f then (match f with FSignalsNew => [RInstance] | _ => [] end) ++ [RArcPending; RArcWrite] else all_params f).
Proof. intros f Hf. each_checked Hf; vm_compute; repeat split; reflexivity. Qed.

Example ex_checked_fpe_occupied : (* SIGFPE has a slot (unchecked registration): still refused by the checked API *)
  r_out (entry linux_os FdPipe FFlagRegister SIGFPE st1) = Panic PForbidden /\
  r_released (entry linux_os FdPipe FFlagRegister SIGFPE st1) = [RFlag].
Proof. vm_compute. split; reflexivity. Qed.

Example ex_checked_invalid : forall s, In s [0; 32; 33; 65; 1000; -1; 2147483647; -2147483648] ->
  r_out (entry linux_os FdSocket FPipeRegister s st1) = Err EOs /\
  r_released (entry linux_os FdSocket FPipeRegister s st1) = [RFd] /\
  r_out (entry linux_os FdSocket FFlagCondDefault s st1) = Err (EPrecheck EINVAL) /\
  reg (r_state (entry linux_os FdSocket FPipeRegister s st1)) = reg st1.
Proof. intros s Hs. cbn in Hs. repeat (destruct Hs as [<-|Hs]; [vm_compute; repeat split; reflexivity|]). contradiction. Qed.

Example ex_iterator_out_of_table : forall s, In s [-1; 128; 1000; -2147483648] ->
  r_out (entry linux_os FdPipe FHandleAddSignal s st1) = Panic PIndex /\ out_of_table s = true /\ c_int s.
Proof.
  intros s Hs. cbn in Hs.
  repeat (destruct Hs as [<-|Hs]; [vm_compute; repeat split; (reflexivity || discriminate)|]). contradiction.
Qed.

Example ex_iterator_rejected_in_table : (* 65..127: inside the iterator's table, rejected by the OS *)
  r_out (entry linux_os FdPipe FSignalsAddSignal 100 st1) = Err EOs /\
  r_released (entry linux_os FdPipe FSignalsAddSignal 100 st1) = [RArcPending; RArcWrite].
Proof. vm_compute. split; reflexivity. Qed.

Example ex_unchecked_kill : (* query succeeds, fallback overwritten, set fails *)
  r_out (entry linux_os FdPipe FRegisterSignalUnchecked SIGKILL st1) = Err EOs /\
  fallback (r_state (entry linux_os FdPipe FRegisterSignalUnchecked SIGKILL st1)) = Some SIGKILL /\
  reg (r_state (entry linux_os FdPipe FRegisterSignalUnchecked SIGKILL st1)) = reg st1 /\
  next_id (r_state (entry linux_os FdPipe FRegisterSignalUnchecked SIGKILL st1)) = next_id st1 /\
  disp_of (r_state (entry linux_os FdPipe FRegisterSignalUnchecked SIGKILL st1)) SIGKILL = Dfl.
Proof. vm_compute. repeat split; reflexivity. Qed.

Example ex_unchecked_segv_ok :
  r_out (entry linux_os FdPipe FRegisterUnchecked SIGSEGV st1) = OkId 6%N /\
  disp_of (r_state (entry linux_os FdPipe FRegisterUnchecked SIGSEGV st1)) SIGSEGV = Lib.
Proof. vm_compute. split; reflexivity. Qed.

Example ex_accepted : forall f, In f checked_eps ->
  is_ok (r_out (entry linux_os FdSocket f 15 st1)) /\ r_released (entry linux_os FdSocket f 15 st1) = [] /\
  disp_of (r_state (entry linux_os FdSocket f 15 st1)) 15 = Lib.
Proof. intros f Hf. each_checked Hf; vm_compute; repeat split; reflexivity. Qed.

(** facts about the extracted data the statements rely on *)
Lemma wakefd_closes : wakefd_drop_closes = true. Proof. reflexivity. Qed.
Lemma unregister_guarded : unregister_publish_guarded = true. Proof. reflexivity. Qed.
Lemma table_len : ids_table_len_is_max = true. Proof. reflexivity. Qed.
Lemma default_exfiltrator : signalonly_supports_all = true /\ signalonly_init_empty = true. Proof. split; reflexivity. Qed.

(** ---- the statements of props/C14.v ---- *)
Lemma checked_all : forall (o : os) (k : fdkind) (f : fn_id) (sig : Z) (st : state),
  In f checked_eps -> k <> FdBad -> wf o st -> (f = FSignalsNew -> inst st = []) ->
  let r := entry o k f sig st in
  (is_forbidden sig = true -> r_out r = Panic PForbidden /\ refused o f sig st r) /\
  (iterator_ep f = true -> c_int sig -> out_of_table sig = true -> r_out r = Panic PIndex /\ refused o f sig st r) /\
  (f = FFlagCondDefault -> known sig = false ->
     r_out r = Err (EPrecheck EINVAL) /\ r_state r = st /\ refused o f sig st r) /\
  (is_forbidden sig = false -> (iterator_ep f = true -> out_of_table sig = false) ->
   (f = FFlagCondDefault -> known sig = true) ->
     (accepts o sig = false -> r_out r = Err EOs /\ refused o f sig st r) /\
     (accepts o sig = true -> registered f sig st r /\
        (iterator_ep f = false -> r_out r = OkId (next_id st) /\ r_kept r = all_params f))).
Proof.
  intros o k f sig st Hf Hk W Hnew r. subst r.
  split; [|split; [|split]].
  - intros HF. apply checked_forbidden; auto.
  - intros Hit HC HO. apply checked_out_of_table; auto.
  - intros -> HK. apply cond_default_unknown; auto.
  - intros HF Hit Hcd. split; intros HA.
    + apply checked_rejected; auto.
    + split; [apply checked_accepted; auto|].
      intros Hni. destruct (checked_ok_id o k f sig st Hf Hni Hk W HF Hcd HA) as [A [B _]]. split; auto.
Qed.

Lemma unchecked_all : forall (o : os) (k : fdkind) (f : fn_id) (sig : Z) (st : state),
  In f unchecked_eps -> wf o st ->
  let r := entry o k f sig st in
  (accepts o sig = true -> r_out r = OkId (next_id st) /\ registered f sig st r) /\
  (accepts o sig = false ->
     r_out r = Err EOs /\ same_core st (r_state r) /\
     fallback (r_state r) = (if os_query o sig then Some sig else fallback st) /\
     fallback_inert (r_state r) /\ r_released r = all_params f /\ r_kept r = [] /\ r_leaked r = []).
Proof.
  intros o k f sig st Hf W r. subst r. split; intros HA.
  - apply unchecked_accepted; auto.
  - apply unchecked_rejected; auto.
Qed.

Lemma unchecked_kill_stop : forall (o : os) (k : fdkind) (f : fn_id) (sig : Z) (st : state),
  In f unchecked_eps -> wf o st -> sig = SIGKILL \/ sig = SIGSTOP ->
  os_query o sig = true -> os_set o sig = false ->
  let r := entry o k f sig st in
  is_forbidden sig = true /\ r_out r = Err EOs /\ fallback (r_state r) = Some sig /\
  same_core st (r_state r) /\ fallback_inert (r_state r).
Proof.
  intros o k f sig st Hf W Hs HQ HS r.
  assert (HA : accepts o sig = false) by (unfold accepts; now rewrite HQ, HS).
  destruct (unchecked_rejected o k f sig st Hf W HA) as [A [B [C [D _]]]]. fold r in A, B, C, D.
  rewrite HQ in C. repeat split; auto; try apply B.
  apply forbidden_list. destruct Hs; auto.
Qed.

Lemma invariant_all :
  (forall (o : os) (d : Z -> disp), (forall s, d s <> Lib) -> wf o (init_state d)) /\
  (forall (o : os) (k : fdkind) (f : fn_id) (sig : Z) (st : state),
     In f (checked_eps ++ unchecked_eps) -> wf o st -> (next_id st + 1 < 2 ^ 128)%N ->
     (f = FSignalsNew -> inst st = []) -> wf o (r_state (entry o k f sig st))).
Proof. split; [exact wf_init|exact wf_preserved]. Qed.
