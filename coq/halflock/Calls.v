(** Complete call lists of the functions component [halflock] is modelled on, as they were when the
    model was written (translator/calls.py extracts the current ones on every run).  A lemma that
    fails names the function whose calls changed: re-read it, adapt the model if needed, then
    restate the list. *)
From Coq Require Import List String.
From SH Require Import gen.Extracted_calls_halflock.
Import ListNotations. Open Scope string_scope.

Lemma calls_readguard_drop_ok : calls_readguard_drop =
  [".fetch_sub"].
Proof. reflexivity. Qed.

Lemma calls_writeguard_store_ok : calls_writeguard_store =
  ["Box::into_raw"; "Box::new"; ".swap"; ".write_barrier"; "drop"; "Box::from_raw"].
Proof. reflexivity. Qed.

Lemma calls_halflock_new_ok : calls_halflock_new =
  ["Box::into_raw"; "Box::new"; "AtomicPtr::new"; "AtomicUsize::new"; "AtomicUsize::new"; "AtomicUsize::new"; "Mutex::new"].
Proof. reflexivity. Qed.

Lemma calls_read_ok : calls_read =
  [".load"; ".fetch_add"; "libc::abort"; ".load"].
Proof. reflexivity. Qed.

Lemma calls_update_seen_ok : calls_update_seen =
  [".iter_mut"; ".zip"; ".load"].
Proof. reflexivity. Qed.

Lemma calls_write_barrier_ok : calls_write_barrier =
  [".update_seen"; ".fetch_add"; ".iter"; ".all"; ".wrapping_add"; "cfg!"; "not"; "thread::yield_now"; "atomic::spin_loop_hint"; ".update_seen"].
Proof. reflexivity. Qed.

Lemma calls_write_ok : calls_write =
  [".lock"; ".unwrap_or_else"; ".load"].
Proof. reflexivity. Qed.

Lemma calls_halflock_drop_ok : calls_halflock_drop =
  ["Box::from_raw"; ".load"; "drop"].
Proof. reflexivity. Qed.
