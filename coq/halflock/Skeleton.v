(** Tie between halflock/Model.v and signal-hook-registry/src/half_lock.rs: the model implements
    exactly the synchronisation skeletons below; the translator regenerates
    [Extracted_halflock] from the source on every run, so a reordered, added or dropped
    operation, a changed memory ordering, loop condition or constant breaks one of these
    lemmas (DESIGN 4.1). *)
From Coq Require Import NArith List String Bool.
From SH Require Import gen.Extracted_halflock.
Import ListNotations. Open Scope string_scope.

Lemma skel_read_ok : skel_read =
  ["self.generation.load(SeqCst)"; "self.lock[gen%2].fetch_add(SeqCst)"; "if guard_cnt > MAX_GUARDS {"; "abort"; "}"; "self.data.load(SeqCst)"].
Proof. reflexivity. Qed.

Lemma skel_guard_drop_ok : skel_guard_drop =
  ["self.lock.fetch_sub(SeqCst)"].
Proof. reflexivity. Qed.

Lemma skel_store_ok : skel_store =
  ["Box::into_raw(Box::new)"; "guard.data=new"; "self.lock.data.swap(SeqCst)"; "write_barrier"; "Box::from_raw"].
Proof. reflexivity. Qed.

Lemma skel_update_seen_ok : skel_update_seen =
  ["for (seen, slot) in seen_zero.iter_mut().zip(&self.lock) {"; "*seen=*seen||"; "slot.load(SeqCst)"; "==0"; "}"].
Proof. reflexivity. Qed.

Lemma skel_write_barrier_ok : skel_write_barrier =
  ["seen_zero=[false;2]"; "update_seen"; "self.generation.fetch_add(SeqCst)"; "while !seen_zero.iter().all(|s| *s) {"; "iter+=1"; "if cfg!(not(miri)) {"; "if iter % YIELD_EVERY == 0 {"; "yield_now"; "}"; "else {"; "spin_loop_hint"; "}"; "}"; "update_seen"; "}"].
Proof. reflexivity. Qed.

Lemma skel_write_ok : skel_write =
  ["write_mutex.lock()"; "ignore_poison"; "self.data.load(SeqCst)"].
Proof. reflexivity. Qed.

Lemma skel_hl_drop_ok : skel_hl_drop =
  ["Box::from_raw"; "self.data.load(SeqCst)"].
Proof. reflexivity. Qed.

(** The SC premise of the model (DESIGN 3.3): every atomic access of half_lock.rs is SeqCst. *)
Lemma all_seqcst : forallb (String.eqb "SeqCst") hl_orderings = true /\ List.length hl_orderings = 9.
Proof. split; reflexivity. Qed.

Lemma constants_ok : YIELD_EVERY = 16 /\ MAX_GUARDS = 9223372036854775807%N /\ slot_index_expr = "gen % 2".
Proof. repeat split; reflexivity. Qed.

(** usize wrap of the generation and of the spin counter is harmless: only gen mod 2 and
    iter mod YIELD_EVERY are used and both divide 2^64. *)
Lemma wrap_harmless : (2 ^ 64 mod 2 = 0)%N /\ (2 ^ 64 mod N.of_nat YIELD_EVERY = 0)%N.
Proof. split; reflexivity. Qed.
