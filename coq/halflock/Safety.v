(** Safety of the half-lock, for any number of readers and writers and every schedule:
    a reader that holds a guard holds a snapshot that has not been released, and the writer
    releases the old snapshot only when no reader holds it (DESIGN 5.1). *)
From Coq Require Import List Arith NArith ZArith Bool Lia.
From SH Require Import base.Pool gen.Extracted_halflock halflock.Model.
Import ListNotations.
Arguments Nat.modulo : simpl never.
Arguments Nat.div : simpl never.
Arguments N.ltb : simpl never.
Arguments N.of_nat : simpl never.

Definition in_slot (i : nat) (v : view) : bool :=
  match v with RInc j | RHold j _ => Nat.eqb i j | _ => false end.
Definition is_win (v : view) : bool := match v with WIn => true | _ => false end.
Definition seen (i : nat) (s0 s1 : bool) : bool := if Nat.eqb i 0 then s0 else s1.

Definition view_ok (v : view) : Prop :=
  match v with RGen i | RInc i | RHold i _ => i < 2 | _ => True end.

Record HInv (h : hl) (vs : list view) : Prop := {
  i_c0 : cnt (in_slot 0) vs = c0 h;
  i_c1 : cnt (in_slot 1) vs = c1 h;
  i_ok : forall k v, nth_error vs k = Some v -> view_ok v;
  i_win : cnt is_win vs = match crit h with CNone => 0 | _ => 1 end;
  i_ptr : ~ In (ptr h) (freed h) /\ ptr h < nxt h;
  i_freed : (forall p, In p (freed h) -> p < nxt h) /\ NoDup (freed h);
  i_old : forall old st s0 s1 it, crit h = CSwapped old st s0 s1 it ->
            ~ In old (freed h) /\ old <> ptr h /\ old < nxt h /\ (st = SFree -> s0 = true /\ s1 = true)
            /\ (st = SHint -> s0 && s1 = false) /\ (st = SPoll0 -> s0 = false) /\ (st = SPoll1 -> s1 = false)
            /\ (st = SPre0 -> s0 = false /\ s1 = false) /\ (st = SPre1 -> s1 = false);
  i_hold : forall k i p, nth_error vs k = Some (RHold i p) ->
            p = ptr h \/ exists st s0 s1 it, crit h = CSwapped p st s0 s1 it /\ seen i s0 s1 = false
}.

Lemma hinv_init : HInv hl_init [].
Proof.
  constructor; simpl.
  - reflexivity.
  - reflexivity.
  - intros [|k] v H; discriminate.
  - reflexivity.
  - split; [tauto | lia].
  - split; [tauto | constructor].
  - discriminate.
  - intros [|k] i p H; discriminate.
Qed.

(** Spawning an activity (a thread, or a signal arriving anywhere) adds an idle view. *)
Lemma hinv_spawn h vs : HInv h vs -> HInv h (vs ++ [VIdle]).
Proof.
  intros [A B C D E F G H]. constructor; auto.
  - rewrite cnt_app, A. unfold cnt; simpl; lia.
  - rewrite cnt_app, B. unfold cnt; simpl; lia.
  - intros k v Hn. apply nth_app_cases in Hn. destruct Hn as [Hn|[_ ->]]; [eauto|exact I].
  - rewrite cnt_app, D. unfold cnt; simpl; lia.
  - intros k i p Hn. apply nth_app_cases in Hn. destruct Hn as [Hn|[_ Hn]]; [eauto|discriminate].
Qed.

(** The safety statement itself. *)
Definition Safe (h : hl) (vs : list view) : Prop :=
  forall k i p, nth_error vs k = Some (RHold i p) -> ~ In p (freed h).

Lemma hinv_safe h vs : HInv h vs -> Safe h vs.
Proof.
  intros Inv k i p Hn. destruct (i_hold _ _ Inv k i p Hn) as [->|(st & s0 & s1 & it & Hc & _)].
  - apply (i_ptr _ _ Inv).
  - apply (i_old _ _ Inv _ _ _ _ _ Hc).
Qed.

Lemma slot_cases i : i < 2 -> i = 0 \/ i = 1.
Proof. lia. Qed.

Ltac cnt_step Hn :=
  match goal with
  | |- context [cnt ?P (upd ?vs ?k ?y)] =>
      let E := fresh "E" in
      pose proof (cnt_upd P vs k _ y Hn) as E; simpl in E
  end.

Ltac same_state :=
  rewrite upd_same by assumption; constructor; try assumption;
  match goal with Hc : crit ?h = _ |- _ => rewrite Hc; assumption end.

(** One step of any activity preserves the invariant. *)
Lemma hinv_step h vs k v o h' v' es :
  HInv h vs -> nth_error vs k = Some v -> hstep h v o = (h', v', es) -> HInv h' (upd vs k v').
Proof.
  intros Inv Hn Hs.
  assert (Hk : k < length vs) by (apply nth_error_Some; congruence).
  unfold hstep in Hs.
  destruct (aborted h) eqn:Hab.
  { inversion Hs; subst. rewrite upd_same by assumption. exact Inv. }
  destruct Inv as [A B C D E F G H].
  pose proof (cnt_upd (in_slot 0) vs k v) as U0.
  pose proof (cnt_upd (in_slot 1) vs k v) as U1.
  pose proof (cnt_upd is_win vs k v) as UW.
  assert (Hold_other : forall j i p, nth_error (upd vs k v') j = Some (RHold i p) -> j <> k -> nth_error vs j = Some (RHold i p)).
  { intros j i p Hj Hne. rewrite nth_upd_neq in Hj by assumption. exact Hj. }
  assert (Vok : view_ok v) by eauto.
  destruct o, v; try (inversion Hs; subst; rewrite upd_same by assumption; constructor; assumption).
  - (* OLoadGen from VIdle *)
    inversion Hs; subst; clear Hs.
    specialize (U0 (RGen (gen h' mod 2)) Hn). specialize (U1 (RGen (gen h' mod 2)) Hn). specialize (UW (RGen (gen h' mod 2)) Hn).
    simpl in *. constructor; auto; try lia.
    + intros j w Hj. apply nth_upd_cases in Hj. destruct Hj as [(-> & _ & ->)|[_ Hj]]; [|eauto].
      simpl. apply Nat.mod_upper_bound. lia.
    + intros j i p Hj. apply nth_upd_cases in Hj. destruct Hj as [(_ & _ & Hj)|[_ Hj]]; [discriminate|eauto].
  - (* OInc from RGen i *)
    simpl in Vok.
    assert (Hi : forall n, i = n -> n < 2 ->
       HInv h' (upd vs k v')).
    { intros n -> Hn2.
      destruct (N.ltb MAX_GUARDS (N.of_nat (cget h n))); inversion Hs; subst; clear Hs;
      specialize (U0 (RInc n) Hn); specialize (U1 (RInc n) Hn); specialize (UW (RInc n) Hn);
      destruct (slot_cases _ Hn2) as [->| ->]; unfold cget, cset, set_abort in *; simpl in *;
      (constructor; simpl; auto; try lia;
       [ intros j w Hj; apply nth_upd_cases in Hj; destruct Hj as [(-> & _ & ->)|[_ Hj]]; [simpl; lia|eauto]
       | intros j i p Hj; apply nth_upd_cases in Hj; destruct Hj as [(_ & _ & Hj)|[_ Hj]]; [discriminate|eauto] ]). }
    exact (Hi i eq_refl Vok).
  - (* OLoadPtr from RInc i *)
    inversion Hs; subst; clear Hs.
    specialize (U0 (RHold i (ptr h')) Hn). specialize (U1 (RHold i (ptr h')) Hn). specialize (UW (RHold i (ptr h')) Hn).
    simpl in *. constructor; auto; try lia.
    + intros j w Hj. apply nth_upd_cases in Hj. destruct Hj as [(-> & _ & ->)|[_ Hj]]; [exact Vok|eauto].
    + intros j i' p Hj. apply nth_upd_cases in Hj. destruct Hj as [(_ & _ & Hj)|[_ Hj]]; [inversion Hj; auto|eauto].
  - (* ODec from RHold i p *)
    simpl in Vok.
    assert (P0 : 1 <= cnt (in_slot i) vs) by (apply (cnt_pos _ vs k _ Hn); simpl; apply Nat.eqb_refl).
    destruct (slot_cases _ Vok) as [->| ->]; inversion Hs; subst; clear Hs;
    specialize (U0 VIdle Hn); specialize (U1 VIdle Hn); specialize (UW VIdle Hn); unfold cget, cset in *; simpl in *;
    (constructor; simpl; auto; try lia;
     [ intros j w Hj; apply nth_upd_cases in Hj; destruct Hj as [(-> & _ & ->)|[_ Hj]]; [exact I|eauto]
     | intros j i' p' Hj; apply nth_upd_cases in Hj; destruct Hj as [(_ & _ & Hj)|[_ Hj]]; [discriminate|eauto] ]).
  - (* OLock from VIdle *)
    destruct (crit h) eqn:Hc; inversion Hs; subst; clear Hs; [|same_state|same_state|same_state|same_state].
    specialize (U0 WIn Hn). specialize (U1 WIn Hn). specialize (UW WIn Hn). simpl in *.
    constructor; simpl; auto; try lia.
    + intros j w Hj. apply nth_upd_cases in Hj. destruct Hj as [(-> & _ & ->)|[_ Hj]]; [exact I|eauto].
    + discriminate.
    + intros j i p Hj. apply nth_upd_cases in Hj. destruct Hj as [(_ & _ & Hj)|[_ Hj]]; [discriminate|].
      destruct (H j i p Hj) as [->|(st & s0 & s1 & it & Hc' & _)]; [auto|congruence].
  - (* OWLoad from WIn *)
    destruct (crit h) eqn:Hc; inversion Hs; subst; clear Hs; [same_state| |same_state|same_state|same_state].
    rewrite upd_same by assumption. constructor; simpl; auto.
    + discriminate.
    + intros j i p Hj. destruct (H j i p Hj) as [->|(st & s0 & s1 & it & Hc' & _)]; [auto|congruence].
  - (* OSwap from WIn *)
    destruct (crit h) eqn:Hc; inversion Hs; subst; clear Hs; [same_state|same_state| |same_state|same_state].
    rewrite upd_same by assumption. destruct E as [E1 E2]. destruct F as [F1 F2].
    constructor; simpl; auto.
    + split; [|lia]. intro Hin. apply F1 in Hin. lia.
    + split; [|assumption]. intros p Hp. apply F1 in Hp. lia.
    + intros old st s0 s1 it Heq. inversion Heq; subst.
      repeat split; auto; try lia; try discriminate.
    + intros j i p Hj. destruct (H j i p Hj) as [->|(st & s0 & s1 & it & Hc' & _)]; [|congruence].
      right. exists SPre0, false, false, 0. split; [reflexivity|]. unfold seen. destruct (Nat.eqb i 0); reflexivity.
  - (* OBarrier from WIn *)
    destruct (crit h) as [| | |old st s0 s1 it|] eqn:Hc;
      [inversion Hs; subst; same_state|inversion Hs; subst; same_state|inversion Hs; subst; same_state| |inversion Hs; subst; same_state].
    destruct (barrier_step h old st s0 s1 it) as [h2 es2] eqn:Hb. inversion Hs; subst; clear Hs.
    rewrite upd_same by assumption.
    destruct (G _ _ _ _ _ eq_refl) as (G1 & G2 & G3 & G4 & G5 & G6 & G7 & G8 & G9).
    destruct E as [E1 E2]. destruct F as [F1 F2].
    unfold barrier_step in Hb.
    destruct st; inversion Hb; subst; clear Hb; simpl.
    + (* SPre0 *)
      destruct (G8 eq_refl) as [-> ->].
      constructor; simpl; auto.
      * intros old' st' s0' s1' it' Heq. inversion Heq; subst. repeat split; auto; try discriminate.
      * intros j i p Hj. destruct (H j i p Hj) as [->|(st & t0 & t1 & it2 & Hc' & Hs')]; [auto|].
        inversion Hc'; subst. right. eexists _, _, _, _. split; [reflexivity|].
        unfold seen in *. destruct (Nat.eqb i 0) eqn:Ei; auto.
        apply Nat.eqb_eq in Ei. subst i.
        assert (1 <= cnt (in_slot 0) vs) by (apply (cnt_pos _ vs j _ Hj); reflexivity).
        apply Nat.eqb_neq. lia.
    + (* SPre1 *)
      specialize (G9 eq_refl). subst s1.
      constructor; simpl; auto.
      * intros old' st' s0' s1' it' Heq. inversion Heq; subst. repeat split; auto; try discriminate.
      * intros j i p Hj. destruct (H j i p Hj) as [->|(st & t0 & t1 & it2 & Hc' & Hs')]; [auto|].
        inversion Hc'; subst. right. eexists _, _, _, _. split; [reflexivity|].
        unfold seen in *. destruct (Nat.eqb i 0) eqn:Ei; auto.
        pose proof (C _ _ Hj) as Vj; simpl in Vj.
        apply Nat.eqb_neq in Ei. assert (i = 1) by lia. subst i.
        assert (1 <= cnt (in_slot 1) vs) by (apply (cnt_pos _ vs j _ Hj); reflexivity).
        apply Nat.eqb_neq. lia.
    + (* SFlip *)
      constructor; simpl; auto.
      * intros old' st' s0' s1' it' Heq. inversion Heq; subst.
        unfold after_poll. destruct (s0' && s1') eqn:Es.
        -- apply andb_true_iff in Es. destruct Es; subst. repeat split; auto; try discriminate.
        -- repeat split; auto; try discriminate.
      * intros j i p Hj. destruct (H j i p Hj) as [->|(st & t0 & t1 & it2 & Hc' & Hs')]; [auto|].
        inversion Hc'; subst. right. eexists _, _, _, _. split; [reflexivity|assumption].
    + (* SHint *)
      specialize (G5 eq_refl).
      constructor; simpl; auto.
      * intros old' st' s0' s1' it' Heq. inversion Heq; subst.
        destruct s0', s1'; simpl in *; try discriminate; repeat split; auto; try discriminate.
      * intros j i p Hj. destruct (H j i p Hj) as [->|(st & t0 & t1 & it2 & Hc' & Hs')]; [auto|].
        inversion Hc'; subst. right. eexists _, _, _, _. split; [reflexivity|assumption].
    + (* SPoll0 *)
      specialize (G6 eq_refl). subst s0.
      constructor; simpl; auto.
      * intros old' st' s0' s1' it' Heq. inversion Heq; subst.
        unfold after_poll. destruct s1', (c0 h =? 0); simpl; repeat split; auto; try discriminate.
      * intros j i p Hj. destruct (H j i p Hj) as [->|(st & t0 & t1 & it2 & Hc' & Hs')]; [auto|].
        inversion Hc'; subst. right. eexists _, _, _, _. split; [reflexivity|].
        unfold seen in *. destruct (Nat.eqb i 0) eqn:Ei; auto.
        apply Nat.eqb_eq in Ei. subst i.
        assert (1 <= cnt (in_slot 0) vs) by (apply (cnt_pos _ vs j _ Hj); reflexivity).
        apply Nat.eqb_neq. lia.
    + (* SPoll1 *)
      specialize (G7 eq_refl). subst s1.
      constructor; simpl; auto.
      * intros old' st' s0' s1' it' Heq. inversion Heq; subst.
        unfold after_poll. destruct s0', (c1 h =? 0); simpl; repeat split; auto; try discriminate.
      * intros j i p Hj. destruct (H j i p Hj) as [->|(st & t0 & t1 & it2 & Hc' & Hs')]; [auto|].
        inversion Hc'; subst. right. eexists _, _, _, _. split; [reflexivity|].
        unfold seen in *. destruct (Nat.eqb i 0) eqn:Ei; auto.
        pose proof (C _ _ Hj) as Vj; simpl in Vj.
        apply Nat.eqb_neq in Ei. assert (i = 1) by lia. subst i.
        assert (1 <= cnt (in_slot 1) vs) by (apply (cnt_pos _ vs j _ Hj); reflexivity).
        apply Nat.eqb_neq. lia.
    + (* SFree *)
      destruct (G4 eq_refl) as [-> ->].
      constructor; simpl; auto.
      * split; [|assumption]. intros [Heq|Hin]; [congruence|auto].
      * split.
        -- intros p [<-|Hp]; auto.
        -- constructor; assumption.
      * discriminate.
      * intros j i p Hj. destruct (H j i p Hj) as [->|(st & t0 & t1 & it2 & Hc' & Hs')]; [auto|].
        inversion Hc'; subst. unfold seen in Hs'. destruct (Nat.eqb i 0); discriminate.
  - (* OUnlock from WIn *)
    destruct (crit h) eqn:Hc; inversion Hs; subst; clear Hs; [same_state| | |same_state| ];
    specialize (U0 VIdle Hn); specialize (U1 VIdle Hn); specialize (UW VIdle Hn); simpl in *;
    (constructor; simpl; auto; try lia;
     [ intros j w Hj; apply nth_upd_cases in Hj; destruct Hj as [(-> & _ & ->)|[_ Hj]]; [exact I|eauto]
     | discriminate
     | intros j i p Hj; apply nth_upd_cases in Hj; destruct Hj as [(_ & _ & Hj)|[_ Hj]]; [discriminate|];
       destruct (H j i p Hj) as [->|(st & s0 & s1 & it & Hc' & _)]; [auto|congruence] ]).
Qed.

(** The grace period: when the writer releases [old], no activity holds it. *)
Lemma free_only_unheld h vs k h' v' es old s0 s1 it :
  HInv h vs -> nth_error vs k = Some WIn -> crit h = CSwapped old SFree s0 s1 it ->
  hstep h WIn OBarrier = (h', v', es) ->
  forall j i, nth_error vs j <> Some (RHold i old).
Proof.
  intros Inv Hn Hc Hs j i Hj.
  destruct (i_old _ _ Inv _ _ _ _ _ Hc) as (_ & Hne & _ & Hfree & _).
  destruct (Hfree eq_refl) as [-> ->].
  destruct (i_hold _ _ Inv j i old Hj) as [Heq|(st & t0 & t1 & it2 & Hc' & Hs')]; [congruence|].
  rewrite Hc in Hc'. inversion Hc'; subst. unfold seen in Hs'. destruct (Nat.eqb i 0); discriminate.
Qed.
