(** Frame lemmas about [hstep]: what an operation can change. *)
From Coq Require Import List Arith NArith ZArith Bool Lia.
From SH Require Import base.Pool gen.Extracted_halflock halflock.Model halflock.Safety.
Import ListNotations.
Arguments Nat.modulo : simpl never.
Arguments N.ltb : simpl never.
Arguments N.of_nat : simpl never.

Ltac hstep_cases Hs :=
  unfold hstep in Hs;
  match type of Hs with context [aborted ?h] => destruct (aborted h) eqn:?Hab end;
  [inversion Hs; subst; clear Hs | ].

Lemma barrier_step_shape h old st s0 s1 it h' es :
  barrier_step h old st s0 s1 it = (h', es) ->
  ptr h' = ptr h /\ nxt h' = nxt h /\ c0 h' = c0 h /\ c1 h' = c1 h /\ aborted h' = aborted h /\
  (crit h' = CStored \/ exists st' t0 t1 it', crit h' = CSwapped old st' t0 t1 it').
Proof.
  unfold barrier_step. destruct st; intro H; inversion H; subst; clear H; simpl;
    repeat split; auto; right; eauto.
Qed.

(** The critical-section state changes only by the holder, or by taking a free mutex. *)
Lemma hstep_crit h v o h' v' es :
  hstep h v o = (h', v', es) ->
  crit h' = crit h \/ v = WIn \/ (v = VIdle /\ crit h = CNone /\ v' = WIn /\ crit h' = CLocked /\ o = OLock).
Proof.
  intro Hs. unfold hstep in Hs. destruct (aborted h); [inversion Hs; auto|].
  destruct o, v; try (inversion Hs; subst; auto; fail); auto.
  - (* OInc *) destruct (N.ltb _ _); inversion Hs; subst; left; unfold cset, set_abort; destruct (Nat.eqb i 0); reflexivity.
  - (* ODec *) inversion Hs; subst. left. unfold cset. destruct (Nat.eqb i 0); reflexivity.
  - (* OLock *) destruct (crit h) eqn:Hc; inversion Hs; subst; auto.
    right. right. repeat split; auto.
Qed.

Lemma hstep_nxt h v o h' v' es :
  hstep h v o = (h', v', es) ->
  (nxt h' = nxt h /\ ptr h' = ptr h) \/
  (v = WIn /\ o = OSwap /\ crit h = CLoaded /\ nxt h' = S (nxt h) /\ ptr h' = nxt h /\ in_store h' = true).
Proof.
  intro Hs. unfold hstep in Hs. destruct (aborted h); [inversion Hs; auto|].
  destruct o, v; try (inversion Hs; subst; auto; fail).
  - destruct (N.ltb _ _); inversion Hs; subst; left; unfold cset, set_abort; destruct (Nat.eqb i 0); auto.
  - inversion Hs; subst. left. unfold cset. destruct (Nat.eqb i 0); auto.
  - destruct (crit h); inversion Hs; subst; auto.
  - destruct (crit h); inversion Hs; subst; auto.
  - destruct (crit h) eqn:Hc; inversion Hs; subst; auto. right. repeat split; auto.
  - destruct (crit h) eqn:Hc; try (inversion Hs; subst; auto; fail).
    destruct (barrier_step h old st s0 s1 iter) as [h2 e2] eqn:Hb. inversion Hs; subst.
    apply barrier_step_shape in Hb. left. tauto.
  - destruct (crit h); inversion Hs; subst; auto.
Qed.

Lemma hstep_aborted_mono h v o h' v' es :
  hstep h v o = (h', v', es) -> aborted h = true -> h' = h /\ v' = v /\ es = [].
Proof. intros Hs Ha. unfold hstep in Hs. rewrite Ha in Hs. inversion Hs; auto. Qed.

(** Where a [CSwapped old] critical section comes from. *)
Lemma hstep_old h v o h' v' es old st a b it :
  hstep h v o = (h', v', es) -> crit h' = CSwapped old st a b it ->
  (exists st' a' b' it', crit h = CSwapped old st' a' b' it') \/
  (v = WIn /\ o = OSwap /\ crit h = CLoaded /\ old = ptr h).
Proof.
  intros Hs Hc.
  destruct (hstep_crit _ _ _ _ _ _ Hs) as [Heq|[Hw|(_ & _ & _ & Hl & _)]].
  - rewrite Heq in Hc. left. eauto.
  - subst v. unfold hstep in Hs. destruct (aborted h); [inversion Hs; subst; left; eauto|].
    destruct o; try (inversion Hs; subst; left; eauto; fail).
    + destruct (crit h) eqn:E; inversion Hs; subst; try (rewrite E in Hc; left; eauto; fail); simpl in Hc; discriminate.
    + destruct (crit h) eqn:E; inversion Hs; subst; try (rewrite E in Hc; left; eauto; fail).
      simpl in Hc. inversion Hc; subst. right. auto.
    + destruct (crit h) as [| | |old0 st0 a0 b0 it0|] eqn:E; try (inversion Hs; subst; rewrite E in Hc; discriminate).
      destruct (barrier_step h old0 st0 a0 b0 it0) as [h2 e2] eqn:Hb. inversion Hs; subst.
      apply barrier_step_shape in Hb. destruct Hb as (_ & _ & _ & _ & _ & [Hx|(st' & t0 & t1 & it' & Hx)]); rewrite Hx in Hc; [discriminate|].
      inversion Hc; subst. left. eauto.
    + destruct (crit h) eqn:E; inversion Hs; subst; try (rewrite E in Hc; left; eauto; fail); simpl in Hc; discriminate.
  - rewrite Hl in Hc. discriminate.
Qed.
