(** Executable SC model of signal-hook-registry/src/half_lock.rs (DESIGN 3.1-3.3, 5.1).

    One [hl] is one HalfLock<T>.  Pointers are ghost *epochs*: every [store] allocates the next
    natural number (real addresses are reused by the allocator; the lock-step harness maps
    addresses to allocation epochs the same way).  Each activity (thread or signal handler
    invocation) has a [view] of the half-lock; the critical-section state of the unique mutex
    holder lives in [crit] (DESIGN 3.2).  [hstep] is total: an operation that does not apply in
    the current view is a no-op. *)
From Coq Require Import List Arith NArith ZArith Bool.
From SH Require Import gen.Extracted_halflock.
Import ListNotations.

Inductive view :=
| VIdle                          (* not inside the half-lock *)
| RGen (i : nat)                 (* read(): generation loaded, slot index i = gen mod 2 *)
| RInc (i : nat)                 (* slot i incremented, pointer not loaded yet *)
| RHold (i : nat) (p : nat)      (* holds a ReadGuard on slot i to snapshot p *)
| WIn.                           (* holds the write mutex (details in [crit]) *)

Inductive stage := SPre0 | SPre1 | SFlip | SHint | SPoll0 | SPoll1 | SFree.

Inductive cphase :=
| CNone                          (* mutex free *)
| CLocked                        (* write(): mutex taken, data not loaded yet *)
| CLoaded                        (* WriteGuard exists *)
| CSwapped (old : nat) (st : stage) (s0 s1 : bool) (iter : nat)  (* inside store() *)
| CStored.                       (* store() returned; guard still held *)

Record hl := {
  ptr : nat; gen : nat; c0 : nat; c1 : nat;
  crit : cphase;
  nxt : nat;                     (* next fresh epoch *)
  freed : list nat;              (* ghost: epochs already released *)
  aborted : bool                 (* read() hit the MAX_GUARDS abort *)
}.

Definition hl_init : hl :=
  {| ptr := 0; gen := 0; c0 := 0; c1 := 0; crit := CNone; nxt := 1; freed := []; aborted := false |}.

Inductive hop := OLoadGen | OInc | OLoadPtr | ODec | OLock | OWLoad | OSwap | OBarrier | OUnlock.

(** Trace events: (operation code, location, argument, result, ok) with the numbering of
    signal_hook_registry::verif::Op and locations 1 ptr, 2 generation, 3 lock[0], 4 lock[1],
    5 write_mutex. *)
Record hev := { e_op : Z; e_loc : Z; e_arg : Z; e_res : Z; e_ok : Z }.
Definition ev op loc arg res ok := {| e_op := op; e_loc := loc; e_arg := arg; e_res := res; e_ok := ok |}.
Definition zn (n : nat) : Z := Z.of_nat n.
Definition slot_loc (i : nat) : Z := if Nat.eqb i 0 then 3%Z else 4%Z.

Definition cget (h : hl) (i : nat) : nat := if Nat.eqb i 0 then c0 h else c1 h.
Definition cset (h : hl) (i : nat) (v : nat) : hl :=
  if Nat.eqb i 0
  then {| ptr := ptr h; gen := gen h; c0 := v; c1 := c1 h; crit := crit h; nxt := nxt h; freed := freed h; aborted := aborted h |}
  else {| ptr := ptr h; gen := gen h; c0 := c0 h; c1 := v; crit := crit h; nxt := nxt h; freed := freed h; aborted := aborted h |}.
Definition set_crit (h : hl) (c : cphase) : hl :=
  {| ptr := ptr h; gen := gen h; c0 := c0 h; c1 := c1 h; crit := c; nxt := nxt h; freed := freed h; aborted := aborted h |}.
Definition set_abort (h : hl) : hl :=
  {| ptr := ptr h; gen := gen h; c0 := c0 h; c1 := c1 h; crit := crit h; nxt := nxt h; freed := freed h; aborted := true |}.

Definition after_poll (s0 s1 : bool) : stage := if s0 && s1 then SFree else SHint.

(** One step of write_barrier / the final drop of the old box, from stage [st]. *)
Definition barrier_step (h : hl) (old : nat) (st : stage) (s0 s1 : bool) (it : nat) : hl * list hev :=
  match st with
  | SPre0 => let z := Nat.eqb (c0 h) 0 in
             (set_crit h (CSwapped old SPre1 z s1 it), [ev 0 3 0 (zn (c0 h)) 1])
  | SPre1 => let z := Nat.eqb (c1 h) 0 in
             (set_crit h (CSwapped old SFlip s0 z it), [ev 0 4 0 (zn (c1 h)) 1])
  | SFlip =>
      let h' := {| ptr := ptr h; gen := S (gen h); c0 := c0 h; c1 := c1 h;
                   crit := CSwapped old (after_poll s0 s1) s0 s1 it; nxt := nxt h; freed := freed h; aborted := aborted h |} in
      (h', [ev 3 2 1 (zn (gen h)) 1])
  | SHint =>
      let it' := Nat.modulo (S it) YIELD_EVERY in
      let e := if Nat.eqb it' 0 then ev 8 0 0 0 1 else ev 9 0 0 0 1 in
      (set_crit h (CSwapped old (if negb s0 then SPoll0 else SPoll1) s0 s1 it'), [e])
  | SPoll0 =>
      let z := Nat.eqb (c0 h) 0 in
      (set_crit h (CSwapped old (if negb s1 then SPoll1 else after_poll z s1) z s1 it), [ev 0 3 0 (zn (c0 h)) 1])
  | SPoll1 =>
      let z := Nat.eqb (c1 h) 0 in
      (set_crit h (CSwapped old (after_poll s0 z) s0 z it), [ev 0 4 0 (zn (c1 h)) 1])
  | SFree =>
      ({| ptr := ptr h; gen := gen h; c0 := c0 h; c1 := c1 h; crit := CStored; nxt := nxt h;
          freed := old :: freed h; aborted := aborted h |}, [ev 11 1 (zn old) 0 1])
  end.

Definition hstep (h : hl) (v : view) (o : hop) : hl * view * list hev :=
  if aborted h then (h, v, []) else
  match o, v with
  | OLoadGen, VIdle => (h, RGen (Nat.modulo (gen h) 2), [ev 0 2 0 (zn (gen h)) 1])
  | OInc, RGen i =>
      let old := cget h i in
      let h' := cset h i (S old) in
      if N.ltb MAX_GUARDS (N.of_nat old)
      then (set_abort h', RInc i, [ev 3 (slot_loc i) 1 (zn old) 1; ev 99 0 0 0 1])
      else (h', RInc i, [ev 3 (slot_loc i) 1 (zn old) 1])
  | OLoadPtr, RInc i => (h, RHold i (ptr h), [ev 0 1 0 (zn (ptr h)) 1])
  | ODec, RHold i p => (cset h i (pred (cget h i)), VIdle, [ev 4 (slot_loc i) 1 (zn (cget h i)) 1])
  | OLock, VIdle =>
      match crit h with
      | CNone => (set_crit h CLocked, WIn, [ev 6 5 0 0 1])
      | _ => (h, VIdle, [ev 6 5 0 0 0])
      end
  | OWLoad, WIn =>
      match crit h with
      | CLocked => (set_crit h CLoaded, WIn, [ev 0 1 0 (zn (ptr h)) 1])
      | _ => (h, v, [])
      end
  | OSwap, WIn =>
      match crit h with
      | CLoaded =>
          ({| ptr := nxt h; gen := gen h; c0 := c0 h; c1 := c1 h;
              crit := CSwapped (ptr h) SPre0 false false 0; nxt := S (nxt h); freed := freed h; aborted := aborted h |},
           WIn, [ev 2 1 (zn (nxt h)) (zn (ptr h)) 1])
      | _ => (h, v, [])
      end
  | OBarrier, WIn =>
      match crit h with
      | CSwapped old st s0 s1 it => let '(h', es) := barrier_step h old st s0 s1 it in (h', WIn, es)
      | _ => (h, v, [])
      end
  | OUnlock, WIn =>
      match crit h with
      | CLocked | CLoaded | CStored => (set_crit h CNone, VIdle, [ev 7 5 0 0 1])
      | _ => (h, v, [])
      end
  | _, _ => (h, v, [])
  end.

(** Is the store() of the current holder finished (the next writer operation is not a barrier
    step)? *)
Definition in_store (h : hl) : bool :=
  match crit h with CSwapped _ _ _ _ _ => true | _ => false end.
