(** C10: counting / provenance invariants of the iterator model, for every schedule. *)
From Coq Require Import List Arith ZArith Bool Lia.
From SH Require Import base.Pool gen.Extracted_iter iter.Model iter.Base.
Import ListNotations.

(** a handler invocation that has not yet performed its store (whatever the order of store and
    wake in the action is) *)
Definition is_pre (f : frame) : bool :=
  match fk f with
  | FH _ _ => if action_store_first then (match pc f with F0 => true | _ => false end)
              else (match pc f with F0 | F1 => true | _ => false end)
  | _ => false
  end.
Definition hpre (s : nat) (f : frame) : bool :=
  match fk f with FH g _ => Nat.eqb g s && is_pre f | _ => false end.
Definition hprev (s : nat) (v : Z) (f : frame) : bool :=
  match fk f with FH g i => Nat.eqb g s && Z.eqb i v && is_pre f | _ => false end.

Definition occ (v : Z) (l : list Z) : nat := count_occ Z.eq_dec l v.

Record InvB (raw0 : bool) (sh : shared) (fr : list frame) : Prop := {
  b_raw : exraw sh = raw0;
  b_cnt : forall s, length (ylog sh s) + length (slot sh s) <= nstored sh s;
  b_beg : forall s, nstored sh s + cnt (hpre s) fr = length (begun sh s);
  b_wat : forall s, watch sh s = false -> begun sh s = [];
  b_max : forall s, watch sh s = true -> s < MAX_SIGNUM;
  b_fifo : raw0 = true -> forall s, stlog sh s = ylog sh s ++ slot sh s;
  b_full : raw0 = true -> forall s, length (slot sh s) <= CHAN_SLOTS;
  b_occ : raw0 = true -> forall s v, occ v (stlog sh s) + cnt (hprev s v) fr <= occ v (begun sh s);
  b_flag : raw0 = false -> forall s, (slot sh s = [] \/ slot sh s = [zn s]) /\ Forall (eq (zn s)) (ylog sh s);
  b_add : forall k sg p, nth_error fr k = Some (mkFrame (FA sg) p) -> sg < MAX_SIGNUM
}.

Lemma InvB_init raw c : InvB raw (sh_init raw c) [].
Proof.
  constructor; simpl; intros; auto; try lia; try discriminate.
  destruct k; discriminate.
Qed.

(** shared states that agree on everything InvB talks about *)
Definition same_b (s s' : shared) : Prop :=
  exraw s' = exraw s /\ slot s' = slot s /\ nstored s' = nstored s /\ stlog s' = stlog s /\ ylog s' = ylog s /\
  begun s' = begun s /\ watch s' = watch s.

Lemma same_b_refl s : same_b s s.
Proof. repeat split. Qed.

Lemma InvB_same raw s s' fr : same_b s s' -> InvB raw s fr -> InvB raw s' fr.
Proof.
  intros (E1 & E2 & E3 & E4 & E5 & E6 & E7) I. destruct I.
  constructor; try rewrite E1; try rewrite E2; try rewrite E3; try rewrite E4; try rewrite E5; try rewrite E6; try rewrite E7; auto.
Qed.

Lemma do_wake_same s : same_b s (do_wake s).
Proof.
  unfold do_wake. destruct (pipe s <? cap s); [destruct (armed s)|]; repeat split.
Qed.

Lemma occ_app v l1 l2 : occ v (l1 ++ l2) = occ v l1 + occ v l2.
Proof. unfold occ. apply count_occ_app. Qed.

(** ---- Pending::next's load ---- *)
Lemma InvB_load raw s fr p : InvB raw s fr -> InvB raw (snd (do_load s p)) fr.
Proof.
  intro I. unfold do_load. destruct (slot s p) as [|v r] eqn:Es; simpl; [exact I|].
  destruct I. constructor; simpl; auto.
  - intro g. unfold fupd. destruct (Nat.eqb_spec g p) as [->|Hne]; [|apply b_cnt0].
    specialize (b_cnt0 p). rewrite Es in b_cnt0. simpl in b_cnt0. rewrite app_length. simpl.
    destruct (exraw s); simpl; lia.
  - intros Hr g. specialize (b_fifo0 Hr g). unfold fupd. destruct (Nat.eqb_spec g p) as [->|Hne]; auto.
    rewrite b_raw0, Hr. rewrite b_fifo0, Es. rewrite <- app_assoc. reflexivity.
  - intros Hr g. specialize (b_full0 Hr g). unfold fupd. destruct (Nat.eqb_spec g p) as [->|Hne]; auto.
    rewrite Es in b_full0. simpl in b_full0. destruct (exraw s); simpl; lia.
  - intros Hr g. specialize (b_flag0 Hr g). unfold fupd. destruct (Nat.eqb_spec g p) as [->|Hne]; auto.
    destruct b_flag0 as [[A|A] B]; rewrite Es in A; [discriminate|]. inversion A; subst.
    rewrite b_raw0, Hr. split; [left; reflexivity|]. apply Forall_app. split; auto.
Qed.

(** ---- frames ---- *)
Lemma cnt_upd_eq (P : frame -> bool) fr k f f' : nth_error fr k = Some f -> P f' = P f -> cnt P (upd fr k f') = cnt P fr.
Proof. intros H E. pose proof (cnt_upd P fr k f f' H). rewrite E in H0. lia. Qed.

Lemma cnt_upd_dec (P : frame -> bool) fr k f f' : nth_error fr k = Some f -> P f = true -> P f' = false ->
  cnt P (upd fr k f') + 1 = cnt P fr.
Proof. intros H E1 E2. pose proof (cnt_upd P fr k f f' H). rewrite E1, E2 in H0. simpl in H0. lia. Qed.

Lemma add_upd fr k f f' (s' : shared) :
  nth_error fr k = Some f ->
  (forall sg p, f' = mkFrame (FA sg) p -> exists q, f = mkFrame (FA sg) q) ->
  (forall j sg p, nth_error fr j = Some (mkFrame (FA sg) p) -> sg < MAX_SIGNUM) ->
  forall j sg p, nth_error (upd fr k f') j = Some (mkFrame (FA sg) p) -> sg < MAX_SIGNUM.
Proof.
  intros Hk Hf H j sg p Hj. apply nth_upd_cases in Hj. destruct Hj as [(-> & _ & E)|(_ & E)]; [|eauto].
  subst f'. destruct (Hf sg p eq_refl) as [q ->]. eauto.
Qed.

Lemma InvB_frame raw sh fr k f : InvB raw sh fr -> nth_error fr k = Some f ->
  InvB raw (fst (fst (fstep sh f))) (upd fr k (snd (fst (fstep sh f)))).
Proof.
  intros I Hk.
  (* steps that touch nothing InvB depends on, and do not change the frame's class *)
  assert (Triv : forall s' f', same_b sh s' -> (forall s, hpre s f' = hpre s f) -> (forall s v, hprev s v f' = hprev s v f) ->
                 (forall sg p, f' = mkFrame (FA sg) p -> exists q, f = mkFrame (FA sg) q) -> InvB raw s' (upd fr k f')).
  { intros s' f' Hs H1 H2 H3. apply (InvB_same raw sh s' _ Hs). destruct I. constructor; auto.
    - intro s. rewrite (cnt_upd_eq (hpre s) fr k f f' Hk (H1 s)). auto.
    - intros Hr s v. rewrite (cnt_upd_eq (hprev s v) fr k f f' Hk (H2 s v)). auto.
    - eapply add_upd; eauto. }
  destruct f as [[sg info| |sg] p]; unfold fstep; simpl.
  - (* handler *)
    unfold is_pre, hpre, hprev in *.
    assert (Store : forall q, is_pre (mkFrame (FH sg info) p) = true -> is_pre (mkFrame (FH sg info) q) = false ->
                    InvB raw (do_store sh sg info) (upd fr k (mkFrame (FH sg info) q))).
    { intros q Hp Hq. unfold do_store. destruct I.
      assert (CntS : forall s, cnt (hpre s) (upd fr k (mkFrame (FH sg info) q)) + (if Nat.eqb sg s then 1 else 0) = cnt (hpre s) fr).
      { intro s. pose proof (cnt_upd (hpre s) fr k _ (mkFrame (FH sg info) q) Hk) as C. unfold hpre in C. simpl in C.
        rewrite Hp, Hq in C. destruct (Nat.eqb sg s); simpl in C; lia. }
      assert (CntV : forall s v, cnt (hprev s v) (upd fr k (mkFrame (FH sg info) q)) + (if Nat.eqb sg s && Z.eqb info v then 1 else 0) = cnt (hprev s v) fr).
      { intros s v. pose proof (cnt_upd (hprev s v) fr k _ (mkFrame (FH sg info) q) Hk) as C. unfold hprev in C. simpl in C.
        rewrite Hp, Hq in C. destruct (Nat.eqb sg s && Z.eqb info v); simpl in C; lia. }
      assert (AddK : forall j g r, nth_error (upd fr k (mkFrame (FH sg info) q)) j = Some (mkFrame (FA g) r) -> g < MAX_SIGNUM).
      { eapply add_upd; eauto. intros; discriminate. }
      destruct (exraw sh) eqn:Er; [destruct (length (slot sh sg) <? CHAN_SLOTS) eqn:El|].
      - (* enqueued *)
        apply Nat.ltb_lt in El. constructor; simpl; auto.
        + intro s. specialize (b_cnt0 s). unfold fupd. destruct (Nat.eqb_spec s sg) as [->|Hne]; auto.
          rewrite app_length. simpl. lia.
        + intro s. specialize (b_beg0 s). specialize (CntS s). unfold fupd.
          destruct (Nat.eqb_spec s sg) as [->|Hne].
          * rewrite Nat.eqb_refl in CntS. lia.
          * destruct (Nat.eqb_spec sg s); [congruence|]. lia.
        + intros Hr s. specialize (b_fifo0 Hr s). unfold fupd. destruct (Nat.eqb_spec s sg) as [->|Hne]; auto.
          rewrite b_fifo0. rewrite app_assoc. reflexivity.
        + intros Hr s. specialize (b_full0 Hr s). unfold fupd. destruct (Nat.eqb_spec s sg) as [->|Hne]; auto.
          rewrite app_length. simpl. lia.
        + intros Hr s v. specialize (b_occ0 Hr s v). specialize (CntV s v). unfold fupd.
          destruct (Nat.eqb_spec s sg) as [->|Hne].
          * rewrite Nat.eqb_refl in CntV. simpl in CntV. rewrite occ_app. unfold occ at 2. simpl.
            destruct (Z.eq_dec info v) as [->|Hv].
            -- rewrite Z.eqb_refl in CntV. lia.
            -- destruct (Z.eqb_spec info v); [congruence|]. lia.
          * destruct (Nat.eqb_spec sg s); [congruence|]. simpl in CntV. lia.
        + intros Hr. congruence.
      - (* dropped: the channel is full *)
        constructor; simpl; auto.
        + intro s. specialize (b_cnt0 s). unfold fupd. destruct (Nat.eqb_spec s sg) as [->|Hne]; auto.
        + intro s. specialize (b_beg0 s). specialize (CntS s). unfold fupd.
          destruct (Nat.eqb_spec s sg) as [->|Hne].
          * rewrite Nat.eqb_refl in CntS. lia.
          * destruct (Nat.eqb_spec sg s); [congruence|]. lia.
        + intros Hr s v. specialize (b_occ0 Hr s v). specialize (CntV s v).
          destruct (Nat.eqb sg s && Z.eqb info v); lia.
        + intros Hr. congruence.
      - (* SignalOnly: set the flag *)
        constructor; simpl; auto.
        + intro s. specialize (b_cnt0 s). unfold fupd. destruct (Nat.eqb_spec s sg) as [->|Hne]; auto. simpl. lia.
        + intro s. specialize (b_beg0 s). specialize (CntS s). unfold fupd.
          destruct (Nat.eqb_spec s sg) as [->|Hne].
          * rewrite Nat.eqb_refl in CntS. lia.
          * destruct (Nat.eqb_spec sg s); [congruence|]. lia.
        + intros Hr. congruence.
        + intros Hr. congruence.
        + intros Hr. congruence.
        + intros Hr s. specialize (b_flag0 Hr s). unfold fupd. destruct (Nat.eqb_spec s sg) as [->|Hne]; auto.
          destruct b_flag0 as [_ B]. split; auto. }
    destruct action_store_first; destruct p; simpl;
      try (apply Store; reflexivity);
      try (apply Triv; [apply do_wake_same || apply same_b_refl|intro; reflexivity|intros; reflexivity|intros; discriminate]).
  - (* closer *)
    destruct close_store_first; destruct p; simpl;
      apply Triv; try (intro; reflexivity); try (intros; reflexivity); try (intros; discriminate);
      try apply same_b_refl; try apply do_wake_same;
      try (repeat split; fail);
      try (pose proof (do_wake_same sh) as (E1 & E2 & E3 & E4 & E5 & E6 & E7); repeat split; simpl; assumption).
  - (* adder *)
    destruct p; simpl.
    + destruct (idsm sh); [apply Triv; [apply same_b_refl|intro; reflexivity|intros; reflexivity|intros ? ? E; inversion E; eauto]|].
      apply Triv; [repeat split|intro; reflexivity|intros; reflexivity|intros ? ? E; inversion E; eauto].
    + (* publish: the watch set grows *)
      assert (Hsg : sg < MAX_SIGNUM) by (destruct I; eauto).
      destruct I. constructor; simpl; auto.
      * intro s. rewrite (cnt_upd_eq (hpre s) fr k _ (mkFrame (FA sg) F2) Hk eq_refl). auto.
      * intros s Hs. apply b_wat0. unfold fupd in Hs. destruct (Nat.eqb s sg); [discriminate|auto].
      * intros s Hs. unfold fupd in Hs. destruct (Nat.eqb_spec s sg) as [->|Hne]; auto.
      * intros Hr s v. rewrite (cnt_upd_eq (hprev s v) fr k _ (mkFrame (FA sg) F2) Hk eq_refl). auto.
      * eapply add_upd; eauto. intros ? ? E; inversion E; eauto.
    + apply Triv; [repeat split|intro; reflexivity|intros; reflexivity|intros ? ? E; inversion E; eauto].
    + apply Triv; [apply same_b_refl|intro; reflexivity|intros; reflexivity|intros ? ? E; inversion E; eauto].
Qed.
