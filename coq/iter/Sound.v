(** C10: counting / provenance invariants of the iterator model, for every schedule. *)
From Coq Require Import List Arith ZArith Bool Lia.
From SH Require Import base.Pool gen.Extracted_iter iter.Model iter.Base.
Import ListNotations.

(** a handler invocation that has not yet performed its store (whatever the order of store and
    wake in the action is) *)
Definition is_pre (f : frame) : bool :=
  match fk f with
  | FH _ _ => if action_store_first then (match pc f with F0 => true | _ => false end)
              else (match pc f with F0 | F1 => true | _ => false end)
  | _ => false
  end.
Definition hpre (s : nat) (f : frame) : bool :=
  match fk f with FH g _ => Nat.eqb g s && is_pre f | _ => false end.
Definition hprev (s : nat) (v : Z) (f : frame) : bool :=
  match fk f with FH g i => Nat.eqb g s && Z.eqb i v && is_pre f | _ => false end.

Definition occ (v : Z) (l : list Z) : nat := count_occ Z.eq_dec l v.

Record InvB (raw0 : bool) (sh : shared) (fr : list frame) : Prop := {
  b_raw : exraw sh = raw0;
  b_cnt : forall s, length (ylog sh s) + length (slot sh s) <= nstored sh s;
  b_beg : forall s, nstored sh s + cnt (hpre s) fr = length (begun sh s);
  b_wat : forall s, watch sh s = false -> begun sh s = [];
  b_max : forall s, watch sh s = true -> s < MAX_SIGNUM;
  b_fifo : raw0 = true -> forall s, stlog sh s = ylog sh s ++ slot sh s;
  b_full : raw0 = true -> forall s, length (slot sh s) <= CHAN_SLOTS;
  b_occ : raw0 = true -> forall s v, occ v (stlog sh s) + cnt (hprev s v) fr <= occ v (begun sh s);
  b_flag : raw0 = false -> forall s, (slot sh s = [] \/ slot sh s = [zn s]) /\ Forall (eq (zn s)) (ylog sh s);
  b_add : forall k sg p, nth_error fr k = Some (mkFrame (FA sg) p) -> sg < MAX_SIGNUM
}.

Lemma InvB_init raw c : InvB raw (sh_init raw c) [].
Proof.
  constructor; simpl; intros; auto; try lia; try discriminate.
  destruct k; discriminate.
Qed.

(** shared states that agree on everything InvB talks about *)
Definition same_b (s s' : shared) : Prop :=
  exraw s' = exraw s /\ slot s' = slot s /\ nstored s' = nstored s /\ stlog s' = stlog s /\ ylog s' = ylog s /\
  begun s' = begun s /\ watch s' = watch s.

Lemma same_b_refl s : same_b s s.
Proof. repeat split. Qed.

Lemma InvB_same raw s s' fr : same_b s s' -> InvB raw s fr -> InvB raw s' fr.
Proof.
  intros (E1 & E2 & E3 & E4 & E5 & E6 & E7) I. destruct I.
  constructor; try rewrite E1; try rewrite E2; try rewrite E3; try rewrite E4; try rewrite E5; try rewrite E6; try rewrite E7; auto.
Qed.

Lemma do_wake_same s : same_b s (do_wake s).
Proof.
  unfold do_wake. destruct (pipe s <? cap s); [destruct (armed s)|]; repeat split.
Qed.

Lemma occ_app v l1 l2 : occ v (l1 ++ l2) = occ v l1 + occ v l2.
Proof. unfold occ. apply count_occ_app. Qed.

(** ---- Pending::next's load ---- *)
Lemma InvB_load raw s fr p : InvB raw s fr -> InvB raw (snd (do_load s p)) fr.
Proof.
  intro I. unfold do_load. destruct (slot s p) as [|v r] eqn:Es; simpl; [exact I|].
  destruct I. constructor; simpl; auto.
  - intro g. unfold fupd. destruct (Nat.eqb_spec g p) as [->|Hne]; [|apply b_cnt0].
    specialize (b_cnt0 p). rewrite Es in b_cnt0. simpl in b_cnt0. rewrite app_length. simpl.
    destruct (exraw s); simpl; lia.
  - intros Hr g. specialize (b_fifo0 Hr g). unfold fupd. destruct (Nat.eqb_spec g p) as [->|Hne]; auto.
    rewrite b_raw0, Hr. rewrite b_fifo0, Es. rewrite <- app_assoc. reflexivity.
  - intros Hr g. specialize (b_full0 Hr g). unfold fupd. destruct (Nat.eqb_spec g p) as [->|Hne]; auto.
    rewrite Es in b_full0. simpl in b_full0. destruct (exraw s); simpl; lia.
  - intros Hr g. specialize (b_flag0 Hr g). unfold fupd. destruct (Nat.eqb_spec g p) as [->|Hne]; auto.
    destruct b_flag0 as [[A|A] B]; rewrite Es in A; [discriminate|]. inversion A; subst.
    rewrite Hr. split; [left; reflexivity|]. apply Forall_app. split; auto.
Qed.

(** ---- frames ---- *)
Lemma cnt_upd_eq (P : frame -> bool) fr k f f' : nth_error fr k = Some f -> P f' = P f -> cnt P (upd fr k f') = cnt P fr.
Proof. intros H E. pose proof (cnt_upd P fr k f f' H). rewrite E in H0. lia. Qed.

Lemma cnt_upd_dec (P : frame -> bool) fr k f f' : nth_error fr k = Some f -> P f = true -> P f' = false ->
  cnt P (upd fr k f') + 1 = cnt P fr.
Proof. intros H E1 E2. pose proof (cnt_upd P fr k f f' H). rewrite E1, E2 in H0. simpl in H0. lia. Qed.

Lemma add_upd fr k f f' (s' : shared) :
  nth_error fr k = Some f ->
  (forall sg p, f' = mkFrame (FA sg) p -> exists q, f = mkFrame (FA sg) q) ->
  (forall j sg p, nth_error fr j = Some (mkFrame (FA sg) p) -> sg < MAX_SIGNUM) ->
  forall j sg p, nth_error (upd fr k f') j = Some (mkFrame (FA sg) p) -> sg < MAX_SIGNUM.
Proof.
  intros Hk Hf H j sg p Hj. apply nth_upd_cases in Hj. destruct Hj as [(-> & _ & E)|(_ & E)]; [|eauto].
  subst f'. destruct (Hf sg p eq_refl) as [q ->]. eauto.
Qed.

Lemma InvB_frame raw sh fr k f : InvB raw sh fr -> nth_error fr k = Some f ->
  InvB raw (fst (fst (fstep sh f))) (upd fr k (snd (fst (fstep sh f)))).
Proof.
  intros I Hk.
  (* steps that touch nothing InvB depends on, and do not change the frame's class *)
  assert (Triv : forall s' f', same_b sh s' -> (forall s, hpre s f' = hpre s f) -> (forall s v, hprev s v f' = hprev s v f) ->
                 (forall sg p, f' = mkFrame (FA sg) p -> exists q, f = mkFrame (FA sg) q) -> InvB raw s' (upd fr k f')).
  { intros s' f' Hs H1 H2 H3. apply (InvB_same raw sh s' _ Hs). destruct I. constructor; auto.
    - intro s. rewrite (cnt_upd_eq (hpre s) fr k f f' Hk (H1 s)). auto.
    - intros Hr s v. rewrite (cnt_upd_eq (hprev s v) fr k f f' Hk (H2 s v)). auto.
    - eapply add_upd; eauto. }
  destruct f as [[sg info| |sg] p]; unfold fstep; simpl.
  - (* handler *)
    unfold is_pre, hpre, hprev in *.
    assert (Store : forall q, is_pre (mkFrame (FH sg info) p) = true -> is_pre (mkFrame (FH sg info) q) = false ->
                    InvB raw (do_store sh sg info) (upd fr k (mkFrame (FH sg info) q))).
    { intros q Hp Hq. unfold do_store. destruct I.
      assert (CntS : forall s, cnt (hpre s) (upd fr k (mkFrame (FH sg info) q)) + (if Nat.eqb sg s then 1 else 0) = cnt (hpre s) fr).
      { intro s. pose proof (cnt_upd (hpre s) fr k _ (mkFrame (FH sg info) q) Hk) as C. unfold hpre in C. simpl in C.
        rewrite Hp, Hq in C. unfold hpre. destruct (Nat.eqb sg s); simpl in C; lia. }
      assert (CntV : forall s v, cnt (hprev s v) (upd fr k (mkFrame (FH sg info) q)) + (if Nat.eqb sg s && Z.eqb info v then 1 else 0) = cnt (hprev s v) fr).
      { intros s v. pose proof (cnt_upd (hprev s v) fr k _ (mkFrame (FH sg info) q) Hk) as C. unfold hprev in C. simpl in C.
        rewrite Hp, Hq in C. unfold hprev. destruct (Nat.eqb sg s && Z.eqb info v); simpl in C; lia. }
      assert (AddK : forall j g r, nth_error (upd fr k (mkFrame (FH sg info) q)) j = Some (mkFrame (FA g) r) -> g < MAX_SIGNUM).
      { eapply add_upd; eauto. intros; discriminate. }
      destruct (exraw sh) eqn:Er; [destruct (length (slot sh sg) <? CHAN_SLOTS) eqn:El|].
      - (* enqueued *)
        apply Nat.ltb_lt in El. constructor; simpl; auto; try congruence.
        + intro s. specialize (b_cnt0 s). unfold fupd. destruct (Nat.eqb_spec s sg) as [->|Hne]; auto.
          rewrite app_length. simpl. lia.
        + intro s. specialize (b_beg0 s). specialize (CntS s). unfold fupd.
          destruct (Nat.eqb_spec s sg) as [->|Hne].
          * rewrite Nat.eqb_refl in CntS. lia.
          * destruct (Nat.eqb_spec sg s); [congruence|]. lia.
        + intros Hr s. specialize (b_fifo0 Hr s). unfold fupd. destruct (Nat.eqb_spec s sg) as [->|Hne]; auto.
          rewrite b_fifo0. rewrite app_assoc. reflexivity.
        + intros Hr s. specialize (b_full0 Hr s). unfold fupd. destruct (Nat.eqb_spec s sg) as [->|Hne]; auto.
          rewrite app_length. simpl. lia.
        + intros Hr s v. specialize (b_occ0 Hr s v). specialize (CntV s v). unfold fupd.
          destruct (Nat.eqb_spec s sg) as [->|Hne].
          * rewrite Nat.eqb_refl in CntV. simpl in CntV. rewrite occ_app. unfold occ at 2. simpl.
            destruct (Z.eq_dec info v) as [->|Hv].
            -- rewrite Z.eqb_refl in CntV. lia.
            -- destruct (Z.eqb_spec info v); [congruence|]. lia.
          * destruct (Nat.eqb_spec sg s); [congruence|]. simpl in CntV. lia.
      - (* dropped: the channel is full *)
        constructor; simpl; auto; try congruence.
        + intro s. specialize (b_cnt0 s). unfold fupd. destruct (Nat.eqb_spec s sg) as [->|Hne]; auto.
        + intro s. specialize (b_beg0 s). specialize (CntS s). unfold fupd.
          destruct (Nat.eqb_spec s sg) as [->|Hne].
          * rewrite Nat.eqb_refl in CntS. lia.
          * destruct (Nat.eqb_spec sg s); [congruence|]. lia.
        + intros Hr s v. specialize (b_occ0 Hr s v). specialize (CntV s v).
          destruct (Nat.eqb sg s && Z.eqb info v); lia.
      - (* SignalOnly: set the flag *)
        constructor; simpl; auto; try congruence.
        + intro s. specialize (b_cnt0 s). unfold fupd. destruct (Nat.eqb_spec s sg) as [->|Hne]; auto. simpl. lia.
        + intro s. specialize (b_beg0 s). specialize (CntS s). unfold fupd.
          destruct (Nat.eqb_spec s sg) as [->|Hne].
          * rewrite Nat.eqb_refl in CntS. lia.
          * destruct (Nat.eqb_spec sg s); [congruence|]. lia.
        + intros Hr s. specialize (b_flag0 Hr s). unfold fupd. destruct (Nat.eqb_spec s sg) as [->|Hne]; auto.
          destruct b_flag0 as [_ B]. split; auto. }
    destruct action_store_first; destruct p; simpl;
      try (apply Store; reflexivity);
      try (apply Triv; [apply do_wake_same || apply same_b_refl|intro; reflexivity|intros; reflexivity|intros; discriminate]).
  - (* closer *)
    destruct close_store_first; destruct p; simpl;
      apply Triv; try (intro; reflexivity); try (intros; reflexivity); try (intros; discriminate);
      try apply same_b_refl; try apply do_wake_same;
      try (repeat split; fail);
      try (pose proof (do_wake_same sh) as (E1 & E2 & E3 & E4 & E5 & E6 & E7); repeat split; simpl; assumption).
  - (* adder *)
    destruct p; simpl.
    + destruct (idsm sh); [apply Triv; [apply same_b_refl|intro; reflexivity|intros; reflexivity|intros ? ? E; inversion E; eauto]|].
      apply Triv; [repeat split|intro; reflexivity|intros; reflexivity|intros ? ? E; inversion E; eauto].
    + (* publish: the watch set grows *)
      assert (Hsg : sg < MAX_SIGNUM) by (destruct I; eauto).
      destruct I. constructor; simpl; auto.
      * intro s. rewrite (cnt_upd_eq (hpre s) fr k _ (mkFrame (FA sg) F2) Hk eq_refl). auto.
      * intros s Hs. apply b_wat0. unfold fupd in Hs. destruct (Nat.eqb s sg); [discriminate|auto].
      * intros s Hs. destruct (Nat.eq_dec s sg) as [E|Hne]; [subst; auto|]. rewrite fupd_neq in Hs by auto. auto.
      * intros Hr s v. rewrite (cnt_upd_eq (hprev s v) fr k _ (mkFrame (FA sg) F2) Hk eq_refl). auto.
      * eapply add_upd; eauto. intros ? ? E; inversion E; eauto.
    + apply Triv; [repeat split|intro; reflexivity|intros; reflexivity|intros ? ? E; inversion E; eauto].
    + apply Triv; [apply same_b_refl|intro; reflexivity|intros; reflexivity|intros ? ? E; inversion E; eauto].
Qed.

(** ---- the consumer and the batches only load ---- *)
Lemma cstep_b s c b ch :
  let s' := fst (fst (fst (cstep s c b ch))) in same_b s s' \/ exists p, s' = snd (do_load s p).
Proof.
  unfold cstep. destruct (cpc_ c); simpl.
  - left; apply same_b_refl.
  - destruct (cop c); simpl; left; repeat split.
  - left; apply same_b_refl.
  - destruct (Nat.eqb ch 1); [left; apply same_b_refl|]. destruct (pipe s); simpl; left; repeat split.
  - destruct (closed s); simpl; left; apply same_b_refl.
  - right. exists (itpos c). destruct (do_load s (itpos c)) as [[v|] s']; reflexivity.
  - unfold none_exit, pend_exit. destruct (closed s); [|left; apply same_b_refl].
    destruct poll_none_retest; simpl; [left; apply same_b_refl|]. destruct (cop c); simpl; left; apply same_b_refl.
  - unfold none_exit, pend_exit. destruct (pipe s); [|simpl; left; repeat split].
    destruct poll_none_retest; simpl; [left; repeat split|]. destruct (cop c); simpl; left; repeat split.
  - unfold pend_exit. destruct (closed s); simpl; [left; apply same_b_refl|]. destruct (cop c); simpl; left; apply same_b_refl.
Qed.

Lemma ccall_b s c g o : same_b s (fst (fst (fst (ccall s c g o)))).
Proof.
  unfold ccall. destruct (cpc_ c); simpl; try apply same_b_refl.
  destruct o; simpl; try apply same_b_refl; destruct (cit c); simpl; try apply same_b_refl; repeat split.
Qed.

Lemma cnt_snoc (P : frame -> bool) fr f : cnt P (fr ++ [f]) = cnt P fr + b2n (P f).
Proof. rewrite cnt_app. unfold cnt at 2. simpl. destruct (P f); reflexivity. Qed.

Lemma InvB_wstep raw w l : InvB raw (w_sh w) (w_fr w) -> InvB raw (w_sh (fst (wstep w l))) (w_fr (fst (wstep w l))).
Proof.
  intro I. destruct l; simpl.
  - pose proof (ccall_b (w_sh w) (w_co w) (w_gone w) o) as H.
    destruct (ccall (w_sh w) (w_co w) (w_gone w) o) as [[[s c] g] es]. simpl in *. eapply InvB_same; eauto.
  - pose proof (cstep_b (w_sh w) (w_co w) (w_bats w) ch) as H.
    destruct (cstep (w_sh w) (w_co w) (w_bats w) ch) as [[[s c] b] es]. simpl in *.
    destruct H as [H|[p ->]]; [eapply InvB_same; eauto|apply InvB_load; auto].
  - destruct (nth_error (w_bats w) k) as [p|]; [|exact I]. unfold bstep.
    destruct (p <? MAX_SIGNUM); [|exact I].
    pose proof (InvB_load raw (w_sh w) (w_fr w) p I) as H.
    destruct (do_load (w_sh w) p) as [[v|] s']; exact H.
  - destruct (nth_error (w_fr w) k) as [f|] eqn:E; [|exact I].
    pose proof (InvB_frame raw (w_sh w) (w_fr w) k f I E) as H.
    destruct (fstep (w_sh w) f) as [[s f'] es]. exact H.
  - destruct (watch (w_sh w) sg) eqn:Ew; [|exact I]. simpl. destruct I.
    assert (Hp : is_pre (mkFrame (FH sg info) F0) = true) by (unfold is_pre; simpl; destruct action_store_first; reflexivity).
    constructor; simpl; auto.
    + intro s. rewrite cnt_snoc. unfold hpre at 2. simpl. rewrite Hp. specialize (b_beg0 s).
      unfold fupd. destruct (Nat.eqb_spec s sg) as [->|Hne].
      * rewrite Nat.eqb_refl. simpl. rewrite app_length. simpl. lia.
      * destruct (Nat.eqb_spec sg s); [congruence|]. simpl. lia.
    + intros s Hs. unfold fupd. destruct (Nat.eqb_spec s sg) as [->|Hne]; [congruence|auto].
    + intros Hr s v. rewrite cnt_snoc. unfold hprev at 2. simpl. rewrite Hp. specialize (b_occ0 Hr s v).
      unfold fupd. destruct (Nat.eqb_spec s sg) as [->|Hne].
      * rewrite Nat.eqb_refl. simpl. rewrite occ_app. unfold occ at 3. simpl.
        destruct (Z.eq_dec info v) as [->|Hv].
        -- rewrite Z.eqb_refl. simpl. lia.
        -- destruct (Z.eqb_spec info v); [congruence|]. simpl. lia.
      * destruct (Nat.eqb_spec sg s); [congruence|]. simpl. lia.
    + intros k g p Hk. apply nth_app_cases in Hk. destruct Hk as [Hk|[_ Hk]]; [eauto|discriminate].
  - destruct I. constructor; simpl; auto.
    + intro s. rewrite cnt_snoc. simpl. specialize (b_beg0 s). lia.
    + intros Hr s v. rewrite cnt_snoc. simpl. specialize (b_occ0 Hr s v). lia.
    + intros k g p Hk. apply nth_app_cases in Hk. destruct Hk as [Hk|[_ Hk]]; [eauto|discriminate].
  - destruct (sg <? MAX_SIGNUM) eqn:El; [|exact I]. apply Nat.ltb_lt in El. destruct I. constructor; simpl; auto.
    + intro s. rewrite cnt_snoc. simpl. specialize (b_beg0 s). lia.
    + intros Hr s v. rewrite cnt_snoc. simpl. specialize (b_occ0 Hr s v). lia.
    + intros k g p Hk. apply nth_app_cases in Hk. destruct Hk as [Hk|[_ Hk]]; [eauto|]. inversion Hk; subst; auto.
Qed.

Theorem InvB_reach raw c ls : InvB raw (w_sh (reach raw c ls)) (w_fr (reach raw c ls)).
Proof.
  apply (reach_ind (fun w => InvB raw (w_sh w) (w_fr w))).
  - apply InvB_init.
  - intros w l I. apply InvB_wstep. exact I.
Qed.

(** ---- the statements of C10 ---- *)
Theorem counts raw c ls s :
  let sh := w_sh (reach raw c ls) in
  length (ylog sh s) + length (slot sh s) <= nstored sh s /\ nstored sh s <= length (begun sh s).
Proof.
  simpl. pose proof (InvB_reach raw c ls) as I. split; [apply (b_cnt _ _ _ I)|]. pose proof (b_beg _ _ _ I s). lia.
Qed.

Theorem only_watched raw c ls s :
  let sh := w_sh (reach raw c ls) in
  ylog sh s <> [] -> watch sh s = true /\ s < MAX_SIGNUM.
Proof.
  simpl. intro Hy. pose proof (InvB_reach raw c ls) as I.
  assert (W : watch (w_sh (reach raw c ls)) s = true).
  { destruct (watch (w_sh (reach raw c ls)) s) eqn:E; auto. pose proof (b_wat _ _ _ I s E) as Hb.
    pose proof (b_cnt _ _ _ I s). pose proof (b_beg _ _ _ I s). rewrite Hb in *. simpl in *.
    destruct (ylog (w_sh (reach raw c ls)) s); [congruence|simpl in *; lia]. }
  split; auto. apply (b_max _ _ _ I s W).
Qed.

Theorem fifo c ls s :
  let sh := w_sh (reach true c ls) in
  stlog sh s = ylog sh s ++ slot sh s /\ length (slot sh s) <= CHAN_SLOTS /\
  forall v, occ v (ylog sh s) <= occ v (stlog sh s) /\ occ v (stlog sh s) <= occ v (begun sh s).
Proof.
  simpl. pose proof (InvB_reach true c ls) as I. pose proof (b_fifo _ _ _ I eq_refl s) as F.
  split; [exact F|]. split; [apply (b_full _ _ _ I eq_refl)|]. intro v. split.
  - rewrite F, occ_app. lia.
  - pose proof (b_occ _ _ _ I eq_refl s v). lia.
Qed.

Theorem signal_only c ls s :
  let sh := w_sh (reach false c ls) in
  Forall (eq (zn s)) (ylog sh s) /\ length (slot sh s) <= 1.
Proof.
  simpl. pose proof (InvB_reach false c ls) as I. destruct (b_flag _ _ _ I eq_refl s) as [[A|A] B]; split; auto; rewrite A; simpl; lia.
Qed.
