(** Executable SC model of the signal iterators (DESIGN 3.1, 3.3, 3.7, 5.9-5.11):
    src/iterator/backend.rs (action closure of PendingSignals::add_signal, Handle::close /
    is_closed, SignalDelivery::flush / pending / poll_pending, Pending::next, SignalIterator::new
    / poll_signal), src/iterator/mod.rs (has_signals, wait, forever, Forever::next), the
    exfiltrators' store/load and pipe::wake.

    State.  [slot s] is the per-signal exfiltrator slot as a queue of records: for SignalOnly
    (exraw = false) a flag (queue of length <= 1 holding the signal number; [store] sets it,
    [load] = compare_exchange(true,false) clears it); for the info-carrying exfiltrators
    (exraw = true) the ABSTRACT bounded FIFO of capacity [CHAN_SLOTS] that C06 justifies for
    low_level/channel.rs (layering: a send on a full channel is dropped, a receive takes the
    head).  The self-pipe is a byte count with capacity [cap] (a wake on a full pipe is EAGAIN
    and leaves the bytes there).  [armed]/[notified] model the reactor of an asynchronous
    caller: the non-blocking readiness callback arms a wake-up when it answers "nothing", a
    byte arriving while armed turns it into an outstanding notification.

    Activities.  Pool frames: handler invocations (the action: store, wake), close() calls
    (store, wake), add_signal calls (lock, publish, unlock).  The consumer is unique (every
    consuming method needs [&mut]) and kept outside the pool; the [Pending] batches it has
    handed out (they own an [Arc], several may be alive, any thread may scan them) are the list
    [w_bats] of scan positions.  Any activity may step at any time; labels that do not apply
    are no-ops, so every label list is a schedule.

    The model FOLLOWS the structure extracted from the source ([action_store_first],
    [close_store_first], [poll_none_retest], [MAX_SIGNUM], [CHAN_SLOTS] of
    gen/Extracted_iter.v): it does what the code does now; the theorems are about that.

    Ghost state (no influence on behaviour): [closew], [begun], [nstored], [stlog], [ylog],
    [cb_last], [ncb]. *)
From Coq Require Import List Arith ZArith Bool.
From SH Require Import base.Pool gen.Extracted_iter.
Import ListNotations.

Definition fupd {A} (f : nat -> A) (k : nat) (v : A) : nat -> A :=
  fun j => if Nat.eqb j k then v else f j.

Record ev := mkEv { e_op : Z; e_loc : Z; e_arg : Z; e_res : Z; e_ok : Z }.
Definition bz (b : bool) : Z := if b then 1%Z else 0%Z.
Definition zn (n : nat) : Z := Z.of_nat n.

Record shared := mkSh {
  exraw : bool;              (* false: SignalOnly, true: info-carrying (bounded FIFO) *)
  cap : nat;                 (* capacity of the self-pipe in bytes *)
  slot : nat -> list Z;
  pipe : nat;
  closed : bool;
  watch : nat -> bool;
  idsm : bool;               (* registered_signal_ids mutex held *)
  armed : bool;
  notified : bool;
  closew : bool;             (* ghost: some close() call has completed its wake *)
  begun : nat -> list Z;     (* ghost: records of the deliveries begun, per signal *)
  nstored : nat -> nat;      (* ghost: number of store steps performed, per signal *)
  stlog : nat -> list Z;     (* ghost: records whose store took effect, in that order *)
  ylog : nat -> list Z       (* ghost: records yielded by Pending::next, in that order *)
}.

Definition sh_init (raw : bool) (c : nat) : shared :=
  {| exraw := raw; cap := c; slot := fun _ => []; pipe := 0; closed := false; watch := fun _ => false;
     idsm := false; armed := false; notified := false; closew := false;
     begun := fun _ => []; nstored := fun _ => 0; stlog := fun _ => []; ylog := fun _ => [] |}.

Definition set_pipe (s : shared) (p : nat) (a n : bool) : shared :=
  {| exraw := exraw s; cap := cap s; slot := slot s; pipe := p; closed := closed s; watch := watch s; idsm := idsm s;
     armed := a; notified := n; closew := closew s; begun := begun s; nstored := nstored s; stlog := stlog s; ylog := ylog s |}.
Definition set_closed (s : shared) : shared :=
  {| exraw := exraw s; cap := cap s; slot := slot s; pipe := pipe s; closed := true; watch := watch s; idsm := idsm s;
     armed := armed s; notified := notified s; closew := closew s; begun := begun s; nstored := nstored s; stlog := stlog s; ylog := ylog s |}.
Definition set_closew (s : shared) : shared :=
  {| exraw := exraw s; cap := cap s; slot := slot s; pipe := pipe s; closed := closed s; watch := watch s; idsm := idsm s;
     armed := armed s; notified := notified s; closew := true; begun := begun s; nstored := nstored s; stlog := stlog s; ylog := ylog s |}.
Definition set_watch (s : shared) (w : nat -> bool) : shared :=
  {| exraw := exraw s; cap := cap s; slot := slot s; pipe := pipe s; closed := closed s; watch := w; idsm := idsm s;
     armed := armed s; notified := notified s; closew := closew s; begun := begun s; nstored := nstored s; stlog := stlog s; ylog := ylog s |}.
Definition set_idsm (s : shared) (b : bool) : shared :=
  {| exraw := exraw s; cap := cap s; slot := slot s; pipe := pipe s; closed := closed s; watch := watch s; idsm := b;
     armed := armed s; notified := notified s; closew := closew s; begun := begun s; nstored := nstored s; stlog := stlog s; ylog := ylog s |}.
Definition set_begun (s : shared) (b : nat -> list Z) : shared :=
  {| exraw := exraw s; cap := cap s; slot := slot s; pipe := pipe s; closed := closed s; watch := watch s; idsm := idsm s;
     armed := armed s; notified := notified s; closew := closew s; begun := b; nstored := nstored s; stlog := stlog s; ylog := ylog s |}.
Definition set_store (s : shared) (sl : nat -> list Z) (n : nat -> nat) (l : nat -> list Z) : shared :=
  {| exraw := exraw s; cap := cap s; slot := sl; pipe := pipe s; closed := closed s; watch := watch s; idsm := idsm s;
     armed := armed s; notified := notified s; closew := closew s; begun := begun s; nstored := n; stlog := l; ylog := ylog s |}.
Definition set_load (s : shared) (sl : nat -> list Z) (y : nat -> list Z) : shared :=
  {| exraw := exraw s; cap := cap s; slot := sl; pipe := pipe s; closed := closed s; watch := watch s; idsm := idsm s;
     armed := armed s; notified := notified s; closew := closew s; begun := begun s; nstored := nstored s; stlog := stlog s; ylog := y |}.

(** ---- the primitive operations on the shared state ---- *)

(** Exfiltrator::store for signal [sg] with record [info].  SignalOnly: [slot.store(true)].
    Info-carrying: [Channel::send], dropped when the channel holds CHAN_SLOTS records. *)
Definition do_store (s : shared) (sg : nat) (info : Z) : shared :=
  let q := slot s sg in
  if exraw s then
    if length q <? CHAN_SLOTS
    then set_store s (fupd (slot s) sg (q ++ [info])) (fupd (nstored s) sg (S (nstored s sg))) (fupd (stlog s) sg (stlog s sg ++ [info]))
    else set_store s (slot s) (fupd (nstored s) sg (S (nstored s sg))) (stlog s)
  else set_store s (fupd (slot s) sg [zn sg]) (fupd (nstored s) sg (S (nstored s sg))) (fupd (stlog s) sg (stlog s sg ++ [zn sg])).

(** Exfiltrator::load at position [p]: SignalOnly [compare_exchange(true,false)], info-carrying
    [Channel::recv]. *)
Definition do_load (s : shared) (p : nat) : option Z * shared :=
  match slot s p with
  | [] => (None, s)
  | v :: r => (Some v, set_load s (fupd (slot s) p (if exraw s then r else [])) (fupd (ylog s) p (ylog s p ++ [v])))
  end.

(** pipe::wake: one non-blocking one-byte send. *)
Definition do_wake (s : shared) : shared :=
  if pipe s <? cap s
  then if armed s then set_pipe s (S (pipe s)) false true else set_pipe s (S (pipe s)) false (notified s)
  else s.

Definition ev_store (sg : nat) : ev := mkEv 1 (100 + zn sg) 1 0 1.
Definition ev_wake : ev := mkEv 15 2 1 0 1.
Definition ev_closed_load (b : bool) : ev := mkEv 0 1 0 (bz b) 1.
Definition ev_load (p : nat) (r : option Z) : ev :=
  match r with Some _ => mkEv 5 (100 + zn p) 1 1 1 | None => mkEv 5 (100 + zn p) 1 0 0 end.

(** ---- pool frames: handler invocations, close() calls, add_signal calls ---- *)
Inductive fkind := FH (sg : nat) (info : Z) | FK | FA (sg : nat).
Inductive fpc := F0 | F1 | F2 | FDone.
Record frame := mkFrame { fk : fkind; pc : fpc }.

Definition fstep (s : shared) (f : frame) : shared * frame * list ev :=
  match fk f, pc f with
  | FH sg info, F0 =>
      if action_store_first then (do_store s sg info, mkFrame (fk f) F1, [ev_store sg])
      else (do_wake s, mkFrame (fk f) F1, [ev_wake])
  | FH sg info, F1 =>
      if action_store_first then (do_wake s, mkFrame (fk f) FDone, [ev_wake])
      else (do_store s sg info, mkFrame (fk f) FDone, [ev_store sg])
  | FK, F0 =>
      if close_store_first then (set_closed s, mkFrame FK F1, [mkEv 1 1 1 0 1])
      else (do_wake s, mkFrame FK F1, [ev_wake])
  | FK, F1 =>
      if close_store_first then (set_closew (do_wake s), mkFrame FK FDone, [ev_wake])
      else (set_closew (set_closed s), mkFrame FK FDone, [mkEv 1 1 1 0 1])
  | FA sg, F0 =>
      if idsm s then (s, f, [mkEv 6 4 0 0 0])
      else (set_idsm s true, mkFrame (fk f) (if watch s sg then F2 else F1), [mkEv 6 4 0 0 1])
  | FA sg, F1 => (set_watch s (fupd (watch s) sg true), mkFrame (fk f) F2, [mkEv 2 5 (zn sg) 0 1])
  | FA sg, F2 => (set_idsm s false, mkFrame (fk f) FDone, [mkEv 7 4 0 0 1])
  | _, _ => (s, f, [])
  end.

(** ---- the consumer ---- *)
Inductive copk := OPending | OWait | OForever | OFNext | OPoll.
Inductive cres := RNone | RBatch | RIter | RSignal (sg : nat) (v : Z) | RPending | RClosed.
Inductive cpc := CIdle | CFlush | CWClosed | CRead | CP1 | CP2 | CP3 | CP4 | CP5.

Record cons := mkCons {
  cpc_ : cpc;
  cop : copk;
  cit : option nat;          (* position of the SignalIterator's [iter], if one is alive *)
  cres_ : cres;              (* result of the last completed call *)
  cb_last : option bool;     (* ghost: answer of the last callback consultation in this call *)
  ncb : nat                  (* ghost: number of callback consultations in this call *)
}.

Definition co_init : cons := mkCons CIdle OPending None RNone None 0.

Definition opk_z (o : copk) : Z := match o with OPending => 1 | OWait => 2 | OForever => 3 | OFNext => 4 | OPoll => 5 end.
Definition ev_ret (r : cres) : ev :=
  match r with
  | RNone => mkEv 32 0 0 0 1 | RBatch => mkEv 32 0 1 0 1 | RIter => mkEv 32 0 2 0 1
  | RSignal sg v => mkEv 32 0 3 v 1 | RPending => mkEv 32 0 4 0 1 | RClosed => mkEv 32 0 5 0 1
  end.

Definition itpos (c : cons) : nat := match cit c with Some p => p | None => MAX_SIGNUM end.
Definition scan_pc (p : nat) : cpc := if p <? MAX_SIGNUM then CP2 else CP3.

Definition c_goto (c : cons) (p : cpc) : cons := mkCons p (cop c) (cit c) (cres_ c) (cb_last c) (ncb c).
Definition c_ret (c : cons) (r : cres) : cons * list ev := (mkCons CIdle (cop c) (cit c) r (cb_last c) (ncb c), [ev_ret r]).
Definition c_cb (c : cons) (ans : bool) (p : cpc) : cons := mkCons p (cop c) (cit c) (cres_ c) (Some ans) (S (ncb c)).

(** poll_signal got Ok(None) from poll_pending and is about to report Pending: Forever::next
    retries ([continue]), the non-blocking interface returns Pending. *)
Definition pend_exit (c : cons) : cons * list ev :=
  match cop c with
  | OFNext => (c_goto c CP1, [])
  | _ => c_ret c RPending
  end.
(** poll_signal's Ok(None) arm: re-test is_closed() first, if the source does. *)
Definition none_exit (c : cons) : cons * list ev :=
  if poll_none_retest then (c_goto c CP5, []) else pend_exit c.

(** One step of the consumer; [ch = 1] at the blocking read = the read is interrupted (EINTR)
    and retried. *)
Definition cstep (s : shared) (c : cons) (bats : list nat) (ch : nat) : shared * cons * list nat * list ev :=
  match cpc_ c with
  | CIdle => (s, c, bats, [])
  | CFlush =>
      let s' := set_pipe s 0 (armed s) (notified s) in
      let e := mkEv 15 3 2 0 1 in
      match cop c with
      | OPending | OWait => let '(c', er) := c_ret c RBatch in (s', c', bats ++ [0], e :: er)
      | OForever => let '(c', er) := c_ret (mkCons CFlush (cop c) (Some 0) (cres_ c) (cb_last c) (ncb c)) RIter in (s', c', bats, e :: er)
      | OFNext | OPoll => (s', mkCons CP1 (cop c) (Some 0) (cres_ c) (cb_last c) (ncb c), bats, [e])
      end
  | CWClosed =>
      (s, c_goto c (if closed s then CFlush else CRead), bats, [ev_closed_load (closed s)])
  | CRead =>
      if Nat.eqb ch 1 then (s, c, bats, [mkEv 35 3 3 0 1])
      else match pipe s with
           | O => (s, c, bats, [mkEv 24 3 3 0 0])
           | S p => (set_pipe s p (armed s) (notified s), c_cb c true CFlush, bats, [mkEv 15 3 3 0 1])
           end
  | CP1 =>
      if closed s then let '(c', er) := c_ret c RClosed in (s, c', bats, ev_closed_load true :: er)
      else (s, c_goto c (scan_pc (itpos c)), bats, [ev_closed_load false])
  | CP2 =>
      let p := itpos c in
      match do_load s p with
      | (Some v, s') => let '(c', er) := c_ret c (RSignal p v) in (s', c', bats, ev_load p (Some v) :: er)
      | (None, s') => (s', mkCons (scan_pc (S p)) (cop c) (Some (S p)) (cres_ c) (cb_last c) (ncb c), bats, [ev_load p None])
      end
  | CP3 =>
      if closed s then let '(c', er) := none_exit c in (s, c', bats, ev_closed_load true :: er)
      else (s, c_goto c (match cop c with OFNext => CRead | _ => CP4 end), bats, [ev_closed_load false])
  | CP4 =>
      match pipe s with
      | O => let '(c', er) := none_exit (c_cb c false CP4) in
             (set_pipe s 0 true (notified s), c', bats, mkEv 36 3 0 0 1 :: mkEv 31 3 0 0 1 :: er)
      | S p => (set_pipe s p (armed s) (notified s), c_cb c true CFlush, bats, [mkEv 36 3 0 0 1; mkEv 31 3 0 1 1])
      end
  | CP5 =>
      if closed s then let '(c', er) := c_ret c RClosed in (s, c', bats, ev_closed_load true :: er)
      else let '(c', er) := pend_exit c in (s, c', bats, ev_closed_load false :: er)
  end.

(** Starting a call (only when idle).  pending / wait / forever need [&mut SignalsInfo], so a
    Forever iterator created earlier is gone; Forever::next and poll_signal need a live
    SignalIterator.  A new poll by the asynchronous caller consumes the notification.
    A SignalIterator dropped before its batch is exhausted is recorded (ghost) in [gone]: it is a
    batch that was handed out and not drained. *)
Definition abandon (c : cons) (gone : list nat) : list nat :=
  match cit c with
  | Some p => if p <? MAX_SIGNUM then gone ++ [p] else gone
  | None => gone
  end.

Definition ccall (s : shared) (c : cons) (gone : list nat) (o : copk) : shared * cons * list nat * list ev :=
  match cpc_ c with
  | CIdle =>
      let e := mkEv 30 0 (opk_z o) 0 1 in
      match o with
      | OPending => (s, mkCons CFlush o None RNone None 0, abandon c gone, [e])
      | OWait => (s, mkCons CWClosed o None RNone None 0, abandon c gone, [e])
      | OForever => (s, mkCons CFlush o None RNone None 0, abandon c gone, [e])
      | OFNext => match cit c with
                  | Some _ => (s, mkCons CP1 o (cit c) RNone None 0, gone, [e])
                  | None => (s, c, gone, [])
                  end
      | OPoll => match cit c with
                 | Some _ => (set_pipe s (pipe s) (armed s) false, mkCons CP1 o (cit c) RNone None 0, gone, [e])
                 | None => (s, c, gone, [])
                 end
      end
  | _ => (s, c, gone, [])
  end.

(** One load of Pending::next on a handed-out batch at position [p]. *)
Definition bstep (s : shared) (p : nat) : shared * nat * list ev :=
  if p <? MAX_SIGNUM then
    match do_load s p with
    | (Some v, s') => (s', p, [ev_load p (Some v)])
    | (None, s') => (s', S p, [ev_load p None])
    end
  else (s, p, []).

(** ---- worlds, labels, runs ---- *)
Record world := mkW { w_sh : shared; w_co : cons; w_bats : list nat; w_gone : list nat; w_fr : list frame }.

Inductive label :=
| LCall (o : copk) | LCons (ch : nat) | LBatch (k : nat) | LStep (k : nat)
| LSpawnH (sg : nat) (info : Z) | LSpawnK | LSpawnA (sg : nat).

Definition w_init (raw : bool) (c : nat) : world := mkW (sh_init raw c) co_init [] [] [].

Definition wstep (w : world) (l : label) : world * list ev :=
  match l with
  | LCall o => let '(s, c, g, es) := ccall (w_sh w) (w_co w) (w_gone w) o in (mkW s c (w_bats w) g (w_fr w), es)
  | LCons ch => let '(s, c, b, es) := cstep (w_sh w) (w_co w) (w_bats w) ch in (mkW s c b (w_gone w) (w_fr w), es)
  | LBatch k =>
      match nth_error (w_bats w) k with
      | Some p => let '(s, p', es) := bstep (w_sh w) p in (mkW s (w_co w) (upd (w_bats w) k p') (w_gone w) (w_fr w), es)
      | None => (w, [])
      end
  | LStep k =>
      match nth_error (w_fr w) k with
      | Some f => let '(s, f', es) := fstep (w_sh w) f in (mkW s (w_co w) (w_bats w) (w_gone w) (upd (w_fr w) k f'), es)
      | None => (w, [])
      end
  | LSpawnH sg info =>
      (* a delivery reaches the action only once add_signal has published it *)
      if watch (w_sh w) sg
      then (mkW (set_begun (w_sh w) (fupd (begun (w_sh w)) sg (begun (w_sh w) sg ++ [info]))) (w_co w) (w_bats w) (w_gone w)
                (w_fr w ++ [mkFrame (FH sg info) F0]), [])
      else (w, [])
  | LSpawnK => (mkW (w_sh w) (w_co w) (w_bats w) (w_gone w) (w_fr w ++ [mkFrame FK F0]), [])
  | LSpawnA sg =>
      (* add_signal asserts 0 <= signal < MAX_SIGNUM (C14) *)
      if sg <? MAX_SIGNUM then (mkW (w_sh w) (w_co w) (w_bats w) (w_gone w) (w_fr w ++ [mkFrame (FA sg) F0]), []) else (w, [])
  end.

Fixpoint run (w : world) (ls : list label) : world * list ev :=
  match ls with
  | [] => (w, [])
  | l :: r => let '(w1, e1) := wstep w l in let '(w2, e2) := run w1 r in (w2, e1 ++ e2)
  end.

Definition reach (raw : bool) (c : nat) (ls : list label) : world := fst (run (w_init raw c) ls).
