(** C09, progress: a consumer that keeps calling wait / Forever::next / poll_signal and drains
    what it is handed, run alone, obtains a stored signal within a stated bound. *)
From Coq Require Import List Arith ZArith Bool Lia.
From SH Require Import base.Pool gen.Extracted_iter iter.Model iter.Base iter.Close iter.Sound iter.NoLost.
Import ListNotations.

Local Arguments Nat.sub : simpl never.
Local Arguments Nat.mul : simpl never.

(** number of records pending in the slots below position [n] *)
Fixpoint tot (sl : nat -> list Z) (n : nat) : nat :=
  match n with O => 0 | S k => tot sl k + length (sl k) end.

Lemma tot_fupd_ge sl p v n : n <= p -> tot (fupd sl p v) n = tot sl n.
Proof.
  induction n as [|n IH]; intro H; simpl; auto. rewrite IH by lia. rewrite fupd_neq by lia. reflexivity.
Qed.

Lemma tot_fupd_lt sl p v n : p < n -> tot (fupd sl p v) n + length (sl p) = tot sl n + length v.
Proof.
  induction n as [|n IH]; intro H; [lia|]. simpl. destruct (Nat.eq_dec p n) as [->|Hne].
  - rewrite tot_fupd_ge by lia. rewrite fupd_eq. lia.
  - rewrite fupd_neq by lia. specialize (IH ltac:(lia)). lia.
Qed.

Lemma tot_mono sl n m : n <= m -> tot sl n <= tot sl m.
Proof. induction 1; simpl; lia. Qed.

(** effect of one load *)
Lemma do_load_none sh p : slot sh p = [] -> do_load sh p = (None, sh).
Proof. intro H. unfold do_load. rewrite H. reflexivity. Qed.

Lemma do_load_some sh p v r : slot sh p = v :: r ->
  exists sh', do_load sh p = (Some v, sh') /\
    (forall j, j <> p -> slot sh' j = slot sh j) /\ (forall j, j <> p -> ylog sh' j = ylog sh j) /\
    ylog sh' p = ylog sh p ++ [v] /\ closed sh' = closed sh /\ pipe sh' = pipe sh /\
    (forall n, p < n -> tot (slot sh') n < tot (slot sh) n) /\ (forall n, n <= p -> tot (slot sh') n = tot (slot sh) n).
Proof.
  intro H. unfold do_load. rewrite H. eexists. split; [reflexivity|]. simpl.
  split; [intros; apply fupd_neq; auto|]. split; [intros; apply fupd_neq; auto|]. split; [apply fupd_eq|].
  split; auto. split; auto. split.
  - intros n Hn. pose proof (tot_fupd_lt (slot sh) p (if exraw sh then r else []) n Hn) as T. rewrite H in T. simpl in T.
    destruct (exraw sh); simpl in T; lia.
  - intros n Hn. apply tot_fupd_ge. exact Hn.
Qed.

(** ---- R1: draining a handed-out batch that has not passed [s] yields [s] ---- *)
Fixpoint brun (k n : nat) (w : world) : world :=
  match n with O => w | S m => brun k m (fst (wstep w (LBatch k))) end.

Lemma scan_batch : forall m w k p s,
  nth_error (w_bats w) k = Some p -> p <= s -> s < MAX_SIGNUM -> slot (w_sh w) s <> [] ->
  (s - p) + tot (slot (w_sh w)) s <= m ->
  exists n, n <= m + 1 /\ length (ylog (w_sh w) s) < length (ylog (w_sh (brun k n w)) s).
Proof.
  induction m as [|m IH]; intros w k p s Hk Hp Hs Hsl Hm.
  - (* p = s and nothing pending below: the next load yields s *)
    assert (p = s) by lia. subst p. exists 1. split; [lia|]. simpl. rewrite Hk. unfold bstep.
    destruct (s <? MAX_SIGNUM) eqn:E; [|apply Nat.ltb_ge in E; lia].
    destruct (slot (w_sh w) s) as [|v r] eqn:Es; [congruence|].
    destruct (do_load_some _ _ _ _ Es) as (sh' & -> & _ & _ & Y & _). simpl. rewrite Y, app_length. simpl. lia.
  - assert (Hlt : p <? MAX_SIGNUM = true) by (apply Nat.ltb_lt; lia).
    destruct (slot (w_sh w) p) as [|v r] eqn:Ep.
    + (* empty: advance *)
      assert (p <> s) by (intro; subst; congruence).
      assert (E' : fst (wstep w (LBatch k)) = mkW (w_sh w) (w_co w) (upd (w_bats w) k (S p)) (w_gone w) (w_fr w)).
      { simpl. rewrite Hk. unfold bstep. rewrite Hlt. rewrite (do_load_none _ _ Ep). reflexivity. }
      destruct (IH (mkW (w_sh w) (w_co w) (upd (w_bats w) k (S p)) (w_gone w) (w_fr w)) k (S p) s) as (n & Hn & Hy); simpl.
      * apply nth_upd_eq. apply nth_error_Some. congruence.
      * lia.
      * exact Hs.
      * exact Hsl.
      * lia.
      * exists (S n). split; [lia|]. change (brun k (S n) w) with (brun k n (fst (wstep w (LBatch k)))). rewrite E'. exact Hy.
    + destruct (do_load_some _ _ _ _ Ep) as (sh' & EL & S1 & Y1 & Y2 & _ & _ & T1 & T2).
      assert (E' : fst (wstep w (LBatch k)) = mkW sh' (w_co w) (upd (w_bats w) k p) (w_gone w) (w_fr w)).
      { simpl. rewrite Hk. unfold bstep. rewrite Hlt, EL. reflexivity. }
      destruct (Nat.eq_dec p s) as [->|Hne].
      * exists 1. split; [lia|]. change (brun k 1 w) with (fst (wstep w (LBatch k))). rewrite E'. simpl. rewrite Y2, app_length. simpl. lia.
      * destruct (IH (mkW sh' (w_co w) (upd (w_bats w) k p) (w_gone w) (w_fr w)) k p s) as (n & Hn & Hy); simpl.
        -- apply nth_upd_eq. apply nth_error_Some. congruence.
        -- lia.
        -- exact Hs.
        -- rewrite S1 by auto. exact Hsl.
        -- specialize (T1 s ltac:(lia)). lia.
        -- exists (S n). split; [lia|]. change (brun k (S n) w) with (brun k n (fst (wstep w (LBatch k)))). rewrite E'.
           simpl in Hy. rewrite Y1 in Hy by auto. exact Hy.
Qed.

(** ---- R2: wait() hands out a fresh batch, whose drain yields [s] ---- *)
Definition wait_call : list label := [LCall OWait; LCons 0; LCons 0; LCons 0].

Theorem reported_wait raw c ls s : 1 <= c ->
  let w := reach raw c ls in
  cpc_ (w_co w) = CIdle -> slot (w_sh w) s <> [] -> ~ midh (w_fr w) s -> ~ undrained w s ->
  (forall p, cit (w_co w) = Some p -> s < p) ->
  exists n, n <= s + tot (slot (w_sh w)) s + 1 /\
    length (ylog (w_sh w) s) < length (ylog (w_sh (brun (length (w_bats w)) n (fst (run w wait_call)))) s).
Proof.
  intros Hc w Hi Hs Hm Hu Hit.
  pose proof (InvB_reach raw c ls) as B. fold w in B. pose proof (slot_nonempty_lt raw _ _ s B Hs) as Hlt.
  (* nothing covers s, so a byte is in the pipe *)
  assert (Hp : 0 < pipe (w_sh w)).
  { pose proof (InvC_reach raw c ls Hc s Hs) as IC. fold w in IC. destruct IC as [M|[P|C]]; [contradiction|auto|].
    destruct C as [C|[(p & C1 & C2)|[C|C]]]; [congruence| |exfalso; apply Hu; left; exact C|exfalso; apply Hu; right; exact C].
    specialize (Hit p C1). lia. }
  (* the four steps of the call *)
  assert (E : exists sh' co' g', fst (run w wait_call) = mkW sh' co' (w_bats w ++ [0]) g' (w_fr w) /\
                                 slot sh' = slot (w_sh w) /\ ylog sh' = ylog (w_sh w)).
  { destruct w as [sh co bats gone fr]. destruct co as [pc0 op it res cb n0]. simpl in *. subst pc0.
    unfold wait_call, run, wstep, ccall; simpl. unfold cstep at 1; simpl.
    destruct (closed sh) eqn:Ecl; simpl.
    - unfold cstep; simpl. do 3 eexists. split; [reflexivity|]. simpl. auto.
    - unfold cstep at 1; simpl. destruct (pipe sh) as [|pp] eqn:Ep; [lia|]. simpl. unfold cstep; simpl.
      do 3 eexists. split; [reflexivity|]. simpl. auto. }
  destruct E as (sh' & co' & g' & E & Es & Ey). rewrite E.
  destruct (scan_batch (s + tot (slot (w_sh w)) s) (mkW sh' co' (w_bats w ++ [0]) g' (w_fr w)) (length (w_bats w)) 0 s) as (n & Hn & Hy); simpl.
  - rewrite nth_error_app2 by lia. rewrite Nat.sub_diag. reflexivity.
  - lia.
  - exact Hlt.
  - rewrite Es. exact Hs.
  - rewrite Es. lia.
  - exists n. split; [lia|]. simpl in Hy. rewrite Ey in Hy. exact Hy.
Qed.

(** the log of yielded records only grows *)
Lemma do_load_ylog sh p s : length (ylog sh s) <= length (ylog (snd (do_load sh p)) s).
Proof.
  unfold do_load. destruct (slot sh p); simpl; auto. unfold fupd. destruct (Nat.eqb_spec s p) as [->|]; auto.
  rewrite app_length. lia.
Qed.

Lemma ylog_mono_step w l s : length (ylog (w_sh w) s) <= length (ylog (w_sh (fst (wstep w l))) s).
Proof.
  destruct l; simpl.
  - pose proof (ccall_b (w_sh w) (w_co w) (w_gone w) o) as (_ & _ & _ & _ & E & _).
    destruct (ccall (w_sh w) (w_co w) (w_gone w) o) as [[[s' c'] g] es]. simpl in *. rewrite E. auto.
  - pose proof (cstep_b (w_sh w) (w_co w) (w_bats w) ch) as H.
    destruct (cstep (w_sh w) (w_co w) (w_bats w) ch) as [[[s' c'] b] es]. simpl in *.
    destruct H as [(_ & _ & _ & _ & E & _)|[p ->]]; [rewrite E; auto|apply do_load_ylog].
  - destruct (nth_error (w_bats w) k) as [p|]; auto. unfold bstep. destruct (p <? MAX_SIGNUM); auto.
    pose proof (do_load_ylog (w_sh w) p s) as H. destruct (do_load (w_sh w) p) as [[v|] s']; exact H.
  - destruct (nth_error (w_fr w) k) as [f|]; auto.
    destruct f as [[sg info| |sg] p]; destruct p; unfold fstep; simpl; auto;
      try (destruct action_store_first); try (destruct close_store_first); simpl; auto;
      try (unfold do_store; destruct (exraw (w_sh w)); [destruct (length (slot (w_sh w) sg) <? CHAN_SLOTS)|]; simpl; auto; fail);
      try (unfold do_wake; destruct (pipe (w_sh w) <? cap (w_sh w)); [destruct (armed (w_sh w))|]; simpl; auto; fail).
    all: try (destruct (idsm (w_sh w)); simpl; auto).
  - destruct (watch (w_sh w) sg); simpl; auto.
  - auto.
  - destruct (sg <? MAX_SIGNUM); simpl; auto.
Qed.

(** ---- R3: the poll_signal loop (Forever::next / the non-blocking interface) ---- *)
Local Arguments tot : simpl never.
Local Opaque MAX_SIGNUM.
Definition pdrive_label (o : copk) (w : world) : label :=
  match cpc_ (w_co w) with CIdle => LCall o | _ => LCons 0 end.
Definition pdrive_step (o : copk) (w : world) : world := fst (wstep w (pdrive_label o w)).
Fixpoint pdrive (o : copk) (n : nat) (w : world) : world :=
  match n with O => w | S m => pdrive o m (pdrive_step o w) end.

(** own steps the consumer needs to get its scan to position [s] (a yield on the way costs a
    return and a new call: paid for by the record it removes) *)
Definition phi (s : nat) (c : cons) : nat :=
  let p := itpos c in
  let scan := if p <=? s then s - p else (MAX_SIGNUM - p) + 4 + s in
  let at1 := 1 + (if p <? MAX_SIGNUM then scan else 4 + s) in
  match cpc_ c with
  | CP2 => scan | CP1 => at1 | CIdle => 1 + at1
  | CP3 => 4 + s | CRead => 3 + s | CP4 => 3 + s | CFlush => 2 + s
  | CP5 => 0 | CWClosed => 0
  end.

Definition Phi (s : nat) (w : world) : nat := 3 * tot (slot (w_sh w)) MAX_SIGNUM + phi s (w_co w).

Record JI (o : copk) (s : nat) (w : world) : Prop := {
  j_closed : closed (w_sh w) = false;
  j_slot : slot (w_sh w) s <> [];
  j_mid : ~ midh (w_fr w) s;
  j_und : ~ undrained w s;
  j_idle : cpc_ (w_co w) = CIdle -> cit (w_co w) <> None;
  j_cp1 : cpc_ (w_co w) = CP1 -> cit (w_co w) <> None;
  j_cp2 : cpc_ (w_co w) = CP2 -> itpos (w_co w) < MAX_SIGNUM /\ cit (w_co w) <> None;
  j_op : cpc_ (w_co w) <> CIdle -> cop (w_co w) = o;
  j_pc : cpc_ (w_co w) <> CP5 /\ cpc_ (w_co w) <> CWClosed
}.

Lemma phi_bound s c : s < MAX_SIGNUM -> phi s c <= 2 * MAX_SIGNUM + 6.
Proof.
  intro Hs. unfold phi. destruct (cpc_ c); try lia;
    destruct (itpos c <=? s) eqn:E1; destruct (itpos c <? MAX_SIGNUM) eqn:E2;
    try apply Nat.leb_le in E1; try apply Nat.leb_gt in E1; try apply Nat.ltb_lt in E2; try apply Nat.ltb_ge in E2; lia.
Qed.

Ltac phi_solve :=
  unfold phi, itpos, c_cb, c_goto; cbn [cpc_ cit cop cres_ cb_last ncb];
  repeat match goal with
         | |- context [?a <=? ?b] => destruct (Nat.leb_spec a b)
         | |- context [?a <? ?b] => destruct (Nat.ltb_spec a b)
         end; lia.

Ltac jfin := constructor; simpl; auto; try congruence; try (split; congruence);
            try (intros _; unfold itpos; simpl; split; [lia|congruence]).

Lemma poll_step raw c ls s o : 1 <= c -> o = OFNext \/ o = OPoll ->
  let w := reach raw c ls in
  JI o s w ->
  let w' := reach raw c (ls ++ [pdrive_label o w]) in
  length (ylog (w_sh w) s) < length (ylog (w_sh w') s) \/ (Phi s w' < Phi s w /\ JI o s w').
Proof.
  intros Hc Ho w J w'. unfold w'. rewrite reach_snoc. fold w.
  pose proof (InvA_reach raw c ls Hc) as A. pose proof (InvB_reach raw c ls) as B. pose proof (InvC_reach raw c ls Hc) as C.
  fold w in A, B, C. destruct J as [Jc Js Jm Ju Ji J1 J2 Jo Jp].
  pose proof (slot_nonempty_lt raw _ _ s B Js) as Hlt.
  (* a byte is in the pipe whenever the iterator's batch is exhausted *)
  assert (Hpipe : MAX_SIGNUM <= itpos (w_co w) -> cpc_ (w_co w) <> CFlush -> 0 < pipe (w_sh w)).
  { intros Hi Hf. destruct (C s Js) as [M|[P|Cv]]; [contradiction|auto|].
    destruct Cv as [Cv|[(p & C1 & C2)|[Cv|Cv]]]; [congruence| |exfalso; apply Ju; left; exact Cv|exfalso; apply Ju; right; exact Cv].
    unfold itpos in Hi. rewrite C1 in Hi. lia. }
  pose proof (a_it3 _ _ A) as I3. pose proof (a_it4 _ _ A) as I4. pose proof (a_itr _ _ A) as Ir. pose proof (a_p4 _ _ A) as P4.
  pose proof (a_read _ _ A) as Rd.
  clear A B C. unfold Phi, pdrive_label, undrained in *.
  destruct w as [sh co bats gone fr]. destruct co as [pc0 op it res cb n0]. simpl in *.
  destruct pc0; simpl.
  - (* idle: start the call *)
    specialize (Ji eq_refl). destruct it as [p|]; [|congruence]. unfold ccall; simpl.
    right. destruct Ho as [-> | ->]; simpl.
    + split; [phi_solve|]. jfin.
    + split; [phi_solve|]. jfin.
  - (* flush: fresh batch from 0 *)
    specialize (Jo ltac:(congruence)). subst op. unfold cstep; simpl. right.
    destruct Ho as [-> | ->]; simpl;
      (split; [phi_solve|];
       jfin).
  - destruct Jp; congruence.
  - (* the blocking read: the byte is there *)
    specialize (Jo ltac:(congruence)). subst op. unfold cstep; simpl.
    assert (Hop : o = OFNext) by (destruct (Rd eq_refl); destruct Ho; congruence). subst o.
    specialize (Hpipe (Ir eq_refl eq_refl) ltac:(congruence)). destruct (pipe sh) as [|pp] eqn:Ep; [lia|]. simpl.
    right. split; [phi_solve|]. jfin.
  - (* CP1 *)
    specialize (Jo ltac:(congruence)). subst op. unfold cstep; simpl. rewrite Jc. simpl.
    specialize (J1 eq_refl). destruct it as [p|]; [|congruence]. unfold itpos, scan_pc; simpl.
    right. destruct (p <? MAX_SIGNUM) eqn:E2.
    + apply Nat.ltb_lt in E2. split; [phi_solve|].
      jfin.
    + apply Nat.ltb_ge in E2. split; [phi_solve|].
      jfin.
  - (* CP2: one load *)
    specialize (Jo ltac:(congruence)). subst op. destruct (J2 eq_refl) as [Hp Hit]. unfold cstep, itpos in *; simpl in *.
    destruct it as [p|]; [|congruence]. simpl in *.
    destruct (slot sh p) as [|v r] eqn:Ep.
    + (* empty: advance *)
      rewrite (do_load_none _ _ Ep). simpl. assert (p <> s) by (intro; subst; congruence).
      right. unfold scan_pc. destruct (S p <? MAX_SIGNUM) eqn:E2.
      * apply Nat.ltb_lt in E2. split.
        -- phi_solve.
        -- jfin.
      * apply Nat.ltb_ge in E2. split.
        -- phi_solve.
        -- jfin.
    + destruct (do_load_some _ _ _ _ Ep) as (sh' & EL & S1 & Y1 & Y2 & Cl & Pp & T1 & T2). rewrite EL. simpl.
      destruct (Nat.eq_dec p s) as [->|Hne].
      * left. rewrite Y2, app_length. simpl. lia.
      * right. split.
        -- specialize (T1 MAX_SIGNUM Hp). phi_solve.
        -- jfin.
           ++ rewrite S1 by auto. exact Js.
  - (* CP3: poll_pending's test of the flag *)
    specialize (Jo ltac:(congruence)). subst op. unfold cstep; simpl. rewrite Jc. simpl. right.
    destruct Ho as [-> | ->]; simpl;
      (split; [phi_solve|]; jfin).
  - (* CP4: the non-blocking callback finds the byte *)
    specialize (Jo ltac:(congruence)). subst op. unfold cstep; simpl.
    specialize (Hpipe (I4 eq_refl) ltac:(congruence)). destruct (pipe sh) as [|pp] eqn:Ep; [lia|]. simpl.
    right. split; [phi_solve|]. jfin.
  - destruct Jp; congruence.
Qed.

Lemma poll_run raw c s o : 1 <= c -> o = OFNext \/ o = OPoll ->
  forall m ls, JI o s (reach raw c ls) -> Phi s (reach raw c ls) <= m ->
  exists n, n <= m + 1 /\
    length (ylog (w_sh (reach raw c ls)) s) < length (ylog (w_sh (pdrive o n (reach raw c ls))) s).
Proof.
  intros Hc Ho. induction m as [|m IH]; intros ls J Hm.
  - destruct (poll_step raw c ls s o Hc Ho J) as [Y|[D _]].
    + exists 1. split; [lia|]. simpl. unfold pdrive_step. rewrite <- reach_snoc. exact Y.
    + lia.
  - destruct (poll_step raw c ls s o Hc Ho J) as [Y|[D J']].
    + exists 1. split; [lia|]. simpl. unfold pdrive_step. rewrite <- reach_snoc. exact Y.
    + destruct (IH _ J' ltac:(lia)) as (n & Hn & Hy).
      exists (S n). split; [lia|]. simpl. unfold pdrive_step. rewrite <- reach_snoc.
      (* the step in between did not yield s: ylog can only grow *)
      eapply Nat.le_lt_trans; [|exact Hy]. clear Hy IH.
      rewrite reach_snoc. apply (ylog_mono_step (reach raw c ls) (pdrive_label o (reach raw c ls)) s).
Qed.

Theorem reported_poll raw c ls s o : 1 <= c -> o = OFNext \/ o = OPoll ->
  let w := reach raw c ls in
  closed (w_sh w) = false -> cpc_ (w_co w) = CIdle -> cit (w_co w) <> None ->
  slot (w_sh w) s <> [] -> ~ midh (w_fr w) s -> ~ undrained w s ->
  exists n, n <= 3 * tot (slot (w_sh w)) MAX_SIGNUM + 2 * MAX_SIGNUM + 7 /\
    length (ylog (w_sh w) s) < length (ylog (w_sh (pdrive o n w)) s).
Proof.
  intros Hc Ho w Hcl Hi Hit Hs Hm Hu.
  assert (J : JI o s w).
  { constructor; auto; try congruence. split; congruence. }
  pose proof (InvB_reach raw c ls) as B. fold w in B. pose proof (slot_nonempty_lt raw _ _ s B Hs) as Hlt.
  destruct (poll_run raw c s o Hc Ho (Phi s w) ls J (le_n _)) as (n & Hn & Hy).
  exists n. split; [|exact Hy]. unfold Phi in Hn. pose proof (phi_bound s (w_co w) Hlt). fold w in Hn. lia.
Qed.
