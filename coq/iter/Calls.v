(** Complete call lists of the functions component [iter] is modelled on, as they were when the
    model was written (translator/calls.py extracts the current ones on every run).  A lemma that
    fails names the function whose calls changed: re-read it, adapt the model if needed, then
    restate the list. *)
From Coq Require Import List String.
From SH Require Import gen.Extracted_calls_iter.
Import ListNotations. Open Scope string_scope.

Lemma calls_wake_readers_ok : calls_wake_readers =
  ["pipe::wake"; ".as_raw_fd"].
Proof. reflexivity. Qed.

Lemma calls_deliverystate_drop_ok : calls_deliverystate_drop =
  [".lock"; ".unwrap_or_else"; ".iter"; ".filter_map"; "crate::low_level::unregister"].
Proof. reflexivity. Qed.

Lemma calls_pending_new_ok : calls_pending_new =
  ["uninit"; ".as_mut_ptr"; ".add"; "ptr::write"; "E::Storage::default"; ".assume_init"].
Proof. reflexivity. Qed.

Lemma calls_pending_add_signal_ok : calls_pending_add_signal =
  ["assert!"; "assert!"; "assert!"; ".supports_signal"; ".init"; ".store"; ".wake_readers"; "signal_hook_registry::register_sigaction"; "?"].
Proof. reflexivity. Qed.

Lemma calls_handle_add_signal_ok : calls_handle_add_signal =
  [".lock"; ".unwrap_or_else"; ".is_some"; "return"; "Arc::clone"; ".add_signal"; "Arc::clone"; "?"].
Proof. reflexivity. Qed.

Lemma calls_close_ok : calls_close =
  [".store"; ".wake_readers"].
Proof. reflexivity. Qed.

Lemma calls_is_closed_ok : calls_is_closed =
  [".load"].
Proof. reflexivity. Qed.

Lemma calls_with_pipe_ok : calls_with_pipe =
  ["Arc::new"; "PendingSignals::new"; "Arc::clone"; "Handle::new"; ".add_signal"; ".borrow"; "?"].
Proof. reflexivity. Qed.

Lemma calls_flush_ok : calls_flush =
  ["libc::recv"; ".as_raw_fd"; ".as_mut_ptr"].
Proof. reflexivity. Qed.

Lemma calls_pending_ok : calls_pending =
  [".flush"; "Pending::new"; "Arc::clone"].
Proof. reflexivity. Qed.

Lemma calls_poll_pending_ok : calls_poll_pending =
  [".is_closed"; "return"; "has_signals"; ".get_read_mut"; ".pending"].
Proof. reflexivity. Qed.

Lemma calls_pending_next_ok : calls_pending_next =
  [".len"; ".load"; ".is_some"; "return"].
Proof. reflexivity. Qed.

Lemma calls_iterator_new_ok : calls_iterator_new =
  [".borrow_mut"; ".pending"].
Proof. reflexivity. Qed.

Lemma calls_poll_signal_ok : calls_poll_signal =
  [".borrow_mut"; ".is_closed"; ".next"; "return"; "PollResult::Signal"; ".borrow_mut"; ".poll_pending"; ".borrow_mut"; ".is_closed"; "return"; "return"; "return"].
Proof. reflexivity. Qed.

Lemma calls_has_signals_ok : calls_has_signals =
  [".read"; "break"; ".kind"; "break"].
Proof. reflexivity. Qed.

Lemma calls_wait_ok : calls_wait =
  [".poll_pending"; ".pending"; "panic!"].
Proof. reflexivity. Qed.

Lemma calls_forever_next_ok : calls_forever_next =
  [".poll_signal"; "PollResult::Signal"; "break"; "break"; "continue"; "panic!"].
Proof. reflexivity. Qed.

Lemma calls_signalonly_store_ok : calls_signalonly_store =
  [".store"].
Proof. reflexivity. Qed.

Lemma calls_signalonly_load_ok : calls_signalonly_load =
  [".compare_exchange"; ".is_ok"].
Proof. reflexivity. Qed.

Lemma calls_raw_store_ok : calls_raw_store =
  [".load"; ".as_ref"; ".send"].
Proof. reflexivity. Qed.

Lemma calls_raw_load_ok : calls_raw_load =
  [".load"; ".as_ref"; ".and_then"; ".recv"].
Proof. reflexivity. Qed.

Lemma calls_raw_init_ok : calls_raw_init =
  [".load"; ".is_null"; "return"; "Box::default"; ".swap"; "Box::into_raw"; "assert!"; ".is_null"].
Proof. reflexivity. Qed.

Lemma calls_origin_store_ok : calls_origin_store =
  [".store"].
Proof. reflexivity. Qed.

Lemma calls_origin_load_ok : calls_origin_load =
  [".load"; ".map"; "Origin::extract"].
Proof. reflexivity. Qed.

Lemma calls_origin_init_ok : calls_origin_init =
  [".init"].
Proof. reflexivity. Qed.

Lemma calls_tokio_has_signals_ok : calls_tokio_has_signals =
  ["ReadBuf::new"; "Pin::new"; ".poll_read"; "Poll::Ready"; "Poll::Ready"].
Proof. reflexivity. Qed.

Lemma calls_tokio_poll_next_ok : calls_tokio_poll_next =
  [".poll_signal"; "Self::has_signals"; "PollResult::Signal"; "Poll::Ready"; "Poll::Ready"; "panic!"].
Proof. reflexivity. Qed.

Lemma calls_asyncstd_has_signals_ok : calls_asyncstd_has_signals =
  ["Pin::new"; ".poll_read"; "Poll::Ready"; "Poll::Ready"].
Proof. reflexivity. Qed.

Lemma calls_asyncstd_poll_next_ok : calls_asyncstd_poll_next =
  [".poll_signal"; "Self::has_signals"; "PollResult::Signal"; "Poll::Ready"; "Poll::Ready"; "panic!"].
Proof. reflexivity. Qed.

Lemma calls_mio_new_ok : calls_mio_new =
  ["Self::with_exfiltrator"; "E::default"].
Proof. reflexivity. Qed.

Lemma calls_mio_with_exfiltrator_ok : calls_mio_with_exfiltrator =
  ["Pipe::pair"; "?"; "SignalDelivery::with_pipe"; "?"; "Self"].
Proof. reflexivity. Qed.

Lemma calls_mio_add_signal_ok : calls_mio_add_signal =
  [".handle"; ".add_signal"].
Proof. reflexivity. Qed.

Lemma calls_mio_pending_ok : calls_mio_pending =
  [".pending"].
Proof. reflexivity. Qed.

Lemma calls_mio_register_ok : calls_mio_register =
  [".get_read_mut"; ".register"].
Proof. reflexivity. Qed.

Lemma calls_mio_reregister_ok : calls_mio_reregister =
  [".get_read_mut"; ".reregister"].
Proof. reflexivity. Qed.

Lemma calls_mio_deregister_ok : calls_mio_deregister =
  [".get_read_mut"; ".deregister"].
Proof. reflexivity. Qed.
