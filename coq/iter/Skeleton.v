(** Tie between iter/Model.v and the source: the model implements exactly the skeletons below;
    translator/iter.py regenerates [Extracted_iter] from the source on every run, so a reordered,
    added or dropped operation, a changed ordering, loop or constant breaks one of these lemmas
    (DESIGN 4.1). *)
From Coq Require Import List String Bool.
From SH Require Import gen.Extracted_iter.
Import ListNotations.
(** ---- the source's skeletons that the model implements (regenerated on every run) ---- *)
Local Open Scope string_scope.
Local Open Scope list_scope.

(** The three structural facts the model branches on ([action_store_first], [close_store_first],
    [poll_none_retest]) are NOT pinned here: the model does whatever they say, and each theorem
    that needs one of them fails by itself when the source changes it (C09: store before wake in
    the action; C11: store before wake in close, the re-test in poll_signal). *)
Lemma consts_ok : MAX_SIGNUM = 128 /\ CHAN_SLOTS = 5.
Proof. split; reflexivity. Qed.

(** handler action = [FH] frame: store and wake in the order [action_store_first] says (the model
    follows it; C09 needs store first); wake_readers = pipe::wake(Send) =
    one send(MSG_DONTWAIT) of one byte whose result is ignored. *)
Lemma skel_action_ok : skel_action =
  if action_store_first then ["self.exfiltrator.store()"; "wake_readers()"] else ["wake_readers()"; "self.exfiltrator.store()"].
Proof. reflexivity. Qed.
Lemma skel_wake_readers_ok : skel_wake_readers = ["pipe::wake(fd,Send)"].
Proof. reflexivity. Qed.
Lemma skel_wake_ok : skel_wake = ["match method {"; "Write=>write(pipe,data,1)"; "Send=>send(pipe,data,1,MSG_NOWAIT)"; "}"].
Proof. reflexivity. Qed.
(** close = [FK] frame: store true and wake in the order [close_store_first] says (C11 needs store
    first); is_closed = one SeqCst load. *)
Lemma skel_close_ok : skel_close =
  if close_store_first then ["self.delivery_state.closed.store(SeqCst)"; "wake_readers()"]
  else ["wake_readers()"; "self.delivery_state.closed.store(SeqCst)"].
Proof. reflexivity. Qed.
Lemma skel_is_closed_ok : skel_is_closed = ["self.delivery_state.closed.load(SeqCst)"].
Proof. reflexivity. Qed.
(** flush = the [CFlush] step: recv(MSG_DONTWAIT) repeated while it returns > 0 (one step: it
    linearises at its final failing recv); pending = flush then Pending::new at position 0. *)
Lemma skel_flush_ok : skel_flush = ["SIZE=1024"; "nowait_flag=MSG_DONTWAIT"; "recv(read,SIZE,nowait_flag)>0"; "repeat:while"].
Proof. reflexivity. Qed.
Lemma skel_pending_ok : skel_pending = ["flush()"; "Pending::new"] /\ skel_pending_new = ["position:0"] /\ skel_sync_pending = ["self.0.pending()"].
Proof. repeat split; reflexivity. Qed.
(** poll_pending = [CWClosed]/[CP3] (closed test first, None without the callback), then the
    callback ([CRead]/[CP4]), then pending() on true. *)
Lemma skel_poll_pending_ok : skel_poll_pending =
  ["is_closed()"; "if self.handle.is_closed() {"; "return Ok(None)"; "}"; "has_signals(read)";
   "match has_signals(self.get_read_mut()) {"; "Ok(false)=>Ok(None)"; "Ok(true)=>Ok(Some(self.pending()))"; "Err=>"; "}"].
Proof. reflexivity. Qed.
(** Pending::next = [CP2]/[bstep]: one load per position, the position advances only on None. *)
Lemma skel_next_ok : skel_next =
  ["while self.position < self.pending.slots.len() {"; "sig=position"; "self.pending.exfiltrator.load()";
   "if result.is_some() {"; "return result"; "}"; "else {"; "position+=1"; "}"; "}"; "None"].
Proof. reflexivity. Qed.
Lemma skel_iterator_new_ok : skel_iterator_new = ["signals.pending()"; "Self{signals,iter}"] /\
  skel_forever = ["Forever(RefSignalIterator::new(&mut self.0))"].
Proof. split; reflexivity. Qed.

(** poll_signal: the loop [CP1] (closed test) - [CP2] (iter.next) - poll_pending ([CP3], callback)
    - on Some: replace iter, loop; on None: what [poll_none_retest] says ([CP5] re-test or not).
    The skeleton of the source is the model's skeleton for the extracted flag, whatever it is. *)
Definition model_skel_poll_signal (retest : bool) : list string :=
  ["is_closed()"; "while !self.signals.borrow_mut().handle.is_closed() {"; "iter.next()";
   "if let Some(result) = self.iter.next() {"; "return Signal"; "}"; "poll_pending(has_signals)";
   "match self.signals.borrow_mut().poll_pending(has_signals) {"; "Ok(Some(pending))=>"; "iter=pending"; "Ok(None)=>"]
  ++ (if retest : bool then ["is_closed()"; "if self.signals.borrow_mut().handle.is_closed() {"; "return Closed"; "}"] else [])
  ++ ["return Pending"; "Err=>"; "return Err"; "}"; "}"; "Closed"].
Lemma skel_poll_signal_ok : skel_poll_signal = model_skel_poll_signal poll_none_retest.
Proof. reflexivity. Qed.

(** has_signals = [CRead]: blocking one-byte read, retried on EINTR, true iff a byte was read. *)
Lemma skel_has_signals_ok : skel_has_signals =
  ["loop {"; "read.read(&mut [0u8])"; "match read.read(&mut [0u8]) {"; "Ok(num_read)=>"; "break Ok(num_read>0)"; "Err=>";
   "if error.kind() != ErrorKind::Interrupted {"; "break Err(error)"; "}"; "}"; "}"].
Proof. reflexivity. Qed.
(** wait = poll_pending with the blocking callback; on None (closed) self.pending(). *)
Lemma skel_wait_ok : skel_wait =
  ["poll_pending(Self::has_signals)"; "match self.0.poll_pending(&mut Self::has_signals) {"; "Ok(Some(pending))=>pending";
   "Ok(None)=>"; "self.pending()"; "Err=>"; "panic!"; "}"].
Proof. reflexivity. Qed.
(** Forever::next = loop on poll_signal; Pending -> continue ([pend_exit] for OFNext). *)
Lemma skel_forever_next_ok : skel_forever_next =
  ["loop {"; "poll_signal(SignalsInfo::has_signals)"; "match self.0.poll_signal(&mut SignalsInfo::<E>::has_signals) {";
   "Signal=>"; "break Some(result)"; "Closed=>"; "break None"; "Pending=>"; "continue"; "Err=>"; "panic!"; "}"; "}"].
Proof. reflexivity. Qed.
(** SignalOnly: store(true, SeqCst); load = compare_exchange(true, false, SeqCst, Relaxed).
    The failure ordering is Relaxed: see the memory-model caveat (DESIGN 3.3) in the check's
    assumptions. *)
Lemma skel_signal_only_ok :
  skel_so_store = ["slot.store(SeqCst)"] /\
  skel_so_load = ["slot.compare_exchange(SeqCst,Relaxed)"; ".is_ok()";
                  "if slot .compare_exchange(true, false, Ordering::SeqCst, Ordering::Relaxed) .is_ok() {"; "Some(signal)"; "}"; "else {"; "None"; "}"] /\
  skel_values = ["store(true,Ordering::SeqCst)"; "store(true,Ordering::SeqCst)";
                 "compare_exchange(true,false,Ordering::SeqCst,Ordering::Relaxed)"; "closed:AtomicBool::new(false)"].
Proof. repeat split; reflexivity. Qed.
(** WithRawSiginfo: copy *info, Channel::send / Channel::recv (the bounded FIFO of C06). *)
Lemma skel_raw_ok :
  skel_raw_store = ["info=*info"; "if let Some(slot) = unsafe {"; "slot.0.load(Acquire)"; ".as_ref()"; "}"; "channel.send(info)"] /\
  skel_raw_load = ["slot.0.load(Acquire)"; ".as_ref()"; "channel.recv()"].
Proof. split; reflexivity. Qed.
