(** C09: no lost signal / wake-up.  Safety invariant for every schedule. *)
From Coq Require Import List Arith ZArith Bool Lia.
From SH Require Import base.Pool gen.Extracted_iter iter.Model iter.Base iter.Close iter.Sound.
Import ListNotations.

(** a handler for [s] that has stored into the slot and not yet woken the pipe *)
Definition midh (fr : list frame) (s : nat) : Prop :=
  exists k info, nth_error fr k = Some (mkFrame (FH s info) F1).

(** position [s] is still going to be scanned: the consumer is about to drain the pipe and start
    a fresh batch, or the SignalIterator's batch / a handed-out batch / an abandoned iterator
    has not passed [s] yet *)
Definition covered (w : world) (s : nat) : Prop :=
  cpc_ (w_co w) = CFlush \/
  (exists p, cit (w_co w) = Some p /\ p <= s) \/
  (exists k p, nth_error (w_bats w) k = Some p /\ p <= s) \/
  (exists p, In p (w_gone w) /\ p <= s).

Definition InvC (w : world) : Prop :=
  forall s, slot (w_sh w) s <> [] -> midh (w_fr w) s \/ 0 < pipe (w_sh w) \/ covered w s.

Lemma InvC_init raw c : InvC (w_init raw c).
Proof. intros s H. simpl in H. congruence. Qed.

Lemma slot_nonempty_lt raw sh fr s : InvB raw sh fr -> slot sh s <> [] -> s < MAX_SIGNUM.
Proof.
  intros I H. apply (b_max _ _ _ I). destruct (watch sh s) eqn:E; auto.
  pose proof (b_wat _ _ _ I s E) as Hb. pose proof (b_cnt _ _ _ I s). pose proof (b_beg _ _ _ I s).
  rewrite Hb in *. simpl in *. destruct (slot sh s); [congruence|simpl in *; lia].
Qed.

Lemma midh_upd fr k f f' s : nth_error fr k = Some f ->
  (forall info, f <> mkFrame (FH s info) F1) -> midh fr s -> midh (upd fr k f') s.
Proof.
  intros Hk Hf (j & info & Hj). exists j, info. destruct (Nat.eq_dec j k) as [->|Hne].
  - rewrite Hk in Hj. inversion Hj. exfalso. eapply Hf; eauto.
  - rewrite nth_upd_neq; auto.
Qed.

Lemma midh_app fr f s : midh fr s -> midh (fr ++ [f]) s.
Proof.
  intros (j & info & Hj). exists j, info. rewrite nth_error_app1; auto. apply nth_error_Some. congruence.
Qed.

(** the slot contents after a load *)
Lemma do_load_slot sh p s : slot (snd (do_load sh p)) s <> [] -> slot sh s <> [] /\ (fst (do_load sh p) = None -> s <> p).
Proof.
  unfold do_load. destruct (slot sh p) as [|v r] eqn:E; simpl.
  - intro H. split; auto. intros _ ->. congruence.
  - unfold fupd. destruct (Nat.eqb_spec s p) as [->|Hne]; intro H; split; try congruence.
Qed.

Lemma do_load_pipe sh p : pipe (snd (do_load sh p)) = pipe sh.
Proof. unfold do_load. destruct (slot sh p); reflexivity. Qed.

Section Step.
Variable raw : bool.
Variable c0 : nat.
Hypothesis Hc0 : 1 <= c0.

Lemma InvC_wstep w l : action_store_first = true ->
  InvA c0 w -> InvB raw (w_sh w) (w_fr w) -> InvC w -> InvC (fst (wstep w l)).
Proof.
  intros Hflag A B I. pose proof (a_cap _ _ A) as Hcap.
  destruct w as [sh co bats gone fr]. unfold InvC, covered in *. simpl in *.
  destruct l; simpl.
  - (* LCall *)
    unfold ccall. destruct co as [p op it res cb n]; simpl. destruct p; simpl; try (simpl; exact I).
    destruct o; simpl.
    + intros s Hs. right; right. left. reflexivity.
    + intros s Hs. destruct (I s Hs) as [M|[P|C]]; auto. right; right.
      destruct C as [C|[(q & C1 & C2)|[C|(q & C1 & C2)]]]; simpl in *; try congruence.
      * right; right; right. exists q. split; auto. unfold abandon; simpl. rewrite C1.
        pose proof (slot_nonempty_lt raw sh fr s B Hs) as Hlt.
        destruct (q <? MAX_SIGNUM) eqn:E; [apply in_or_app; right; left; reflexivity|apply Nat.ltb_ge in E; lia].
      * right; right; left. exact C.
      * right; right; right. exists q. split; auto. unfold abandon; simpl. destruct it as [q'|]; auto.
        destruct (q' <? MAX_SIGNUM); auto. apply in_or_app; auto.
    + intros s Hs. right; right. left. reflexivity.
    + destruct it as [q|]; [|(simpl; exact I)]. intros s Hs. simpl in Hs. destruct (I s Hs) as [M|[P|C]]; auto.
      right; right. destruct C as [C|[C|[C|C]]]; simpl in *; try congruence; [right; left; exact C|right; right; left; exact C|right; right; right; exact C].
    + destruct it as [q|]; [|(simpl; exact I)]. intros s Hs. simpl in Hs. destruct (I s Hs) as [M|[P|C]]; auto.
      right; right. destruct C as [C|[C|[C|C]]]; simpl in *; try congruence; [right; left; exact C|right; right; left; exact C|right; right; right; exact C].
  - (* LCons *)
    destruct co as [p op it res cb n]. unfold cstep; simpl. destruct p; simpl.
    + (simpl; exact I).
    + (* flush: a fresh batch from position 0 *)
      destruct op; simpl; intros s Hs; right; right.
      * right; right; left. exists (length bats), 0. split; [|lia]. rewrite nth_error_app2 by lia. rewrite Nat.sub_diag. reflexivity.
      * right; right; left. exists (length bats), 0. split; [|lia]. rewrite nth_error_app2 by lia. rewrite Nat.sub_diag. reflexivity.
      * right; left. exists 0. split; [reflexivity|lia].
      * right; left. exists 0. split; [reflexivity|lia].
      * right; left. exists 0. split; [reflexivity|lia].
    + intros s Hs. destruct (I s Hs) as [M|[P|C]]; auto. right; right.
      destruct C as [C|[C|[C|C]]]; simpl in *; try congruence; [right; left; exact C|right; right; left; exact C|right; right; right; exact C].
    + destruct (Nat.eqb ch 1); [(simpl; exact I)|]. destruct (pipe sh) eqn:Ep;
        [simpl; intros s Hs; destruct (I s Hs) as [M|[P|C]]; [left; exact M|lia|right; right; exact C]|].
      intros s Hs. right; right. left. reflexivity.
    + destruct (closed sh); simpl; intros s Hs; (destruct (I s Hs) as [M|[P|C]]; auto; right; right;
        destruct C as [C|[C|[C|C]]]; simpl in *; try congruence; [right; left; exact C|right; right; left; exact C|right; right; right; exact C]).
    + (* the scan of the SignalIterator's batch *)
      unfold itpos; simpl.
      set (q := match it with Some q => q | None => MAX_SIGNUM end).
      pose proof (do_load_slot sh q) as L. pose proof (do_load_pipe sh q) as LP.
      destruct (do_load sh q) as [[v|] s'] eqn:E; simpl in *; intros s Hs; destruct (L s Hs) as [L1 L2];
        (destruct (I s L1) as [M|[P|C]]; [left; exact M|right; left; lia|]); right; right;
        destruct C as [C|[(p' & C1 & C2)|[C|C]]]; simpl in *; try congruence.
      * right; left. exists p'. auto.
      * right; right; left. exact C.
      * right; right; right. exact C.
      * right; left. exists (S q). split; auto. specialize (L2 eq_refl). subst it. simpl in q. subst q. lia.
      * right; right; left. exact C.
      * right; right; right. exact C.
    + unfold none_exit, pend_exit. destruct poll_none_retest; destruct (closed sh); destruct op; simpl; intros s Hs;
        (destruct (I s Hs) as [M|[P|C]]; auto; right; right;
         destruct C as [C|[C|[C|C]]]; simpl in *; try congruence; [right; left; exact C|right; right; left; exact C|right; right; right; exact C]).
    + unfold none_exit, pend_exit. destruct (pipe sh) eqn:Ep.
      * destruct poll_none_retest; destruct op; simpl; intros s Hs;
          (destruct (I s Hs) as [M|[P|C]]; [left; exact M|simpl in P; lia|]; right; right;
           destruct C as [C|[C|[C|C]]]; simpl in *; try congruence; [right; left; exact C|right; right; left; exact C|right; right; right; exact C]).
      * simpl. intros s Hs. right; right. left. reflexivity.
    + unfold pend_exit. destruct (closed sh); destruct op; simpl; intros s Hs;
        (destruct (I s Hs) as [M|[P|C]]; auto; right; right;
         destruct C as [C|[C|[C|C]]]; simpl in *; try congruence; [right; left; exact C|right; right; left; exact C|right; right; right; exact C]).
  - (* LBatch *)
    destruct (nth_error bats k) as [p|] eqn:Ek; [|(simpl; exact I)]. unfold bstep.
    destruct (p <? MAX_SIGNUM); [|intros s Hs; simpl in *; destruct (I s Hs) as [M|[P|C]]; auto; right; right;
        destruct C as [C|[C|[(j & p' & C1 & C2)|C]]]; simpl in *; auto;
        right; right; left; exists j, p'; split; auto; rewrite upd_same; auto].
    pose proof (do_load_slot sh p) as L. pose proof (do_load_pipe sh p) as LP.
    destruct (do_load sh p) as [[v|] s'] eqn:E; simpl in *; intros s Hs; destruct (L s Hs) as [L1 L2];
      (destruct (I s L1) as [M|[P|C]]; [left; exact M|right; left; lia|]); right; right;
      destruct C as [C|[C|[(j & p' & C1 & C2)|C]]]; simpl in *; auto.
    + right; right; left. exists j, p'. split; auto. rewrite upd_same; auto.
    + right; right; left. destruct (Nat.eq_dec j k) as [->|Hne].
      * exists k, (S p). rewrite Ek in C1. inversion C1; subst p'. split.
        -- apply nth_upd_eq. apply nth_error_Some. congruence.
        -- specialize (L2 eq_refl). lia.
      * exists j, p'. split; auto. rewrite nth_upd_neq; auto.
  - (* LStep *)
    destruct (nth_error fr k) as [f|] eqn:Ek; [|(simpl; exact I)].
    destruct f as [[sg info| |sg] p]; unfold fstep; simpl; rewrite ?Hflag.
    + destruct p; simpl.
      * (* store *)
        intros s Hs. destruct (Nat.eq_dec s sg) as [->|Hne].
        -- left. exists k, info. apply nth_upd_eq. apply nth_error_Some. congruence.
        -- assert (Hs' : slot sh s <> []).
           { revert Hs. unfold do_store. destruct (exraw sh); [destruct (length (slot sh sg) <? CHAN_SLOTS)|]; simpl; auto;
               rewrite fupd_neq; auto. }
           assert (Hp : pipe (do_store sh sg info) = pipe sh).
           { unfold do_store. destruct (exraw sh); [destruct (length (slot sh sg) <? CHAN_SLOTS)|]; reflexivity. }
           destruct (I s Hs') as [M|[P|C]].
           ++ left. eapply midh_upd; eauto. intros i E. inversion E.
           ++ right; left. rewrite Hp. exact P.
           ++ right; right. exact C.
      * (* wake *)
        intros s Hs. right; left. pose proof (do_wake_spec sh ltac:(lia)) as W. simpl in W. tauto.
      * intros s Hs. destruct (I s Hs) as [M|[P|C]]; auto. left. rewrite upd_same; auto.
      * intros s Hs. destruct (I s Hs) as [M|[P|C]]; auto. left. rewrite upd_same; auto.
    + destruct close_store_first; destruct p; simpl; intros s Hs;
        try (right; left; pose proof (do_wake_spec sh ltac:(lia)) as W; simpl in W; tauto);
        try (assert (Hs' : slot sh s <> []) by (pose proof (do_wake_spec sh ltac:(lia)) as W; simpl in W;
                                                 destruct W as (_ & _ & _ & _ & W5 & _); try rewrite W5 in Hs; exact Hs));
        (destruct (I s Hs') as [M|[P|C]]; [left; try (rewrite upd_same; auto; fail); eapply midh_upd; eauto; intros i E; inversion E|auto|auto]).
    + destruct p; simpl; try (destruct (idsm sh); [|destruct (watch sh sg)]; simpl); intros s Hs;
        (destruct (I s Hs) as [M|[P|C]]; [left; try (rewrite upd_same; auto; fail); eapply midh_upd; eauto; intros i E; inversion E|auto|auto]).
  - destruct (watch sh sg); [|(simpl; exact I)]. simpl. intros s Hs. destruct (I s Hs) as [M|[P|C]]; auto. left. apply midh_app; auto.
  - intros s Hs. destruct (I s Hs) as [M|[P|C]]; auto. left. apply midh_app; auto.
  - destruct (sg <? MAX_SIGNUM); [|(simpl; exact I)]. simpl. intros s Hs. destruct (I s Hs) as [M|[P|C]]; auto. left. apply midh_app; auto.
Qed.

End Step.

Theorem InvC_reach raw c ls : 1 <= c -> InvC (reach raw c ls).
Proof.
  intro Hc. unfold reach.
  assert (G : InvA c (reach raw c ls) /\ InvB raw (w_sh (reach raw c ls)) (w_fr (reach raw c ls)) /\ InvC (reach raw c ls)).
  { apply (reach_ind (fun w => InvA c w /\ InvB raw (w_sh w) (w_fr w) /\ InvC w)).
    - split; [apply InvA_init|]. split; [apply InvB_init|apply InvC_init].
    - intros w l (A & B & C). split; [apply InvA_wstep; auto|]. split; [apply InvB_wstep; auto|].
      eapply (InvC_wstep raw c Hc w l (eq_refl : action_store_first = true)); eauto. }
  apply G.
Qed.

(** handed-out batches (or an iterator abandoned before exhaustion) that still have to pass [s] *)
Definition undrained (w : world) (s : nat) : Prop :=
  (exists k p, nth_error (w_bats w) k = Some p /\ p <= s) \/ (exists p, In p (w_gone w) /\ p <= s).

(** C09, safety: in every reachable world, a set slot whose handlers have all done their wake
    has a byte in the pipe, or is still going to be scanned. *)
Theorem no_lost_wakeup raw c ls s : 1 <= c ->
  let w := reach raw c ls in
  slot (w_sh w) s <> [] -> midh (w_fr w) s \/ 0 < pipe (w_sh w) \/ covered w s.
Proof. intros Hc w Hs. exact (InvC_reach raw c ls Hc s Hs). Qed.

(** ... consequently the consumer is never blocked in its read with [s] unreported and nothing
    outstanding: *)
Theorem never_blocked_with_signal raw c ls s : 1 <= c ->
  let w := reach raw c ls in
  cpc_ (w_co w) = CRead -> slot (w_sh w) s <> [] -> ~ midh (w_fr w) s -> 0 < pipe (w_sh w) \/ undrained w s.
Proof.
  intros Hc w Hr Hs Hm. pose proof (InvA_reach raw c ls Hc) as A. pose proof (InvB_reach raw c ls) as B. fold w in A, B.
  pose proof (slot_nonempty_lt raw _ _ s B Hs) as Hlt.
  pose proof (InvC_reach raw c ls Hc s Hs) as IC. fold w in IC. destruct IC as [M|[P|C]]; [contradiction|auto|].
  destruct C as [C|[(p & C1 & C2)|[C|C]]]; [congruence| |right; left; exact C|right; right; exact C].
  destruct (a_read _ _ A Hr) as [Ho|Ho].
  - pose proof (a_nitw _ _ A Ho). congruence.
  - pose proof (a_itr _ _ A Hr Ho) as Hi. unfold itpos in Hi. rewrite C1 in Hi. lia.
Qed.

(** ... nor parked after Pending: then the pipe holds a byte and the armed wake-up has fired. *)
Theorem never_parked_with_signal raw c ls s : 1 <= c ->
  let w := reach raw c ls in
  cpc_ (w_co w) = CIdle -> cres_ (w_co w) = RPending -> slot (w_sh w) s <> [] -> ~ midh (w_fr w) s ->
  (0 < pipe (w_sh w) /\ notified (w_sh w) = true) \/ undrained w s.
Proof.
  intros Hc w Hi Hp Hs Hm. pose proof (InvA_reach raw c ls Hc) as A. pose proof (InvB_reach raw c ls) as B. fold w in A, B.
  pose proof (slot_nonempty_lt raw _ _ s B Hs) as Hlt.
  pose proof (InvC_reach raw c ls Hc s Hs) as IC. fold w in IC. destruct IC as [M|[P|C]]; [contradiction| |].
  - left. split; auto. destruct (pending_means_armed raw c ls Hc Hi Hp) as (_ & _ & _ & [Ar|No]); auto.
    fold w in Ar. pose proof (a_arm _ _ A Ar). lia.
  - destruct C as [C|[(p & C1 & C2)|[C|C]]]; [congruence| |right; left; exact C|right; right; exact C].
    pose proof (a_iti _ _ A Hi Hp) as Hx. unfold itpos in Hx. rewrite C1 in Hx. lia.
Qed.
