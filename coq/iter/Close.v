(** Invariants of the consumer / closed flag / reactor part of the iterator model, for every
    schedule (C11; also used by C09). *)
From Coq Require Import List Arith ZArith Bool Lia.
From SH Require Import base.Pool gen.Extracted_iter iter.Model iter.Base.
Import ListNotations.

Definition poll_op (o : copk) : Prop := o = OFNext \/ o = OPoll.

Record InvA (c0 : nat) (w : world) : Prop := {
  a_cap : cap (w_sh w) = c0;
  a_cw : closew (w_sh w) = true -> closed (w_sh w) = true;
  a_arm : armed (w_sh w) = true -> pipe (w_sh w) = 0;
  a_wait : cop (w_co w) = OPoll -> cb_last (w_co w) = Some false -> armed (w_sh w) = true \/ notified (w_sh w) = true;
  a_pend : cpc_ (w_co w) = CIdle -> cres_ (w_co w) = RPending -> cop (w_co w) = OPoll;
  a_ncb : ncb (w_co w) = 0 -> cb_last (w_co w) = None;
  a_it3 : cpc_ (w_co w) = CP3 -> MAX_SIGNUM <= itpos (w_co w);
  a_it4 : cpc_ (w_co w) = CP4 -> MAX_SIGNUM <= itpos (w_co w);
  a_it5 : cpc_ (w_co w) = CP5 -> MAX_SIGNUM <= itpos (w_co w);
  a_itr : cpc_ (w_co w) = CRead -> cop (w_co w) = OFNext -> MAX_SIGNUM <= itpos (w_co w);
  a_iti : cpc_ (w_co w) = CIdle -> cres_ (w_co w) = RPending -> MAX_SIGNUM <= itpos (w_co w);
  a_nitp : cop (w_co w) = OPending -> cit (w_co w) = None;
  a_nitw : cop (w_co w) = OWait -> cit (w_co w) = None;
  a_read : cpc_ (w_co w) = CRead -> cop (w_co w) = OWait \/ cop (w_co w) = OFNext;
  a_wcl : cpc_ (w_co w) = CWClosed -> cop (w_co w) = OWait;
  a_po1 : cpc_ (w_co w) = CP1 -> poll_op (cop (w_co w));
  a_po2 : cpc_ (w_co w) = CP2 -> poll_op (cop (w_co w));
  a_po3 : cpc_ (w_co w) = CP3 -> poll_op (cop (w_co w));
  a_po5 : cpc_ (w_co w) = CP5 -> poll_op (cop (w_co w));
  a_p4 : cpc_ (w_co w) = CP4 -> cop (w_co w) = OPoll;
  a_u1r : closew (w_sh w) = true -> cpc_ (w_co w) = CRead -> 0 < pipe (w_sh w);
  a_u14 : closew (w_sh w) = true -> cpc_ (w_co w) = CP4 -> 0 < pipe (w_sh w);
  a_u2 : closew (w_sh w) = true -> cop (w_co w) = OPoll -> cb_last (w_co w) = Some false -> notified (w_sh w) = true;
  a_k1 : forall k p, nth_error (w_fr w) k = Some (mkFrame FK p) -> p <> F0 -> closed (w_sh w) = true
}.

Lemma InvA_init raw c : InvA c (w_init raw c).
Proof.
  constructor; simpl; unfold poll_op; intros; try congruence; try lia;
    repeat match goal with H : _ \/ _ |- _ => destruct H end; try congruence;
    repeat match goal with H : _ /\ _ |- _ => destruct H end; try congruence.
  destruct k; discriminate.
Qed.


Ltac splitor :=
  repeat match goal with
         | H : _ \/ _ |- _ => destruct H
         | H : _ /\ _ |- _ => destruct H
         end.

Ltac mp :=
  repeat match goal with
         | H : ?x = ?x -> _ |- _ => specialize (H eq_refl)
         | H : ?P -> _, H' : ?P |- _ => match type of P with Prop => specialize (H H') end
         end.

Ltac fin := unfold poll_op, itpos, scan_pc in *; simpl in *; intros; splitor; subst; mp; splitor; subst;
            try congruence; try lia; try discriminate; auto; try solve [eauto].

(** do_wake: the byte goes in unless the pipe is full; either way the pipe is not empty afterwards. *)
Lemma do_wake_spec s : 1 <= cap s ->
  let s' := do_wake s in
  0 < pipe s' /\ cap s' = cap s /\ closed s' = closed s /\ closew s' = closew s /\ slot s' = slot s /\ watch s' = watch s /\
  exraw s' = exraw s /\ begun s' = begun s /\ nstored s' = nstored s /\ stlog s' = stlog s /\ ylog s' = ylog s /\ idsm s' = idsm s /\
  ((armed s = true -> pipe s = 0) -> armed s' = true -> pipe s' = 0) /\
  (armed s = true -> pipe s = 0 -> notified s' = true) /\
  (notified s = true -> notified s' = true) /\
  (armed s' = true -> armed s = true).
Proof.
  intro Hc. unfold do_wake. destruct (pipe s <? cap s) eqn:E.
  - destruct (armed s) eqn:Ea; simpl; repeat split; intros; try congruence; try lia.
  - apply Nat.ltb_ge in E. simpl. repeat split; intros; try congruence; try lia; auto.
Qed.

Lemma InvA_frame c0 w k f : 1 <= c0 -> InvA c0 w -> nth_error (w_fr w) k = Some f ->
  InvA c0 (let '(s, f', es) := fstep (w_sh w) f in mkW s (w_co w) (w_bats w) (w_gone w) (upd (w_fr w) k f')).
Proof.
  intros Hc I Hk. pose proof (a_k1 _ _ I) as K1. destruct I. destruct w as [sh co bats gone fr]. simpl in *.
  assert (KU : forall f' s', (pc f' <> F0 -> fk f' = FK -> closed s' = true) -> (closed sh = true -> closed s' = true) ->
               forall j p, nth_error (upd fr k f') j = Some (mkFrame FK p) -> p <> F0 -> closed s' = true).
  { intros f' s' H1 H2 j p Hj Hp. apply nth_upd_cases in Hj. destruct Hj as [(_ & _ & E)|(_ & E)].
    - subst f'. apply H1; auto.
    - apply H2. eapply K1; eauto. }
  assert (HStore : forall sg info q, InvA c0 (mkW (do_store sh sg info) co bats gone (upd fr k (mkFrame (FH sg info) q)))).
  { intros sg info q. unfold do_store. destruct (exraw sh); [destruct (length (slot sh sg) <? CHAN_SLOTS)|]; constructor; simpl; auto;
      apply KU; simpl; auto; intros; try congruence; try (eapply K1; eauto; discriminate). }
  assert (HWake : forall sg info q, InvA c0 (mkW (do_wake sh) co bats gone (upd fr k (mkFrame (FH sg info) q)))).
  { intros sg info q. pose proof (do_wake_spec sh ltac:(lia)) as W. simpl in W.
    destruct W as (W1 & W2 & W3 & W4 & W5 & W6 & W7 & W8 & W9 & W10 & W11 & W12 & W13 & W14 & W15 & W16).
    constructor; simpl; try rewrite W2; try rewrite W3; try rewrite W4; auto; intros; try lia;
      try (eapply KU; eauto; simpl; try congruence; try (rewrite W3; auto); fail);
      try (destruct (a_wait0 ltac:(assumption) ltac:(assumption)) as [A|A]; solve [auto | right; auto]). }
  destruct f as [[sg info| |sg] p]; destruct p; unfold fstep; cbn [fk pc];
    try (destruct action_store_first; simpl; solve [apply HStore|apply HWake]); simpl.
  - constructor; simpl; auto. apply KU; simpl; auto; intros; try congruence; try (eapply K1; eauto; discriminate).
  - constructor; simpl; auto. apply KU; simpl; auto; intros; try congruence; try (eapply K1; eauto; discriminate).
  - (* close store *)
    constructor; simpl; auto; intros; try congruence.
  - (* close wake *)
    pose proof (do_wake_spec sh ltac:(lia)) as W. simpl in W.
    destruct W as (W1 & W2 & W3 & W4 & W5 & W6 & W7 & W8 & W9 & W10 & W11 & W12 & W13 & W14 & W15 & W16).
    assert (Cl : closed sh = true) by (eapply K1; eauto; discriminate).
    constructor; simpl; try rewrite W2; try rewrite W3; try rewrite W4; auto; intros; try lia;
      try (eapply KU; eauto; simpl; try congruence; try (rewrite W3; auto); fail);
      try (destruct (a_wait0 ltac:(assumption) ltac:(assumption)) as [A|A]; solve [auto | right; auto]).
  - constructor; simpl; auto. apply KU; simpl; auto; intros; try congruence; try (eapply K1; eauto; discriminate).
  - constructor; simpl; auto. apply KU; simpl; auto; intros; try congruence; try (eapply K1; eauto; discriminate).
  - (* add lock *)
    destruct (idsm sh); [constructor; simpl; auto; apply KU; simpl; auto; intros; try congruence; try (eapply K1; eauto; discriminate)|].
    destruct (watch sh sg); constructor; simpl; auto; apply KU; simpl; auto; intros; try congruence; try (eapply K1; eauto; discriminate).
  - constructor; simpl; auto; apply KU; simpl; auto; intros; try congruence; try (eapply K1; eauto; discriminate).
  - constructor; simpl; auto; apply KU; simpl; auto; intros; try congruence; try (eapply K1; eauto; discriminate).
  - constructor; simpl; auto; apply KU; simpl; auto; intros; try congruence; try (eapply K1; eauto; discriminate).
Qed.

Ltac casebool :=
  repeat match goal with
         | |- context [if ?b then _ else _] => destruct b eqn:?
         | |- context [match ?x with O => _ | S _ => _ end] => destruct x eqn:?
         end.

Lemma InvA_cons c0 w ch : 1 <= c0 -> InvA c0 w ->
  InvA c0 (let '(s, c, b, es) := cstep (w_sh w) (w_co w) (w_bats w) ch in mkW s c b (w_gone w) (w_fr w)).
Proof.
  intros Hc I. destruct I. destruct w as [sh co bats gone fr]. destruct co as [p op it res cb n]. simpl in *.
  unfold cstep; simpl. destruct p; simpl.
  - constructor; simpl; auto.
  - (* CFlush *) destruct op; simpl; constructor; fin.
  - (* CWClosed *) destruct (closed sh) eqn:Ecl; constructor; fin.
  - (* CRead *)
    destruct (Nat.eqb ch 1); [constructor; simpl; auto|].
    destruct (pipe sh) eqn:Ep; constructor; fin.
  - (* CP1 *)
    destruct (closed sh) eqn:Ecl; simpl; [constructor; fin|]. unfold scan_pc.
    match goal with |- context [if ?b then _ else _] => destruct b eqn:El end; constructor; fin;
      apply Nat.ltb_ge in El; unfold itpos in El; simpl in El; lia.
  - (* CP2 *)
    unfold do_load, itpos, scan_pc; simpl. destruct it as [q|]; simpl.
    + destruct (slot sh q) eqn:Es; simpl.
      * destruct (S q <? MAX_SIGNUM) eqn:El; constructor; fin; try (apply Nat.ltb_ge in El; lia).
      * constructor; fin.
    + destruct (slot sh MAX_SIGNUM) eqn:Es; simpl.
      * destruct (S MAX_SIGNUM <? MAX_SIGNUM) eqn:El; constructor; fin.
      * constructor; fin.
  - (* CP3: whatever the source does in the Ok(None) arm *)
    unfold none_exit, pend_exit. destruct poll_none_retest; simpl;
      (destruct (closed sh) eqn:Ecl; simpl; destruct op; constructor; fin).
  - (* CP4 *)
    unfold none_exit, pend_exit. destruct poll_none_retest; simpl;
      (destruct (pipe sh) eqn:Ep; simpl; destruct op; constructor; fin).
  - (* CP5 *)
    unfold pend_exit; simpl.
    destruct (closed sh) eqn:Ecl; simpl; [constructor; fin|]. destruct op; constructor; fin.
Qed.

Lemma InvA_call c0 w o : InvA c0 w ->
  InvA c0 (let '(s, c, g, es) := ccall (w_sh w) (w_co w) (w_gone w) o in mkW s c (w_bats w) g (w_fr w)).
Proof.
  intros I. destruct I. destruct w as [sh co bats gone fr]. destruct co as [p op it res cb n]. simpl in *.
  unfold ccall; simpl. destruct p; simpl; try (constructor; simpl; assumption).
  destruct o; simpl; try (constructor; fin; fail);
    (destruct it as [q|]; simpl; [constructor; fin|constructor; simpl; assumption]).
Qed.

Lemma InvA_batch c0 w k p : InvA c0 w ->
  InvA c0 (let '(s, p', es) := bstep (w_sh w) p in mkW s (w_co w) (upd (w_bats w) k p') (w_gone w) (w_fr w)).
Proof.
  intros I. destruct I. destruct w as [sh co bats gone fr]. simpl in *.
  unfold bstep. destruct (p <? MAX_SIGNUM); [|constructor; simpl; assumption].
  unfold do_load. destruct (slot sh p); constructor; simpl; assumption.
Qed.

Lemma InvA_spawn c0 sh co bats gone fr f : pc f = F0 ->
  InvA c0 (mkW sh co bats gone fr) -> cap sh = c0 ->
  InvA c0 (mkW sh co bats gone (fr ++ [f])).
Proof.
  intros Hf I Hc. destruct I. simpl in *. constructor; simpl; auto.
  intros k p Hk Hp. apply nth_app_cases in Hk. destruct Hk as [Hk|[_ Hk]]; [eauto|]. subst f. simpl in Hf. congruence.
Qed.

Lemma InvA_wstep c0 w l : 1 <= c0 -> InvA c0 w -> InvA c0 (fst (wstep w l)).
Proof.
  intros Hc I. destruct l; simpl.
  - pose proof (InvA_call c0 w o I) as H. destruct (ccall (w_sh w) (w_co w) (w_gone w) o) as [[[s c] g] es]. exact H.
  - pose proof (InvA_cons c0 w ch Hc I) as H. destruct (cstep (w_sh w) (w_co w) (w_bats w) ch) as [[[s c] b] es]. exact H.
  - destruct (nth_error (w_bats w) k) as [p|] eqn:E; [|exact I].
    pose proof (InvA_batch c0 w k p I) as H. destruct (bstep (w_sh w) p) as [[s p'] es]. exact H.
  - destruct (nth_error (w_fr w) k) as [f|] eqn:E; [|exact I].
    pose proof (InvA_frame c0 w k f Hc I E) as H. destruct (fstep (w_sh w) f) as [[s f'] es]. exact H.
  - destruct (watch (w_sh w) sg); [|exact I]. simpl.
    destruct w as [sh co bats gone fr]. simpl.
    assert (I2 : InvA c0 (mkW (set_begun sh (fupd (begun sh) sg (begun sh sg ++ [info]))) co bats gone fr)).
    { destruct I. constructor; simpl in *; auto. }
    apply InvA_spawn; auto. destruct I; auto.
  - destruct w as [sh co bats gone fr]. simpl. apply InvA_spawn; auto. destruct I; auto.
  - destruct (sg <? MAX_SIGNUM); [|exact I]. destruct w as [sh co bats gone fr]. simpl. apply InvA_spawn; auto. destruct I; auto.
Qed.

Theorem InvA_reach raw c ls : 1 <= c -> InvA c (reach raw c ls).
Proof.
  intro Hc. apply reach_ind.
  - apply InvA_init.
  - intros w l I. apply InvA_wstep; assumption.
Qed.

(** ---- C11: sticky ---- *)
Lemma closed_sticky_step w l : closed (w_sh w) = true -> closed (w_sh (fst (wstep w l))) = true.
Proof.
  intro H. destruct l; simpl.
  - unfold ccall. destruct (cpc_ (w_co w)); simpl; auto. destruct o; simpl; auto; destruct (cit (w_co w)); simpl; auto.
  - unfold cstep. destruct (cpc_ (w_co w)); simpl; auto.
    + destruct (cop (w_co w)); simpl; auto.
    + destruct (Nat.eqb ch 1); simpl; auto. destruct (pipe (w_sh w)); simpl; auto.
    + rewrite H. simpl. auto.
    + unfold do_load. destruct (slot (w_sh w) (itpos (w_co w))); simpl; auto.
    + rewrite H. unfold none_exit, pend_exit. destruct poll_none_retest; destruct (cop (w_co w)); simpl; auto.
    + unfold none_exit, pend_exit; simpl. destruct poll_none_retest; destruct (pipe (w_sh w)); simpl; auto; destruct (cop (w_co w)); simpl; auto.
    + rewrite H. simpl. auto.
  - destruct (nth_error (w_bats w) k); simpl; auto. unfold bstep. destruct (n <? MAX_SIGNUM); simpl; auto.
    unfold do_load. destruct (slot (w_sh w) n); simpl; auto.
  - destruct (nth_error (w_fr w) k) as [f|]; simpl; auto.
    destruct f as [[sg info| |sg] p]; destruct p; unfold fstep; cbn [fk pc];
      try destruct action_store_first; try destruct close_store_first; simpl; auto;
      try (unfold do_store; destruct (exraw (w_sh w)); [destruct (length (slot (w_sh w) sg) <? CHAN_SLOTS)|]; simpl; auto; fail);
      try (unfold do_wake; destruct (pipe (w_sh w) <? cap (w_sh w)); [destruct (armed (w_sh w))|]; simpl; auto; fail);
      try (destruct (idsm (w_sh w)); simpl; auto; fail).
  - destruct (watch (w_sh w) sg); simpl; auto.
  - auto.
  - destruct (sg <? MAX_SIGNUM); simpl; auto.
Qed.

Lemma closed_sticky_run w ls : closed (w_sh w) = true -> closed (w_sh (fst (run w ls))) = true.
Proof.
  revert w; induction ls as [|l r IH]; intros w H; simpl; auto.
  pose proof (closed_sticky_step w l H) as H1. destruct (wstep w l) as [w1 e1]. simpl in H1.
  specialize (IH w1 H1). destruct (run w1 r) as [w2 e2]. exact IH.
Qed.

(** ---- C11: Pending only after the callback answered "nothing" in this very call ---- *)
Record InvP (w : world) : Prop := {
  p_p5 : cpc_ (w_co w) = CP5 -> cb_last (w_co w) = Some false \/ closed (w_sh w) = true;
  p_pend : cpc_ (w_co w) = CIdle -> cres_ (w_co w) = RPending -> cb_last (w_co w) = Some false
}.

Lemma co_unchanged_step w l :
  match l with LCall _ | LCons _ => True | _ => w_co (fst (wstep w l)) = w_co w end.
Proof.
  destruct l; simpl; auto.
  - destruct (nth_error (w_bats w) k); simpl; auto. destruct (bstep (w_sh w) n) as [[s p'] es]; reflexivity.
  - destruct (nth_error (w_fr w) k); simpl; auto. destruct (fstep (w_sh w) f) as [[s f'] es]; reflexivity.
  - destruct (watch (w_sh w) sg); reflexivity.
  - destruct (sg <? MAX_SIGNUM); reflexivity.
Qed.

(** This is the lemma that needs the re-test of is_closed() in poll_signal's Ok(None) arm
    ([poll_none_retest], extracted from the source): without it the [CP3] step taken with the
    flag already set reports Pending with [cb_last = None]. *)
Lemma C11_pending_means_armed_inv w l : InvP w -> InvP (fst (wstep w l)).
Proof.
  intro I.
  assert (Hother : w_co (fst (wstep w l)) = w_co w -> InvP (fst (wstep w l))).
  { intro E. destruct I as [I1 I2]. constructor; rewrite E; auto.
    intro H. destruct (I1 H) as [A|A]; auto. right. apply closed_sticky_step; exact A. }
  pose proof (co_unchanged_step w l) as U.
  destruct l; auto; clear U Hother; destruct I as [I1 I2]; destruct w as [sh co bats gone fr];
    destruct co as [p op it res cb n]; simpl in *.
  - unfold ccall; simpl. destruct p; simpl; try (constructor; simpl; auto; fail).
    destruct o; simpl; try (constructor; simpl; intros; congruence);
      (destruct it; simpl; constructor; simpl; intros; auto; congruence).
  - unfold cstep; simpl. destruct p; simpl.
    + constructor; simpl; auto.
    + destruct op; simpl; constructor; simpl; intros; congruence.
    + constructor; simpl; intros; destruct (closed sh); congruence.
    + destruct (Nat.eqb ch 1); [constructor; simpl; auto|]. destruct (pipe sh); constructor; simpl; intros; congruence.
    + destruct (closed sh) eqn:E; simpl; constructor; simpl; intros; try congruence;
        unfold scan_pc in *; destruct (itpos _ <? MAX_SIGNUM); congruence.
    + unfold do_load, scan_pc; simpl. destruct (slot sh _); simpl; constructor; simpl; intros; try congruence;
        destruct (S _ <? MAX_SIGNUM); congruence.
    + unfold none_exit, pend_exit, poll_none_retest; simpl.
      destruct (closed sh) eqn:E; simpl; constructor; simpl; intros; auto; try congruence; destruct op; congruence.
    + unfold none_exit, pend_exit, poll_none_retest; simpl.
      destruct (pipe sh); simpl; constructor; simpl; intros; auto; congruence.
    + unfold pend_exit; simpl. destruct (closed sh) eqn:E; simpl; [constructor; simpl; intros; congruence|].
      destruct (I1 eq_refl) as [A|A]; [|congruence].
      destruct op; simpl; constructor; simpl; intros; auto; congruence.
Qed.

Lemma InvP_reach raw c ls : InvP (reach raw c ls).
Proof.
  apply reach_ind.
  - constructor; simpl; intros; congruence.
  - intros w l I. apply C11_pending_means_armed_inv; assumption.
Qed.

Theorem pending_means_armed raw c ls : 1 <= c ->
  let w := reach raw c ls in
  cpc_ (w_co w) = CIdle -> cres_ (w_co w) = RPending ->
  cop (w_co w) = OPoll /\ cb_last (w_co w) = Some false /\ 1 <= ncb (w_co w) /\
  (armed (w_sh w) = true \/ notified (w_sh w) = true).
Proof.
  intros Hc w Hi Hr. pose proof (InvA_reach raw c ls Hc) as A. pose proof (InvP_reach raw c ls) as P. fold w in A, P.
  pose proof (p_pend _ P Hi Hr) as Hcb. pose proof (a_pend _ _ A Hi Hr) as Hop.
  repeat split; auto.
  - destruct (ncb (w_co w)) eqn:E; [|lia]. pose proof (a_ncb _ _ A E). congruence.
  - exact (a_wait _ _ A Hop Hcb).
Qed.

Theorem sticky raw c ls1 ls2 :
  closed (w_sh (reach raw c ls1)) = true -> closed (w_sh (reach raw c (ls1 ++ ls2))) = true.
Proof. intro H. rewrite reach_app. apply closed_sticky_run. exact H. Qed.

(** Once some close() call is past its store (a fortiori once it has returned), the flag is set. *)
Theorem close_called_closed raw c ls k p : 1 <= c ->
  nth_error (w_fr (reach raw c ls)) k = Some (mkFrame FK p) -> p <> F0 -> closed (w_sh (reach raw c ls)) = true.
Proof. intros Hc H Hp. exact (a_k1 _ _ (InvA_reach raw c ls Hc) k p H Hp). Qed.

(** ---- C11: after close() every blocked or later call returns within a bound (solo runs) ---- *)
Definition cstep_w (w : world) : world := fst (wstep w (LCons 0)).
Fixpoint csolo (n : nat) (w : world) : world :=
  match n with O => w | S k => csolo k (cstep_w w) end.

(** Number of own steps the consumer still needs once the flag is set and close() has woken the pipe. *)
Definition mu (c : cons) : nat :=
  match cpc_ c with
  | CIdle => 0
  | CP1 => 1 | CP5 => 1
  | CP3 => 2 | CFlush => 2
  | CWClosed => 3 | CRead => 3 | CP4 => 3
  | CP2 => (MAX_SIGNUM - itpos c) + 3
  end.

Lemma cstate_dec (p : cpc) : p = CIdle \/ p <> CIdle.
Proof. destruct p; auto; right; discriminate. Qed.

Lemma mu_bound c : mu c <= MAX_SIGNUM + 3.
Proof. unfold mu. destruct (cpc_ c); lia. Qed.

Local Arguments Nat.sub : simpl never.

Lemma solo_dec c0 w : 1 <= c0 -> InvA c0 w -> closew (w_sh w) = true -> cpc_ (w_co w) <> CIdle ->
  mu (w_co (cstep_w w)) < mu (w_co w) /\ closew (w_sh (cstep_w w)) = true.
Proof.
  intros Hc I Hw Hn. pose proof (a_cw _ _ I Hw) as Hcl.
  pose proof (a_u1r _ _ I Hw) as U1. pose proof (a_u14 _ _ I Hw) as U4.
  destruct w as [sh co bats gone fr]. destruct co as [p op it res cb n]. unfold cstep_w, mu. simpl in *.
  unfold cstep; simpl. destruct p; simpl; try congruence.
  - destruct op; simpl; split; auto; lia.
  - rewrite Hcl. simpl. split; auto.
  - specialize (U1 eq_refl). destruct (pipe sh) eqn:Ep; [lia|]. simpl. split; auto.
  - rewrite Hcl. simpl. split; auto.
  - unfold do_load, itpos, scan_pc; simpl. destruct it as [q|]; simpl.
    + destruct (slot sh q); simpl; [|split; auto; lia].
      destruct (S q <? MAX_SIGNUM) eqn:El; simpl; split; auto; [apply Nat.ltb_lt in El|apply Nat.ltb_ge in El]; lia.
    + destruct (slot sh MAX_SIGNUM); simpl; [|split; auto; lia].
      destruct (S MAX_SIGNUM <? MAX_SIGNUM) eqn:El; simpl; split; auto; lia.
  - rewrite Hcl. unfold none_exit, pend_exit. destruct poll_none_retest; destruct op; simpl; split; auto.
  - specialize (U4 eq_refl). destruct (pipe sh) eqn:Ep; [lia|]. simpl. split; auto.
  - rewrite Hcl. simpl. split; auto.
Qed.

Lemma csolo_reach raw c ls n : exists ls', csolo n (reach raw c ls) = reach raw c (ls ++ ls').
Proof.
  revert ls; induction n as [|n IH]; intro ls; simpl.
  - exists []. rewrite app_nil_r. reflexivity.
  - unfold cstep_w. rewrite <- reach_snoc. destruct (IH (ls ++ [LCons 0])) as [l' E].
    exists (LCons 0 :: l'). rewrite E. rewrite <- app_assoc. reflexivity.
Qed.

(** Flag-dependent part: with the re-test in poll_signal, a call that returns after close()
    has returned never reports Pending. *)
Lemma closed_result c0 w : 1 <= c0 -> InvA c0 w -> closew (w_sh w) = true -> cpc_ (w_co w) <> CIdle ->
  cpc_ (w_co (cstep_w w)) = CIdle -> cres_ (w_co (cstep_w w)) <> RPending.
Proof.
  intros Hc I Hw Hn. pose proof (a_cw _ _ I Hw) as Hcl.
  pose proof (a_u1r _ _ I Hw) as U1. pose proof (a_u14 _ _ I Hw) as U4.
  destruct w as [sh co bats gone fr]. destruct co as [p op it res cb n]. unfold cstep_w. simpl in *.
  unfold cstep; simpl. destruct p; simpl; try congruence.
  - destruct op; simpl; congruence.
  - rewrite Hcl. simpl. congruence.
  - specialize (U1 eq_refl). destruct (pipe sh) eqn:Ep; [lia|]. simpl. congruence.
  - rewrite Hcl. simpl. congruence.
  - unfold do_load, scan_pc; simpl. destruct (slot sh _); simpl; [|congruence].
    destruct (S _ <? MAX_SIGNUM); simpl; congruence.
  - rewrite Hcl. unfold none_exit, pend_exit, poll_none_retest; simpl. congruence.
  - specialize (U4 eq_refl). destruct (pipe sh) eqn:Ep; [lia|]. simpl. congruence.
  - rewrite Hcl. simpl. congruence.
Qed.

Theorem unblocks raw c ls : 1 <= c ->
  let w := reach raw c ls in
  closew (w_sh w) = true ->
  exists n, n <= MAX_SIGNUM + 3 /\ cpc_ (w_co (csolo n w)) = CIdle /\
            (n = 0 \/ cres_ (w_co (csolo n w)) <> RPending).
Proof.
  intros Hc w Hw.
  assert (G : forall m l, mu (w_co (reach raw c l)) <= m -> closew (w_sh (reach raw c l)) = true ->
              exists n, n <= m /\ cpc_ (w_co (csolo n (reach raw c l))) = CIdle /\
                        (n = 0 \/ cres_ (w_co (csolo n (reach raw c l))) <> RPending)).
  { induction m as [|m IH]; intros l Hm Hcw.
    - exists 0. simpl. split; [lia|]. split; auto. unfold mu in Hm. destruct (cpc_ (w_co (reach raw c l))); auto; lia.
    - destruct (cstate_dec (cpc_ (w_co (reach raw c l)))) as [Ei|Ei].
      + exists 0. simpl. split; [lia|]. auto.
      + pose proof (InvA_reach raw c l Hc) as I.
        destruct (solo_dec c _ Hc I Hcw Ei) as [D1 D2].
        pose proof (closed_result c _ Hc I Hcw Ei) as R.
        unfold cstep_w in D1, D2, R. rewrite <- reach_snoc in D1, D2, R.
        destruct (IH (l ++ [LCons 0]) ltac:(lia) D2) as (n & Hn & Hi & Hr).
        exists (S n). simpl. unfold cstep_w. rewrite <- reach_snoc. split; [lia|]. split; [exact Hi|]. right.
        destruct Hr as [->|Hr]; [|exact Hr]. simpl in *. apply R. exact Hi. }
  destruct (G (mu (w_co w)) ls (le_n _) Hw) as (n & Hn & Hi & Hr).
  exists n. split; [pose proof (mu_bound (w_co w)); lia|]. auto.
Qed.

(** Forever::next / poll_signal started once the flag is set return Closed (None) at their first step. *)
Theorem forever_ends w : closed (w_sh w) = true -> cpc_ (w_co w) = CP1 ->
  cpc_ (w_co (cstep_w w)) = CIdle /\ cres_ (w_co (cstep_w w)) = RClosed.
Proof.
  intros Hc Hp. destruct w as [sh co bats gone fr]. destruct co as [p op it res cb n]. unfold cstep_w. simpl in *.
  subst p. unfold cstep; simpl. rewrite Hc. simpl. auto.
Qed.

(** A poller parked after Pending has an outstanding notification once close() has returned. *)
Theorem close_notifies_parked raw c ls : 1 <= c ->
  let w := reach raw c ls in
  closew (w_sh w) = true -> cpc_ (w_co w) = CIdle -> cres_ (w_co w) = RPending -> notified (w_sh w) = true.
Proof.
  intros Hc w Hw Hi Hr. pose proof (InvA_reach raw c ls Hc) as A. pose proof (InvP_reach raw c ls) as P. fold w in A, P.
  exact (a_u2 _ _ A Hw (a_pend _ _ A Hi Hr) (p_pend _ P Hi Hr)).
Qed.

(** No consumer is left blocked: once close() has returned a consumer at its blocking read finds a byte. *)
Theorem not_blocked_after_close raw c ls : 1 <= c ->
  let w := reach raw c ls in
  closew (w_sh w) = true -> cpc_ (w_co w) = CRead -> 0 < pipe (w_sh w).
Proof. intros Hc w Hw Hr. exact (a_u1r _ _ (InvA_reach raw c ls Hc) Hw Hr). Qed.

(** ---- facts used by the adapters' layer (iter/Adapter.v) ---- *)
(** a consumer step never changes which call is in progress *)
Lemma cstep_cop s c b ch : cop (snd (fst (fst (cstep s c b ch)))) = cop c.
Proof.
  unfold cstep. destruct (cpc_ c); simpl; auto.
  - destruct (cop c); reflexivity.
  - destruct (Nat.eqb ch 1); [reflexivity|]. destruct (pipe s); reflexivity.
  - destruct (closed s); reflexivity.
  - destruct (do_load s (itpos c)) as [[v|] s']; reflexivity.
  - unfold none_exit, pend_exit. destruct (closed s); [|reflexivity]. destruct poll_none_retest; [reflexivity|]. destruct (cop c) eqn:E; simpl; auto.
  - unfold none_exit, pend_exit. destruct (pipe s); [|reflexivity]. destruct poll_none_retest; [reflexivity|]. simpl. destruct (cop c) eqn:E; simpl; auto.
  - unfold pend_exit. destruct (closed s); [reflexivity|]. destruct (cop c) eqn:E; simpl; auto.
Qed.

Lemma csolo_cop n w : cop (w_co (csolo n w)) = cop (w_co w).
Proof.
  revert w; induction n as [|n IH]; intro w; simpl; auto. rewrite IH. unfold cstep_w. simpl.
  pose proof (cstep_cop (w_sh w) (w_co w) (w_bats w) 0) as H.
  destruct (cstep (w_sh w) (w_co w) (w_bats w) 0) as [[[s c] b] es]. exact H.
Qed.

(** what a returned poll_signal call (non-blocking callback) can have reported *)
Definition InvR (w : world) : Prop :=
  cpc_ (w_co w) = CIdle -> cop (w_co w) = OPoll ->
  cres_ (w_co w) = RPending \/ cres_ (w_co w) = RClosed \/ exists s v, cres_ (w_co w) = RSignal s v.

Lemma InvR_wstep w l : InvR w -> InvR (fst (wstep w l)).
Proof.
  intro I. pose proof (co_unchanged_step w l) as U.
  destruct l; try (unfold InvR; rewrite U; exact I); clear U;
    destruct w as [sh co bats gone fr]; destruct co as [p op it res cb n]; unfold InvR in *; simpl in *.
  - unfold ccall; simpl. destruct p; simpl; auto.
    destruct o; simpl; try (intros; congruence); destruct it; simpl; auto; intros; congruence.
  - unfold cstep; simpl. destruct p; simpl; auto.
    + destruct op; simpl; intros; congruence.
    + intros; destruct (closed sh); congruence.
    + destruct (Nat.eqb ch 1); simpl; [intros; congruence|]. destruct (pipe sh); simpl; intros; congruence.
    + destruct (closed sh); simpl; [auto|]. unfold scan_pc. destruct (itpos _ <? MAX_SIGNUM); intros; congruence.
    + unfold do_load, scan_pc; simpl. destruct (slot sh _); simpl; [destruct (S _ <? MAX_SIGNUM); intros; congruence|].
      intros _ _. right; right. eauto.
    + unfold none_exit, pend_exit. destruct (closed sh); simpl; [|destruct op; intros; congruence].
      destruct poll_none_retest; simpl; [intros; congruence|]. destruct op; simpl; auto; intros; congruence.
    + unfold none_exit, pend_exit. destruct (pipe sh); simpl; [|intros; congruence].
      destruct poll_none_retest; simpl; [intros; congruence|]. destruct op; simpl; auto; intros; congruence.
    + unfold pend_exit. destruct (closed sh); simpl; [auto|]. destruct op; simpl; auto; intros; congruence.
Qed.

Lemma InvR_reach raw c ls : InvR (reach raw c ls).
Proof.
  apply reach_ind.
  - intros _ H. simpl in H. discriminate.
  - intros w l I. apply InvR_wstep; assumption.
Qed.
