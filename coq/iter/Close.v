(** Invariants of the consumer / closed flag / reactor part of the iterator model, for every
    schedule (C11; also used by C09). *)
From Coq Require Import List Arith ZArith Bool Lia.
From SH Require Import base.Pool gen.Extracted_iter iter.Model iter.Base.
Import ListNotations.

Definition in_poll (p : cpc) : Prop := p = CP1 \/ p = CP2 \/ p = CP3 \/ p = CP4 \/ p = CP5.

Record InvA (c0 : nat) (w : world) : Prop := {
  a_cap : cap (w_sh w) = c0;
  a_cw : closew (w_sh w) = true -> closed (w_sh w) = true;
  a_arm : armed (w_sh w) = true -> pipe (w_sh w) = 0;
  a_wait : cop (w_co w) = OPoll -> cb_last (w_co w) = Some false -> armed (w_sh w) = true \/ notified (w_sh w) = true;
  a_p5 : cpc_ (w_co w) = CP5 -> cb_last (w_co w) = Some false \/ closed (w_sh w) = true;
  a_pend : cpc_ (w_co w) = CIdle -> cres_ (w_co w) = RPending -> cb_last (w_co w) = Some false /\ cop (w_co w) = OPoll;
  a_itmax : (cpc_ (w_co w) = CP3 \/ cpc_ (w_co w) = CP4 \/ cpc_ (w_co w) = CP5 \/ (cpc_ (w_co w) = CRead /\ cop (w_co w) = OFNext)
             \/ (cpc_ (w_co w) = CIdle /\ cres_ (w_co w) = RPending)) -> MAX_SIGNUM <= itpos (w_co w);
  a_nit : cop (w_co w) = OPending \/ cop (w_co w) = OWait -> cit (w_co w) = None;
  a_read : cpc_ (w_co w) = CRead -> cop (w_co w) = OWait \/ cop (w_co w) = OFNext;
  a_wcl : cpc_ (w_co w) = CWClosed -> cop (w_co w) = OWait;
  a_pollop : in_poll (cpc_ (w_co w)) -> cop (w_co w) = OFNext \/ cop (w_co w) = OPoll;
  a_p4 : cpc_ (w_co w) = CP4 -> cop (w_co w) = OPoll;
  a_u1 : closew (w_sh w) = true -> cpc_ (w_co w) = CRead \/ cpc_ (w_co w) = CP4 -> 0 < pipe (w_sh w);
  a_u2 : closew (w_sh w) = true -> cop (w_co w) = OPoll -> cb_last (w_co w) = Some false -> notified (w_sh w) = true;
  a_k1 : forall k, nth_error (w_fr w) k = Some (mkFrame FK F1) -> closed (w_sh w) = true
}.

Lemma InvA_init raw c : InvA c (w_init raw c).
Proof.
  constructor; simpl; unfold in_poll; intros; try congruence; try lia;
    repeat match goal with H : _ \/ _ |- _ => destruct H end; try congruence;
    repeat match goal with H : _ /\ _ |- _ => destruct H end; try congruence.
  destruct k; discriminate.
Qed.

Ltac splitor :=
  repeat match goal with
         | H : _ \/ _ |- _ => destruct H
         | H : _ /\ _ |- _ => destruct H
         end.

Ltac fin := unfold in_poll, itpos, scan_pc in *; simpl in *; intros; splitor; subst;
            try congruence; try lia; try discriminate; auto.

(** do_wake: the byte goes in unless the pipe is full; either way the pipe is not empty afterwards. *)
Lemma do_wake_spec s : 1 <= cap s ->
  let s' := do_wake s in
  0 < pipe s' /\ cap s' = cap s /\ closed s' = closed s /\ closew s' = closew s /\ slot s' = slot s /\ watch s' = watch s /\
  exraw s' = exraw s /\ begun s' = begun s /\ nstored s' = nstored s /\ stlog s' = stlog s /\ ylog s' = ylog s /\ idsm s' = idsm s /\
  ((armed s = true -> pipe s = 0) -> armed s' = true -> pipe s' = 0) /\
  (armed s = true -> pipe s = 0 -> notified s' = true) /\
  (notified s = true -> notified s' = true) /\
  (armed s' = true -> armed s = true).
Proof.
  intro Hc. unfold do_wake. destruct (pipe s <? cap s) eqn:E.
  - destruct (armed s) eqn:Ea; simpl; repeat split; intros; try congruence; try lia.
  - apply Nat.ltb_ge in E. simpl. repeat split; intros; try congruence; try lia; auto.
Qed.

Lemma InvA_frame c0 w k f : 1 <= c0 -> InvA c0 w -> nth_error (w_fr w) k = Some f ->
  InvA c0 (let '(s, f', es) := fstep (w_sh w) f in mkW s (w_co w) (w_bats w) (w_gone w) (upd (w_fr w) k f')).
Proof.
  intros Hc I Hk. pose proof (a_k1 _ _ I) as K1. destruct I. destruct w as [sh co bats gone fr]. simpl in *.
  assert (KU : forall f' s', (pc f' = F1 -> fk f' = FK -> closed s' = true) -> (closed sh = true -> closed s' = true) ->
               forall j, nth_error (upd fr k f') j = Some (mkFrame FK F1) -> closed s' = true).
  { intros f' s' H1 H2 j Hj. apply nth_upd_cases in Hj. destruct Hj as [(_ & _ & E)|(_ & E)].
    - subst f'. apply H1; reflexivity.
    - apply H2. eapply K1; eauto. }
  destruct f as [[sg info| |sg] p]; destruct p; unfold fstep; simpl.
  - (* handler store *)
    unfold do_store. destruct (exraw sh); [destruct (length (slot sh sg) <? CHAN_SLOTS)|]; constructor; simpl; auto;
      apply KU; simpl; auto; congruence.
  - (* handler wake *)
    pose proof (do_wake_spec sh ltac:(lia)) as W. simpl in W.
    destruct W as (W1 & W2 & W3 & W4 & W5 & W6 & W7 & W8 & W9 & W10 & W11 & W12 & W13 & W14 & W15 & W16).
    constructor; simpl; try rewrite W2; try rewrite W3; try rewrite W4; auto; intros; try lia.
    + specialize (a_wait0 H H0). destruct a_wait0 as [A|A]; right; auto.
    + eapply KU; eauto; simpl; try congruence; try (rewrite W3; auto).
  - constructor; simpl; auto. apply KU; simpl; auto; congruence.
  - constructor; simpl; auto. apply KU; simpl; auto; congruence.
  - (* close store *)
    constructor; simpl; auto; intros; try congruence.
  - (* close wake *)
    pose proof (do_wake_spec sh ltac:(lia)) as W. simpl in W.
    destruct W as (W1 & W2 & W3 & W4 & W5 & W6 & W7 & W8 & W9 & W10 & W11 & W12 & W13 & W14 & W15 & W16).
    assert (Cl : closed sh = true) by (eapply K1; eauto).
    constructor; simpl; try rewrite W2; try rewrite W3; try rewrite W4; auto; intros; try lia.
    + specialize (a_wait0 H H0). destruct a_wait0 as [A|A]; right; auto.
    + specialize (a_wait0 H0 H1). destruct a_wait0 as [A|A]; auto.
    + eapply KU; eauto; simpl; try congruence; try (rewrite W3; auto).
  - constructor; simpl; auto. apply KU; simpl; auto; congruence.
  - constructor; simpl; auto. apply KU; simpl; auto; congruence.
  - (* add lock *)
    destruct (idsm sh); [constructor; simpl; auto; apply KU; simpl; auto; congruence|].
    destruct (watch sh sg); constructor; simpl; auto; apply KU; simpl; auto; congruence.
  - constructor; simpl; auto; apply KU; simpl; auto; congruence.
  - constructor; simpl; auto; apply KU; simpl; auto; congruence.
  - constructor; simpl; auto; apply KU; simpl; auto; congruence.
Qed.
