(** The asynchronous adapters (signal-hook-tokio, signal-hook-async-std) on top of the iterator
    model (C11).  Both wrap an OwningSignalIterator built once in the constructor; their
    Stream::poll_next makes ONE call of poll_signal with the callback
    [|read| Self::has_signals(read, ctx)] and maps the PollResult to a Poll value; has_signals is
    one [poll_read] of one byte whose Poll result is mapped to Result<bool>.  Both mappings are
    DATA extracted from the adapters' sources (gen/Extracted_iter.v: [*_poll_map], [*_cb_map]);
    this file interprets them.

    The runtime's reactor is not modelled beyond its contract, which is a Section hypothesis:
    [poll_read] on the read end of the self-pipe, whose write end is open, either reads one byte
    (Ready(Ok)) or - nothing being readable - returns Pending after having registered the
    task's waker for readability of the read end (the [armed] bit of iter/Model.v). *)
From Coq Require Import List Arith ZArith Bool Lia String.
From SH Require Import base.Pool gen.Extracted_iter iter.Model iter.Base iter.Close.
Import ListNotations.
Local Open Scope list_scope.

(** ---- interpretation of the extracted maps ---- *)
Inductive apoll := AReadySome | AReadyNone | APending | APanic | AUnknown.

Fixpoint lookup (k : string) (m : list (string * string)) : option string :=
  match m with
  | [] => None
  | (a, b) :: r => if String.eqb a k then Some b else lookup k r
  end.

Definition dec_poll (v : option string) : apoll :=
  match v with
  | Some v => if String.eqb v "Ready(Some)" then AReadySome
              else if String.eqb v "Ready(None)" then AReadyNone
              else if String.eqb v "Pending" then APending
              else if String.eqb v "panic" then APanic else AUnknown
  | None => AUnknown
  end.

(** what Stream::poll_next returns for the result of its one poll_signal call *)
Definition poll_of (m : list (string * string)) (r : cres) : apoll :=
  match r with
  | RSignal _ _ => dec_poll (lookup "Signal" m)
  | RClosed => dec_poll (lookup "Closed" m)
  | RPending => dec_poll (lookup "Pending" m)
  | _ => AUnknown
  end.

(** results of the reactor's poll_read of one byte: Pending, Ready(Ok(n bytes)), Ready(Err) *)
Inductive rres := RdPending | RdReady (n : nat) | RdErr.

(** what the adapter's has_signals answers: Some b = Ok(b), None = Err / unknown shape *)
Definition cb_answer (m : list (string * string)) (r : rres) : option bool :=
  match r with
  | RdPending => match lookup "Pending" m with
                 | Some v => if String.eqb v "Ok(false)" then Some false else if String.eqb v "Ok(true)" then Some true else None
                 | None => None
                 end
  | RdReady n => match lookup "Ready(Ok)" m with
                 | Some v => if String.eqb v "Ok(true)" then Some true
                             else if String.eqb v "Ok(n>0)" then Some (Nat.ltb 0 n)
                             else if String.eqb v "Ok(false)" then Some false else None
                 | None => None
                 end
  | RdErr => None
  end.

(** ---- what the two adapters' sources say (regenerated on every run) ---- *)
Lemma tokio_maps_ok :
  tokio_poll_map = [("Signal", "Ready(Some)"); ("Closed", "Ready(None)"); ("Pending", "Pending"); ("Err", "panic")]%string /\
  tokio_cb_map = [("Pending", "Ok(false)"); ("Ready(Ok)", "Ok(true)"); ("Ready(Err)", "Err")]%string /\
  tokio_poll_signal_calls = 1 /\ tokio_poll_read_calls = 1 /\ tokio_iterator_built_in_constructor = 1.
Proof. repeat split; reflexivity. Qed.

Lemma asyncstd_maps_ok :
  asyncstd_poll_map = [("Signal", "Ready(Some)"); ("Closed", "Ready(None)"); ("Pending", "Pending"); ("Err", "panic")]%string /\
  asyncstd_cb_map = [("Pending", "Ok(false)"); ("Ready(Ok)", "Ok(n>0)"); ("Ready(Err)", "Err")]%string /\
  asyncstd_poll_signal_calls = 1 /\ asyncstd_poll_read_calls = 1 /\ asyncstd_iterator_built_in_constructor = 1.
Proof. repeat split; reflexivity. Qed.

(** The properties of a pair of maps the theorems need; both adapters have them (by computation
    on the extracted data, so a changed arm in an adapter breaks the lemma below). *)
Record good_adapter (pm cm : list (string * string)) : Prop := {
  g_signal : forall s v, poll_of pm (RSignal s v) = AReadySome;
  g_closed : poll_of pm RClosed = AReadyNone;
  g_pending : poll_of pm RPending = APending;
  g_only_pending : forall r, poll_of pm r = APending -> r = RPending;
  g_cb_pending : cb_answer cm RdPending = Some false;
  g_cb_byte : cb_answer cm (RdReady 1) = Some true
}.

Lemma tokio_good : good_adapter tokio_poll_map tokio_cb_map.
Proof.
  constructor; try reflexivity.
  intros r H. destruct r; try reflexivity; vm_compute in H; discriminate.
Qed.

Lemma asyncstd_good : good_adapter asyncstd_poll_map asyncstd_cb_map.
Proof.
  constructor; try reflexivity.
  intros r H. destruct r; try reflexivity; vm_compute in H; discriminate.
Qed.

(** The difference between the two, stated because it is in the sources: on Ready(Ok(0 bytes))
    (end of file: the write end is gone) tokio's has_signals answers true and async-std's false.
    The write end lives as long as the instance (its Handle owns it), so the contract below
    excludes that result. *)
Lemma eof_answers : cb_answer tokio_cb_map (RdReady 0) = Some true /\ cb_answer asyncstd_cb_map (RdReady 0) = Some false.
Proof. split; reflexivity. Qed.

Section Reactor.
(** poll_read of the runtime, on the read end of the self-pipe, as a state transformer *)
Variable poll_read : shared -> rres * shared.
(** CONTRACT (assumption about tokio's / async-io's reactor, not proved here): nothing readable
    => Pending, and the task's waker has been registered for readability of the read end;
    a byte readable => it is read. *)
Hypothesis pr_empty : forall s, pipe s = 0 -> poll_read s = (RdPending, set_pipe s 0 true (notified s)).
Hypothesis pr_byte : forall s p, pipe s = S p -> poll_read s = (RdReady 1, set_pipe s p (armed s) (notified s)).

(** the adapter's callback = the extracted map applied to poll_read *)
Definition adapter_cb (cm : list (string * string)) (s : shared) : option bool * shared :=
  let '(r, s') := poll_read s in (cb_answer cm r, s').

(** what the [CP4] step of iter/Model.v does with the shared state, and the answer it records *)
Definition cp4_cb (s : shared) : option bool * shared :=
  match pipe s with
  | O => (Some false, set_pipe s 0 true (notified s))
  | S p => (Some true, set_pipe s p (armed s) (notified s))
  end.

Lemma adapter_cb_is_model pm cm : good_adapter pm cm -> forall s, adapter_cb cm s = cp4_cb s.
Proof.
  intros G s. unfold adapter_cb, cp4_cb. destruct (pipe s) as [|p] eqn:E.
  - rewrite (pr_empty s E). rewrite (g_cb_pending _ _ G). reflexivity.
  - rewrite (pr_byte s p E). rewrite (g_cb_byte _ _ G). reflexivity.
Qed.

(** the model's callback step is exactly that *)
Lemma model_cp4_is_cb s c b ch : cpc_ c = CP4 ->
  let '(s', c', _, _) := cstep s c b ch in s' = snd (cp4_cb s) /\ cb_last c' = fst (cp4_cb s) /\ ncb c' = S (ncb c).
Proof.
  intro H. unfold cstep, cp4_cb. rewrite H. destruct (pipe s); simpl.
  - unfold none_exit, pend_exit. destruct poll_none_retest; [|destruct (cop c)]; simpl; auto.
  - auto.
Qed.

(** an answer "nothing available" of the adapter's callback means: poll_read was polled, returned
    Pending, and the waker is registered *)
Lemma cb_false_means_registered pm cm : good_adapter pm cm ->
  forall s, fst (adapter_cb cm s) = Some false ->
  fst (poll_read s) = RdPending /\ armed (snd (poll_read s)) = true.
Proof.
  intros G s H. rewrite (adapter_cb_is_model pm cm G) in H. unfold cp4_cb in H.
  destruct (pipe s) as [|p] eqn:E; simpl in H; [|discriminate].
  rewrite (pr_empty s E). simpl. auto.
Qed.

(** ---- Stream::poll_next = the poll map applied to the result of the one poll_signal call ---- *)
Definition adapter_poll_next (pm : list (string * string)) (w : world) : apoll := poll_of pm (cres_ (w_co w)).

Theorem adapter_pending_means_waker_registered pm cm raw c ls : good_adapter pm cm -> 1 <= c ->
  let w := reach raw c ls in
  cpc_ (w_co w) = CIdle -> adapter_poll_next pm w = APending ->
  cop (w_co w) = OPoll /\
  (* in this very call the callback was consulted, and its last answer was "nothing available" ... *)
  1 <= ncb (w_co w) /\ cb_last (w_co w) = Some false /\
  (* ... which for this adapter means poll_read returned Pending and registered the waker ... *)
  (forall s, fst (adapter_cb cm s) = Some false -> fst (poll_read s) = RdPending /\ armed (snd (poll_read s)) = true) /\
  (* ... and the registration is still there, or has fired and is outstanding *)
  (armed (w_sh w) = true \/ notified (w_sh w) = true).
Proof.
  intros G Hc w Hi Hp. unfold adapter_poll_next in Hp. apply (g_only_pending _ _ G) in Hp.
  destruct (pending_means_armed raw c ls Hc Hi Hp) as (H1 & H2 & H3 & H4).
  repeat split; auto; apply (cb_false_means_registered pm cm G); auto.
Qed.

(** After close() has returned: a poll_next in progress is back within MAX_SIGNUM + 3 steps of the
    polling task and does not answer Poll::Pending (nor panic); one started once the flag is set
    answers Ready(None) at its first step: the stream ends; and a task parked on an earlier
    Poll::Pending has its wake-up outstanding (so it will poll again). *)
Theorem adapter_closed_ends_stream pm cm raw c ls : good_adapter pm cm -> 1 <= c ->
  let w := reach raw c ls in
  closew (w_sh w) = true ->
  (cop (w_co w) = OPoll -> cpc_ (w_co w) <> CIdle ->
     exists n, 1 <= n /\ n <= MAX_SIGNUM + 3 /\ cpc_ (w_co (csolo n w)) = CIdle /\
               (adapter_poll_next pm (csolo n w) = AReadyNone \/ adapter_poll_next pm (csolo n w) = AReadySome)) /\
  (cpc_ (w_co w) = CP1 -> cpc_ (w_co (cstep_w w)) = CIdle /\ adapter_poll_next pm (cstep_w w) = AReadyNone) /\
  (cpc_ (w_co w) = CIdle -> adapter_poll_next pm w = APending -> notified (w_sh w) = true).
Proof.
  intros G Hc w Hw. split; [|split].
  - intros Hop Hn. destruct (unblocks raw c ls Hc Hw) as (n & Hb & Hi & Hr). fold w in Hi, Hr.
    destruct n as [|n]; [simpl in Hi; congruence|]. destruct Hr as [Hr|Hr]; [discriminate|].
    exists (S n). split; [lia|]. split; [exact Hb|]. split; [exact Hi|].
    (* the call that returns is the poll_signal call: its result is Signal, Closed or Pending *)
    destruct (csolo_reach raw c ls (S n)) as [l' E]. fold w in E.
    pose proof (InvR_reach raw c (ls ++ l')) as R. rewrite <- E in R.
    assert (Hop' : cop (w_co (csolo (S n) w)) = OPoll) by (rewrite csolo_cop; exact Hop).
    destruct (R Hi Hop') as [Hx|[Hx|[s [v Hx]]]]; unfold adapter_poll_next; rewrite Hx in *.
    + congruence.
    + left. apply (g_closed _ _ G).
    + right. apply (g_signal _ _ G).
  - intro H1. pose proof (a_cw _ _ (InvA_reach raw c ls Hc) Hw) as Hcl. fold w in Hcl.
    destruct (forever_ends w Hcl H1) as [Hi Hr]. split; auto. unfold adapter_poll_next. rewrite Hr. apply (g_closed _ _ G).
  - intros Hi Hp. unfold adapter_poll_next in Hp. apply (g_only_pending _ _ G) in Hp.
    exact (close_notifies_parked raw c ls Hc Hw Hi Hp).
Qed.

End Reactor.
