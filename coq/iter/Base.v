(** Generic facts about runs of the iterator model. *)
From Coq Require Import List Arith ZArith Bool Lia.
From SH Require Import base.Pool gen.Extracted_iter iter.Model.
Import ListNotations.

Lemma run_app w l1 l2 :
  run w (l1 ++ l2) = let '(w1, e1) := run w l1 in let '(w2, e2) := run w1 l2 in (w2, e1 ++ e2).
Proof.
  revert w; induction l1 as [|l r IH]; intro w; simpl.
  - destruct (run w l2); reflexivity.
  - destruct (wstep w l) as [w1 e1]. rewrite IH. destruct (run w1 r) as [w2 e2].
    destruct (run w2 l2) as [w3 e3]. rewrite app_assoc. reflexivity.
Qed.

Lemma run_snoc w ls l : fst (run w (ls ++ [l])) = fst (wstep (fst (run w ls)) l).
Proof.
  rewrite run_app. destruct (run w ls) as [w1 e1]. simpl.
  destruct (wstep w1 l) as [w2 e2]. reflexivity.
Qed.

(** Induction principle over reachable worlds: every label list is a schedule. *)
Lemma reach_ind (P : world -> Prop) raw c :
  P (w_init raw c) -> (forall w l, P w -> P (fst (wstep w l))) -> forall ls, P (reach raw c ls).
Proof.
  intros H0 Hs ls. unfold reach. induction ls as [|l r IH] using rev_ind.
  - exact H0.
  - rewrite run_snoc. apply Hs. exact IH.
Qed.

Lemma reach_snoc raw c ls l : reach raw c (ls ++ [l]) = fst (wstep (reach raw c ls) l).
Proof. unfold reach. apply run_snoc. Qed.

Lemma reach_app raw c l1 l2 : reach raw c (l1 ++ l2) = fst (run (reach raw c l1) l2).
Proof.
  unfold reach. rewrite run_app. destruct (run (w_init raw c) l1) as [w1 e1]. simpl.
  destruct (run w1 l2); reflexivity.
Qed.

Lemma fupd_eq {A} (f : nat -> A) k v : fupd f k v k = v.
Proof. unfold fupd. rewrite Nat.eqb_refl. reflexivity. Qed.
Lemma fupd_neq {A} (f : nat -> A) k j v : j <> k -> fupd f k v j = f j.
Proof. intro H. unfold fupd. destruct (Nat.eqb_spec j k); congruence. Qed.

