(** Executable entry point of the iterator model for the lock-step correspondence
    (harness/src/bin/ls_iter.rs, lib/ls_iter.py).

    Input (integers):
      exraw cap  nsetup sig*  nacts (kind a b)*  nscript (op arg)*  nsched act*
    activity kinds: 1 delivery of signal a with record b, 2 the consumer (runs the script),
    3 close(), 4 add_signal(a), 5 a SCANNER: another thread draining the a-th of the batches handed out
    during set-up (one pending() call per scanner before the schedule starts; a [Pending] is an owned,
    sendable value, so batches of one instance can be walked by several threads at once; the consumer's
    own batches are numbered after them).  Script ops: 1 pending, 2 wait, 3 forever (SignalIterator::new),
    4 Forever::next, 5 poll_signal with the non-blocking callback, 6 one next() on the arg-th
    handed-out batch, 7 drain the arg-th handed-out batch.
    The schedule is the sequence of activities that performed a synchronisation operation in
    the implementation's run (one entry = one step of that activity here).

    Output: 6 integers per event (activity, op, location, argument, result, ok), then -1 and one
    flag per activity (1 finished, 0 unfinished, 2 never started).
    Locations: 1 closed flag, 2 pipe write end, 3 pipe read end, 4 the ids mutex, 5 registry
    publish, 100+s slot s.  Operations: 0 load, 1 store, 2 swap, 5 compare_exchange, 6 lock,
    7 unlock, 15 system call (arg 1 wake, 2 drain, 3 blocking read), 24 blocked read,
    36 the callback's scheduling point; notes (not steps): 30 call begins (arg = script op),
    31 callback answer, 32 call returns (arg 1 batch, 2 iterator, 3 signal res, 4 pending,
    5 closed), 33 next()/drain of a batch begins, 34 next() returned (arg 1 = Some res). *)
From Coq Require Import List Arith ZArith Bool.
From SH Require Import base.Pool gen.Extracted_iter iter.Model.
Import ListNotations.
Local Open Scope Z_scope.

Inductive amode := MIdle | MCall | MBNext (k : nat) | MBDrain (k : nat).

Record rstate := mkR {
  r_w : world;
  r_idx : list (option nat);     (* pool index of each activity once spawned *)
  r_script : list (Z * Z);
  r_mode : amode
}.

Fixpoint take3 (n : nat) (l : list Z) : list (Z * Z * Z) * list Z :=
  match n with
  | O => ([], l)
  | S n' => match l with
            | a :: b :: c :: r => let '(x, rest) := take3 n' r in ((a, b, c) :: x, rest)
            | _ => ([], [])
            end
  end.
Fixpoint take2 (n : nat) (l : list Z) : list (Z * Z) * list Z :=
  match n with
  | O => ([], l)
  | S n' => match l with
            | a :: b :: r => let '(x, rest) := take2 n' r in ((a, b) :: x, rest)
            | _ => ([], [])
            end
  end.

Definition tag (a : nat) (es : list ev) : list (nat * ev) := map (fun e => (a, e)) es.

Definition opk_of (z : Z) : copk :=
  if z =? 1 then OPending else if z =? 2 then OWait else if z =? 3 then OForever else if z =? 4 then OFNext else OPoll.

Definition bat_done (w : world) (k : nat) : bool :=
  match nth_error (w_bats w) k with Some p => negb (p <? MAX_SIGNUM)%nat | None => true end.

(** start script ops until one has a synchronisation operation pending *)
Fixpoint settle (fuel : nat) (a : nat) (st : rstate) : rstate * list (nat * ev) :=
  match fuel with
  | O => (st, [])
  | S n =>
      match r_mode st, r_script st with
      | MIdle, (op, arg) :: rest =>
          if op <=? 5 then
            let '(w', es) := wstep (r_w st) (LCall (opk_of op)) in
            match es with
            | [] => let '(st2, e2) := settle n a (mkR w' (r_idx st) rest MIdle) in (st2, (a, mkEv 96 0 op 0 0) :: e2)
            | _ => (mkR w' (r_idx st) rest MCall, tag a es)
            end
          else
            let k := Z.to_nat arg in
            let e0 := (a, mkEv 33 0 (if op =? 6 then arg else 1000 + arg) 0 1) in
            if bat_done (r_w st) k
            then let '(st2, e2) := settle n a (mkR (r_w st) (r_idx st) rest MIdle) in (st2, e0 :: (a, mkEv 34 0 0 0 1) :: e2)
            else (mkR (r_w st) (r_idx st) rest (if op =? 6 then MBNext k else MBDrain k), [e0])
      | _, _ => (st, [])
      end
  end.

Definition yielded_of (es : list ev) : option Z :=
  match es with
  | e :: _ => if (e_op e =? 5) && (e_ok e =? 1) then Some (e_res e) else None
  | [] => None
  end.

Definition cons_step (a : nat) (st : rstate) : rstate * list (nat * ev) :=
  let '(st1, e1) := settle 50 a st in
  let '(st2, e2) :=
    match r_mode st1 with
    | MIdle => (st1, [])
    | MCall =>
        let '(w', es) := wstep (r_w st1) (LCons 0) in
        (mkR w' (r_idx st1) (r_script st1) (match cpc_ (w_co w') with CIdle => MIdle | _ => MCall end), tag a es)
    | MBNext k =>
        let '(w', es) := wstep (r_w st1) (LBatch k) in
        let yv := match es with e :: _ => if (e_ok e =? 1) then Some (zn (Z.to_nat (e_loc e - 100))) else None | [] => None end in
        match es with
        | e :: _ =>
            if e_ok e =? 1 then (mkR w' (r_idx st1) (r_script st1) MIdle, tag a es ++ [(a, mkEv 34 0 1 (e_loc e - 100) 1)])
            else if bat_done w' k then (mkR w' (r_idx st1) (r_script st1) MIdle, tag a es ++ [(a, mkEv 34 0 0 0 1)])
            else (mkR w' (r_idx st1) (r_script st1) (MBNext k), tag a es)
        | [] => (mkR w' (r_idx st1) (r_script st1) MIdle, [])
        end
    | MBDrain k =>
        let '(w', es) := wstep (r_w st1) (LBatch k) in
        match es with
        | e :: _ =>
            if e_ok e =? 1 then (mkR w' (r_idx st1) (r_script st1) (MBDrain k), tag a es ++ [(a, mkEv 34 0 1 (e_loc e - 100) 1)])
            else if bat_done w' k then (mkR w' (r_idx st1) (r_script st1) MIdle, tag a es ++ [(a, mkEv 34 0 0 0 1)])
            else (mkR w' (r_idx st1) (r_script st1) (MBDrain k), tag a es)
        | [] => (mkR w' (r_idx st1) (r_script st1) MIdle, [])
        end
    end in
  let '(st3, e3) := settle 50 a st2 in
  (st3, e1 ++ e2 ++ e3).

Definition pool_step (a : nat) (spawn : label) (st : rstate) : rstate * list (nat * ev) :=
  match nth_error (r_idx st) a with
  | Some (Some k) =>
      let '(w', es) := wstep (r_w st) (LStep k) in (mkR w' (r_idx st) (r_script st) (r_mode st), tag a es)
  | Some None =>
      let n := length (w_fr (r_w st)) in
      let '(w1, _) := wstep (r_w st) spawn in
      if (length (w_fr w1) =? S n)%nat then
        let '(w2, es) := wstep w1 (LStep n) in
        (mkR w2 (upd (r_idx st) a (Some n)) (r_script st) (r_mode st), tag a es)
      else (st, [(a, mkEv 97 0 0 0 0)])
  | None => (st, [])
  end.

(** One load of a scanner draining set-up batch [k]; [r_idx] of the activity records that it has started. *)
Definition scan_step (a k : nat) (st : rstate) : rstate * list (nat * ev) :=
  let started := match nth_error (r_idx st) a with Some (Some _) => true | _ => false end in
  let st0 := if started then st else mkR (r_w st) (upd (r_idx st) a (Some 0%nat)) (r_script st) (r_mode st) in
  let e0 := if started then [] else [(a, mkEv 33 0 (1000 + Z.of_nat k) 0 1)] in
  if bat_done (r_w st0) k then (st0, e0 ++ (if started then [] else [(a, mkEv 34 0 0 0 1)]))
  else
    let '(w', es) := wstep (r_w st0) (LBatch k) in
    let st1 := mkR w' (r_idx st0) (r_script st0) (r_mode st0) in
    match es with
    | e :: _ =>
        if e_ok e =? 1 then (st1, e0 ++ tag a es ++ [(a, mkEv 34 0 1 (e_loc e - 100) 1)])
        else if bat_done w' k then (st1, e0 ++ tag a es ++ [(a, mkEv 34 0 0 0 1)])
        else (st1, e0 ++ tag a es)
    | [] => (st1, e0)
    end.

Definition step_act (acts : list (Z * Z * Z)) (st : rstate) (a : nat) : rstate * list (nat * ev) :=
  match nth_error acts a with
  | Some (k, x, y) =>
      if k =? 1 then pool_step a (LSpawnH (Z.to_nat x) y) st
      else if k =? 2 then cons_step a st
      else if k =? 3 then pool_step a LSpawnK st
      else if k =? 5 then scan_step a (Z.to_nat x) st
      else pool_step a (LSpawnA (Z.to_nat x)) st
  | None => (st, [])
  end.

Fixpoint run_sched (acts : list (Z * Z * Z)) (st : rstate) (sch : list Z) : rstate * list (nat * ev) :=
  match sch with
  | [] => (st, [])
  | a :: r => let '(st1, e1) := step_act acts st (Z.to_nat a) in
              let '(st2, e2) := run_sched acts st1 r in (st2, e1 ++ e2)
  end.

Fixpoint setup_sigs (w : world) (sigs : list Z) : world :=
  match sigs with
  | [] => w
  | sg :: r =>
      let n := length (w_fr w) in
      let '(w1, _) := wstep w (LSpawnA (Z.to_nat sg)) in
      let '(w2, _) := wstep w1 (LStep n) in
      let '(w3, _) := wstep w2 (LStep n) in
      let '(w4, _) := wstep w3 (LStep n) in
      setup_sigs w4 r
  end.

(** the batches handed out during set-up: one complete pending() call each (nothing delivered yet) *)
Fixpoint setup_bats (n : nat) (w : world) : world :=
  match n with
  | O => w
  | S n' => let '(w1, _) := wstep w (LCall OPending) in
            let '(w2, _) := wstep w1 (LCons 0) in setup_bats n' w2
  end.

Definition fin_flag (st : rstate) (acts : list (Z * Z * Z)) (a : nat) : Z :=
  match nth_error acts a, nth_error (r_idx st) a with
  | Some (k, _, _), Some i =>
      if k =? 2 then (match r_mode st, r_script st with MIdle, [] => 1 | _, _ => 0 end)
      else if k =? 5 then (match nth_error acts a with Some (_, x, _) => if bat_done (r_w st) (Z.to_nat x) then 1 else 0 | None => 0 end)
      else match i with
           | None => 2
           | Some j => match nth_error (w_fr (r_w st)) j with
                       | Some f => match pc f with FDone => 1 | _ => 0 end
                       | None => 0
                       end
           end
  | _, _ => 0
  end.

Definition flat (es : list (nat * ev)) : list Z :=
  flat_map (fun ke => let e := snd ke in [Z.of_nat (fst ke); e_op e; e_loc e; e_arg e; e_res e; e_ok e]) es.

Definition run_iter (inp : list Z) : list Z :=
  match inp with
  | raw :: c :: ns :: r0 =>
      let sigs := firstn (Z.to_nat ns) r0 in
      let r1 := skipn (Z.to_nat ns) r0 in
      match r1 with
      | na :: r2 =>
          let '(acts, r3) := take3 (Z.to_nat na) r2 in
          match r3 with
          | nscr :: r4 =>
              let '(script, r5) := take2 (Z.to_nat nscr) r4 in
              match r5 with
              | nsch :: sch =>
                  let nscan := length (filter (fun t => let '(k, _, _) := t in k =? 5) acts) in
                  let w0 := setup_bats nscan (setup_sigs (w_init (raw =? 1) (Z.to_nat c)) sigs) in
                  let st0 := mkR w0 (map (fun _ => None) acts) script MIdle in
                  let '(st1, es) := run_sched acts st0 (firstn (Z.to_nat nsch) sch) in
                  flat es ++ [-1] ++ map (fin_flag st1 acts) (seq 0 (length acts))
              | _ => [-99]
              end
          | _ => [-99]
          end
      | _ => [-99]
      end
  | _ => [-99]
  end.
