(** Closed forms of the interpreted functions for the skeletons that the translator extracts from
    the CURRENT source, and the skeleton obligations for the parts of the model that are written
    out ([with_pipe], drop order of the owning structs, the Signals API wrappers).

    Everything after this file reasons with the closed forms only.  If the source changes the
    order of operations, the poison policy of a [lock()], the early return of [init], ... the
    generated skeleton changes and the lemmas of THIS file stop checking. *)
From Coq Require Import ZArith List Bool Lia String.
From SH Require Import gen.Extracted_instance instance.Model.
Import ListNotations. Open Scope Z_scope.

(** ** Skeleton obligations (DESIGN 4.1) *)
Lemma skel_with_pipe :
  with_pipe_skel = [WNewPending; WCloneArc; WNewHandle; WBuildMe; WForAddTry; WRetOkMe].
Proof. reflexivity. Qed.

(** fields are dropped in declaration order: the read end goes first, then the object's handle
    (pending, write, delivery_state - whose destructor unregisters; the write end is released by
    the last unregistered action) *)
Lemma skel_drop_order :
  signal_delivery_fields = ["read"; "handle"; "pending"]%string /\
  handle_fields = ["pending"; "write"; "delivery_state"]%string.
Proof. split; reflexivity. Qed.

Lemma skel_api : signals_api_delegates = true.
Proof. reflexivity. Qed.

Lemma table_sizes : ids_table_len = MAX_SIGNUM /\ slots_len = MAX_SIGNUM /\ 0 < MAX_SIGNUM < 2 ^ 31.
Proof. repeat split; reflexivity. Qed.

(** every forbidden signal has a slot in the table (so a forbidden number reaches the registry's
    assert and not the index panic) *)
Lemma forbidden_in_table : forallb (fun s => (0 <=? s) && (s <? MAX_SIGNUM)) forbidden = true.
Proof. reflexivity. Qed.

(** ** [Exfiltrator::init] never panics and leaves the slot initialised iff the exfiltrator has one *)
Definition has_init (e : exfk) : bool := match e with SignalOnly => false | _ => true end.

Lemma init_closed : forall e isinit,
  run_init (exf_init_skel e) isinit false = (false, has_init e || isinit).
Proof. intros [] []; reflexivity. Qed.

Definition init_slot (x : inst) (u : Z) : inst :=
  if has_init (i_exf x) && negb (zmem u (i_inited x)) then set_inited x (u :: i_inited x) else x.

(** ** [Handle::add_signal] *)
Definition registered (gl : glob) (n : Z) : glob :=
  mkGlob (reg gl ++ [(next_id gl, n)]) (S (next_id gl)) (if zmem n (taken gl) then taken gl else n :: taken gl).

Definition add_spec (os : Z -> bool) (gl : glob) (x : inst) (n : Z) : res * glob * inst :=
  if (0 <=? n) && (n <? MAX_SIGNUM) then
    match lookup n (i_ids x) with
    | Some _ => (ROk, gl, x)                                        (* already watched: no-op *)
    | None =>
        let x1 := init_slot x n in
        if zmem n forbidden then (RPanic, gl, set_poisoned x1)      (* the registry's assert *)
        else if os n then (ROk, registered gl n, set_ids x1 ((n, next_id gl) :: i_ids x))
        else (RErr, gl, x1)                                         (* sigaction: EINVAL *)
    end
  else if n <? 0 then
    (* the index expression: a negative c_int becomes 2^64+n >= MAX_SIGNUM (bounds-check panic);
       numbers below -2^63 are not c_ints - the formula is total, nothing more *)
    let u := 2 ^ 64 + n in
    if (0 <=? u) && (u <? MAX_SIGNUM) then
      match lookup u (i_ids x) with
      | Some _ => (ROk, gl, x)
      | None => (RPanic, gl, set_poisoned x)
      end
    else (RPanic, gl, set_poisoned x)
  else (RPanic, gl, set_poisoned x).                                (* n >= MAX_SIGNUM: index panic *)

Lemma lookup_none_filter : forall k l,
  lookup k l = None -> filter (fun e : Z * nat => negb (fst e =? k)) l = l.
Proof.
  induction l as [|[k' v] r IH]; cbn; intros H; [reflexivity|].
  destruct (k' =? k) eqn:E; [discriminate|]. cbn. now rewrite IH.
Qed.

Lemma add_closed : forall os gl x n, add_signal os gl x n = add_spec os gl x n.
Proof.
  intros os gl x n. unfold add_signal, add_spec, handle_add_signal_skel.
  cbn [run_h lock_fails]. unfold as_usize, ids_table_len, MAX_SIGNUM.
  destruct (n <? 0) eqn:Hneg.
  - (* negative *)
    assert (H0 : (0 <=? n) = false) by (apply Z.leb_gt; apply Z.ltb_lt in Hneg; lia).
    rewrite H0. cbn [andb].
    destruct ((0 <=? 2 ^ 64 + n) && (2 ^ 64 + n <? 128)) eqn:Hb; [|reflexivity].
    destruct (lookup (2 ^ 64 + n) (i_ids x)); [reflexivity|].
    unfold pending_add_signal_skel. cbn [run_p]. rewrite Hneg. reflexivity.
  - assert (H0 : (0 <=? n) = true) by (apply Z.leb_le; apply Z.ltb_ge in Hneg; lia).
    rewrite H0. cbn [andb].
    destruct (n <? 128) eqn:Hmax; [|reflexivity].
    destruct (lookup n (i_ids x)) eqn:Hl; [reflexivity|].
    unfold pending_add_signal_skel. cbn [run_p]. rewrite Hneg.
    unfold as_usize, slots_len, MAX_SIGNUM. rewrite Hneg, Hmax, H0. cbn [andb].
    assert (Hs : exf_supports_all (i_exf x) = true) by (destruct (i_exf x); reflexivity).
    rewrite Hs, init_closed.
    assert (Hx : (if (has_init (i_exf x) || zmem n (i_inited x)) && negb (zmem n (i_inited x))
                  then set_inited x (n :: i_inited x) else x) = init_slot x n).
    { unfold init_slot. destruct (has_init (i_exf x)), (zmem n (i_inited x)); reflexivity. }
    rewrite Hx. unfold reg_register.
    destruct (zmem n forbidden); [reflexivity|].
    destruct (os n); [|reflexivity].
    (* assignment and return *)
    cbn [run_h].
    unfold set_key.
    assert (Hi : i_ids (init_slot x n) = i_ids x).
    { unfold init_slot. destruct (has_init (i_exf x) && negb (zmem n (i_inited x))); reflexivity. }
    rewrite Hi, (lookup_none_filter _ _ Hl). reflexivity.
Qed.

(** for every [c_int] outside [0, MAX_SIGNUM) the call panics having changed only the poison flag *)
Lemma add_spec_c_int_out_of_range : forall os gl x n,
  - 2 ^ 31 <= n < 2 ^ 31 -> ~ (0 <= n < MAX_SIGNUM) ->
  add_spec os gl x n = (RPanic, gl, set_poisoned x).
Proof.
  intros os gl x n R H. unfold add_spec, MAX_SIGNUM in *.
  destruct ((0 <=? n) && (n <? 128)) eqn:E.
  - apply andb_prop in E as [E1 E2]. apply Z.leb_le in E1. apply Z.ltb_lt in E2. lia.
  - destruct (n <? 0) eqn:Hn; [|reflexivity].
    apply Z.ltb_lt in Hn.
    assert (E2 : ((0 <=? 2 ^ 64 + n) && (2 ^ 64 + n <? 128)) = false).
    { apply andb_false_iff. right. apply Z.ltb_ge. lia. }
    now rewrite E2.
Qed.

(** ** [DeliveryState::drop] *)
Definition unregister_all (gl : glob) (ids : list nat) : glob :=
  mkGlob (filter (fun e => negb (existsb (Nat.eqb (fst e)) ids)) (reg gl)) (next_id gl) (taken gl).

Lemma filter_filter : forall {A} (f h : A -> bool) l,
  filter f (filter h l) = filter (fun a => h a && f a) l.
Proof.
  induction l as [|a r IH]; cbn; [reflexivity|].
  destruct (h a); cbn; [destruct (f a)|]; now rewrite IH.
Qed.

Lemma fold_unregister : forall ids gl, fold_left reg_unregister ids gl = unregister_all gl ids.
Proof.
  induction ids as [|a r IH]; intros gl; cbn.
  - unfold unregister_all. destruct gl as [rg ni tk]. cbn. f_equal.
    induction rg as [|e rg' IHr]; cbn; [reflexivity|now rewrite <- IHr].
  - rewrite IH. unfold unregister_all, reg_unregister. cbn. f_equal.
    rewrite filter_filter. apply filter_ext. intros e.
    destruct (Nat.eqb (fst e) a); reflexivity.
Qed.

Definition drop_last_spec (gl : glob) (x : inst) : res * glob * inst :=
  if i_alive x || (0 <? i_clones x)%nat then (ROk, gl, x)
  else (ROk, unregister_all gl (map snd (i_ids x)), set_wr_closed x).

Lemma drop_state_closed : forall uw gl x, drop_state_if_last uw gl x = drop_last_spec gl x.
Proof.
  intros. unfold drop_state_if_last, drop_last_spec, delivery_state_drop_skel.
  destruct (i_alive x || (0 <? i_clones x)%nat); [reflexivity|].
  cbn [run_d lock_fails]. now rewrite fold_unregister.
Qed.

Lemma drop_instance_closed : forall uw gl x, drop_instance uw gl x = drop_last_spec gl (set_dropped x).
Proof. intros. unfold drop_instance. apply drop_state_closed. Qed.
