(** The unobservable fields really are unobservable (for the code as extracted): observably equal
    states produce equal outputs forever; a rejected add_signal yields an observably equal state;
    no history aborts; re-adding a watched signal is the identity. *)
From Coq Require Import ZArith List Bool Lia.
From SH Require Import gen.Extracted_instance instance.Model instance.Spec instance.Defs.
Import ListNotations. Open Scope Z_scope.

(** ** lists *)
Lemma nth_upd_eq : forall {A} (l : list A) i a x, nth_error l i = Some x -> nth_error (upd l i a) i = Some a.
Proof. induction l as [|h r IH]; intros [|i] a x H; cbn in *; try discriminate; eauto. Qed.

Lemma nth_upd_neq : forall {A} (l : list A) i j a, i <> j -> nth_error (upd l i a) j = nth_error l j.
Proof.
  induction l as [|h r IH]; intros [|i] [|j] a H; cbn; try reflexivity; try congruence.
  apply IH. congruence.
Qed.

Lemma nth_upd_cases : forall {A} (l : list A) i j a y,
  nth_error (upd l i a) j = Some y ->
  (j = i /\ y = a /\ exists x, nth_error l i = Some x) \/ (j <> i /\ nth_error l j = Some y).
Proof.
  intros A l i j a y H. destruct (Nat.eq_dec j i) as [->|N].
  - left. destruct (nth_error l i) eqn:E.
    + rewrite (nth_upd_eq _ _ _ _ E) in H. inversion H. eauto.
    + exfalso. revert i H E. induction l as [|h r IH]; intros [|i] H E; cbn in *; try discriminate. eauto.
  - right. split; [assumption|]. rewrite nth_upd_neq in H by congruence. assumption.
Qed.

Lemma upd_same : forall {A} (l : list A) i x, nth_error l i = Some x -> upd l i x = l.
Proof.
  induction l as [|h r IH]; intros [|i] x H; cbn in *; try discriminate.
  - now inversion H.
  - f_equal. now apply IH.
Qed.

Lemma upd_app_last : forall {A} (l : list A) a b, upd (l ++ [a]) (length l) b = l ++ [b].
Proof. induction l as [|h r IH]; intros; cbn; [reflexivity|now rewrite IH]. Qed.

Lemma remove_nth_app : forall {A} (a : list A) x b, remove_nth (length a) (a ++ x :: b) = a ++ b.
Proof. induction a as [|h r IH]; intros; cbn; [reflexivity|now rewrite IH]. Qed.

Lemma Forall2_nth : forall {A} (R : A -> A -> Prop) l l' i,
  Forall2 R l l' ->
  match nth_error l i, nth_error l' i with
  | Some x, Some y => R x y
  | None, None => True
  | _, _ => False
  end.
Proof.
  intros A R l l' i H. revert i. induction H; intros [|i]; cbn; auto. apply IHForall2.
Qed.

Lemma Forall2_upd : forall {A} (R : A -> A -> Prop) l l' i a b,
  Forall2 R l l' -> R a b -> Forall2 R (upd l i a) (upd l' i b).
Proof.
  intros A R l l' i a b H Hab. revert i. induction H; intros [|i]; cbn; constructor; auto.
Qed.

Lemma Forall2_refl : forall {A} (R : A -> A -> Prop) l, (forall a, R a a) -> Forall2 R l l.
Proof. induction l; constructor; auto. Qed.

(** ** [inst_eq] *)
Lemma inst_eq_refl : forall x, inst_eq x x.
Proof. unfold inst_eq; intuition. Qed.
Lemma inst_eq_sym : forall x y, inst_eq x y -> inst_eq y x.
Proof. unfold inst_eq; intuition. Qed.
Lemma inst_eq_trans : forall x y z, inst_eq x y -> inst_eq y z -> inst_eq x z.
Proof. unfold inst_eq; intuition congruence. Qed.
Lemma inst_eq_poisoned : forall x, inst_eq (set_poisoned x) x.
Proof. unfold inst_eq; cbn; intuition. Qed.
Lemma inst_eq_init_slot : forall x u, inst_eq (init_slot x u) x.
Proof. intros. unfold init_slot. destruct (_ && _); unfold inst_eq; cbn; intuition. Qed.
Lemma inst_eq_set_ids : forall x y l, inst_eq x y -> inst_eq (set_ids x l) (set_ids y l).
Proof. unfold inst_eq; cbn; intuition. Qed.
Lemma inst_eq_set_clones : forall x y c, inst_eq x y -> inst_eq (set_clones x c) (set_clones y c).
Proof. unfold inst_eq; cbn; intuition. Qed.
Lemma inst_eq_set_dropped : forall x y, inst_eq x y -> inst_eq (set_dropped x) (set_dropped y).
Proof. unfold inst_eq; cbn; intuition congruence. Qed.
Lemma inst_eq_set_wr_closed : forall x y, inst_eq x y -> inst_eq (set_wr_closed x) (set_wr_closed y).
Proof. unfold inst_eq; cbn; intuition congruence. Qed.

Lemma obs_eq_refl : forall s, obs_eq s s.
Proof. intros; repeat split. apply Forall2_refl, inst_eq_refl. Qed.

(** ** the functions of the model respect [inst_eq] *)
Lemma add_spec_inst_eq : forall os gl x y n, inst_eq x y ->
  fst (fst (add_spec os gl x n)) = fst (fst (add_spec os gl y n)) /\
  snd (fst (add_spec os gl x n)) = snd (fst (add_spec os gl y n)) /\
  inst_eq (snd (add_spec os gl x n)) (snd (add_spec os gl y n)).
Proof.
  intros os gl x y n E. unfold add_spec.
  assert (Eids : i_ids x = i_ids y) by apply E. rewrite Eids.
  assert (P : inst_eq (set_poisoned x) (set_poisoned y)).
  { eapply inst_eq_trans; [apply inst_eq_poisoned|]. eapply inst_eq_trans; [exact E|]. apply inst_eq_sym, inst_eq_poisoned. }
  assert (I : inst_eq (init_slot x n) (init_slot y n)).
  { eapply inst_eq_trans; [apply inst_eq_init_slot|]. eapply inst_eq_trans; [exact E|]. apply inst_eq_sym, inst_eq_init_slot. }
  assert (PI : inst_eq (set_poisoned (init_slot x n)) (set_poisoned (init_slot y n))).
  { eapply inst_eq_trans; [apply inst_eq_poisoned|]. eapply inst_eq_trans; [exact I|]. apply inst_eq_sym, inst_eq_poisoned. }
  destruct ((0 <=? n) && (n <? MAX_SIGNUM)).
  - destruct (lookup n (i_ids y)); [cbn; auto|].
    destruct (zmem n forbidden); [cbn; auto|].
    destruct (os n); cbn; [|auto].
    split; [reflexivity|split; [reflexivity|]]. now apply inst_eq_set_ids.
  - destruct (n <? 0); [|cbn; auto].
    destruct ((0 <=? 2 ^ 64 + n) && (2 ^ 64 + n <? MAX_SIGNUM)); [|cbn; auto].
    destruct (lookup (2 ^ 64 + n) (i_ids y)); cbn; auto.
Qed.

Lemma drop_last_spec_inst_eq : forall gl x y, inst_eq x y ->
  fst (fst (drop_last_spec gl x)) = fst (fst (drop_last_spec gl y)) /\
  snd (fst (drop_last_spec gl x)) = snd (fst (drop_last_spec gl y)) /\
  inst_eq (snd (drop_last_spec gl x)) (snd (drop_last_spec gl y)).
Proof.
  intros gl x y E. unfold drop_last_spec.
  destruct E as (E1 & E2 & E3 & E4 & E5 & E6). rewrite E2, E3, E4.
  destruct (i_alive y || (0 <? i_clones y)%nat); cbn; (split; [reflexivity|split; [try reflexivity|]]);
    unfold inst_eq; cbn; intuition congruence.
Qed.

Lemma usable_inst_eq : forall x y v, inst_eq x y -> usable x v = usable y v.
Proof. intros x y v (E1 & E2 & E3 & E4 & _). unfold usable. now rewrite E3, E4. Qed.

Lemma ran_inst_eq : forall gl x y s, inst_eq x y -> ran gl x s = ran gl y s.
Proof. intros gl x y s (E1 & E2 & _). unfold ran. now rewrite E2. Qed.

Lemma deliver_obs_eq : forall gl l l' s, Forall2 inst_eq l l' -> deliver_obs gl l s = deliver_obs gl l' s.
Proof.
  intros gl l l' s H. unfold deliver_obs. f_equal.
  induction H; cbn; [reflexivity|].
  rewrite IHForall2, (ran_inst_eq gl x y s H).
  destruct H as (_ & _ & E3 & _). now rewrite E3.
Qed.

(** ** bisimulation *)
Lemma step_obs_eq : forall os s t o, obs_eq s t ->
  fst (step os s o) = fst (step os t o) /\ obs_eq (snd (step os s o)) (snd (step os t o)).
Proof.
  intros os s t o O. pose proof O as (Eg & Ed & Ei). unfold step. rewrite Ed, Eg.
  destruct (dead t) eqn:Dt; [cbn; split; [reflexivity|exact O]|].
  destruct o as [e sigs|i via n|i|i|i|sig|n].
  - (* ONew: nothing of the existing instances is read *)
    destruct (new_loop os sigs (g t) (fresh e)) as [[r gl] x].
    destruct r; try (destruct (drop_instance _ gl x) as [[r2 gl2] x2]; destruct r2);
      cbn; repeat split; auto; apply Forall2_app; auto; constructor; auto using inst_eq_refl.
  - (* OAdd *)
    pose proof (Forall2_nth inst_eq _ _ i Ei) as Hn.
    destruct (nth_error (insts s) i) as [x|], (nth_error (insts t) i) as [y|]; try contradiction;
      [|unfold skip; cbn; split; [reflexivity|exact O]].
    rewrite (usable_inst_eq x y via Hn).
    destruct (usable y via); [|unfold skip; cbn; split; [reflexivity|exact O]].
    rewrite !add_closed.
    pose proof (add_spec_inst_eq os (g t) x y n Hn) as (A1 & A2 & A3).
    destruct (add_spec os (g t) x n) as [[r1 g1] x1], (add_spec os (g t) y n) as [[r2 g2] y2].
    cbn in *. subst. repeat split; auto. now apply Forall2_upd.
  - (* OClone *)
    pose proof (Forall2_nth inst_eq _ _ i Ei) as Hn.
    destruct (nth_error (insts s) i) as [x|], (nth_error (insts t) i) as [y|]; try contradiction;
      [|unfold skip; cbn; split; [reflexivity|exact O]].
    assert (Ea : i_alive x = i_alive y) by apply Hn. assert (Ec : i_clones x = i_clones y) by apply Hn.
    rewrite Ea, Ec.
    destruct (i_alive y || (0 <? i_clones y)%nat); [|unfold skip; cbn; split; [reflexivity|exact O]].
    cbn. repeat split; auto. apply Forall2_upd; auto. now apply inst_eq_set_clones.
  - (* ODropHandle *)
    pose proof (Forall2_nth inst_eq _ _ i Ei) as Hn.
    destruct (nth_error (insts s) i) as [x|], (nth_error (insts t) i) as [y|]; try contradiction;
      [|unfold skip; cbn; split; [reflexivity|exact O]].
    assert (Ec : i_clones x = i_clones y) by apply Hn. rewrite Ec.
    destruct (0 <? i_clones y)%nat; [|unfold skip; cbn; split; [reflexivity|exact O]].
    rewrite !drop_state_closed.
    pose proof (drop_last_spec_inst_eq (g t) _ _ (inst_eq_set_clones x y (pred (i_clones y)) Hn)) as (A1 & A2 & A3).
    destruct (drop_last_spec (g t) (set_clones x _)) as [[r1 g1] x1], (drop_last_spec (g t) (set_clones y _)) as [[r2 g2] y2].
    cbn in *. subst. destruct A3 as (B1 & B2 & B3 & B4 & B5 & B6). unfold obs_closes. rewrite B5, B6.
    repeat split; auto. apply Forall2_upd; auto. repeat split; auto.
  - (* ODropInst *)
    pose proof (Forall2_nth inst_eq _ _ i Ei) as Hn.
    destruct (nth_error (insts s) i) as [x|], (nth_error (insts t) i) as [y|]; try contradiction;
      [|unfold skip; cbn; split; [reflexivity|exact O]].
    assert (Ea : i_alive x = i_alive y) by apply Hn. rewrite Ea.
    destruct (i_alive y); [|unfold skip; cbn; split; [reflexivity|exact O]].
    rewrite !drop_instance_closed.
    pose proof (drop_last_spec_inst_eq (g t) _ _ (inst_eq_set_dropped x y Hn)) as (A1 & A2 & A3).
    destruct (drop_last_spec (g t) (set_dropped x)) as [[r1 g1] x1], (drop_last_spec (g t) (set_dropped y)) as [[r2 g2] y2].
    cbn in *. subst. destruct A3 as (B1 & B2 & B3 & B4 & B5 & B6). unfold obs_closes. rewrite B5, B6.
    repeat split; auto. apply Forall2_upd; auto. repeat split; auto.
  - (* ODeliver *)
    cbn. rewrite (deliver_obs_eq (g t) _ _ sig Ei). split; [reflexivity|exact O].
  - (* OForeign *)
    destruct (reg_register os (g t) n) as [[id| |] gl]; cbn; repeat split; auto.
Qed.

Lemma run_obs_eq : forall os k s t, obs_eq s t ->
  fst (run os s k) = fst (run os t k) /\ obs_eq (snd (run os s k)) (snd (run os t k)).
Proof.
  induction k as [|o k IH]; intros s t E; cbn; [auto|].
  pose proof (step_obs_eq os s t o E) as (A & B).
  destruct (step os s o) as [o1 s1], (step os t o) as [o2 t1]. cbn in *. subst.
  specialize (IH s1 t1 B). destruct IH as (C & D).
  destruct (run os s1 k) as [l1 s2], (run os t1 k) as [l2 t2]. cbn in *. subst. auto.
Qed.

Lemma run_app : forall os h k st,
  run os st (h ++ k) = (fst (run os st h) ++ fst (run os (snd (run os st h)) k), snd (run os (snd (run os st h)) k)).
Proof.
  induction h as [|o h IH]; intros k st; cbn.
  - now destruct (run os st k).
  - destruct (step os st o) as [o1 s1]. rewrite IH.
    destruct (run os s1 h) as [l1 s2]. cbn. reflexivity.
Qed.

Lemma run_length : forall os h st, length (fst (run os st h)) = length h.
Proof.
  induction h as [|o h IH]; intros st; cbn; [reflexivity|].
  destruct (step os st o) as [o1 s1]. specialize (IH s1). destruct (run os s1 h). cbn in *. now rewrite IH.
Qed.

(** ** a rejected add changes only unobservable fields *)
Lemma add_spec_rejected : forall os gl x n r gl' x',
  add_spec os gl x n = (r, gl', x') -> rejected r -> gl' = gl /\ inst_eq x' x.
Proof.
  intros os gl x n r gl' x' H R. unfold add_spec in H.
  assert (P : inst_eq (set_poisoned x) x) by apply inst_eq_poisoned.
  assert (Q : inst_eq (set_poisoned (init_slot x n)) x).
  { eapply inst_eq_trans; [apply inst_eq_poisoned|apply inst_eq_init_slot]. }
  destruct ((0 <=? n) && (n <? MAX_SIGNUM)).
  - destruct (lookup n (i_ids x)).
    + inversion H; subst. destruct R; discriminate.
    + destruct (zmem n forbidden); [inversion H; subst; auto|].
      destruct (os n); inversion H; subst; [destruct R; discriminate|].
      split; auto using inst_eq_init_slot.
  - destruct (n <? 0); [|inversion H; subst; auto].
    destruct ((0 <=? 2 ^ 64 + n) && (2 ^ 64 + n <? MAX_SIGNUM)); [|inversion H; subst; auto].
    destruct (lookup (2 ^ 64 + n) (i_ids x)); inversion H; subst; auto.
Qed.

Lemma Forall2_upd_self : forall l i x x', nth_error l i = Some x -> inst_eq x' x -> Forall2 inst_eq (upd l i x') l.
Proof.
  induction l as [|h r IH]; intros [|i] x x' H E; cbn in *; try discriminate.
  - inversion H; subst. constructor; auto. apply Forall2_refl, inst_eq_refl.
  - constructor; [apply inst_eq_refl|]. eapply IH; eauto.
Qed.

Lemma step_add_rejected : forall os st i via n,
  rejected (fst (fst (step os st (OAdd i via n)))) -> obs_eq (snd (step os st (OAdd i via n))) st.
Proof.
  intros os st i via n R. unfold step in *.
  destruct (dead st) eqn:D; [cbn in *; destruct R; discriminate|].
  destruct (nth_error (insts st) i) as [x|] eqn:Hx; [|cbn in *; destruct R; discriminate].
  destruct (usable x via); [|cbn in *; destruct R; discriminate].
  rewrite add_closed in *.
  destruct (add_spec os (g st) x n) as [[r gl] x'] eqn:A. cbn in *.
  destruct (add_spec_rejected _ _ _ _ _ _ _ A R) as (-> & E).
  repeat split; cbn; auto.
  eapply Forall2_upd_self; eauto.
Qed.
