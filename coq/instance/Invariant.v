(** Reachable states: ids are fresh, the instances' recorded ids are pairwise disjoint, an instance
    whose owners are all gone has none of its ids registered and both pipe ends closed once, a
    live one has all of them registered and its write end open. *)
From Coq Require Import ZArith List Bool Lia.
From SH Require Import gen.Extracted_instance instance.Model instance.Spec instance.Defs instance.Bisim.
Import ListNotations. Open Scope Z_scope.

(** ** small facts *)
Lemma upd_upd : forall {A} (l : list A) i a b, upd (upd l i a) i b = upd l i b.
Proof. induction l as [|h r IH]; intros [|i] a b; cbn; try reflexivity. now rewrite IH. Qed.

Lemma nth_app_cases : forall {A} (l : list A) a j y,
  nth_error (l ++ [a]) j = Some y -> nth_error l j = Some y \/ (j = length l /\ y = a).
Proof.
  induction l as [|h r IH]; intros a [|j] y H; cbn in *.
  - inversion H. auto.
  - destruct j; discriminate.
  - auto.
  - destruct (IH _ _ _ H) as [?|[-> ->]]; auto.
Qed.

Lemma nth_app_last : forall {A} (l : list A) a, nth_error (l ++ [a]) (length l) = Some a.
Proof. induction l; cbn; auto. Qed.

Lemma filter_all : forall {A} (f : A -> bool) l, (forall a, In a l -> f a = true) -> filter f l = l.
Proof.
  induction l as [|a r IH]; cbn; intros H; [reflexivity|].
  rewrite (H a (or_introl eq_refl)). f_equal. apply IH. auto.
Qed.

Lemma filter_none : forall {A} (f : A -> bool) l, (forall a, In a l -> f a = false) -> filter f l = [].
Proof.
  induction l as [|a r IH]; cbn; intros H; [reflexivity|].
  rewrite (H a (or_introl eq_refl)). apply IH. auto.
Qed.

Lemma existsb_nat_In : forall a l, existsb (Nat.eqb a) l = true <-> In a l.
Proof.
  intros a l. rewrite existsb_exists. split.
  - intros (b & Hb & E). apply Nat.eqb_eq in E. now subst.
  - intros H. exists a. split; [assumption|apply Nat.eqb_refl].
Qed.

Lemma lookup_In : forall k l v, lookup k l = Some v -> In (k, v) l.
Proof.
  induction l as [|[k' v'] r IH]; cbn; intros v H; [discriminate|].
  destruct (k' =? k) eqn:E.
  - apply Z.eqb_eq in E. inversion H. subst. auto.
  - auto.
Qed.

Lemma state_eta : forall st, dead st = false -> mkSt (g st) (insts st) false = st.
Proof. intros [a b c] H. cbn in *. now subst. Qed.

(** ** [inst_eq] transports the instance-local facts *)
Lemma inst_eq_recorded : forall x y, inst_eq x y -> recorded x = recorded y.
Proof. intros x y (_ & E & _). unfold recorded. now rewrite E. Qed.
Lemma inst_eq_gone : forall x y, inst_eq x y -> gone_b x = gone_b y.
Proof. intros x y (_ & _ & E3 & E4 & _). unfold gone_b. now rewrite E3, E4. Qed.

Definition closes_ok (x : inst) : Prop :=
  i_rd_closes x = (if i_alive x then 0 else 1)%nat /\ i_wr_closes x = (if gone_b x then 1 else 0)%nat.

Definition reg_ok (gl : glob) (x : inst) : Prop :=
  if gone_b x then forall e, In e (reg gl) -> ~ In (fst e) (recorded x)
  else forall k id, In (k, id) (i_ids x) -> In (id, k) (reg gl).

Lemma inst_eq_closes_ok : forall x y, inst_eq x y -> closes_ok y -> closes_ok x.
Proof.
  intros x y E (C1 & C2). pose proof (inst_eq_gone _ _ E) as G.
  destruct E as (_ & _ & E3 & _ & E5 & E6). unfold closes_ok. now rewrite G, E3, E5, E6.
Qed.
Lemma inst_eq_reg_ok : forall gl x y, inst_eq x y -> reg_ok gl y -> reg_ok gl x.
Proof.
  intros gl x y E R. unfold reg_ok in *. rewrite (inst_eq_gone _ _ E), (inst_eq_recorded _ _ E).
  destruct E as (_ & E2 & _). now rewrite E2.
Qed.

Record Inv (st : state) : Prop := mkInv {
  inv_dead : dead st = false;
  inv_reg_fresh : forall e, In e (reg (g st)) -> (fst e < next_id (g st))%nat;
  inv_rec_fresh : forall i x id, nth_error (insts st) i = Some x -> In id (recorded x) -> (id < next_id (g st))%nat;
  inv_disjoint : forall i j x y id, nth_error (insts st) i = Some x -> nth_error (insts st) j = Some y ->
                                    In id (recorded x) -> In id (recorded y) -> i = j;
  inv_closes : forall i x, nth_error (insts st) i = Some x -> closes_ok x;
  inv_reg : forall i x, nth_error (insts st) i = Some x -> reg_ok (g st) x
}.

Lemma Inv_init : Inv init_state.
Proof. constructor; cbn; try reflexivity; try contradiction; intros [|?]; cbn; discriminate. Qed.

(** ** transitions of one instance *)
Definition release (x x1 : inst) : Prop :=
  (x1 = set_clones x (pred (i_clones x)) /\ (0 < i_clones x)%nat) \/ (x1 = set_dropped x /\ i_alive x = true).

Definition finalize (gl : glob) (x1 : inst) : glob * inst :=
  if gone_b x1 then (unregister_all gl (recorded x1), set_wr_closed x1) else (gl, x1).

Inductive trans (gl : glob) (x : inst) : glob -> inst -> Prop :=
| T_same : forall x', inst_eq x' x -> trans gl x gl x'
| T_add : forall x' n, gone_b x = false -> inst_eq x' (set_ids x ((n, next_id gl) :: i_ids x)) ->
                       trans gl x (registered gl n) x'
| T_clone : gone_b x = false -> trans gl x gl (set_clones x (S (i_clones x)))
| T_release : forall x1, release x x1 -> trans gl x (fst (finalize gl x1)) (snd (finalize gl x1)).

Lemma drop_last_finalize : forall gl x1, drop_last_spec gl x1 = (ROk, fst (finalize gl x1), snd (finalize gl x1)).
Proof.
  intros. unfold drop_last_spec, finalize, gone_b.
  destruct (i_alive x1); cbn; [reflexivity|].
  destruct (i_clones x1); cbn; reflexivity.
Qed.

Lemma release_not_gone : forall x x1, release x x1 -> gone_b x = false.
Proof.
  intros x x1 [[_ H]|[_ H]]; unfold gone_b.
  - destruct (i_clones x); [lia|]. cbn. apply andb_false_r.
  - now rewrite H.
Qed.

Lemma release_recorded : forall x x1, release x x1 -> i_ids x1 = i_ids x.
Proof. intros x x1 [[-> _]|[-> _]]; reflexivity. Qed.

Lemma release_closes : forall x x1, release x x1 -> closes_ok x ->
  i_rd_closes x1 = (if i_alive x1 then 0 else 1)%nat /\ i_wr_closes x1 = 0%nat.
Proof.
  intros x x1 R (C1 & C2). rewrite (release_not_gone _ _ R) in C2.
  destruct R as [[-> _]|[-> A]]; cbn; auto. rewrite A in C1. rewrite C1. auto.
Qed.

(** registry after a registration *)
Lemma registered_reg : forall gl n, reg (registered gl n) = reg gl ++ [(next_id gl, n)].
Proof. reflexivity. Qed.
Lemma registered_next : forall gl n, next_id (registered gl n) = S (next_id gl).
Proof. reflexivity. Qed.

Lemma In_unregister_all : forall gl ids e,
  In e (reg (unregister_all gl ids)) <-> In e (reg gl) /\ ~ In (fst e) ids.
Proof.
  intros. unfold unregister_all. cbn. rewrite filter_In. split; intros (A & B); split; auto.
  - intros C. apply existsb_nat_In in C. rewrite C in B. discriminate.
  - destruct (existsb (Nat.eqb (fst e)) ids) eqn:E; [|reflexivity].
    apply existsb_nat_In in E. contradiction.
Qed.

(** ** the invariant is preserved by every transition of an instance *)
Lemma Inv_trans : forall st i x g' x',
  Inv st -> nth_error (insts st) i = Some x -> trans (g st) x g' x' ->
  Inv (mkSt g' (upd (insts st) i x') false).
Proof.
  intros st i x g' x' I Hx T.
  destruct I as [Id Irf Icf Idj Icl Irg].
  pose proof (Icl _ _ Hx) as Cx. pose proof (Irg _ _ Hx) as Rx.
  destruct T as [x' E | x' n G E | G | x1 R].
  - (* same observable instance *)
    constructor; cbn; auto.
    + intros j y id Hj Hin. apply nth_upd_cases in Hj as [(-> & -> & _)|(N & Hj)]; eauto.
      rewrite (inst_eq_recorded _ _ E) in Hin. eauto.
    + intros j1 j2 y1 y2 id H1 H2 In1 In2.
      apply nth_upd_cases in H1 as [(-> & -> & _)|(N1 & H1)]; apply nth_upd_cases in H2 as [(-> & -> & _)|(N2 & H2)];
        try rewrite (inst_eq_recorded _ _ E) in *; eauto.
    + intros j y Hj. apply nth_upd_cases in Hj as [(-> & -> & _)|(N & Hj)]; eauto using inst_eq_closes_ok.
    + intros j y Hj. apply nth_upd_cases in Hj as [(-> & -> & _)|(N & Hj)]; eauto using inst_eq_reg_ok.
  - (* a new registration recorded by instance i *)
    assert (Rec : recorded x' = next_id (g st) :: recorded x) by (rewrite (inst_eq_recorded _ _ E); reflexivity).
    assert (Gx' : gone_b x' = false) by (rewrite (inst_eq_gone _ _ E); exact G).
    constructor; cbn [g insts dead]; auto.
    + intros e He. rewrite registered_reg in He. rewrite registered_next.
      apply in_app_or in He as [He|[<-|[]]]; [apply Irf in He; lia|cbn; lia].
    + intros j y id Hj Hin. rewrite registered_next.
      apply nth_upd_cases in Hj as [(-> & -> & _)|(N & Hj)].
      * rewrite Rec in Hin. destruct Hin as [<-|Hin]; [lia|]. specialize (Icf _ _ _ Hx Hin). lia.
      * specialize (Icf _ _ _ Hj Hin). lia.
    + intros j1 j2 y1 y2 id H1 H2 In1 In2.
      apply nth_upd_cases in H1 as [(-> & -> & _)|(N1 & H1)]; apply nth_upd_cases in H2 as [(-> & -> & _)|(N2 & H2)]; auto.
      * rewrite Rec in In1. destruct In1 as [<-|In1].
        -- specialize (Icf _ _ _ H2 In2). lia.
        -- eauto.
      * rewrite Rec in In2. destruct In2 as [<-|In2].
        -- specialize (Icf _ _ _ H1 In1). lia.
        -- eauto.
      * eauto.
    + intros j y Hj. apply nth_upd_cases in Hj as [(-> & -> & _)|(N & Hj)]; eauto.
      eapply inst_eq_closes_ok; [exact E|]. exact Cx.
    + intros j y Hj.
      apply nth_upd_cases in Hj as [(-> & -> & _)|(N & Hj)].
      * unfold reg_ok in *. rewrite Gx'. rewrite G in Rx. rewrite registered_reg.
        destruct E as (_ & E2 & _). rewrite E2. cbn [i_ids set_ids].
        intros k id [Heq|Hin]; [inversion Heq; subst; apply in_or_app; right; left; reflexivity|].
        apply in_or_app. left. auto.
      * specialize (Irg _ _ Hj). unfold reg_ok in *. rewrite registered_reg. destruct (gone_b y).
        -- intros e He. apply in_app_or in He as [He|[<-|[]]]; [auto|]. cbn.
           intros Hin. specialize (Icf _ _ _ Hj Hin). lia.
        -- intros k id Hin. apply in_or_app. left. auto.
  - (* one more clone *)
    assert (Gx' : gone_b (set_clones x (S (i_clones x))) = false) by (unfold gone_b; cbn; apply andb_false_r).
    constructor; cbn [g insts dead]; auto.
    + intros j y id Hj Hin. apply nth_upd_cases in Hj as [(-> & -> & _)|(N & Hj)]; eauto.
    + intros j1 j2 y1 y2 id H1 H2 In1 In2.
      apply nth_upd_cases in H1 as [(-> & -> & _)|(N1 & H1)]; apply nth_upd_cases in H2 as [(-> & -> & _)|(N2 & H2)]; eauto.
    + intros j y Hj. apply nth_upd_cases in Hj as [(-> & -> & _)|(N & Hj)]; eauto.
      destruct Cx as (C1 & C2). rewrite G in C2. unfold closes_ok. rewrite Gx'. cbn. auto.
    + intros j y Hj. apply nth_upd_cases in Hj as [(-> & -> & _)|(N & Hj)]; eauto.
      unfold reg_ok in *. rewrite Gx'. rewrite G in Rx. exact Rx.
  - (* an owner is released *)
    pose proof (release_not_gone _ _ R) as G.
    pose proof (release_recorded _ _ R) as Ids.
    pose proof (release_closes _ _ R Cx) as (Crd & Cwr).
    assert (Rec : recorded x1 = recorded x) by (unfold recorded; now rewrite Ids).
    unfold finalize. destruct (gone_b x1) eqn:G1; cbn [fst snd].
    + (* the last one: DeliveryState dropped *)
      assert (Rec' : recorded (set_wr_closed x1) = recorded x) by exact Rec.
      constructor; cbn [g insts dead]; auto.
      * intros e He. apply In_unregister_all in He as (He & _). cbn. auto.
      * intros j y id Hj Hin. cbn.
        apply nth_upd_cases in Hj as [(-> & -> & _)|(N & Hj)]; [rewrite Rec' in Hin|]; eauto.
      * intros j1 j2 y1 y2 id H1 H2 In1 In2.
        apply nth_upd_cases in H1 as [(-> & -> & _)|(N1 & H1)]; apply nth_upd_cases in H2 as [(-> & -> & _)|(N2 & H2)];
          try rewrite Rec' in *; eauto.
      * intros j y Hj. apply nth_upd_cases in Hj as [(-> & -> & _)|(N & Hj)]; eauto.
        unfold closes_ok. replace (gone_b (set_wr_closed x1)) with true by (symmetry; exact G1).
        cbn. rewrite Cwr. auto.
      * intros j y Hj. apply nth_upd_cases in Hj as [(-> & -> & _)|(N & Hj)].
        -- unfold reg_ok. replace (gone_b (set_wr_closed x1)) with true by (symmetry; exact G1).
           intros e He. apply In_unregister_all in He as (_ & He). rewrite Rec'. rewrite Rec in He. exact He.
        -- specialize (Irg _ _ Hj). unfold reg_ok in *. destruct (gone_b y).
           ++ intros e He. apply In_unregister_all in He as (He & _). auto.
           ++ intros k id Hin. apply In_unregister_all. split; [auto|]. cbn. rewrite Rec.
              intros Hin2. apply N. eapply (Idj j i y x id); eauto.
              unfold recorded. change id with (snd (k, id)). now apply in_map.
    + (* somebody still owns the state *)
      constructor; cbn [g insts dead]; auto.
      * intros j y id Hj Hin.
        apply nth_upd_cases in Hj as [(-> & -> & _)|(N & Hj)]; [rewrite Rec in Hin|]; eauto.
      * intros j1 j2 y1 y2 id H1 H2 In1 In2.
        apply nth_upd_cases in H1 as [(-> & -> & _)|(N1 & H1)]; apply nth_upd_cases in H2 as [(-> & -> & _)|(N2 & H2)];
          try rewrite Rec in *; eauto.
      * intros j y Hj. apply nth_upd_cases in Hj as [(-> & -> & _)|(N & Hj)]; eauto.
        unfold closes_ok. rewrite G1. auto.
      * intros j y Hj. apply nth_upd_cases in Hj as [(-> & -> & _)|(N & Hj)]; eauto.
        unfold reg_ok in *. rewrite G1. rewrite G in Rx. rewrite Ids. exact Rx.
Qed.

(** somebody else registers an action *)
Lemma Inv_foreign : forall st n, Inv st -> Inv (mkSt (registered (g st) n) (insts st) false).
Proof.
  intros st n [Id Irf Icf Idj Icl Irg]. constructor; cbn [g insts dead]; auto.
  - intros e He. rewrite registered_reg in He. rewrite registered_next.
    apply in_app_or in He as [He|[<-|[]]]; [apply Irf in He; lia|cbn; lia].
  - intros j y id Hj Hin. rewrite registered_next. specialize (Icf _ _ _ Hj Hin). lia.
  - intros j y Hj. specialize (Irg _ _ Hj). unfold reg_ok in *. rewrite registered_reg. destruct (gone_b y).
    + intros e He. apply in_app_or in He as [He|[<-|[]]]; [auto|]. cbn.
      intros Hin. specialize (Icf _ _ _ Hj Hin). lia.
    + intros k id Hin. apply in_or_app. left. auto.
Qed.

(** a fresh instance is appended *)
Lemma Inv_fresh : forall st e, Inv st -> Inv (mkSt (g st) (insts st ++ [fresh e]) false).
Proof.
  intros st e [Id Irf Icf Idj Icl Irg]. constructor; cbn [g insts dead]; auto.
  - intros j y id Hj Hin. apply nth_app_cases in Hj as [Hj|[-> ->]]; eauto. destruct Hin.
  - intros j1 j2 y1 y2 id H1 H2 In1 In2.
    apply nth_app_cases in H1 as [H1|[-> ->]]; [|destruct In1].
    apply nth_app_cases in H2 as [H2|[-> ->]]; [|destruct In2]. eauto.
  - intros j y Hj. apply nth_app_cases in Hj as [Hj|[-> ->]]; eauto. split; reflexivity.
  - intros j y Hj. apply nth_app_cases in Hj as [Hj|[-> ->]]; eauto.
    unfold reg_ok. cbn. intros k id [].
Qed.

(** ** the calls, as transitions *)
Lemma add_spec_cases : forall os gl x n r gl' x', add_spec os gl x n = (r, gl', x') ->
  (r = ROk /\ gl' = gl /\ x' = x) \/
  (r = ROk /\ gl' = registered gl n /\ inst_eq x' (set_ids x ((n, next_id gl) :: i_ids x))) \/
  (rejected r /\ gl' = gl /\ inst_eq x' x).
Proof.
  intros os gl x n r gl' x' H. unfold add_spec in H.
  assert (Q : inst_eq (set_poisoned (init_slot x n)) x).
  { eapply inst_eq_trans; [apply inst_eq_poisoned|apply inst_eq_init_slot]. }
  destruct ((0 <=? n) && (n <? MAX_SIGNUM)).
  - destruct (lookup n (i_ids x)).
    + inversion H; subst. left; auto.
    + destruct (zmem n forbidden).
      * inversion H; subst. right; right. split; [right; reflexivity|]. split; [reflexivity|exact Q].
      * destruct (os n); inversion H; subst.
        -- right; left. split; [reflexivity|]. split; [reflexivity|].
           apply (inst_eq_set_ids _ _ _ (inst_eq_init_slot x n)).
        -- right; right. split; [left; reflexivity|]. split; [reflexivity|apply inst_eq_init_slot].
  - destruct (n <? 0).
    + destruct ((0 <=? 2 ^ 64 + n) && (2 ^ 64 + n <? MAX_SIGNUM)).
      * destruct (lookup (2 ^ 64 + n) (i_ids x)); inversion H; subst.
        -- left; auto.
        -- right; right. split; [right; reflexivity|]. split; [reflexivity|apply inst_eq_poisoned].
      * inversion H; subst. right; right. split; [right; reflexivity|]. split; [reflexivity|apply inst_eq_poisoned].
    + inversion H; subst. right; right. split; [right; reflexivity|]. split; [reflexivity|apply inst_eq_poisoned].
Qed.

Lemma add_spec_trans : forall os gl x n r gl' x',
  add_spec os gl x n = (r, gl', x') -> gone_b x = false -> trans gl x gl' x'.
Proof.
  intros os gl x n r gl' x' H G.
  destruct (add_spec_cases _ _ _ _ _ _ _ H) as [(_ & -> & ->)|[(_ & -> & E)|(_ & -> & E)]].
  - apply T_same, inst_eq_refl.
  - now apply T_add.
  - now apply T_same.
Qed.

Lemma add_spec_keeps_owners : forall os gl x n r gl' x',
  add_spec os gl x n = (r, gl', x') -> i_alive x' = i_alive x /\ i_clones x' = i_clones x /\ (r = ROk \/ rejected r).
Proof.
  intros os gl x n r gl' x' H.
  destruct (add_spec_cases _ _ _ _ _ _ _ H) as [(-> & _ & ->)|[(-> & _ & E)|(R & _ & E)]]; auto;
    destruct E as (_ & _ & E3 & E4 & _); auto.
Qed.

Lemma usable_not_gone : forall x v, usable x v = true -> gone_b x = false.
Proof.
  intros x [] H; unfold usable, gone_b in *.
  - destruct (i_clones x); [discriminate|]. cbn. apply andb_false_r.
  - now rewrite H.
Qed.

Lemma new_loop_Inv : forall os sigs st i x r g' x',
  Inv st -> nth_error (insts st) i = Some x -> i_alive x = true ->
  new_loop os sigs (g st) x = (r, g', x') ->
  Inv (mkSt g' (upd (insts st) i x') false) /\ i_alive x' = true /\ i_clones x' = i_clones x /\ (r = ROk \/ rejected r).
Proof.
  induction sigs as [|n sigs IH]; intros st i x r g' x' I Hx A H; cbn [new_loop] in H.
  - inversion H; subst. rewrite (upd_same _ _ _ Hx), (state_eta st (inv_dead _ I)).
    split; [exact I|]. split; [exact A|]. split; [reflexivity|left; reflexivity].
  - rewrite add_closed in H.
    destruct (add_spec os (g st) x n) as [[o g1] x1] eqn:Ha.
    assert (G : gone_b x = false) by (unfold gone_b; now rewrite A).
    pose proof (Inv_trans _ _ _ _ _ I Hx (add_spec_trans _ _ _ _ _ _ _ Ha G)) as I1.
    destruct (add_spec_keeps_owners _ _ _ _ _ _ _ Ha) as (A1 & C1 & R1).
    rewrite A in A1.
    destruct o; try (inversion H; subst; split; [exact I1|]; split; [exact A1|]; split; [exact C1|exact R1]).
    specialize (IH (mkSt g1 (upd (insts st) i x1) false) i x1 r g' x' I1 (nth_upd_eq _ _ _ _ Hx) A1 H).
    cbn [g insts] in IH. rewrite upd_upd in IH. destruct IH as (P & Q & S & T).
    split; [exact P|]. split; [exact Q|]. split; [congruence|exact T].
Qed.

(** ** the shape of a step *)
Lemma step_shape : forall os st o, dead st = false ->
  (exists i x g' x', nth_error (insts st) i = Some x /\ trans (g st) x g' x' /\
                     snd (step os st o) = mkSt g' (upd (insts st) i x') false)
  \/ snd (step os st o) = st
  \/ (exists n, snd (step os st o) = mkSt (registered (g st) n) (insts st) false)
  \/ (exists e sigs, o = ONew e sigs).
Proof.
  intros os st o D. unfold step. rewrite D.
  destruct o as [e sigs|i via n|i|i|i|sig|n].
  - right; right; right. eauto.
  - destruct (nth_error (insts st) i) as [x|] eqn:Hx; [|right; left; reflexivity].
    destruct (usable x via) eqn:U; [|right; left; reflexivity].
    rewrite add_closed. destruct (add_spec os (g st) x n) as [[r gl] x'] eqn:Ha.
    left. exists i, x, gl, x'. repeat split; auto.
    eapply add_spec_trans; eauto using usable_not_gone.
  - destruct (nth_error (insts st) i) as [x|] eqn:Hx; [|right; left; reflexivity].
    destruct (i_alive x || (0 <? i_clones x)%nat) eqn:U; [|right; left; reflexivity].
    left. exists i, x, (g st), (set_clones x (S (i_clones x))). repeat split; auto.
    apply T_clone. unfold gone_b. destruct (i_alive x); [reflexivity|]. cbn in *.
    destruct (i_clones x); [discriminate|reflexivity].
  - destruct (nth_error (insts st) i) as [x|] eqn:Hx; [|right; left; reflexivity].
    destruct (0 <? i_clones x)%nat eqn:U; [|right; left; reflexivity].
    rewrite drop_state_closed, drop_last_finalize.
    left. exists i, x, (fst (finalize (g st) (set_clones x (pred (i_clones x))))), (snd (finalize (g st) (set_clones x (pred (i_clones x))))).
    repeat split; auto. apply T_release. left. split; [reflexivity|]. apply Nat.ltb_lt in U. exact U.
  - destruct (nth_error (insts st) i) as [x|] eqn:Hx; [|right; left; reflexivity].
    destruct (i_alive x) eqn:U; [|right; left; reflexivity].
    rewrite drop_instance_closed, drop_last_finalize.
    left. exists i, x, (fst (finalize (g st) (set_dropped x))), (snd (finalize (g st) (set_dropped x))).
    repeat split; auto. apply T_release. right. auto.
  - right; left; reflexivity.
  - unfold reg_register. destruct (zmem n forbidden); [right; left; cbn; now apply state_eta|].
    destruct (os n); [|right; left; cbn; now apply state_eta].
    right; right; left. exists n. reflexivity.
Qed.

(** ** the constructor *)
Lemma step_new : forall os st e sigs, dead st = false ->
  let '(r, gl, x) := new_loop os sigs (g st) (fresh e) in
  step os st (ONew e sigs) =
  match r with
  | ROk => ((ROk, obs_closes x), mkSt gl (insts st ++ [x]) false)
  | _ => ((r, obs_closes (snd (finalize gl (set_dropped x)))),
          mkSt (fst (finalize gl (set_dropped x))) (insts st ++ [snd (finalize gl (set_dropped x))]) (is_abort r))
  end.
Proof.
  intros os st e sigs D. unfold step. rewrite D.
  destruct (new_loop os sigs (g st) (fresh e)) as [[r gl] x].
  destruct r; try reflexivity; rewrite drop_instance_closed, drop_last_finalize; reflexivity.
Qed.

Lemma step_Inv : forall os st o, Inv st -> Inv (snd (step os st o)).
Proof.
  intros os st o I. pose proof (inv_dead _ I) as D.
  destruct (step_shape os st o D) as [(i & x & g' & x' & Hx & T & ->)|[->|[(n & ->)|(e & sigs & ->)]]].
  - eapply Inv_trans; eauto.
  - assumption.
  - now apply Inv_foreign.
  - pose proof (step_new os st e sigs D) as S.
    destruct (new_loop os sigs (g st) (fresh e)) as [[r gl] x] eqn:L.
    pose proof (Inv_fresh st e I) as I0.
    destruct (new_loop_Inv os sigs (mkSt (g st) (insts st ++ [fresh e]) false) (length (insts st)) (fresh e) r gl x
                I0 (nth_app_last _ _) eq_refl L) as (I1 & A & C & R).
    cbn [insts] in I1. rewrite upd_app_last in I1.
    rewrite S. destruct R as [->|[-> | ->]]; cbn [snd]; auto.
    all: assert (T : trans gl x (fst (finalize gl (set_dropped x))) (snd (finalize gl (set_dropped x))))
           by (apply T_release; right; auto).
    all: pose proof (Inv_trans _ (length (insts st)) x _ _ I1 (nth_app_last _ _) T) as I2.
    all: cbn [insts g] in I2; rewrite upd_app_last in I2; exact I2.
Qed.

Lemma run_Inv : forall os h st, Inv st -> Inv (snd (run os st h)).
Proof.
  induction h as [|o h IH]; intros st I; cbn; [assumption|].
  pose proof (step_Inv os st o I) as I1.
  destruct (step os st o) as [o1 s1]. cbn in I1. specialize (IH s1 I1).
  destruct (run os s1 h). exact IH.
Qed.

Lemma final_Inv : forall os h, Inv (final os h).
Proof. intros. apply run_Inv, Inv_init. Qed.

Lemma final_snoc : forall os h o, final os (h ++ [o]) = snd (step os (final os h) o).
Proof.
  intros. unfold final. rewrite run_app. cbn.
  destruct (step os (snd (run os init_state h)) o). reflexivity.
Qed.
