(** Sequential model of the life cycle of an iterator instance (DESIGN 5.12, property C12):
    [SignalDelivery::with_pipe] / [SignalsInfo::new], [Handle::add_signal], handle clones, drops,
    and what a delivered signal reaches.

    Nothing about the ORDER of operations inside [Handle::add_signal], [PendingSignals::add_signal],
    [DeliveryState::drop] and the exfiltrators' [init] is written here: those functions are
    interpreters over the skeletons in [Extracted_instance] (regenerated from the source on every
    run).  In particular whether a poisoned mutex makes [lock()] panic, and whether [init] returns
    early for an initialised slot, are extracted facts; the state keeps a [i_poisoned] flag and the
    list of initialised slots so that both matter when the code says so.

    No proofs in this file. *)
From Coq Require Import ZArith List Bool.
From SH Require Import gen.Extracted_instance.
Import ListNotations. Open Scope Z_scope.

(** Outcome of one call as seen by a caller that catches panics. [RSkip]: the call is not possible
    (no such instance / no such handle); [RDead]: the process was aborted earlier. *)
Inductive res := ROk | RErr | RPanic | RAbort | RSkip | RDead.

(** ** The registry, as the specification the instance relies on (C05/C14 are about the registry
    itself): a list of registered (action id, signal) in registration order, the next id, and the
    signals whose disposition the library has taken over (never given back). *)
Record glob := mkGlob { reg : list (nat * Z); next_id : nat; taken : list Z }.

Definition zmem (x : Z) (l : list Z) : bool := existsb (Z.eqb x) l.

Inductive rres := RegOk (id : nat) | RegErr | RegPanic.

(** [register_sigaction]: the forbidden assert comes first (panic, nothing changed); otherwise the
    OS verdict [os] (sigaction accepts the number or EINVAL; an error changes nothing - the id is
    taken from a clone of the data that is dropped). *)
Definition reg_register (os : Z -> bool) (gl : glob) (n : Z) : rres * glob :=
  if zmem n forbidden then (RegPanic, gl)
  else if os n then
    (RegOk (next_id gl),
     mkGlob (reg gl ++ [(next_id gl, n)]) (S (next_id gl)) (if zmem n (taken gl) then taken gl else n :: taken gl))
  else (RegErr, gl).

Definition reg_unregister (gl : glob) (id : nat) : glob :=
  mkGlob (filter (fun e => negb (Nat.eqb (fst e) id)) (reg gl)) (next_id gl) (taken gl).

(** ** One instance = what [with_pipe] builds: the [SignalDelivery] object (read end + one
    [Handle]), the shared [DeliveryState] (mutex + 128-entry id table), the shared
    [PendingSignals] (exfiltrator + 128 slots), the write end (shared with every registered action). *)
Record inst := mkInst {
  i_exf : exfk;
  i_poisoned : bool;            (* the registered_signal_ids mutex is poisoned *)
  i_ids : list (Z * nat);       (* the [Some] entries of the id table: index -> action id *)
  i_inited : list Z;            (* indices of slots whose exfiltrator storage is initialised *)
  i_alive : bool;               (* the SignalDelivery / Signals object exists *)
  i_clones : nat;               (* Handle clones alive (besides the one inside the object) *)
  i_rd_closes : nat;            (* how many times the read end was closed *)
  i_wr_closes : nat             (* how many times the write end was closed *)
}.

Definition set_poisoned (x : inst) : inst :=
  mkInst (i_exf x) true (i_ids x) (i_inited x) (i_alive x) (i_clones x) (i_rd_closes x) (i_wr_closes x).
Definition set_ids (x : inst) (l : list (Z * nat)) : inst :=
  mkInst (i_exf x) (i_poisoned x) l (i_inited x) (i_alive x) (i_clones x) (i_rd_closes x) (i_wr_closes x).
Definition set_inited (x : inst) (l : list Z) : inst :=
  mkInst (i_exf x) (i_poisoned x) (i_ids x) l (i_alive x) (i_clones x) (i_rd_closes x) (i_wr_closes x).
Definition set_clones (x : inst) (c : nat) : inst :=
  mkInst (i_exf x) (i_poisoned x) (i_ids x) (i_inited x) (i_alive x) c (i_rd_closes x) (i_wr_closes x).
(** the object is dropped: its fields go in declaration order, [read] first (closed) *)
Definition set_dropped (x : inst) : inst :=
  mkInst (i_exf x) (i_poisoned x) (i_ids x) (i_inited x) false (i_clones x) (S (i_rd_closes x)) (i_wr_closes x).
Definition set_wr_closed (x : inst) : inst :=
  mkInst (i_exf x) (i_poisoned x) (i_ids x) (i_inited x) (i_alive x) (i_clones x) (i_rd_closes x) (S (i_wr_closes x)).

Definition fresh (e : exfk) : inst := mkInst e false [] [] true 0 0 0.

Record state := mkSt { g : glob; insts : list inst; dead : bool }.

Definition init_state : state := mkSt (mkGlob [] 0 []) [] false.

(** ** Numbers. [signal as usize] for a [c_int]: sign extension to 64 bits, reinterpreted. *)
Definition as_usize (n : Z) : Z := if n <? 0 then 2 ^ 64 + n else n.

Fixpoint lookup (k : Z) (l : list (Z * nat)) : option nat :=
  match l with
  | [] => None
  | (k', v) :: r => if k' =? k then Some v else lookup k r
  end.

Definition set_key (k : Z) (v : nat) (l : list (Z * nat)) : list (Z * nat) :=
  (k, v) :: filter (fun e => negb (fst e =? k)) l.

(** ** Interpreters over the extracted skeletons *)

(** [lock()] followed by the extracted way of treating a poisoned mutex *)
Definition lock_fails (p : lock_policy) (x : inst) : bool :=
  match p with IgnorePoison => false | UnwrapPoison => i_poisoned x end.

(** a panic while the guard is alive poisons the mutex *)
Definition poison_if (held : bool) (x : inst) : inst := if held then set_poisoned x else x.

(** [Exfiltrator::init] on one slot: [isinit] = the slot's pointer is non-null, [old] = result of
    the swap.  Returns (panicked, slot initialised afterwards). *)
Fixpoint run_init (steps : list istep) (isinit old : bool) : bool * bool :=
  match steps with
  | [] => (false, isinit)
  | IRetIfInit :: r => if isinit then (false, isinit) else run_init r isinit old
  | INewBox :: r => run_init r isinit old
  | ISwap :: r => run_init r true isinit
  | IAssertOldNull :: r => if old then (true, isinit) else run_init r isinit old
  end.

Inductive pres := POk (id : nat) | PErr | PPanic.

(** [PendingSignals::add_signal] *)
Fixpoint run_p (os : Z -> bool) (steps : list pstep) (gl : glob) (x : inst) (n : Z) (id : option nat)
  : pres * glob * inst :=
  match steps with
  | [] => (PPanic, gl, x)
  | PAssertNonNeg :: r => if n <? 0 then (PPanic, gl, x) else run_p os r gl x n id
  | PAssertBelowMax :: r => if as_usize n <? MAX_SIGNUM then run_p os r gl x n id else (PPanic, gl, x)
  | PAssertSupports :: r => if exf_supports_all (i_exf x) then run_p os r gl x n id else (PPanic, gl, x)
  | PInit :: r =>
      let u := as_usize n in
      if (0 <=? u) && (u <? slots_len) then       (* &self.slots[signal as usize] *)
        let '(p, b) := run_init (exf_init_skel (i_exf x)) (zmem u (i_inited x)) false in
        let x' := if b && negb (zmem u (i_inited x)) then set_inited x (u :: i_inited x) else x in
        if p then (PPanic, gl, x') else run_p os r gl x' n id
      else (PPanic, gl, x)
  | PMakeAction :: r => run_p os r gl x n id
  | PRegisterTry :: r =>
      match reg_register os gl n with
      | (RegOk id', gl') => run_p os r gl' x n (Some id')
      | (RegErr, gl') => (PErr, gl', x)
      | (RegPanic, gl') => (PPanic, gl', x)
      end
  | PRetOkId :: _ => match id with Some i => (POk i, gl, x) | None => (PPanic, gl, x) end
  end.

(** [Handle::add_signal]; [held] = the mutex guard is alive *)
Fixpoint run_h (os : Z -> bool) (steps : list hstep) (gl : glob) (x : inst) (n : Z) (id : option nat) (held : bool)
  : res * glob * inst :=
  match steps with
  | [] => (ROk, gl, x)
  | HLock p :: r => if lock_fails p x then (RPanic, gl, x) else run_h os r gl x n id true
  | HIndexIsSomeRetOk :: r =>
      let u := as_usize n in
      if (0 <=? u) && (u <? ids_table_len) then      (* lock[signal as usize]: bounds check *)
        match lookup u (i_ids x) with
        | Some _ => (ROk, gl, x)
        | None => run_h os r gl x n id held
        end
      else (RPanic, gl, poison_if held x)
  | HCallPendingTry :: r =>
      match run_p os pending_add_signal_skel gl x n None with
      | (POk id', gl', x') => run_h os r gl' x' n (Some id') held
      | (PErr, gl', x') => (RErr, gl', x')
      | (PPanic, gl', x') => (RPanic, gl', poison_if held x')
      end
  | HAssignId :: r =>
      let u := as_usize n in
      if (0 <=? u) && (u <? ids_table_len) then
        match id with
        | Some id' => run_h os r gl (set_ids x (set_key u id' (i_ids x))) n id held
        | None => (RPanic, gl, poison_if held x)
        end
      else (RPanic, gl, poison_if held x)
  | HRetOk :: _ => (ROk, gl, x)
  end.

Definition add_signal (os : Z -> bool) (gl : glob) (x : inst) (n : Z) : res * glob * inst :=
  run_h os handle_add_signal_skel gl x n None false.

(** [DeliveryState::drop]: (panicked, registry, instance) *)
Fixpoint run_d (steps : list dstep) (gl : glob) (x : inst) : bool * glob * inst :=
  match steps with
  | [] => (false, gl, x)
  | DLock p :: r => if lock_fails p x then (true, gl, x) else run_d r gl x
  | DUnregisterAll :: r => run_d r (fold_left reg_unregister (map snd (i_ids x)) gl) x
  end.

(** An owner of the shared state (the object's handle, or a clone) has just gone.  If it was the
    last one the [DeliveryState] is dropped; the registered actions hold the write end, so it is
    closed exactly when they are all unregistered.  A panic of that destructor while another
    panic is unwinding aborts the process. *)
Definition drop_state_if_last (unwinding : bool) (gl : glob) (x : inst) : res * glob * inst :=
  if i_alive x || (0 <? i_clones x)%nat then (ROk, gl, x)
  else
    let '(p, gl', x') := run_d delivery_state_drop_skel gl x in
    if p then
      (* the destructor panicked before unregistering: the registrations leak, and with them the
         write end that every registered action holds (an instance that recorded nothing has no
         such action: its write end went with the handle's own reference) *)
      ((if unwinding then RAbort else RPanic), gl',
       if existsb (fun id => existsb (fun e => Nat.eqb (fst e) id) (reg gl')) (map snd (i_ids x'))
       then x' else set_wr_closed x')
    else (ROk, gl', set_wr_closed x').

Definition drop_instance (unwinding : bool) (gl : glob) (x : inst) : res * glob * inst :=
  drop_state_if_last unwinding gl (set_dropped x).

(** the [for sig in signals { me.handle.add_signal(sig)? }] loop of [with_pipe] *)
Fixpoint new_loop (os : Z -> bool) (sigs : list Z) (gl : glob) (x : inst) : res * glob * inst :=
  match sigs with
  | [] => (ROk, gl, x)
  | n :: r =>
      let '(o, gl', x') := add_signal os gl x n in
      match o with
      | ROk => new_loop os r gl' x'
      | _ => (o, gl', x')
      end
  end.

(** ** Operations of a history *)
Inductive op :=
| ONew (e : exfk) (sigs : list Z)          (* Signals::with_exfiltrator / SignalDelivery::with_pipe *)
| OAdd (i : nat) (via_clone : bool) (n : Z)  (* add_signal through the object or through a Handle clone *)
| OClone (i : nat)                         (* one more Handle clone *)
| ODropHandle (i : nat)                    (* drop one Handle clone *)
| ODropInst (i : nat)                      (* drop the object *)
| ODeliver (sig : Z)                       (* the signal is delivered to the process *)
| OForeign (n : Z).                        (* somebody else registers an action directly *)

Definition out := (res * list Z)%type.

Fixpoint upd {A} (l : list A) (i : nat) (a : A) : list A :=
  match l, i with
  | [], _ => []
  | _ :: r, O => a :: r
  | h :: r, S i' => h :: upd r i' a
  end.

Definition bz (b : bool) : Z := if b then 1 else 0.
Definition obs_closes (x : inst) : list Z := [Z.of_nat (i_rd_closes x); Z.of_nat (i_wr_closes x)].
Definition usable (x : inst) (via_clone : bool) : bool :=
  if via_clone then (0 <? i_clones x)%nat else i_alive x.
Definition is_panic (r : res) : bool := match r with RPanic => true | _ => false end.
Definition is_abort (r : res) : bool := match r with RAbort => true | _ => false end.

(** what a delivery of [sig] reaches *)
Definition id_registered_for (gl : glob) (id : nat) (sig : Z) : bool :=
  existsb (fun e => Nat.eqb (fst e) id && (snd e =? sig)) (reg gl).
Definition ran (gl : glob) (x : inst) (sig : Z) : bool :=
  existsb (fun kid => id_registered_for gl (snd kid) sig) (i_ids x).
Definition count_sig (gl : glob) (sig : Z) : nat :=
  List.length (filter (fun e => snd e =? sig) (reg gl)).
(** observation: number of actions run, then per instance (its action ran, it reports the signal) *)
Definition deliver_obs (gl : glob) (l : list inst) (sig : Z) : list Z :=
  Z.of_nat (count_sig gl sig) :: flat_map (fun x => [bz (ran gl x sig); bz (i_alive x && ran gl x sig)]) l.

Definition skip (st : state) : out * state := ((RSkip, []), st).

Definition step (os : Z -> bool) (st : state) (o : op) : out * state :=
  if dead st then ((RDead, []), st) else
  match o with
  | ONew e sigs =>
      let '(r, gl, x) := new_loop os sigs (g st) (fresh e) in
      match r with
      | ROk => ((ROk, obs_closes x), mkSt gl (insts st ++ [x]) false)
      | _ =>
          (* `?` or a panic leaves with_pipe: `me` is dropped *)
          let '(r2, gl2, x2) := drop_instance (is_panic r) gl x in
          let rr := match r2 with ROk => r | _ => r2 end in
          ((rr, obs_closes x2), mkSt gl2 (insts st ++ [x2]) (is_abort rr))
      end
  | OAdd i via n =>
      match nth_error (insts st) i with
      | Some x =>
          if usable x via then
            let '(r, gl, x') := add_signal os (g st) x n in
            ((r, []), mkSt gl (upd (insts st) i x') false)
          else skip st
      | None => skip st
      end
  | OClone i =>
      match nth_error (insts st) i with
      | Some x =>
          if i_alive x || (0 <? i_clones x)%nat
          then ((ROk, []), mkSt (g st) (upd (insts st) i (set_clones x (S (i_clones x)))) false)
          else skip st
      | None => skip st
      end
  | ODropHandle i =>
      match nth_error (insts st) i with
      | Some x =>
          if (0 <? i_clones x)%nat then
            let '(r, gl, x') := drop_state_if_last false (g st) (set_clones x (pred (i_clones x))) in
            ((r, obs_closes x'), mkSt gl (upd (insts st) i x') false)
          else skip st
      | None => skip st
      end
  | ODropInst i =>
      match nth_error (insts st) i with
      | Some x =>
          if i_alive x then
            let '(r, gl, x') := drop_instance false (g st) x in
            ((r, obs_closes x'), mkSt gl (upd (insts st) i x') false)
          else skip st
      | None => skip st
      end
  | ODeliver sig => ((ROk, deliver_obs (g st) (insts st) sig), st)
  | OForeign n =>
      match reg_register os (g st) n with
      | (RegOk _, gl) => ((ROk, []), mkSt gl (insts st) false)
      | (RegErr, gl) => ((RErr, []), mkSt gl (insts st) false)
      | (RegPanic, gl) => ((RPanic, []), mkSt gl (insts st) false)
      end
  end.

Fixpoint run (os : Z -> bool) (st : state) (h : list op) : list out * state :=
  match h with
  | [] => ([], st)
  | o :: r =>
      let '(o1, st1) := step os st o in
      let '(os', st2) := run os st1 r in
      (o1 :: os', st2)
  end.

Definition outs (os : Z -> bool) (h : list op) : list out := fst (run os init_state h).
Definition final (os : Z -> bool) (h : list op) : state := snd (run os init_state h).
