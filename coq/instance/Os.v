(** ORACLE: which signal numbers the operating system (glibc's sigaction on Linux) accepts for a
    handler installation.  Validated on every run by the C12 correspondence (every OS-rejected and
    accepted number that the generated histories try is compared with the real outcome).
    The theorems of C12 do not use this table: they quantify over every verdict function. *)
From Coq Require Import ZArith Bool.
Open Scope Z_scope.

(** 1..31 and the real-time signals glibc exposes (34..64); 0, 32, 33 (glibc-internal) and >= 65
    give EINVAL.  SIGKILL/SIGSTOP (also EINVAL) never reach the OS through this code: the
    registry's forbidden assert comes first. *)
Definition os_linux (n : Z) : bool :=
  ((1 <=? n) && (n <=? 31)) || ((34 <=? n) && (n <=? 64)).
