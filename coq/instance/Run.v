(** Entry point of the extracted instance model for the correspondence check
    (integer-list interface, see ocaml/main_template.ml; mirrored in checks/c12.py).

    input  = concatenation of encoded operations
        1 e len s1 .. s_len     ONew  (e: 0 SignalOnly, 1 WithRawSiginfo, 2 WithOrigin)
        2 i via n               OAdd  (via: 0 through the object, 1 through a handle clone)
        3 i                     OClone
        4 i                     ODropHandle
        5 i                     ODropInst
        6 sig                   ODeliver
        7 n                     OForeign
    output = per operation:  res len obs_1 .. obs_len
        res: 0 Ok, 1 Err, 2 Panic, 3 Abort, 4 Skip, 5 Dead
        obs: ONew / ODropHandle / ODropInst: [read end closes; write end closes] of the instance
             ODeliver: number of actions run, then per instance [its action ran; it reports the signal]
    a malformed input gives [-99]. *)
From Coq Require Import ZArith List Bool.
From SH Require Import gen.Extracted_instance instance.Model instance.Os.
Import ListNotations. Open Scope Z_scope.

Definition exf_of (z : Z) : option exfk :=
  if z =? 0 then Some SignalOnly else if z =? 1 then Some WithRawSiginfo else if z =? 2 then Some WithOrigin else None.

Definition zbool (z : Z) : bool := negb (z =? 0).

Fixpoint parse (fuel : nat) (l : list Z) : option (list op) :=
  match fuel with
  | O => match l with [] => Some [] | _ => None end
  | S f =>
    match l with
    | [] => Some []
    | 1 :: e :: len :: r =>
        if (len <? 0) || (Z.of_nat (length r) <? len) then None else
        match exf_of e, parse f (skipn (Z.to_nat len) r) with
        | Some e', Some ops => Some (ONew e' (firstn (Z.to_nat len) r) :: ops)
        | _, _ => None
        end
    | 2 :: i :: via :: n :: r => option_map (cons (OAdd (Z.to_nat i) (zbool via) n)) (parse f r)
    | 3 :: i :: r => option_map (cons (OClone (Z.to_nat i))) (parse f r)
    | 4 :: i :: r => option_map (cons (ODropHandle (Z.to_nat i))) (parse f r)
    | 5 :: i :: r => option_map (cons (ODropInst (Z.to_nat i))) (parse f r)
    | 6 :: s :: r => option_map (cons (ODeliver s)) (parse f r)
    | 7 :: n :: r => option_map (cons (OForeign n)) (parse f r)
    | _ => None
    end
  end.

Definition res_code (r : res) : Z :=
  match r with ROk => 0 | RErr => 1 | RPanic => 2 | RAbort => 3 | RSkip => 4 | RDead => 5 end.

Definition encode_out (o : out) : list Z := res_code (fst o) :: Z.of_nat (length (snd o)) :: snd o.

Definition run_c12 (inp : list Z) : list Z :=
  match parse (length inp) inp with
  | Some ops => flat_map encode_out (outs os_linux ops)
  | None => [-99]
  end.
