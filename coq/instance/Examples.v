(** Non-vacuity: concrete histories meeting the hypotheses of the C12 theorems, evaluated on the
    model built from the extracted skeletons. *)
From Coq Require Import ZArith List Bool.
From SH Require Import gen.Extracted_instance instance.Model instance.Os instance.Defs.
Import ListNotations. Open Scope Z_scope.

(** a panic-rejected add (SIGKILL = 9), then a successful add, a delivery, the drop *)
Example ex_panic_then_ok_then_drop :
  outs os_linux [ONew SignalOnly [10]; OAdd 0 false 9; OAdd 0 false 12; ODeliver 12; ODeliver 10;
                 ODropInst 0; ODeliver 12]
  = [(ROk, [0; 0]); (RPanic, []); (ROk, []); (ROk, [1; 1; 1]); (ROk, [1; 1; 1]);
     (ROk, [1; 1]); (ROk, [0; 0; 0])].
Proof. vm_compute. reflexivity. Qed.

(** every kind of rejection, for every exfiltrator: forbidden, negative, too large (panics),
    refused by the OS (error, twice in a row), then business as usual *)
Example ex_all_rejections : forall e,
  outs os_linux [ONew e [10]; OAdd 0 false 9; OAdd 0 false (-1); OAdd 0 false 128; OAdd 0 false (-2147483648);
                 OAdd 0 false 2147483647; OAdd 0 false 100; OAdd 0 false 100; OAdd 0 false 0; OAdd 0 false 33;
                 OAdd 0 false 10; OAdd 0 false 12; ODeliver 10; ODeliver 12]
  = [(ROk, [0; 0]); (RPanic, []); (RPanic, []); (RPanic, []); (RPanic, []);
     (RPanic, []); (RErr, []); (RErr, []); (RErr, []); (RErr, []);
     (ROk, []); (ROk, []); (ROk, [1; 1; 1]); (ROk, [1; 1; 1])].
Proof. intros []; vm_compute; reflexivity. Qed.

Example ex_rejected_hypothesis :
  rejected (fst (fst (step os_linux (final os_linux [ONew WithRawSiginfo [10]]) (OAdd 0 false 100)))) /\
  rejected (fst (fst (step os_linux (final os_linux [ONew WithRawSiginfo [10]]) (OAdd 0 false 9)))).
Proof. split; [left|right]; vm_compute; reflexivity. Qed.

(** failing constructors: by panic and by error; what they registered first is gone, the pipe is
    closed, other registrations (foreign, another instance) are untouched *)
Example ex_failed_constructor : forall e,
  outs os_linux [OForeign 10; ONew SignalOnly [10]; ONew e [10; 12; 9]; ONew e [12; 100]; ODeliver 10; ODeliver 12]
  = [(ROk, []); (ROk, [0; 0]); (RPanic, [1; 1]); (RErr, [1; 1]);
     (ROk, [2; 1; 1; 0; 0; 0; 0]); (ROk, [0; 0; 0; 0; 0; 0; 0])].
Proof. intros []; vm_compute; reflexivity. Qed.

(** handles keep the registrations alive after the object is dropped; the last owner cleans up *)
Example ex_cleanup_by_last_owner :
  outs os_linux [ONew WithOrigin [10]; OClone 0; OClone 0; ODropInst 0; OAdd 0 true 12; OAdd 0 false 14;
                 ODeliver 12; ODropHandle 0; ODeliver 10; ODropHandle 0; ODeliver 10; ODeliver 12;
                 ODropHandle 0; OAdd 0 true 10]
  = [(ROk, [0; 0]); (ROk, []); (ROk, []); (ROk, [1; 0]); (ROk, []); (RSkip, []);
     (ROk, [1; 1; 0]); (ROk, [1; 0]); (ROk, [1; 1; 0]); (ROk, [1; 1]); (ROk, [0; 0; 0]); (ROk, [0; 0; 0]);
     (RSkip, []); (RSkip, [])].
Proof. vm_compute. reflexivity. Qed.

(** the index expression: a negative c_int becomes a huge usize *)
Example ex_as_usize : as_usize (-1) = 18446744073709551615 /\ as_usize (-2147483648) = 18446744071562067968 /\ as_usize 5 = 5.
Proof. repeat split. Qed.

(** watched / gone are inhabited in reachable states *)
Example ex_watched :
  exists x, nth_error (insts (final os_linux [ONew SignalOnly [10]; OAdd 0 false 9])) 0 = Some x /\
            watched x 10 /\ usable x false = true /\ i_poisoned x = true.
Proof. eexists. split; [vm_compute; reflexivity|]. repeat split; vm_compute; congruence. Qed.

Example ex_gone :
  exists x, nth_error (insts (final os_linux [ONew SignalOnly [10]; ODropInst 0])) 0 = Some x /\ gone x /\ recorded x = [0%nat].
Proof. eexists. split; [vm_compute; reflexivity|]. split; vm_compute; reflexivity. Qed.
