(** The C12 statements, over all histories. *)
From Coq Require Import ZArith List Bool Lia.
From SH Require Import gen.Extracted_instance instance.Model instance.Spec instance.Defs instance.Bisim instance.Invariant.
Import ListNotations. Open Scope Z_scope.

Lemma outs_app : forall os h k,
  outs os (h ++ k) = outs os h ++ fst (run os (final os h) k).
Proof. intros. unfold outs, final. now rewrite run_app. Qed.

Lemma final_app : forall os h k, final os (h ++ k) = snd (run os (final os h) k).
Proof. intros. unfold final. now rewrite run_app. Qed.

Lemma outs_length : forall os h, length (outs os h) = length h.
Proof. intros. apply run_length. Qed.

(** ** a rejected add_signal is a no-op *)
Theorem rejected_add_is_noop : forall (os : Z -> bool) (h k : list op) (i : nat) (via : bool) (n : Z),
  let call := OAdd i via n in
  let own := fst (step os (final os h) call) in
  rejected (fst own) ->
  nth_error (outs os (h ++ call :: k)) (length h) = Some own /\
  remove_nth (length h) (outs os (h ++ call :: k)) = outs os (h ++ k) /\
  obs_eq (final os (h ++ [call])) (final os h) /\
  obs_eq (final os (h ++ call :: k)) (final os (h ++ k)).
Proof.
  intros os h k i via n call own R.
  pose proof (step_add_rejected os (final os h) i via n R) as E.
  fold call in E.
  assert (S : run os (final os h) (call :: k) =
              (own :: fst (run os (snd (step os (final os h) call)) k), snd (run os (snd (step os (final os h) call)) k))).
  { cbn [run]. unfold own. destruct (step os (final os h) call) as [o1 s1]. cbn.
    destruct (run os s1 k). reflexivity. }
  pose proof (run_obs_eq os k _ _ E) as (O1 & O2).
  split; [|split; [|split]].
  - rewrite outs_app, S. cbn [fst]. rewrite nth_error_app2; rewrite outs_length; [|lia].
    now rewrite Nat.sub_diag.
  - rewrite outs_app, S. cbn [fst]. rewrite <- (outs_length os h), remove_nth_app, O1. now rewrite <- outs_app.
  - rewrite final_snoc. exact E.
  - rewrite !final_app, S. cbn [snd]. exact O2.
Qed.

(** ** no history aborts the process *)
Lemma add_spec_res : forall os gl x n r gl' x', add_spec os gl x n = (r, gl', x') -> r = ROk \/ rejected r.
Proof. intros. eapply add_spec_keeps_owners; eauto. Qed.

Lemma step_no_abort : forall os st o, Inv st ->
  fst (fst (step os st o)) <> RAbort /\ fst (fst (step os st o)) <> RDead.
Proof.
  intros os st o I. pose proof (inv_dead _ I) as D.
  destruct o as [e sigs|i via n|i|i|i|sig|n].
  - pose proof (step_new os st e sigs D) as S.
    destruct (new_loop os sigs (g st) (fresh e)) as [[r gl] x] eqn:L.
    destruct (new_loop_Inv os sigs (mkSt (g st) (insts st ++ [fresh e]) false) (length (insts st)) (fresh e) r gl x
                (Inv_fresh st e I) (nth_app_last _ _) eq_refl L) as (_ & _ & _ & R).
    rewrite S. destruct R as [->|[-> | ->]]; cbn; split; discriminate.
  - unfold step. rewrite D.
    destruct (nth_error (insts st) i) as [x|]; [|cbn; split; discriminate].
    destruct (usable x via); [|cbn; split; discriminate].
    rewrite add_closed. destruct (add_spec os (g st) x n) as [[r gl] x'] eqn:A. cbn.
    destruct (add_spec_res _ _ _ _ _ _ _ A) as [->|[-> | ->]]; split; discriminate.
  - unfold step. rewrite D.
    destruct (nth_error (insts st) i) as [x|]; [|cbn; split; discriminate].
    destruct (i_alive x || (0 <? i_clones x)%nat); cbn; split; discriminate.
  - unfold step. rewrite D.
    destruct (nth_error (insts st) i) as [x|]; [|cbn; split; discriminate].
    destruct (0 <? i_clones x)%nat; [|cbn; split; discriminate].
    rewrite drop_state_closed, drop_last_finalize. cbn. split; discriminate.
  - unfold step. rewrite D.
    destruct (nth_error (insts st) i) as [x|]; [|cbn; split; discriminate].
    destruct (i_alive x); [|cbn; split; discriminate].
    rewrite drop_instance_closed, drop_last_finalize. cbn. split; discriminate.
  - unfold step. rewrite D. cbn. split; discriminate.
  - unfold step. rewrite D. destruct (reg_register os (g st) n) as [[id| |] gl]; cbn; split; discriminate.
Qed.

Lemma run_no_abort : forall os h st, Inv st ->
  Forall (fun o : out => fst o <> RAbort /\ fst o <> RDead) (fst (run os st h)).
Proof.
  induction h as [|o h IH]; intros st I; cbn; [constructor|].
  pose proof (step_no_abort os st o I) as N. pose proof (step_Inv os st o I) as I1.
  destruct (step os st o) as [o1 s1]. cbn in *. specialize (IH s1 I1).
  destruct (run os s1 h). cbn in *. constructor; auto.
Qed.

Theorem never_aborts : forall (os : Z -> bool) (h : list op),
  Forall (fun o : out => fst o <> RAbort /\ fst o <> RDead) (outs os h) /\ dead (final os h) = false.
Proof.
  intros. split; [apply run_no_abort, Inv_init|apply inv_dead, final_Inv].
Qed.

(** ** re-adding a watched signal *)
Theorem readd_is_identity : forall (os : Z -> bool) (h : list op) (i : nat) (via : bool) (n : Z) (x : inst),
  nth_error (insts (final os h)) i = Some x -> usable x via = true -> watched x n ->
  step os (final os h) (OAdd i via n) = ((ROk, []), final os h).
Proof.
  intros os h i via n x Hx U ((W1 & W2) & W3).
  pose proof (inv_dead _ (final_Inv os h)) as D.
  unfold step. rewrite D, Hx, U, add_closed. unfold add_spec.
  assert (B : (0 <=? n) && (n <? MAX_SIGNUM) = true).
  { apply andb_true_intro. split; [now apply Z.leb_le|now apply Z.ltb_lt]. }
  rewrite B. destruct (lookup n (i_ids x)); [|contradiction].
  rewrite (upd_same _ _ _ Hx), (state_eta _ D). reflexivity.
Qed.

(** ** a failing constructor *)
Lemma new_loop_reg : forall os sigs gl x r gl' x',
  new_loop os sigs gl x = (r, gl', x') ->
  exists news,
    reg gl' = reg gl ++ news /\ (next_id gl <= next_id gl')%nat /\
    (forall e, In e news -> In (fst e) (recorded x') /\ (next_id gl <= fst e)%nat) /\
    (forall id, In id (recorded x') -> In id (recorded x) \/ (next_id gl <= id)%nat) /\
    (forall id, In id (recorded x) -> In id (recorded x')).
Proof.
  induction sigs as [|n sigs IH]; intros gl x r gl' x' H; cbn [new_loop] in H.
  - inversion H; subst. exists []. rewrite app_nil_r.
    split; [reflexivity|]. split; [lia|]. split; [intros e []|]. split; auto.
  - rewrite add_closed in H. destruct (add_spec os gl x n) as [[o g1] x1] eqn:A.
    destruct (add_spec_cases _ _ _ _ _ _ _ A) as [(-> & -> & ->)|[(-> & -> & E)|(R & -> & E)]].
    + eauto.
    + destruct (IH _ _ _ _ _ H) as (news & N1 & N2 & N3 & N4 & N5).
      assert (Rec : recorded x1 = next_id gl :: recorded x) by (rewrite (inst_eq_recorded _ _ E); reflexivity).
      exists ((next_id gl, n) :: news). rewrite N1, registered_reg, <- app_assoc. cbn [app].
      rewrite registered_next in *.
      split; [reflexivity|]. split; [lia|]. split; [|split].
      * intros e [<-|He]; cbn.
        -- split; [|lia]. apply N5. rewrite Rec. left; reflexivity.
        -- destruct (N3 _ He). split; [assumption|lia].
      * intros id Hid. destruct (N4 _ Hid) as [Hin|Hge]; [|right; lia].
        rewrite Rec in Hin. destruct Hin as [<-|Hin]; [right; lia|left; assumption].
      * intros id Hid. apply N5. rewrite Rec. right. assumption.
    + assert (Rec : recorded x1 = recorded x) by apply (inst_eq_recorded _ _ E).
      destruct R as [-> | ->]; inversion H; subst; exists []; rewrite app_nil_r, Rec;
        (split; [reflexivity|]; split; [lia|]; split; [intros e []|]; split; auto).
Qed.

Theorem failed_constructor_registers_nothing : forall (os : Z -> bool) (h : list op) (e : exfk) (sigs : list Z),
  let st := final os h in
  let st' := final os (h ++ [ONew e sigs]) in
  let own := fst (step os st (ONew e sigs)) in
  rejected (fst own) ->
  reg (g st') = reg (g st) /\
  exists x, insts st' = insts st ++ [x] /\ gone x /\ i_rd_closes x = 1%nat /\ i_wr_closes x = 1%nat /\
            snd own = [1; 1] /\
            (forall en, In en (reg (g st')) -> ~ In (fst en) (recorded x)).
Proof.
  intros os h e sigs st st' own R. subst st' own.
  rewrite final_snoc. fold st in R |- *.
  pose proof (final_Inv os h) as I. fold st in I. pose proof (inv_dead _ I) as D.
  pose proof (step_Inv os st (ONew e sigs) I) as I'.
  pose proof (step_new os st e sigs D) as S.
  destruct (new_loop os sigs (g st) (fresh e)) as [[r gl] x] eqn:L.
  destruct (new_loop_Inv os sigs (mkSt (g st) (insts st ++ [fresh e]) false) (length (insts st)) (fresh e) r gl x
              (Inv_fresh st e I) (nth_app_last _ _) eq_refl L) as (_ & A & C & _).
  cbn in C.
  destruct (new_loop_reg _ _ _ _ _ _ _ L) as (news & N1 & N2 & N3 & N4 & _).
  rewrite S in *.
  assert (G : gone_b (set_dropped x) = true) by (unfold gone_b; cbn; now rewrite C).
  assert (F : finalize gl (set_dropped x) = (unregister_all gl (recorded x), set_wr_closed (set_dropped x))).
  { unfold finalize. now rewrite G. }
  assert (Cl : closes_ok (set_wr_closed (set_dropped x)) /\ reg_ok (unregister_all gl (recorded x)) (set_wr_closed (set_dropped x))).
  { destruct r; try (exfalso; destruct R; discriminate); rewrite F in I'; cbn [snd fst] in I';
      (split; [eapply (inv_closes _ I' (length (insts st))) | eapply (inv_reg _ I' (length (insts st)))]);
      cbn [insts]; apply nth_app_last. }
  destruct Cl as ((C1 & C2) & RO).
  set (X := set_wr_closed (set_dropped x)) in *.
  assert (GX : gone_b X = true) by exact G.
  unfold reg_ok in RO. rewrite GX in RO, C2. change (i_alive X) with false in C1.
  assert (Q : reg (unregister_all gl (recorded x)) = reg (g st)).
  { unfold unregister_all. cbn [reg]. rewrite N1, filter_app.
    rewrite (filter_all _ (reg (g st))), (filter_none _ news), app_nil_r; auto.
    - intros en He. destruct (N3 _ He) as (Hin & _). apply existsb_nat_In in Hin. now rewrite Hin.
    - intros en He. apply negb_true_iff. destruct (existsb (Nat.eqb (fst en)) (recorded x)) eqn:Ex; [|reflexivity].
      apply existsb_nat_In in Ex. destruct (N4 _ Ex) as [[]|Hge].
      pose proof (inv_reg_fresh _ I _ He). lia. }
  destruct r; try (exfalso; destruct R; discriminate); rewrite F; cbn [fst snd g insts];
    (split; [exact Q|]; exists X; split; [reflexivity|]; split; [exact GX|];
     split; [exact C1|]; split; [exact C2|]; split;
     [unfold obs_closes; rewrite C1, C2; reflexivity| exact RO]).
Qed.

(** ** cleanup *)
Theorem cleanup : forall (os : Z -> bool) (h : list op) (i : nat) (x : inst),
  nth_error (insts (final os h)) i = Some x ->
  (gone x ->
     (forall e, In e (reg (g (final os h))) -> ~ In (fst e) (recorded x)) /\
     i_rd_closes x = 1%nat /\ i_wr_closes x = 1%nat) /\
  (~ gone x ->
     (forall k id, In (k, id) (i_ids x) -> In (id, k) (reg (g (final os h)))) /\
     i_wr_closes x = 0%nat /\ i_rd_closes x = (if i_alive x then 0 else 1)%nat).
Proof.
  intros os h i x Hx. pose proof (final_Inv os h) as I.
  pose proof (inv_closes _ I _ _ Hx) as (C1 & C2). pose proof (inv_reg _ I _ _ Hx) as R.
  unfold reg_ok, gone in *. split; intros G.
  - rewrite G in *. repeat split; auto.
    unfold gone_b in G. apply andb_prop in G as (G & _). apply negb_true_iff in G. now rewrite G in C1.
  - destruct (gone_b x); [exfalso; auto|]. auto.
Qed.

Theorem ids_disjoint : forall (os : Z -> bool) (h : list op) (i j : nat) (x y : inst) (id : nat),
  nth_error (insts (final os h)) i = Some x -> nth_error (insts (final os h)) j = Some y ->
  In id (recorded x) -> In id (recorded y) -> i = j.
Proof. intros os h. apply (inv_disjoint _ (final_Inv os h)). Qed.

Lemma trans_removed : forall gl x g' x' e,
  trans gl x g' x' -> In e (reg gl) -> ~ In e (reg g') ->
  gone_b x = false /\ gone_b x' = true /\ In (fst e) (recorded x').
Proof.
  intros gl x g' x' e T He Hn. destruct T as [x' E | x' n G E | G | x1 R].
  - contradiction.
  - exfalso. apply Hn. rewrite registered_reg. apply in_or_app. auto.
  - contradiction.
  - unfold finalize in *. destruct (gone_b x1) eqn:G1; cbn [fst snd] in *; [|contradiction].
    split; [eapply release_not_gone; eauto|]. split; [exact G1|].
    change (recorded (set_wr_closed x1)) with (recorded x1).
    destruct (in_dec Nat.eq_dec (fst e) (recorded x1)) as [Hin|Hout]; [assumption|].
    exfalso. apply Hn. apply In_unregister_all. auto.
Qed.

Theorem cleanup_only_own : forall (os : Z -> bool) (h : list op) (o : op) (e : nat * Z),
  In e (reg (g (final os h))) -> ~ In e (reg (g (final os (h ++ [o])))) ->
  exists i x x',
    nth_error (insts (final os h)) i = Some x /\ ~ gone x /\
    nth_error (insts (final os (h ++ [o]))) i = Some x' /\ gone x' /\ In (fst e) (recorded x').
Proof.
  intros os h o e He Hn. rewrite final_snoc in *.
  pose proof (final_Inv os h) as I. pose proof (inv_dead _ I) as D.
  destruct (step_shape os (final os h) o D) as [(i & x & g' & x' & Hx & T & S)|[S|[(n & S)|(e0 & sigs & ->)]]].
  - rewrite S in *. cbn [g insts] in *.
    destruct (trans_removed _ _ _ _ _ T He Hn) as (G & G' & Hin).
    exists i, x, x'. split; [assumption|]. split; [unfold gone; congruence|].
    split; [eapply nth_upd_eq; eauto|]. split; assumption.
  - rewrite S in Hn. contradiction.
  - rewrite S in Hn. cbn [g] in Hn. exfalso. apply Hn. rewrite registered_reg. apply in_or_app. auto.
  - exfalso. apply Hn.
    pose proof (step_new os (final os h) e0 sigs D) as S.
    destruct (new_loop os sigs (g (final os h)) (fresh e0)) as [[r gl] x] eqn:L.
    destruct (new_loop_reg _ _ _ _ _ _ _ L) as (news & N1 & _).
    destruct r.
    + rewrite S. cbn [snd g]. rewrite N1. apply in_or_app. auto.
    + pose proof (failed_constructor_registers_nothing os h e0 sigs) as F. cbn zeta in F.
      rewrite final_snoc in F. destruct F as (F & _); [rewrite S; cbn; left; reflexivity|]. now rewrite F.
    + pose proof (failed_constructor_registers_nothing os h e0 sigs) as F. cbn zeta in F.
      rewrite final_snoc in F. destruct F as (F & _); [rewrite S; cbn; right; reflexivity|]. now rewrite F.
    + exfalso. destruct (new_loop_Inv os sigs (mkSt (g (final os h)) (insts (final os h) ++ [fresh e0]) false) (length (insts (final os h))) (fresh e0) _ gl x
                (Inv_fresh _ e0 I) (nth_app_last _ _) eq_refl L) as (_ & _ & _ & [R|[R|R]]); discriminate.
    + exfalso. destruct (new_loop_Inv os sigs (mkSt (g (final os h)) (insts (final os h) ++ [fresh e0]) false) (length (insts (final os h))) (fresh e0) _ gl x
                (Inv_fresh _ e0 I) (nth_app_last _ _) eq_refl L) as (_ & _ & _ & [R|[R|R]]); discriminate.
    + exfalso. destruct (new_loop_Inv os sigs (mkSt (g (final os h)) (insts (final os h) ++ [fresh e0]) false) (length (insts (final os h))) (fresh e0) _ gl x
                (Inv_fresh _ e0 I) (nth_app_last _ _) eq_refl L) as (_ & _ & _ & [R|[R|R]]); discriminate.
Qed.

(** ** a watched signal is delivered to the instance *)
Theorem watched_is_delivered : forall (os : Z -> bool) (h : list op) (i : nat) (x : inst) (n : Z),
  nth_error (insts (final os h)) i = Some x -> ~ gone x -> watched x n ->
  ran (g (final os h)) x n = true.
Proof.
  intros os h i x n Hx G (_ & W).
  destruct (cleanup os h i x Hx) as (_ & L). destruct (L G) as (L1 & _).
  destruct (lookup n (i_ids x)) as [id|] eqn:Hl; [|contradiction].
  apply lookup_In in Hl. specialize (L1 _ _ Hl).
  unfold ran. apply existsb_exists. exists (n, id). split; [assumption|].
  unfold id_registered_for. apply existsb_exists. exists (id, n). split; [assumption|].
  cbn. now rewrite Nat.eqb_refl, Z.eqb_refl.
Qed.
