(** Vocabulary of the C12 statements (no proofs). *)
From Coq Require Import ZArith List Bool.
From SH Require Import gen.Extracted_instance instance.Model.
Import ListNotations. Open Scope Z_scope.

(** an [add_signal] / constructor call is rejected: it returned an error or panicked as documented *)
Definition rejected (r : res) : Prop := r = RErr \/ r = RPanic.

(** Two instances are observably equal when they agree on everything except
      - [i_poisoned] (the poison flag of the id-table mutex), and
      - [i_inited]   (which exfiltrator slots own an allocated channel);
    i.e. on the exfiltrator, the table of watched signals and their action ids, whether the object
    and how many handle clones are alive, and how often each pipe end was closed. *)
Definition inst_eq (x y : inst) : Prop :=
  i_exf x = i_exf y /\ i_ids x = i_ids y /\ i_alive x = i_alive y /\ i_clones x = i_clones y /\
  i_rd_closes x = i_rd_closes y /\ i_wr_closes x = i_wr_closes y.

(** States: the registry (registered actions, next id, taken-over dispositions) and the dead flag
    are equal, the instances pairwise observably equal. *)
Definition obs_eq (s t : state) : Prop :=
  g s = g t /\ dead s = dead t /\ Forall2 inst_eq (insts s) (insts t).

(** [n] is in the instance's watched set *)
Definition watched (x : inst) (n : Z) : Prop :=
  0 <= n < MAX_SIGNUM /\ lookup n (i_ids x) <> None.

(** the action ids the instance recorded in its table *)
Definition recorded (x : inst) : list nat := map snd (i_ids x).

(** the object and every handle clone are gone *)
Definition gone_b (x : inst) : bool := negb (i_alive x) && Nat.eqb (i_clones x) 0.
Definition gone (x : inst) : Prop := gone_b x = true.

Fixpoint remove_nth {A} (n : nat) (l : list A) : list A :=
  match n, l with
  | _, [] => []
  | O, _ :: r => r
  | S n', a :: r => a :: remove_nth n' r
  end.

Definition reg_ids (gl : glob) : list nat := map fst (reg gl).
