(** Complete call lists of the functions component [flag] is modelled on, as they were when the
    model was written (translator/calls.py extracts the current ones on every run).  A lemma that
    fails names the function whose calls changed: re-read it, adapt the model if needed, then
    restate the list. *)
From Coq Require Import List String.
From SH Require Import gen.Extracted_calls_flag.
Import ListNotations. Open Scope string_scope.

Lemma calls_register_ok : calls_register =
  ["low_level::register"; ".store"].
Proof. reflexivity. Qed.

Lemma calls_register_usize_ok : calls_register_usize =
  ["low_level::register"; ".store"].
Proof. reflexivity. Qed.

Lemma calls_register_conditional_shutdown_ok : calls_register_conditional_shutdown =
  [".load"; "low_level::exit"; "low_level::register"].
Proof. reflexivity. Qed.

Lemma calls_register_conditional_default_ok : calls_register_conditional_default =
  ["low_level::signal_name"; ".ok_or_else"; "Error::from_raw_os_error"; "?"; ".load"; "low_level::emulate_default_handler"; "low_level::register"].
Proof. reflexivity. Qed.

Lemma calls_ll_exit_ok : calls_ll_exit =
  ["libc::_exit"].
Proof. reflexivity. Qed.

Lemma calls_ll_abort_ok : calls_ll_abort =
  ["libc::abort"].
Proof. reflexivity. Qed.

Lemma calls_ll_raise_ok : calls_ll_raise =
  ["libc::raise"; "Error::last_os_error"].
Proof. reflexivity. Qed.

Lemma calls_handler_ok : calls_handler =
  ["GlobalData::get"; ".read"; ".read"; ".get"; ".execute"; ".as_ref"; ".unwrap_or_else"; "libc::write"; ".as_ptr"; ".len"; "libc::abort"; ".values"; "action"; ".as_ref"; ".execute"].
Proof. reflexivity. Qed.
