(** Proofs about the flag model (DESIGN 5.15).  The lemmas in the first section are the
    obligations that tie the proofs to the extracted data: each is closed by computation on
    [Extracted_flag] and fails when the source changes what an action does. *)
From Coq Require Import ZArith List String Bool Lia.
From SH Require Import gen.Extracted_flag flag.Model.
From SH Require details.Kernel details.Model.
Import ListNotations. Open Scope Z_scope. Open Scope list_scope.

Arguments details.Model.emulate : simpl never.
Arguments Z.modulo : simpl never.
Arguments Z.eqb : simpl never.
Arguments Z.ltb : simpl never.
Arguments Z.add : simpl never.

(** * 1. Obligations discharged from the extracted data *)

Definition stmt_ord (s : stmt) : ordering :=
  match s with SStore _ _ o => o | SIfLoad _ o _ _ => o end.
Definition is_seqcst (o : ordering) : bool := match o with SeqCst => true | _ => false end.
Definition all_fns : list fn_desc :=
  [fn_register; fn_register_usize; fn_register_conditional_shutdown; fn_register_conditional_default].

(** premise of the sequentially consistent flag map *)
Lemma orderings_all_seqcst :
  forallb (fun d => forallb (fun s => is_seqcst (stmt_ord s)) (fd_body d)) all_fns = true.
Proof. reflexivity. Qed.

Lemma exit_skips_hooks : atexit_hooks_run exit_libc_fn = false.
Proof. reflexivity. Qed.

Lemma ids_increase : 0 < id_step /\ id_taken_before_step = true.
Proof. split; reflexivity. Qed.

(** what one action does, written out; equal to the interpretation of the extracted body *)
Definition emu (sig : Z) (m : mem) : result :=
  match term_of_outcome (details.Model.emulate in_handler sig) with
  | Some t => Stop t m
  | None => Continue m
  end.

Definition spec_action (sig : Z) (a : action) (m : mem) : result :=
  match a with
  | SetBool f => Continue (set_flag m f 1)
  | SetUsize f v => Continue (set_flag m f v)
  | CondExit status c => if fl m c =? 0 then Continue m else Stop (Exited (status mod 256) false) m
  | CondDefault c => if fl m c =? 0 then Continue m else emu sig m
  | Observe k => Continue {| fl := fl m; tr := EvObserve k (fl m) :: tr m |}
  end.

Lemma run_action_spec sig a m : run_action sig a m = spec_action sig a m.
Proof.
  destruct a as [f|f v|status c|c|k].
  - (* flag::register *) reflexivity.
  - (* flag::register_usize *) reflexivity.
  - (* flag::register_conditional_shutdown *)
    unfold run_action, spec_action, desc_of, env_of, desc_of. cbn. unfold truthy, wait_status.
    destruct (fl m c =? 0); reflexivity.
  - (* flag::register_conditional_default *)
    unfold run_action, spec_action, desc_of, env_of, desc_of. cbn. unfold truthy, emu.
    destruct (fl m c =? 0); cbn; [reflexivity|].
    destruct (term_of_outcome (details.Model.emulate in_handler sig)); reflexivity.
  - (* observer *) reflexivity.
Qed.

Lemma reg_signal_spec sig a : reg_signal sig a = Some sig.
Proof. destruct a; reflexivity. Qed.

Lemma reg_precheck_spec a :
  reg_precheck a = match a with CondDefault _ => true | _ => false end.
Proof. destruct a; reflexivity. Qed.

Lemma deliver_eq sig s : deliver sig s = run_actions sig (actions_for sig (reg s)) (st_mem s).
Proof.
  unfold deliver, dispatch_skeleton. cbn [dispatch ordered].
  destruct (run_actions sig (actions_for sig (reg s)) (st_mem s)); reflexivity.
Qed.

(** * 2. Sequences of actions *)

Lemma run_actions_app sig l1 l2 m :
  run_actions sig (l1 ++ l2) m =
  match run_actions sig l1 m with Continue m' => run_actions sig l2 m' | stop => stop end.
Proof.
  revert m. induction l1 as [|a l1 IH]; intro m; cbn [app run_actions]; [reflexivity|].
  destruct (run_action sig a m); [apply IH|reflexivity].
Qed.

Lemma run_actions_stop_iff sig l : forall m t m',
  run_actions sig l m = Stop t m' <->
  exists pre a post m1, l = pre ++ a :: post /\ run_actions sig pre m = Continue m1 /\
                        run_action sig a m1 = Stop t m'.
Proof.
  induction l as [|a0 l IH]; intros m t m'.
  - cbn. split; [discriminate|]. intros (pre & a & post & m1 & H & _). destruct pre; discriminate.
  - cbn [run_actions]. destruct (run_action sig a0 m) as [m0|t0 m0] eqn:E.
    + rewrite IH. split.
      * intros (pre & a & post & m1 & Hl & Hp & Ha). exists (a0 :: pre), a, post, m1.
        subst l. cbn [app run_actions]. rewrite E. auto.
      * intros (pre & a & post & m1 & Hl & Hp & Ha). destruct pre as [|x pre].
        -- cbn in Hl, Hp. injection Hl as <- _. injection Hp as <-. rewrite E in Ha. discriminate.
        -- cbn [app] in Hl. injection Hl as <- ->. cbn [run_actions] in Hp. rewrite E in Hp.
           exists pre, a, post, m1. auto.
    + split.
      * intro H. injection H as <- <-. exists [], a0, l, m. cbn. auto.
      * intros (pre & a & post & m1 & Hl & Hp & Ha). destruct pre as [|x pre].
        -- cbn in Hl, Hp. injection Hl as <- _. injection Hp as <-. rewrite E in Ha. exact Ha.
        -- cbn [app] in Hl. injection Hl as <- _. cbn [run_actions] in Hp. rewrite E in Hp. discriminate.
Qed.

Lemma stop_keeps_mem sig a m t m' : run_action sig a m = Stop t m' -> m' = m.
Proof.
  rewrite run_action_spec. destruct a; cbn; try discriminate.
  - destruct (fl m c =? 0); [discriminate|]. intro H. now injection H.
  - destruct (fl m c =? 0); [discriminate|]. unfold emu.
    destruct (term_of_outcome _); [|discriminate]. intro H. now injection H.
Qed.

Lemma exit_action_iff sig a m w h m' :
  run_action sig a m = Stop (Exited w h) m' <->
  exists status c, a = CondExit status c /\ fl m c <> 0 /\ w = status mod 256 /\ h = false /\ m' = m.
Proof.
  rewrite run_action_spec. split.
  - destruct a; cbn; try discriminate.
    + destruct (fl m c =? 0) eqn:E; [discriminate|]. intro H. injection H as <- <- <-.
      apply Z.eqb_neq in E. exists status, c. auto.
    + destruct (fl m c =? 0); [discriminate|]. unfold emu.
      destruct (details.Model.emulate in_handler sig); cbn; discriminate.
  - intros (status & c & -> & Hc & -> & -> & ->). cbn.
    apply Z.eqb_neq in Hc. rewrite Hc. reflexivity.
Qed.

(** flags after a sequence that ran to its end *)
Definition setter (a : action) : option (Z * Z) :=
  match a with SetBool f => Some (f, 1) | SetUsize f v => Some (f, v) | _ => None end.

Fixpoint last_set (f : Z) (l : list action) : option Z :=
  match l with
  | [] => None
  | a :: r => match last_set f r with
              | Some v => Some v
              | None => match setter a with
                        | Some (g, v) => if g =? f then Some v else None
                        | None => None
                        end
              end
  end.

Lemma action_flags sig a m m' f :
  run_action sig a m = Continue m' ->
  fl m' f = match setter a with
            | Some (g, v) => if g =? f then v else fl m f
            | None => fl m f
            end.
Proof.
  rewrite run_action_spec. destruct a; cbn.
  - intro H. injection H as <-. cbn. unfold upd. rewrite (Z.eqb_sym f0 f). reflexivity.
  - intro H. injection H as <-. cbn. unfold upd. rewrite (Z.eqb_sym f0 f). reflexivity.
  - destruct (fl m c =? 0); [|discriminate]. intro H. now injection H as <-.
  - destruct (fl m c =? 0).
    + intro H. now injection H as <-.
    + unfold emu. destruct (term_of_outcome _); [discriminate|]. intro H. now injection H as <-.
  - intro H. now injection H as <-.
Qed.

Lemma run_actions_flags sig l : forall m m' f,
  run_actions sig l m = Continue m' ->
  fl m' f = match last_set f l with Some v => v | None => fl m f end.
Proof.
  induction l as [|a l IH]; intros m m' f H.
  - cbn in *. now injection H as <-.
  - cbn [run_actions] in H. destruct (run_action sig a m) as [m1|] eqn:E; [|discriminate].
    rewrite (IH _ _ f H). cbn [last_set]. destruct (last_set f l); [reflexivity|].
    rewrite (action_flags _ _ _ _ f E). destruct (setter a) as [[g v]|]; [|reflexivity].
    destruct (g =? f); reflexivity.
Qed.

Lemma last_set_some f l v :
  last_set f l = Some v -> exists a, In a l /\ setter a = Some (f, v).
Proof.
  induction l as [|a l IH]; cbn; [discriminate|].
  destruct (last_set f l) as [v'|].
  - intro H. injection H as ->. destruct (IH eq_refl) as (a' & Hin & Hs). eauto.
  - destruct (setter a) as [[g v']|] eqn:E; [|discriminate].
    destruct (g =? f) eqn:G; [|discriminate]. intro H. injection H as ->.
    apply Z.eqb_eq in G. subst g. eauto.
Qed.

Lemma last_set_none f l :
  last_set f l = None -> forall a v, In a l -> setter a <> Some (f, v).
Proof.
  induction l as [|a l IH]; cbn; [intros _ a v []|].
  destruct (last_set f l) as [v'|]; [discriminate|].
  intros H a' v [<-|Hin].
  - destruct (setter a) as [[g v']|]; [|discriminate].
    destruct (g =? f) eqn:G; [discriminate|]. intro E. injection E as -> _.
    rewrite Z.eqb_refl in G. discriminate.
  - now apply IH.
Qed.

(** * 3. Registry invariant: ids handed out so far are below [next_id] *)

Definition wf (s : state) : Prop := Forall (fun e => e_id e < next_id s) (reg s).

Lemma wf_init : wf init.
Proof. constructor. Qed.

Lemma insert_last e r : Forall (fun x => e_id x < e_id e) r -> insert e r = r ++ [e].
Proof.
  induction 1 as [|x r Hx _ IH]; [reflexivity|]. cbn [insert app].
  destruct (e_id e <? e_id x) eqn:A; [apply Z.ltb_lt in A; lia|].
  destruct (e_id e =? e_id x) eqn:B; [apply Z.eqb_eq in B; lia|].
  now rewrite IH.
Qed.

Lemma actions_for_app sig r1 r2 : actions_for sig (r1 ++ r2) = actions_for sig r1 ++ actions_for sig r2.
Proof. unfold actions_for. now rewrite filter_app, map_app. Qed.

Definition registered (sig : Z) (a : action) (s : state) : state :=
  {| st_mem := st_mem s; reg := reg s ++ [{| e_id := next_id s; e_sig := sig; e_act := a |}];
     next_id := next_id s + id_step; halted := halted s |}.

Definition refused (sig : Z) (a : action) : bool :=
  match a with CondDefault _ => negb (details.Model.known sig) | _ => false end.

Lemma register_spec sig a s :
  wf s ->
  register_op sig a s = if refused sig a then (s, None) else (registered sig a s, Some (next_id s)).
Proof.
  intro W. unfold register_op. rewrite reg_signal_spec, reg_precheck_spec.
  assert (R : (match a with CondDefault _ => true | _ => false end && negb (details.Model.known sig))%bool
              = refused sig a) by (destruct a; reflexivity).
  rewrite R. destruct (refused sig a); [reflexivity|].
  unfold registered, id_taken_before_step. rewrite insert_last; [reflexivity|].
  exact W.
Qed.

Lemma wf_step o s : wf s -> wf (step o s).
Proof.
  intro W. pose proof (proj1 ids_increase) as Hstep. unfold step. destruct (halted s); [exact W|].
  destruct o.
  - exact W.
  - destruct (deliver sig s); exact W.
  - rewrite (register_spec _ _ _ W). destruct (refused sig a); [exact W|].
    unfold wf, registered. cbn. apply Forall_app. split.
    + eapply Forall_impl; [|exact W]. cbn. intros. lia.
    + constructor; [cbn; lia|constructor].
  - unfold wf, unregister_op. cbn. unfold wf in W. rewrite Forall_forall in *.
    intros e He. apply filter_In in He. now apply W.
Qed.

Lemma wf_run h : forall s, wf s -> wf (run h s).
Proof. induction h as [|o h IH]; intros s W; [exact W|]. apply IH, wf_step, W. Qed.

Lemma run_halted h : forall s t, halted s = Some t -> run h s = s.
Proof.
  induction h as [|o h IH]; intros s t H; [reflexivity|]. cbn.
  assert (E : step o s = s) by (unfold step; now rewrite H). rewrite E. eapply IH, H.
Qed.

Lemma alive_run_inv h s : alive (run h s) -> alive s.
Proof.
  unfold alive. intro H. destruct (halted s) eqn:E; [|reflexivity].
  rewrite (run_halted h s t E) in H. congruence.
Qed.

Lemma run_app h1 h2 s : run (h1 ++ h2) s = run h2 (run h1 s).
Proof. unfold run. apply fold_left_app. Qed.

(** operations that leave the actions of [sig] alone *)
Definition keeps (sig : Z) (o : op) : Prop :=
  match o with
  | OpRegister s _ => s <> sig
  | OpUnregister s _ => s <> sig
  | OpWrite _ _ | OpDeliver _ => True
  end.

Lemma keeps_step sig o s :
  wf s -> keeps sig o -> actions_for sig (reg (step o s)) = actions_for sig (reg s).
Proof.
  intros W K. unfold step. destruct (halted s); [reflexivity|]. destruct o; cbn in K.
  - reflexivity.
  - destruct (deliver sig0 s); reflexivity.
  - rewrite (register_spec _ _ _ W). destruct (refused sig0 a); [reflexivity|].
    cbn [fst registered reg]. rewrite actions_for_app. unfold actions_for at 2. cbn [filter map e_sig].
    destruct (sig0 =? sig) eqn:E; [apply Z.eqb_eq in E; contradiction|]. cbn. apply app_nil_r.
  - cbn. unfold actions_for. f_equal. induction (reg s) as [|e r IH]; [reflexivity|]. cbn.
    unfold matches at 1. destruct (e_sig e =? sig0) eqn:A; cbn.
    + apply Z.eqb_eq in A. assert (B : (e_sig e =? sig) = false) by (apply Z.eqb_neq; lia).
      destruct (e_id e =? id); cbn; rewrite ?B; exact IH.
    + destruct (e_sig e =? sig); [f_equal|]; exact IH.
Qed.

Lemma keeps_run sig ws : forall s,
  wf s -> Forall (keeps sig) ws ->
  actions_for sig (reg (run ws s)) = actions_for sig (reg s) /\ wf (run ws s).
Proof.
  induction ws as [|o ws IH]; intros s W F; [split; [reflexivity|exact W]|].
  inversion F as [|? ? K F']; subst. cbn [run fold_left].
  destruct (IH (step o s) (wf_step o s W) F') as [A B]. split; [|exact B].
  unfold run in A. rewrite A. now apply keeps_step.
Qed.

(** * 4. What a delivery does to the process state *)

Lemma step_deliver s sig :
  alive s ->
  step (OpDeliver sig) s =
  match run_actions sig (actions_for sig (reg s)) (st_mem s) with
  | Continue m => {| st_mem := m; reg := reg s; next_id := next_id s; halted := None |}
  | Stop t m => {| st_mem := m; reg := reg s; next_id := next_id s; halted := Some t |}
  end.
Proof. intro A. unfold step. rewrite A, deliver_eq. reflexivity. Qed.

(** ** C15_flag_after_delivery *)
Lemma flag_after_delivery_last (s0 : state) (h : list op) (sig f : Z) :
  let s := run h s0 in
  let s' := step (OpDeliver sig) s in
  alive s -> alive s' ->
  flag s' f = match last_set f (actions_for sig (reg s)) with Some v => v | None => flag s f end.
Proof.
  intros s s' A A'. unfold s' in *. rewrite (step_deliver _ _ A) in *.
  destruct (run_actions sig (actions_for sig (reg s)) (st_mem s)) as [m|t m] eqn:E.
  - unfold flag. cbn. apply (run_actions_flags _ _ _ _ f E).
  - unfold alive in A'. cbn in A'. discriminate.
Qed.

Lemma flag_after_delivery (s0 : state) (h : list op) (sig f v : Z) (a : action) :
  let s := run h s0 in
  let s' := step (OpDeliver sig) s in
  alive s -> alive s' ->
  In a (actions_for sig (reg s)) -> setter a = Some (f, v) ->
  (forall a' v', In a' (actions_for sig (reg s)) -> setter a' = Some (f, v') -> v' = v) ->
  flag s' f = v.
Proof.
  intros s s' A A' Hin Hs U.
  pose proof (flag_after_delivery_last s0 h sig f A A') as L0. cbv zeta in L0.
  unfold s', s. rewrite L0. fold s. destruct (last_set f (actions_for sig (reg s))) as [v'|] eqn:L.
  - destruct (last_set_some _ _ _ L) as (a' & Hin' & Hs'). eapply U; eauto.
  - exfalso. eapply last_set_none; eauto.
Qed.

Lemma other_flags_untouched (s0 : state) (h : list op) (sig f : Z) :
  let s := run h s0 in
  let s' := step (OpDeliver sig) s in
  alive s -> alive s' ->
  (forall a v, In a (actions_for sig (reg s)) -> setter a <> Some (f, v)) ->
  flag s' f = flag s f /\ reg s' = reg s /\ next_id s' = next_id s.
Proof.
  intros s s' A A' N. split.
  - pose proof (flag_after_delivery_last s0 h sig f A A') as L0. cbv zeta in L0.
    unfold s', s. rewrite L0. fold s.
    destruct (last_set f (actions_for sig (reg s))) as [v'|] eqn:L; [|reflexivity].
    destruct (last_set_some _ _ _ L) as (a' & Hin' & Hs'). exfalso. eapply N; eauto.
  - unfold s'. rewrite (step_deliver _ _ A).
    destruct (run_actions sig (actions_for sig (reg s)) (st_mem s)); auto.
Qed.

(** ** C15_shutdown_iff *)
Definition exits_at (sig : Z) (l : list action) (m : mem) (w : Z) (hooks : bool) (m1 : mem) : Prop :=
  exists pre status c post,
    l = pre ++ CondExit status c :: post /\      (* some conditional shutdown of this signal ... *)
    run_actions sig pre m = Continue m1 /\       (* ... is reached (no earlier action ended the process) ... *)
    fl m1 c <> 0 /\                              (* ... and finds its condition true at that moment *)
    w = status mod 256 /\ hooks = false.

Lemma shutdown_iff (s0 : state) (h : list op) (sig w : Z) (hooks : bool) :
  let s := run h s0 in
  let s' := step (OpDeliver sig) s in
  alive s ->
  (halted s' = Some (Exited w hooks) ->
     exists m1, exits_at sig (actions_for sig (reg s)) (st_mem s) w hooks m1 /\
                forall g, flag s' g = fl m1 g) /\
  ((exists m1, exits_at sig (actions_for sig (reg s)) (st_mem s) w hooks m1) ->
     halted s' = Some (Exited w hooks)).
Proof.
  intros s s' A. unfold s'. rewrite (step_deliver _ _ A).
  destruct (run_actions sig (actions_for sig (reg s)) (st_mem s)) as [m|t m] eqn:E; cbn [halted]; split.
  - discriminate.
  - intros (m1 & pre & status & c & post & Hl & Hp & Hc & -> & ->).
    assert (X : run_actions sig (actions_for sig (reg s)) (st_mem s) = Stop (Exited (status mod 256) false) m1).
    { apply run_actions_stop_iff. exists pre, (CondExit status c), post, m1. repeat split; auto.
      apply exit_action_iff. exists status, c. auto. }
    rewrite X in E. discriminate.
  - intro H. injection H as ->. apply run_actions_stop_iff in E.
    destruct E as (pre & a & post & m1 & Hl & Hp & Ha).
    apply exit_action_iff in Ha. destruct Ha as (status & c & -> & Hc & -> & -> & ->).
    exists m1. split; [|reflexivity]. exists pre, status, c, post. auto.
  - intros (m1 & pre & status & c & post & Hl & Hp & Hc & -> & ->).
    assert (X : run_actions sig (actions_for sig (reg s)) (st_mem s) = Stop (Exited (status mod 256) false) m1).
    { apply run_actions_stop_iff. exists pre, (CondExit status c), post, m1. repeat split; auto.
      apply exit_action_iff. exists status, c. auto. }
    rewrite X in E. injection E as <- _. reflexivity.
Qed.

(** a delivery returns iff no action ends the process *)
Lemma survives_iff (s0 : state) (h : list op) (sig : Z) :
  let s := run h s0 in
  alive s ->
  (alive (step (OpDeliver sig) s) <->
   forall pre a post m1 t m', actions_for sig (reg s) = pre ++ a :: post ->
     run_actions sig pre (st_mem s) = Continue m1 -> run_action sig a m1 <> Stop t m').
Proof.
  intros s A. rewrite (step_deliver _ _ A).
  destruct (run_actions sig (actions_for sig (reg s)) (st_mem s)) as [m|t m] eqn:E; unfold alive; cbn [halted]; split.
  - intros _ pre a post m1 t m' Hl Hp Ha.
    assert (X : run_actions sig (actions_for sig (reg s)) (st_mem s) = Stop t m').
    { apply run_actions_stop_iff. exists pre, a, post, m1. auto. }
    rewrite X in E. discriminate.
  - reflexivity.
  - discriminate.
  - intro H. exfalso. apply run_actions_stop_iff in E.
    destruct E as (pre & a & post & m1 & Hl & Hp & Ha). eapply H; eauto.
Qed.

(** ** C15_double_ctrl_c *)
Lemma shutdown_first_state s sig status f :
  alive s -> actions_for sig (reg s) = [CondExit status f; SetBool f] ->
  let s' := step (OpDeliver sig) s in
  (flag s f = 0 ->
     alive s' /\ flag s' f = 1 /\ (forall g, g <> f -> flag s' g = flag s g) /\
     reg s' = reg s /\ next_id s' = next_id s) /\
  (flag s f <> 0 ->
     halted s' = Some (Exited (status mod 256) false) /\ forall g, flag s' g = flag s g).
Proof.
  intros A R s'. unfold s'. rewrite (step_deliver _ _ A), R. unfold flag. split; intro F.
  - assert (X : run_actions sig [CondExit status f; SetBool f] (st_mem s) = Continue (set_flag (st_mem s) f 1)).
    { cbn [run_actions]. rewrite run_action_spec. cbn [spec_action]. rewrite F, Z.eqb_refl.
      rewrite run_action_spec. reflexivity. }
    rewrite X. cbn [st_mem reg next_id halted set_flag fl]. unfold alive, upd. cbn [halted].
    rewrite Z.eqb_refl. repeat split; auto.
    intros g G. apply Z.eqb_neq in G. now rewrite G.
  - assert (X : run_actions sig [CondExit status f; SetBool f] (st_mem s) = Stop (Exited (status mod 256) false) (st_mem s)).
    { cbn [run_actions]. rewrite run_action_spec. cbn [spec_action]. apply Z.eqb_neq in F. rewrite F. reflexivity. }
    rewrite X. cbn [st_mem halted]. auto.
Qed.

Lemma arm_first_state s sig status f :
  alive s -> actions_for sig (reg s) = [SetBool f; CondExit status f] ->
  let s' := step (OpDeliver sig) s in
  halted s' = Some (Exited (status mod 256) false) /\ flag s' f = 1 /\
  forall g, g <> f -> flag s' g = flag s g.
Proof.
  intros A R s'. unfold s'. rewrite (step_deliver _ _ A), R. unfold flag.
  assert (X : run_actions sig [SetBool f; CondExit status f] (st_mem s) =
              Stop (Exited (status mod 256) false) (set_flag (st_mem s) f 1)).
  { cbn [run_actions]. rewrite run_action_spec. cbn [spec_action]. rewrite run_action_spec.
    cbn [spec_action set_flag fl]. unfold upd. rewrite Z.eqb_refl.
    replace (1 =? 0) with false by reflexivity. reflexivity. }
  rewrite X. cbn [st_mem halted set_flag fl]. unfold upd. rewrite Z.eqb_refl. repeat split; auto.
  intros g G. apply Z.eqb_neq in G. now rewrite G.
Qed.

Lemma two_registrations s sig a1 a2 :
  wf s -> alive s -> actions_for sig (reg s) = [] ->
  refused sig a1 = false -> refused sig a2 = false ->
  let s2 := step (OpRegister sig a2) (step (OpRegister sig a1) s) in
  actions_for sig (reg s2) = [a1; a2] /\ wf s2 /\ (forall g, flag s2 g = flag s g) /\ alive s2.
Proof.
  intros W A E R1 R2 s2.
  assert (W1 := wf_step (OpRegister sig a1) s W).
  assert (W2 := wf_step (OpRegister sig a2) _ W1). fold s2 in W2.
  assert (S1 : step (OpRegister sig a1) s = registered sig a1 s).
  { unfold step. rewrite A. rewrite (register_spec _ _ _ W), R1. reflexivity. }
  assert (S2 : s2 = registered sig a2 (registered sig a1 s)).
  { unfold s2. rewrite S1 in *. unfold step. cbn [registered halted]. rewrite A.
    rewrite (register_spec _ _ _ W1), R2. reflexivity. }
  split; [|split; [exact W2|split]].
  - rewrite S2. cbn [registered reg]. rewrite !actions_for_app, E. unfold actions_for.
    cbn [filter map e_sig e_act app]. rewrite Z.eqb_refl. reflexivity.
  - intro g. rewrite S2. reflexivity.
  - rewrite S2. exact A.
Qed.

Lemma double_ctrl_c (h0 : list op) (sig status f : Z) (ws1 ws2 : list op) :
  let s0 := run h0 init in
  alive s0 -> actions_for sig (reg s0) = [] ->
  Forall (keeps sig) ws1 -> Forall (keeps sig) ws2 ->
  let s1 := run (OpRegister sig (CondExit status f) :: OpRegister sig (SetBool f) :: ws1) s0 in
  alive s1 -> flag s1 f = 0 ->
  let s2 := step (OpDeliver sig) s1 in
  alive s2 /\ flag s2 f = 1 /\ (forall g, g <> f -> flag s2 g = flag s1 g) /\
  (let s3 := run ws2 s2 in
   alive s3 -> flag s3 f <> 0 ->
   let s4 := step (OpDeliver sig) s3 in
   halted s4 = Some (Exited (status mod 256) false) /\ forall g, flag s4 g = flag s3 g).
Proof.
  intros s0 A0 E K1 K2 s1 A1 F1 s2.
  assert (W0 : wf s0) by (apply wf_run, wf_init).
  destruct (two_registrations s0 sig (CondExit status f) (SetBool f) W0 A0 E eq_refl eq_refl)
    as (R & W & _ & _).
  set (sr := step (OpRegister sig (SetBool f)) (step (OpRegister sig (CondExit status f)) s0)) in *.
  assert (S1 : s1 = run ws1 sr) by reflexivity.
  destruct (keeps_run sig ws1 sr W K1) as [R1 W1]. rewrite <- S1 in R1, W1. rewrite R in R1.
  destruct (shutdown_first_state s1 sig status f A1 R1) as [D _].
  destruct (D F1) as (A2 & F2 & O2 & Rg & Nx). fold s2 in A2, F2, O2, Rg, Nx.
  split; [exact A2|split; [exact F2|split; [exact O2|]]].
  intros s3 A3 F3 s4.
  assert (W2 : wf s2) by (unfold wf; rewrite Rg, Nx; exact W1).
  destruct (keeps_run sig ws2 s2 W2 K2) as [R3 _]. fold s3 in R3. rewrite Rg, R1 in R3.
  destruct (shutdown_first_state s3 sig status f A3 R3) as [_ D3]. exact (D3 F3).
Qed.

Lemma double_ctrl_c_opposite_order (h0 : list op) (sig status f : Z) (ws1 : list op) :
  let s0 := run h0 init in
  alive s0 -> actions_for sig (reg s0) = [] ->
  Forall (keeps sig) ws1 ->
  let s1 := run (OpRegister sig (SetBool f) :: OpRegister sig (CondExit status f) :: ws1) s0 in
  alive s1 ->
  let s2 := step (OpDeliver sig) s1 in
  halted s2 = Some (Exited (status mod 256) false) /\ flag s2 f = 1 /\
  forall g, g <> f -> flag s2 g = flag s1 g.
Proof.
  intros s0 A0 E K1 s1 A1 s2.
  assert (W0 : wf s0) by (apply wf_run, wf_init).
  destruct (two_registrations s0 sig (SetBool f) (CondExit status f) W0 A0 E eq_refl eq_refl)
    as (R & W & _ & _).
  set (sr := step (OpRegister sig (CondExit status f)) (step (OpRegister sig (SetBool f)) s0)) in *.
  assert (S1 : s1 = run ws1 sr) by reflexivity.
  destruct (keeps_run sig ws1 sr W K1) as [R1 W1]. rewrite <- S1 in R1. rewrite R in R1.
  exact (arm_first_state s1 sig status f A1 R1).
Qed.

(** * 5. The hypotheses can be met (non-vacuity) *)

Definition doc_history (status : Z) : list op :=
  [OpWrite 7 1; OpRegister 15 (CondExit status 0); OpRegister 15 (SetBool 0);
   OpWrite 0 1; OpWrite 0 0;          (* armed and disarmed again before the first signal *)
   OpDeliver 15;                       (* survives, arms *)
   OpWrite 0 0; OpWrite 0 5].          (* disarm, re-arm with some non-zero value *)

Example ex_first_survives :
  let s := run (doc_history 1) init in halted s = None /\ flag s 0 = 5 /\ flag s 7 = 1.
Proof. vm_compute. auto. Qed.

Example ex_second_exits :
  halted (run (doc_history 1 ++ [OpDeliver 15]) init) = Some (Exited 1 false).
Proof. vm_compute. reflexivity. Qed.

Example ex_negative_status :
  halted (run (doc_history (-1) ++ [OpDeliver 15]) init) = Some (Exited 255 false) /\
  halted (run (doc_history 256 ++ [OpDeliver 15]) init) = Some (Exited 0 false).
Proof. vm_compute. auto. Qed.

Example ex_opposite_order :
  halted (run [OpRegister 2 (SetBool 0); OpRegister 2 (CondExit 3 0); OpDeliver 2] init) = Some (Exited 3 false).
Proof. vm_compute. reflexivity. Qed.

Example ex_later_actions_do_not_run :
  let s := run [OpRegister 2 (SetUsize 1 9); OpRegister 2 (CondExit 3 1); OpRegister 2 (SetUsize 2 9); OpDeliver 2] init in
  halted s = Some (Exited 3 false) /\ flag s 1 = 9 /\ flag s 2 = 0.
Proof. vm_compute. auto. Qed.

Example ex_usize_value :
  let s := run [OpRegister 10 (SetUsize 4 42); OpWrite 4 7; OpDeliver 10] init in alive s /\ flag s 4 = 42.
Proof. vm_compute. auto. Qed.

Example ex_keeps : Forall (keeps 15) [OpWrite 0 1; OpDeliver 2; OpRegister 2 (SetBool 0); OpUnregister 2 1].
Proof. repeat constructor; discriminate. Qed.
