(** Executable entry point of the flag model for the correspondence check
    (integer-list interface, see ocaml/main_template.ml; mirrored in checks/c15.py and
    harness/src/bin/p_c15.rs).

    input   nflags :: ops, each op one of
      1 f v            the application stores v into flag f
      2 sig            deliver sig (raise)
      3 sig f          flag::register(sig, f)
      4 sig f v        flag::register_usize(sig, f, v)
      5 sig status c   flag::register_conditional_shutdown(sig, status, c)
      6 sig c          flag::register_conditional_default(sig, c)
      7 k              low_level::unregister(id returned by the k-th registration op of the script,
                       0-based, failed registrations counted; nothing to do if that one failed)
      8 sig k          low_level::register(sig, observer k)   (reports the flags when it runs)
      9 sig k          low_level::register(sig, observer k that also raises sig again the first time it runs):
                       the library's handler runs with its own signal blocked (no SA_NODEFER among its flags, C05),
                       so the kernel keeps that signal pending until the handler has returned and delivers it then -
                       one more complete delivery, before the raise of the script returns.  That kernel rule is
                       the only thing this entry point adds to flag/Model.v ([deliver_chain]); standard signals only
                       (two raises while blocked coalesce into one delivery).
    output  a log of records followed by one final record
      1 i res f0 .. f(n-1)   op number i completed; res = 1 for Ok(..)/true, 0 for Err/false/none
      2 k 0   f0 .. f(n-1)   observer k ran
      9 kind code hooks      kind 0: script ran to its end; 1: exited, code = wait status,
                             hooks = exit-time hooks ran; 2: killed by signal code; 3: stopped;
                             4: not modelled;  5: malformed input *)
From Coq Require Import ZArith List String Bool.
From SH Require Import gen.Extracted_flag flag.Model.
Import ListNotations. Open Scope Z_scope. Open Scope list_scope.

Inductive xop := XOp (o : op) | XUnreg (k : Z) | XRaiser (s k : Z) | XBad.

Fixpoint decode (fuel : nat) (l : list Z) : list xop :=
  match fuel with
  | O => []
  | S n =>
    match l with
    | [] => []
    | c :: r =>
      if c =? 1 then match r with f :: v :: r' => XOp (OpWrite f v) :: decode n r' | _ => [XBad] end
      else if c =? 2 then match r with s :: r' => XOp (OpDeliver s) :: decode n r' | _ => [XBad] end
      else if c =? 3 then match r with s :: f :: r' => XOp (OpRegister s (SetBool f)) :: decode n r' | _ => [XBad] end
      else if c =? 4 then match r with s :: f :: v :: r' => XOp (OpRegister s (SetUsize f v)) :: decode n r' | _ => [XBad] end
      else if c =? 5 then match r with s :: st :: f :: r' => XOp (OpRegister s (CondExit st f)) :: decode n r' | _ => [XBad] end
      else if c =? 6 then match r with s :: f :: r' => XOp (OpRegister s (CondDefault f)) :: decode n r' | _ => [XBad] end
      else if c =? 7 then match r with k :: r' => XUnreg k :: decode n r' | _ => [XBad] end
      else if c =? 8 then match r with s :: k :: r' => XOp (OpRegister s (Observe k)) :: decode n r' | _ => [XBad] end
      else if c =? 9 then match r with s :: k :: r' => XRaiser s k :: decode n r' | _ => [XBad] end
      else [XBad]
    end
  end.

Definition snapshot (n : nat) (f : flags) : list Z := map (fun i => f (Z.of_nat i)) (seq 0 n).

Definition bz (b : bool) : Z := if b then 1 else 0.

(** events added to the trace by the last step, oldest first *)
Definition new_events (before after : list event) : list event :=
  rev (firstn (List.length after - List.length before) after).

Definition event_record (n : nat) (e : event) : list Z :=
  match e with EvObserve k snap => 2 :: k :: 0 :: snapshot n snap end.

Definition final_record (t : terminal) : list Z :=
  match t with
  | Exited w hooks => [9; 1; w; bz hooks]
  | KilledBy s => [9; 2; s; 0]
  | StoppedIn => [9; 3; 0; 0]
  | Unmodelled => [9; 4; 0; 0]
  end.

(** re-raising observers (op 9) that have not fired yet: (signal, k).  [fired sig evs armed] removes those of
    [sig] that reported in [evs]; the flag says whether any did. *)
Fixpoint fired (sig : Z) (evs : list event) (armed : list (Z * Z)) : list (Z * Z) * bool :=
  match armed with
  | [] => ([], false)
  | (s0, k) :: r =>
      let '(r', b) := fired sig evs r in
      if (s0 =? sig) && existsb (fun e => match e with EvObserve k' _ => k' =? k end) evs
      then (r', true) else ((s0, k) :: r', b)
  end.

(** one raise of the script: the delivery, and - if a re-raiser fired in it - the pending one after it *)
Fixpoint deliver_chain (fuel : nat) (sig : Z) (s : state) (armed : list (Z * Z)) : state * list (Z * Z) * list event :=
  let s' := step (OpDeliver sig) s in
  let evs := new_events (tr (st_mem s)) (tr (st_mem s')) in
  match fuel with
  | O => (s', armed, evs)
  | S f =>
      match halted s' with
      | Some _ => (s', armed, evs)
      | None =>
          let '(armed', again) := fired sig evs armed in
          if again then let '(s2, a2, e2) := deliver_chain f sig s' armed' in (s2, a2, evs ++ e2)
          else (s', armed', evs)
      end
  end.

(** [ids]: results of the registration ops so far, newest first *)
Fixpoint go (n : nat) (i : Z) (ops : list xop) (s : state) (ids : list (option (Z * Z))) (armed : list (Z * Z)) : list Z :=
  match ops with
  | [] => [9; 0; 0; 0]
  | x :: rest =>
    match x with
    | XBad => [9; 5; 0; 0]
    | XRaiser sig k =>
        let '(s', r) := register_op sig (Observe k) s in
        let entry := match r with Some id => Some (sig, id) | None => None end in
        1 :: i :: bz (match r with Some _ => true | None => false end) :: snapshot n (fl (st_mem s'))
          ++ go n (i + 1) rest s' (entry :: ids) (match r with Some _ => (sig, k) :: armed | None => armed end)
    | XOp (OpDeliver sig) =>
        let '(s', armed', es) := deliver_chain (S (List.length armed)) sig s armed in
        let evs := flat_map (event_record n) es in
        match halted s' with
        | Some t => evs ++ final_record t
        | None => evs ++ 1 :: i :: 0 :: snapshot n (fl (st_mem s')) ++ go n (i + 1) rest s' ids armed'
        end
    | XUnreg k =>
        match nth_error (rev ids) (Z.to_nat k) with
        | Some (Some (sig, id)) =>
            let '(s', found) := unregister_op sig id s in
            1 :: i :: bz found :: snapshot n (fl (st_mem s')) ++ go n (i + 1) rest s' ids armed
        | _ => 1 :: i :: 0 :: snapshot n (fl (st_mem s)) ++ go n (i + 1) rest s ids armed
        end
    | XOp (OpRegister sig a) =>
        let '(s', r) := register_op sig a s in
        let entry := match r with Some id => Some (sig, id) | None => None end in
        1 :: i :: bz (match r with Some _ => true | None => false end) :: snapshot n (fl (st_mem s'))
          ++ go n (i + 1) rest s' (entry :: ids) armed
    | XOp o =>
        let s' := step o s in
        let evs := flat_map (event_record n) (new_events (tr (st_mem s)) (tr (st_mem s'))) in
        match halted s' with
        | Some t => evs ++ final_record t
        | None => evs ++ 1 :: i :: 0 :: snapshot n (fl (st_mem s')) ++ go n (i + 1) rest s' ids armed
        end
    end
  end.

Definition run_c15 (inp : list Z) : list Z :=
  match inp with
  | [] => [9; 5; 0; 0]
  | n :: l => go (Z.to_nat n) 0 (decode (List.length l) l) init [] []
  end.
