(** Model of src/flag.rs on top of the registry's dispatcher (DESIGN 5.15).

    Everything about *what the code does* comes from the generated file [Extracted_flag]
    (translator/flag.py): the bodies of the four registered closures (which atomic operation,
    on which captured parameter, which value / callee, which ordering), the libc function behind
    [low_level::exit], how the registry chooses action ids, in which container it keeps them and
    in which order the dispatcher walks it.  This file only says how such descriptors are
    *executed*: against a map of flags, a sorted map of registered actions and a process that is
    either alive or has ended.  [emulate_default_handler] is the C16 model ([details.Model]).

    Conventions: flag ids, signal numbers, c_int statuses, usize values : Z.  A bool flag holds
    0 (false) or 1 (true); "true" is tested as "<> 0".  No proofs in this file. *)
From Coq Require Import ZArith List String Bool.
From SH Require Import gen.Extracted_flag.
From SH Require gen.Extracted_details details.Kernel details.Model.
Import ListNotations. Open Scope Z_scope.

(** ** Memory: the caller-owned atomics, sequentially consistent (all accesses of flag.rs are
    SeqCst - proved from the extracted orderings in [Proofs.orderings_all_seqcst]) *)
Definition flags := Z -> Z.
Definition upd (fl : flags) (f v : Z) : flags := fun g => if g =? f then v else fl g.

(** What the probes can see of an action that has no effect: [Observe k] (see below) reports
    the flag values at the moment it runs. Newest event first. *)
Inductive event := EvObserve (k : Z) (snapshot : flags).
Record mem := { fl : flags; tr : list event }.
Definition set_flag (m : mem) (f v : Z) : mem := {| fl := upd (fl m) f v; tr := tr m |}.

(** ** Registered actions = (flag.rs function, actual arguments).
    [Observe k] is not from flag.rs: it is the probes' own closure registered directly with
    [low_level::register]; it reads the flags, reports them and changes nothing. *)
Inductive action :=
| SetBool (f : Z)                 (* flag::register(sig, f) *)
| SetUsize (f v : Z)              (* flag::register_usize(sig, f, v) *)
| CondExit (status c : Z)         (* flag::register_conditional_shutdown(sig, status, c) *)
| CondDefault (c : Z)             (* flag::register_conditional_default(sig, c) *)
| Observe (k : Z).

Definition desc_of (a : action) : option fn_desc :=
  match a with
  | SetBool _ => Some fn_register
  | SetUsize _ _ => Some fn_register_usize
  | CondExit _ _ => Some fn_register_conditional_shutdown
  | CondDefault _ => Some fn_register_conditional_default
  | Observe _ => None
  end.

(** positional arguments of the Rust call *)
Definition args_of (sig : Z) (a : action) : list Z :=
  match a with
  | SetBool f => [sig; f]
  | SetUsize f v => [sig; f; v]
  | CondExit status c => [sig; status; c]
  | CondDefault c => [sig; c]
  | Observe _ => [sig]
  end.

Definition env := list (string * Z).
Fixpoint env_get (x : string) (e : env) : option Z :=
  match e with
  | [] => None
  | (y, v) :: r => if String.eqb x y then Some v else env_get x r
  end.
Definition env_of (sig : Z) (a : action) : env :=
  match desc_of a with
  | Some d => combine (fd_params d) (args_of sig a)
  | None => []
  end.

(** ** How the process can end inside a delivery *)
Inductive terminal :=
| Exited (wait_status : Z) (atexit_ran : bool)   (* WIFEXITED, WEXITSTATUS; did exit-time hooks run *)
| KilledBy (s : Z)                               (* WIFSIGNALED, WTERMSIG *)
| StoppedIn                                      (* suspended inside the handler; not followed further *)
| Unmodelled.                                    (* a descriptor the model cannot execute *)

Inductive result := Continue (m : mem) | Stop (t : terminal) (m : mem).

(** [_exit]/[_Exit] end the process at once; [exit] would first run the atexit hooks.  The
    parent's wait status carries the low 8 bits of the c_int argument. *)
Definition atexit_hooks_run (f : libc_exit_fn) : bool :=
  match f with Libc_exit => true | Libc_underscore_exit | Libc_underscore_Exit => false end.
Definition wait_status (status : Z) : Z := status mod 256.

(** Inside the registry's handler the signal is blocked (no SA_NODEFER) and its disposition is
    the handler, not the default. *)
Definition in_handler : details.Model.pstate :=
  {| details.Model.blocked := true; details.Model.dfl := false |}.

Definition term_of_outcome (o : details.Kernel.outcome) : option terminal :=
  match o with
  | details.Kernel.TerminatedBy s => Some (KilledBy s)
  | details.Kernel.Stopped => Some StoppedIn
  | details.Kernel.Continues => None
  | details.Kernel.Error => None           (* `let _ =` : the error is dropped *)
  | details.Kernel.HandlerRuns => Some Unmodelled
  | details.Kernel.Exits => Some Unmodelled
  end.

Definition eval (o : operand) (e : env) : option Z :=
  match o with
  | OTrue => Some 1
  | OFalse => Some 0
  | OLit z => Some z
  | OParam x => env_get x e
  end.

Definition do_call (c : call) (e : env) (m : mem) : result :=
  match c with
  | CExit a =>
      match eval a e with
      | Some status => Stop (Exited (wait_status status) (atexit_hooks_run exit_libc_fn)) m
      | None => Stop Unmodelled m
      end
  | CEmulateDefault a =>
      match eval a e with
      | Some s => match term_of_outcome (details.Model.emulate in_handler s) with
                  | Some t => Stop t m
                  | None => Continue m
                  end
      | None => Stop Unmodelled m
      end
  end.

Fixpoint do_calls (cs : list call) (e : env) (m : mem) : result :=
  match cs with
  | [] => Continue m
  | c :: r => match do_call c e m with Continue m' => do_calls r e m' | stop => stop end
  end.

Definition truthy (v : Z) : bool := negb (v =? 0).

Definition do_stmt (s : stmt) (e : env) (m : mem) : result :=
  match s with
  | SStore x v _ =>
      match env_get x e, eval v e with
      | Some f, Some z => Continue (set_flag m f z)
      | _, _ => Stop Unmodelled m
      end
  | SIfLoad x _ negated cs =>
      match env_get x e with
      | Some c => if xorb (truthy (fl m c)) negated then do_calls cs e m else Continue m
      | None => Stop Unmodelled m
      end
  end.

Fixpoint do_stmts (ss : list stmt) (e : env) (m : mem) : result :=
  match ss with
  | [] => Continue m
  | s :: r => match do_stmt s e m with Continue m' => do_stmts r e m' | stop => stop end
  end.

(** one registered action, run by the dispatcher for signal [sig] *)
Definition run_action (sig : Z) (a : action) (m : mem) : result :=
  match a with
  | Observe k => Continue {| fl := fl m; tr := EvObserve k (fl m) :: tr m |}
  | _ => match desc_of a with
         | Some d => do_stmts (fd_body d) (env_of sig a) m
         | None => Stop Unmodelled m
         end
  end.

Fixpoint run_actions (sig : Z) (l : list action) (m : mem) : result :=
  match l with
  | [] => Continue m
  | a :: r => match run_action sig a m with Continue m' => run_actions sig r m' | stop => stop end
  end.

(** ** The registry: a map ActionId -> action per signal, kept sorted by key (BTreeMap); here one
    list for all signals, sorted by id, filtered by signal (ids are globally unique). *)
Record entry := { e_id : Z; e_sig : Z; e_act : action }.

Fixpoint insert (e : entry) (r : list entry) : list entry :=
  match r with
  | [] => [e]
  | x :: r' => if e_id e <? e_id x then e :: r
               else if e_id e =? e_id x then e :: r'      (* BTreeMap::insert replaces *)
               else x :: insert e r'
  end.

Definition actions_for (sig : Z) (r : list entry) : list action :=
  map e_act (filter (fun e => e_sig e =? sig) r).

Definition ordered (o : iter_order) (l : list action) : list action :=
  match o with Ascending => l | Descending => rev l end.

(** the dispatcher, step by step as extracted; [prev.execute] does nothing visible when the
    previous disposition was SIG_DFL / SIG_IGN (assumption of this property; chaining is C04) *)
Fixpoint dispatch (sk : list dispatch_step) (sig : Z) (r : list entry) (m : mem) : result :=
  match sk with
  | [] => Continue m
  | DLookupSlot :: k => dispatch k sig r m
  | DPrevExecute :: k => dispatch k sig r m
  | DForEachAction o :: k =>
      match run_actions sig (ordered o (actions_for sig r)) m with
      | Continue m' => dispatch k sig r m'
      | stop => stop
      end
  end.

(** ** Process state and operations *)
Record state := { st_mem : mem; reg : list entry; next_id : Z; halted : option terminal }.

Definition flag (s : state) (f : Z) : Z := fl (st_mem s) f.
Definition alive (s : state) : Prop := halted s = None.

Definition init : state :=
  {| st_mem := {| fl := fun _ => 0; tr := [] |}; reg := []; next_id := id_init; halted := None |}.

Inductive op :=
| OpWrite (f v : Z)                (* the application stores v (arm / disarm / reset) *)
| OpDeliver (sig : Z)              (* one invocation of the registry's handler for sig *)
| OpRegister (sig : Z) (a : action)
| OpUnregister (sig id : Z).       (* low_level::unregister(SigId { signal, action: id }) *)

Definition deliver (sig : Z) (s : state) : result :=
  dispatch dispatch_skeleton sig (reg s) (st_mem s).

(** signal under which the call registers, and whether the signal_name pre-check is made *)
Definition reg_signal (sig : Z) (a : action) : option Z :=
  match desc_of a with
  | Some d => env_get (fd_signal d) (env_of sig a)
  | None => Some sig
  end.
Definition reg_precheck (a : action) : bool :=
  match desc_of a with Some d => fd_precheck_signal_name d | None => false end.

(** returns the new state and the id of the new action ([None]: Err, nothing changed).
    Registration with the registry itself is assumed to succeed (valid, allowed signal: C14). *)
Definition register_op (sig : Z) (a : action) (s : state) : state * option Z :=
  match reg_signal sig a with
  | None => (s, None)
  | Some rs =>
      if reg_precheck a && negb (details.Model.known rs) then (s, None)
      else
        let nid := next_id s + id_step in
        let id := if id_taken_before_step then next_id s else nid in
        ({| st_mem := st_mem s; reg := insert {| e_id := id; e_sig := rs; e_act := a |} (reg s);
            next_id := nid; halted := halted s |}, Some id)
  end.

Definition matches (sig id : Z) (e : entry) : bool := (e_sig e =? sig) && (e_id e =? id).

Definition unregister_op (sig id : Z) (s : state) : state * bool :=
  ({| st_mem := st_mem s; reg := filter (fun e => negb (matches sig id e)) (reg s);
      next_id := next_id s; halted := halted s |},
   existsb (matches sig id) (reg s)).

Definition step (o : op) (s : state) : state :=
  match halted s with
  | Some _ => s                       (* nothing happens in a process that has ended *)
  | None =>
    match o with
    | OpWrite f v => {| st_mem := set_flag (st_mem s) f v; reg := reg s; next_id := next_id s; halted := None |}
    | OpDeliver sig =>
        match deliver sig s with
        | Continue m => {| st_mem := m; reg := reg s; next_id := next_id s; halted := None |}
        | Stop t m => {| st_mem := m; reg := reg s; next_id := next_id s; halted := Some t |}
        end
    | OpRegister sig a => fst (register_op sig a s)
    | OpUnregister sig id => fst (unregister_op sig id s)
    end
  end.

Definition run (h : list op) (s : state) : state := fold_left (fun s o => step o s) h s.
