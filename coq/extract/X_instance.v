From SH Require Import instance.Run.
Require Extraction. Require Import ExtrOcamlBasic.
Extraction "m_instance.ml" run_c12.
