From SH Require Import registry.Run.
Require Extraction. Require Import ExtrOcamlBasic.
Extraction "m_registry.ml" run_registry.
