From SH Require Import iter.Run.
Require Extraction. Require Import ExtrOcamlBasic.
Extraction "m_iter.ml" run_iter.
