From SH Require Import channel.Run.
Require Extraction. Require Import ExtrOcamlBasic.
Extraction "m_channel.ml" run_channel run_history.
