From SH Require Import channel.Run channel.RunRA.
Require Extraction. Require Import ExtrOcamlBasic.
Extraction "m_channel.ml" run_channel run_history run_ra.
