From SH Require Import seqreg.Run.
Require Extraction. Require Import ExtrOcamlBasic.
Extraction "m_seqreg.ml" run_c05 run_c05_oracle.
