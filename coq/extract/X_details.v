From SH Require Import details.Run.
Require Extraction. Require Import ExtrOcamlBasic.
Extraction "m_details.ml" run_c16.
