From SH Require Import siginfo.Run.
Require Extraction. Require Import ExtrOcamlBasic.
Extraction "m_siginfo.ml" run_c17.
