From SH Require Import entry.Run.
Require Extraction. Require Import ExtrOcamlBasic.
Extraction "m_entry.ml" run_entry.
