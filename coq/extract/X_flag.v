From SH Require Import flag.Run.
Require Extraction. Require Import ExtrOcamlBasic.
Extraction "m_flag.ml" run_c15.
