From SH Require Import pipe.Run.
Require Extraction. Require Import ExtrOcamlBasic.
Extraction "m_pipe.ml" run_c13 run_oracle.
