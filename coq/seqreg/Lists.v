(** C05 - facts about the containers of the concrete model: association lists (HashMap), key-sorted
    lists (BTreeMap), the insertion sort used by [abs]. *)
From Coq Require Import ZArith NArith List Bool Lia Sorted.
From SH Require Import gen.Extracted_seqreg seqreg.Spec seqreg.Model.
Import ListNotations.
Open Scope Z_scope.

(** ---- association lists ------------------------------------------------------------------ *)
Lemma zlookup_none_iff : forall A (l : list (Z * A)) s, zlookup s l = None <-> ~ In s (map fst l).
Proof.
  induction l as [|[k v] r IH]; intros s; cbn; [tauto|].
  destruct (Z.eqb_spec k s); [subst; split; [discriminate|intros H; exfalso; apply H; auto]|].
  rewrite IH. tauto.
Qed.

Lemma zlookup_some_in : forall A (l : list (Z * A)) s v, zlookup s l = Some v -> In (s, v) l.
Proof.
  induction l as [|[k v] r IH]; intros s x; cbn; [discriminate|].
  destruct (Z.eqb_spec k s); [intros H; inversion H; subst; auto | auto].
Qed.

Lemma zlookup_in_nodup : forall A (l : list (Z * A)) s v,
  NoDup (map fst l) -> In (s, v) l -> zlookup s l = Some v.
Proof.
  induction l as [|[k x] r IH]; intros s v ND HI; cbn in *; [tauto|].
  inversion ND; subst. destruct HI as [E|HI].
  - inversion E; subst. rewrite Z.eqb_refl. reflexivity.
  - destruct (Z.eqb_spec k s); [subst; exfalso; apply H1; apply (in_map fst _ _ HI) | auto].
Qed.

Lemma zupdate_cons : forall A k (v : A) k0 v0 r,
  zupdate k v ((k0, v0) :: r) = (if k0 =? k then (k0, v) else (k0, v0)) :: zupdate k v r.
Proof. reflexivity. Qed.
Arguments zupdate : simpl never.

Lemma zlookup_update : forall A (l : list (Z * A)) s k v,
  zlookup s (zupdate k v l) =
  if s =? k then match zlookup s l with Some _ => Some v | None => None end else zlookup s l.
Proof.
  induction l as [|[k0 v0] r IH]; intros s k v.
  - cbn. destruct (s =? k); reflexivity.
  - rewrite zupdate_cons. destruct (Z.eqb_spec k0 k); cbn.
    + subst. destruct (Z.eqb_spec k s).
      * subst. rewrite Z.eqb_refl. reflexivity.
      * rewrite IH. reflexivity.
    + destruct (Z.eqb_spec k0 s).
      * subst. destruct (Z.eqb_spec s k); [contradiction|reflexivity].
      * apply IH.
Qed.

Lemma zlookup_app_new : forall A (l : list (Z * A)) s k v,
  zlookup s (l ++ [(k, v)]) =
  match zlookup s l with Some x => Some x | None => if k =? s then Some v else None end.
Proof.
  induction l as [|[k0 v0] r IH]; intros; cbn; [reflexivity|].
  destruct (k0 =? s); [reflexivity|apply IH].
Qed.

Lemma map_fst_zupdate : forall A (l : list (Z * A)) k v, map fst (zupdate k v l) = map fst l.
Proof.
  induction l as [|[k0 v0] r IH]; intros; [reflexivity|].
  rewrite zupdate_cons. cbn. rewrite IH. destruct (k0 =? k); reflexivity.
Qed.

Lemma zupdate_absent : forall A (l : list (Z * A)) k v, ~ In k (map fst l) -> zupdate k v l = l.
Proof.
  induction l as [|[k0 v0] r IH]; intros k v H; [reflexivity|].
  rewrite zupdate_cons. cbn in H.
  destruct (Z.eqb_spec k0 k); [exfalso; auto|]. f_equal. apply IH. tauto.
Qed.

Lemma zmem_map_fst : forall A (l : list (Z * A)) s, zmem s (map fst l) = is_some (zlookup s l).
Proof.
  induction l as [|[k v] r IH]; intros s; cbn; [reflexivity|].
  rewrite (Z.eqb_sym s k). destruct (k =? s); cbn; [reflexivity|apply IH].
Qed.

Lemma zmem_true_iff : forall s l, zmem s l = true <-> In s l.
Proof.
  intros. unfold zmem. rewrite existsb_exists. split.
  - intros [x [H E]]. apply Z.eqb_eq in E. subst. assumption.
  - intros H. exists s. split; [assumption|apply Z.eqb_refl].
Qed.

(** ---- BTreeMap as a key-sorted list ---------------------------------------------------------- *)
Definition klt (a b : N * Z) : Prop := (fst a < fst b)%N.
Definition ksorted (l : list (N * Z)) : Prop := StronglySorted klt l.

Lemma ksorted_inv : forall a l, ksorted (a :: l) -> ksorted l /\ Forall (klt a) l.
Proof. intros a l H. inversion H; subst. split; assumption. Qed.

Lemma bt_insert_forall : forall (P : N * Z -> Prop) k v l,
  P (k, v) -> Forall P l -> Forall P (fst (bt_insert k v l)).
Proof.
  induction l as [|[k' v'] r IH]; intros Hk Hl; cbn.
  - constructor; auto.
  - inversion Hl; subst. destruct (k <? k')%N; cbn; [constructor; auto|].
    destruct (k =? k')%N; cbn; [constructor; auto|].
    destruct (bt_insert k v r) as [r' o] eqn:E. cbn in *. constructor; auto.
Qed.

Lemma bt_insert_sorted : forall k v l, ksorted l -> ksorted (fst (bt_insert k v l)).
Proof.
  induction l as [|[k' v'] r IH]; intros Hs; cbn.
  - constructor; constructor.
  - apply ksorted_inv in Hs. destruct Hs as [Hr Hf].
    destruct (N.ltb_spec k k'); cbn.
    + constructor; [constructor; assumption|]. constructor; [exact H|].
      eapply Forall_impl; [|exact Hf]. intros a Ha. unfold klt in *. cbn in *. lia.
    + destruct (N.eqb_spec k k'); cbn.
      * subst. constructor; assumption.
      * specialize (IH Hr). pose proof (bt_insert_forall (klt (k', v')) k v r) as HF.
        destruct (bt_insert k v r) as [r' o]. cbn in *. constructor; [assumption|].
        apply HF; [unfold klt; cbn; lia|assumption].
Qed.

(** inserting a key larger than every key = appending (ids are handed out in increasing order) *)
Lemma bt_insert_max : forall k v l,
  Forall (fun a => (fst a < k)%N) l -> bt_insert k v l = (l ++ [(k, v)], None).
Proof.
  induction l as [|[k' v'] r IH]; intros H; cbn; [reflexivity|].
  inversion H; subst. cbn in *.
  destruct (N.ltb_spec k k'); [lia|]. destruct (N.eqb_spec k k'); [lia|].
  rewrite IH by assumption. reflexivity.
Qed.

Lemma bt_remove_found : forall k l,
  is_some (snd (bt_remove k l)) = existsb (fun a => (fst a =? k)%N) l.
Proof.
  induction l as [|[k' v'] r IH]; cbn; [reflexivity|].
  rewrite (N.eqb_sym k' k). destruct (k =? k')%N; cbn; [reflexivity|].
  destruct (bt_remove k r). cbn in *. assumption.
Qed.

Lemma filter_id : forall A (f : A -> bool) l, (forall a, In a l -> f a = true) -> filter f l = l.
Proof.
  induction l as [|a r IH]; intros H; cbn; [reflexivity|].
  rewrite H by (left; reflexivity). f_equal. apply IH. intros; apply H; right; assumption.
Qed.

Lemma bt_remove_filter : forall k l, ksorted l ->
  fst (bt_remove k l) = filter (fun a => negb (fst a =? k)%N) l.
Proof.
  induction l as [|[k' v'] r IH]; intros Hs; cbn; [reflexivity|].
  apply ksorted_inv in Hs. destruct Hs as [Hr Hf].
  rewrite (N.eqb_sym k' k). destruct (N.eqb_spec k k'); cbn.
  - subst. symmetry. apply filter_id. intros a Ha.
    rewrite Forall_forall in Hf. specialize (Hf a Ha). unfold klt in Hf. cbn in Hf.
    apply negb_true_iff. apply N.eqb_neq. lia.
  - specialize (IH Hr). destruct (bt_remove k r). cbn in *. f_equal. assumption.
Qed.

Lemma ksorted_filter : forall f l, ksorted l -> ksorted (filter f l).
Proof.
  induction l as [|a r IH]; intros Hs; cbn; [constructor|].
  apply ksorted_inv in Hs. destruct Hs as [Hr Hf].
  destruct (f a); [|auto]. constructor; [apply IH; assumption|].
  apply Forall_forall. intros x Hx. apply filter_In in Hx.
  rewrite Forall_forall in Hf. apply Hf. tauto.
Qed.

(** ---- insertion sort by id -------------------------------------------------------------------- *)
Definition ale (a b : act) : Prop := (a_id a <= a_id b)%N.
Definition alt (a b : act) : Prop := (a_id a < a_id b)%N.

Lemma ins_in : forall x a l, In a (ins x l) <-> a = x \/ In a l.
Proof.
  induction l as [|y r IH]; cbn; [intuition|].
  destruct (a_id x <? a_id y)%N; cbn; [intuition|]. rewrite IH. intuition.
Qed.

Lemma sort_in : forall a l, In a (sort_acts l) <-> In a l.
Proof.
  induction l as [|x r IH]; cbn; [tauto|]. rewrite ins_in, IH. intuition.
Qed.

Lemma ins_sorted : forall x l, StronglySorted ale l -> StronglySorted ale (ins x l).
Proof.
  induction l as [|y r IH]; intros Hs; cbn.
  - constructor; constructor.
  - inversion Hs as [|? ? Hsr Hfy]; subst. destruct (N.ltb_spec (a_id x) (a_id y)) as [Hlt|Hge].
    + constructor; [assumption|]. constructor; [unfold ale; lia|].
      eapply Forall_impl; [|exact Hfy]. unfold ale. intros; lia.
    + constructor; [auto|]. apply Forall_forall. intros z Hz. apply ins_in in Hz.
      rewrite Forall_forall in Hfy.
      destruct Hz as [->|Hz]; [exact Hge|auto].
Qed.

Lemma sort_sorted : forall l, StronglySorted ale (sort_acts l).
Proof. induction l; cbn; [constructor|apply ins_sorted; assumption]. Qed.

Lemma filter_ins : forall (P : act -> bool) x l, StronglySorted ale l ->
  filter P (ins x l) = if P x then ins x (filter P l) else filter P l.
Proof.
  induction l as [|y r IH]; intros Hs; cbn.
  - destruct (P x); reflexivity.
  - inversion Hs; subst. destruct (N.ltb_spec (a_id x) (a_id y)); cbn.
    + destruct (P x) eqn:Px; [|reflexivity].
      destruct (P y) eqn:Py; cbn.
      * destruct (N.ltb_spec (a_id x) (a_id y)); [reflexivity|lia].
      * (* x goes in front of everything that survives in r *)
        assert (G : forall l', Forall (ale y) l' -> ins x (filter P l') = x :: filter P l').
        { induction l' as [|z l' IH']; intros HF; cbn; [reflexivity|].
          inversion HF; subst. destruct (P z); [|auto]. cbn.
          unfold ale in *. destruct (N.ltb_spec (a_id x) (a_id z)); [reflexivity|lia]. }
        rewrite G by assumption. reflexivity.
    + rewrite IH by assumption. destruct (P y) eqn:Py; cbn.
      * destruct (P x); [|reflexivity]. destruct (N.ltb_spec (a_id x) (a_id y)); [lia|reflexivity].
      * reflexivity.
Qed.

Lemma sort_cons : forall x l, sort_acts (x :: l) = ins x (sort_acts l).
Proof. reflexivity. Qed.

Lemma filter_sort : forall (P : act -> bool) l, filter P (sort_acts l) = sort_acts (filter P l).
Proof.
  induction l as [|x r IH]; [reflexivity|].
  rewrite sort_cons, filter_ins by apply sort_sorted. rewrite IH. cbn. destruct (P x); reflexivity.
Qed.

Lemma ins_max : forall x l, Forall (fun a => (a_id a < a_id x)%N) l -> ins x l = l ++ [x].
Proof.
  induction l as [|y r IH]; intros H; cbn; [reflexivity|].
  inversion H; subst. destruct (N.ltb_spec (a_id x) (a_id y)); [lia|]. f_equal. auto.
Qed.

Lemma ins_app_max : forall y x l, (a_id y < a_id x)%N -> ins y (l ++ [x]) = ins y l ++ [x].
Proof.
  induction l as [|z r IH]; intros H; cbn.
  - destruct (N.ltb_spec (a_id y) (a_id x)); [reflexivity|lia].
  - destruct (a_id y <? a_id z)%N; [reflexivity|]. cbn. f_equal. auto.
Qed.

(** an element whose id is above all others sorts to the end, wherever it was inserted *)
Lemma sort_insert_max : forall x l1 l2,
  Forall (fun a => (a_id a < a_id x)%N) l1 -> Forall (fun a => (a_id a < a_id x)%N) l2 ->
  sort_acts (l1 ++ x :: l2) = sort_acts (l1 ++ l2) ++ [x].
Proof.
  induction l1 as [|y r IH]; intros l2 H1 H2; cbn [app]; rewrite ?sort_cons.
  - apply ins_max. apply Forall_forall. intros a Ha. apply (proj1 (sort_in _ _)) in Ha.
    rewrite Forall_forall in H2. apply (H2 a Ha).
  - inversion H1; subst. rewrite IH by assumption. apply ins_app_max. assumption.
Qed.

Lemma sort_already : forall l, StronglySorted alt l -> sort_acts l = l.
Proof.
  induction l as [|x r IH]; intros Hs; [reflexivity|].
  rewrite sort_cons.
  inversion Hs; subst. rewrite IH by assumption.
  destruct r as [|y r']; cbn; [reflexivity|].
  inversion H2; subst. unfold alt in *. destruct (N.ltb_spec (a_id x) (a_id y)); [reflexivity|lia].
Qed.

Lemma existsb_sort : forall (P : act -> bool) l, existsb P (sort_acts l) = existsb P l.
Proof.
  intros. apply eq_true_iff_eq. rewrite !existsb_exists. split; intros [a [H Q]]; exists a; split; auto;
    apply sort_in; assumption.
Qed.
