(** C05 - the simple abstract model of the registry (DESIGN 5.5): one list of registered actions
    in insertion order, the set of signals the library has taken over, a counter.
    Definitions only (no proofs here, so that the model still extracts when a proof breaks). *)
From Coq Require Import ZArith NArith List Bool.
Import ListNotations.
Open Scope Z_scope.

(** What can be installed for a signal before the library touches it. *)
Inductive pre_disp := PDfl | PIgn | PUser (tag : Z).

(** Operations of a history.  [sig] ranges over all of [Z] (c_int and beyond), ids over all of [N],
    tags name the closures.  [Unregister sig id] is [unregister (SigId {signal: sig, action: id})]
    for ANY pair, live, stale or never handed out. *)
Inductive op :=
| Register (sig tag : Z)              (* register(sig, || ..) *)
| RegisterSigaction (sig tag : Z)     (* register_sigaction(sig, |info| ..) *)
| Unregister (sig : Z) (id : N)
| UnregisterSignal (sig : Z)
| Deliver (sig : Z).                  (* the kernel delivers sig to the process (raise) *)

Inductive out :=
| OId (id : N)          (* Ok(SigId {signal, action: ActionId(id)}) *)
| OErr                  (* Err(_) *)
| OPanic                (* the call panicked *)
| OBool (b : bool)
| ORan (tags : list Z)  (* closures / chained handler run by this delivery, in order *)
| ONone.                (* never produced by a well-formed skeleton *)

Definition op_sig (o : op) : Z :=
  match o with
  | Register s _ | RegisterSigaction s _ | Unregister s _ | UnregisterSignal s | Deliver s => s
  end.

Definition pre_out (p : pre_disp) : list Z := match p with PUser t => [t] | _ => [] end.

Definition zmem (x : Z) (l : list Z) : bool := existsb (Z.eqb x) l.

Record act := mk_act { a_id : N; a_sig : Z; a_tag : Z }.

Record sstate := mk_sstate {
  acts  : list act;   (* insertion order, all signals together *)
  taken : list Z;     (* signals whose disposition is the library's handler, in take-over order *)
  next  : N }.

Section Spec.
  Variable modulus : N.             (* 2^128 : the id counter wraps *)
  Variable is_forbidden : Z -> bool.
  Variable os_accepts : Z -> bool.  (* would a first registration of this number be accepted by the OS *)
  Variable pre : Z -> pre_disp.     (* the handler in place before the library (chained, C04) *)

  Definition s_init (first : N) : sstate := {| acts := []; taken := []; next := first |}.

  Definition hit (sig : Z) (id : N) (a : act) : bool := (a_sig a =? sig) && (a_id a =? id)%N.
  Definition on_sig (sig : Z) (a : act) : bool := a_sig a =? sig.

  Definition s_register (sig tag : Z) (st : sstate) : sstate * out :=
    if is_forbidden sig then (st, OPanic)
    else if zmem sig (taken st) then
      ({| acts := acts st ++ [mk_act (next st) sig tag]; taken := taken st;
          next := ((next st + 1) mod modulus)%N |}, OId (next st))
    else if os_accepts sig then
      ({| acts := acts st ++ [mk_act (next st) sig tag]; taken := taken st ++ [sig];
          next := ((next st + 1) mod modulus)%N |}, OId (next st))
    else (st, OErr).

  Definition s_unregister (sig : Z) (id : N) (st : sstate) : sstate * out :=
    ({| acts := filter (fun a => negb (hit sig id a)) (acts st); taken := taken st; next := next st |},
     OBool (existsb (hit sig id) (acts st))).

  Definition s_unregister_signal (sig : Z) (st : sstate) : sstate * out :=
    ({| acts := filter (fun a => negb (on_sig sig a)) (acts st); taken := taken st; next := next st |},
     OBool (existsb (on_sig sig) (acts st))).

  Definition s_deliver (sig : Z) (st : sstate) : sstate * out :=
    (st, ORan (pre_out (pre sig) ++ map a_tag (filter (on_sig sig) (acts st)))).

  Definition s_step (st : sstate) (o : op) : sstate * out :=
    match o with
    | Register sig tag | RegisterSigaction sig tag => s_register sig tag st
    | Unregister sig id => s_unregister sig id st
    | UnregisterSignal sig => s_unregister_signal sig st
    | Deliver sig => s_deliver sig st
    end.

  Fixpoint s_run (st : sstate) (ops : list op) : sstate * list out :=
    match ops with
    | [] => (st, [])
    | o :: r => let '(st1, x) := s_step st o in
                let '(st2, xs) := s_run st1 r in (st2, x :: xs)
    end.
End Spec.

(** Number of successful registrations in a list of outputs, and the ids they returned. *)
Fixpoint successes (l : list out) : N :=
  match l with
  | [] => 0%N
  | OId _ :: r => (1 + successes r)%N
  | _ :: r => successes r
  end.

Fixpoint ids_of (l : list out) : list N :=
  match l with
  | [] => []
  | OId i :: r => i :: ids_of r
  | _ :: r => ids_of r
  end.
