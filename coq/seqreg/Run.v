(** C05 - executable entry points of the sequential registry model for the correspondence check
    (integer-list interface, ocaml/main_template.ml).

    run_c05 input :  npre (sig kind tag)*npre   item*
       kind: 0 = SIG_DFL, 1 = SIG_IGN, 2|3 = a user handler that logs [tag] (3: installed with SA_SIGINFO)
       item: 1 sig tag  register           2 sig tag  register_sigaction
             3 sig id   unregister         4 sig      unregister_signal
             5 sig      deliver (raise)    6 sig      report the disposition of sig (probe only)
             7 sig      signal_hook::low_level::emulate_default_handler(sig) for a signal whose default action is to be
                        ignored or to stop the process (the probe's parent continues a stopped child): another part of
                        the library at work; the registry and the dispositions are none of its business - no change here
    output, per item:
       1 id | 2 (Err) | 3 (panic) | 4 b | 5 n tag_1..tag_n | 9 (no result) |
       7 1 |
       6 k f a   (k = 1 library handler / 0 otherwise; f = flags if k = 1, else 0 dfl / 1 ign / 2 user;
                  a = number of actions registered for sig)
    a malformed input gives [-99].

    run_c05_oracle input: sig   output: query_ok set_ok forbidden  (the OS oracle used by run_c05) *)
From Coq Require Import ZArith NArith List Bool.
From SH Require Import gen.Extracted_seqreg seqreg.Spec seqreg.Model.
Import ListNotations.
Open Scope Z_scope.

(** Linux + glibc: sigaction fails with EINVAL outside 1..64 and for the two signals glibc keeps for
    itself (32, 33), also when only querying; installing fails in addition for SIGKILL / SIGSTOP.
    ORACLE - compared with the running system by the probe on every run. *)
Definition linux_query_ok (s : Z) : bool := (1 <=? s) && (s <=? 64) && negb (zmem s [32; 33]).
Definition linux_set_ok (s : Z) : bool := linux_query_ok s && negb (zmem s [9; 19]).

Definition bz (b : bool) : Z := if b then 1 else 0.

Inductive item := IOp (o : op) | IQuery (sig : Z) | IEmulate (sig : Z).

Definition enc_out (o : out) : list Z :=
  match o with
  | OId i => [1; Z.of_N i]
  | OErr => [2]
  | OPanic => [3]
  | OBool b => [4; bz b]
  | ORan tags => 5 :: Z.of_nat (length tags) :: tags
  | ONone => [9]
  end.

Definition enc_query (c : cstate) (sig : Z) : list Z :=
  match os_get (os c) sig with
  | DLib f => [6; 1; f; Z.of_nat (length (c_actions c sig))]
  | DPre PDfl => [6; 0; 0; Z.of_nat (length (c_actions c sig))]
  | DPre PIgn => [6; 0; 1; Z.of_nat (length (c_actions c sig))]
  | DPre (PUser _) => [6; 0; 2; Z.of_nat (length (c_actions c sig))]
  end.

Fixpoint parse_pre (n : nat) (l : list Z) : option (list (Z * pre_disp) * list Z) :=
  match n with
  | O => Some ([], l)
  | S m =>
      match l with
      | s :: k :: t :: r =>
          match parse_pre m r with
          | Some (ps, rest) =>
              let d := if k =? 0 then PDfl else if k =? 1 then PIgn else PUser t in
              Some ((s, d) :: ps, rest)
          | None => None
          end
      | _ => None
      end
  end.

Fixpoint parse_items (fuel : nat) (l : list Z) : option (list item) :=
  match fuel with
  | O => match l with [] => Some [] | _ => None end
  | S f =>
      match l with
      | [] => Some []
      | 1 :: s :: t :: r => option_map (cons (IOp (Register s t))) (parse_items f r)
      | 2 :: s :: t :: r => option_map (cons (IOp (RegisterSigaction s t))) (parse_items f r)
      | 3 :: s :: i :: r => if i <? 0 then None else option_map (cons (IOp (Unregister s (Z.to_N i)))) (parse_items f r)
      | 4 :: s :: r => option_map (cons (IOp (UnregisterSignal s))) (parse_items f r)
      | 5 :: s :: r => option_map (cons (IOp (Deliver s))) (parse_items f r)
      | 6 :: s :: r => option_map (cons (IQuery s)) (parse_items f r)
      | 7 :: s :: r => option_map (cons (IEmulate s)) (parse_items f r)
      | _ => None
      end
  end.

Fixpoint run_items (c : cstate) (l : list item) : list Z :=
  match l with
  | [] => []
  | IOp o :: r => let '(c1, x) := c_step linux_query_ok linux_set_ok c o in enc_out x ++ run_items c1 r
  | IQuery s :: r => enc_query c s ++ run_items c r
  | IEmulate _ :: r => [7; 1] ++ run_items c r
  end.

Definition run_c05 (inp : list Z) : list Z :=
  match inp with
  | n :: rest =>
      if n <? 0 then [-99] else
      match parse_pre (Z.to_nat n) rest with
      | Some (ps, body) =>
          match parse_items (length body) body with
          | Some items => run_items (c_init ps) items
          | None => [-99]
          end
      | None => [-99]
      end
  | [] => [-99]
  end.

Definition run_c05_oracle (inp : list Z) : list Z :=
  match inp with
  | [s] => [bz (linux_query_ok s); bz (linux_set_ok s); bz (zmem s forbidden)]
  | _ => [-99]
  end.
