(** Complete call lists of the functions component [seqreg] is modelled on, as they were when the
    model was written (translator/calls.py extracts the current ones on every run).  A lemma that
    fails names the function whose calls changed: re-read it, adapt the model if needed, then
    restate the list. *)
From Coq Require Import List String.
From SH Require Import gen.Extracted_calls_seqreg.
Import ListNotations. Open Scope string_scope.

Lemma calls_slot_new_ok : calls_slot_new =
  ["mem::zeroed"; "mem::zeroed"; "libc::sigaction"; "return"; "Error::last_os_error"; "BTreeMap::new"].
Proof. reflexivity. Qed.

Lemma calls_prev_detect_ok : calls_prev_detect =
  ["mem::zeroed"; "libc::sigaction"; "ptr::null"; "return"; "Error::last_os_error"].
Proof. reflexivity. Qed.

Lemma calls_prev_execute_ok : calls_prev_execute =
  ["action"; "action"].
Proof. reflexivity. Qed.

Lemma calls_global_get_ok : calls_global_get =
  [".as_ref"; ".unwrap"].
Proof. reflexivity. Qed.

Lemma calls_global_ensure_ok : calls_global_ensure =
  [".call_once"; "HalfLock::new"; "HashMap::new"; "HalfLock::new"; "Self::get"].
Proof. reflexivity. Qed.

Lemma calls_handler_ok : calls_handler =
  ["GlobalData::get"; ".read"; ".read"; ".get"; ".execute"; ".as_ref"; ".unwrap_or_else"; "libc::write"; ".as_ptr"; ".len"; "libc::abort"; ".values"; "action"; ".as_ref"; ".execute"].
Proof. reflexivity. Qed.

Lemma calls_register_ok : calls_register =
  ["register_sigaction_impl"; "action"].
Proof. reflexivity. Qed.

Lemma calls_register_sigaction_ok : calls_register_sigaction =
  ["register_sigaction_impl"].
Proof. reflexivity. Qed.

Lemma calls_register_sigaction_impl_ok : calls_register_sigaction_impl =
  ["assert!"; ".contains"; "register_unchecked_impl"].
Proof. reflexivity. Qed.

Lemma calls_register_signal_unchecked_ok : calls_register_signal_unchecked =
  ["register_unchecked_impl"; "action"].
Proof. reflexivity. Qed.

Lemma calls_register_unchecked_ok : calls_register_unchecked =
  ["register_unchecked_impl"].
Proof. reflexivity. Qed.

Lemma calls_register_unchecked_impl_ok : calls_register_unchecked_impl =
  ["GlobalData::ensure"; "Arc::from"; ".write"; "SignalData::clone"; "ActionId"; ".entry"; "Entry::Occupied"; "assert!"; ".get_mut"; ".insert"; ".is_none"; "Entry::Vacant"; ".write"; ".store"; "Prev::detect"; "?"; "Slot::new"; "?"; ".insert"; ".insert"; ".store"].
Proof. reflexivity. Qed.

Lemma calls_unregister_ok : calls_unregister =
  ["GlobalData::ensure"; ".write"; "SignalData::clone"; ".get_mut"; ".remove"; ".is_some"; ".store"].
Proof. reflexivity. Qed.

Lemma calls_unregister_signal_ok : calls_unregister_signal =
  ["GlobalData::ensure"; ".write"; "SignalData::clone"; ".get_mut"; ".is_empty"; ".clear"; ".store"].
Proof. reflexivity. Qed.
