(** C05 - the concrete sequential model of signal-hook-registry/src/lib.rs.

    State = what the code keeps: the published [SignalData] ([signals]: finite map c_int -> Slot as an
    association list, each Slot = [prev] + a BTreeMap ActionId -> action kept as a key-sorted list;
    [next_id] : u128 as [N] with the wrap written out), the race_fallback cell, and the OS table of
    dispositions with their flags.
    The operations are NOT written by hand: they INTERPRET the statement skeletons which
    translator/seqreg.py regenerates from the source on every run ([reg_pre], [reg_occupied],
    [reg_vacant], [reg_post], [unreg], [unreg_signal], [handler_*], [entry_checked]); this file only
    gives each recognised statement its meaning on a call frame, in continuation-passing style
    (clone - modify - publish; `?` and a failed assert end the call without reaching the publish).
    Definitions only. *)
From Coq Require Import ZArith NArith List Bool.
From SH Require Import gen.Extracted_seqreg seqreg.Spec.
Import ListNotations.
Open Scope Z_scope.

Definition id_mod : N := (2 ^ id_bits)%N.
(** flags installed by Slot::new = the or of the extracted terms *)
Definition sa_flags : Z := fold_right Z.lor 0 slot_new_flag_terms.

Inductive disp := DPre (p : pre_disp) | DLib (flags : Z).

Record prev := mk_prev { p_sig : Z; p_info : disp }.
Record slot := mk_slot { s_prev : prev; s_actions : list (N * Z) }.
Record sigdata := mk_sigdata { signals : list (Z * slot); next_id : N }.
Record cstate := mk_cstate { data : sigdata; os : list (Z * disp); fallback : option prev }.

(** ---- finite maps ------------------------------------------------------------------------ *)
Fixpoint zlookup {A} (k : Z) (l : list (Z * A)) : option A :=
  match l with
  | [] => None
  | (k', v) :: r => if k' =? k then Some v else zlookup k r
  end.
Definition zupdate {A} (k : Z) (v : A) (l : list (Z * A)) : list (Z * A) :=
  map (fun e => if fst e =? k then (fst e, v) else e) l.

Definition os_get (t : list (Z * disp)) (s : Z) : disp :=
  match zlookup s t with Some d => d | None => DPre PDfl end.

(** BTreeMap<ActionId, _> : key-sorted list; [insert] returns the displaced value, [remove] the
    removed one; [values()] is the list order (= key order: modelled, not verified). *)
Fixpoint bt_insert (k : N) (v : Z) (l : list (N * Z)) : list (N * Z) * option Z :=
  match l with
  | [] => ([(k, v)], None)
  | (k', v') :: r =>
      if (k <? k')%N then ((k, v) :: l, None)
      else if (k =? k')%N then ((k, v) :: r, Some v')
      else let '(r', o) := bt_insert k v r in ((k', v') :: r', o)
  end.
Fixpoint bt_remove (k : N) (l : list (N * Z)) : list (N * Z) * option Z :=
  match l with
  | [] => ([], None)
  | (k', v') :: r =>
      if (k =? k')%N then (r, Some v')
      else let '(r', o) := bt_remove k r in ((k', v') :: r', o)
  end.
Definition is_some {A} (o : option A) : bool := match o with Some _ => true | None => false end.

(** Prev::execute : nothing for 0 / SIG_DFL / SIG_IGN, else calls the stored handler.
    (The library's own handler is never stored as [prev]: Slot::new runs once per signal.) *)
Definition prev_out (p : prev) : list Z :=
  match p_info p with DPre q => pre_out q | DLib _ => [] end.

(** ---- call frames -------------------------------------------------------------------------- *)
Record frame := mk_frame {
  f_pub : sigdata;            (* *lock : the published snapshot *)
  f_os : list (Z * disp);
  f_fb : option prev;
  f_sd : sigdata;             (* the local clone `sigdata` *)
  f_id : N;                   (* `id` *)
  f_slot : option slot;       (* `slot` of the Vacant arm *)
  f_replace : bool }.         (* `replace` *)

Definition frame_of (c : cstate) : frame :=
  mk_frame (data c) (os c) (fallback c) (data c) 0%N None false.
(** the call ends (return, `?`, unwinding): locals are dropped, the globals are what they are *)
Definition finish (f : frame) (o : out) : cstate * out := (mk_cstate (f_pub f) (f_os f) (f_fb f), o).

Definition with_sd (f : frame) (x : sigdata) :=
  mk_frame (f_pub f) (f_os f) (f_fb f) x (f_id f) (f_slot f) (f_replace f).
Definition with_pub (f : frame) (x : sigdata) :=
  mk_frame x (f_os f) (f_fb f) (f_sd f) (f_id f) (f_slot f) (f_replace f).
Definition with_replace (f : frame) (x : bool) :=
  mk_frame (f_pub f) (f_os f) (f_fb f) (f_sd f) (f_id f) (f_slot f) x.

Section Concrete.
  (** The operating system is an oracle: does sigaction(sig, NULL, &old) succeed, does
      sigaction(sig, &new, &old) succeed.  (Run.v instantiates both with the Linux table that the
      probes validate on every run.) *)
  Variable query_ok : Z -> bool.
  Variable set_ok : Z -> bool.

  (** meaning of one statement, in continuation-passing style: [k] is the rest of the function;
      [sig] [ida] [tag] are the call's arguments *)
  Definition exec_instr (sig : Z) (ida : N) (tag : Z) (i : instr) (f : frame)
             (k : frame -> cstate * out) : cstate * out :=
    match i with
    | IClone => k (with_sd f (f_pub f))
    | ITakeId => k (mk_frame (f_pub f) (f_os f) (f_fb f) (f_sd f) (next_id (f_sd f)) (f_slot f) (f_replace f))
    | IIncNext => k (with_sd f (mk_sigdata (signals (f_sd f)) ((next_id (f_sd f) + 1) mod id_mod)%N))
    | IInsertOccupied =>
        match zlookup sig (signals (f_sd f)) with
        | Some sl =>
            let f' := with_sd f (mk_sigdata (zupdate sig (mk_slot (s_prev sl) (fst (bt_insert (f_id f) tag (s_actions sl))))
                                                     (signals (f_sd f))) (next_id (f_sd f))) in
            if is_some (snd (bt_insert (f_id f) tag (s_actions sl)))
            then finish f' OPanic   (* assert!(.. .is_none()) fails: unwinds, the clone is dropped *)
            else k f'
        | None => finish f ONone
        end
    | IFallbackStoreDetectQ =>
        if query_ok sig
        then k (mk_frame (f_pub f) (f_os f) (Some (mk_prev sig (os_get (f_os f) sig))) (f_sd f) (f_id f) (f_slot f) (f_replace f))
        else finish f OErr         (* `?` : returns before the fallback store *)
    | ISlotNewQ =>
        if set_ok sig
        then k (mk_frame (f_pub f) ((sig, DLib sa_flags) :: f_os f) (f_fb f) (f_sd f) (f_id f)
                         (Some (mk_slot (mk_prev sig (os_get (f_os f) sig)) [])) (f_replace f))
        else finish f OErr         (* `?` *)
    | ISlotInsert =>
        match f_slot f with
        | Some sl => k (mk_frame (f_pub f) (f_os f) (f_fb f) (f_sd f) (f_id f)
                          (Some (mk_slot (s_prev sl) (fst (bt_insert (f_id f) tag (s_actions sl))))) (f_replace f))
        | None => finish f ONone
        end
    | IPlaceInsert =>
        match f_slot f with
        | Some sl => k (with_sd f (mk_sigdata (signals (f_sd f) ++ [(sig, sl)]) (next_id (f_sd f))))
        | None => finish f ONone
        end
    | IStore => k (with_pub f (f_sd f))
    | IStoreIfReplace => if f_replace f then k (with_pub f (f_sd f)) else k f
    | IRetOkId => finish f (OId (f_id f))
    | IRemoveInSlot =>
        match zlookup sig (signals (f_sd f)) with
        | Some sl =>
            k (with_replace (with_sd f (mk_sigdata (zupdate sig (mk_slot (s_prev sl) (fst (bt_remove ida (s_actions sl))))
                                                            (signals (f_sd f))) (next_id (f_sd f))))
                            (is_some (snd (bt_remove ida (s_actions sl)))))
        | None => k f
        end
    | IClearInSlotIfNonEmpty =>
        match zlookup sig (signals (f_sd f)) with
        | Some sl =>
            match s_actions sl with
            | [] => k f
            | _ :: _ => k (with_replace (with_sd f (mk_sigdata (zupdate sig (mk_slot (s_prev sl) []) (signals (f_sd f))) (next_id (f_sd f)))) true)
            end
        | None => k f
        end
    | IRetReplace => finish f (OBool (f_replace f))
    end.

  Fixpoint exec_block (sig : Z) (ida : N) (tag : Z) (is : list instr) (f : frame)
           (k : frame -> cstate * out) : cstate * out :=
    match is with
    | [] => k f
    | i :: r => exec_instr sig ida tag i f (fun f' => exec_block sig ida tag r f' k)
    end.

  (** a function body that ends without a return statement *)
  Definition fell_off (f : frame) : cstate * out := finish f ONone.

  (** register_unchecked_impl : prefix; match sigdata.signals.entry(signal) {Occupied | Vacant}; suffix *)
  Definition c_register_unchecked (c : cstate) (sig tag : Z) : cstate * out :=
    exec_block sig 0%N tag reg_pre (frame_of c) (fun f1 =>
      let rest := fun f2 => exec_block sig 0%N tag reg_post f2 fell_off in
      match zlookup sig (signals (f_sd f1)) with
      | Some _ => exec_block sig 0%N tag reg_occupied f1 rest
      | None => exec_block sig 0%N tag reg_vacant f1 rest
      end).

  (** register / register_sigaction -> register_sigaction_impl *)
  Fixpoint exec_entry (es : list einstr) (c : cstate) (sig tag : Z) : cstate * out :=
    match es with
    | [] => (c, ONone)
    | EAssertNotForbidden :: r => if zmem sig forbidden then (c, OPanic) else exec_entry r c sig tag
    | ECallUnchecked :: _ => c_register_unchecked c sig tag
    end.
  Definition c_register (c : cstate) (sig tag : Z) := exec_entry entry_checked c sig tag.

  Definition c_unregister (c : cstate) (sig : Z) (id : N) : cstate * out :=
    exec_block sig id 0 unreg (frame_of c) fell_off.
  Definition c_unregister_signal (c : cstate) (sig : Z) : cstate * out :=
    exec_block sig 0%N 0 unreg_signal (frame_of c) fell_off.

  (** the dispatcher: what one run of `handler(sig, ..)` executes *)
  Record hframe := mk_hframe { h_fb : option (option prev); h_sd : option sigdata; h_out : list Z }.
  Definition exec_h (sig : Z) (c : cstate) (sl : option slot) (i : hinstr) (h : hframe) : hframe :=
    match i with
    | HReadFallback => mk_hframe (Some (fallback c)) (h_sd h) (h_out h)
    | HReadData => mk_hframe (h_fb h) (Some (data c)) (h_out h)
    | HPrevExecute => match sl with Some s => mk_hframe (h_fb h) (h_sd h) (h_out h ++ prev_out (s_prev s)) | None => h end
    | HRunActionsInKeyOrder => match sl with Some s => mk_hframe (h_fb h) (h_sd h) (h_out h ++ map snd (s_actions s)) | None => h end
    | HFallbackPrevIfSameSignal =>
        match h_fb h with
        | Some (Some p) => if p_sig p =? sig then mk_hframe (h_fb h) (h_sd h) (h_out h ++ prev_out p) else h
        | _ => h
        end
    end.
  Definition run_handler (c : cstate) (sig : Z) : list Z :=
    let h1 := fold_left (fun h i => exec_h sig c None i h) handler_pre (mk_hframe None None []) in
    match h_sd h1 with
    | None => []   (* the snapshot was never read: nothing can run *)
    | Some sd =>
        match zlookup sig (signals sd) with
        | Some sl => h_out (fold_left (fun h i => exec_h sig c (Some sl) i h) handler_slot h1)
        | None => h_out (fold_left (fun h i => exec_h sig c None i h) handler_noslot h1)
        end
    end.

  (** the kernel delivers [sig]: whatever is installed runs (a default / ignored disposition runs
      nothing of the program; the kernel's default ACTION is C16's subject, not modelled here) *)
  Definition c_deliver (c : cstate) (sig : Z) : cstate * out :=
    (c, ORan (match os_get (os c) sig with
              | DLib _ => run_handler c sig
              | DPre p => pre_out p
              end)).

  Definition c_step (c : cstate) (o : op) : cstate * out :=
    match o with
    | Register sig tag | RegisterSigaction sig tag => c_register c sig tag
    | Unregister sig id => c_unregister c sig id
    | UnregisterSignal sig => c_unregister_signal c sig
    | Deliver sig => c_deliver c sig
    end.

  Fixpoint c_run (c : cstate) (ops : list op) : cstate * list out :=
    match ops with
    | [] => (c, [])
    | o :: r => let '(c1, x) := c_step c o in
                let '(c2, xs) := c_run c1 r in (c2, x :: xs)
    end.
End Concrete.

(** initial state: empty registry, [initial_next_id], the dispositions the program had installed *)
Definition c_init (os0 : list (Z * pre_disp)) : cstate :=
  mk_cstate (mk_sigdata [] initial_next_id) (map (fun e => (fst e, DPre (snd e))) os0) None.

Definition pre_of (os0 : list (Z * pre_disp)) (s : Z) : pre_disp :=
  match zlookup s os0 with Some p => p | None => PDfl end.

(** ---- abstraction -------------------------------------------------------------------------- *)
Definition slot_acts (e : Z * slot) : list act :=
  map (fun kv => mk_act (fst kv) (fst e) (snd kv)) (s_actions (snd e)).
Definition all_acts (c : cstate) : list act := flat_map slot_acts (signals (data c)).

(** insertion sort by id: the global registration order *)
Fixpoint ins (x : act) (l : list act) : list act :=
  match l with
  | [] => [x]
  | y :: r => if (a_id x <? a_id y)%N then x :: l else y :: ins x r
  end.
Definition sort_acts (l : list act) : list act := fold_right ins [] l.

Definition abs (c : cstate) : sstate :=
  mk_sstate (sort_acts (all_acts c)) (map fst (signals (data c))) (next_id (data c)).

(** actions registered for signal [s], in dispatch order *)
Definition c_actions (c : cstate) (s : Z) : list (N * Z) :=
  match zlookup s (signals (data c)) with Some sl => s_actions sl | None => [] end.
Definition c_taken (c : cstate) : list Z := map fst (signals (data c)).
