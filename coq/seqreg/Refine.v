(** C05 - the concrete registry model refines the simple specification; corollaries. *)
From Coq Require Import ZArith NArith List Bool Lia Sorted.
From SH Require Import gen.Extracted_seqreg seqreg.Spec seqreg.Model seqreg.Lists seqreg.Direct.
Import ListNotations.
Open Scope Z_scope.
Arguments N.add : simpl never.
Arguments N.modulo : simpl never.
Arguments N.pow : simpl never.
Arguments zupdate : simpl never.

Lemma filter_none : forall A (f : A -> bool) l, (forall a, In a l -> f a = false) -> filter f l = [].
Proof.
  induction l as [|a r IH]; intros H; cbn; [reflexivity|].
  rewrite H by (left; reflexivity). apply IH. intros; apply H; right; assumption.
Qed.

(** ---- the flattened list of all registered actions ------------------------------------------- *)
Lemma slot_acts_sig : forall e a, In a (slot_acts e) -> a_sig a = fst e.
Proof.
  intros e a H. unfold slot_acts in H. apply in_map_iff in H. destruct H as [kv [E _]]. subst. reflexivity.
Qed.

Lemma flat_acts_sig : forall l a, In a (flat_map slot_acts l) -> In (a_sig a) (map fst l).
Proof.
  intros l a H. apply in_flat_map in H. destruct H as [e [He Ha]].
  apply slot_acts_sig in Ha. rewrite Ha. apply in_map. assumption.
Qed.

Section PerSignal.
  Variable sig : Z.
  Variable P : act -> bool.
  Variable fP : N * Z -> bool.
  Hypothesis fP_ok : forall kv, fP kv = P (mk_act (fst kv) sig (snd kv)).

  Lemma filter_slot_acts : forall p a,
    filter P (slot_acts (sig, mk_slot p a)) = slot_acts (sig, mk_slot p (filter fP a)).
  Proof.
    intros p a. unfold slot_acts. cbn. induction a as [|kv r IH]; cbn; [reflexivity|].
    rewrite fP_ok. destruct (P _); cbn; rewrite IH; reflexivity.
  Qed.

  Lemma existsb_slot_acts : forall p a, existsb P (slot_acts (sig, mk_slot p a)) = existsb fP a.
  Proof.
    intros p a. unfold slot_acts. cbn. induction a as [|kv r IH]; cbn; [reflexivity|].
    rewrite fP_ok, IH. reflexivity.
  Qed.

  (** P keeps everything that belongs to another signal *)
  Section Keep.
    Hypothesis P_other : forall a, a_sig a <> sig -> P a = true.

    Lemma filter_absent : forall l, ~ In sig (map fst l) -> filter P (flat_map slot_acts l) = flat_map slot_acts l.
    Proof.
      intros l H. apply filter_id. intros a Ha. apply P_other. intros E.
      apply flat_acts_sig in Ha. rewrite E in Ha. contradiction.
    Qed.

    Lemma all_acts_update_filter : forall l sl,
      NoDup (map fst l) -> zlookup sig l = Some sl ->
      flat_map slot_acts (zupdate sig (mk_slot (s_prev sl) (filter fP (s_actions sl))) l) =
      filter P (flat_map slot_acts l).
    Proof.
      induction l as [|[k0 s0] r IH]; intros sl ND HL; [discriminate|].
      rewrite zupdate_cons. cbn in ND, HL. inversion ND; subst.
      cbn [flat_map]. rewrite filter_app.
      destruct (Z.eqb_spec k0 sig).
      - subst. inversion HL; subst. rewrite zupdate_absent by assumption.
        rewrite filter_absent by assumption. f_equal.
        destruct sl as [p a]. cbn [s_prev s_actions]. symmetry. apply filter_slot_acts.
      - rewrite (IH sl) by assumption. f_equal. symmetry. apply filter_id.
        intros a Ha. apply P_other. apply slot_acts_sig in Ha. cbn in Ha. congruence.
    Qed.
  End Keep.

  (** P selects only actions of this signal *)
  Section Select.
    Hypothesis P_other : forall a, a_sig a <> sig -> P a = false.

    Lemma existsb_absent : forall l, ~ In sig (map fst l) -> existsb P (flat_map slot_acts l) = false.
    Proof.
      intros l H. apply not_true_is_false. intros E. apply existsb_exists in E. destruct E as [a [Ha Pa]].
      destruct (Z.eq_dec (a_sig a) sig) as [E|E].
      - apply flat_acts_sig in Ha. rewrite E in Ha. contradiction.
      - rewrite P_other in Pa by assumption. discriminate.
    Qed.

    Lemma existsb_all : forall l, NoDup (map fst l) ->
      existsb P (flat_map slot_acts l) =
      match zlookup sig l with Some sl => existsb fP (s_actions sl) | None => false end.
    Proof.
      induction l as [|[k0 s0] r IH]; intros ND; [reflexivity|].
      cbn in ND. inversion ND; subst. cbn [flat_map zlookup]. rewrite existsb_app.
      destruct (Z.eqb_spec k0 sig).
      - subst. rewrite existsb_absent by assumption. rewrite orb_false_r.
        destruct s0 as [p a]. apply existsb_slot_acts.
      - rewrite IH by assumption.
        replace (existsb P (slot_acts (k0, s0))) with false; [reflexivity|].
        symmetry. apply not_true_is_false. intros E. apply existsb_exists in E. destruct E as [a [Ha Pa]].
        apply slot_acts_sig in Ha. cbn in Ha. rewrite P_other in Pa by congruence. discriminate.
    Qed.

    Lemma filter_absent_nil : forall l, ~ In sig (map fst l) -> filter P (flat_map slot_acts l) = [].
    Proof.
      intros l H. apply filter_none. intros a Ha. apply P_other. intros E.
      apply flat_acts_sig in Ha. rewrite E in Ha. contradiction.
    Qed.
  End Select.
End PerSignal.

Lemma filter_onsig_all : forall sig l, NoDup (map fst l) ->
  filter (on_sig sig) (flat_map slot_acts l) =
  match zlookup sig l with Some sl => slot_acts (sig, sl) | None => [] end.
Proof.
  intros sig. induction l as [|[k0 s0] r IH]; intros ND; [reflexivity|].
  cbn in ND. inversion ND; subst. cbn [flat_map zlookup]. rewrite filter_app.
  assert (OS : forall a, a_sig a <> sig -> on_sig sig a = false).
  { intros a H. unfold on_sig. apply Z.eqb_neq. assumption. }
  destruct (Z.eqb_spec k0 sig).
  - subst. rewrite (filter_absent_nil sig (on_sig sig) OS) by assumption. rewrite app_nil_r.
    apply filter_id. intros a Ha. apply slot_acts_sig in Ha. cbn in Ha. unfold on_sig. apply Z.eqb_eq. assumption.
  - rewrite IH by assumption.
    rewrite (filter_none _ (on_sig sig) (slot_acts (k0, s0))); [reflexivity|].
    intros a Ha. apply OS. apply slot_acts_sig in Ha. cbn in Ha. congruence.
Qed.

Lemma all_acts_update_snoc : forall sig k t l sl,
  NoDup (map fst l) -> zlookup sig l = Some sl ->
  exists L1 L2, flat_map slot_acts l = L1 ++ L2 /\
    flat_map slot_acts (zupdate sig (mk_slot (s_prev sl) (s_actions sl ++ [(k, t)])) l) = L1 ++ mk_act k sig t :: L2.
Proof.
  intros sig k t. induction l as [|[k0 s0] r IH]; intros sl ND HL; [discriminate|].
  rewrite zupdate_cons. cbn in ND, HL. inversion ND; subst. cbn [flat_map].
  destruct (Z.eqb_spec k0 sig).
  - subst. inversion HL; subst. rewrite zupdate_absent by assumption.
    exists (slot_acts (sig, sl)), (flat_map slot_acts r). split; [reflexivity|].
    unfold slot_acts at 1. cbn [fst snd s_actions]. rewrite map_app. cbn [map fst snd].
    rewrite <- app_assoc. reflexivity.
  - destruct (IH sl H2 HL) as [L1 [L2 [E1 E2]]].
    exists (slot_acts (k0, s0) ++ L1), L2. rewrite E1, E2, <- !app_assoc. split; reflexivity.
Qed.

Lemma slot_acts_sorted : forall s sl, ksorted (s_actions sl) -> StronglySorted alt (slot_acts (s, sl)).
Proof.
  intros s [p a]. unfold slot_acts. cbn. induction a as [|kv r IH]; intros H; cbn; [constructor|].
  apply ksorted_inv in H. destruct H as [Hr Hf]. constructor; [auto|].
  apply Forall_forall. intros x Hx. apply in_map_iff in Hx. destruct Hx as [kv' [E Hk]]. subst.
  rewrite Forall_forall in Hf. apply (Hf kv' Hk).
Qed.

Lemma NoDup_snoc : forall A (l : list A) x, NoDup l -> ~ In x l -> NoDup (l ++ [x]).
Proof.
  induction l as [|a r IH]; intros x ND H; cbn.
  - constructor; [intros []|constructor].
  - inversion ND; subst. constructor.
    + intros Hin. apply in_app_or in Hin. destruct Hin as [Hin|[E|[]]]; [contradiction|].
      subst. apply H. left. reflexivity.
    + apply IH; [assumption|]. intros Hx. apply H. right. assumption.
Qed.

Lemma os_get_cons : forall k d t s, os_get ((k, d) :: t) s = if k =? s then d else os_get t s.
Proof. intros. unfold os_get. cbn. destruct (k =? s); reflexivity. Qed.

Lemma os_get_init : forall os0 s, os_get (map (fun e => (fst e, DPre (snd e))) os0) s = DPre (pre_of os0 s).
Proof.
  induction os0 as [|[k p] r IH]; intros s; [reflexivity|].
  cbn [map fst snd]. rewrite os_get_cons. unfold pre_of. cbn. destruct (k =? s); [reflexivity|].
  apply IH.
Qed.

Lemma filter_negb_id : forall A (f : A -> bool) l, existsb f l = false -> filter (fun a => negb (f a)) l = l.
Proof.
  intros A f l H. apply filter_id. intros a Ha. apply negb_true_iff. apply not_true_is_false. intros E.
  assert (existsb f l = true) by (apply existsb_exists; eauto). congruence.
Qed.

Section Refine.
  Variable query_ok set_ok : Z -> bool.
  Variable os0 : list (Z * pre_disp).

  Definition accepts (s : Z) : bool := query_ok s && set_ok s.
  Definition forb (s : Z) : bool := zmem s forbidden.
  Notation cstep := (c_step query_ok set_ok).
  Notation crun := (c_run query_ok set_ok).
  Notation sstep := (s_step id_mod forb accepts (pre_of os0)).
  Notation srun := (s_run id_mod forb accepts (pre_of os0)).

  Definition dstep (c : cstate) (o : op) : cstate * out :=
    match o with
    | Register sig tag | RegisterSigaction sig tag => register_direct query_ok set_ok c sig tag
    | Unregister sig id => unreg_direct c sig id
    | UnregisterSignal sig => unsig_direct c sig
    | Deliver sig => (c, ORan (match os_get (os c) sig with
                               | DLib _ => handler_direct c sig
                               | DPre p => pre_out p
                               end))
    end.

  Lemma c_step_eq : forall c o, cstep c o = dstep c o.
  Proof.
    intros c [sig tag|sig tag|sig id|sig|sig]; cbn [c_step dstep].
    - apply c_register_eq.
    - apply c_register_eq.
    - apply c_unregister_eq.
    - apply c_unregister_signal_eq.
    - unfold c_deliver. rewrite run_handler_eq. reflexivity.
  Qed.

  (** ---- well-formedness: holds in every reachable state, wrap or not ------------------------ *)
  Record WF (c : cstate) : Prop := {
    wf_nodup : NoDup (map fst (signals (data c)));
    wf_slot : forall s sl, zlookup s (signals (data c)) = Some sl ->
                ksorted (s_actions sl) /\ s_prev sl = mk_prev s (DPre (pre_of os0 s)) /\
                os_get (os c) s = DLib sa_flags;
    wf_free : forall s, zlookup s (signals (data c)) = None -> os_get (os c) s = DPre (pre_of os0 s) }.

  Lemma wf_init : WF (c_init os0).
  Proof.
    constructor; cbn.
    - constructor.
    - discriminate.
    - intros s _. apply os_get_init.
  Qed.

  Lemma wf_update : forall c sig sl a' nx fb,
    WF c -> zlookup sig (signals (data c)) = Some sl -> ksorted a' ->
    WF (mk_cstate (mk_sigdata (zupdate sig (mk_slot (s_prev sl) a') (signals (data c))) nx) (os c) fb).
  Proof.
    intros c sig sl a' nx fb [ND SL FR] HL KS. constructor; cbn.
    - rewrite map_fst_zupdate. assumption.
    - intros s sl2. rewrite zlookup_update. destruct (Z.eqb_spec s sig).
      + subst. rewrite HL. intros E. inversion E; subst. cbn.
        destruct (SL sig sl HL) as [_ [Hp Ho]]. auto.
      + apply SL.
    - intros s. rewrite zlookup_update. destruct (Z.eqb_spec s sig).
      + subst. rewrite HL. discriminate.
      + apply FR.
  Qed.

  Lemma wf_same : forall c fb, WF c -> WF (mk_cstate (data c) (os c) fb).
  Proof. intros c fb [ND SL FR]. constructor; assumption. Qed.

  Lemma wf_step : forall c o, WF c -> WF (fst (dstep c o)).
  Proof.
    intros c o W. destruct o as [sig tag|sig tag|sig id|sig|sig]; cbn [dstep]; try assumption.
    1,2: unfold register_direct; destruct (zmem sig forbidden); [assumption|]; unfold reg_direct;
      destruct (zlookup sig (signals (data c))) as [sl|] eqn:HL;
      [ destruct (is_some _); [assumption|]; cbn [fst]; apply wf_update; [assumption..|];
        apply bt_insert_sorted; apply (wf_slot c W sig sl HL)
      | destruct (query_ok sig); [|assumption]; destruct (set_ok sig); cbn [fst]; [|apply wf_same; assumption];
        destruct W as [ND SL FR]; constructor; cbn;
        [ rewrite map_app; apply NoDup_snoc; [assumption|apply zlookup_none_iff; assumption]
        | intros s sl2; rewrite zlookup_app_new, os_get_cons;
          destruct (zlookup s (signals (data c))) as [x|] eqn:HS;
          [ intros E; inversion E; subst; destruct (Z.eqb_spec sig s); [subst; congruence|apply SL; assumption]
          | destruct (Z.eqb_spec sig s); [|discriminate]; intros E; inversion E; subst; cbn;
            rewrite (FR s HS); repeat split; constructor; constructor ]
        | intros s; rewrite zlookup_app_new, os_get_cons;
          destruct (zlookup s (signals (data c))) as [x|] eqn:HS; [discriminate|];
          destruct (Z.eqb_spec sig s); [discriminate|]; intros _; apply FR; assumption ] ].
    - unfold unreg_direct. destruct (zlookup sig (signals (data c))) as [sl|] eqn:HL; [|assumption].
      destruct (is_some _); [|assumption]. cbn [fst]. apply wf_update; [assumption..|].
      rewrite bt_remove_filter by apply (wf_slot c W sig sl HL). apply ksorted_filter. apply (wf_slot c W sig sl HL).
    - unfold unsig_direct. destruct (zlookup sig (signals (data c))) as [sl|] eqn:HL; [|assumption].
      destruct (s_actions sl); [assumption|]. cbn [fst]. apply wf_update; [assumption..|]. constructor.
  Qed.

  (** ---- the invariant of the refinement: the counter has not wrapped -------------------------- *)
  (** [n] is the unbounded count "initial_next_id + successful registrations so far" *)
  Record Inv (n : N) (c : cstate) : Prop := {
    inv_wf : WF c;
    inv_ids : forall a, In a (all_acts c) -> (a_id a < n)%N;
    inv_next : next_id (data c) = (n mod id_mod)%N;
    inv_bound : (n <= id_mod)%N }.

  Lemma id_mod_pos : (0 < id_mod)%N.
  Proof. reflexivity. Qed.

  Lemma inv_init : Inv initial_next_id (c_init os0).
  Proof.
    constructor.
    - apply wf_init.
    - intros a [].
    - reflexivity.
    - discriminate.
  Qed.

  Lemma slot_keys_below : forall n c sig sl, Inv n c -> zlookup sig (signals (data c)) = Some sl ->
    Forall (fun kv => (fst kv < n)%N) (s_actions sl).
  Proof.
    intros n c sig sl I HL. apply Forall_forall. intros [k t] Hk. cbn.
    apply (inv_ids n c I (mk_act k sig t)). unfold all_acts. apply in_flat_map.
    exists (sig, sl). split; [apply zlookup_some_in; assumption|].
    unfold slot_acts. cbn. apply in_map_iff. exists (k, t). split; [reflexivity|assumption].
  Qed.

  Lemma abs_same_data : forall c fb, abs (mk_cstate (data c) (os c) fb) = abs c.
  Proof. reflexivity. Qed.

  Lemma hit_other : forall sig id a, a_sig a <> sig -> hit sig id a = false.
  Proof. intros. unfold hit. rewrite (proj2 (Z.eqb_neq _ _)) by assumption. reflexivity. Qed.
  Lemma on_sig_other : forall sig a, a_sig a <> sig -> on_sig sig a = false.
  Proof. intros. unfold on_sig. apply Z.eqb_neq. assumption. Qed.

  Definition grow (x : out) : N := successes [x].

  Lemma inv_same : forall n c fb, Inv n c -> Inv n (mk_cstate (data c) (os c) fb).
  Proof. intros n c fb [W A B C]. constructor; try assumption. apply wf_same. assumption. Qed.

  Lemma all_acts_snoc : forall l sig p k t,
    flat_map slot_acts (l ++ [(sig, mk_slot p [(k, t)])]) = flat_map slot_acts l ++ [mk_act k sig t].
  Proof. intros. rewrite flat_map_app. reflexivity. Qed.

  Lemma sort_snoc_max : forall l x, Forall (fun a => (a_id a < a_id x)%N) l -> sort_acts (l ++ [x]) = sort_acts l ++ [x].
  Proof.
    intros l x H. rewrite (sort_insert_max x l []) by (auto; constructor). rewrite app_nil_r. reflexivity.
  Qed.

  Lemma step_refines : forall n c o,
    Inv n c -> (n + grow (snd (sstep (abs c) o)) <= id_mod)%N ->
    snd (dstep c o) = snd (sstep (abs c) o) /\
    abs (fst (dstep c o)) = fst (sstep (abs c) o) /\
    Inv (n + grow (snd (sstep (abs c) o))) (fst (dstep c o)).
  Proof.
    intros n c o I G. pose proof (inv_wf n c I) as W. pose proof (wf_step c o W) as W'.
    assert (same : Inv (n + 0) c) by (rewrite N.add_0_r; exact I).
    destruct o as [sig tag|sig tag|sig id|sig|sig]; cbn [dstep s_step] in *.
    1,2: unfold register_direct, s_register in *; fold (forb sig) in *;
      destruct (forb sig); [cbn; auto|];
      cbn [taken next acts abs] in *; rewrite zmem_map_fst in *; unfold reg_direct in *;
      destruct (zlookup sig (signals (data c))) as [sl|] eqn:HL; cbn [is_some] in *.
    1,3: cbn [snd fst grow successes] in G |- *;
      assert (LT : (n < id_mod)%N) by lia;
      assert (NX : next_id (data c) = n) by (rewrite (inv_next n c I); apply N.mod_small; exact LT);
      rewrite NX in *;
      rewrite (bt_insert_max n tag (s_actions sl)) by (eapply slot_keys_below; eassumption);
      cbn [snd fst is_some];
      destruct (all_acts_update_snoc sig n tag (signals (data c)) sl (wf_nodup c W) HL) as [L1 [L2 [E1 E2]]];
      assert (B : forall a, In a (L1 ++ L2) -> (a_id a < n)%N) by (intros a Ha; apply (inv_ids n c I); unfold all_acts; rewrite E1; exact Ha);
      split; [reflexivity|]; split;
      [ unfold abs; cbn [data signals next_id]; unfold all_acts; cbn [data signals];
        rewrite map_fst_zupdate, E2, E1;
        rewrite sort_insert_max by (apply Forall_forall; intros a Ha; apply B; apply in_or_app; auto);
        reflexivity
      | constructor;
        [ apply (wf_update c sig sl _ _ _ W HL); pose proof (bt_insert_sorted n tag (s_actions sl) (proj1 (wf_slot c W sig sl HL))) as K; rewrite (bt_insert_max n tag (s_actions sl) (slot_keys_below n c sig sl I HL)) in K; exact K
        | unfold all_acts; cbn [data signals]; rewrite E2; intros a Ha; apply in_app_or in Ha;
          destruct Ha as [Ha|[Ha|Ha]]; [ specialize (B a (in_or_app _ _ _ (or_introl Ha))); lia | subst; cbn; lia | specialize (B a (in_or_app _ _ _ (or_intror Ha))); lia ]
        | cbn [data next_id]; f_equal; lia
        | lia ] ].
    (* first registration of a signal: Vacant arm *)
    1,2: unfold accepts in *; destruct (query_ok sig); [destruct (set_ok sig)|];
      cbn [andb fst snd grow successes] in *;
      [ | split; [reflexivity|]; split; [reflexivity|]; apply inv_same; exact same
        | split; [reflexivity|]; split; [reflexivity|]; exact same ];
      assert (LT : (n < id_mod)%N) by lia;
      assert (NX : next_id (data c) = n) by (rewrite (inv_next n c I); apply N.mod_small; exact LT);
      rewrite NX in *;
      assert (B : Forall (fun a => (a_id a < a_id (mk_act n sig tag))%N) (all_acts c))
        by (apply Forall_forall; intros a Ha; apply (inv_ids n c I a Ha));
      split; [reflexivity|]; split;
      [ unfold abs; cbn [data signals next_id]; unfold all_acts in *; cbn [data signals];
        rewrite all_acts_snoc, map_app, sort_snoc_max by exact B; reflexivity
      | constructor;
        [ exact W'
        | unfold all_acts in *; cbn [data signals]; rewrite all_acts_snoc; intros a Ha; apply in_app_or in Ha;
          destruct Ha as [Ha|[Ha|[]]]; [ apply (inv_ids n c I) in Ha; lia | subst; cbn; lia ]
        | cbn [data next_id]; f_equal; lia
        | lia ] ].
    - (* unregister *)
      unfold unreg_direct, s_unregister in *. cbn [fst snd grow successes abs acts taken next] in *.
      assert (FP : forall kv : N * Z, (fst kv =? id)%N = hit sig id (mk_act (fst kv) sig (snd kv)))
        by (intros kv; unfold hit; cbn; rewrite Z.eqb_refl; reflexivity).
      assert (EXS : existsb (hit sig id) (sort_acts (all_acts c)) =
                    match zlookup sig (signals (data c)) with
                    | Some sl => existsb (fun kv => (fst kv =? id)%N) (s_actions sl) | None => false end).
      { rewrite existsb_sort. unfold all_acts.
        apply (existsb_all sig (hit sig id) _ FP (hit_other sig id)). apply (wf_nodup c W). }
      rewrite EXS.
      destruct (zlookup sig (signals (data c))) as [sl|] eqn:HL.
      + rewrite bt_remove_found in *. destruct (existsb _ (s_actions sl)) eqn:EX; cbn [fst snd] in *.
        * split; [reflexivity|].
          assert (AA : all_acts (mk_cstate (mk_sigdata (zupdate sig (mk_slot (s_prev sl) (fst (bt_remove id (s_actions sl)))) (signals (data c)))
                                   (next_id (data c))) (os c) (fallback c)) =
                       filter (fun a => negb (hit sig id a)) (all_acts c)).
          { unfold all_acts. cbn [data signals]. rewrite bt_remove_filter by apply (wf_slot c W sig sl HL).
            apply (all_acts_update_filter sig (fun a => negb (hit sig id a)) (fun kv => negb (fst kv =? id)%N)).
            - intros kv. rewrite FP. reflexivity.
            - intros a Ha. rewrite hit_other by assumption. reflexivity.
            - apply (wf_nodup c W).
            - exact HL. }
          split.
          -- unfold abs. rewrite AA. cbn [data signals next_id]. rewrite map_fst_zupdate, filter_sort. reflexivity.
          -- rewrite N.add_0_r. constructor; [exact W'| |apply (inv_next n c I)|apply (inv_bound n c I)].
             rewrite AA. intros a Ha. apply filter_In in Ha. apply (inv_ids n c I). tauto.
        * split; [reflexivity|]. split; [|exact same].
          unfold abs. f_equal. symmetry. apply filter_negb_id. exact EXS.
      + cbn [fst snd]. split; [reflexivity|]. split; [|exact same].
        unfold abs. f_equal. symmetry. apply filter_negb_id. exact EXS.
    - (* unregister_signal *)
      unfold unsig_direct, s_unregister_signal in *. cbn [fst snd grow successes abs acts taken next] in *.
      assert (FP : forall kv : N * Z, true = on_sig sig (mk_act (fst kv) sig (snd kv)))
        by (intros kv; unfold on_sig; cbn; rewrite Z.eqb_refl; reflexivity).
      assert (EXS : existsb (on_sig sig) (sort_acts (all_acts c)) =
                    match zlookup sig (signals (data c)) with
                    | Some sl => existsb (fun _ => true) (s_actions sl) | None => false end).
      { rewrite existsb_sort. unfold all_acts.
        apply (existsb_all sig (on_sig sig) _ FP (on_sig_other sig)). apply (wf_nodup c W). }
      rewrite EXS.
      destruct (zlookup sig (signals (data c))) as [sl|] eqn:HL.
      + destruct (s_actions sl) as [|kv0 rest] eqn:EA; cbn [existsb orb fst snd] in *.
        * split; [reflexivity|]. split; [|exact same].
          unfold abs. f_equal. symmetry. apply filter_negb_id. exact EXS.
        * split; [reflexivity|].
          assert (AA : all_acts (mk_cstate (mk_sigdata (zupdate sig (mk_slot (s_prev sl) []) (signals (data c)))
                                   (next_id (data c))) (os c) (fallback c)) =
                       filter (fun a => negb (on_sig sig a)) (all_acts c)).
          { unfold all_acts. cbn [data signals].
            replace (@nil (N * Z)) with (filter (fun _ : N * Z => false) (s_actions sl))
              by (clear; induction (s_actions sl); [reflexivity|assumption]).
            apply (all_acts_update_filter sig (fun a => negb (on_sig sig a)) (fun _ => false)).
            - intros kv. rewrite <- FP. reflexivity.
            - intros a Ha. rewrite on_sig_other by assumption. reflexivity.
            - apply (wf_nodup c W).
            - exact HL. }
          split.
          -- unfold abs. rewrite AA. cbn [data signals next_id]. rewrite map_fst_zupdate, filter_sort. reflexivity.
          -- rewrite N.add_0_r. constructor; [exact W'| |apply (inv_next n c I)|apply (inv_bound n c I)].
             rewrite AA. intros a Ha. apply filter_In in Ha. apply (inv_ids n c I). tauto.
      + cbn [fst snd]. split; [reflexivity|]. split; [|exact same].
        unfold abs. f_equal. symmetry. apply filter_negb_id. exact EXS.
    - (* deliver *)
      unfold s_deliver. cbn [fst snd grow successes abs acts taken next] in *.
      split; [|split; [reflexivity|exact same]].
      rewrite filter_sort. unfold all_acts. rewrite filter_onsig_all by apply (wf_nodup c W).
      unfold handler_direct. destruct (zlookup sig (signals (data c))) as [sl|] eqn:HL.
      + destruct (wf_slot c W sig sl HL) as [KS [PV OS]]. rewrite OS, PV.
        rewrite sort_already by (apply slot_acts_sorted; exact KS).
        unfold prev_out. cbn [p_info]. f_equal. f_equal.
        unfold slot_acts. cbn [fst snd]. rewrite map_map. reflexivity.
      + rewrite (wf_free c W sig HL). cbn. rewrite app_nil_r. reflexivity.
  Qed.
End Refine.

(** ---- whole histories ---------------------------------------------------------------------- *)
Lemma successes_cons : forall x l, successes (x :: l) = (successes [x] + successes l)%N.
Proof. intros x l. destruct x; cbn; lia. Qed.

Lemma successes_length : forall l, successes l = N.of_nat (length (ids_of l)).
Proof.
  induction l as [|x r IH]; [reflexivity|]. destruct x; cbn [successes ids_of length]; try assumption.
  rewrite IH. lia.
Qed.

Section Runs.
  Variable query_ok set_ok : Z -> bool.
  Variable os0 : list (Z * pre_disp).
  Notation cstep := (c_step query_ok set_ok).
  Notation crun := (c_run query_ok set_ok).
  Notation dstep := (dstep query_ok set_ok).
  Notation sstep := (s_step id_mod forb (accepts query_ok set_ok) (pre_of os0)).
  Notation srun := (s_run id_mod forb (accepts query_ok set_ok) (pre_of os0)).

  Lemma c_run_cons : forall c o r,
    crun c (o :: r) = (fst (crun (fst (dstep c o)) r), snd (dstep c o) :: snd (crun (fst (dstep c o)) r)).
  Proof.
    intros. cbn [c_run]. rewrite c_step_eq. destruct (dstep c o) as [c1 x]. cbn [fst snd].
    destruct (crun c1 r). reflexivity.
  Qed.

  Lemma s_run_cons : forall s o r,
    srun s (o :: r) = (fst (srun (fst (sstep s o)) r), snd (sstep s o) :: snd (srun (fst (sstep s o)) r)).
  Proof.
    intros. cbn [s_run]. destruct (sstep s o) as [s1 x]. cbn [fst snd]. destruct (srun s1 r). reflexivity.
  Qed.

  Lemma c_run_app : forall l1 l2 c, fst (crun c (l1 ++ l2)) = fst (crun (fst (crun c l1)) l2).
  Proof.
    induction l1 as [|o r IH]; intros l2 c; [reflexivity|].
    cbn [app]. rewrite !c_run_cons. cbn [fst]. apply IH.
  Qed.

  Lemma c_run_app_out : forall l1 l2 c,
    snd (crun c (l1 ++ l2)) = snd (crun c l1) ++ snd (crun (fst (crun c l1)) l2).
  Proof.
    induction l1 as [|o r IH]; intros l2 c; [reflexivity|].
    cbn [app]. rewrite !c_run_cons. cbn [fst snd app]. f_equal. apply IH.
  Qed.

  Lemma run_refines : forall ops n c,
    Inv os0 n c -> (n + successes (snd (srun (abs c) ops)) <= id_mod)%N ->
    snd (crun c ops) = snd (srun (abs c) ops) /\ abs (fst (crun c ops)) = fst (srun (abs c) ops).
  Proof.
    induction ops as [|o r IH]; intros n c I G; [split; reflexivity|].
    rewrite c_run_cons, s_run_cons in *. cbn [fst snd] in *. rewrite successes_cons in G.
    destruct (step_refines query_ok set_ok os0 n c o I) as [E1 [E2 I']].
    { unfold grow. lia. }
    rewrite <- E2 in *. rewrite <- E1 in *.
    destruct (IH _ _ I') as [F1 F2]; [unfold grow; lia|].
    rewrite F1, F2. split; reflexivity.
  Qed.

  Theorem refines : forall ops,
    let spec := srun (s_init initial_next_id) ops in
    let impl := crun (c_init os0) ops in
    (successes (snd spec) < 2 ^ 128)%N ->
    snd impl = snd spec /\ abs (fst impl) = fst spec.
  Proof.
    intros ops spec impl G. apply (run_refines ops initial_next_id (c_init os0)).
    - apply inv_init.
    - change (abs (c_init os0)) with (s_init initial_next_id). fold spec.
      rewrite src_id_mod, src_initial_next_id, N.add_1_l. apply N.le_succ_l. exact G.
  Qed.

  (** ---- well-formedness of every reachable state (no guard) -------------------------------- *)
  Lemma wf_run : forall ops c, WF os0 c -> WF os0 (fst (crun c ops)).
  Proof.
    induction ops as [|o r IH]; intros c W; [exact W|].
    rewrite c_run_cons. cbn [fst]. apply IH. apply wf_step. exact W.
  Qed.

  Lemma wf_reachable : forall ops, WF os0 (fst (crun (c_init os0) ops)).
  Proof. intros. apply wf_run. apply wf_init. Qed.

  (** ---- ids ------------------------------------------------------------------------------------ *)
  Lemma step_next : forall c o,
    match snd (dstep c o) with
    | OId i => i = next_id (data c) /\ next_id (data (fst (dstep c o))) = ((next_id (data c) + 1) mod id_mod)%N
    | _ => next_id (data (fst (dstep c o))) = next_id (data c)
    end.
  Proof.
    intros c o. destruct o as [sig tag|sig tag|sig id|sig|sig]; cbn [dstep].
    1,2: unfold register_direct; destruct (zmem sig forbidden); [reflexivity|]; unfold reg_direct;
      destruct (zlookup sig (signals (data c))) as [sl|];
      [ destruct (is_some _); cbn; auto
      | destruct (query_ok sig); [destruct (set_ok sig)|]; cbn; auto ].
    - unfold unreg_direct. destruct (zlookup sig (signals (data c))) as [sl|]; [|reflexivity].
      destruct (is_some _); reflexivity.
    - unfold unsig_direct. destruct (zlookup sig (signals (data c))) as [sl|]; [|reflexivity].
      destruct (s_actions sl); reflexivity.
    - reflexivity.
  Qed.

  Fixpoint ids_seq (start : N) (count : nat) : list N :=
    match count with
    | O => []
    | S m => (start mod id_mod)%N :: ids_seq (start + 1)%N m
    end.

  Lemma run_ids : forall ops c n, next_id (data c) = (n mod id_mod)%N ->
    ids_of (snd (crun c ops)) = ids_seq n (length (ids_of (snd (crun c ops)))).
  Proof.
    induction ops as [|o r IH]; intros c n H; [reflexivity|].
    rewrite c_run_cons. cbn [snd]. pose proof (step_next c o) as S.
    destruct (snd (dstep c o)) eqn:E; cbn [ids_of]; try (apply IH; rewrite S; exact H).
    destruct S as [S1 S2]. cbn [length ids_seq]. f_equal; [rewrite S1; exact H|].
    apply IH. rewrite S2, H. apply N.add_mod_idemp_l. discriminate.
  Qed.

  Lemma mod_shift_neq : forall M n d, (0 < d)%N -> (d < M)%N -> (n mod M <> (n + d) mod M)%N.
  Proof.
    intros M n d D0 DM E. assert (M0 : M <> 0%N) by lia.
    rewrite <- (N.add_mod_idemp_l n d M M0) in E.
    pose proof (N.mod_upper_bound n M M0) as R. remember (n mod M)%N as r. clear Heqr.
    destruct (N.lt_ge_cases (r + d) M) as [L|L].
    - rewrite (N.mod_small _ _ L) in E. lia.
    - assert (X : (r + d - M = (r + d) mod M)%N).
      { apply (N.mod_unique (r + d) M 1); lia. }
      lia.
  Qed.

  Lemma ids_seq_in : forall m s x, In x (ids_seq s m) ->
    exists j, (j < m)%nat /\ x = ((s + N.of_nat j) mod id_mod)%N.
  Proof.
    induction m as [|m IH]; intros s x H; [destruct H|].
    cbn in H. destruct H as [H|H].
    - exists 0%nat. split; [lia|]. rewrite N.add_0_r. auto.
    - destruct (IH _ _ H) as [j [J E]]. exists (S j). split; [lia|].
      rewrite E. f_equal. lia.
  Qed.

  Lemma ids_seq_nodup : forall m s, (N.of_nat m <= id_mod)%N -> NoDup (ids_seq s m).
  Proof.
    induction m as [|m IH]; intros s B; [constructor|].
    cbn [ids_seq]. constructor; [|apply IH; lia].
    intros H. apply ids_seq_in in H. destruct H as [j [J E]].
    rewrite <- N.add_assoc in E. revert E. apply mod_shift_neq; lia.
  Qed.

  Theorem ids_unique : forall ops,
    let outs := snd (crun (c_init os0) ops) in
    (successes outs <= 2 ^ 128)%N -> NoDup (ids_of outs).
  Proof.
    intros ops outs G. unfold outs in *.
    rewrite (run_ids ops (c_init os0) initial_next_id) by reflexivity.
    apply ids_seq_nodup. rewrite <- successes_length, src_id_mod. exact G.
  Qed.

  (** ---- unregister is exact ---------------------------------------------------------------- *)
  Lemma filter_true : forall A (l : list A), filter (fun _ => true) l = l.
  Proof. induction l; cbn; congruence. Qed.

  Theorem unregister_exact : forall ops sig id,
    let c := fst (crun (c_init os0) ops) in
    let r := cstep c (Unregister sig id) in
    snd r = OBool (existsb (fun a => (fst a =? id)%N) (c_actions c sig)) /\
    (forall s, c_actions (fst r) s =
               filter (fun a => negb ((s =? sig) && (fst a =? id)%N)) (c_actions c s)) /\
    c_taken (fst r) = c_taken c /\ next_id (data (fst r)) = next_id (data c) /\ os (fst r) = os c.
  Proof.
    intros ops sig id c r. pose proof (wf_reachable ops) as W. fold c in W.
    unfold r. rewrite c_step_eq. cbn [dstep]. unfold unreg_direct, c_actions, c_taken.
    assert (OTHER : forall s l, s <> sig -> filter (fun a : N * Z => negb ((s =? sig) && (fst a =? id)%N)) l = l).
    { intros s l H. rewrite (proj2 (Z.eqb_neq s sig) H). apply filter_true. }
    destruct (zlookup sig (signals (data c))) as [sl|] eqn:HL.
    - rewrite bt_remove_found. destruct (existsb _ (s_actions sl)) eqn:EX; cbn [fst snd data signals next_id os].
      + split; [reflexivity|]. split; [|split; [apply map_fst_zupdate|split; reflexivity]].
        intros s. rewrite zlookup_update. destruct (Z.eq_dec s sig) as [->|NE].
        * rewrite HL. cbn [s_actions]. rewrite Z.eqb_refl. cbn [andb].
          apply bt_remove_filter. apply (wf_slot os0 c W sig sl HL).
        * rewrite OTHER by assumption. rewrite (proj2 (Z.eqb_neq s sig) NE). reflexivity.
      + split; [reflexivity|]. split; [|repeat split].
        intros s. destruct (Z.eq_dec s sig) as [->|NE].
        * rewrite HL, Z.eqb_refl. cbn [andb]. symmetry. apply filter_negb_id. exact EX.
        * rewrite OTHER by assumption. reflexivity.
    - cbn [fst snd existsb]. split; [reflexivity|]. split; [|repeat split].
      intros s. destruct (Z.eq_dec s sig) as [->|NE].
      + rewrite HL. reflexivity.
      + rewrite OTHER by assumption. reflexivity.
  Qed.

  (** ---- independence of signals ----------------------------------------------------------- *)
  Lemma actions_other : forall c o s2, op_sig o <> s2 ->
    c_actions (fst (dstep c o)) s2 = c_actions c s2 /\ os_get (os (fst (dstep c o))) s2 = os_get (os c) s2.
  Proof.
    intros c o s2 NE. unfold c_actions.
    destruct o as [sig tag|sig tag|sig id|sig|sig]; cbn [dstep op_sig] in *.
    1,2: unfold register_direct; destruct (zmem sig forbidden); [split; reflexivity|]; unfold reg_direct;
      destruct (zlookup sig (signals (data c))) as [sl|];
      [ destruct (is_some _); cbn [fst data signals os]; [split; reflexivity|];
        rewrite zlookup_update, (proj2 (Z.eqb_neq s2 sig)) by congruence; split; reflexivity
      | destruct (query_ok sig); [destruct (set_ok sig)|]; cbn [fst data signals os]; try (split; reflexivity);
        rewrite zlookup_app_new, os_get_cons, (proj2 (Z.eqb_neq sig s2) NE);
        destruct (zlookup s2 (signals (data c))); split; reflexivity ].
    - unfold unreg_direct. destruct (zlookup sig (signals (data c))) as [sl|]; [|split; reflexivity].
      destruct (is_some _); cbn [fst data signals os]; [|split; reflexivity].
      rewrite zlookup_update, (proj2 (Z.eqb_neq s2 sig)) by congruence. split; reflexivity.
    - unfold unsig_direct. destruct (zlookup sig (signals (data c))) as [sl|]; [|split; reflexivity].
      destruct (s_actions sl); cbn [fst data signals os]; [split; reflexivity|].
      rewrite zlookup_update, (proj2 (Z.eqb_neq s2 sig)) by congruence. split; reflexivity.
    - split; reflexivity.
  Qed.

  Lemma deliver_wf : forall c s, WF os0 c ->
    snd (dstep c (Deliver s)) = ORan (pre_out (pre_of os0 s) ++ map snd (c_actions c s)).
  Proof.
    intros c s W. cbn [dstep snd]. unfold handler_direct, c_actions.
    destruct (zlookup s (signals (data c))) as [sl|] eqn:HL.
    - destruct (wf_slot os0 c W s sl HL) as [_ [PV OS]]. rewrite OS, PV. reflexivity.
    - rewrite (wf_free os0 c W s HL). cbn. rewrite app_nil_r. reflexivity.
  Qed.

  Theorem independent : forall ops o s2,
    op_sig o <> s2 ->
    let c := fst (crun (c_init os0) ops) in
    let c' := fst (cstep c o) in
    c_actions c' s2 = c_actions c s2 /\
    os_get (os c') s2 = os_get (os c) s2 /\
    snd (cstep c' (Deliver s2)) = snd (cstep c (Deliver s2)).
  Proof.
    intros ops o s2 NE c c'. pose proof (wf_reachable ops) as W. fold c in W.
    unfold c'. rewrite !c_step_eq. destruct (actions_other c o s2 NE) as [A B].
    split; [exact A|]. split; [exact B|].
    rewrite !deliver_wf by (try apply wf_step; exact W). rewrite A. reflexivity.
  Qed.

  (** ---- the disposition is sticky ----------------------------------------------------------- *)
  Lemma slot_persists : forall c o s,
    is_some (zlookup s (signals (data c))) = true ->
    is_some (zlookup s (signals (data (fst (dstep c o))))) = true.
  Proof.
    intros c o s H.
    assert (UPD : forall k (v : slot), is_some (zlookup s (zupdate k v (signals (data c)))) = true).
    { intros k v. rewrite zlookup_update. destruct (zlookup s (signals (data c))); [|discriminate].
      destruct (s =? k); reflexivity. }
    destruct o as [sig tag|sig tag|sig id|sig|sig]; cbn [dstep].
    1,2: unfold register_direct; destruct (zmem sig forbidden); [exact H|]; unfold reg_direct;
      destruct (zlookup sig (signals (data c))) as [sl|];
      [ destruct (is_some (snd _)); cbn [fst data signals]; [exact H|apply UPD]
      | destruct (query_ok sig); [destruct (set_ok sig)|]; cbn [fst data signals]; try exact H;
        rewrite zlookup_app_new; destruct (zlookup s (signals (data c))); [reflexivity|discriminate] ].
    - unfold unreg_direct. destruct (zlookup sig (signals (data c))) as [sl|]; [|exact H].
      destruct (is_some (snd _)); cbn [fst data signals]; [apply UPD|exact H].
    - unfold unsig_direct. destruct (zlookup sig (signals (data c))) as [sl|]; [|exact H].
      destruct (s_actions sl); cbn [fst data signals]; [exact H|apply UPD].
    - exact H.
  Qed.

  Lemma slot_persists_run : forall ops c s,
    is_some (zlookup s (signals (data c))) = true ->
    is_some (zlookup s (signals (data (fst (crun c ops))))) = true.
  Proof.
    induction ops as [|o r IH]; intros c s H; [exact H|].
    rewrite c_run_cons. cbn [fst]. apply IH. apply slot_persists. exact H.
  Qed.

  Lemma success_takes : forall c o i, snd (dstep c o) = OId i ->
    is_some (zlookup (op_sig o) (signals (data (fst (dstep c o))))) = true.
  Proof.
    intros c o i. destruct o as [sig tag|sig tag|sig id|sig|sig]; cbn [dstep op_sig].
    1,2: unfold register_direct; destruct (zmem sig forbidden); [discriminate|]; unfold reg_direct;
      destruct (zlookup sig (signals (data c))) as [sl|] eqn:HL;
      [ destruct (is_some (snd _)); [discriminate|]; intros _; cbn [fst data signals];
        rewrite zlookup_update, Z.eqb_refl, HL; reflexivity
      | destruct (query_ok sig); [destruct (set_ok sig)|]; try discriminate; intros _; cbn [fst data signals];
        rewrite zlookup_app_new, HL, Z.eqb_refl; reflexivity ].
    - unfold unreg_direct. destruct (zlookup sig (signals (data c))); [destruct (is_some _)|]; discriminate.
    - unfold unsig_direct. destruct (zlookup sig (signals (data c))) as [sl|]; [destruct (s_actions sl)|]; discriminate.
    - discriminate.
  Qed.

  Theorem disposition_sticky : forall ops1 o ops2 i,
    snd (cstep (fst (crun (c_init os0) ops1)) o) = OId i ->
    os_get (os (fst (crun (c_init os0) (ops1 ++ o :: ops2)))) (op_sig o) = DLib (Z.lor SA_RESTART SA_SIGINFO).
  Proof.
    intros ops1 o ops2 i H. rewrite c_step_eq in H. apply success_takes in H.
    rewrite c_run_app, c_run_cons. cbn [fst].
    apply (slot_persists_run ops2) in H.
    pose proof (wf_reachable (ops1 ++ o :: ops2)) as W. rewrite c_run_app, c_run_cons in W. cbn [fst] in W.
    destruct (zlookup (op_sig o) _) as [sl|] eqn:HL; [|discriminate].
    rewrite <- src_sa_flags. apply (wf_slot os0 _ W _ sl HL).
  Qed.
End Runs.
