(** C05 - the concrete registry model refines the simple specification; corollaries. *)
From Coq Require Import ZArith NArith List Bool Lia Sorted.
From SH Require Import gen.Extracted_seqreg seqreg.Spec seqreg.Model seqreg.Lists seqreg.Direct.
Import ListNotations.
Open Scope Z_scope.
Arguments N.add : simpl never.
Arguments N.modulo : simpl never.
Arguments N.pow : simpl never.
Arguments zupdate : simpl never.

Lemma filter_none : forall A (f : A -> bool) l, (forall a, In a l -> f a = false) -> filter f l = [].
Proof.
  induction l as [|a r IH]; intros H; cbn; [reflexivity|].
  rewrite H by (left; reflexivity). apply IH. intros; apply H; right; assumption.
Qed.

(** ---- the flattened list of all registered actions ------------------------------------------- *)
Lemma slot_acts_sig : forall e a, In a (slot_acts e) -> a_sig a = fst e.
Proof.
  intros e a H. unfold slot_acts in H. apply in_map_iff in H. destruct H as [kv [E _]]. subst. reflexivity.
Qed.

Lemma flat_acts_sig : forall l a, In a (flat_map slot_acts l) -> In (a_sig a) (map fst l).
Proof.
  intros l a H. apply in_flat_map in H. destruct H as [e [He Ha]].
  apply slot_acts_sig in Ha. rewrite Ha. apply in_map. assumption.
Qed.

Section PerSignal.
  Variable sig : Z.
  Variable P : act -> bool.
  Variable fP : N * Z -> bool.
  Hypothesis fP_ok : forall kv, fP kv = P (mk_act (fst kv) sig (snd kv)).

  Lemma filter_slot_acts : forall p a,
    filter P (slot_acts (sig, mk_slot p a)) = slot_acts (sig, mk_slot p (filter fP a)).
  Proof.
    intros p a. unfold slot_acts. cbn. induction a as [|kv r IH]; cbn; [reflexivity|].
    rewrite fP_ok. destruct (P _); cbn; rewrite IH; reflexivity.
  Qed.

  Lemma existsb_slot_acts : forall p a, existsb P (slot_acts (sig, mk_slot p a)) = existsb fP a.
  Proof.
    intros p a. unfold slot_acts. cbn. induction a as [|kv r IH]; cbn; [reflexivity|].
    rewrite fP_ok, IH. reflexivity.
  Qed.

  (** P keeps everything that belongs to another signal *)
  Section Keep.
    Hypothesis P_other : forall a, a_sig a <> sig -> P a = true.

    Lemma filter_absent : forall l, ~ In sig (map fst l) -> filter P (flat_map slot_acts l) = flat_map slot_acts l.
    Proof.
      intros l H. apply filter_id. intros a Ha. apply P_other. intros E.
      apply flat_acts_sig in Ha. rewrite E in Ha. contradiction.
    Qed.

    Lemma all_acts_update_filter : forall l sl,
      NoDup (map fst l) -> zlookup sig l = Some sl ->
      flat_map slot_acts (zupdate sig (mk_slot (s_prev sl) (filter fP (s_actions sl))) l) =
      filter P (flat_map slot_acts l).
    Proof.
      induction l as [|[k0 s0] r IH]; intros sl ND HL; [discriminate|].
      rewrite zupdate_cons. cbn in ND, HL. inversion ND; subst.
      cbn [flat_map]. rewrite filter_app.
      destruct (Z.eqb_spec k0 sig).
      - subst. inversion HL; subst. rewrite zupdate_absent by assumption.
        rewrite filter_absent by assumption. f_equal.
        destruct sl as [p a]. cbn. symmetry. apply filter_slot_acts.
      - rewrite (IH sl) by assumption. f_equal. symmetry. apply filter_id.
        intros a Ha. apply P_other. apply slot_acts_sig in Ha. cbn in Ha. congruence.
    Qed.
  End Keep.

  (** P selects only actions of this signal *)
  Section Select.
    Hypothesis P_other : forall a, a_sig a <> sig -> P a = false.

    Lemma existsb_absent : forall l, ~ In sig (map fst l) -> existsb P (flat_map slot_acts l) = false.
    Proof.
      intros l H. apply not_true_is_false. intros E. apply existsb_exists in E. destruct E as [a [Ha Pa]].
      destruct (Z.eq_dec (a_sig a) sig) as [E|E].
      - apply flat_acts_sig in Ha. rewrite E in Ha. contradiction.
      - rewrite P_other in Pa by assumption. discriminate.
    Qed.

    Lemma existsb_all : forall l, NoDup (map fst l) ->
      existsb P (flat_map slot_acts l) =
      match zlookup sig l with Some sl => existsb fP (s_actions sl) | None => false end.
    Proof.
      induction l as [|[k0 s0] r IH]; intros ND; [reflexivity|].
      cbn in ND. inversion ND; subst. cbn [flat_map zlookup]. rewrite existsb_app.
      destruct (Z.eqb_spec k0 sig).
      - subst. rewrite existsb_absent by assumption. rewrite orb_false_r.
        destruct s0 as [p a]. apply existsb_slot_acts.
      - rewrite IH by assumption.
        replace (existsb P (slot_acts (k0, s0))) with false; [reflexivity|].
        symmetry. apply not_true_is_false. intros E. apply existsb_exists in E. destruct E as [a [Ha Pa]].
        apply slot_acts_sig in Ha. cbn in Ha. rewrite P_other in Pa by congruence. discriminate.
    Qed.

    Lemma filter_absent_nil : forall l, ~ In sig (map fst l) -> filter P (flat_map slot_acts l) = [].
    Proof.
      intros l H. apply filter_none. intros a Ha. apply P_other. intros E.
      apply flat_acts_sig in Ha. rewrite E in Ha. contradiction.
    Qed.
  End Select.
End PerSignal.

Lemma filter_onsig_all : forall sig l, NoDup (map fst l) ->
  filter (on_sig sig) (flat_map slot_acts l) =
  match zlookup sig l with Some sl => slot_acts (sig, sl) | None => [] end.
Proof.
  intros sig. induction l as [|[k0 s0] r IH]; intros ND; [reflexivity|].
  cbn in ND. inversion ND; subst. cbn [flat_map zlookup]. rewrite filter_app.
  assert (OS : forall a, a_sig a <> sig -> on_sig sig a = false).
  { intros a H. unfold on_sig. apply Z.eqb_neq. assumption. }
  destruct (Z.eqb_spec k0 sig).
  - subst. rewrite (filter_absent_nil sig (on_sig sig) OS) by assumption. rewrite app_nil_r.
    apply filter_id. intros a Ha. apply slot_acts_sig in Ha. cbn in Ha. unfold on_sig. apply Z.eqb_eq. assumption.
  - rewrite IH by assumption.
    rewrite (filter_none _ (on_sig sig) (slot_acts (k0, s0))); [reflexivity|].
    intros a Ha. apply OS. apply slot_acts_sig in Ha. cbn in Ha. congruence.
Qed.
