(** C05 - concrete histories (non-vacuity of the theorems' hypotheses and conclusions). *)
From Coq Require Import ZArith NArith List Bool.
From SH Require Import gen.Extracted_seqreg seqreg.Spec seqreg.Model seqreg.Run.
Import ListNotations.
Open Scope Z_scope.

Definition run_lin (os0 : list (Z * pre_disp)) (ops : list op) :=
  c_run linux_query_ok linux_set_ok (c_init os0) ops.

(** two signals, a chained user handler on 12, stale and foreign unregisters, an unknown number,
    a forbidden number; order of dispatch = chained handler first, then registration order *)
Definition ex_ops : list op :=
  [ Register 10 100; RegisterSigaction 12 200; Register 10 101; Deliver 10; Deliver 12;
    Unregister 10 1; Unregister 10 1 (* stale *); Unregister 12 3 (* foreign: id 3 belongs to 10 *);
    Deliver 10; Register 100 7 (* EINVAL *); Register 10 102; Register 9 8 (* forbidden *);
    UnregisterSignal 10; UnregisterSignal 10; Deliver 10; Deliver 12; Register 10 103; Deliver 10 ].

Example ex_outputs :
  snd (run_lin [(12, PUser 55)] ex_ops) =
  [ OId 1; OId 2; OId 3; ORan [100; 101]; ORan [55; 200];
    OBool true; OBool false; OBool false;
    ORan [101]; OErr; OId 4; OPanic;
    OBool true; OBool false; ORan []; ORan [55; 200]; OId 5; ORan [103] ].
Proof. vm_compute. reflexivity. Qed.

(** the guard of C05_refines / C05_ids_unique holds for it, the ids are distinct, the spec agrees *)
Example ex_guard : N.lt (successes (snd (run_lin [(12, PUser 55)] ex_ops))) (2 ^ 128)%N.
Proof. vm_compute. reflexivity. Qed.

Example ex_spec_agrees :
  s_run (2 ^ 128) (fun s => zmem s forbidden) (fun s => linux_query_ok s && linux_set_ok s) (pre_of [(12, PUser 55)])
        (s_init 1) ex_ops =
  (abs (fst (run_lin [(12, PUser 55)] ex_ops)), snd (run_lin [(12, PUser 55)] ex_ops)).
Proof. vm_compute. reflexivity. Qed.

(** zero actions left on 10 after unregister_signal: still the library's handler, with the flags *)
Example ex_sticky_with_zero_actions :
  let c := fst (run_lin [] [Register 10 1; UnregisterSignal 10]) in
  c_actions c 10 = [] /\ os_get (os c) 10 = DLib (Z.lor SA_RESTART SA_SIGINFO) /\ os_get (os c) 12 = DPre PDfl.
Proof. vm_compute. repeat split; reflexivity. Qed.

(** a failed first registration consumes no id and changes nothing that abs sees *)
Example ex_error_consumes_no_id :
  snd (run_lin [] [Register 100 1; Register 0 1; Register 33 1; Register 10 2]) = [OErr; OErr; OErr; OId 1].
Proof. vm_compute. reflexivity. Qed.

(** the wrap is in the model: started just below 2^128 the counter hands out 2^128-1, then 0 *)
Example ex_wrap :
  let c0 := mk_cstate (mk_sigdata [] (2 ^ 128 - 1)%N) [] None in
  snd (c_run linux_query_ok linux_set_ok c0 [Register 10 1; Register 10 2; Deliver 10]) =
  [OId (2 ^ 128 - 1)%N; OId 0%N; ORan [2; 1]].
Proof. vm_compute. reflexivity. Qed.
