(** C05 - what the interpreted skeletons compute.  The operations of Model.v are interpretations of
    the statement lists extracted from the source; here each is shown equal to a closed Gallina
    expression.  These lemmas are the static tie: when the source reorders / drops / adds one of the
    recognised statements the extracted lists change and the proofs below no longer go through. *)
From Coq Require Import ZArith NArith List Bool String.
From SH Require Import gen.Extracted_seqreg seqreg.Spec seqreg.Model.
Import ListNotations.
Open Scope Z_scope.
Arguments N.add : simpl never.
Arguments N.modulo : simpl never.
Arguments N.pow : simpl never.

Section Direct.
  Variable query_ok set_ok : Z -> bool.

  Definition reg_direct (c : cstate) (sig tag : Z) : cstate * out :=
    let id := next_id (data c) in
    let nxt := ((id + 1) mod id_mod)%N in
    match zlookup sig (signals (data c)) with
    | Some sl =>
        if is_some (snd (bt_insert id tag (s_actions sl))) then (c, OPanic)
        else (mk_cstate (mk_sigdata (zupdate sig (mk_slot (s_prev sl) (fst (bt_insert id tag (s_actions sl)))) (signals (data c))) nxt)
                        (os c) (fallback c), OId id)
    | None =>
        if query_ok sig then
          if set_ok sig then
            (mk_cstate (mk_sigdata (signals (data c) ++ [(sig, mk_slot (mk_prev sig (os_get (os c) sig)) [(id, tag)])]) nxt)
                       ((sig, DLib sa_flags) :: os c) (Some (mk_prev sig (os_get (os c) sig))), OId id)
          else (mk_cstate (data c) (os c) (Some (mk_prev sig (os_get (os c) sig))), OErr)
        else (c, OErr)
    end.

  Lemma c_register_unchecked_eq : forall c sig tag,
    c_register_unchecked query_ok set_ok c sig tag = reg_direct c sig tag.
  Proof.
    intros [[sg nx] o fb] sig tag.
    unfold c_register_unchecked, reg_direct. cbn.
    destruct (zlookup sig sg) as [sl|] eqn:E; cbn.
    - destruct (is_some (snd (bt_insert nx tag (s_actions sl)))); reflexivity.
    - destruct (query_ok sig); cbn; [|reflexivity]. destruct (set_ok sig); cbn; reflexivity.
  Qed.

  Definition register_direct (c : cstate) (sig tag : Z) : cstate * out :=
    if zmem sig forbidden then (c, OPanic) else reg_direct c sig tag.

  Lemma c_register_eq : forall c sig tag, c_register query_ok set_ok c sig tag = register_direct c sig tag.
  Proof.
    intros. unfold c_register, register_direct. cbn [entry_checked exec_entry].
    destruct (zmem sig forbidden); [reflexivity|]. apply c_register_unchecked_eq.
  Qed.

  Definition unreg_direct (c : cstate) (sig : Z) (id : N) : cstate * out :=
    match zlookup sig (signals (data c)) with
    | Some sl =>
        if is_some (snd (bt_remove id (s_actions sl)))
        then (mk_cstate (mk_sigdata (zupdate sig (mk_slot (s_prev sl) (fst (bt_remove id (s_actions sl)))) (signals (data c)))
                                    (next_id (data c))) (os c) (fallback c), OBool true)
        else (c, OBool false)
    | None => (c, OBool false)
    end.

  Lemma c_unregister_eq : forall c sig id, c_unregister query_ok set_ok c sig id = unreg_direct c sig id.
  Proof.
    intros [[sg nx] o fb] sig id. unfold c_unregister, unreg_direct. cbn.
    destruct (zlookup sig sg) as [sl|]; cbn; [|reflexivity].
    destruct (is_some (snd (bt_remove id (s_actions sl)))); reflexivity.
  Qed.

  Definition unsig_direct (c : cstate) (sig : Z) : cstate * out :=
    match zlookup sig (signals (data c)) with
    | Some sl =>
        match s_actions sl with
        | [] => (c, OBool false)
        | _ :: _ => (mk_cstate (mk_sigdata (zupdate sig (mk_slot (s_prev sl) []) (signals (data c))) (next_id (data c)))
                               (os c) (fallback c), OBool true)
        end
    | None => (c, OBool false)
    end.

  Lemma c_unregister_signal_eq : forall c sig, c_unregister_signal query_ok set_ok c sig = unsig_direct c sig.
  Proof.
    intros [[sg nx] o fb] sig. unfold c_unregister_signal, unsig_direct. cbn.
    destruct (zlookup sig sg) as [sl|]; cbn; [|reflexivity].
    destruct (s_actions sl); reflexivity.
  Qed.

  (** the dispatcher: the chained previous handler first, then the actions in key order *)
  Definition handler_direct (c : cstate) (sig : Z) : list Z :=
    match zlookup sig (signals (data c)) with
    | Some sl => prev_out (s_prev sl) ++ map snd (s_actions sl)
    | None => match fallback c with
              | Some p => if p_sig p =? sig then prev_out p else []
              | None => []
              end
    end.

  Lemma run_handler_eq : forall c sig, run_handler c sig = handler_direct c sig.
  Proof.
    intros [[sg nx] o fb] sig. unfold run_handler, handler_direct. cbn.
    destruct (zlookup sig sg) as [sl|]; cbn; [reflexivity|].
    destruct fb as [p|]; cbn; [|reflexivity]. destruct (p_sig p =? sig); reflexivity.
  Qed.
End Direct.

(** ---- facts of the source that are data, not behaviour ---------------------------------------- *)
(** the only things ever done to the `signals` map: look up / look up mutably / entry-insert.
    No remove, clear, retain, drain: a Slot, once created, stays. *)
Lemma src_signals_never_shrink : signals_methods = ["entry"; "get"; "get_mut"]%string.
Proof. reflexivity. Qed.

(** `sigaction` installs a disposition in exactly one function, Slot::new; everything else only
    queries; no signal()/sigprocmask; SIG_DFL / SIG_IGN are only ever compared against. *)
Lemma src_disposition_only_set_by_slot_new :
  sigaction_set_sites = ["new"]%string /\ sigaction_query_sites = ["detect"]%string /\
  other_disposition_calls = [] /\ sig_dfl_ign_non_comparison_uses = [].
Proof. repeat split; reflexivity. Qed.

Lemma src_actions_methods : actions_methods = ["clear"; "insert"; "is_empty"; "remove"; "values"]%string.
Proof. reflexivity. Qed.

Lemma src_sa_flags : sa_flags = Z.lor SA_RESTART SA_SIGINFO.
Proof. reflexivity. Qed.

Lemma src_initial_next_id : initial_next_id = 1%N.
Proof. reflexivity. Qed.

Lemma src_id_mod : id_mod = (2 ^ 128)%N.
Proof. reflexivity. Qed.

Lemma src_prev_execute_skips : prev_execute_skips = [0; 1].
Proof. reflexivity. Qed.
