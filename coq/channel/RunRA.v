(** Executable entry point of the view-semantics model, used by the checks to SEARCH for a
    weak-memory execution reaching RACE or PANIC when a proof about it no longer goes through
    (DESIGN 5.7, 6).  Input: a list of labels, 4 integers each:
      0 k c _        frame k takes a step with choice c
      1 kind v p     spawn send(v) (kind 1) / recv (kind 2); p = 0: bottom view, p = j+1: view of frame j
    Output: one integer per frame: 0 fine, 1-3 panic reason, 11/12 race reason; then -1 and the
    number of messages of `empty` and `full`. *)
From Coq Require Import List Arith NArith ZArith Bool.
From SH Require Import base.Pool gen.Extracted_channel channel.Defs channel.Model channel.ModelRA.
Import ListNotations.
Local Open Scope Z_scope.

Fixpoint labels_of (l : list Z) : list rlabel :=
  match l with
  | a :: b :: c :: d :: r =>
      (if a =? 0 then RStep (Z.to_nat b) (Z.to_nat c)
       else RSpawn (if b =? 1 then KSend (Z.to_nat c) else KRecv) (if d =? 0 then None else Some (Z.to_nat (d - 1))))
      :: labels_of r
  | _ => []
  end.

Definition run_ra (inp : list Z) : list Z :=
  let '(s, fs) := rrun rinit_world (labels_of inp) in
  map bad_frame fs ++ [-1; Z.of_nat (length (me s)); Z.of_nat (length (mf s))].
