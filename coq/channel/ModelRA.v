(** The channel under the view-based release/acquire + relaxed memory model (DESIGN 3.3, 5.7).

    Per atomic location the memory is the list of ALL messages ever written (timestamp =
    position), each with a value and a message view.  A thread (frame) has a view: a timestamp
    per location.  A relaxed load or a failed compare-exchange may read ANY message at or after
    the thread's view of that location (stale values); a successful compare-exchange reads the
    LAST message, appends a new one, joins the view of the message it read into the thread iff
    its success ordering has acquire semantics, and publishes the thread's view in the new
    message iff it has release semantics; every read-modify-write inherits the view of the
    message it read (release sequences).  The payload cells are non-atomic: an access by a
    thread whose view does not contain the cell's last access is a data race (state [RRace]).
    The orderings are NOT written here: they are read from gen/Extracted_channel.v
    ([deq_ord_load], [deq_ord_cas_ok], ... as regenerated from the source on every run).

    One more location models the publication of the channel pointer by
    src/iterator/exfiltrator/raw.rs: the Slot holds two messages, null and the pointer stored by
    `init` with `swap(slot_init_swap_ord)`; its message view contains the construction of the
    channel ([LI] at 1) iff that ordering has release semantics.  Every frame starts by loading
    the slot (`store`/`load` of WithRawSiginfo) with its extracted ordering; using the channel
    with a view that does not contain its construction is a race as well.

    Choices: for a load, c = how far beyond its view the thread reads (clipped to the last
    message); for a CAS, 0 = attempt it on the last message, S k = fail (spuriously, or because
    of a stale value), reading k messages beyond the view.
    A frame is spawned with the bottom view or with a copy of the view of an existing frame
    (the same thread continuing, a signal handler nested on that thread, a thread it started). *)
From Coq Require Import List Arith NArith ZArith Bool.
From SH Require Import base.Pool gen.Extracted_channel channel.Defs channel.Model.
Import ListNotations.
Local Open Scope N_scope.

Inductive loc := LE | LF | LC (i : N) | LS | LI.

Definition loc_eqb (a b : loc) : bool :=
  match a, b with
  | LE, LE | LF, LF | LS, LS | LI, LI => true
  | LC i, LC j => i =? j
  | _, _ => false
  end.

Definition view := loc -> nat.
Definition vbot : view := fun _ => 0%nat.
Definition vjoin (a b : view) : view := fun l => Nat.max (a l) (b l).
Definition vset (a : view) (l : loc) (t : nat) : view := fun l' => if loc_eqb l' l then t else a l'.

Record msg := { mval : N; mview : view }.
Definition dummy : msg := {| mval := 0; mview := vbot |}.

Record rshared := {
  me : list msg; mf : list msg;       (* all messages of `empty` / `full`, oldest first *)
  cval : N -> option nat;             (* cell contents, keyed by slot index *)
  clast : N -> nat                    (* timestamp of the last access of each cell *)
}.

Inductive rpc := RSlot | RDeqLoad | RDeqCas | RCell | REnqLoad | REnqCas | RDone
               | RPanic (why : nat)   (* as in Model.v *)
               | RRace (why : nat).   (* 1 channel used without its construction in view, 2 cell *)

Record rframe := { rkind : kind; rpcf : rpc; rcur : N; ridx : N; rgot : option nat; rview : view }.

Definition qloc (q : queue) : loc := match q with QE => LE | QF => LF end.
Definition msgs (s : rshared) (q : queue) : list msg := match q with QE => me s | QF => mf s end.
Definition set_msgs (s : rshared) (q : queue) (ms : list msg) : rshared :=
  match q with
  | QE => {| me := ms; mf := mf s; cval := cval s; clast := clast s |}
  | QF => {| me := me s; mf := ms; cval := cval s; clast := clast s |}
  end.
Definition lastm (ms : list msg) : msg := last ms dummy.
Definition last_ts (ms : list msg) : nat := pred (length ms).
Definition msg_at (ms : list msg) (t : nat) : msg := nth t ms dummy.

(** The timestamp a thread with view timestamp [v] reads when it looks [c] messages ahead. *)
Definition pick (ms : list msg) (v c : nat) : nat := Nat.min (v + c) (last_ts ms).

Definition acq_join (ord : N) (v : view) (m : msg) : view := if has_acq ord then vjoin v (mview m) else v.

(** The view in which the channel's construction is visible, and the Slot's two messages. *)
Definition init_view : view := vset vbot LI 1.
Definition slot_msgs : list msg :=
  [ {| mval := 0; mview := vbot |};
    {| mval := 1; mview := if has_rel slot_init_swap_ord then init_view else vbot |} ].

Definition rinit : rshared :=
  let '(e, f) := match new_words with Some p => p | None => (0, 0) end in
  {| me := [ {| mval := e; mview := vbot |} ]; mf := [ {| mval := f; mview := vbot |} ];
     cval := fun _ => None; clast := fun _ => 0%nat |}.

Definition mk_rframe (k : kind) (v : view) : rframe :=
  {| rkind := k; rpcf := RSlot; rcur := 0; ridx := 0; rgot := None; rview := v |}.

Definition rset (f : rframe) (p : rpc) (c : N) (v : view) : rframe :=
  {| rkind := rkind f; rpcf := p; rcur := c; ridx := ridx f; rgot := rgot f; rview := v |}.

Definition after_deq (f : rframe) (m : N) (v : view) : rframe :=
  match dequeue_word m with Some _ => rset f RDeqCas m v | None => rset f RDone m v end.
Definition after_enq (f : rframe) (m : N) (v : view) : rframe :=
  match enq_find m with Some _ => rset f REnqCas m v | None => rset f (RPanic 1) m v end.

(** A relaxed/acquire read of queue [q] at timestamp [t]. *)
Definition read_view (s : rshared) (f : rframe) (q : queue) (ord : N) (t : nat) : N * view :=
  let m := msg_at (msgs s q) t in
  (mval m, vset (acq_join ord (rview f) m) (qloc q) t).

(** A successful CAS on queue [q] writing [w]: (new memory, new thread view). *)
Definition cas_ok (s : rshared) (f : rframe) (q : queue) (ord : N) (w : N) : rshared * view :=
  let ms := msgs s q in
  let m := lastm ms in
  let v1 := vset (acq_join ord (rview f) m) (qloc q) (length ms) in
  let mv := if has_rel ord then vjoin (mview m) v1 else mview m in
  (set_msgs s q (ms ++ [ {| mval := w; mview := mv |} ]), v1).

Definition slot_ord (k : kind) : N := match k with KSend _ => slot_store_load_ord | KRecv => slot_load_load_ord end.

Definition rstep (s : rshared) (f : rframe) (c : nat) : rshared * rframe :=
  match rpcf f with
  | RSlot =>
      let t := pick slot_msgs (rview f LS) c in
      let m := msg_at slot_msgs t in
      let v := vset (acq_join (slot_ord (rkind f)) (rview f) m) LS t in
      if mval m =? 0 then (s, rset f RDone 0 v)            (* null: `if let Some(..)` not taken *)
      else (s, rset f RDeqLoad 0 v)
  | RDeqLoad =>
      if Nat.ltb (rview f LI) 1 then (s, rset f (RRace 1) 0 (rview f)) else
      let q := deq_q (rkind f) in
      let '(m, v) := read_view s f q deq_ord_load (pick (msgs s q) (rview f (qloc q)) c) in
      (s, after_deq f m v)
  | RDeqCas =>
      let q := deq_q (rkind f) in
      let ms := msgs s q in
      match dequeue_word (rcur f) with
      | None => (s, f)
      | Some (i, w') =>
          match c with
          | O =>
              if mval (lastm ms) =? rcur f
              then let '(s', v) := cas_ok s f q deq_ord_cas_ok w' in
                   (s', {| rkind := rkind f; rpcf := RCell; rcur := rcur f; ridx := i; rgot := rgot f; rview := v |})
              else let '(m, v) := read_view s f q deq_ord_cas_fail (last_ts ms) in (s, after_deq f m v)
          | S k =>
              let '(m, v) := read_view s f q deq_ord_cas_fail (pick ms (rview f (qloc q)) k) in (s, after_deq f m v)
          end
      end
  | RCell =>
      let i := ridx f in
      if negb (in_range i) then (s, rset f (RPanic 3) (rcur f) (rview f)) else
      if Nat.ltb (rview f (LC i)) (clast s i) then (s, rset f (RRace 2) (rcur f) (rview f)) else
      let t := S (clast s i) in
      let v := vset (rview f) (LC i) t in
      let cl := fun j => if j =? i then t else clast s j in
      match rkind f with
      | KSend x =>
          ({| me := me s; mf := mf s; cval := fun j => if j =? i then Some x else cval s j; clast := cl |},
           rset f REnqLoad (rcur f) v)
      | KRecv =>
          match cval s i with
          | Some x =>
              ({| me := me s; mf := mf s; cval := fun j => if j =? i then None else cval s j; clast := cl |},
               {| rkind := rkind f; rpcf := REnqLoad; rcur := rcur f; ridx := i; rgot := Some x; rview := v |})
          | None => (s, rset f (RPanic 2) (rcur f) (rview f))
          end
      end
  | REnqLoad =>
      let q := enq_q (rkind f) in
      let '(m, v) := read_view s f q enq_ord_load (pick (msgs s q) (rview f (qloc q)) c) in
      (s, after_enq f m v)
  | REnqCas =>
      let q := enq_q (rkind f) in
      let ms := msgs s q in
      match enqueue_word (rcur f) (ridx f) with
      | None => (s, f)
      | Some w' =>
          match c with
          | O =>
              if mval (lastm ms) =? rcur f
              then let '(s', v) := cas_ok s f q enq_ord_cas_ok w' in (s', rset f RDone (rcur f) v)
              else let '(m, v) := read_view s f q enq_ord_cas_fail (last_ts ms) in (s, after_enq f m v)
          | S k =>
              let '(m, v) := read_view s f q enq_ord_cas_fail (pick ms (rview f (qloc q)) k) in (s, after_enq f m v)
          end
      end
  | RDone | RPanic _ | RRace _ => (s, f)
  end.

Inductive rlabel := RStep (k : nat) (c : nat) | RSpawn (k : kind) (parent : option nat).
Definition rworld := (rshared * list rframe)%type.

Definition rwstep (w : rworld) (l : rlabel) : rworld :=
  let '(s, fs) := w in
  match l with
  | RSpawn k None => (s, fs ++ [mk_rframe k vbot])
  | RSpawn k (Some p) =>
      match nth_error fs p with
      | Some g => (s, fs ++ [mk_rframe k (rview g)])
      | None => (s, fs ++ [mk_rframe k vbot])
      end
  | RStep k c =>
      match nth_error fs k with
      | None => w
      | Some f => let '(s', f') := rstep s f c in (s', upd fs k f')
      end
  end.

Definition rrun (w : rworld) (ls : list rlabel) : rworld := fold_left rwstep ls w.
Definition rinit_world : rworld := (rinit, []).

(** Is some frame in the RACE / PANIC state?  (used by the model-side search of the check) *)
Definition bad_frame (f : rframe) : Z :=
  match rpcf f with RRace w => Z.of_nat (10 + w) | RPanic w => Z.of_nat w | _ => 0%Z end.
