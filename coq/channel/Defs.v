(** Word-level vocabulary of the channel (src/low_level/channel.rs): the abstraction
    [decode]/[encode] between a packed u16 queue word and the list of slot indices it holds,
    and the queue operations as computed by the TRANSLATED code of [get]/[set]/[enqueue]/
    [dequeue] (gen/Extracted_channel.v).  Definitions only (extracted); proofs are in Word.v. *)
From Coq Require Import List NArith Bool.
From SH Require Import gen.Extracted_channel.
Import ListNotations.
Local Open Scope N_scope.

(** [lo; lo+1; ...] (n elements) *)
Fixpoint nrange (lo : N) (n : nat) : list N :=
  match n with O => [] | S k => lo :: nrange (lo + 1) k end.

(** A queue word holds its entries from the least significant position upwards, BITS bits
    each, 0 = unused position. *)
Fixpoint decode_n (fuel : nat) (w : N) : list N :=
  match fuel with
  | O => []
  | S k => let v := N.land w MASK in if v =? 0 then [] else v :: decode_n k (N.shiftr w BITS)
  end.
Definition decode (w : N) : list N := decode_n 6 w.

Fixpoint encode (l : list N) : N :=
  match l with [] => 0 | v :: t => N.lor v (N.shiftl (encode t) BITS) end.

(** The slot indices: 1..SLOTS. *)
Definition idxs : list N := nrange 1 (N.to_nat SLOTS).

(** enqueue(): `(0..SLOTS as u16).find(|i| get(current, *i) == 0)` *)
Definition enq_find (current : N) : option N :=
  find (enq_pred current) (nrange enq_lo (N.to_nat (enq_hi - enq_lo))).

(** What a successful enqueue CAS writes (None = `.expect("No empty slot available")` panics). *)
Definition enqueue_word (current v : N) : option N :=
  match enq_find current with
  | Some e => Some (enq_modified current e v)
  | None => None
  end.

(** dequeue(): None = the queue is seen empty; Some (index obtained, word written by the CAS). *)
Definition dequeue_word (current : N) : option (N * N) :=
  let val := deq_val current in
  if deq_is_none val then None else Some (val, deq_modified current).

(** new(): AtomicU16::new(0) twice, then `for i in 1..SLOTS+1 { enqueue(&me.empty, i) }`
    (sequential: every CAS succeeds).  None = a panic inside new(). *)
Fixpoint enqueue_all (w : N) (vs : list N) : option N :=
  match vs with
  | [] => Some w
  | v :: r => match enqueue_word w v with Some w' => enqueue_all w' r | None => None end
  end.

Definition new_values : list N := nrange new_lo (N.to_nat (new_hi - new_lo)).

(** (empty word, full word) after new() *)
Definition new_words : option (N * N) :=
  let e0 := new_init_empty in
  let f0 := new_init_full in
  if new_queue =? 0
  then match enqueue_all e0 new_values with Some e => Some (e, f0) | None => None end
  else match enqueue_all f0 new_values with Some f => Some (e0, f) | None => None end.

(** Orderings (codes of the verification shim): which have acquire / release semantics. *)
Definition has_acq (o : N) : bool := (o =? 2) || (o =? 3) || (o =? 4).
Definition has_rel (o : N) : bool := (o =? 1) || (o =? 3) || (o =? 4).

(** All duplicate-free lists of length <= k over [avail] (the valid queue contents). *)
Fixpoint remove_n (v : N) (l : list N) : list N :=
  match l with [] => [] | h :: t => if h =? v then remove_n v t else h :: remove_n v t end.

Fixpoint seqs (k : nat) (avail : list N) : list (list N) :=
  match k with
  | O => [[]]
  | S k' => [] :: flat_map (fun v => map (cons v) (seqs k' (remove_n v avail))) avail
  end.

Definition valid_lists : list (list N) := seqs (N.to_nat SLOTS) idxs.
Definition valid_words : list N := map encode valid_lists.

Fixpoint list_eqb (a b : list N) : bool :=
  match a, b with
  | [], [] => true
  | x :: a', y :: b' => (x =? y) && list_eqb a' b'
  | _, _ => false
  end.

Fixpoint memb (v : N) (l : list N) : bool :=
  match l with [] => false | h :: t => (h =? v) || memb v t end.
