(** All SC invariants hold in every reachable world (every label list), and the statements of
    C06 / C07 (accounting) / C08 that follow from them. *)
From Coq Require Import List Arith NArith ZArith Bool Lia.
From SH Require Import base.Pool gen.Extracted_channel channel.Defs channel.Word channel.Model
  channel.Inv channel.Steps channel.Fifo channel.Account.
Import ListNotations.
Local Open Scope N_scope.

(** * Ticks: assigned once, at the successful CAS on `full`, as the next serial number *)

Definition has_tick (recv : bool) (t : nat) (f : frame) : Prop :=
  tick f = Some t /\ (if recv then fkind f = KRecv else exists v, fkind f = KSend v).

Record TInv (s : shared) (fs : list frame) : Prop := {
  t_out : forall t, (t < length (g_out s))%nat -> exists k f, nth_error fs k = Some f /\ has_tick true t f;
  t_in : forall t, (t < length (g_in s))%nat -> exists k f, nth_error fs k = Some f /\ has_tick false t f
}.

Lemma tick_step s fs k f s' f' :
  Inv s fs -> FInv s fs -> nth_error fs k = Some f -> Step s f s' f' ->
  fkind f' = fkind f /\
  ((g_in s' = g_in s /\ g_out s' = g_out s /\ tick f' = tick f) \/
   (tick f = None /\ fkind f = KRecv /\ g_in s' = g_in s /\ (exists h, g_out s' = g_out s ++ [h]) /\ tick f' = Some (length (g_out s))) \/
   (tick f = None /\ (exists v i, fkind f = KSend v /\ g_in s' = g_in s ++ [(i, v)]) /\ g_out s' = g_out s /\ tick f' = Some (length (g_in s)))).
Proof.
  intros I F Hk St. destruct St; cbn [set_cur set_pc fkind tick g_in g_out add_dropped qset set_cell]; split; auto.
  - right. left. repeat split; eauto.
    pose proof (f_recv _ _ F k f Hk H) as R. unfold recv_ok in R. destruct (tick f); auto.
    destruct R as (i & v & _ & _ & Hx). rewrite H0 in Hx. contradiction.
  - right. right. repeat split; eauto.
    pose proof (f_send _ _ F k f v Hk H) as R. unfold send_ok in R. destruct (tick f); auto.
    destruct R as [_ E]. congruence.
Qed.

Lemma tinv_step s fs k f c s' f' es :
  Inv s fs -> FInv s fs -> TInv s fs -> nth_error fs k = Some f -> fstep s f c = (s', f', es) -> TInv s' (upd fs k f').
Proof.
  intros I F T Hk Hs. pose proof (fstep_cases _ _ _ _ _ _ _ _ I Hk Hs) as St.
  destruct (tick_step _ _ _ _ _ _ I F Hk St) as [Hkind Hc].
  assert (Hlen : (k < length fs)%nat) by (apply nth_error_Some; congruence).
  assert (Keep : forall r t, (exists j g, nth_error fs j = Some g /\ has_tick r t g) -> (tick f = Some t -> tick f' = Some t) ->
                 exists j g, nth_error (upd fs k f') j = Some g /\ has_tick r t g).
  { intros r t (j & g & Hj & Ht & Hr) Hsame. destruct (Nat.eq_dec j k) as [->|Hne].
    - exists k, f'. split; [apply nth_upd_eq; auto|]. assert (g = f) by congruence. subst g.
      split; auto. rewrite Hkind. exact Hr.
    - exists j, g. split; [rewrite nth_upd_neq; auto|split; auto]. }
  destruct Hc as [(Ei & Eo & Et)|[(Tn & K & Ei & (h & Eo) & Et)|(Tn & (v & i & K & Ei) & Eo & Et)]].
  - constructor; intros t Ht.
    + rewrite Eo in Ht. apply Keep; [apply (t_out _ _ T t Ht)|congruence].
    + rewrite Ei in Ht. apply Keep; [apply (t_in _ _ T t Ht)|congruence].
  - constructor; intros t Ht.
    + rewrite Eo, app_length in Ht. simpl in Ht. destruct (Nat.eq_dec t (length (g_out s))) as [->|Hne].
      * exists k, f'. split; [apply nth_upd_eq; auto|]. split; auto. simpl. congruence.
      * apply Keep; [apply (t_out _ _ T t); lia|congruence].
    + rewrite Ei in Ht. apply Keep; [apply (t_in _ _ T t Ht)|congruence].
  - constructor; intros t Ht.
    + rewrite Eo in Ht. apply Keep; [apply (t_out _ _ T t Ht)|congruence].
    + rewrite Ei, app_length in Ht. simpl in Ht. destruct (Nat.eq_dec t (length (g_in s))) as [->|Hne].
      * exists k, f'. split; [apply nth_upd_eq; auto|]. split; auto. simpl. exists v. congruence.
      * apply Keep; [apply (t_in _ _ T t); lia|congruence].
Qed.

(** * Everything together, for every run *)

Record All (s : shared) (fs : list frame) : Prop := {
  all_i : Inv s fs; all_f : FInv s fs; all_a : AInv s fs; all_t : TInv s fs
}.

Lemma all_init : All init_shared [].
Proof.
  constructor.
  - apply inv_init.
  - constructor.
    + destruct init_words as [_ Hf]. rewrite Hf. reflexivity.
    + intros p i v H. change (g_in init_shared) with (@nil (N * nat)) in H. destruct (length (g_out init_shared) + p)%nat; discriminate.
    + intros [|k] f H; discriminate.
    + intros [|k] f v H; discriminate.
    + intros [|j] k f g t _ H; discriminate.
  - constructor.
    + intro x. unfold cellcnt. rewrite idxs_eq. reflexivity.
    + intros [|k] f H; discriminate.
  - constructor; intros t Ht; [change (g_out init_shared) with (@nil N) in Ht|change (g_in init_shared) with (@nil (N * nat)) in Ht]; simpl in Ht; lia.
Qed.

Lemma all_spawn s fs kd : All s fs -> All s (fs ++ [mk_frame kd]).
Proof.
  intros [I F A T]. constructor.
  - apply inv_spawn. exact I.
  - constructor; try apply F.
    + intros k f Hk K. apply nth_app_cases in Hk. destruct Hk as [Hk|[_ ->]]; [eapply f_recv; eauto|].
      unfold recv_ok. simpl. auto.
    + intros k f v Hk K. apply nth_app_cases in Hk. destruct Hk as [Hk|[_ ->]]; [eapply f_send; eauto|].
      unfold send_ok. simpl. auto.
    + intros j k f g t Hne Hj Hk Hkk T1 T2. apply nth_app_cases in Hj. apply nth_app_cases in Hk.
      destruct Hj as [Hj|[_ ->]]; [|discriminate]. destruct Hk as [Hk|[_ ->]]; [|discriminate].
      eapply (f_inj _ _ F j k f g t); eauto.
  - constructor.
    + intro x. rewrite !cnt_app. pose proof (a_count _ _ A x).
      assert (One : forall P, cnt P [mk_frame kd] = b2n (P (mk_frame kd))) by (intro P; unfold cnt; simpl; destruct (P (mk_frame kd)); reflexivity).
      rewrite !One. unfold is_send, in_hand, took, is_send in *. cbn [mk_frame fkind fpc got].
      destruct kd; [destruct (Nat.eqb v x)|]; cbn [b2n andb]; lia.
    + intros k f Hk. apply nth_app_cases in Hk. destruct Hk as [Hk|[_ ->]]; [eapply a_got; eauto|]. reflexivity.
  - constructor; intros t Ht.
    + destruct (t_out _ _ T t Ht) as (k & f & Hk & H). exists k, f. split; auto. apply nth_error_ext. exact Hk.
    + destruct (t_in _ _ T t Ht) as (k & f & Hk & H). exists k, f. split; auto. apply nth_error_ext. exact Hk.
Qed.

Lemma all_wstep w l w' es : All (fst w) (snd w) -> wstep w l = (w', es) -> All (fst w') (snd w').
Proof.
  destruct w as [s fs]. simpl. intros A Hs. destruct l as [k c|kd]; simpl in Hs.
  - destruct (nth_error fs k) as [f|] eqn:Hn.
    + destruct (fstep s f c) as [[s1 f1] e1] eqn:Hf. inversion Hs; subst. simpl. destruct A as [I F A T]. constructor.
      * eapply inv_step; eauto.
      * eapply finv_step; eauto.
      * eapply ainv_step; eauto.
      * eapply tinv_step; eauto.
    + inversion Hs; subst. exact A.
  - inversion Hs; subst. simpl. apply all_spawn. exact A.
Qed.

Lemma all_run ls : forall w w' es, All (fst w) (snd w) -> run w ls = (w', es) -> All (fst w') (snd w').
Proof.
  induction ls as [|l r IH]; intros w w' es A Hr; simpl in Hr.
  - inversion Hr; subst. exact A.
  - destruct (wstep w l) as [w1 e1] eqn:Hw. destruct (run w1 r) as [w2 e2] eqn:Hr2.
    inversion Hr; subst. eapply IH; [|eauto]. eapply all_wstep; eauto.
Qed.

Theorem reachable_all ls s fs es : run init_world ls = ((s, fs), es) -> All s fs.
Proof. intro H. apply (all_run ls init_world (s, fs) es); [apply all_init|exact H]. Qed.

(** * C06 *)

Theorem fifo ls s fs es :
  run init_world ls = ((s, fs), es) ->
  (* the dequeued indices are a prefix of the enqueued ones; the rest is exactly the queue *)
  map fst (g_in s) = g_out s ++ decode (qf s) /\
  (* a value returned by recv is the value of the send at the same serial number *)
  (forall k f v, nth_error fs k = Some f -> fkind f = KRecv -> got f = Some v ->
     exists t i, tick f = Some t /\ nth_error (g_in s) t = Some (i, v) /\ nth_error (g_out s) t = Some i) /\
  (* a send that took effect is recorded with its own value, and only finished sends are *)
  (forall k f v t, nth_error fs k = Some f -> fkind f = KSend v -> tick f = Some t ->
     nth_error (g_in s) t = Some (idx f, v) /\ fpc f = PDone) /\
  (* serial numbers are not shared: nothing is obtained twice, no send takes effect twice *)
  (forall j k f g t, j <> k -> nth_error fs j = Some f -> nth_error fs k = Some g ->
     (fkind f = KRecv <-> fkind g = KRecv) -> tick f = Some t -> tick g = Some t -> False) /\
  (* every serial number belongs to some frame: nothing is invented *)
  (forall t, (t < length (g_out s))%nat -> exists k f, nth_error fs k = Some f /\ fkind f = KRecv /\ tick f = Some t) /\
  (forall t, (t < length (g_in s))%nat -> exists k f v, nth_error fs k = Some f /\ fkind f = KSend v /\ tick f = Some t).
Proof.
  intro Hr. destruct (reachable_all _ _ _ _ Hr) as [I F A T].
  split; [apply F|]. split; [|split; [|split; [|split]]].
  - intros k f v Hk K Hg. pose proof (f_recv _ _ F k f Hk K) as R. unfold recv_ok in R.
    destruct (tick f) as [t|].
    + destruct R as (i & v' & Hi & Ho & Hx). exists t, i. split; auto.
      destruct (fpc f); try contradiction; try (destruct Hx as (_ & E & _); congruence);
        (assert (v' = v) by congruence; subst v'; auto).
    + destruct R as [_ E]. congruence.
  - intros k f v t Hk K Ht. pose proof (f_send _ _ F k f v Hk K) as R. unfold send_ok in R. rewrite Ht in R. exact R.
  - apply F.
  - intros t Ht. destruct (t_out _ _ T t Ht) as (k & f & Hk & E & K). exists k, f. auto.
  - intros t Ht. destruct (t_in _ _ T t Ht) as (k & f & Hk & E & v & K). exists k, f, v. auto.
Qed.

(** Program order: everything that takes effect later is ordered after everything that has
    taken effect already; effects are never undone or renumbered. *)
Lemma order_wstep w l w' es :
  All (fst w) (snd w) -> wstep w l = (w', es) ->
  (exists a, g_in (fst w') = g_in (fst w) ++ a) /\ (exists b, g_out (fst w') = g_out (fst w) ++ b) /\
  (forall k f, nth_error (snd w) k = Some f -> exists f', nth_error (snd w') k = Some f' /\ fkind f' = fkind f /\
      (forall t, tick f = Some t -> tick f' = Some t) /\
      (forall t, tick f = None -> tick f' = Some t ->
         match fkind f with KSend _ => (length (g_in (fst w)) <= t)%nat | KRecv => (length (g_out (fst w)) <= t)%nat end)).
Proof.
  destruct w as [s fs]. simpl. intros [I F A T] Hs. destruct l as [k c|kd]; simpl in Hs.
  - destruct (nth_error fs k) as [f|] eqn:Hn.
    + destruct (fstep s f c) as [[s1 f1] e1] eqn:Hf. inversion Hs; subst. simpl.
      pose proof (fstep_cases _ _ _ _ _ _ _ _ I Hn Hf) as St.
      destruct (tick_step _ _ _ _ _ _ I F Hn St) as [Hkind Hc].
      assert (Hlen : (k < length fs)%nat) by (apply nth_error_Some; congruence).
      assert (Hext : (exists a, g_in s1 = g_in s ++ a) /\ (exists b, g_out s1 = g_out s ++ b)).
      { destruct Hc as [(Ei & Eo & _)|[(_ & _ & Ei & (h & Eo) & _)|(_ & (v & i & _ & Ei) & Eo & _)]]; rewrite Ei, Eo;
          split; eauto; exists []; rewrite app_nil_r; reflexivity. }
      destruct Hext as [Ha Hb]. split; auto. split; auto.
      intros j g Hj. destruct (Nat.eq_dec j k) as [->|Hne].
      * assert (g = f) by congruence. subst g. exists f1. split; [apply nth_upd_eq; auto|]. split; auto.
        destruct Hc as [(_ & _ & Et)|[(Tn & K & _ & _ & Et)|(Tn & (v & i & K & _) & _ & Et)]].
        -- split; intros t; rewrite Et; auto. intros E1 E2. congruence.
        -- split; intros t E; try congruence. rewrite K, Et. intro E2. inversion E2. lia.
        -- split; intros t E; try congruence. rewrite K, Et. intro E2. inversion E2. lia.
      * exists g. split; [rewrite nth_upd_neq; auto|]. split; auto. split; auto. intros t E1 E2. congruence.
    + inversion Hs; subst. simpl. split; [exists []; rewrite app_nil_r; reflexivity|].
      split; [exists []; rewrite app_nil_r; reflexivity|]. intros j g Hj. exists g. repeat split; auto. intros t E1 E2. congruence.
  - inversion Hs; subst. simpl. split; [exists []; rewrite app_nil_r; reflexivity|].
    split; [exists []; rewrite app_nil_r; reflexivity|]. intros j g Hj. exists g. split; [apply nth_error_ext; auto|].
    repeat split; auto. intros t E1 E2. congruence.
Qed.

Theorem effects_ordered ls2 : forall s1 fs1 s2 fs2 es2,
  All s1 fs1 -> run (s1, fs1) ls2 = ((s2, fs2), es2) ->
  (exists a, g_in s2 = g_in s1 ++ a) /\ (exists b, g_out s2 = g_out s1 ++ b) /\
  (forall k f, nth_error fs1 k = Some f -> exists f', nth_error fs2 k = Some f' /\ fkind f' = fkind f /\
      (forall t, tick f = Some t -> tick f' = Some t) /\
      (forall t, tick f = None -> tick f' = Some t ->
         match fkind f with KSend _ => (length (g_in s1) <= t)%nat | KRecv => (length (g_out s1) <= t)%nat end)) /\
  (* frames spawned later *)
  (forall k f' t, nth_error fs1 k = None -> nth_error fs2 k = Some f' -> tick f' = Some t ->
         match fkind f' with KSend _ => (length (g_in s1) <= t)%nat | KRecv => (length (g_out s1) <= t)%nat end).
Proof.
  induction ls2 as [|l r IH]; intros s1 fs1 s2 fs2 es2 A Hr; cbn [run] in Hr.
  - inversion Hr; subst. split; [exists []; rewrite app_nil_r; reflexivity|].
    split; [exists []; rewrite app_nil_r; reflexivity|]. split.
    + intros k f Hk. exists f. repeat split; auto. intros t E1 E2. congruence.
    + intros k f' t E1 E2. congruence.
  - destruct (wstep (s1, fs1) l) as [[sm fm] e1] eqn:Hw. destruct (run (sm, fm) r) as [[sx fx] e2] eqn:Hr2.
    injection Hr as -> -> <-.
    pose proof (all_wstep (s1, fs1) l (sm, fm) e1 A Hw) as Am. simpl in Am.
    destruct (order_wstep (s1, fs1) l (sm, fm) e1 A Hw) as ((a1 & Ha1) & (b1 & Hb1) & Hfr1). simpl in *.
    destruct (IH sm fm s2 fs2 e2 Am Hr2) as ((a2 & Ha2) & (b2 & Hb2) & Hfr2 & Hnew2).
    split; [exists (a1 ++ a2); rewrite Ha2, Ha1, app_assoc; reflexivity|].
    split; [exists (b1 ++ b2); rewrite Hb2, Hb1, app_assoc; reflexivity|].
    assert (Lin : (length (g_in s1) <= length (g_in sm))%nat) by (rewrite Ha1, app_length; lia).
    assert (Lout : (length (g_out s1) <= length (g_out sm))%nat) by (rewrite Hb1, app_length; lia).
    split.
    + intros k f Hk. destruct (Hfr1 k f Hk) as (fm' & Hkm & Km & Tm1 & Tm2).
      destruct (Hfr2 k fm' Hkm) as (f' & Hk2 & K2 & T21 & T22).
      exists f'. split; auto. split; [congruence|]. split; [auto|].
      intros t Tn Tf. destruct (tick fm') as [tm|] eqn:Etm.
      * specialize (T21 tm eq_refl). assert (tm = t) by congruence. subst tm. apply (Tm2 t Tn eq_refl).
      * specialize (T22 t eq_refl Tf). rewrite Km in T22. destruct (fkind f); lia.
    + intros k f' t Hn1 Hk2 Tf.
      destruct (nth_error fm k) as [g|] eqn:Hgm.
      * (* spawned by this very step: it has no tick yet *)
        destruct (Hfr2 k g Hgm) as (f'' & Hk2' & K2 & T21 & T22). assert (f'' = f') by congruence. subst f''.
        assert (Tg : tick g = None).
        { destruct l as [k0 c|kd]; simpl in Hw.
          - destruct (nth_error fs1 k0) as [f0|] eqn:E0.
            + destruct (fstep s1 f0 c) as [[sa fa] ea]. inversion Hw; subst.
              assert (Hl : length (upd fs1 k0 fa) = length fs1) by apply upd_length.
              apply nth_error_None in Hn1. assert (nth_error (upd fs1 k0 fa) k = None) by (apply nth_error_None; lia). congruence.
            + inversion Hw; subst. congruence.
          - inversion Hw; subst. apply nth_app_cases in Hgm. destruct Hgm as [Hgm|[_ ->]]; [congruence|reflexivity]. }
        specialize (T22 t Tg Tf). rewrite K2. destruct (fkind g); lia.
      * specialize (Hnew2 k f' t Hgm Hk2 Tf). destruct (fkind f'); lia.
Qed.

Theorem drop_only_when_full ls s fs es k f c s' f' es' :
  run init_world ls = ((s, fs), es) -> nth_error fs k = Some f -> fstep s f c = (s', f', es') ->
  dropped s' <> dropped s ->
  exists v, fkind f = KSend v /\ dropped s' = dropped s ++ [v] /\ fpc f' = PDone /\ tick f' = None /\
    (* the word read from `empty` (the current one) holds no index *)
    qe s = 0 /\ decode (qe s) = [] /\ holds f = None /\
    (* so all five slots are in `full` or in flight in other operations *)
    (length (decode (qf s)) + cnt holding fs = 5)%nat.
Proof.
  intros Hr Hk Hs Hd. destruct (reachable_all _ _ _ _ Hr) as [I F A T].
  pose proof (fstep_cases _ _ _ _ _ _ _ _ I Hk Hs) as St.
  destruct St; try (exfalso; apply Hd; reflexivity).
  exists v. split; auto. split; auto. cbn [set_cur fpc tick]. split; auto.
  assert (Tn : tick f = None).
  { pose proof (f_send _ _ F k f v Hk H) as R. unfold send_ok in R. destruct (tick f); auto.
    destruct R as [_ E]. destruct H0; congruence. }
  split; auto. split; auto. assert (Hde : decode (qe s) = []) by (rewrite H1; reflexivity). split; auto.
  split; [unfold holds; destruct H0 as [-> | ->]; reflexivity|].
  pose proof (i_total _ _ I). rewrite Hde in *. simpl in *. lia.
Qed.

Theorem empty_only_when_empty ls s fs es k f c s' f' es' :
  run init_world ls = ((s, fs), es) -> nth_error fs k = Some f -> fstep s f c = (s', f', es') ->
  fkind f = KRecv -> fpc f <> PDone -> fpc f' = PDone -> got f' = None ->
  (* the word read from `full` (the current one) is empty and every send that took effect has been dequeued *)
  qf s = 0 /\ decode (qf s) = [] /\ map fst (g_in s) = g_out s /\ tick f' = None.
Proof.
  intros Hr Hk Hs K Hnd Hd Hg. destruct (reachable_all _ _ _ _ Hr) as [I F A T].
  pose proof (fstep_cases _ _ _ _ _ _ _ _ I Hk Hs) as St.
  pose proof (f_recv _ _ F k f Hk K) as R. unfold recv_ok in R.
  destruct St; cbn [set_cur set_pc fpc got tick] in *; try congruence; try discriminate.
  - assert (Hde : decode (qf s) = []) by (rewrite H1; reflexivity).
    split; auto. split; auto. split.
    + rewrite (f_io _ _ F), Hde, app_nil_r. reflexivity.
    + destruct (tick f); auto. destruct R as (i & v & _ & _ & Hx). destruct H0 as [E|E]; rewrite E in Hx; contradiction.
  - exfalso. destruct (tick f).
    + destruct R as (i & v & _ & _ & Hx). rewrite H0 in Hx. congruence.
    + destruct R as [[E|[E|E]] _]; congruence.
Qed.

(** * C07: accounting *)

(** What `Drop for Channel` drops: the contents of the cells. *)
Definition channel_contents (s : shared) : list nat :=
  flat_map (fun i => match cells s i with Some v => [v] | None => [] end) idxs.

Lemma channel_contents_count x s : occn x (channel_contents s) = cellcnt x s.
Proof.
  unfold channel_contents, cellcnt, occn, cnt. induction idxs as [|i r IH]; simpl; auto.
  rewrite count_occ_app, IH. destruct (cells s i) as [v|]; simpl; auto.
  destruct (Nat.eq_dec v x) as [->|Hne].
  - rewrite Nat.eqb_refl. reflexivity.
  - apply Nat.eqb_neq in Hne. rewrite Hne. reflexivity.
Qed.

Theorem drop_once ls s fs es :
  run init_world ls = ((s, fs), es) ->
  (* multiset equation, per value x: sends of x = still in the sender's hands + in a cell
     (dropped with the channel) + taken by a recv + discarded by a send that found no slot *)
  (forall x, cnt (is_send x) fs =
             (cnt (in_hand x) fs + occn x (channel_contents s) + cnt (took x) fs + occn x (dropped s))%nat) /\
  (* the assignment `*cell = Some(val)` never overwrites (and so never drops) a live value *)
  clobbered s = [] /\
  (* cells of indices in `empty` are None, cells of indices in `full` are Some *)
  (forall i, In i (decode (qe s)) -> cells s i = None) /\
  (forall i, In i (decode (qf s)) -> cells s i <> None) /\
  (* a sender's cell is None before its write and holds its value after; a receiver's cell is
     Some before the take and None after *)
  (forall k f, nth_error fs k = Some f ->
     match fpc f, fkind f with
     | PCell, KSend _ => cells s (idx f) = None
     | PCell, KRecv => cells s (idx f) <> None
     | (PEnqLoad | PEnqCas), KSend v => cells s (idx f) = Some v
     | (PEnqLoad | PEnqCas), KRecv => cells s (idx f) = None
     | _, _ => True
     end).
Proof.
  intro Hr. destruct (reachable_all _ _ _ _ Hr) as [I F A T].
  split; [intro x; rewrite channel_contents_count; apply A|].
  split; [apply I|]. split; [apply I|]. split; [apply I|].
  intros k f Hk. pose proof (i_fr _ _ I k f Hk) as Fok. unfold frame_ok in Fok.
  destruct (fpc f); auto; destruct (fkind f); tauto.
Qed.

(** When every operation has returned nothing is left in anybody's hands. *)
Corollary drop_once_quiescent ls s fs es :
  run init_world ls = ((s, fs), es) -> (forall k f, nth_error fs k = Some f -> fpc f = PDone) ->
  forall x, cnt (is_send x) fs = (occn x (channel_contents s) + cnt (took x) fs + occn x (dropped s))%nat.
Proof.
  intros Hr Hq x. destruct (drop_once _ _ _ _ Hr) as [H _]. rewrite (H x).
  assert (Z : cnt (in_hand x) fs = 0%nat).
  { clear H Hr. unfold cnt. induction fs as [|f r IH]; simpl; auto.
    assert (Hf : fpc f = PDone) by (apply (Hq 0%nat f); reflexivity).
    unfold in_hand at 1. rewrite Hf, andb_false_r. apply IH. intros k g Hk. apply (Hq (S k) g). exact Hk. }
  lia.
Qed.
