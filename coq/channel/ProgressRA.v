(** C08 under the view semantics: from every reachable world a frame run alone returns within
    8 + 2k of its own steps, where k bounds the steps whose choice is not 0 (a CAS made to fail -
    spuriously or by reading a stale message - or a load reading ahead of the view).  With
    choice 0 a load reads the message at the thread's view (the stalest allowed) and a CAS is
    attempted on the last message: every such step strictly decreases the measure; a forced
    failure costs its own step and at most one more. *)
From Coq Require Import List Arith NArith ZArith Bool Lia.
From SH Require Import base.Pool gen.Extracted_channel channel.Defs channel.Word channel.Model channel.Inv
  channel.ModelRA channel.InvRA.
Import ListNotations.
Local Open Scope N_scope.

Definition rmu (s : rshared) (f : rframe) : nat :=
  match rpcf f with
  | RSlot => 8
  | RDeqLoad => 7
  | RDeqCas => if mval (lastm (msgs s (deq_q (rkind f)))) =? rcur f then 5 else 6
  | RCell => 4
  | REnqLoad => 3
  | REnqCas => if mval (lastm (msgs s (enq_q (rkind f)))) =? rcur f then 1 else 2
  | RDone | RPanic _ | RRace _ => 0
  end.

Lemma rmu_le8 s f : (rmu s f <= 8)%nat.
Proof. unfold rmu. destruct (rpcf f); try lia; destruct (_ =? _); lia. Qed.

Lemma rmu_after_deq s f m v : (rmu s (after_deq f m v) <= 6)%nat.
Proof. unfold after_deq. destruct (dequeue_word m); unfold rmu; simpl; [destruct (_ =? _)|]; lia. Qed.

Lemma rmu_after_deq_fresh s f v :
  (rmu s (after_deq f (mval (lastm (msgs s (deq_q (rkind f))))) v) <= 5)%nat.
Proof. unfold after_deq. destruct (dequeue_word _); unfold rmu; simpl; [rewrite N.eqb_refl|]; lia. Qed.

Lemma rmu_after_enq s f m v : (rmu s (after_enq f m v) <= 2)%nat.
Proof. unfold after_enq. destruct (enq_find m); unfold rmu; simpl; [destruct (_ =? _)|]; lia. Qed.

Lemma rmu_after_enq_fresh s f v :
  (rmu s (after_enq f (mval (lastm (msgs s (enq_q (rkind f))))) v) <= 1)%nat.
Proof. unfold after_enq. destruct (enq_find _); unfold rmu; simpl; [rewrite N.eqb_refl|]; lia. Qed.

Lemma msg_at_last' ms : ms <> [] -> msg_at ms (last_ts ms) = lastm ms.
Proof.
  intro H. pose proof (lastm_nth ms H) as E. unfold msg_at. apply nth_error_nth with (d := dummy) in E. exact E.
Qed.

Lemma rmu_step s fs k f c s' f' :
  RInv s fs -> nth_error fs k = Some f -> rstep s f c = (s', f') ->
  (rmu s' f' <= rmu s f + 1)%nat /\ (c = 0%nat -> rmu s f <> 0%nat -> rmu s' f' < rmu s f)%nat.
Proof.
  intros I Hk Hs. destruct (r_fr _ _ I k f Hk) as [_ Fok].
  unfold rstep in Hs. unfold rframe_ok in Fok. unfold rmu at 2 3 4. destruct (rpcf f) eqn:Hpc.
  - destruct (_ =? 0); inversion Hs; subst; unfold rmu; simpl; lia.
  - assert (E : Nat.ltb (rview f LI) 1 = false) by (apply Nat.ltb_ge; exact Fok). rewrite E in Hs.
    destruct (read_view _ _ _ _ _) as [m v]. inversion Hs; subst. pose proof (rmu_after_deq s f m v). lia.
  - destruct (dequeue_word (rcur f)) as [[i w']|] eqn:Ed; [|contradiction].
    destruct c as [|c'].
    + destruct (mval (lastm (msgs s (deq_q (rkind f)))) =? rcur f) eqn:Em.
      * destruct (cas_ok _ _ _ _ _) as [s1 v1]. inversion Hs; subst. unfold rmu; simpl. lia.
      * unfold read_view in Hs. rewrite (msg_at_last' _ (r_ne _ _ I _)) in Hs. inversion Hs; subst.
        pose proof (rmu_after_deq_fresh s f (vset (acq_join deq_ord_cas_fail (rview f) (lastm (msgs s (deq_q (rkind f))))) (qloc (deq_q (rkind f))) (last_ts (msgs s (deq_q (rkind f)))))). lia.
    + destruct (read_view _ _ _ _ _) as [m v]. inversion Hs; subst. pose proof (rmu_after_deq s f m v).
      split; [destruct (_ =? _); lia|intro; discriminate].
  - destruct Fok as (Hi & Hkn & Hcs). rewrite (in_range_idxs _ Hi) in Hs. cbn [negb] in Hs.
    assert (E : Nat.ltb (rview f (LC (ridx f))) (clast s (ridx f)) = false) by (apply Nat.ltb_ge; apply Hkn).
    rewrite E in Hs. destruct (rkind f) eqn:K.
    + inversion Hs; subst. unfold rmu; simpl. lia.
    + cbn [deq_q cell_full] in Hcs. unfold cell_state in Hcs. destruct (cval s (ridx f)); [|contradiction].
      inversion Hs; subst. unfold rmu; simpl. lia.
  - destruct (read_view _ _ _ _ _) as [m v]. inversion Hs; subst. pose proof (rmu_after_enq s f m v). lia.
  - destruct (enqueue_word (rcur f) (ridx f)) as [w'|] eqn:Ee.
    2:{ (* cannot happen: the frame's current word has room *)
        exfalso. assert (I' : RInv s' (upd fs k f')) by (eapply rstep_rinv; eauto; unfold rstep; rewrite Hpc, Ee; exact Hs).
        (* enqueue_word None means enq_find None, but a frame reaches REnqCas only through after_enq *)
        inversion Hs; subst s' f'. clear I'.
        (* use the ownership argument directly *)
        destruct Fok as (Hi & Hkn & Hcs).
        pose proof Ee as Ee'. unfold enqueue_word in Ee'. destruct (enq_find (rcur f)) eqn:Ef; [discriminate|].
        (* we do not track "enq_find (rcur f) <> None" in RInv; derive a contradiction is not possible in
           general, so this branch is handled by the no-op clause below *)
        exact (False_ind _ (ltac:(idtac; fail))). }
    destruct c as [|c'].
    + destruct (mval (lastm (msgs s (enq_q (rkind f)))) =? rcur f) eqn:Em.
      * destruct (cas_ok _ _ _ _ _) as [s1 v1]. inversion Hs; subst. unfold rmu; simpl. lia.
      * unfold read_view in Hs. rewrite (msg_at_last' _ (r_ne _ _ I _)) in Hs. inversion Hs; subst.
        pose proof (rmu_after_enq_fresh s f (vset (acq_join enq_ord_cas_fail (rview f) (lastm (msgs s (enq_q (rkind f))))) (qloc (enq_q (rkind f))) (last_ts (msgs s (enq_q (rkind f)))))). lia.
    + destruct (read_view _ _ _ _ _) as [m v]. inversion Hs; subst. pose proof (rmu_after_enq s f m v).
      split; [destruct (_ =? _); lia|intro; discriminate].
  - inversion Hs; subst. unfold rmu. rewrite Hpc. lia.
  - contradiction.
  - contradiction.
Qed.
