(** C08 under the view semantics: from every reachable world a frame run alone returns within
    8 + 2k of its own steps, where k bounds the steps whose choice is not 0 (a CAS made to fail -
    spuriously or by reading a stale message - or a load reading ahead of the view).  With
    choice 0 a load reads the message at the thread's view (the stalest allowed) and a CAS is
    attempted on the last message: every such step strictly decreases the measure; a forced
    failure costs its own step and at most one more. *)
From Coq Require Import List Arith NArith ZArith Bool Lia.
From SH Require Import base.Pool gen.Extracted_channel channel.Defs channel.Word channel.Model channel.Inv
  channel.ModelRA channel.InvRA.
Import ListNotations.
Local Open Scope N_scope.

Definition rmu (s : rshared) (f : rframe) : nat :=
  match rpcf f with
  | RSlot => 8
  | RDeqLoad => 7
  | RDeqCas => if mval (lastm (msgs s (deq_q (rkind f)))) =? rcur f then 5 else 6
  | RCell => 4
  | REnqLoad => 3
  | REnqCas => if mval (lastm (msgs s (enq_q (rkind f)))) =? rcur f then 1 else 2
  | RDone | RPanic _ | RRace _ => 0
  end.

Lemma rmu_unfold s f : rmu s f =
  match rpcf f with
  | RSlot => 8%nat
  | RDeqLoad => 7%nat
  | RDeqCas => if mval (lastm (msgs s (deq_q (rkind f)))) =? rcur f then 5%nat else 6%nat
  | RCell => 4%nat
  | REnqLoad => 3%nat
  | REnqCas => if mval (lastm (msgs s (enq_q (rkind f)))) =? rcur f then 1%nat else 2%nat
  | RDone | RPanic _ | RRace _ => 0%nat
  end.
Proof. reflexivity. Qed.

Lemma rmu_le8 s f : (rmu s f <= 8)%nat.
Proof. unfold rmu. destruct (rpcf f); try lia; destruct (_ =? _); lia. Qed.

Lemma rmu_after_deq s f m v : (rmu s (after_deq f m v) <= 6)%nat.
Proof. unfold after_deq. destruct (dequeue_word m); unfold rmu; simpl; [destruct (_ =? _)|]; lia. Qed.

Lemma rmu_after_deq_fresh s f v :
  (rmu s (after_deq f (mval (lastm (msgs s (deq_q (rkind f))))) v) <= 5)%nat.
Proof. unfold after_deq. destruct (dequeue_word _); unfold rmu; simpl; [rewrite N.eqb_refl|]; lia. Qed.

Lemma rmu_after_enq s f m v : (rmu s (after_enq f m v) <= 2)%nat.
Proof. unfold after_enq. destruct (enq_find m); unfold rmu; simpl; [destruct (_ =? _)|]; lia. Qed.

Lemma rmu_after_enq_fresh s f v :
  (rmu s (after_enq f (mval (lastm (msgs s (enq_q (rkind f))))) v) <= 1)%nat.
Proof. unfold after_enq. destruct (enq_find _); unfold rmu; simpl; [rewrite N.eqb_refl|]; lia. Qed.

Lemma msg_at_last' ms : ms <> [] -> msg_at ms (last_ts ms) = lastm ms.
Proof.
  intro H. pose proof (lastm_nth ms H) as E. unfold msg_at. apply nth_error_nth with (d := dummy) in E. exact E.
Qed.

(** A frame is at the enqueue CAS only with a `current` in which `find` succeeded (this depends
    on the frame alone). *)
Definition cur_ok (f : rframe) : Prop := rpcf f = REnqCas -> enq_find (rcur f) <> None.

Lemma curok_after_enq f m v : cur_ok (after_enq f m v).
Proof. unfold cur_ok, after_enq. destruct (enq_find m) eqn:E; simpl; [congruence|discriminate]. Qed.

Lemma curok_after_deq f m v : cur_ok (after_deq f m v).
Proof. unfold cur_ok, after_deq. destruct (dequeue_word m); simpl; discriminate. Qed.

Lemma curok_rstep s f c s' f' : cur_ok f -> rstep s f c = (s', f') -> cur_ok f'.
Proof.
  intros Hc Hs. unfold rstep in Hs. destruct (rpcf f) eqn:Hpc.
  - destruct (_ =? 0); inversion Hs; subst; unfold cur_ok; simpl; discriminate.
  - destruct (Nat.ltb _ _); [inversion Hs; subst; unfold cur_ok; simpl; discriminate|].
    destruct (read_view _ _ _ _ _) as [m v]. inversion Hs; subst. apply curok_after_deq.
  - destruct (dequeue_word (rcur f)) as [[i w']|]; [|inversion Hs; subst; exact Hc].
    destruct c.
    + destruct (_ =? _).
      * destruct (cas_ok _ _ _ _ _). inversion Hs; subst. unfold cur_ok; simpl; discriminate.
      * destruct (read_view _ _ _ _ _) as [m v]. inversion Hs; subst. apply curok_after_deq.
    + destruct (read_view _ _ _ _ _) as [m v]. inversion Hs; subst. apply curok_after_deq.
  - destruct (negb _); [inversion Hs; subst; unfold cur_ok; simpl; discriminate|].
    destruct (Nat.ltb _ _); [inversion Hs; subst; unfold cur_ok; simpl; discriminate|].
    destruct (rkind f); [inversion Hs; subst; unfold cur_ok; simpl; discriminate|].
    destruct (cval s (ridx f)); inversion Hs; subst; unfold cur_ok; simpl; discriminate.
  - destruct (read_view _ _ _ _ _) as [m v]. inversion Hs; subst. apply curok_after_enq.
  - destruct (enqueue_word _ _); [|inversion Hs; subst; exact Hc]. destruct c.
    + destruct (_ =? _).
      * destruct (cas_ok _ _ _ _ _). inversion Hs; subst. unfold cur_ok; simpl; discriminate.
      * destruct (read_view _ _ _ _ _) as [m v]. inversion Hs; subst. apply curok_after_enq.
    + destruct (read_view _ _ _ _ _) as [m v]. inversion Hs; subst. apply curok_after_enq.
  - inversion Hs; subst; exact Hc.
  - inversion Hs; subst; exact Hc.
  - inversion Hs; subst; exact Hc.
Qed.

Definition AllCur (fs : list rframe) : Prop := forall k f, nth_error fs k = Some f -> cur_ok f.

Lemma allcur_wstep w l : AllCur (snd w) -> AllCur (snd (rwstep w l)).
Proof.
  destruct w as [s fs]. simpl. intros A. destruct l as [k c|kd p]; simpl.
  - destruct (nth_error fs k) as [f|] eqn:Hk; [|exact A].
    destruct (rstep s f c) as [s' f'] eqn:Hs. simpl. intros j g Hj.
    apply nth_upd_cases in Hj. destruct Hj as [(-> & _ & ->)|[_ Hj]]; [|eapply A; eauto].
    eapply curok_rstep; eauto.
  - assert (N : forall v, AllCur (fs ++ [mk_rframe kd v])).
    { intros v j g Hj. apply nth_app_cases in Hj. destruct Hj as [Hj|[_ ->]]; [eapply A; eauto|]. unfold cur_ok. simpl. discriminate. }
    destruct p as [p|]; [destruct (nth_error fs p)|]; simpl; apply N.
Qed.

Lemma allcur_run ls : forall w, AllCur (snd w) -> AllCur (snd (rrun w ls)).
Proof. induction ls as [|l r IH]; intros w A; simpl; auto. apply IH. apply allcur_wstep. exact A. Qed.

Lemma allcur_reachable ls : AllCur (snd (rrun rinit_world ls)).
Proof. apply allcur_run. intros [|k] f H; discriminate. Qed.

Lemma rmu_step s fs k f c s' f' :
  RInv s fs -> cur_ok f -> nth_error fs k = Some f -> rstep s f c = (s', f') ->
  (rmu s' f' <= rmu s f + 1)%nat /\ (c = 0%nat -> rmu s f <> 0%nat -> rmu s' f' < rmu s f)%nat.
Proof.
  intros I Hcur Hk Hs. destruct (r_fr _ _ I k f Hk) as [_ Fok].
  unfold rstep in Hs. unfold rframe_ok in Fok. rewrite (rmu_unfold s f). destruct (rpcf f) eqn:Hpc.
  - destruct (_ =? 0); injection Hs as <- <-; unfold rmu; simpl; lia.
  - assert (E : Nat.ltb (rview f LI) 1 = false) by (apply Nat.ltb_ge; exact Fok). rewrite E in Hs.
    destruct (read_view _ _ _ _ _) as [m v]. injection Hs as <- <-. pose proof (rmu_after_deq s f m v). lia.
  - destruct (dequeue_word (rcur f)) as [[i w']|] eqn:Ed; [|contradiction].
    destruct c as [|c'].
    + destruct (mval (lastm (msgs s (deq_q (rkind f)))) =? rcur f) eqn:Em.
      * destruct (cas_ok _ _ _ _ _) as [s1 v1]. injection Hs as <- <-. unfold rmu; simpl. lia.
      * unfold read_view in Hs. rewrite (msg_at_last' _ (r_ne _ _ I _)) in Hs. injection Hs as <- <-.
        pose proof (rmu_after_deq_fresh s f (vset (acq_join deq_ord_cas_fail (rview f) (lastm (msgs s (deq_q (rkind f))))) (qloc (deq_q (rkind f))) (last_ts (msgs s (deq_q (rkind f)))))). lia.
    + destruct (read_view _ _ _ _ _) as [m v]. injection Hs as <- <-. pose proof (rmu_after_deq s f m v).
      split; [destruct (_ =? _); lia|intro; discriminate].
  - destruct Fok as (Hi & Hkn & Hcs). rewrite (in_range_idxs _ Hi) in Hs. cbn [negb] in Hs.
    assert (E : Nat.ltb (rview f (LC (ridx f))) (clast s (ridx f)) = false) by (apply Nat.ltb_ge; apply Hkn).
    rewrite E in Hs. destruct (rkind f) eqn:K.
    + injection Hs as <- <-. unfold rmu; simpl. lia.
    + cbn [deq_q cell_full] in Hcs. unfold cell_state in Hcs. destruct (cval s (ridx f)); [|contradiction].
      injection Hs as <- <-. unfold rmu; simpl. lia.
  - destruct (read_view _ _ _ _ _) as [m v]. injection Hs as <- <-. pose proof (rmu_after_enq s f m v). lia.
  - destruct (enqueue_word (rcur f) (ridx f)) as [w'|] eqn:Ee.
    2:{ exfalso. unfold enqueue_word in Ee. destruct (enq_find (rcur f)) eqn:Ef; [discriminate|]. apply (Hcur Hpc). exact Ef. }
    destruct c as [|c'].
    + destruct (mval (lastm (msgs s (enq_q (rkind f)))) =? rcur f) eqn:Em.
      * destruct (cas_ok _ _ _ _ _) as [s1 v1]. injection Hs as <- <-. unfold rmu; simpl. lia.
      * unfold read_view in Hs. rewrite (msg_at_last' _ (r_ne _ _ I _)) in Hs. injection Hs as <- <-.
        pose proof (rmu_after_enq_fresh s f (vset (acq_join enq_ord_cas_fail (rview f) (lastm (msgs s (enq_q (rkind f))))) (qloc (enq_q (rkind f))) (last_ts (msgs s (enq_q (rkind f)))))). lia.
    + destruct (read_view _ _ _ _ _) as [m v]. injection Hs as <- <-. pose proof (rmu_after_enq s f m v).
      split; [destruct (_ =? _); lia|intro; discriminate].
  - injection Hs as <- <-. unfold rmu. rewrite Hpc. lia.
  - contradiction.
  - contradiction.
Qed.

(** Choices equal to 0 / different from 0. *)
Definition zeros (cs : list nat) : nat := length (filter (fun c => Nat.eqb c 0) cs).
Definition nonzeros (cs : list nat) : nat := length (filter (fun c => negb (Nat.eqb c 0)) cs).

Lemma zeros_nonzeros cs : (zeros cs + nonzeros cs = length cs)%nat.
Proof. unfold zeros, nonzeros. induction cs as [|c r IH]; simpl; auto. destruct (Nat.eqb c 0); simpl; lia. Qed.

Definition rsolo (j : nat) (cs : list nat) : list rlabel := map (RStep j) cs.

Lemma terminal_rstep s f c : rmu s f = 0%nat -> rstep s f c = (s, f).
Proof.
  unfold rmu, rstep. destruct (rpcf f); try discriminate; try (destruct (_ =? _); discriminate); reflexivity.
Qed.

Lemma terminal_stays j cs : forall s fs f,
  nth_error fs j = Some f -> rmu s f = 0%nat -> rrun (s, fs) (rsolo j cs) = (s, fs).
Proof.
  induction cs as [|c r IH]; intros s fs f Hj Hz; simpl; auto.
  rewrite Hj, (terminal_rstep s f c Hz), upd_same by assumption. eapply IH; eauto.
Qed.

Lemma rsolo_run j cs : forall s fs f,
  RInv s fs -> AllCur fs -> nth_error fs j = Some f ->
  exists f', nth_error (snd (rrun (s, fs) (rsolo j cs))) j = Some f' /\
    (rmu (fst (rrun (s, fs) (rsolo j cs))) f' = 0%nat \/
     rmu (fst (rrun (s, fs) (rsolo j cs))) f' + zeros cs <= rmu s f + nonzeros cs)%nat /\
    (forall i, i <> j -> nth_error (snd (rrun (s, fs) (rsolo j cs))) i = nth_error fs i).
Proof.
  induction cs as [|c r IH]; intros s fs f I A Hj.
  - exists f. simpl. split; [exact Hj|]. split; [right; unfold zeros, nonzeros; simpl; lia|auto].
  - destruct (Nat.eq_dec (rmu s f) 0) as [E0|E0].
    { rewrite (terminal_stays j (c :: r) s fs f Hj E0). exists f. simpl. auto. }
    simpl. rewrite Hj. destruct (rstep s f c) as [s1 f1] eqn:Hs.
    assert (Hlen : (j < length fs)%nat) by (apply nth_error_Some; congruence).
    pose proof (rstep_rinv _ _ _ _ _ _ _ I Hj Hs) as I1.
    assert (A1 : AllCur (upd fs j f1)).
    { pose proof (allcur_wstep (s, fs) (RStep j c) A) as H. simpl in H. rewrite Hj, Hs in H. exact H. }
    destruct (IH s1 (upd fs j f1) f1 I1 A1 (nth_upd_eq _ _ _ Hlen)) as (f' & Hf' & Hmu & Hoth).
    exists f'. split; auto. split.
    + destruct (rmu_step _ _ _ _ _ _ _ I (A j f Hj) Hj Hs) as [Hle Hlt].
      destruct Hmu as [Hz|Hm]; [left; exact Hz|]. right.
      unfold zeros, nonzeros in *. simpl. destruct (Nat.eqb_spec c 0) as [->|Hc]; simpl.
      * specialize (Hlt eq_refl E0). lia.
      * lia.
    + intros i Hi. rewrite (Hoth i Hi). apply nth_upd_neq. exact Hi.
Qed.

Theorem ra_bounded_solo ls j f cs k :
  let w := rrun rinit_world ls in
  nth_error (snd w) j = Some f -> (nonzeros cs <= k)%nat -> (8 + 2 * k <= length cs)%nat ->
  exists f', nth_error (snd (rrun w (rsolo j cs))) j = Some f' /\ rpcf f' = RDone /\
             (forall i, i <> j -> nth_error (snd (rrun w (rsolo j cs))) i = nth_error (snd w) i).
Proof.
  intros w Hj Hnz Hlen. destruct w as [s fs] eqn:Ew. simpl in Hj.
  assert (I : RInv s fs) by (pose proof (ra_reachable_inv ls) as H; fold w in H; rewrite Ew in H; exact H).
  assert (A : AllCur fs) by (pose proof (allcur_reachable ls) as H; fold w in H; rewrite Ew in H; exact H).
  destruct (rsolo_run j cs s fs f I A Hj) as (f' & Hf' & Hmu & Hoth).
  exists f'. split; auto. split; auto.
  pose proof (zeros_nonzeros cs). pose proof (rmu_le8 s f).
  assert (Hz : rmu (fst (rrun (s, fs) (rsolo j cs))) f' = 0%nat) by (destruct Hmu; lia).
  assert (I' : RInv (fst (rrun (s, fs) (rsolo j cs))) (snd (rrun (s, fs) (rsolo j cs)))) by (apply rinv_run; exact I).
  destruct (r_fr _ _ I' j f' Hf') as [_ Fok]. unfold rframe_ok in Fok.
  unfold rmu in Hz. destruct (rpcf f'); try discriminate; try reflexivity; try contradiction; destruct (_ =? _); discriminate.
Qed.
