(** Executable entry point of the SC channel model for the lock-step correspondence.
    Input (integers), same encoding as harness/src/bin/ls_channel.rs (request `S`):
      nsetup {kind val}   nacts {nops {kind val}}   nsched {act choice}      ({x} = repeated)
    kind 1 = send(val), 2 = recv(); choice 1 = the weak CAS of that step fails spuriously.
    Output: 9 integers per trace line (act op loc arg arg2 res ok ord ord_fail; act -1 = main
    thread: new(), set-up, final drain; loc 9 = the temporary that new() fills), then -1 and one
    finished flag per activity, then -2 and one panicked flag per activity.
    The scheduler's conventions are mirrored: the first step granted to an activity only starts
    it; after the schedule all unfinished activities are stepped round-robin; then the main
    thread receives until the channel is empty.

    [run_history]: n {kind val} -> result per operation (0, or value+1 for a successful recv),
    a single-thread history (request `H`). *)
From Coq Require Import List Arith NArith ZArith Bool.
From SH Require Import base.Pool gen.Extracted_channel channel.Defs channel.Model.
Import ListNotations.
Local Open Scope Z_scope.

Definition kind_of (k v : Z) : kind := if k =? 1 then KSend (Z.to_nat v) else KRecv.

Fixpoint take2 (n : nat) (l : list Z) : list (Z * Z) * list Z :=
  match n with
  | O => ([], l)
  | S n' => match l with
            | a :: b :: r => let '(x, rest) := take2 n' r in ((a, b) :: x, rest)
            | _ => ([], [])
            end
  end.

Fixpoint take_acts (n : nat) (l : list Z) : list (list (Z * Z)) * list Z :=
  match n with
  | O => ([], l)
  | S n' => match l with
            | k :: r => let '(ops, r1) := take2 (Z.to_nat k) r in
                        let '(x, rest) := take_acts n' r1 in (ops :: x, rest)
            | [] => ([], [])
            end
  end.

(** new(): the events of the sequential enqueues (every CAS succeeds). *)
Fixpoint new_events (w : N) (vs : list N) : list event :=
  match vs with
  | [] => []
  | v :: r => match enqueue_word w v with
              | Some w' => [0; 9; 0; 0; zN w; 1; zN enq_ord_load; 255]
                           :: [5; 9; zN w; zN w'; zN w; 1; zN enq_ord_cas_ok; zN enq_ord_cas_fail]
                           :: new_events w' r
              | None => []
              end
  end.

(** Run frame [j] of the world alone until it is done (set-up, final drain). *)
Fixpoint solo (fuel : nat) (w : world) (j : nat) : world * list (nat * event) :=
  match fuel with
  | O => (w, [])
  | S n => match nth_error (snd w) j with
           | Some f => if is_done f || is_panic f then (w, [])
                       else let '(w1, e1) := wstep w (LStep j 0) in
                            let '(w2, e2) := solo n w1 j in (w2, e1 ++ e2)
           | None => (w, [])
           end
  end.

Definition call (w : world) (k : kind) : world * list (nat * event) :=
  let '(w1, _) := wstep w (LSpawn k) in solo 64 w1 (length (snd w)).

Fixpoint do_setup (w : world) (ops : list (Z * Z)) : world * list (nat * event) :=
  match ops with
  | [] => (w, [])
  | (k, v) :: r => let '(w1, e1) := call w (kind_of k v) in
                   let '(w2, e2) := do_setup w1 r in (w2, e1 ++ e2)
  end.

(** One scheduled activity = a thread performing its operations one after the other. *)
Record act := { started : bool; curf : option nat; rest : list (Z * Z); panicked : bool }.

Definition act_finished (a : act) : bool :=
  panicked a || (started a && match curf a with None => match rest a with [] => true | _ => false end | Some _ => false end).

(** begin the next operation, if any *)
Definition advance (w : world) (a : act) : world * act :=
  match rest a with
  | [] => (w, {| started := true; curf := None; rest := []; panicked := panicked a |})
  | (k, v) :: r => (fst (wstep w (LSpawn (kind_of k v))),
                    {| started := true; curf := Some (length (snd w)); rest := r; panicked := panicked a |})
  end.

Definition step_act (w : world) (acts : list act) (i : nat) (c : nat) : world * list act * list (Z * event) :=
  match nth_error acts i with
  | None => (w, acts, [])
  | Some a =>
      if act_finished a then (w, acts, [])
      else if negb (started a) then let '(w1, a1) := advance w a in (w1, upd acts i a1, [])
      else match curf a with
           | None => (w, acts, [])
           | Some j =>
               let '(w1, es) := wstep w (LStep j c) in
               let tagged := map (fun e => (Z.of_nat i, snd e)) es in
               match nth_error (snd w1) j with
               | Some f =>
                   if is_panic f then (w1, upd acts i {| started := true; curf := None; rest := []; panicked := true |}, tagged)
                   else if is_done f
                   then let '(w2, a2) := advance w1 {| started := true; curf := None; rest := rest a; panicked := false |} in
                        (w2, upd acts i a2, tagged)
                   else (w1, acts, tagged)
               | None => (w1, acts, tagged)
               end
           end
  end.

Fixpoint run_sched (w : world) (acts : list act) (sch : list (Z * Z)) : world * list act * list (Z * event) :=
  match sch with
  | [] => (w, acts, [])
  | (i, c) :: r => let '(w1, a1, e1) := step_act w acts (Z.to_nat i) (Z.to_nat c) in
                   let '(w2, a2, e2) := run_sched w1 a1 r in (w2, a2, e1 ++ e2)
  end.

Definition alive (acts : list act) : list nat :=
  filter (fun i => match nth_error acts i with Some a => negb (act_finished a) | None => false end) (seq 0 (length acts)).

Fixpoint round (w : world) (acts : list act) (ks : list nat) : world * list act * list (Z * event) :=
  match ks with
  | [] => (w, acts, [])
  | i :: r => let '(w1, a1, e1) := step_act w acts i 0 in
              let '(w2, a2, e2) := round w1 a1 r in (w2, a2, e1 ++ e2)
  end.

Fixpoint drain (fuel : nat) (w : world) (acts : list act) : world * list act * list (Z * event) :=
  match fuel with
  | O => (w, acts, [])
  | S n => match alive acts with
           | [] => (w, acts, [])
           | ks => let '(w1, a1, e1) := round w acts ks in
                   let '(w2, a2, e2) := drain n w1 a1 in (w2, a2, e1 ++ e2)
           end
  end.

(** recv until None *)
Fixpoint final_drain (fuel : nat) (w : world) : world * list (nat * event) :=
  match fuel with
  | O => (w, [])
  | S n => let j := length (snd w) in
           let '(w1, e1) := call w KRecv in
           match nth_error (snd w1) j with
           | Some f => match got f with
                       | Some _ => let '(w2, e2) := final_drain n w1 in (w2, e1 ++ e2)
                       | None => (w1, e1)
                       end
           | None => (w1, e1)
           end
  end.

Definition bz (b : bool) : Z := if b then 1 else 0.
Definition main_ev (es : list (nat * event)) : list (Z * event) := map (fun e => (-1, snd e)) es.
Definition flat (es : list (Z * event)) : list Z := flat_map (fun e => fst e :: snd e) es.

Definition run_channel (inp : list Z) : list Z :=
  match inp with
  | ns :: r0 =>
      let '(setup, r1) := take2 (Z.to_nat ns) r0 in
      match r1 with
      | na :: r2 =>
          let '(aops, r3) := take_acts (Z.to_nat na) r2 in
          match r3 with
          | nsch :: r4 =>
              let '(sch, _) := take2 (Z.to_nat nsch) r4 in
              let e0 := map (fun e => (-1, e)) (new_events (if (new_queue =? 0)%N then new_init_empty else new_init_full) new_values) in
              let '(w1, e1) := do_setup init_world setup in
              let acts := map (fun ops => {| started := false; curf := None; rest := ops; panicked := false |}) aops in
              let '(w2, a2, e2) := run_sched w1 acts sch in
              let '(w3, a3, e3) := drain 4000 w2 a2 in
              let '(w4, e4) := if existsb panicked a3 then (w3, []) else final_drain 16 w3 in
              flat (e0 ++ main_ev e1 ++ e2 ++ e3 ++ main_ev e4)
                ++ [-1] ++ map (fun a => bz (act_finished a)) a3 ++ [-2] ++ map (fun a => bz (panicked a)) a3
          | _ => [-99]
          end
      | _ => [-99]
      end
  | _ => [-99]
  end.

Fixpoint history (w : world) (ops : list (Z * Z)) : list Z :=
  match ops with
  | [] => []
  | (k, v) :: r =>
      let j := length (snd w) in
      let '(w1, _) := call w (kind_of k v) in
      let res := match nth_error (snd w1) j with
                 | Some f => if is_panic f then -7 else ret_code (got f)
                 | None => -8
                 end in
      res :: history w1 r
  end.

Definition run_history (inp : list Z) : list Z :=
  match inp with
  | n :: r => history init_world (fst (take2 (Z.to_nat n) r))
  | [] => []
  end.
