(** Tie between the channel models and src/low_level/channel.rs (+ the Slot of
    src/iterator/exfiltrator/raw.rs): the translator regenerates [Extracted_channel] from the
    source on every run; the lemmas below pin what the models implement, so a reordered, added
    or dropped operation, a changed ordering, queue, loop bound or constant breaks one of them
    (DESIGN 4.1).  The bit-level functions get/set/enqueue/dequeue are not pinned but
    TRANSLATED (the proofs of Word.v run on the generated code). *)
From Coq Require Import NArith ZArith List String Bool.
From SH Require Import base.Pool gen.Extracted_channel channel.Defs channel.Model.
Import ListNotations.
Local Open Scope string_scope.

Lemma skel_enqueue_ok : skel_enqueue =
  ["q.load(Relaxed)"; "loop {"; "range(0..SLOTS)"; "find(|i|"; "expect"; "modified=set(current,empty,val)";
   "q.compare_exchange_weak(Release,Relaxed)";
   "match q.compare_exchange_weak(current, modified, Ordering::Release, Ordering::Relaxed) {";
   "Ok=>break"; "Err(changed)=>current=changed"; "}"; "}"].
Proof. reflexivity. Qed.

Lemma skel_dequeue_ok : skel_dequeue =
  ["q.load(Relaxed)"; "loop {"; "val="; "if val == 0 {"; "break None"; "}"; "modified=";
   "q.compare_exchange_weak(Acquire,Relaxed)";
   "match q.compare_exchange_weak(current, modified, Ordering::Acquire, Ordering::Relaxed) {";
   "Ok=>break Some(val)"; "Err(changed)=>current=changed"; "}"; "}"].
Proof. reflexivity. Qed.

Lemma skel_new_ok : skel_new =
  ["empty=AtomicU16::new(0)"; "full=AtomicU16::new(0)"; "for i in 1..SLOTS + 1 {"; "enqueue(empty,i as u16)"; "}"; "me"].
Proof. reflexivity. Qed.

Lemma skel_send_ok : skel_send =
  ["dequeue(empty)"; "if let Some(empty_idx) = dequeue(&self.empty) {"; "*storage[empty_idx-1]=Some(val)";
   "enqueue(full,empty_idx)"; "}"].
Proof. reflexivity. Qed.

Lemma skel_recv_ok : skel_recv =
  ["dequeue(full)"; "map(|idx|"; "&mut *storage[idx-1]"; "take()"; "expect"; "enqueue(empty,idx)"; "result"].
Proof. reflexivity. Qed.

Lemma channel_struct_ok :
  channel_fields = ["storage:[UnsafeCell<Option<T>>;SLOTS]"; "empty:AtomicU16"; "full:AtomicU16"] /\
  (* sending the channel / sharing a reference to it moves values of T between threads, never
     references to them: both impls must require T: Send *)
  channel_unsafe_impls = ["Send: T: Send"; "Sync: T: Send"].
Proof. split; reflexivity. Qed.

Lemma constants_ok :
  SLOTS = 5%N /\ BITS = 3%N /\ MASK = 7%N /\ enq_lo = 0%N /\ enq_hi = 5%N /\
  new_init_empty = 0%N /\ new_init_full = 0%N /\ new_lo = 1%N /\ new_hi = 6%N /\ new_queue = 0%N /\
  send_deq_queue = 0%N /\ send_enq_queue = 1%N /\ recv_deq_queue = 1%N /\ recv_enq_queue = 0%N /\
  send_cell_offset = 1%N /\ recv_cell_offset = 1%N /\ cas_is_weak = true.
Proof. repeat split; reflexivity. Qed.

(** The declared orderings, as far as the SC layer cares (it prints them in its events; the
    view semantics of ModelRA.v READS them). *)
Lemma orderings_ok :
  enq_ord_load = 0%N /\ enq_ord_cas_ok = 1%N /\ enq_ord_cas_fail = 0%N /\
  deq_ord_load = 0%N /\ deq_ord_cas_ok = 2%N /\ deq_ord_cas_fail = 0%N.
Proof. repeat split; reflexivity. Qed.

(** raw.rs: the channel pointer is published with swap(Release) and read with load(Acquire). *)
Lemma skel_raw_ok :
  skel_slot_drop = ["self.0.load(Acquire)"; "is_null()"; "if !ptr.is_null() {"; "Box::from_raw"; "}"] /\
  skel_raw_store = ["if let Some(slot) = unsafe {"; "slot.0.load(Acquire)"; "as_ref()"; "}"; "send(info)"] /\
  skel_raw_load = ["slot.0.load(Acquire)"; "as_ref()"; "recv()"] /\
  skel_raw_init = ["slot.0.load(Acquire)"; "is_null()"; "if !slot.0.load(Ordering::Acquire).is_null() {"; "return"; "}";
                   "Box::default()"; "slot.0.swap(Release)"; "Box::into_raw"; "assert!"] /\
  slot_type = "AtomicPtr<Channel<siginfo_t>>".
Proof. repeat split; reflexivity. Qed.

(** The model's own skeleton: run a send and a recv alone from the state after new() and
    project the events to (operation, location, success ordering, failure ordering); it is what
    the extracted data says: dequeue from `send_deq_queue`, cell access, enqueue to
    `send_enq_queue`, each a load followed by one weak CAS. *)
Local Open Scope Z_scope.

Fixpoint solo_events (fuel : nat) (s : shared) (f : frame) : list event :=
  match fuel with
  | O => []
  | S n => match fpc f with
           | PDone | PPanic _ => []
           | _ => let '(s', f', es) := fstep s f 0 in es ++ solo_events n s' f'
           end
  end.

Definition project (e : event) : list Z :=
  match e with [op; loc; _; _; _; _; o1; o2] => [op; loc; o1; o2] | _ => [] end.

Definition src_skel (deq_queue enq_queue : N) (cell_op : Z) : list (list Z) :=
  [[0; 1 + zN deq_queue; zN deq_ord_load; 255];
   [5; 1 + zN deq_queue; zN deq_ord_cas_ok; zN deq_ord_cas_fail];
   [cell_op; 3; 255; 255];
   [0; 1 + zN enq_queue; zN enq_ord_load; 255];
   [5; 1 + zN enq_queue; zN enq_ord_cas_ok; zN enq_ord_cas_fail];
   [23; 0; 255; 255]].

Lemma model_skel_send :
  map project (solo_events 10 init_shared (mk_frame (KSend 0))) = src_skel send_deq_queue send_enq_queue 13.
Proof. vm_compute. reflexivity. Qed.

(** recv from a channel holding one value *)
Definition one_sent : shared :=
  let '(w, _) := run init_world [LSpawn (KSend 7); LStep 0 0; LStep 0 0; LStep 0 0; LStep 0 0; LStep 0 0] in fst w.

Lemma model_skel_recv :
  map project (solo_events 10 one_sent (mk_frame KRecv)) = src_skel recv_deq_queue recv_enq_queue 14.
Proof. vm_compute. reflexivity. Qed.

(** and recv returns exactly that value, leaving `empty` = [2;3;4;5;1], `full` = [] *)
Lemma model_roundtrip :
  let '(w, _) := run (one_sent, []) [LSpawn KRecv; LStep 0 0; LStep 0 0; LStep 0 0; LStep 0 0; LStep 0 0] in
  (map got (snd w), decode (qe (fst w)), decode (qf (fst w))) = ([Some 7%nat], [2; 3; 4; 5; 1]%N, []).
Proof. vm_compute. reflexivity. Qed.
