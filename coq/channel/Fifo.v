(** C06: the channel is a FIFO.  Ghost sequences: [g_in] = (index, value) in the order of the
    successful enqueue(full) CASes (the order in which sends take effect), [g_out] = indices in
    the order of the successful dequeue(full) CASes.  [tick] of a frame = the position of its
    effect in g_in (send) / g_out (recv). *)
From Coq Require Import List Arith NArith ZArith Bool Lia.
From SH Require Import base.Pool gen.Extracted_channel channel.Defs channel.Word channel.Model channel.Inv channel.Steps.
Import ListNotations.
Local Open Scope N_scope.

Definition recv_ok (s : shared) (f : frame) : Prop :=
  match tick f with
  | None => (fpc f = PDeqLoad \/ fpc f = PDeqCas \/ fpc f = PDone) /\ got f = None
  | Some t => exists i v, nth_error (g_in s) t = Some (i, v) /\ nth_error (g_out s) t = Some i /\
      match fpc f with
      | PCell => idx f = i /\ got f = None /\ cells s i = Some v
      | PEnqLoad | PEnqCas | PDone => got f = Some v
      | _ => False
      end
  end.

Definition send_ok (s : shared) (f : frame) (v : nat) : Prop :=
  match tick f with
  | None => True
  | Some t => nth_error (g_in s) t = Some (idx f, v) /\ fpc f = PDone
  end.

Record FInv (s : shared) (fs : list frame) : Prop := {
  f_io : map fst (g_in s) = g_out s ++ decode (qf s);
  f_cell : forall p i v, nth_error (g_in s) (length (g_out s) + p) = Some (i, v) -> cells s i = Some v;
  f_recv : forall k f, nth_error fs k = Some f -> fkind f = KRecv -> recv_ok s f;
  f_send : forall k f v, nth_error fs k = Some f -> fkind f = KSend v -> send_ok s f v;
  f_inj : forall j k f g t, j <> k -> nth_error fs j = Some f -> nth_error fs k = Some g ->
            (fkind f = KRecv <-> fkind g = KRecv) -> tick f = Some t -> tick g = Some t -> False
}.

(** The ghost sequences only grow. *)
Definition ext (s s' : shared) : Prop :=
  (exists a, g_in s' = g_in s ++ a) /\ (exists b, g_out s' = g_out s ++ b).

Lemma ext_refl s : ext s s.
Proof. split; exists []; rewrite app_nil_r; reflexivity. Qed.

Lemma nth_error_ext {A} (l a : list A) n x : nth_error l n = Some x -> nth_error (l ++ a) n = Some x.
Proof. intro H. rewrite nth_error_app1; auto. apply nth_error_Some. congruence. Qed.

Lemma recv_ok_ext s s' g :
  ext s s' -> (fpc g = PCell -> cells s' (idx g) = cells s (idx g)) -> recv_ok s g -> recv_ok s' g.
Proof.
  intros [[a Ha] [b Hb]] Hc. unfold recv_ok. destruct (tick g) as [t|]; auto.
  intros (i & v & Hi & Ho & H). exists i, v. rewrite Ha, Hb. repeat split; try (apply nth_error_ext; assumption).
  destruct (fpc g); auto. destruct H as (E1 & E2 & E3). subst i. rewrite Hc; auto.
Qed.

Lemma send_ok_ext s s' g v : ext s s' -> send_ok s g v -> send_ok s' g v.
Proof.
  intros [[a Ha] _]. unfold send_ok. destruct (tick g) as [t|]; auto.
  intros [H1 H2]. split; auto. rewrite Ha. apply nth_error_ext. exact H1.
Qed.

(** The entries of g_in that are still in the `full` queue. *)
Lemma queued_entry s fs p i v :
  FInv s fs -> nth_error (g_in s) (length (g_out s) + p) = Some (i, v) -> In i (decode (qf s)).
Proof.
  intros F H. assert (nth_error (map fst (g_in s)) (length (g_out s) + p) = Some i).
  { rewrite nth_error_map, H. reflexivity. }
  rewrite (f_io _ _ F), nth_error_app2 in H0 by lia.
  replace (length (g_out s) + p - length (g_out s))%nat with p in H0 by lia.
  eapply nth_error_In; eauto.
Qed.

Lemma tick_bound_recv s f t : fkind f = KRecv -> recv_ok s f -> tick f = Some t -> (t < length (g_out s))%nat.
Proof.
  intros _ H Ht. unfold recv_ok in H. rewrite Ht in H. destruct H as (i & v & _ & Ho & _).
  apply nth_error_Some. congruence.
Qed.

Lemma tick_bound_send s f v t : send_ok s f v -> tick f = Some t -> (t < length (g_in s))%nat.
Proof.
  intros H Ht. unfold send_ok in H. rewrite Ht in H. destruct H as [H _]. apply nth_error_Some. congruence.
Qed.

(** Generic update: a step that leaves every tick unchanged. *)
Lemma finv_update s fs k f s' f' :
  FInv s fs -> nth_error fs k = Some f ->
  map fst (g_in s') = g_out s' ++ decode (qf s') ->
  (forall p i v, nth_error (g_in s') (length (g_out s') + p) = Some (i, v) -> cells s' i = Some v) ->
  ext s s' ->
  (forall j g, j <> k -> nth_error fs j = Some g -> fpc g = PCell -> fkind g = KRecv -> cells s' (idx g) = cells s (idx g)) ->
  fkind f' = fkind f ->
  (fkind f = KRecv -> recv_ok s' f') ->
  (forall v, fkind f = KSend v -> send_ok s' f' v) ->
  (forall t, tick f' = Some t -> tick f = Some t \/
     (forall j g, j <> k -> nth_error fs j = Some g -> (fkind f = KRecv <-> fkind g = KRecv) -> tick g <> Some t)) ->
  FInv s' (upd fs k f').
Proof.
  intros F Hk Hio Hcell Hext Hcells Hkind Hr Hsn Htick.
  constructor; auto.
  - intros j g Hj Kg. apply nth_upd_cases in Hj. destruct Hj as [(-> & _ & ->)|[Hne Hj]].
    + apply Hr. congruence.
    + apply (recv_ok_ext s s'); auto.
      * intro Hp. eapply Hcells; eauto.
      * eapply f_recv; eauto.
  - intros j g v Hj Kg. apply nth_upd_cases in Hj. destruct Hj as [(-> & _ & ->)|[Hne Hj]].
    + apply Hsn. congruence.
    + apply (send_ok_ext s s'); auto. eapply f_send; eauto.
  - intros i j g1 g2 t Hij Hi Hj Hkk T1 T2.
    apply nth_upd_cases in Hi. apply nth_upd_cases in Hj.
    destruct Hi as [(-> & _ & ->)|[Hnei Hi]]; destruct Hj as [(-> & _ & ->)|[Hnej Hj]].
    + congruence.
    + destruct (Htick t T1) as [Hold|Hnew].
      * eapply (f_inj _ _ F k j f g2 t); eauto. rewrite <- Hkind. exact Hkk.
      * eapply Hnew; eauto. rewrite <- Hkind. exact Hkk.
    + destruct (Htick t T2) as [Hold|Hnew].
      * eapply (f_inj _ _ F i k g1 f t); eauto. rewrite <- Hkind. exact Hkk.
      * eapply (Hnew i g1); eauto. rewrite <- Hkind. tauto.
    + eapply (f_inj _ _ F i j g1 g2 t); eauto.
Qed.

Lemma finv_step s fs k f c s' f' es :
  Inv s fs -> FInv s fs -> nth_error fs k = Some f -> fstep s f c = (s', f', es) -> FInv s' (upd fs k f').
Proof.
  intros I F Hk Hs.
  pose proof (fstep_cases _ _ _ _ _ _ _ _ I Hk Hs) as St.
  assert (Hrf : fkind f = KRecv -> recv_ok s f) by (intro; eapply f_recv; eauto).
  assert (Hsf : forall v, fkind f = KSend v -> send_ok s f v) by (intros; eapply f_send; eauto).
  destruct St.
  - rewrite upd_same by assumption. exact F.
  - (* deq retry *)
    apply (finv_update s fs k f); try apply F; auto using ext_refl.
    + intro K. specialize (Hrf K). unfold recv_ok in *. cbn [tick set_cur fpc got].
      destruct (tick f); [|intuition].
      destruct Hrf as (i & v & _ & _ & Hx). destruct H as [E|E]; rewrite E in Hx; contradiction.
    + intros v K. specialize (Hsf v K). unfold send_ok in *. cbn [tick set_cur fpc idx].
      destruct (tick f); auto. destruct Hsf as [_ E]. destruct H as [E'|E']; congruence.
  - (* send discarded *)
    apply (finv_update s fs k f); try apply F; auto using ext_refl.
    + split; exists []; rewrite app_nil_r; reflexivity.
    + intro K. congruence.
    + intros v' K. specialize (Hsf v' K). unfold send_ok in *. cbn [tick set_cur fpc idx].
      destruct (tick f); auto. destruct Hsf as [_ E]. destruct H0 as [E'|E']; congruence.
  - (* recv None *)
    apply (finv_update s fs k f); try apply F; auto using ext_refl.
    + intro K. specialize (Hrf K). unfold recv_ok in *. cbn [tick set_cur fpc got].
      destruct (tick f); [|intuition].
      destruct Hrf as (i & v & _ & _ & Hx). destruct H0 as [E|E]; rewrite E in Hx; contradiction.
    + intros v K. congruence.
  - (* send: dequeue(empty) succeeded *)
    apply (finv_update s fs k f); cbn [qset qe qf cells g_in g_out]; try apply F; auto using ext_refl.
    + split; exists []; rewrite app_nil_r; reflexivity.
    + intro K. congruence.
    + intros v' K. specialize (Hsf v' K). unfold send_ok in *. cbn [tick fpc idx].
      destruct (tick f); auto. destruct Hsf as [_ E]. congruence.
  - (* recv: dequeue(full) succeeded *)
    assert (Hvt : valid t) by (eapply valid_tl; eauto).
    pose proof (f_io _ _ F) as Hio. rewrite H1 in Hio.
    assert (Hent : exists v, nth_error (g_in s) (length (g_out s)) = Some (h, v)).
    { assert (E : nth_error (map fst (g_in s)) (length (g_out s)) = Some h).
      { rewrite Hio, nth_error_app2 by lia. rewrite Nat.sub_diag. reflexivity. }
      rewrite nth_error_map in E. destruct (nth_error (g_in s) (length (g_out s))) as [[i v]|]; [|discriminate].
      simpl in E. inversion E; subst. eauto. }
    destruct Hent as [v Hent].
    apply (finv_update s fs k f); cbn [qe qf cells g_in g_out]; auto.
    + rewrite (decode_encode t Hvt), Hio, <- app_assoc. reflexivity.
    + intros p i v' Hn. rewrite app_length in Hn. simpl in Hn.
      apply (f_cell _ _ F (S p) i v'). rewrite <- Hn. f_equal. lia.
    + split; [exists []; rewrite app_nil_r; reflexivity|exists [h]; reflexivity].
    + intros _. unfold recv_ok. cbn [tick fpc idx got g_in g_out cells]. exists h, v. split; auto. split.
      * rewrite nth_error_app2 by lia. rewrite Nat.sub_diag. reflexivity.
      * split; auto. specialize (Hrf H). unfold recv_ok in Hrf.
        destruct (tick f).
        -- destruct Hrf as (i0 & v0 & _ & _ & Hx). rewrite H0 in Hx. contradiction.
        -- split; [apply Hrf|]. apply (f_cell _ _ F 0%nat h v). rewrite Nat.add_0_r. exact Hent.
    + intros v' K. congruence.
    + intros t0 Ht. cbn [tick] in Ht. inversion Ht; subst t0. right.
      intros j g Hj Hg Hkk Tg. assert (Kg : fkind g = KRecv) by tauto.
      pose proof (tick_bound_recv s g _ Kg (f_recv _ _ F j g Hg Kg) Tg). lia.
  - (* send writes its cell *)
    assert (Hh : holds f = Some (idx f)) by (unfold holds; rewrite H0; reflexivity).
    destruct (held_not_queued s fs k f (idx f) I H1 Hk Hh) as [_ Hnf].
    apply (finv_update s fs k f); cbn [set_cell qe qf cells g_in g_out]; try apply F; auto using ext_refl.
    + intros p i v' Hn. destruct (N.eqb_spec i (idx f)) as [->|_].
      * exfalso. apply Hnf. eapply queued_entry; eauto.
      * eapply f_cell; eauto.
    + split; exists []; rewrite app_nil_r; reflexivity.
    + intros j g Hj Hg Pg Kg. destruct (N.eqb_spec (idx g) (idx f)) as [E|_]; auto.
      exfalso. eapply (holders_distinct s fs j k g f (idx f)); eauto. unfold holds. rewrite Pg, E. reflexivity.
    + intro K. congruence.
    + intros v' K. specialize (Hsf v' K). unfold send_ok in *. cbn [tick set_pc fpc idx].
      destruct (tick f); auto. destruct Hsf as [_ E]. congruence.
  - (* recv takes the value *)
    assert (Hh : holds f = Some (idx f)) by (unfold holds; rewrite H0; reflexivity).
    destruct (held_not_queued s fs k f (idx f) I H1 Hk Hh) as [_ Hnf].
    apply (finv_update s fs k f); cbn [set_cell qe qf cells g_in g_out]; try apply F; auto using ext_refl.
    + intros p i v' Hn. destruct (N.eqb_spec i (idx f)) as [->|_].
      * exfalso. apply Hnf. eapply queued_entry; eauto.
      * eapply f_cell; eauto.
    + split; exists []; rewrite app_nil_r; reflexivity.
    + intros j g Hj Hg Pg Kg. destruct (N.eqb_spec (idx g) (idx f)) as [E|_]; auto.
      exfalso. eapply (holders_distinct s fs j k g f (idx f)); eauto. unfold holds. rewrite Pg, E. reflexivity.
    + intros _. specialize (Hrf H). unfold recv_ok in *. cbn [tick fpc got].
      destruct (tick f).
      * destruct Hrf as (i & v & Hi & Ho & Hx). rewrite H0 in Hx. destruct Hx as (E1 & E2 & E3).
        exists i, v. repeat split; auto. subst i. congruence.
      * destruct Hrf as [[E|[E|E]] _]; congruence.
    + intros v' K. congruence.
  - (* enq retry *)
    apply (finv_update s fs k f); try apply F; auto using ext_refl.
    + intro K. specialize (Hrf K). unfold recv_ok in *. cbn [tick set_cur fpc got].
      destruct (tick f).
      * destruct Hrf as (i & v & Hi & Ho & Hx). exists i, v. repeat split; auto.
        destruct H as [E|E]; rewrite E in Hx; exact Hx.
      * destruct Hrf as [[E|[E|E]] _]; destruct H as [E'|E']; congruence.
    + intros v K. specialize (Hsf v K). unfold send_ok in *. cbn [tick set_cur fpc idx].
      destruct (tick f); auto. destruct Hsf as [_ E]. destruct H as [E'|E']; congruence.
  - (* send: enqueue(full) succeeded *)
    apply (finv_update s fs k f); cbn [qe qf cells g_in g_out]; auto.
    + rewrite (decode_encode _ H3), map_app, (f_io _ _ F), app_assoc. reflexivity.
    + intros p i v' Hn.
      destruct (lt_dec (length (g_out s) + p) (length (g_in s))) as [Hlt|Hge].
      * rewrite nth_error_app1 in Hn by assumption. eapply f_cell; eauto.
      * rewrite nth_error_app2 in Hn by lia.
        destruct (length (g_out s) + p - length (g_in s))%nat as [|n] eqn:E; simpl in Hn.
        -- inversion Hn; subst. exact H4.
        -- destruct n; discriminate.
    + split; [exists [(idx f, v)]; reflexivity|exists []; rewrite app_nil_r; reflexivity].
    + intro K. congruence.
    + intros v' K. assert (v' = v) by congruence. subst v'. unfold send_ok. cbn [tick fpc idx g_in]. split; auto.
      rewrite nth_error_app2 by lia. rewrite Nat.sub_diag. reflexivity.
    + intros t0 Ht. cbn [tick] in Ht. inversion Ht; subst t0. right.
      intros j g Hj Hg Hkk Tg.
      destruct (fkind g) as [vg|] eqn:Kg.
      * pose proof (tick_bound_send s g vg _ (f_send _ _ F j g vg Hg Kg) Tg). lia.
      * assert (fkind f = KRecv) by tauto. congruence.
  - (* recv: enqueue(empty) succeeded *)
    apply (finv_update s fs k f); cbn [qset qe qf cells g_in g_out]; try apply F; auto using ext_refl.
    + split; exists []; rewrite app_nil_r; reflexivity.
    + intro K. specialize (Hrf K). unfold recv_ok in *. cbn [tick set_pc fpc got].
      destruct (tick f).
      * destruct Hrf as (i & v & Hi & Ho & Hx). exists i, v. repeat split; auto. rewrite H0 in Hx. exact Hx.
      * destruct Hrf as [[E|[E|E]] _]; congruence.
    + intros v K. congruence.
Qed.
