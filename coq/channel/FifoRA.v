(** C06 under the release/acquire view semantics: FIFO order and cell integrity for every
    schedule and every read-from choice.  The ghost sequences are computed by an observer that
    watches the frames' transitions (a successful dequeue(full) CAS is the only way a recv frame
    goes from RDeqCas to RCell, a successful enqueue(full) CAS the only way a send frame goes
    from REnqCas to RDone), so ModelRA.v itself carries no ghost state. *)
From Coq Require Import List Arith NArith ZArith Bool Lia.
From SH Require Import base.Pool gen.Extracted_channel channel.Defs channel.Word channel.Model channel.Inv
  channel.ModelRA channel.InvRA.
Import ListNotations.
Local Open Scope N_scope.

(** * What a step can do (under the invariant) *)

Definition quiet (p p' : rpc) : Prop :=
  match p, p' with
  | RSlot, (RDone | RDeqLoad) | RDeqLoad, (RDeqCas | RDone) | RDeqCas, (RDeqCas | RDone)
  | REnqLoad, REnqCas | REnqCas, REnqCas | RDone, RDone => True
  | _, _ => False
  end.

Inductive Effect (s : rshared) (f : rframe) (s' : rshared) (f' : rframe) : Prop :=
| E_quiet :
    (forall q, msgs s' q = msgs s q) -> cval s' = cval s -> rgot f' = rgot f -> ridx f' = ridx f ->
    quiet (rpcf f) (rpcf f') -> Effect s f s' f'
| E_deq h t :
    rpcf f = RDeqCas -> rpcf f' = RCell -> rgot f' = rgot f -> cval s' = cval s ->
    decode (mval (lastm (msgs s (deq_q (rkind f))))) = h :: t -> valid (h :: t) -> ridx f' = h ->
    mval (lastm (msgs s' (deq_q (rkind f)))) = encode t ->
    msgs s' (other (deq_q (rkind f))) = msgs s (other (deq_q (rkind f))) -> Effect s f s' f'
| E_enq :
    rpcf f = REnqCas -> rpcf f' = RDone -> rgot f' = rgot f -> ridx f' = ridx f -> cval s' = cval s ->
    In (ridx f) idxs -> ~ In (ridx f) (decode (mval (lastm (msgs s (enq_q (rkind f)))))) ->
    valid (decode (mval (lastm (msgs s (enq_q (rkind f))))) ++ [ridx f]) ->
    mval (lastm (msgs s' (enq_q (rkind f)))) = encode (decode (mval (lastm (msgs s (enq_q (rkind f))))) ++ [ridx f]) ->
    msgs s' (other (enq_q (rkind f))) = msgs s (other (enq_q (rkind f))) -> Effect s f s' f'
| E_write x :
    rkind f = KSend x -> rpcf f = RCell -> rpcf f' = REnqLoad -> ridx f' = ridx f -> rgot f' = rgot f ->
    In (ridx f) idxs -> (forall q, msgs s' q = msgs s q) ->
    cval s' = (fun j => if j =? ridx f then Some x else cval s j) -> Effect s f s' f'
| E_take x :
    rkind f = KRecv -> rpcf f = RCell -> rpcf f' = REnqLoad -> ridx f' = ridx f -> cval s (ridx f) = Some x -> rgot f' = Some x ->
    In (ridx f) idxs -> (forall q, msgs s' q = msgs s q) ->
    cval s' = (fun j => if j =? ridx f then None else cval s j) -> Effect s f s' f'.

Lemma after_deq_quiet f m v : rpcf f = RDeqLoad \/ rpcf f = RDeqCas ->
  rgot (after_deq f m v) = rgot f /\ ridx (after_deq f m v) = ridx f /\ quiet (rpcf f) (rpcf (after_deq f m v)) /\
  rkind (after_deq f m v) = rkind f.
Proof.
  intro H. unfold after_deq. destruct (dequeue_word m); simpl; destruct H as [-> | ->]; simpl; auto.
Qed.

Lemma rstep_kind s f c s' f' : rstep s f c = (s', f') -> rkind f' = rkind f.
Proof.
  unfold rstep. destruct (rpcf f).
  - destruct (_ =? 0); intro H; inversion H; reflexivity.
  - destruct (Nat.ltb _ _); [intro H; inversion H; reflexivity|].
    destruct (read_view _ _ _ _ _) as [m v]. intro H; inversion H. unfold after_deq. destruct (dequeue_word m); reflexivity.
  - destruct (dequeue_word (rcur f)) as [[i w']|]; [|intro H; inversion H; reflexivity].
    destruct c.
    + destruct (_ =? _).
      * destruct (cas_ok _ _ _ _ _). intro H; inversion H; reflexivity.
      * destruct (read_view _ _ _ _ _) as [m v]. intro H; inversion H. unfold after_deq. destruct (dequeue_word m); reflexivity.
    + destruct (read_view _ _ _ _ _) as [m v]. intro H; inversion H. unfold after_deq. destruct (dequeue_word m); reflexivity.
  - destruct (negb _); [intro H; inversion H; reflexivity|]. destruct (Nat.ltb _ _); [intro H; inversion H; reflexivity|].
    destruct (rkind f) eqn:K; [intro H; inversion H; simpl; auto|].
    destruct (cval s (ridx f)); intro H; inversion H; simpl; auto.
  - destruct (read_view _ _ _ _ _) as [m v]. intro H; inversion H. unfold after_enq. destruct (enq_find m); reflexivity.
  - destruct (enqueue_word _ _); [|intro H; inversion H; reflexivity]. destruct c.
    + destruct (_ =? _).
      * destruct (cas_ok _ _ _ _ _). intro H; inversion H; reflexivity.
      * destruct (read_view _ _ _ _ _) as [m v]. intro H; inversion H. unfold after_enq. destruct (enq_find m); reflexivity.
    + destruct (read_view _ _ _ _ _) as [m v]. intro H; inversion H. unfold after_enq. destruct (enq_find m); reflexivity.
  - intro H; inversion H; reflexivity.
  - intro H; inversion H; reflexivity.
  - intro H; inversion H; reflexivity.
Qed.

Lemma msgs_app_same s q w mv : msgs (set_msgs s q (msgs s q ++ [ {| mval := w; mview := mv |} ])) q = msgs s q ++ [ {| mval := w; mview := mv |} ].
Proof. apply msgs_set_same. Qed.

Lemma rstep_effect s fs k f c s' f' :
  RInv s fs -> nth_error fs k = Some f -> rstep s f c = (s', f') -> Effect s f s' f'.
Proof.
  intros I Hk Hs.
  assert (I' : RInv s' (upd fs k f')) by (eapply rstep_rinv; eauto).
  assert (Hlen : (k < length fs)%nat) by (apply nth_error_Some; congruence).
  destruct (r_fr _ _ I' k f' (nth_upd_eq _ _ _ Hlen)) as [_ Fok'].
  destruct (r_fr _ _ I k f Hk) as [_ Fok].
  unfold rstep in Hs. destruct (rpcf f) eqn:Hpc.
  - (* slot *)
    destruct (_ =? 0); inversion Hs; subst; apply E_quiet; simpl; auto; rewrite Hpc; exact Logic.I.
  - unfold rframe_ok in Fok. rewrite Hpc in Fok.
    assert (E : Nat.ltb (rview f LI) 1 = false) by (apply Nat.ltb_ge; exact Fok). rewrite E in Hs.
    destruct (read_view _ _ _ _ _) as [m v]. inversion Hs; subst.
    destruct (after_deq_quiet f m v (or_introl Hpc)) as (G & X & Q & _). apply E_quiet; auto.
  - unfold rframe_ok in Fok. rewrite Hpc in Fok.
    destruct (dequeue_word (rcur f)) as [[i w']|] eqn:Ed; [|contradiction].
    assert (Hread : forall t m v, read_view s f (deq_q (rkind f)) deq_ord_cas_fail t = (m, v) -> Effect s f s (after_deq f m v)).
    { intros t m v _. destruct (after_deq_quiet f m v (or_intror Hpc)) as (G & X & Q & _). apply E_quiet; auto. }
    destruct c.
    + destruct (mval (lastm (msgs s (deq_q (rkind f)))) =? rcur f) eqn:Em.
      * apply N.eqb_eq in Em. unfold cas_ok in Hs. inversion Hs; subst s' f'; clear Hs.
        set (q := deq_q (rkind f)) in *.
        assert (Hw : WordOk (mval (lastm (msgs s q)))) by (apply (lastm_wordok s fs q I)).
        rewrite <- Em in Ed. rewrite (wordok_deq _ Hw) in Ed.
        destruct (decode (mval (lastm (msgs s q)))) as [|h t] eqn:El; [discriminate|]. inversion Ed; subst i w'.
        apply (E_deq s f _ _ h t); [exact Hpc|reflexivity|reflexivity|destruct q; reflexivity|exact El| |reflexivity| |].
        -- rewrite <- El. apply Hw.
        -- fold q. rewrite msgs_set_same, lastm_snoc. reflexivity.
        -- fold q. apply msgs_set_other.
      * destruct (read_view _ _ _ _ _) as [m v] eqn:Er. inversion Hs; subst. eapply Hread; eauto.
    + destruct (read_view _ _ _ _ _) as [m v] eqn:Er. inversion Hs; subst. eapply Hread; eauto.
  - (* cell *)
    unfold rframe_ok in Fok. rewrite Hpc in Fok. destruct Fok as (Hi & Hkn & Hcs).
    rewrite (in_range_idxs _ Hi) in Hs. cbn [negb] in Hs.
    assert (E : Nat.ltb (rview f (LC (ridx f))) (clast s (ridx f)) = false) by (apply Nat.ltb_ge; apply Hkn).
    rewrite E in Hs. destruct (rkind f) eqn:K.
    + inversion Hs; subst s' f'; clear Hs. apply (E_write s f _ _ v); simpl; auto; try (intros []; reflexivity).
    + cbn [deq_q cell_full] in Hcs. unfold cell_state in Hcs.
      destruct (cval s (ridx f)) as [x|] eqn:Ev; [|contradiction].
      inversion Hs; subst s' f'; clear Hs. apply (E_take s f _ _ x); simpl; auto; try (intros []; reflexivity).
  - destruct (read_view _ _ _ _ _) as [m v]. inversion Hs; subst. unfold after_enq in *.
    destruct (enq_find m); [|unfold rframe_ok in Fok'; simpl in Fok'; contradiction].
    apply E_quiet; simpl; auto. rewrite Hpc. exact Logic.I.
  - destruct (enqueue_word (rcur f) (ridx f)) as [w'|] eqn:Ee.
    2:{ inversion Hs; subst. apply E_quiet; auto. rewrite Hpc. exact Logic.I. }
    assert (Hread : forall m v, Effect s f s (after_enq f m v) \/ rpcf (after_enq f m v) = RPanic 1).
    { intros m v. unfold after_enq. destruct (enq_find m); [left|right; reflexivity].
      apply E_quiet; simpl; auto. rewrite Hpc. exact Logic.I. }
    unfold rframe_ok in Fok. rewrite Hpc in Fok. destruct Fok as (Hi & Hkn & Hcs).
    assert (Hh : rholds f = Some (ridx f)) by (unfold rholds; rewrite Hpc; reflexivity).
    destruct c.
    + destruct (mval (lastm (msgs s (enq_q (rkind f)))) =? rcur f) eqn:Em.
      * apply N.eqb_eq in Em. unfold cas_ok in Hs. inversion Hs; subst s' f'; clear Hs.
        set (q := enq_q (rkind f)) in *.
        assert (Hw : WordOk (mval (lastm (msgs s q)))) by (apply (lastm_wordok s fs q I)).
        assert (Hnin : ~ In (ridx f) (decode (mval (lastm (msgs s q))))) by (apply (rheld_not_queued s fs k f (ridx f) q I Hi Hk Hh)).
        destruct (wordok_enq _ _ Hw Hi Hnin) as [_ Hen]. rewrite Em, Ee in Hen. inversion Hen; subst w'.
        apply E_enq; [exact Hpc|reflexivity|reflexivity|reflexivity|destruct q; reflexivity|exact Hi|exact Hnin| | |].
        -- apply valid_snoc; auto. apply Hw.
        -- fold q. rewrite msgs_set_same, lastm_snoc. cbn [mval]. rewrite Em. reflexivity.
        -- fold q. apply msgs_set_other.
      * destruct (read_view _ _ _ _ _) as [m v] eqn:Er. inversion Hs; subst.
        destruct (Hread m v) as [H|H]; auto. unfold rframe_ok in Fok'. rewrite H in Fok'. contradiction.
    + destruct (read_view _ _ _ _ _) as [m v] eqn:Er. inversion Hs; subst.
      destruct (Hread m v) as [H|H]; auto. unfold rframe_ok in Fok'. rewrite H in Fok'. contradiction.
  - inversion Hs; subst. apply E_quiet; auto. rewrite Hpc. exact Logic.I.
  - unfold rframe_ok in Fok. rewrite Hpc in Fok. contradiction.
  - unfold rframe_ok in Fok. rewrite Hpc in Fok. contradiction.
Qed.

(** * The observer *)

Record ghost := { gi : list (N * nat); go : list N; tk : list (option nat) }.
Definition ginit : ghost := {| gi := []; go := []; tk := [] |}.

Definition gstep (g : ghost) (k : nat) (f f' : rframe) : ghost :=
  match rpcf f, rpcf f', rkind f with
  | RDeqCas, RCell, KRecv =>
      {| gi := gi g; go := go g ++ [ridx f']; tk := upd (tk g) k (Some (length (go g))) |}
  | REnqCas, RDone, KSend v =>
      {| gi := gi g ++ [(ridx f, v)]; go := go g; tk := upd (tk g) k (Some (length (gi g))) |}
  | _, _, _ => g
  end.

Definition gworld := (rworld * ghost)%type.

Definition gwstep (w : gworld) (l : rlabel) : gworld :=
  let '((s, fs), g) := w in
  match l with
  | RStep k c =>
      match nth_error fs k with
      | Some f => let '(s', f') := rstep s f c in ((s', upd fs k f'), gstep g k f f')
      | None => w
      end
  | RSpawn _ _ => (rwstep (s, fs) l, {| gi := gi g; go := go g; tk := tk g ++ [None] |})
  end.

Definition grun (w : gworld) (ls : list rlabel) : gworld := fold_left gwstep ls w.
Definition ginit_world : gworld := (rinit_world, ginit).

(** The observer does not interfere: the first component is the run of ModelRA. *)
Lemma gwstep_fst w l : fst (gwstep w l) = rwstep (fst w) l.
Proof.
  destruct w as [[s fs] g]. destruct l as [k c|kd p]; simpl; auto.
  destruct (nth_error fs k); auto. destruct (rstep s r c); reflexivity.
Qed.

Lemma grun_fst ls : forall w, fst (grun w ls) = rrun (fst w) ls.
Proof.
  induction ls as [|l r IH]; intro w; simpl; auto. rewrite IH, gwstep_fst. reflexivity.
Qed.

Definition tick_of (g : ghost) (k : nat) : option nat := nth k (tk g) None.

(** * The FIFO invariant *)

Definition rrecv_ok (s : rshared) (g : ghost) (f : rframe) (tkf : option nat) : Prop :=
  match tkf with
  | None => (rpcf f = RSlot \/ rpcf f = RDeqLoad \/ rpcf f = RDeqCas \/ rpcf f = RDone) /\ rgot f = None
  | Some t => exists i v, nth_error (gi g) t = Some (i, v) /\ nth_error (go g) t = Some i /\
      match rpcf f with
      | RCell => ridx f = i /\ rgot f = None /\ cval s i = Some v
      | REnqLoad | REnqCas | RDone => rgot f = Some v
      | _ => False
      end
  end.

Definition rsend_ok (s : rshared) (g : ghost) (f : rframe) (v : nat) (tkf : option nat) : Prop :=
  match tkf with
  | None => rpcf f = REnqLoad \/ rpcf f = REnqCas -> cval s (ridx f) = Some v
  | Some t => nth_error (gi g) t = Some (ridx f, v) /\ rpcf f = RDone
  end.

Record RF (s : rshared) (fs : list rframe) (g : ghost) : Prop := {
  rf_len : length (tk g) = length fs;
  rf_io : map fst (gi g) = go g ++ decode (mval (lastm (mf s)));
  rf_cell : forall p i v, nth_error (gi g) (length (go g) + p) = Some (i, v) -> cval s i = Some v;
  rf_recv : forall k f, nth_error fs k = Some f -> rkind f = KRecv -> rrecv_ok s g f (tick_of g k);
  rf_send : forall k f v, nth_error fs k = Some f -> rkind f = KSend v -> rsend_ok s g f v (tick_of g k);
  rf_inj : forall j k f f2 t, j <> k -> nth_error fs j = Some f -> nth_error fs k = Some f2 ->
             (rkind f = KRecv <-> rkind f2 = KRecv) -> tick_of g j = Some t -> tick_of g k = Some t -> False
}.

Definition gext (g g' : ghost) : Prop := (exists a, gi g' = gi g ++ a) /\ (exists b, go g' = go g ++ b).

Lemma gext_refl g : gext g g.
Proof. split; exists []; rewrite app_nil_r; reflexivity. Qed.

Lemma nth_error_ext' {A} (l a : list A) n x : nth_error l n = Some x -> nth_error (l ++ a) n = Some x.
Proof. intro H. rewrite nth_error_app1; auto. apply nth_error_Some. congruence. Qed.

Lemma rrecv_ok_ext s s' g g' f tkf :
  gext g g' -> (rpcf f = RCell -> cval s' (ridx f) = cval s (ridx f)) -> rrecv_ok s g f tkf -> rrecv_ok s' g' f tkf.
Proof.
  intros [[a Ha] [b Hb]] Hc. unfold rrecv_ok. destruct tkf as [t|]; auto.
  intros (i & v & Hi & Ho & H). exists i, v. rewrite Ha, Hb. repeat split; try (apply nth_error_ext'; assumption).
  destruct (rpcf f); auto. destruct H as (E1 & E2 & E3). subst i. rewrite Hc; auto.
Qed.

Lemma rsend_ok_ext s s' g g' f v tkf :
  gext g g' -> (rpcf f = REnqLoad \/ rpcf f = REnqCas -> cval s' (ridx f) = cval s (ridx f)) ->
  rsend_ok s g f v tkf -> rsend_ok s' g' f v tkf.
Proof.
  intros [[a Ha] _] Hc. unfold rsend_ok. destruct tkf as [t|].
  - intros [H1 H2]. split; auto. rewrite Ha. apply nth_error_ext'. exact H1.
  - intros H Hp. rewrite Hc; auto.
Qed.

Lemma tick_upd_eq g k x : (k < length (tk g))%nat -> nth k (upd (tk g) k x) None = x.
Proof.
  intro H. pose proof (nth_upd_eq (tk g) k x H) as E. apply nth_error_nth with (d := None) in E. exact E.
Qed.

Lemma tick_upd_neq (l : list (option nat)) k j x : j <> k -> nth j (upd l k x) None = nth j l None.
Proof.
  intro H. pose proof (nth_upd_neq l k j x H) as E.
  destruct (nth_error l j) as [y|] eqn:Ey.
  - apply nth_error_nth with (d := None) in Ey. apply nth_error_nth with (d := None) in E. congruence.
  - rewrite (nth_overflow l) by (apply nth_error_None; exact Ey).
    apply nth_overflow. rewrite upd_length. apply nth_error_None. exact Ey.
Qed.

Lemma rqueued_entry s fs g p i v :
  RF s fs g -> nth_error (gi g) (length (go g) + p) = Some (i, v) -> In i (decode (mval (lastm (mf s)))).
Proof.
  intros F H. assert (nth_error (map fst (gi g)) (length (go g) + p) = Some i).
  { rewrite nth_error_map, H. reflexivity. }
  rewrite (rf_io _ _ _ F), nth_error_app2 in H0 by lia.
  replace (length (go g) + p - length (go g))%nat with p in H0 by lia.
  eapply nth_error_In; eauto.
Qed.

(** Generic update of frame k. *)
Lemma rf_update s fs g k f s' f' g' :
  RF s fs g -> nth_error fs k = Some f ->
  length (tk g') = length (tk g) ->
  map fst (gi g') = go g' ++ decode (mval (lastm (mf s'))) ->
  (forall p i v, nth_error (gi g') (length (go g') + p) = Some (i, v) -> cval s' i = Some v) ->
  gext g g' ->
  (forall j, j <> k -> tick_of g' j = tick_of g j) ->
  (forall j f2, j <> k -> nth_error fs j = Some f2 -> rholds f2 <> None -> cval s' (ridx f2) = cval s (ridx f2)) ->
  rkind f' = rkind f ->
  (rkind f = KRecv -> rrecv_ok s' g' f' (tick_of g' k)) ->
  (forall v, rkind f = KSend v -> rsend_ok s' g' f' v (tick_of g' k)) ->
  (forall t, tick_of g' k = Some t -> tick_of g k = Some t \/
     (forall j f2, j <> k -> nth_error fs j = Some f2 -> (rkind f = KRecv <-> rkind f2 = KRecv) -> tick_of g j <> Some t)) ->
  RF s' (upd fs k f') g'.
Proof.
  intros F Hk Hlen Hio Hcell Hext Htk Hcells Hkind Hr Hsn Htick.
  constructor; auto.
  - rewrite upd_length, Hlen. apply F.
  - intros j f2 Hj K2. apply nth_upd_cases in Hj. destruct Hj as [(-> & _ & ->)|[Hne Hj]].
    + apply Hr. congruence.
    + rewrite (Htk j Hne). apply (rrecv_ok_ext s s' g g'); auto.
      * intro Hp. apply (Hcells j f2 Hne Hj). unfold rholds. rewrite Hp. discriminate.
      * eapply rf_recv; eauto.
  - intros j f2 v Hj K2. apply nth_upd_cases in Hj. destruct Hj as [(-> & _ & ->)|[Hne Hj]].
    + apply Hsn. congruence.
    + rewrite (Htk j Hne). apply (rsend_ok_ext s s' g g'); auto.
      * intro Hp. apply (Hcells j f2 Hne Hj). unfold rholds. destruct Hp as [-> | ->]; discriminate.
      * eapply rf_send; eauto.
  - intros i j g1 g2 t Hij Hi Hj Hkk T1 T2.
    apply nth_upd_cases in Hi. apply nth_upd_cases in Hj.
    destruct Hi as [(-> & _ & ->)|[Hnei Hi]]; destruct Hj as [(-> & _ & ->)|[Hnej Hj]].
    + congruence.
    + rewrite (Htk j Hnej) in T2. destruct (Htick t T1) as [Hold|Hnew].
      * eapply (rf_inj _ _ _ F k j f g2 t); eauto. rewrite <- Hkind. exact Hkk.
      * eapply Hnew; eauto. rewrite <- Hkind. exact Hkk.
    + rewrite (Htk i Hnei) in T1. destruct (Htick t T2) as [Hold|Hnew].
      * eapply (rf_inj _ _ _ F i k g1 f t); eauto. rewrite <- Hkind. exact Hkk.
      * eapply (Hnew i g1); eauto. rewrite <- Hkind. tauto.
    + rewrite (Htk i Hnei) in T1. rewrite (Htk j Hnej) in T2. eapply (rf_inj _ _ _ F i j g1 g2 t); eauto.
Qed.

Lemma gstep_quiet g k f f' : quiet (rpcf f) (rpcf f') -> gstep g k f f' = g.
Proof. unfold gstep, quiet. destruct (rpcf f), (rpcf f'); try contradiction; auto. Qed.

Lemma mf_msgs s : mf s = msgs s QF.
Proof. reflexivity. Qed.

Lemma rf_step s fs g k f c s' f' :
  RInv s fs -> RF s fs g -> nth_error fs k = Some f -> rstep s f c = (s', f') ->
  RF s' (upd fs k f') (gstep g k f f').
Proof.
  intros I F Hk Hs.
  pose proof (rstep_effect _ _ _ _ _ _ _ I Hk Hs) as Ef.
  pose proof (rstep_kind _ _ _ _ _ Hs) as Hkind.
  assert (Hlen : (k < length (tk g))%nat) by (rewrite (rf_len _ _ _ F); apply nth_error_Some; congruence).
  assert (Hrf : rkind f = KRecv -> rrecv_ok s g f (tick_of g k)) by (intro; eapply rf_recv; eauto).
  assert (Hsf : forall v, rkind f = KSend v -> rsend_ok s g f v (tick_of g k)) by (intros; eapply rf_send; eauto).
  destruct Ef as [Hm Hc Hg Hx Hq | h t Hp Hp' Hg Hc Hd Hv Hx Hl Ho | Hp Hp' Hg Hx Hc Hi Hn Hv Hl Ho
                 | x K Hp Hp' Hx Hg Hi Hm Hc | x K Hp Hp' Hx Hcv Hg Hi Hm Hc].
  - (* quiet *)
    rewrite (gstep_quiet g k f f' Hq).
    apply (rf_update s fs g k f); auto using gext_refl.
    + rewrite mf_msgs, Hm. apply F.
    + rewrite Hc. apply F.
    + intros. rewrite Hc. reflexivity.
    + intro K. specialize (Hrf K). unfold rrecv_ok in *. rewrite Hg. destruct (tick_of g k) as [t|].
      * destruct Hrf as (i & v & Hi & Ho & H). exists i, v. split; auto. split; auto. rewrite Hc.
        unfold quiet in Hq. destruct (rpcf f), (rpcf f'); try contradiction; auto.
      * destruct Hrf as [Hpc Hgot]. split; auto.
        unfold quiet in Hq. destruct (rpcf f), (rpcf f'); try contradiction; auto;
          destruct Hpc as [E|[E|[E|E]]]; discriminate.
    + intros v K. specialize (Hsf v K). unfold rsend_ok in *. rewrite Hx, Hc. destruct (tick_of g k) as [t|].
      * destruct Hsf as [H1 H2]. split; auto. unfold quiet in Hq. rewrite H2 in Hq. destruct (rpcf f'); try contradiction; auto.
      * intro Hpf'. apply Hsf. unfold quiet in Hq.
        destruct (rpcf f), (rpcf f'); try contradiction; auto; destruct Hpf' as [E|E]; discriminate.
  - (* successful dequeue CAS *)
    destruct (rkind f) eqn:K; cbn [deq_q other] in *.
    + (* send: from `empty`; `full` untouched *)
      assert (Eg : gstep g k f f' = g) by (unfold gstep; rewrite Hp, Hp', K; reflexivity). rewrite Eg.
      apply (rf_update s fs g k f); auto using gext_refl.
      * rewrite mf_msgs, Ho. apply F.
      * rewrite Hc. apply F.
      * intros. rewrite Hc. reflexivity.
      * congruence.
      * intro Kr. congruence.
      * intros v' Kv. rewrite K in Kv. specialize (Hsf v' Kv). unfold rsend_ok in *. destruct (tick_of g k) as [t0|].
        -- destruct Hsf as [_ E]. congruence.
        -- intros [E|E]; congruence.
    + (* recv: from `full` *)
      assert (Hvt : valid t) by (eapply valid_tl; eauto).
      pose proof (rf_io _ _ _ F) as Hio. rewrite mf_msgs, Hd in Hio.
      assert (Hent : exists v, nth_error (gi g) (length (go g)) = Some (h, v)).
      { assert (E : nth_error (map fst (gi g)) (length (go g)) = Some h).
        { rewrite Hio, nth_error_app2 by lia. rewrite Nat.sub_diag. reflexivity. }
        rewrite nth_error_map in E. destruct (nth_error (gi g) (length (go g))) as [[i v]|]; [|discriminate].
        simpl in E. inversion E; subst. eauto. }
      destruct Hent as [v Hent].
      assert (Eg : gstep g k f f' = {| gi := gi g; go := go g ++ [h]; tk := upd (tk g) k (Some (length (go g))) |})
        by (unfold gstep; rewrite Hp, Hp', K, Hx; reflexivity).
      rewrite Eg. set (g' := {| gi := gi g; go := go g ++ [h]; tk := upd (tk g) k (Some (length (go g))) |}).
      assert (Tk : tick_of g' k = Some (length (go g))) by (unfold tick_of, g'; cbn [tk]; apply tick_upd_eq; exact Hlen).
      apply (rf_update s fs g k f); auto.
      * unfold g'. cbn [tk]. apply upd_length.
      * unfold g'. cbn [gi go]. rewrite mf_msgs, Hl, (decode_encode t Hvt), Hio, <- app_assoc. reflexivity.
      * unfold g'. cbn [gi go]. intros p i v' Hn. rewrite app_length in Hn. simpl in Hn. rewrite Hc.
        apply (rf_cell _ _ _ F (S p) i v'). rewrite <- Hn. f_equal. lia.
      * split; [exists []; rewrite app_nil_r; reflexivity|exists [h]; reflexivity].
      * intros j Hj. unfold tick_of, g'. cbn [tk]. apply tick_upd_neq. exact Hj.
      * intros. rewrite Hc. reflexivity.
      * congruence.
      * intros _. rewrite Tk. unfold rrecv_ok, g'. cbn [gi go]. exists h, v. split; auto. split.
        -- rewrite nth_error_app2 by lia. rewrite Nat.sub_diag. reflexivity.
        -- rewrite Hp'. split; auto. specialize (Hrf eq_refl). unfold rrecv_ok in Hrf.
           destruct (tick_of g k).
           ++ destruct Hrf as (i0 & v0 & _ & _ & Hxx). rewrite Hp in Hxx. contradiction.
           ++ split; [rewrite Hg; apply Hrf|]. rewrite Hc. apply (rf_cell _ _ _ F 0%nat h v). rewrite Nat.add_0_r. exact Hent.
      * intros v' Kv. congruence.
      * intros t0 Ht. rewrite Tk in Ht. inversion Ht; subst t0. right.
        intros j f2 Hj Hf2 Hkk Tj. assert (K2 : rkind f2 = KRecv) by (apply Hkk; exact K).
        pose proof (rf_recv _ _ _ F j f2 Hf2 K2) as R. unfold rrecv_ok in R. rewrite Tj in R.
        destruct R as (i0 & v0 & _ & Ho' & _). assert (length (go g) < length (go g))%nat by (apply nth_error_Some; congruence). lia.
  - (* successful enqueue CAS *)
    destruct (rkind f) eqn:K; cbn [enq_q other] in *.
    + (* send: into `full` *)
      assert (Eg : gstep g k f f' = {| gi := gi g ++ [(ridx f, v)]; go := go g; tk := upd (tk g) k (Some (length (gi g))) |})
        by (unfold gstep; rewrite Hp, Hp', K; reflexivity).
      rewrite Eg. set (g' := {| gi := gi g ++ [(ridx f, v)]; go := go g; tk := upd (tk g) k (Some (length (gi g))) |}).
      assert (Tk : tick_of g' k = Some (length (gi g))) by (unfold tick_of, g'; cbn [tk]; apply tick_upd_eq; exact Hlen).
      assert (Tn : tick_of g k = None).
      { specialize (Hsf v eq_refl). unfold rsend_ok in Hsf. destruct (tick_of g k); auto. destruct Hsf as [_ E]. congruence. }
      assert (Hcv : cval s (ridx f) = Some v).
      { specialize (Hsf v eq_refl). unfold rsend_ok in Hsf. rewrite Tn in Hsf. apply Hsf. right. exact Hp. }
      apply (rf_update s fs g k f); auto.
      * unfold g'. cbn [tk]. apply upd_length.
      * unfold g'. cbn [gi go]. rewrite mf_msgs, Hl, (decode_encode _ Hv), map_app, (rf_io _ _ _ F), app_assoc. reflexivity.
      * unfold g'. cbn [gi go]. intros p i v' Hnth. rewrite Hc.
        destruct (lt_dec (length (go g) + p) (length (gi g))) as [Hlt|Hge].
        -- rewrite nth_error_app1 in Hnth by assumption. eapply rf_cell; eauto.
        -- rewrite nth_error_app2 in Hnth by lia.
           destruct (length (go g) + p - length (gi g))%nat as [|n'] eqn:E; simpl in Hnth.
           ++ inversion Hnth; subst. exact Hcv.
           ++ destruct n'; discriminate.
      * split; [exists [(ridx f, v)]; reflexivity|exists []; rewrite app_nil_r; reflexivity].
      * intros j Hj. unfold tick_of, g'. cbn [tk]. apply tick_upd_neq. exact Hj.
      * intros. rewrite Hc. reflexivity.
      * congruence.
      * intro Kr. congruence.
      * intros v' Kv. assert (v' = v) by congruence. subst v'. rewrite Tk. unfold rsend_ok, g'. cbn [gi]. split; auto.
        rewrite Hx. rewrite nth_error_app2 by lia. rewrite Nat.sub_diag. reflexivity.
      * intros t0 Ht. rewrite Tk in Ht. inversion Ht; subst t0. right.
        intros j f2 Hj Hf2 Hkk Tj. destruct (rkind f2) as [v2|] eqn:K2.
        -- pose proof (rf_send _ _ _ F j f2 v2 Hf2 K2) as R. unfold rsend_ok in R. rewrite Tj in R. destruct R as [R _].
           assert (length (gi g) < length (gi g))%nat by (apply nth_error_Some; congruence). lia.
        -- assert (E9 : rkind f = KRecv) by (apply Hkk; reflexivity). congruence.
    + (* recv: into `empty`; `full` untouched *)
      assert (Eg : gstep g k f f' = g) by (unfold gstep; rewrite Hp, Hp', K; reflexivity). rewrite Eg.
      apply (rf_update s fs g k f); auto using gext_refl.
      * rewrite mf_msgs, Ho. apply F.
      * rewrite Hc. apply F.
      * intros. rewrite Hc. reflexivity.
      * congruence.
      * intros _. specialize (Hrf eq_refl). unfold rrecv_ok in *. rewrite Hg, Hp'. destruct (tick_of g k) as [t0|].
        -- destruct Hrf as (i & v & H1 & H2 & Hxx). exists i, v. repeat split; auto. rewrite Hp in Hxx. exact Hxx.
        -- destruct Hrf as [[E|[E|[E|E]]] _]; congruence.
      * intros v' Kv. congruence.
  - (* send writes its cell *)
    assert (Eg : gstep g k f f' = g) by (unfold gstep; rewrite Hp; reflexivity). rewrite Eg.
    assert (Hh : rholds f = Some (ridx f)) by (unfold rholds; rewrite Hp; reflexivity).
    apply (rf_update s fs g k f); auto using gext_refl.
    + rewrite mf_msgs, Hm. apply F.
    + intros p i v' Hnth. rewrite Hc. destruct (N.eqb_spec i (ridx f)) as [->|_].
      * exfalso. apply (rheld_not_queued s fs k f (ridx f) QF I Hi Hk Hh). eapply rqueued_entry; eauto.
      * eapply rf_cell; eauto.
    + intros j f2 Hj Hf2 Hh2. rewrite Hc. destruct (N.eqb_spec (ridx f2) (ridx f)) as [E|_]; auto.
      exfalso. eapply (rholders_distinct s fs j k f2 f (ridx f)); eauto.
      unfold rholds in *. destruct (rpcf f2); try congruence.
    + intro Kr. congruence.
    + intros v' Kv. assert (v' = x) by congruence. subst v'. specialize (Hsf x K). unfold rsend_ok in *.
      destruct (tick_of g k) as [t0|].
      * destruct Hsf as [_ E]. congruence.
      * intros _. rewrite Hx, Hc, N.eqb_refl. reflexivity.
  - (* recv takes the value *)
    assert (Eg : gstep g k f f' = g) by (unfold gstep; rewrite Hp; reflexivity). rewrite Eg.
    assert (Hh : rholds f = Some (ridx f)) by (unfold rholds; rewrite Hp; reflexivity).
    apply (rf_update s fs g k f); auto using gext_refl.
    + rewrite mf_msgs, Hm. apply F.
    + intros p i v' Hnth. rewrite Hc. destruct (N.eqb_spec i (ridx f)) as [->|_].
      * exfalso. apply (rheld_not_queued s fs k f (ridx f) QF I Hi Hk Hh). eapply rqueued_entry; eauto.
      * eapply rf_cell; eauto.
    + intros j f2 Hj Hf2 Hh2. rewrite Hc. destruct (N.eqb_spec (ridx f2) (ridx f)) as [E|_]; auto.
      exfalso. eapply (rholders_distinct s fs j k f2 f (ridx f)); eauto.
      unfold rholds in *. destruct (rpcf f2); try congruence.
    + intros _. specialize (Hrf K). unfold rrecv_ok in *. rewrite Hp', Hg. destruct (tick_of g k) as [t0|].
      * destruct Hrf as (i & v & H1 & H2 & Hxx). rewrite Hp in Hxx. destruct Hxx as (E1 & E2 & E3).
        exists i, v. repeat split; auto. subst i. congruence.
      * destruct Hrf as [[E|[E|[E|E]]] _]; congruence.
    + intros v' Kv. congruence.
Qed.

(** * Every run of the view semantics *)

Lemma rf_init : RF rinit [] ginit.
Proof.
  destruct rinit_words as [_ Hf]. constructor.
  - reflexivity.
  - rewrite Hf. reflexivity.
  - intros p i v H. cbn [ginit gi go length] in H. destruct (0 + p)%nat; discriminate.
  - intros [|k] f H; discriminate.
  - intros [|k] f v H; discriminate.
  - intros [|j] k f f2 t _ H; discriminate.
Qed.

Lemma tick_snoc g j :
  nth j (tk g ++ [None]) None = nth j (tk g) None.
Proof.
  destruct (lt_dec j (length (tk g))).
  - apply app_nth1. exact l.
  - rewrite app_nth2 by lia. rewrite (nth_overflow (tk g)) by lia.
    destruct (j - length (tk g))%nat as [|[|n']]; reflexivity.
Qed.

Lemma rf_spawn s fs g kd v :
  RF s fs g -> RF s (fs ++ [mk_rframe kd v]) {| gi := gi g; go := go g; tk := tk g ++ [None] |}.
Proof.
  intros F. assert (Tk : forall j, tick_of {| gi := gi g; go := go g; tk := tk g ++ [None] |} j = tick_of g j).
  { intro j. unfold tick_of. cbn [tk]. apply tick_snoc. }
  assert (Tnew : tick_of g (length fs) = None).
  { unfold tick_of. apply nth_overflow. rewrite (rf_len _ _ _ F). lia. }
  constructor; cbn [gi go tk].
  - rewrite !app_length, (rf_len _ _ _ F). reflexivity.
  - apply F.
  - apply F.
  - intros k f Hk K. rewrite Tk. apply nth_app_cases in Hk. destruct Hk as [Hk|[-> ->]].
    + apply (rf_recv _ _ _ F k f Hk K).
    + rewrite Tnew. unfold rrecv_ok. simpl. auto.
  - intros k f x Hk K. rewrite Tk. apply nth_app_cases in Hk. destruct Hk as [Hk|[-> ->]].
    + apply (rf_send _ _ _ F k f x Hk K).
    + rewrite Tnew. unfold rsend_ok. simpl. intros [E|E]; discriminate.
  - intros j k f f2 t Hne Hj Hk Hkk T1 T2. rewrite Tk in T1, T2.
    apply nth_app_cases in Hj. apply nth_app_cases in Hk.
    destruct Hj as [Hj|[-> _]]; [|congruence]. destruct Hk as [Hk|[-> _]]; [|congruence].
    eapply (rf_inj _ _ _ F j k f f2 t); eauto.
Qed.

Definition GInv (w : gworld) : Prop := RInv (fst (fst w)) (snd (fst w)) /\ RF (fst (fst w)) (snd (fst w)) (snd w).

Lemma ginv_wstep w l : GInv w -> GInv (gwstep w l).
Proof.
  destruct w as [[s fs] g]. intros [I F]. simpl in I, F. split.
  - rewrite gwstep_fst. apply (rinv_wstep (s, fs) l). exact I.
  - destruct l as [k c|kd p]; simpl.
    + destruct (nth_error fs k) as [f|] eqn:Hk; [|exact F].
      destruct (rstep s f c) as [s' f'] eqn:Hs. simpl. eapply rf_step; eauto.
    + destruct p as [p|]; [destruct (nth_error fs p)|]; simpl; apply rf_spawn; exact F.
Qed.

Lemma ginv_run ls : forall w, GInv w -> GInv (grun w ls).
Proof. induction ls as [|l r IH]; intros w H; simpl; auto. apply IH. apply ginv_wstep. exact H. Qed.

Lemma ginv_init : GInv ginit_world.
Proof. split; [apply rinv_init|apply rf_init]. Qed.

(** C06 under the declared orderings. *)
Theorem fifo_ra ls :
  let w := grun ginit_world ls in
  let s := fst (fst w) in let fs := snd (fst w) in let g := snd w in
  fst w = rrun rinit_world ls /\
  map fst (gi g) = go g ++ decode (mval (lastm (mf s))) /\
  (forall k f v, nth_error fs k = Some f -> rkind f = KRecv -> rgot f = Some v ->
     exists t i, tick_of g k = Some t /\ nth_error (gi g) t = Some (i, v) /\ nth_error (go g) t = Some i) /\
  (forall k f v t, nth_error fs k = Some f -> rkind f = KSend v -> tick_of g k = Some t ->
     nth_error (gi g) t = Some (ridx f, v) /\ rpcf f = RDone) /\
  (forall j k f f2 t, j <> k -> nth_error fs j = Some f -> nth_error fs k = Some f2 ->
     (rkind f = KRecv <-> rkind f2 = KRecv) -> tick_of g j = Some t -> tick_of g k = Some t -> False).
Proof.
  intros w s fs g. destruct (ginv_run ls ginit_world ginv_init) as [I F]. fold w in I, F. fold s in I, F. fold fs in I, F. fold g in F.
  split; [apply (grun_fst ls ginit_world)|]. split; [apply F|]. split; [|split].
  - intros k f v Hk K Hg. pose proof (rf_recv _ _ _ F k f Hk K) as R. unfold rrecv_ok in R.
    destruct (tick_of g k) as [t|].
    + destruct R as (i & v' & Hi & Ho & Hx). exists t, i. split; auto.
      destruct (rpcf f); try contradiction; try (destruct Hx as (_ & E & _); congruence);
        (assert (v' = v) by congruence; subst v'; auto).
    + destruct R as [_ E]. congruence.
  - intros k f v t Hk K Ht. pose proof (rf_send _ _ _ F k f v Hk K) as R. unfold rsend_ok in R. rewrite Ht in R. exact R.
  - apply F.
Qed.

(** Under the view semantics an operation gives up (send: the value is discarded; recv: None)
    only on reading a message of its queue, at or after its view, whose word is 0. *)
Lemma after_deq_done f m v : rpcf (after_deq f m v) = RDone -> dequeue_word m = None.
Proof. unfold after_deq. destruct (dequeue_word m); simpl; [discriminate|reflexivity]. Qed.

Theorem ra_gives_up_on_zero s fs k f c s' f' :
  RInv s fs -> nth_error fs k = Some f -> rstep s f c = (s', f') ->
  rpcf f = RDeqLoad \/ rpcf f = RDeqCas -> rpcf f' = RDone ->
  exists t m, (rview f (qloc (deq_q (rkind f))) <= t)%nat /\
              nth_error (msgs s (deq_q (rkind f))) t = Some m /\ mval m = 0.
Proof.
  intros I Hk Hs Hpc Hd. set (q := deq_q (rkind f)) in *.
  assert (Hread : forall ord t m v, (rview f (qloc q) <= t)%nat -> (t < length (msgs s q))%nat ->
            read_view s f q ord t = (m, v) -> rpcf (after_deq f m v) = RDone ->
            exists t m, (rview f (qloc q) <= t)%nat /\ nth_error (msgs s q) t = Some m /\ mval m = 0).
  { intros ord t m v Hv Ht Hr Hdone.
    destruct (read_facts _ _ _ _ _ _ _ _ _ I Hk Hv Ht Hr) as (_ & _ & (mm & Hmm & Em) & _).
    exists t, mm. split; auto. split; auto. destruct (r_msg _ _ I _ _ _ Hmm) as [Hw _].
    apply wordok_zero; auto. rewrite Em. apply after_deq_done with (f := f) (v := v). exact Hdone. }
  destruct (r_fr _ _ I k f Hk) as [_ Fok]. unfold rstep in Hs.
  destruct Hpc as [Hpc|Hpc]; rewrite Hpc in Hs; unfold rframe_ok in Fok; rewrite Hpc in Fok.
  - assert (E : Nat.ltb (rview f LI) 1 = false) by (apply Nat.ltb_ge; exact Fok). rewrite E in Hs. fold q in Hs.
    destruct (read_view s f q deq_ord_load _) as [m v] eqn:Er. inversion Hs; subst s' f'.
    destruct (pick_bounds (msgs s q) (rview f (qloc q)) c (r_ne _ _ I q) (view_le_last s fs k f q I Hk)) as [P1 P2].
    eapply Hread; eauto.
  - fold q in Hs. destruct (dequeue_word (rcur f)) as [[i w']|] eqn:Ed; [|contradiction].
    destruct c as [|c'].
    + destruct (mval (lastm (msgs s q)) =? rcur f).
      * destruct (cas_ok s f q deq_ord_cas_ok w'). inversion Hs; subst f'. simpl in Hd. discriminate.
      * destruct (read_view s f q deq_ord_cas_fail _) as [m v] eqn:Er. inversion Hs; subst s' f'.
        exact (Hread _ _ m v (view_le_last s fs k f q I Hk) (last_ts_lt _ (r_ne _ _ I q)) Er Hd).
    + destruct (read_view s f q deq_ord_cas_fail _) as [m v] eqn:Er. inversion Hs; subst s' f'.
      destruct (pick_bounds (msgs s q) (rview f (qloc q)) c' (r_ne _ _ I q) (view_le_last s fs k f q I Hk)) as [P1 P2].
      eapply Hread; eauto.
Qed.
