(** Complete call lists of the functions component [channel] is modelled on, as they were when the
    model was written (translator/calls.py extracts the current ones on every run).  A lemma that
    fails names the function whose calls changed: re-read it, adapt the model if needed, then
    restate the list. *)
From Coq Require Import List String.
From SH Require Import gen.Extracted_calls_channel.
Import ListNotations. Open Scope string_scope.

Lemma calls_get_ok : calls_get =
  [].
Proof. reflexivity. Qed.

Lemma calls_set_ok : calls_set =
  [].
Proof. reflexivity. Qed.

Lemma calls_enqueue_ok : calls_enqueue =
  [".load"; ".find"; "get"; ".expect"; "set"; ".compare_exchange_weak"; "break"].
Proof. reflexivity. Qed.

Lemma calls_dequeue_ok : calls_dequeue =
  [".load"; "break"; ".compare_exchange_weak"; "break"].
Proof. reflexivity. Qed.

Lemma calls_new_ok : calls_new =
  ["Default::default"; "AtomicU16::new"; "AtomicU16::new"; "enqueue"].
Proof. reflexivity. Qed.

Lemma calls_default_ok : calls_default =
  ["Self::new"].
Proof. reflexivity. Qed.

Lemma calls_send_ok : calls_send =
  ["dequeue"; ".get"; "enqueue"].
Proof. reflexivity. Qed.

Lemma calls_recv_ok : calls_recv =
  ["dequeue"; ".map"; ".get"; ".take"; ".expect"; "enqueue"].
Proof. reflexivity. Qed.

Lemma calls_raw_store_ok : calls_raw_store =
  [".load"; ".as_ref"; ".send"].
Proof. reflexivity. Qed.

Lemma calls_raw_load_ok : calls_raw_load =
  [".load"; ".as_ref"; ".and_then"; ".recv"].
Proof. reflexivity. Qed.

Lemma calls_raw_init_ok : calls_raw_init =
  [".load"; ".is_null"; "return"; "Box::default"; ".swap"; "Box::into_raw"; "assert!"; ".is_null"].
Proof. reflexivity. Qed.
