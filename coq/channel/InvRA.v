(** The ownership + view invariant of the channel under the release/acquire view semantics
    (ModelRA.v), for every schedule and every read-from choice (DESIGN 5.6, 5.7):

    - every message of either queue is a valid word;
    - the LAST messages of `empty` and `full` together with the indices held by in-flight
      operations partition 1..5;
    - an operation holding index i has the last access of cell i in its view, and its views of
      `empty` and `full` are beyond every message that contains i (so whatever stale message it
      reads, i is not in it: `find` succeeds);
    - the last message of a queue carries, for each index i it contains, the last access of
      cell i and a view of the other queue beyond every message containing i.
    The last two need Acquire on the successful dequeue CAS and Release on the successful
    enqueue CAS - the lemmas [deq_acquires] / [enq_releases] are proved by computation from the
    regenerated orderings, so weakening the source breaks this file. *)
From Coq Require Import List Arith NArith ZArith Bool Lia.
From SH Require Import base.Pool gen.Extracted_channel channel.Defs channel.Word channel.Model channel.Inv channel.ModelRA.
Import ListNotations.
Local Open Scope N_scope.

(** * The orderings the proof relies on (read from the generated file) *)

Lemma deq_acquires : has_acq deq_ord_cas_ok = true.
Proof. reflexivity. Qed.
Lemma enq_releases : has_rel enq_ord_cas_ok = true.
Proof. reflexivity. Qed.
Lemma slot_acquires k : has_acq (slot_ord k) = true.
Proof. destruct k; reflexivity. Qed.
Lemma slot_releases : has_rel slot_init_swap_ord = true.
Proof. reflexivity. Qed.

(** * Vocabulary *)

Definition other (q : queue) : queue := match q with QE => QF | QF => QE end.
Definition cell_full (q : queue) : bool := match q with QE => false | QF => true end.

Definition rholds (f : rframe) : option N :=
  match rpcf f with RCell | REnqLoad | REnqCas => Some (ridx f) | _ => None end.
Definition rholdsb (i : N) (f : rframe) : bool :=
  match rholds f with Some j => j =? i | None => false end.

Definition vle (a b : view) : Prop := forall l, (a l <= b l)%nat.

(** no message of q at or after timestamp t contains i *)
Definition clean (s : rshared) (q : queue) (i : N) (t : nat) : Prop :=
  forall t' m, (t <= t')%nat -> nth_error (msgs s q) t' = Some m -> ~ In i (decode (mval m)).

Definition vbounded (s : rshared) (v : view) : Prop :=
  (v LE < length (me s))%nat /\ (v LF < length (mf s))%nat.

Definition knows (s : rshared) (i : N) (v : view) : Prop :=
  (clast s i <= v (LC i))%nat /\ clean s QE i (v LE) /\ clean s QF i (v LF).

Definition carries (s : rshared) (q : queue) (i : N) : Prop :=
  let M := mview (lastm (msgs s q)) in
  (clast s i <= M (LC i))%nat /\ clean s (other q) i (M (qloc (other q))).

Definition cell_state (s : rshared) (i : N) (full : bool) : Prop :=
  if full then cval s i <> None else cval s i = None.

Definition rframe_ok (s : rshared) (f : rframe) : Prop :=
  match rpcf f with
  | RSlot | RDone => True
  | RDeqLoad => (1 <= rview f LI)%nat
  | RDeqCas => dequeue_word (rcur f) <> None
  | RCell => In (ridx f) idxs /\ knows s (ridx f) (rview f) /\ cell_state s (ridx f) (cell_full (deq_q (rkind f)))
  | REnqLoad | REnqCas =>
      In (ridx f) idxs /\ knows s (ridx f) (rview f) /\ cell_state s (ridx f) (cell_full (enq_q (rkind f)))
  | RPanic _ | RRace _ => False
  end.

Record RInv (s : rshared) (fs : list rframe) : Prop := {
  r_ne : forall q, msgs s q <> [];
  r_msg : forall q t m, nth_error (msgs s q) t = Some m -> WordOk (mval m) /\ vbounded s (mview m);
  r_own : forall i, In i idxs ->
     (occ i (decode (mval (lastm (me s)))) + occ i (decode (mval (lastm (mf s)))) + cnt (rholdsb i) fs = 1)%nat;
  r_fr : forall k f, nth_error fs k = Some f -> vbounded s (rview f) /\ rframe_ok s f;
  r_q : forall q i, In i (decode (mval (lastm (msgs s q)))) -> carries s q i /\ cell_state s i (cell_full q)
}.

(** * Views *)

Lemma vle_refl v : vle v v.
Proof. intro l. lia. Qed.
Lemma vle_trans a b c : vle a b -> vle b c -> vle a c.
Proof. intros H1 H2 l. specialize (H1 l). specialize (H2 l). lia. Qed.
Lemma vle_join_l a b : vle a (vjoin a b).
Proof. intro l. unfold vjoin. lia. Qed.
Lemma vle_join_r a b : vle b (vjoin a b).
Proof. intro l. unfold vjoin. lia. Qed.

Lemma loc_eqb_refl l : loc_eqb l l = true.
Proof. destruct l; simpl; auto. apply N.eqb_refl. Qed.

Lemma loc_eqb_eq a b : loc_eqb a b = true -> a = b.
Proof. destruct a, b; simpl; try discriminate; auto. intro H. apply N.eqb_eq in H. congruence. Qed.

Lemma vset_same v l t : vset v l t l = t.
Proof. unfold vset. rewrite loc_eqb_refl. reflexivity. Qed.

Lemma vset_other v l t l' : l' <> l -> vset v l t l' = v l'.
Proof.
  intro H. unfold vset. destruct (loc_eqb l' l) eqn:E; auto. apply loc_eqb_eq in E. contradiction.
Qed.

Lemma vle_vset v l t : (v l <= t)%nat -> vle v (vset v l t).
Proof.
  intros H l'. unfold vset. destruct (loc_eqb l' l) eqn:E; [|lia]. apply loc_eqb_eq in E. subst. exact H.
Qed.

Lemma vle_acq ord v m : vle v (acq_join ord v m).
Proof. unfold acq_join. destruct (has_acq ord); [apply vle_join_l|apply vle_refl]. Qed.

Lemma qloc_other q : qloc (other q) <> qloc q.
Proof. destruct q; discriminate. Qed.

Lemma qloc_cell q i : LC i <> qloc q.
Proof. destruct q; discriminate. Qed.

(** * Messages *)

Lemma msgs_set_same s q ms : msgs (set_msgs s q ms) q = ms.
Proof. destruct q; reflexivity. Qed.
Lemma msgs_set_other s q ms : msgs (set_msgs s q ms) (other q) = msgs s (other q).
Proof. destruct q; reflexivity. Qed.
Lemma cval_set s q ms : cval (set_msgs s q ms) = cval s.
Proof. destruct q; reflexivity. Qed.
Lemma clast_set s q ms : clast (set_msgs s q ms) = clast s.
Proof. destruct q; reflexivity. Qed.

Lemma queue_cases q q' : q' = q \/ q' = other q.
Proof. destruct q, q'; auto. Qed.

Lemma other_other q : other (other q) = q.
Proof. destruct q; reflexivity. Qed.

Lemma lastm_snoc ms m : lastm (ms ++ [m]) = m.
Proof. unfold lastm. apply last_last. Qed.

Lemma lastm_nth ms : ms <> [] -> nth_error ms (last_ts ms) = Some (lastm ms).
Proof.
  intro H. destruct (exists_last H) as (l & x & ->). unfold last_ts, lastm.
  rewrite last_last, app_length. simpl. rewrite Nat.add_1_r. simpl.
  rewrite nth_error_app2 by lia. rewrite Nat.sub_diag. reflexivity.
Qed.

Lemma last_ts_lt ms : ms <> [] -> (last_ts ms < length ms)%nat.
Proof. intro H. unfold last_ts. destruct ms; [contradiction|simpl; lia]. Qed.

Lemma msg_at_nth ms t : (t < length ms)%nat -> nth_error ms t = Some (msg_at ms t).
Proof. intro H. unfold msg_at. apply nth_error_nth'. exact H. Qed.

Lemma pick_bounds ms v c : ms <> [] -> (v <= last_ts ms)%nat -> (v <= pick ms v c /\ pick ms v c < length ms)%nat.
Proof. intros H Hv. pose proof (last_ts_lt ms H). unfold pick. lia. Qed.

Lemma clean_mono s q i t t2 : (t <= t2)%nat -> clean s q i t -> clean s q i t2.
Proof. intros H C t' m Ht. apply C. lia. Qed.

(** * Bounded views *)

Lemma vbounded_q s v q : vbounded s v -> (v (qloc q) < length (msgs s q))%nat.
Proof. intros [H1 H2]. destruct q; assumption. Qed.

Lemma vbounded_of s v : (forall q, (v (qloc q) < length (msgs s q))%nat) -> vbounded s v.
Proof. intro H. split; [apply (H QE)|apply (H QF)]. Qed.

Lemma vbounded_join s a b : vbounded s a -> vbounded s b -> vbounded s (vjoin a b).
Proof. intros [A1 A2] [B1 B2]. unfold vbounded, vjoin. lia. Qed.

Lemma vbounded_acq s ord v m : vbounded s v -> vbounded s (mview m) -> vbounded s (acq_join ord v m).
Proof. intros. unfold acq_join. destruct (has_acq ord); auto. apply vbounded_join; auto. Qed.

Lemma vbounded_vset_q s v q t : vbounded s v -> (t < length (msgs s q))%nat -> vbounded s (vset v (qloc q) t).
Proof.
  intros [H1 H2] Ht. destruct q; split; simpl in *; try rewrite vset_same; try (rewrite vset_other by discriminate); auto.
Qed.

Lemma vbounded_vset_cell s v i t : vbounded s v -> vbounded s (vset v (LC i) t).
Proof. intros [H1 H2]. split; rewrite vset_other by discriminate; auto. Qed.

Lemma vbounded_grow s s' v :
  (forall q, (length (msgs s q) <= length (msgs s' q))%nat) -> vbounded s v -> vbounded s' v.
Proof. intros H [H1 H2]. pose proof (H QE). pose proof (H QF). simpl in *. split; lia. Qed.

(** * Knowledge is upward closed in the view *)

Lemma knows_mono s i v v' : vle v v' -> knows s i v -> knows s i v'.
Proof.
  intros H (K1 & K2 & K3). pose proof (H (LC i)). pose proof (H LE). pose proof (H LF).
  split; [lia|split; eapply clean_mono; eauto].
Qed.

Lemma rholdsb_holds i f : rholdsb i f = true -> rholds f = Some i.
Proof. unfold rholdsb. destruct (rholds f); [|discriminate]. intro H. apply N.eqb_eq in H. congruence. Qed.

Lemma rholders_distinct s fs j k f g i :
  RInv s fs -> In i idxs -> j <> k -> nth_error fs j = Some f -> nth_error fs k = Some g ->
  rholds f = Some i -> rholds g = Some i -> False.
Proof.
  intros I Hi Hne Hj Hk Hf Hg.
  assert (2 <= cnt (rholdsb i) fs)%nat.
  { eapply cnt_two; eauto; unfold rholdsb; [rewrite Hf|rewrite Hg]; apply N.eqb_refl. }
  pose proof (r_own _ _ I i Hi). lia.
Qed.

Lemma rheld_not_queued s fs k f i q :
  RInv s fs -> In i idxs -> nth_error fs k = Some f -> rholds f = Some i ->
  ~ In i (decode (mval (lastm (msgs s q)))).
Proof.
  intros I Hi Hk Hf.
  assert (1 <= cnt (rholdsb i) fs)%nat.
  { eapply cnt_pos; eauto. unfold rholdsb. rewrite Hf. apply N.eqb_refl. }
  pose proof (r_own _ _ I i Hi). destruct q; simpl; apply occ_notin; lia.
Qed.

(** An index in the last message of one queue is not in the last message of the other. *)
Lemma queued_not_other s fs q i :
  RInv s fs -> In i idxs -> In i (decode (mval (lastm (msgs s q)))) -> ~ In i (decode (mval (lastm (msgs s (other q))))).
Proof.
  intros I Hi Hin. pose proof (r_own _ _ I i Hi). apply occ_in in Hin.
  apply occ_notin. destruct q; simpl in *; lia.
Qed.

Lemma queued_not_held s fs q i k f :
  RInv s fs -> In i idxs -> In i (decode (mval (lastm (msgs s q)))) -> nth_error fs k = Some f -> rholds f <> Some i.
Proof.
  intros I Hi Hin Hk Hf. eapply (rheld_not_queued s fs k f i q); eauto.
Qed.

Lemma lastm_wordok s fs q : RInv s fs -> WordOk (mval (lastm (msgs s q))).
Proof. intro I. apply (r_msg _ _ I q (last_ts (msgs s q))). apply lastm_nth. apply (r_ne _ _ I). Qed.

Lemma lastm_in_idxs s fs q i : RInv s fs -> In i (decode (mval (lastm (msgs s q)))) -> In i idxs.
Proof. intros I H. destruct (lastm_wordok s fs q I) as [[_ Hincl] _]. apply Hincl. exact H. Qed.

(** * Generic update lemmas *)

Lemma rinv_same s fs k f f' :
  RInv s fs -> nth_error fs k = Some f -> rholds f' = rholds f ->
  vbounded s (rview f') -> rframe_ok s f' -> RInv s (upd fs k f').
Proof.
  intros I Hk Hh Hb Hok. constructor; try apply I.
  - intros i Hi. pose proof (cnt_upd (rholdsb i) fs k f f' Hk) as E. pose proof (r_own _ _ I i Hi).
    assert (Hb' : rholdsb i f' = rholdsb i f) by (unfold rholdsb; rewrite Hh; reflexivity). rewrite Hb' in E. lia.
  - intros j g Hj. apply nth_upd_cases in Hj. destruct Hj as [(-> & _ & ->)|[_ Hj]]; auto. eapply r_fr; eauto.
Qed.

Lemma rinv_update s fs k f s' f' :
  RInv s fs -> nth_error fs k = Some f ->
  (forall q, msgs s' q <> []) ->
  (forall q t m, nth_error (msgs s' q) t = Some m -> WordOk (mval m) /\ vbounded s' (mview m)) ->
  (forall i, In i idxs ->
     (occ i (decode (mval (lastm (me s')))) + occ i (decode (mval (lastm (mf s')))) + b2n (rholdsb i f') =
      occ i (decode (mval (lastm (me s)))) + occ i (decode (mval (lastm (mf s)))) + b2n (rholdsb i f))%nat) ->
  (vbounded s' (rview f') /\ rframe_ok s' f') ->
  (forall j g, j <> k -> nth_error fs j = Some g -> vbounded s (rview g) /\ rframe_ok s g ->
               vbounded s' (rview g) /\ rframe_ok s' g) ->
  (forall q i, In i (decode (mval (lastm (msgs s' q)))) -> carries s' q i /\ cell_state s' i (cell_full q)) ->
  RInv s' (upd fs k f').
Proof.
  intros I Hk Hne Hmsg Hown Hf' Hoth Hq. constructor; auto.
  - intros i Hi. pose proof (cnt_upd (rholdsb i) fs k f f' Hk). pose proof (r_own _ _ I i Hi). specialize (Hown i Hi). lia.
  - intros j g Hj. apply nth_upd_cases in Hj. destruct Hj as [(-> & _ & ->)|[Hne' Hj]]; auto.
    eapply Hoth; eauto. eapply r_fr; eauto.
Qed.

(** * Reads: relaxed loads and failed compare-exchanges *)

Lemma read_facts s fs k f q ord t m v :
  RInv s fs -> nth_error fs k = Some f -> (rview f (qloc q) <= t)%nat -> (t < length (msgs s q))%nat ->
  read_view s f q ord t = (m, v) ->
  vbounded s v /\ vle (rview f) v /\ (exists mm, nth_error (msgs s q) t = Some mm /\ mval mm = m) /\ v (qloc q) = t.
Proof.
  intros I Hk Hv Ht Hr. unfold read_view in Hr. inversion Hr; subst m v; clear Hr.
  pose proof (msg_at_nth _ _ Ht) as Hn. destruct (r_fr _ _ I k f Hk) as [Hb _].
  destruct (r_msg _ _ I q t _ Hn) as [_ Hmb].
  split; [|split; [|split]].
  - apply vbounded_vset_q; auto. apply vbounded_acq; auto.
  - intro l. unfold vset. destruct (loc_eqb l (qloc q)) eqn:E.
    + apply loc_eqb_eq in E. subst l. exact Hv.
    + apply vle_acq.
  - eauto.
  - apply vset_same.
Qed.

Lemma view_le_last s fs k f q :
  RInv s fs -> nth_error fs k = Some f -> (rview f (qloc q) <= last_ts (msgs s q))%nat.
Proof.
  intros I Hk. destruct (r_fr _ _ I k f Hk) as [Hb _]. pose proof (vbounded_q s _ q Hb). unfold last_ts. lia.
Qed.

Lemma deq_read_rinv s fs k f ord t m v :
  RInv s fs -> nth_error fs k = Some f -> rpcf f = RDeqLoad \/ rpcf f = RDeqCas ->
  (rview f (qloc (deq_q (rkind f))) <= t)%nat -> (t < length (msgs s (deq_q (rkind f))))%nat ->
  read_view s f (deq_q (rkind f)) ord t = (m, v) -> RInv s (upd fs k (after_deq f m v)).
Proof.
  intros I Hk Hpc Hv Ht Hr. destruct (read_facts _ _ _ _ _ _ _ _ _ I Hk Hv Ht Hr) as (Hb & _ & _ & _).
  assert (Hh : rholds f = None) by (unfold rholds; destruct Hpc as [-> | ->]; reflexivity).
  unfold after_deq. destruct (dequeue_word m) eqn:E; apply (rinv_same s fs k f); auto; unfold rframe_ok; simpl; auto.
  congruence.
Qed.

Lemma enq_read_rinv s fs k f ord t m v :
  RInv s fs -> nth_error fs k = Some f -> rpcf f = REnqLoad \/ rpcf f = REnqCas ->
  (rview f (qloc (enq_q (rkind f))) <= t)%nat -> (t < length (msgs s (enq_q (rkind f))))%nat ->
  read_view s f (enq_q (rkind f)) ord t = (m, v) -> RInv s (upd fs k (after_enq f m v)).
Proof.
  intros I Hk Hpc Hv Ht Hr.
  destruct (read_facts _ _ _ _ _ _ _ _ _ I Hk Hv Ht Hr) as (Hb & Hle & (mm & Hmm & Em) & _).
  destruct (r_fr _ _ I k f Hk) as [_ Fok].
  assert (Hok : In (ridx f) idxs /\ knows s (ridx f) (rview f) /\ cell_state s (ridx f) (cell_full (enq_q (rkind f)))).
  { unfold rframe_ok in Fok. destruct Hpc as [E|E]; rewrite E in Fok; exact Fok. }
  destruct Hok as (Hi & Hkn & Hcs).
  assert (Hh : rholds f = Some (ridx f)) by (unfold rholds; destruct Hpc as [-> | ->]; reflexivity).
  (* the message read does not contain the index this frame holds *)
  assert (Hnin : ~ In (ridx f) (decode m)).
  { rewrite <- Em. destruct Hkn as (_ & C1 & C2).
    destruct (rkind f); simpl in *; [eapply C2|eapply C1]; eauto. }
  destruct (r_msg _ _ I _ _ _ Hmm) as [Hw _]. rewrite Em in Hw.
  destruct (wordok_enq m (ridx f) Hw Hi Hnin) as [Hfind _].
  unfold after_enq. destruct (enq_find m) eqn:E; [|contradiction].
  apply (rinv_same s fs k f _ I Hk); [rewrite Hh; reflexivity|exact Hb|].
  unfold rframe_ok. simpl. split; auto. split; auto. eapply knows_mono; eauto.
Qed.

(** * Appending a message to a queue *)

Definition app_msg (s : rshared) (q : queue) (w : N) (mv : view) : rshared :=
  set_msgs s q (msgs s q ++ [ {| mval := w; mview := mv |} ]).

Lemma app_len_same s q w mv : length (msgs (app_msg s q w mv) q) = S (length (msgs s q)).
Proof. unfold app_msg. rewrite msgs_set_same, app_length. simpl. lia. Qed.

Lemma app_grow s q w mv q' : (length (msgs s q') <= length (msgs (app_msg s q w mv) q'))%nat.
Proof.
  destruct (queue_cases q q') as [-> | ->].
  - rewrite app_len_same. lia.
  - unfold app_msg. rewrite msgs_set_other. lia.
Qed.

Lemma clean_append s q w mv j t :
  clean s q j t -> ~ In j (decode w) -> clean (app_msg s q w mv) q j t.
Proof.
  intros C Hn t' m Ht Hm. unfold app_msg in Hm. rewrite msgs_set_same in Hm.
  apply nth_app_cases in Hm. destruct Hm as [Hm|[_ ->]]; [eapply C; eauto|exact Hn].
Qed.

Lemma clean_app_other s q w mv j t : clean s (other q) j t -> clean (app_msg s q w mv) (other q) j t.
Proof. intros C t' m Ht Hm. unfold app_msg in Hm. rewrite msgs_set_other in Hm. eapply C; eauto. Qed.

Lemma clean_fresh s q w mv j : ~ In j (decode w) -> clean (app_msg s q w mv) q j (length (msgs s q)).
Proof.
  intros Hn t' m Ht Hm. unfold app_msg in Hm. rewrite msgs_set_same in Hm.
  apply nth_app_cases in Hm. destruct Hm as [Hm|[_ ->]]; [|exact Hn].
  assert (t' < length (msgs s q))%nat by (apply nth_error_Some; congruence). lia.
Qed.

Lemma clean_app_any s q w mv q' j t :
  clean s q' j t -> ~ In j (decode w) -> clean (app_msg s q w mv) q' j t.
Proof.
  intros C Hn. destruct (queue_cases q q') as [-> | ->]; [apply clean_append|apply clean_app_other]; auto.
Qed.

Lemma knows_append s q w mv j v : knows s j v -> ~ In j (decode w) -> knows (app_msg s q w mv) j v.
Proof.
  intros (K1 & K2 & K3) Hn. unfold knows. unfold app_msg at 1. rewrite clast_set.
  split; auto. split; apply clean_app_any; auto.
Qed.

Lemma cell_state_append s q w mv j b : cell_state (app_msg s q w mv) j b <-> cell_state s j b.
Proof. unfold cell_state, app_msg. rewrite cval_set. tauto. Qed.

Lemma rframe_ok_append s q w mv g :
  rframe_ok s g -> (forall j, rholds g = Some j -> ~ In j (decode w)) -> rframe_ok (app_msg s q w mv) g.
Proof.
  unfold rframe_ok, rholds. intros H Hn. destruct (rpcf g); auto;
    destruct H as (H1 & H2 & H3); (split; [exact H1|split; [apply knows_append; auto|apply cell_state_append; exact H3]]).
Qed.

Lemma lastm_app_same s q w mv : lastm (msgs (app_msg s q w mv) q) = {| mval := w; mview := mv |}.
Proof. unfold app_msg. rewrite msgs_set_same. apply lastm_snoc. Qed.

Lemma lastm_app_other s q w mv : lastm (msgs (app_msg s q w mv) (other q)) = lastm (msgs s (other q)).
Proof. unfold app_msg. rewrite msgs_set_other. reflexivity. Qed.

Lemma own_q s q i :
  (occ i (decode (mval (lastm (me s)))) + occ i (decode (mval (lastm (mf s)))) =
   occ i (decode (mval (lastm (msgs s q)))) + occ i (decode (mval (lastm (msgs s (other q))))))%nat.
Proof. destruct q; simpl; lia. Qed.

(** What is common to both successful CASes: the new memory is well formed, the other frames
    and the members of the other queue keep their knowledge, provided the new word contains
    only indices from the old last word plus (possibly) one index [x] held by the stepping
    frame itself. *)
Lemma cas_common s fs k f q w mv s' :
  RInv s fs -> nth_error fs k = Some f -> s' = app_msg s q w mv ->
  WordOk w -> vbounded s' mv ->
  (forall j, In j (decode w) -> In j (decode (mval (lastm (msgs s q)))) \/ rholds f = Some j) ->
  (forall q', msgs s' q' <> []) /\
  (forall q' t m, nth_error (msgs s' q') t = Some m -> WordOk (mval m) /\ vbounded s' (mview m)) /\
  (forall j g, j <> k -> nth_error fs j = Some g -> vbounded s (rview g) /\ rframe_ok s g ->
               vbounded s' (rview g) /\ rframe_ok s' g) /\
  (forall i, In i (decode (mval (lastm (msgs s' (other q))))) -> carries s' (other q) i /\ cell_state s' i (cell_full (other q))).
Proof.
  intros I Hk -> Hw Hmv Hsrc.
  assert (Hgrow : forall v, vbounded s v -> vbounded (app_msg s q w mv) v).
  { intro v. apply vbounded_grow. apply app_grow. }
  split; [|split; [|split]].
  - intro q'. destruct (queue_cases q q') as [-> | ->]; unfold app_msg.
    + rewrite msgs_set_same. destruct (msgs s q); discriminate.
    + rewrite msgs_set_other. apply (r_ne _ _ I).
  - intros q' t m Hm. destruct (queue_cases q q') as [-> | ->]; unfold app_msg in Hm.
    + rewrite msgs_set_same in Hm. apply nth_app_cases in Hm. destruct Hm as [Hm|[_ ->]].
      * destruct (r_msg _ _ I _ _ _ Hm). split; auto.
      * split; auto.
    + rewrite msgs_set_other in Hm. destruct (r_msg _ _ I _ _ _ Hm). split; auto.
  - intros j g Hjk Hj [Hb Hok]. split; auto. apply rframe_ok_append; auto.
    intros x Hx Hin. assert (Hxi : In x idxs) by (destruct Hw as [[_ Hincl] _]; apply Hincl; exact Hin).
    destruct (Hsrc x Hin) as [Hold|Hmine].
    + eapply (rheld_not_queued s fs j g x q); eauto.
    + eapply (rholders_distinct s fs j k g f x); eauto.
  - intros i Hin. rewrite lastm_app_other in Hin.
    destruct (r_q _ _ I (other q) i Hin) as [(C1 & C2) Hcs].
    assert (Hi : In i idxs) by (eapply lastm_in_idxs; eauto).
    split; [|apply cell_state_append; exact Hcs].
    unfold carries. rewrite lastm_app_other. unfold app_msg at 1. rewrite clast_set. split; auto.
    rewrite other_other in *. apply clean_append; auto.
    intro Hw'. destruct (Hsrc i Hw') as [Hold|Hmine].
    + apply (queued_not_other s fs (other q) i I Hi Hin). rewrite other_other. exact Hold.
    + eapply (queued_not_held s fs (other q) i k f); eauto.
Qed.

Lemma knows_q s i v :
  knows s i v <-> (clast s i <= v (LC i))%nat /\ forall q, clean s q i (v (qloc q)).
Proof.
  unfold knows. split.
  - intros (K1 & K2 & K3). split; auto. intros []; auto.
  - intros (K1 & K). split; auto. split; [apply (K QE)|apply (K QF)].
Qed.

Lemma lastm_bounded s fs q : RInv s fs -> vbounded s (mview (lastm (msgs s q))).
Proof. intro I. apply (r_msg _ _ I q (last_ts (msgs s q))). apply lastm_nth. apply (r_ne _ _ I). Qed.

(** * A successful dequeue CAS: the thread ACQUIRES what the last message carries *)

Lemma deq_ok_rinv s fs k f i w' s' v :
  RInv s fs -> nth_error fs k = Some f -> rpcf f = RDeqCas ->
  dequeue_word (rcur f) = Some (i, w') -> mval (lastm (msgs s (deq_q (rkind f)))) = rcur f ->
  cas_ok s f (deq_q (rkind f)) deq_ord_cas_ok w' = (s', v) ->
  RInv s' (upd fs k {| rkind := rkind f; rpcf := RCell; rcur := rcur f; ridx := i; rgot := rgot f; rview := v |}).
Proof.
  intros I Hk Hpc Hd Hcur Hcas.
  set (q := deq_q (rkind f)) in *. set (ms := msgs s q) in *. set (L := lastm ms) in *.
  assert (Hw : WordOk (mval L)) by (apply (lastm_wordok s fs q I)).
  rewrite <- Hcur in Hd. rewrite (wordok_deq _ Hw) in Hd.
  destruct (decode (mval L)) as [|h t] eqn:El; [discriminate|]. inversion Hd; subst i w'; clear Hd.
  assert (Hvl : valid (h :: t)) by (rewrite <- El; apply Hw).
  assert (Hvt : valid t) by (eapply valid_tl; eauto).
  assert (Hh : In h idxs) by (apply Hvl; left; reflexivity).
  assert (Hht : ~ In h t) by (destruct Hvl as [Hnd _]; inversion Hnd; auto).
  unfold cas_ok in Hcas. fold ms in Hcas. fold L in Hcas. unfold acq_join in Hcas. rewrite deq_acquires in Hcas.
  set (v1 := vset (vjoin (rview f) (mview L)) (qloc q) (length ms)) in *.
  set (mv := if has_rel deq_ord_cas_ok then vjoin (mview L) v1 else mview L) in *.
  inversion Hcas; subst s' v; clear Hcas.
  set (s' := app_msg s q (encode t) mv).
  change (RInv s' (upd fs k {| rkind := rkind f; rpcf := RCell; rcur := rcur f; ridx := h; rgot := rgot f; rview := v1 |})).
  destruct (r_fr _ _ I k f Hk) as [Hbf _].
  assert (Hgrow : forall x, vbounded s x -> vbounded s' x) by (intro x; apply vbounded_grow; apply app_grow).
  assert (HbL : vbounded s (mview L)) by (apply (lastm_bounded s fs q I)).
  assert (Hbv1 : vbounded s' v1).
  { unfold v1. apply vbounded_vset_q; [apply Hgrow, vbounded_join; auto|]. unfold s'. rewrite app_len_same. fold ms. lia. }
  assert (Hbmv : vbounded s' mv) by (unfold mv; destruct (has_rel deq_ord_cas_ok); [apply vbounded_join|]; auto).
  assert (HleL : vle (mview L) mv) by (unfold mv; destruct (has_rel deq_ord_cas_ok); [apply vle_join_l|apply vle_refl]).
  assert (HleL1 : forall l, l <> qloc q -> (mview L l <= v1 l)%nat).
  { intros l Hl. unfold v1. rewrite vset_other by assumption. unfold vjoin. lia. }
  assert (Hdec : decode (encode t) = t) by (apply decode_encode; auto).
  destruct (cas_common s fs k f q (encode t) mv s' I Hk eq_refl (wordok_encode _ Hvt) Hbmv) as (Hne & Hmsg & Hoth & Hqo).
  { intros j Hj. left. rewrite Hdec in Hj. fold ms. fold L. rewrite El. right. exact Hj. }
  apply (rinv_update s fs k f); auto.
  - intros i Hi. rewrite (own_q s' q i), (own_q s q i). unfold s'. rewrite lastm_app_same, lastm_app_other. cbn [mval].
    fold ms. fold L. rewrite Hdec, El, occ_cons. unfold rholdsb, rholds. cbn [rpcf ridx]. rewrite Hpc. cbn [b2n]. lia.
  - split; auto. unfold rframe_ok. cbn [rpcf ridx rview rkind]. split; auto.
    destruct (r_q _ _ I q h) as [(C1 & C2) Hcs]; [fold ms; fold L; rewrite El; left; reflexivity|].
    fold ms in C1, C2. fold L in C1, C2. split.
    + apply knows_q. split.
      * unfold s', app_msg. rewrite clast_set. pose proof (HleL1 (LC h) (qloc_cell q h)). lia.
      * intro q'. destruct (queue_cases q q') as [-> | ->].
        -- unfold v1. rewrite vset_same. apply clean_fresh. rewrite Hdec. exact Hht.
        -- apply clean_app_other. eapply clean_mono; [|exact C2]. apply HleL1. apply qloc_other.
    + apply cell_state_append. exact Hcs.
  - intros q' i Hin. destruct (queue_cases q q') as [-> | ->]; [|apply Hqo; exact Hin].
    unfold s' in Hin. rewrite lastm_app_same in Hin. cbn [mval] in Hin. rewrite Hdec in Hin.
    destruct (r_q _ _ I q i) as [(C1 & C2) Hcs]; [fold ms; fold L; rewrite El; right; exact Hin|].
    fold ms in C1, C2. fold L in C1, C2.
    split; [|apply cell_state_append; exact Hcs].
    unfold carries, s'. rewrite lastm_app_same. cbn [mview]. unfold app_msg at 1. rewrite clast_set. split.
    + pose proof (HleL (LC i)). lia.
    + apply clean_app_other. eapply clean_mono; [|exact C2]. apply HleL.
Qed.

(** * A successful enqueue CAS: the thread RELEASES what it knows about its index *)

Lemma enq_ok_rinv s fs k f w' s' v :
  RInv s fs -> nth_error fs k = Some f -> rpcf f = REnqCas ->
  enqueue_word (rcur f) (ridx f) = Some w' -> mval (lastm (msgs s (enq_q (rkind f)))) = rcur f ->
  cas_ok s f (enq_q (rkind f)) enq_ord_cas_ok w' = (s', v) ->
  RInv s' (upd fs k (rset f RDone (rcur f) v)).
Proof.
  intros I Hk Hpc He Hcur Hcas.
  set (q := enq_q (rkind f)) in *. set (ms := msgs s q) in *. set (L := lastm ms) in *.
  destruct (r_fr _ _ I k f Hk) as [Hbf Fok]. unfold rframe_ok in Fok. rewrite Hpc in Fok. destruct Fok as (Hi & Hkn & Hcs).
  assert (Hh : rholds f = Some (ridx f)) by (unfold rholds; rewrite Hpc; reflexivity).
  assert (Hw : WordOk (mval L)) by (apply (lastm_wordok s fs q I)).
  assert (Hnin : ~ In (ridx f) (decode (mval L))) by (apply (rheld_not_queued s fs k f (ridx f) q I Hi Hk Hh)).
  destruct (wordok_enq _ _ Hw Hi Hnin) as [_ Hen]. rewrite Hcur, He in Hen. inversion Hen; subst w'; clear Hen.
  rewrite <- Hcur in *.
  assert (Hv' : valid (decode (mval L) ++ [ridx f])) by (apply valid_snoc; auto; apply Hw).
  assert (Hdec : decode (encode (decode (mval L) ++ [ridx f])) = decode (mval L) ++ [ridx f]) by (apply decode_encode; auto).
  unfold cas_ok in Hcas. fold ms in Hcas. fold L in Hcas. rewrite enq_releases in Hcas.
  set (v1 := vset (acq_join enq_ord_cas_ok (rview f) L) (qloc q) (length ms)) in *.
  set (mv := vjoin (mview L) v1) in *.
  inversion Hcas; subst s' v; clear Hcas.
  set (w := encode (decode (mval L) ++ [ridx f])) in *.
  set (s' := app_msg s q w mv).
  change (RInv s' (upd fs k (rset f RDone (mval L) v1))).
  assert (Hgrow : forall x, vbounded s x -> vbounded s' x) by (intro x; apply vbounded_grow; apply app_grow).
  assert (HbL : vbounded s (mview L)) by (apply (lastm_bounded s fs q I)).
  assert (Hbv1 : vbounded s' v1).
  { unfold v1. apply vbounded_vset_q; [apply Hgrow, vbounded_acq; auto|]. unfold s'. rewrite app_len_same. fold ms. lia. }
  assert (Hbmv : vbounded s' mv) by (apply vbounded_join; auto).
  assert (Hle1 : forall l, l <> qloc q -> (rview f l <= v1 l)%nat).
  { intros l Hl. unfold v1. rewrite vset_other by assumption. apply vle_acq. }
  destruct (cas_common s fs k f q w mv s' I Hk eq_refl (wordok_encode _ Hv') Hbmv) as (Hne & Hmsg & Hoth & Hqo).
  { intros j Hj. rewrite Hdec in Hj. apply in_app_or in Hj. fold ms. fold L.
    destruct Hj as [Hj|[<-|[]]]; [left; exact Hj|right; exact Hh]. }
  apply (rinv_update s fs k f); auto.
  - intros i Hii. rewrite (own_q s' q i), (own_q s q i). unfold s'. rewrite lastm_app_same, lastm_app_other. cbn [mval].
    fold ms. fold L. rewrite Hdec, occ_snoc. unfold rholdsb, rholds. cbn [rset rpcf ridx]. rewrite Hpc. cbn [b2n]. lia.
  - split; [exact Hbv1|]. unfold rframe_ok. cbn [rset rpcf]. exact Logic.I.
  - intros q' i Hin. destruct (queue_cases q q') as [-> | ->]; [|apply Hqo; exact Hin].
    unfold s' in Hin. rewrite lastm_app_same in Hin. cbn [mval] in Hin. rewrite Hdec in Hin.
    apply in_app_or in Hin. destruct Hin as [Hin|[<-|[]]].
    + (* an old member keeps what the previous last message carried (the RMW inherits its view) *)
      destruct (r_q _ _ I q i) as [(C1 & C2) Hcs']; [fold ms; fold L; exact Hin|].
      fold ms in C1, C2. fold L in C1, C2.
      split; [|apply cell_state_append; exact Hcs'].
      unfold carries, s'. rewrite lastm_app_same. cbn [mview]. unfold app_msg at 1. rewrite clast_set. split.
      * unfold mv, vjoin. lia.
      * apply clean_app_other. eapply clean_mono; [|exact C2]. unfold mv, vjoin. lia.
    + (* the index just enqueued: the release publishes the thread's knowledge about it *)
      apply knows_q in Hkn. destruct Hkn as [K1 K2].
      split; [|apply cell_state_append; exact Hcs].
      unfold carries, s'. rewrite lastm_app_same. cbn [mview]. unfold app_msg at 1. rewrite clast_set. split.
      * pose proof (Hle1 (LC (ridx f)) (qloc_cell q (ridx f))). unfold mv, vjoin. lia.
      * apply clean_app_other. eapply clean_mono; [|apply (K2 (other q))].
        pose proof (Hle1 (qloc (other q)) (qloc_other q)). unfold mv, vjoin. lia.
Qed.

(** * A cell access by the operation that holds the index: never a race *)

Definition cell_upd (s : rshared) (i : N) (x : option nat) : rshared :=
  {| me := me s; mf := mf s; cval := fun j => if j =? i then x else cval s j;
     clast := fun j => if j =? i then S (clast s i) else clast s j |}.

Lemma msgs_cell_upd s i x q : msgs (cell_upd s i x) q = msgs s q.
Proof. destruct q; reflexivity. Qed.

Lemma clean_cell_upd s i x q j t : clean (cell_upd s i x) q j t <-> clean s q j t.
Proof. unfold clean. rewrite msgs_cell_upd. tauto. Qed.

Lemma vbounded_cell_upd s i x v : vbounded (cell_upd s i x) v <-> vbounded s v.
Proof. unfold vbounded. simpl. tauto. Qed.

Lemma knows_cell_other s i x j v : j <> i -> knows s j v -> knows (cell_upd s i x) j v.
Proof.
  intros Hne (K1 & K2 & K3). unfold knows. cbn [cell_upd clast].
  destruct (N.eqb_spec j i); [contradiction|]. repeat split; auto.
Qed.

Lemma cell_state_other s i x j b : j <> i -> cell_state s j b -> cell_state (cell_upd s i x) j b.
Proof. intros Hne H. unfold cell_state in *. cbn [cell_upd cval]. destruct (N.eqb_spec j i); [contradiction|exact H]. Qed.

Lemma cell_rinv s fs k f x f' :
  RInv s fs -> nth_error fs k = Some f -> rpcf f = RCell ->
  rholds f' = Some (ridx f) -> rpcf f' = REnqLoad -> ridx f' = ridx f -> rkind f' = rkind f ->
  rview f' = vset (rview f) (LC (ridx f)) (S (clast s (ridx f))) ->
  cell_state (cell_upd s (ridx f) x) (ridx f) (cell_full (enq_q (rkind f))) ->
  RInv (cell_upd s (ridx f) x) (upd fs k f').
Proof.
  intros I Hk Hpc Hh' Hpc' Hidx Hkind Hview Hcs'.
  destruct (r_fr _ _ I k f Hk) as [Hbf Fok]. unfold rframe_ok in Fok. rewrite Hpc in Fok. destruct Fok as (Hi & Hkn & Hcs).
  assert (Hh : rholds f = Some (ridx f)) by (unfold rholds; rewrite Hpc; reflexivity).
  set (i := ridx f) in *. set (s' := cell_upd s i x).
  apply (rinv_update s fs k f _ _ I Hk).
  - intro q. unfold s'. rewrite msgs_cell_upd. apply (r_ne _ _ I).
  - intros q t m Hm. unfold s' in *. rewrite msgs_cell_upd in Hm. destruct (r_msg _ _ I _ _ _ Hm). split; auto.
  - intros j Hj. unfold rholdsb. rewrite Hh', Hh. reflexivity.
  - split.
    + rewrite Hview. apply vbounded_cell_upd. apply vbounded_vset_cell. exact Hbf.
    + unfold rframe_ok. rewrite Hpc', Hidx, Hkind. split; auto. split; auto.
      destruct Hkn as (K1 & K2 & K3). unfold knows. rewrite Hview. unfold s'. cbn [cell_upd clast]. rewrite N.eqb_refl.
      rewrite vset_same. split; [lia|]. rewrite !vset_other by discriminate. split; apply clean_cell_upd; auto.
  - intros j g Hjk Hj [Hb Hok]. split; [apply vbounded_cell_upd; exact Hb|].
    destruct (rholds g) as [ig|] eqn:Hhg.
    + assert (Hne : ig <> i).
      { intro Heq. subst ig. assert (Hii : In i idxs) by exact Hi.
        eapply (rholders_distinct s fs j k g f i); eauto. }
      unfold rframe_ok in *. unfold rholds in Hhg.
      destruct (rpcf g); try discriminate; inversion Hhg; subst ig; destruct Hok as (H1 & H2 & H3);
        (split; [exact H1|split; [apply knows_cell_other; auto|apply cell_state_other; auto]]).
    + unfold rframe_ok in *. unfold rholds in Hhg. destruct (rpcf g); try discriminate; auto.
  - intros q j Hin. unfold s' in Hin. rewrite msgs_cell_upd in Hin.
    destruct (r_q _ _ I q j Hin) as [(C1 & C2) Hcq].
    assert (Hj : In j idxs) by (eapply lastm_in_idxs; eauto).
    assert (Hne : j <> i).
    { intro Heq. subst j. eapply (queued_not_held s fs q i k f); eauto. }
    split; [|apply cell_state_other; auto].
    unfold carries, s'. rewrite msgs_cell_upd. cbn [cell_upd clast]. destruct (N.eqb_spec j i); [contradiction|].
    split; auto.
Qed.

(** * The Slot: the channel is used only with its construction in view *)

Lemma slot_view_queues t q : mview (msg_at slot_msgs t) (qloc q) = 0%nat.
Proof.
  unfold slot_msgs, msg_at. rewrite slot_releases.
  destruct t as [|[|t]]; destruct q; simpl; try reflexivity; destruct t; reflexivity.
Qed.

Lemma slot_rinv s fs k f c s' f' :
  RInv s fs -> nth_error fs k = Some f -> rpcf f = RSlot -> rstep s f c = (s', f') -> RInv s' (upd fs k f').
Proof.
  intros I Hk Hpc Hs. unfold rstep in Hs. rewrite Hpc in Hs.
  set (t := pick slot_msgs (rview f LS) c) in *. set (m := msg_at slot_msgs t) in *.
  set (v := vset (acq_join (slot_ord (rkind f)) (rview f) m) LS t) in *.
  destruct (r_fr _ _ I k f Hk) as [Hbf _].
  assert (Hh : rholds f = None) by (unfold rholds; rewrite Hpc; reflexivity).
  assert (Hbv : vbounded s v).
  { destruct Hbf as [B1 B2]. unfold v, vbounded. rewrite !vset_other by discriminate.
    unfold acq_join. rewrite slot_acquires. unfold vjoin, m.
    pose proof (slot_view_queues t QE) as E1. pose proof (slot_view_queues t QF) as E2. cbn [qloc] in E1, E2.
    rewrite E1, E2. simpl. lia. }
  destruct (mval m =? 0) eqn:Em; inversion Hs; subst s' f'; clear Hs.
  - apply (rinv_same s fs k f); auto. unfold rframe_ok. simpl. auto.
  - apply (rinv_same s fs k f); auto. unfold rframe_ok. cbn [rset rpcf rview].
    (* the message read is the pointer: its view contains the construction of the channel *)
    assert (Ht : t = 1%nat).
    { apply N.eqb_neq in Em. unfold m, msg_at, slot_msgs in Em.
      assert (t <= 1)%nat by (unfold t, pick, last_ts; simpl; lia).
      destruct t as [|[|t']]; auto; [simpl in Em; congruence|lia]. }
    unfold v. rewrite vset_other by discriminate. unfold acq_join. rewrite slot_acquires.
    unfold vjoin, m. rewrite Ht. unfold msg_at, slot_msgs. cbn [nth mview]. rewrite slot_releases.
    unfold init_view. rewrite vset_same. lia.
Qed.

(** * One step of any frame, any choice *)

Lemma rstep_rinv s fs k f c s' f' :
  RInv s fs -> nth_error fs k = Some f -> rstep s f c = (s', f') -> RInv s' (upd fs k f').
Proof.
  intros I Hk Hs. destruct (r_fr _ _ I k f Hk) as [Hbf Fok].
  destruct (rpcf f) eqn:Hpc.
  - eapply slot_rinv; eauto.
  - (* RDeqLoad *)
    unfold rstep in Hs. rewrite Hpc in Hs. unfold rframe_ok in Fok. rewrite Hpc in Fok.
    assert (E : Nat.ltb (rview f LI) 1 = false) by (apply Nat.ltb_ge; exact Fok). rewrite E in Hs.
    set (q := deq_q (rkind f)) in *.
    destruct (read_view s f q deq_ord_load (pick (msgs s q) (rview f (qloc q)) c)) as [m v] eqn:Er.
    inversion Hs; subst s' f'; clear Hs.
    destruct (pick_bounds (msgs s q) (rview f (qloc q)) c (r_ne _ _ I q) (view_le_last s fs k f q I Hk)) as [P1 P2].
    eapply deq_read_rinv; eauto.
  - (* RDeqCas *)
    unfold rstep in Hs. rewrite Hpc in Hs. unfold rframe_ok in Fok. rewrite Hpc in Fok.
    set (q := deq_q (rkind f)) in *.
    destruct (dequeue_word (rcur f)) as [[i w']|] eqn:Ed; [|contradiction].
    destruct c as [|c'].
    + destruct (mval (lastm (msgs s q)) =? rcur f) eqn:Em.
      * apply N.eqb_eq in Em. destruct (cas_ok s f q deq_ord_cas_ok w') as [s1 v1] eqn:Ec.
        inversion Hs; subst s' f'; clear Hs. eapply deq_ok_rinv; eauto.
      * destruct (read_view s f q deq_ord_cas_fail (last_ts (msgs s q))) as [m v] eqn:Er.
        inversion Hs; subst s' f'; clear Hs.
        exact (deq_read_rinv s fs k f _ _ m v I Hk (or_intror Hpc) (view_le_last s fs k f q I Hk) (last_ts_lt _ (r_ne _ _ I q)) Er).
    + destruct (read_view s f q deq_ord_cas_fail (pick (msgs s q) (rview f (qloc q)) c')) as [m v] eqn:Er.
      inversion Hs; subst s' f'; clear Hs.
      destruct (pick_bounds (msgs s q) (rview f (qloc q)) c' (r_ne _ _ I q) (view_le_last s fs k f q I Hk)) as [P1 P2].
      eapply deq_read_rinv; eauto.
  - (* RCell *)
    unfold rstep in Hs. rewrite Hpc in Hs. unfold rframe_ok in Fok. rewrite Hpc in Fok. destruct Fok as (Hi & Hkn & Hcs).
    rewrite (in_range_idxs _ Hi) in Hs. cbn [negb] in Hs.
    assert (E : Nat.ltb (rview f (LC (ridx f))) (clast s (ridx f)) = false) by (apply Nat.ltb_ge; apply Hkn).
    rewrite E in Hs.
    destruct (rkind f) eqn:K.
    + inversion Hs; subst s' f'; clear Hs.
      change (RInv (cell_upd s (ridx f) (Some v)) (upd fs k (rset f REnqLoad (rcur f) (vset (rview f) (LC (ridx f)) (S (clast s (ridx f))))))).
      apply (cell_rinv s fs k f (Some v) _ I Hk Hpc); try reflexivity.
      rewrite K. unfold cell_state. cbn [enq_q cell_full cell_upd cval]. rewrite N.eqb_refl. discriminate.
    + cbn [deq_q cell_full] in Hcs. unfold cell_state in Hcs.
      destruct (cval s (ridx f)) as [x|] eqn:Ev; [|contradiction].
      inversion Hs; subst s' f'; clear Hs.
      change (RInv (cell_upd s (ridx f) None)
                (upd fs k {| rkind := KRecv; rpcf := REnqLoad; rcur := rcur f; ridx := ridx f; rgot := Some x;
                             rview := vset (rview f) (LC (ridx f)) (S (clast s (ridx f))) |})).
      apply (cell_rinv s fs k f None _ I Hk Hpc); try reflexivity; [symmetry; exact K|].
      rewrite K. unfold cell_state. cbn [enq_q cell_full cell_upd cval]. rewrite N.eqb_refl. reflexivity.
  - (* REnqLoad *)
    unfold rstep in Hs. rewrite Hpc in Hs. set (q := enq_q (rkind f)) in *.
    destruct (read_view s f q enq_ord_load (pick (msgs s q) (rview f (qloc q)) c)) as [m v] eqn:Er.
    inversion Hs; subst s' f'; clear Hs.
    destruct (pick_bounds (msgs s q) (rview f (qloc q)) c (r_ne _ _ I q) (view_le_last s fs k f q I Hk)) as [P1 P2].
    eapply enq_read_rinv; eauto.
  - (* REnqCas *)
    unfold rstep in Hs. rewrite Hpc in Hs. set (q := enq_q (rkind f)) in *.
    destruct (enqueue_word (rcur f) (ridx f)) as [w'|] eqn:Ee.
    2:{ inversion Hs; subst. rewrite upd_same by assumption. exact I. }
    destruct c as [|c'].
    + destruct (mval (lastm (msgs s q)) =? rcur f) eqn:Em.
      * apply N.eqb_eq in Em. destruct (cas_ok s f q enq_ord_cas_ok w') as [s1 v1] eqn:Ec.
        inversion Hs; subst s' f'; clear Hs. eapply enq_ok_rinv; eauto.
      * destruct (read_view s f q enq_ord_cas_fail (last_ts (msgs s q))) as [m v] eqn:Er.
        inversion Hs; subst s' f'; clear Hs.
        exact (enq_read_rinv s fs k f _ _ m v I Hk (or_intror Hpc) (view_le_last s fs k f q I Hk) (last_ts_lt _ (r_ne _ _ I q)) Er).
    + destruct (read_view s f q enq_ord_cas_fail (pick (msgs s q) (rview f (qloc q)) c')) as [m v] eqn:Er.
      inversion Hs; subst s' f'; clear Hs.
      destruct (pick_bounds (msgs s q) (rview f (qloc q)) c' (r_ne _ _ I q) (view_le_last s fs k f q I Hk)) as [P1 P2].
      eapply enq_read_rinv; eauto.
  - unfold rstep in Hs. rewrite Hpc in Hs. inversion Hs; subst. rewrite upd_same by assumption. exact I.
  - unfold rstep in Hs. rewrite Hpc in Hs. inversion Hs; subst. rewrite upd_same by assumption. exact I.
  - unfold rstep in Hs. rewrite Hpc in Hs. inversion Hs; subst. rewrite upd_same by assumption. exact I.
Qed.

(** * Initial state, spawning, runs *)

Lemma rinit_words : me rinit = [ {| mval := encode idxs; mview := vbot |} ] /\ mf rinit = [ {| mval := encode []; mview := vbot |} ].
Proof. unfold rinit. rewrite new_words_spec. split; reflexivity. Qed.

Lemma clean_rinit_other q i t : In i (decode (mval (lastm (msgs rinit q)))) -> clean rinit (other q) i t.
Proof.
  destruct rinit_words as [He Hf]. intros Hin t' m Ht Hm. destruct q; cbn [msgs other] in *.
  - rewrite Hf in Hm. destruct t' as [|t']; [|destruct t'; discriminate]. cbn [nth_error] in Hm.
    inversion Hm; subst. cbn [mval]. change (decode (encode [])) with (@nil N). tauto.
  - rewrite Hf in Hin. unfold lastm in Hin. cbn [last mval] in Hin. change (decode (encode [])) with (@nil N) in Hin. contradiction.
Qed.

Lemma rinv_init : RInv rinit [].
Proof.
  destruct rinit_words as [He Hf].
  assert (Hde : decode (encode idxs) = idxs) by (apply decode_encode, valid_idxs).
  assert (Hv : vbounded rinit vbot) by (unfold vbounded; rewrite He, Hf; unfold vbot; cbn [length]; lia).
  constructor.
  - intros []; cbn [msgs]; [rewrite He|rewrite Hf]; discriminate.
  - intros q t m Hm.
    assert (One : forall (x : msg) t m, nth_error [x] t = Some m -> m = x).
    { intros x [|[|t']] m' H; simpl in H; try discriminate. congruence. }
    destruct q; cbn [msgs] in Hm; [rewrite He in Hm|rewrite Hf in Hm]; apply One in Hm; subst m; cbn [mval mview]; split; auto.
    + apply wordok_encode, valid_idxs.
    + apply wordok_encode, valid_nil.
  - intros i Hi. rewrite He, Hf. unfold lastm. cbn [last mval]. rewrite Hde. change (decode (encode [])) with (@nil N).
    rewrite idxs_eq in *. cbn [In] in Hi. destruct Hi as [<-|[<-|[<-|[<-|[<-|[]]]]]]; reflexivity.
  - intros [|k] f H; discriminate.
  - intros q i Hin. split.
    + unfold carries. split; [unfold rinit; destruct new_words as [[? ?]|]; cbn [clast]; lia|]. apply clean_rinit_other. exact Hin.
    + destruct q; unfold cell_state; cbn [cell_full].
      * unfold rinit. destruct new_words as [[? ?]|]; reflexivity.
      * cbn [msgs] in Hin. rewrite Hf in Hin. unfold lastm in Hin. cbn [last mval] in Hin.
        change (decode (encode [])) with (@nil N) in Hin. contradiction.
Qed.

Lemma rinv_spawn s fs kd v : RInv s fs -> vbounded s v -> RInv s (fs ++ [mk_rframe kd v]).
Proof.
  intros I Hv. constructor; try apply I.
  - intros i Hi. rewrite cnt_app. pose proof (r_own _ _ I i Hi). unfold cnt at 2. simpl. lia.
  - intros j f Hj. apply nth_app_cases in Hj. destruct Hj as [Hj|[_ ->]]; [eapply r_fr; eauto|].
    split; [exact Hv|exact Logic.I].
Qed.

Lemma vbounded_bot s fs : RInv s fs -> vbounded s vbot.
Proof.
  intro I. pose proof (r_ne _ _ I QE). pose proof (r_ne _ _ I QF). simpl in *.
  unfold vbounded, vbot. destruct (me s); [contradiction|]. destruct (mf s); [contradiction|]. simpl. lia.
Qed.

Lemma rinv_wstep w l : RInv (fst w) (snd w) -> RInv (fst (rwstep w l)) (snd (rwstep w l)).
Proof.
  destruct w as [s fs]. simpl. intros I. destruct l as [k c|kd [p|]]; simpl.
  - destruct (nth_error fs k) as [f|] eqn:Hn; [|exact I].
    destruct (rstep s f c) as [s1 f1] eqn:Hf. simpl. eapply rstep_rinv; eauto.
  - destruct (nth_error fs p) as [g|] eqn:Hp; simpl.
    + apply rinv_spawn; auto. apply (r_fr _ _ I p g Hp).
    + apply rinv_spawn; auto. eapply vbounded_bot; eauto.
  - apply rinv_spawn; auto. eapply vbounded_bot; eauto.
Qed.

Lemma rinv_run ls : forall w, RInv (fst w) (snd w) -> RInv (fst (rrun w ls)) (snd (rrun w ls)).
Proof.
  induction ls as [|l r IH]; intros w I; simpl; auto. apply IH. apply rinv_wstep. exact I.
Qed.

Theorem ra_reachable_inv ls : RInv (fst (rrun rinit_world ls)) (snd (rrun rinit_world ls)).
Proof. apply rinv_run. apply rinv_init. Qed.

(** * C07 race freedom and C08 no panic, under the view semantics *)

Theorem ra_race_free ls k f why :
  nth_error (snd (rrun rinit_world ls)) k = Some f -> rpcf f <> RRace why.
Proof.
  intros Hk Hp. destruct (r_fr _ _ (ra_reachable_inv ls) k f Hk) as [_ H]. unfold rframe_ok in H. rewrite Hp in H. exact H.
Qed.

Theorem ra_no_panic ls k f why :
  nth_error (snd (rrun rinit_world ls)) k = Some f -> rpcf f <> RPanic why.
Proof.
  intros Hk Hp. destruct (r_fr _ _ (ra_reachable_inv ls) k f Hk) as [_ H]. unfold rframe_ok in H. rewrite Hp in H. exact H.
Qed.
