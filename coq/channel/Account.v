(** C07 (value accounting): at every moment every value passed to `send` is in exactly one
    place - still in the hands of its send (not yet written), in a cell, taken by a recv, or
    discarded by a send that saw `empty` empty.  Counting is per value, with multiplicity, so the
    statement is a multiset equation; no value is duplicated or lost. *)
From Coq Require Import List Arith NArith ZArith Bool Lia.
From SH Require Import base.Pool gen.Extracted_channel channel.Defs channel.Word channel.Model channel.Inv channel.Steps.
Import ListNotations.
Local Open Scope N_scope.

Definition is_send (x : nat) (f : frame) : bool :=
  match fkind f with KSend v => Nat.eqb v x | KRecv => false end.
Definition in_hand (x : nat) (f : frame) : bool :=
  is_send x f && match fpc f with PDeqLoad | PDeqCas | PCell => true | _ => false end.
Definition took (x : nat) (f : frame) : bool :=
  match fkind f, got f with KRecv, Some v => Nat.eqb v x | _, _ => false end.
Definition cell_is (x : nat) (c : option nat) : bool :=
  match c with Some v => Nat.eqb v x | None => false end.
Definition cellcnt (x : nat) (s : shared) : nat := cnt (fun i => cell_is x (cells s i)) idxs.
Definition occn (x : nat) (l : list nat) : nat := count_occ Nat.eq_dec l x.

Record AInv (s : shared) (fs : list frame) : Prop := {
  a_count : forall x, (cnt (is_send x) fs = cnt (in_hand x) fs + cellcnt x s + cnt (took x) fs + occn x (dropped s))%nat;
  a_got : forall k f, nth_error fs k = Some f -> fkind f = KRecv ->
            fpc f = PDeqLoad \/ fpc f = PDeqCas \/ fpc f = PCell -> got f = None
}.

Lemma occn_snoc x l v : occn x (l ++ [v]) = (occn x l + b2n (Nat.eqb v x))%nat.
Proof.
  unfold occn. rewrite count_occ_app. simpl. destruct (Nat.eq_dec v x) as [->|Hne].
  - rewrite Nat.eqb_refl. reflexivity.
  - apply Nat.eqb_neq in Hne. rewrite Hne. reflexivity.
Qed.

Lemma cellcnt_set x s i y : In i idxs ->
  (cellcnt x (set_cell s i y) + b2n (cell_is x (cells s i)) = cellcnt x s + b2n (cell_is x y))%nat.
Proof.
  unfold cellcnt. rewrite idxs_eq. intro Hi. rewrite !cnt_cons. unfold cnt. cbn [filter length set_cell cells].
  simpl in Hi. destruct Hi as [<-|[<-|[<-|[<-|[<-|[]]]]]]; cbn [N.eqb Pos.eqb]; lia.
Qed.

Lemma cellcnt_same x s s' : (forall i, cells s' i = cells s i) -> cellcnt x s' = cellcnt x s.
Proof.
  intro H. unfold cellcnt, cnt. f_equal. apply filter_ext. intro i. rewrite H. reflexivity.
Qed.

(** A step that changes nothing the accounting looks at. *)
Lemma ainv_same s fs k f s' f' :
  AInv s fs -> nth_error fs k = Some f ->
  (forall i, cells s' i = cells s i) -> dropped s' = dropped s ->
  (forall x, is_send x f' = is_send x f /\ in_hand x f' = in_hand x f /\ took x f' = took x f) ->
  (fkind f' = KRecv -> fpc f' = PDeqLoad \/ fpc f' = PDeqCas \/ fpc f' = PCell -> got f' = None) ->
  AInv s' (upd fs k f').
Proof.
  intros A Hk Hc Hd Hx Hg. constructor.
  - intro x. destruct (Hx x) as (E1 & E2 & E3).
    pose proof (cnt_upd (is_send x) fs k f f' Hk). pose proof (cnt_upd (in_hand x) fs k f f' Hk).
    pose proof (cnt_upd (took x) fs k f f' Hk). pose proof (a_count _ _ A x).
    rewrite (cellcnt_same x s s' Hc), Hd, E1, E2, E3 in *. lia.
  - intros j g Hj. apply nth_upd_cases in Hj. destruct Hj as [(-> & _ & ->)|[_ Hj]]; auto. eapply a_got; eauto.
Qed.

Lemma ainv_step s fs k f c s' f' es :
  Inv s fs -> AInv s fs -> nth_error fs k = Some f -> fstep s f c = (s', f', es) -> AInv s' (upd fs k f').
Proof.
  intros I A Hk Hs.
  pose proof (fstep_cases _ _ _ _ _ _ _ _ I Hk Hs) as St.
  pose proof (a_got _ _ A k f Hk) as Hgot.
  destruct St.
  - rewrite upd_same by assumption. exact A.
  - apply (ainv_same s fs k f _ _ A Hk); [intro; reflexivity|reflexivity| |].
    + intro x. unfold is_send, in_hand, took, is_send. cbn [set_cur fkind fpc got].
      destruct H as [-> | ->]; auto.
    + cbn [set_cur fkind fpc got]. intros K _. apply Hgot; auto. tauto.
  - (* send discarded *)
    constructor.
    + intro x. pose proof (cnt_upd (is_send x) fs k f (set_cur f (qe s) PDone) Hk).
      pose proof (cnt_upd (in_hand x) fs k f (set_cur f (qe s) PDone) Hk).
      pose proof (cnt_upd (took x) fs k f (set_cur f (qe s) PDone) Hk). pose proof (a_count _ _ A x).
      cbn [add_dropped dropped]. rewrite occn_snoc.
      rewrite (cellcnt_same x s (add_dropped s v)) by reflexivity.
      unfold in_hand, took, is_send in *. cbn [set_cur fkind fpc got] in *. rewrite H in *.
      destruct H0 as [E|E]; rewrite E in *; rewrite ?andb_true_r, ?andb_false_r in *; cbn [b2n] in *; lia.
    + intros j g Hj. apply nth_upd_cases in Hj. destruct Hj as [(-> & _ & ->)|[_ Hj]]; [|eapply a_got; eauto].
      cbn [set_cur fkind]. congruence.
  - apply (ainv_same s fs k f _ _ A Hk); [intro; reflexivity|reflexivity| |].
    + intro x. unfold is_send, in_hand, took, is_send. cbn [set_cur fkind fpc got]. rewrite H.
      rewrite !andb_false_l. auto.
    + cbn [set_cur fkind fpc got]. intros _ [E|[E|E]]; discriminate.
  - apply (ainv_same s fs k f _ _ A Hk); [intro; reflexivity|reflexivity| |].
    + intro x. unfold is_send, in_hand, took, is_send. cbn [fkind fpc got]. rewrite H, H0. auto.
    + cbn [fkind]. discriminate.
  - apply (ainv_same s fs k f _ _ A Hk); [intro; reflexivity|reflexivity| |].
    + intro x. unfold is_send, in_hand, took, is_send. cbn [fkind fpc got]. rewrite H, H0. auto.
    + cbn [fkind fpc got]. intros _ _. apply Hgot; auto.
  - (* send writes *)
    constructor.
    + intro x. pose proof (cnt_upd (is_send x) fs k f (set_pc f PEnqLoad) Hk).
      pose proof (cnt_upd (in_hand x) fs k f (set_pc f PEnqLoad) Hk).
      pose proof (cnt_upd (took x) fs k f (set_pc f PEnqLoad) Hk). pose proof (a_count _ _ A x).
      pose proof (cellcnt_set x s (idx f) (Some v) H1) as Hc. rewrite H2 in Hc.
      cbn [set_cell dropped]. cbn [cell_is] in Hc.
      unfold in_hand, took, is_send in *. cbn [set_pc fkind fpc got] in *. rewrite H, H0 in *.
      rewrite ?andb_true_r, ?andb_false_r in *; cbn [b2n] in *. lia.
    + intros j g Hj. apply nth_upd_cases in Hj. destruct Hj as [(-> & _ & ->)|[_ Hj]]; [|eapply a_got; eauto].
      cbn [set_pc fkind]. congruence.
  - (* recv takes *)
    constructor.
    + intro y. set (f' := {| fkind := KRecv; fpc := PEnqLoad; cur := cur f; idx := idx f; got := Some x; tick := tick f |}).
      pose proof (cnt_upd (is_send y) fs k f f' Hk). pose proof (cnt_upd (in_hand y) fs k f f' Hk).
      pose proof (cnt_upd (took y) fs k f f' Hk). pose proof (a_count _ _ A y).
      pose proof (cellcnt_set y s (idx f) None H1) as Hc. rewrite H2 in Hc.
      cbn [set_cell dropped]. cbn [cell_is] in Hc.
      assert (Hg : got f = None) by (apply Hgot; auto).
      unfold in_hand, took, is_send in *. subst f'. cbn [fkind fpc got] in *. rewrite H, Hg in *.
      rewrite ?andb_false_l in *; cbn [b2n] in *. lia.
    + intros j g Hj. apply nth_upd_cases in Hj. destruct Hj as [(-> & _ & ->)|[_ Hj]]; [|eapply a_got; eauto].
      cbn [fkind fpc]. intros _ [E|[E|E]]; discriminate.
  - apply (ainv_same s fs k f _ _ A Hk); [intro; reflexivity|reflexivity| |].
    + intro x. unfold is_send, in_hand, took, is_send. cbn [set_cur fkind fpc got].
      destruct H as [-> | ->]; auto.
    + cbn [set_cur fkind fpc got]. intros _ [E|[E|E]]; discriminate.
  - apply (ainv_same s fs k f _ _ A Hk); [intro; reflexivity|reflexivity| |].
    + intro x. unfold is_send, in_hand, took, is_send. cbn [fkind fpc got]. rewrite H, H0. auto.
    + cbn [fkind]. discriminate.
  - apply (ainv_same s fs k f _ _ A Hk); [intro; reflexivity|reflexivity| |].
    + intro x. unfold is_send, in_hand, took, is_send. cbn [set_pc fkind fpc got]. rewrite H, H0. auto.
    + cbn [set_pc fkind fpc got]. intros _ [E|[E|E]]; discriminate.
Qed.
