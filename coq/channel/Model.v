(** Executable SC step model of the 5-slot channel, src/low_level/channel.rs (DESIGN 3.1, 5.6-5.8).

    A world is the shared channel state plus a flat pool of activities (frames), each one call of
    `send(v)` or `recv()`.  Any frame may take a step at any time, so a frame parked between its
    two queue operations while another one runs to completion is just a schedule - this covers a
    send running in a signal handler that interrupted a send/recv on its own thread.

    One step of a frame = one operation the verification shim reports (atomic load, weak
    compare-exchange, the scheduling point in front of the unsafe cell access); the pure
    computations between them (`current & MASK`, `find`, `set`, ...) are the TRANSLATED
    functions of gen/Extracted_channel.v via channel/Defs.v.  [choice] = 1 makes a weak CAS fail
    spuriously (it then returns the current value, as the shim does).

    Ghost state (not in the code): [g_in] the (index, value) pairs in the order of the
    successful enqueue(full) CASes, [g_out] the indices in the order of the successful
    dequeue(full) CASes, [dropped] the values `send` discarded because `empty` was seen empty,
    [clobbered] values overwritten by the assignment in `send`; per frame [tick] = the serial
    number of its effect in g_in (send) / g_out (recv).  Payload values are naturals.

    This is the memory model "SC interleaving"; the release/acquire + relaxed view semantics is
    channel/ModelRA.v.  No proofs in this file. *)
From Coq Require Import List NArith ZArith Bool.
From SH Require Import base.Pool gen.Extracted_channel channel.Defs.
Import ListNotations.
Local Open Scope N_scope.

Inductive kind := KSend (v : nat) | KRecv.
Inductive queue := QE | QF.

(** Panic reasons: 1 "No empty slot available", 2 "Full slot with nothing in it",
    3 storage index out of range. *)
Inductive pc := PDeqLoad | PDeqCas | PCell | PEnqLoad | PEnqCas | PDone | PPanic (why : nat).

Record frame := {
  fkind : kind; fpc : pc;
  cur : N;                 (* `current` of the running CAS loop *)
  idx : N;                 (* the slot index obtained from dequeue *)
  got : option nat;        (* recv: the value taken *)
  tick : option nat        (* ghost *)
}.

Definition mk_frame (k : kind) : frame :=
  {| fkind := k; fpc := PDeqLoad; cur := 0; idx := 0; got := None; tick := None |}.

Record shared := {
  qe : N; qf : N;                     (* the AtomicU16 words `empty`, `full` *)
  cells : N -> option nat;            (* storage[i-1], keyed by slot index i *)
  g_in : list (N * nat); g_out : list N; dropped : list nat; clobbered : list nat
}.

Definition in_range (i : N) : bool := (1 <=? i) && (i <=? SLOTS).

Definition init_shared : shared :=
  let '(e, f) := match new_words with Some p => p | None => (0, 0) end in
  {| qe := e; qf := f; cells := fun _ => None; g_in := []; g_out := []; dropped := []; clobbered := [] |}.

Definition deq_q (k : kind) : queue := match k with KSend _ => QE | KRecv => QF end.
Definition enq_q (k : kind) : queue := match k with KSend _ => QF | KRecv => QE end.
Definition qget (s : shared) (q : queue) : N := match q with QE => qe s | QF => qf s end.
Definition qset (s : shared) (q : queue) (w : N) : shared :=
  match q with
  | QE => {| qe := w; qf := qf s; cells := cells s; g_in := g_in s; g_out := g_out s; dropped := dropped s; clobbered := clobbered s |}
  | QF => {| qe := qe s; qf := w; cells := cells s; g_in := g_in s; g_out := g_out s; dropped := dropped s; clobbered := clobbered s |}
  end.
Definition set_cell (s : shared) (i : N) (x : option nat) : shared :=
  {| qe := qe s; qf := qf s; cells := fun j => if j =? i then x else cells s j;
     g_in := g_in s; g_out := g_out s; dropped := dropped s; clobbered := clobbered s |}.

(** Events (for the lock-step correspondence): [op; loc; arg; arg2; res; ok; ord; ord_fail] with
    the numbering of signal_hook_registry::verif::Op (0 load, 5 cas, 13 cell write, 14 cell
    take, 23 return), locations 1 = empty, 2 = full, 3 = the channel (cell access, arg = slot
    index), orderings as in the shim, 255 = not applicable. *)
Definition event := list Z.
Definition zN (n : N) : Z := Z.of_N n.
Definition qloc (q : queue) : Z := match q with QE => 1%Z | QF => 2%Z end.
Definition ev_load (q : queue) (ord res : N) : event := [0; qloc q; 0; 0; zN res; 1; zN ord; 255]%Z.
Definition ev_cas (q : queue) (c n res : N) (ok : bool) (o1 o2 : N) : event :=
  [5%Z; qloc q; zN c; zN n; zN res; if ok then 1%Z else 0%Z; zN o1; zN o2].
Definition ev_cell (op : Z) (i : N) : event := [op; 3; zN i; 0; 0; 1; 255; 255]%Z.
Definition ev_ret (r : Z) : event := [23; 0; 0; 0; r; 1; 255; 255]%Z.
Definition ret_code (f_got : option nat) : Z := match f_got with Some v => Z.of_nat (S v) | None => 0%Z end.

Definition set_pc (f : frame) (p : pc) : frame :=
  {| fkind := fkind f; fpc := p; cur := cur f; idx := idx f; got := got f; tick := tick f |}.
Definition set_cur (f : frame) (c : N) (p : pc) : frame :=
  {| fkind := fkind f; fpc := p; cur := c; idx := idx f; got := got f; tick := tick f |}.

(** dequeue: the decision taken on a value [m] just read (by the load or by a failed CAS). *)
Definition after_deq_read (s : shared) (f : frame) (m : N) : shared * frame * list event :=
  match dequeue_word m with
  | Some _ => (s, set_cur f m PDeqCas, [])
  | None =>
      match fkind f with
      | KSend v =>   (* send: the value is dropped, nothing else happens *)
          ({| qe := qe s; qf := qf s; cells := cells s; g_in := g_in s; g_out := g_out s;
              dropped := dropped s ++ [v]; clobbered := clobbered s |}, set_cur f m PDone, [ev_ret 0])
      | KRecv => (s, set_cur f m PDone, [ev_ret 0])
      end
  end.

(** enqueue: the decision taken on a value just read. *)
Definition after_enq_read (s : shared) (f : frame) (m : N) : shared * frame * list event :=
  match enq_find m with
  | Some _ => (s, set_cur f m PEnqCas, [])
  | None => (s, set_cur f m (PPanic 1), [])
  end.

Definition fstep (s : shared) (f : frame) (c : nat) : shared * frame * list event :=
  match fpc f with
  | PDeqLoad =>
      let q := deq_q (fkind f) in
      let m := qget s q in
      let '(s', f', es) := after_deq_read s f m in
      (s', f', ev_load q deq_ord_load m :: es)
  | PDeqCas =>
      let q := deq_q (fkind f) in
      let m := qget s q in
      match dequeue_word (cur f) with
      | None => (s, f, [])
      | Some (i, w') =>
          if Nat.eqb c 1 || negb (m =? cur f)
          then let '(s', f', es) := after_deq_read s f m in
               (s', f', ev_cas q (cur f) w' m false deq_ord_cas_ok deq_ord_cas_fail :: es)
          else
            let s1 := qset s q w' in
            let e := ev_cas q (cur f) w' m true deq_ord_cas_ok deq_ord_cas_fail in
            match fkind f with
            | KSend _ =>
                (s1, {| fkind := fkind f; fpc := PCell; cur := cur f; idx := i; got := got f; tick := tick f |}, [e])
            | KRecv =>
                ({| qe := qe s1; qf := qf s1; cells := cells s1; g_in := g_in s1; g_out := g_out s1 ++ [i];
                    dropped := dropped s1; clobbered := clobbered s1 |},
                 {| fkind := fkind f; fpc := PCell; cur := cur f; idx := i; got := got f; tick := Some (length (g_out s)) |}, [e])
            end
      end
  | PCell =>
      let i := idx f in
      match fkind f with
      | KSend v =>
          if in_range i
          then
            let s1 := set_cell s i (Some v) in
            let s2 := match cells s i with
                      | Some old => {| qe := qe s1; qf := qf s1; cells := cells s1; g_in := g_in s1; g_out := g_out s1;
                                       dropped := dropped s1; clobbered := clobbered s1 ++ [old] |}
                      | None => s1
                      end in
            (s2, set_pc f PEnqLoad, [ev_cell 13 i])
          else (s, set_pc f (PPanic 3), [ev_cell 13 i])
      | KRecv =>
          if in_range i
          then match cells s i with
               | Some x => (set_cell s i None,
                            {| fkind := fkind f; fpc := PEnqLoad; cur := cur f; idx := i; got := Some x; tick := tick f |},
                            [ev_cell 14 i])
               | None => (s, set_pc f (PPanic 2), [ev_cell 14 i])
               end
          else (s, set_pc f (PPanic 3), [ev_cell 14 i])
      end
  | PEnqLoad =>
      let q := enq_q (fkind f) in
      let m := qget s q in
      let '(s', f', es) := after_enq_read s f m in
      (s', f', ev_load q enq_ord_load m :: es)
  | PEnqCas =>
      let q := enq_q (fkind f) in
      let m := qget s q in
      match enqueue_word (cur f) (idx f) with
      | None => (s, f, [])
      | Some w' =>
          if Nat.eqb c 1 || negb (m =? cur f)
          then let '(s', f', es) := after_enq_read s f m in
               (s', f', ev_cas q (cur f) w' m false enq_ord_cas_ok enq_ord_cas_fail :: es)
          else
            let s1 := qset s q w' in
            let e := ev_cas q (cur f) w' m true enq_ord_cas_ok enq_ord_cas_fail in
            match fkind f with
            | KSend v =>
                ({| qe := qe s1; qf := qf s1; cells := cells s1; g_in := g_in s1 ++ [(idx f, v)]; g_out := g_out s1;
                    dropped := dropped s1; clobbered := clobbered s1 |},
                 {| fkind := fkind f; fpc := PDone; cur := cur f; idx := idx f; got := got f; tick := Some (length (g_in s)) |},
                 [e; ev_ret 0])
            | KRecv => (s1, set_pc f PDone, [e; ev_ret (ret_code (got f))])
            end
      end
  | PDone => (s, f, [])
  | PPanic _ => (s, f, [])
  end.

(** Flat pool. *)
Inductive label := LStep (k : nat) (c : nat) | LSpawn (k : kind).
Definition world := (shared * list frame)%type.

Definition wstep (w : world) (l : label) : world * list (nat * event) :=
  let '(s, fs) := w in
  match l with
  | LSpawn k => ((s, fs ++ [mk_frame k]), [])
  | LStep k c =>
      match nth_error fs k with
      | None => (w, [])
      | Some f => let '(s', f', es) := fstep s f c in ((s', upd fs k f'), map (fun e => (k, e)) es)
      end
  end.

Fixpoint run (w : world) (ls : list label) : world * list (nat * event) :=
  match ls with
  | [] => (w, [])
  | l :: r => let '(w1, e1) := wstep w l in let '(w2, e2) := run w1 r in (w2, e1 ++ e2)
  end.

Definition init_world : world := (init_shared, []).

Definition is_done (f : frame) : bool := match fpc f with PDone => true | _ => false end.
Definition is_panic (f : frame) : bool := match fpc f with PPanic _ => true | _ => false end.
