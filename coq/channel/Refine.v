(** The SC model is the "read the latest message" fragment of the view semantics: every run
    of channel/Model.v (the model that is validated in lock-step against the real code) is
    matched, step by step, by a run of channel/ModelRA.v in which every load and every failed
    CAS reads the last message.  So the lock-step validation of the SC model also validates
    the control structure of the view model (DESIGN 4.2, last paragraph), and every world the
    real code was observed in corresponds to a world covered by the view-semantics theorems. *)
From Coq Require Import List Arith NArith ZArith Bool Lia.
From SH Require Import base.Pool gen.Extracted_channel channel.Defs channel.Word channel.Model channel.Inv
  channel.ModelRA channel.InvRA.
Import ListNotations.
Local Open Scope N_scope.

Definition pc_rel (p : pc) (r : rpc) : Prop :=
  match p, r with
  | PDeqLoad, RDeqLoad | PDeqCas, RDeqCas | PCell, RCell | PEnqLoad, REnqLoad | PEnqCas, REnqCas | PDone, RDone => True
  | PPanic a, RPanic b => a = b
  | _, _ => False
  end.

Definition frame_rel (f : frame) (r : rframe) : Prop :=
  fkind f = rkind r /\ pc_rel (fpc f) (rpcf r) /\ cur f = rcur r /\ idx f = ridx r /\ got f = rgot r.

Definition state_rel (s : shared) (rs : rshared) : Prop :=
  (forall q, qget s q = mval (lastm (msgs rs q))) /\ (forall i, cells s i = cval rs i).

Definition world_rel (w : world) (rw : rworld) : Prop :=
  state_rel (fst w) (fst rw) /\ Forall2 frame_rel (snd w) (snd rw).

Lemma forall2_nth {A B} (R : A -> B -> Prop) l l' k :
  Forall2 R l l' ->
  match nth_error l k, nth_error l' k with
  | Some a, Some b => R a b
  | None, None => True
  | _, _ => False
  end.
Proof.
  intro H. revert k. induction H; intros [|k]; simpl; auto. apply IHForall2.
Qed.

Lemma forall2_upd {A B} (R : A -> B -> Prop) l l' k a b :
  Forall2 R l l' -> R a b -> Forall2 R (upd l k a) (upd l' k b).
Proof.
  intro H. revert k. induction H; intros [|k] Hab; simpl; constructor; auto.
Qed.

Lemma forall2_snoc {A B} (R : A -> B -> Prop) l l' a b :
  Forall2 R l l' -> R a b -> Forall2 R (l ++ [a]) (l' ++ [b]).
Proof. intros H Hab. apply Forall2_app; auto. Qed.

Lemma msg_at_last ms : ms <> [] -> msg_at ms (last_ts ms) = lastm ms.
Proof.
  intro H. pose proof (lastm_nth ms H) as E. unfold msg_at. apply nth_error_nth with (d := dummy) in E. exact E.
Qed.

Lemma pick_far ms v : pick ms v (length ms) = last_ts ms.
Proof. unfold pick, last_ts. lia. Qed.

Lemma read_last rs r q ord : msgs rs q <> [] ->
  fst (read_view rs r q ord (last_ts (msgs rs q))) = mval (lastm (msgs rs q)).
Proof. intro H. unfold read_view. simpl. rewrite (msg_at_last _ H). reflexivity. Qed.

(** the two read decisions agree *)
Lemma after_deq_rel s f r m v s' f' es :
  fkind f = rkind r -> idx f = ridx r -> got f = rgot r ->
  after_deq_read s f m = (s', f', es) ->
  frame_rel f' (after_deq r m v) /\ qe s' = qe s /\ qf s' = qf s /\ cells s' = cells s.
Proof.
  intros K X G H. unfold after_deq_read in H. unfold after_deq. destruct (dequeue_word m).
  - inversion H; subst. repeat split; simpl; auto.
  - destruct (fkind f) eqn:Kf; inversion H; subst; repeat split; simpl; auto; congruence.
Qed.

Lemma after_enq_rel s f r m v s' f' es :
  fkind f = rkind r -> idx f = ridx r -> got f = rgot r ->
  after_enq_read s f m = (s', f', es) ->
  frame_rel f' (after_enq r m v) /\ s' = s.
Proof.
  intros K X G H. unfold after_enq_read in H. unfold after_enq. destruct (enq_find m); inversion H; subst; repeat split; simpl; auto.
Qed.

Lemma state_rel_same s s' rs :
  state_rel s rs -> qe s' = qe s -> qf s' = qf s -> cells s' = cells s -> state_rel s' rs.
Proof.
  intros [Hq Hc] He Hf Hcl. split.
  - intro q. rewrite <- Hq. destruct q; simpl; congruence.
  - intro i. rewrite Hcl. apply Hc.
Qed.

(** One SC step of frame k is matched by one RA step of frame k with a suitable choice. *)
Lemma step_refines s fs rs rfs k c s' f' es f :
  world_rel (s, fs) (rs, rfs) -> RInv rs rfs ->
  nth_error fs k = Some f -> fstep s f c = (s', f', es) ->
  exists c', world_rel (s', upd fs k f') (rwstep (rs, rfs) (RStep k c')).
Proof.
  intros [[Hq Hcl] Hfr] I Hk Hs. simpl in Hq, Hcl, Hfr.
  pose proof (forall2_nth _ _ _ k Hfr) as Hn. rewrite Hk in Hn.
  destruct (nth_error rfs k) as [r|] eqn:Hrk; [|contradiction].
  destruct Hn as (K & P & C & X & G).
  destruct (r_fr _ _ I k r Hrk) as [Hbr Rok].
  assert (Done : forall c' rs' r', rstep rs r c' = (rs', r') -> state_rel s' rs' -> frame_rel f' r' ->
                 world_rel (s', upd fs k f') (rwstep (rs, rfs) (RStep k c'))).
  { intros c' rs' r' E Hst Hfr'. unfold rwstep. rewrite Hrk, E. split; simpl; auto. apply forall2_upd; auto. }
  unfold fstep in Hs. destruct (fpc f) eqn:Hpc; unfold pc_rel in P; destruct (rpcf r) eqn:Hrp; try contradiction.
  - (* load of the dequeue *)
    set (q := deq_q (fkind f)) in *.
    destruct (after_deq_read s f (qget s q)) as [[s1 f1] e1] eqn:E. inversion Hs; subst s' f' es; clear Hs.
    exists (length (msgs rs q)).
    unfold rframe_ok in Rok. rewrite Hrp in Rok.
    assert (El : Nat.ltb (rview r LI) 1 = false) by (apply Nat.ltb_ge; exact Rok).
    destruct (read_view rs r q deq_ord_load (last_ts (msgs rs q))) as [m v] eqn:Er.
    assert (Em : m = qget s q).
    { pose proof (read_last rs r q deq_ord_load (r_ne _ _ I q)) as H. rewrite Er in H. simpl in H. rewrite Hq. exact H. }
    subst m. destruct (after_deq_rel s f r (qget s q) v s1 f1 e1 K X G E) as (Hf1 & He & Hf & Hc).
    apply (Done _ rs (after_deq r (qget s q) v)); auto.
    + unfold rstep. rewrite Hrp, El. rewrite <- K. fold q. rewrite pick_far, Er. reflexivity.
    + apply (state_rel_same s s1 rs); auto. split; auto.
  - (* CAS of the dequeue *)
    set (q := deq_q (fkind f)) in *.
    destruct (dequeue_word (cur f)) as [[i w']|] eqn:Ed.
    2:{ inversion Hs; subst s' f' es. exists 0%nat. apply (Done _ rs r); [|split; auto|repeat split; auto; rewrite Hpc, Hrp; exact Logic.I].
        unfold rstep. rewrite Hrp, <- C, Ed. reflexivity. }
    destruct (Nat.eqb c 1 || negb (qget s q =? cur f)) eqn:Efail.
    + destruct (after_deq_read s f (qget s q)) as [[s1 f1] e1] eqn:E. inversion Hs; subst s' f' es; clear Hs.
      destruct (read_view rs r q deq_ord_cas_fail (last_ts (msgs rs q))) as [m v] eqn:Er.
      assert (Em : m = qget s q).
      { pose proof (read_last rs r q deq_ord_cas_fail (r_ne _ _ I q)) as H. rewrite Er in H. simpl in H. rewrite Hq. exact H. }
      subst m. destruct (after_deq_rel s f r (qget s q) v s1 f1 e1 K X G E) as (Hf1 & He & Hf & Hc).
      destruct (qget s q =? cur f) eqn:Eq.
      * (* spurious failure: the RA frame fails reading the last message *)
        exists (S (length (msgs rs q))). apply (Done _ rs (after_deq r (qget s q) v)); auto.
        -- unfold rstep. rewrite Hrp, <- C, Ed, <- K. fold q. rewrite pick_far, Er. reflexivity.
        -- apply (state_rel_same s s1 rs); auto. split; auto.
      * exists 0%nat. apply (Done _ rs (after_deq r (qget s q) v)); auto.
        -- unfold rstep. rewrite Hrp, <- C, Ed, <- K. fold q. rewrite <- Hq, Eq, Er. reflexivity.
        -- apply (state_rel_same s s1 rs); auto. split; auto.
    + apply orb_false_iff in Efail. destruct Efail as [_ Em]. apply negb_false_iff in Em.
      exists 0%nat. destruct (cas_ok rs r q deq_ord_cas_ok w') as [rs1 v1] eqn:Ec.
      apply (Done _ rs1 {| rkind := rkind r; rpcf := RCell; rcur := rcur r; ridx := i; rgot := rgot r; rview := v1 |}).
      * unfold rstep. rewrite Hrp, <- C, Ed, <- K. fold q. rewrite <- Hq, Em, Ec. reflexivity.
      * unfold cas_ok in Ec. inversion Ec; subst rs1 v1; clear Ec.
        assert (Hst : forall s2, qget s2 q = w' -> qget s2 (other q) = qget s (other q) -> cells s2 = cells s -> state_rel s2 (set_msgs rs q (msgs rs q ++ [ {| mval := w'; mview := if has_rel deq_ord_cas_ok then vjoin (mview (lastm (msgs rs q))) (vset (acq_join deq_ord_cas_ok (rview r) (lastm (msgs rs q))) (qloc q) (length (msgs rs q))) else mview (lastm (msgs rs q)) |} ]))).
        { intros s2 H1 H2 H3. split.
          - intro q'. destruct (queue_cases q q') as [-> | ->].
            + rewrite msgs_set_same, lastm_snoc. exact H1.
            + rewrite msgs_set_other, H2. apply Hq.
          - intro j. rewrite cval_set, H3. apply Hcl. }
        destruct (fkind f) eqn:Kf; inversion Hs; subst s' f' es; apply Hst; destruct q eqn:Eq'; simpl; auto; discriminate.
      * destruct (fkind f) eqn:Kf; inversion Hs; subst; repeat split; simpl; auto; congruence.
  - (* cell access *)
    unfold rframe_ok in Rok. rewrite Hrp in Rok. destruct Rok as (Hi & Hkn & Hcs).
    exists 0%nat.
    assert (El : Nat.ltb (rview r (LC (ridx r))) (clast rs (ridx r)) = false) by (apply Nat.ltb_ge; apply Hkn).
    rewrite X in Hs. rewrite (in_range_idxs _ Hi) in Hs.
    destruct (fkind f) eqn:Kf.
    + inversion Hs; subst s' f' es; clear Hs.
      eapply Done.
      * unfold rstep. rewrite Hrp, (in_range_idxs _ Hi), El, <- K. cbn [negb]. reflexivity.
      * split; [intro q; destruct (cells s (ridx r)); destruct q; simpl; first [apply (Hq QE)|apply (Hq QF)]|].
        intro j. destruct (cells s (ridx r)); simpl; destruct (j =? ridx r); auto.
      * repeat split; simpl; auto. rewrite Kf. exact K.
    + destruct (cells s (ridx r)) as [x|] eqn:Ec.
      * inversion Hs; subst s' f' es; clear Hs. eapply Done.
        -- unfold rstep. rewrite Hrp, (in_range_idxs _ Hi), El, <- K, <- Hcl, Ec. cbn [negb]. reflexivity.
        -- split; [intro q; destruct q; simpl; first [apply (Hq QE)|apply (Hq QF)]|]. intro j. simpl. destruct (j =? ridx r); auto.
        -- repeat split; simpl; auto; congruence.
      * inversion Hs; subst s' f' es; clear Hs. eapply Done.
        -- unfold rstep. rewrite Hrp, (in_range_idxs _ Hi), El, <- K, <- Hcl, Ec. cbn [negb]. reflexivity.
        -- split; auto.
        -- repeat split; simpl; auto; congruence.
  - (* load of the enqueue *)
    set (q := enq_q (fkind f)) in *.
    destruct (after_enq_read s f (qget s q)) as [[s1 f1] e1] eqn:E. inversion Hs; subst s' f' es; clear Hs.
    exists (length (msgs rs q)).
    destruct (read_view rs r q enq_ord_load (last_ts (msgs rs q))) as [m v] eqn:Er.
    assert (Em : m = qget s q).
    { pose proof (read_last rs r q enq_ord_load (r_ne _ _ I q)) as H. rewrite Er in H. simpl in H. rewrite Hq. exact H. }
    subst m. destruct (after_enq_rel s f r (qget s q) v s1 f1 e1 K X G E) as (Hf1 & ->).
    apply (Done _ rs (after_enq r (qget s q) v)); auto.
    + unfold rstep. rewrite Hrp, <- K. fold q. rewrite pick_far, Er. reflexivity.
    + split; auto.
  - (* CAS of the enqueue *)
    set (q := enq_q (fkind f)) in *.
    destruct (enqueue_word (cur f) (idx f)) as [w'|] eqn:Ee.
    2:{ inversion Hs; subst s' f' es. exists 0%nat. apply (Done _ rs r); [|split; auto|repeat split; auto; rewrite Hpc, Hrp; exact Logic.I].
        unfold rstep. rewrite Hrp, <- C, <- X, Ee. reflexivity. }
    destruct (Nat.eqb c 1 || negb (qget s q =? cur f)) eqn:Efail.
    + destruct (after_enq_read s f (qget s q)) as [[s1 f1] e1] eqn:E. inversion Hs; subst s' f' es; clear Hs.
      destruct (read_view rs r q enq_ord_cas_fail (last_ts (msgs rs q))) as [m v] eqn:Er.
      assert (Em : m = qget s q).
      { pose proof (read_last rs r q enq_ord_cas_fail (r_ne _ _ I q)) as H. rewrite Er in H. simpl in H. rewrite Hq. exact H. }
      subst m. destruct (after_enq_rel s f r (qget s q) v s1 f1 e1 K X G E) as (Hf1 & ->).
      destruct (qget s q =? cur f) eqn:Eq.
      * exists (S (length (msgs rs q))). apply (Done _ rs (after_enq r (qget s q) v)); auto.
        -- unfold rstep. rewrite Hrp, <- C, <- X, Ee, <- K. fold q. rewrite pick_far, Er. reflexivity.
        -- split; auto.
      * exists 0%nat. apply (Done _ rs (after_enq r (qget s q) v)); auto.
        -- unfold rstep. rewrite Hrp, <- C, <- X, Ee, <- K. fold q. rewrite <- Hq, Eq, Er. reflexivity.
        -- split; auto.
    + apply orb_false_iff in Efail. destruct Efail as [_ Em]. apply negb_false_iff in Em.
      exists 0%nat. destruct (cas_ok rs r q enq_ord_cas_ok w') as [rs1 v1] eqn:Ec.
      apply (Done _ rs1 (rset r RDone (rcur r) v1)).
      * unfold rstep. rewrite Hrp, <- C, <- X, Ee, <- K. fold q. rewrite <- Hq, Em, Ec. reflexivity.
      * unfold cas_ok in Ec. inversion Ec; subst rs1 v1; clear Ec.
        assert (Hst : forall s2 mv, qget s2 q = w' -> qget s2 (other q) = qget s (other q) -> cells s2 = cells s ->
                  state_rel s2 (set_msgs rs q (msgs rs q ++ [ {| mval := w'; mview := mv |} ]))).
        { intros s2 mv H1 H2 H3. split.
          - intro q'. destruct (queue_cases q q') as [-> | ->].
            + rewrite msgs_set_same, lastm_snoc. exact H1.
            + rewrite msgs_set_other, H2. apply Hq.
          - intro j. rewrite cval_set, H3. apply Hcl. }
        destruct (fkind f) eqn:Kf; inversion Hs; subst s' f' es; apply Hst; destruct q eqn:Eq'; simpl; auto; discriminate.
      * destruct (fkind f) eqn:Kf; inversion Hs; subst; repeat split; simpl; auto; congruence.
  - inversion Hs; subst. exists 0%nat. apply (Done _ rs r); [unfold rstep; rewrite Hrp; reflexivity|split; auto|repeat split; auto; rewrite Hpc, Hrp; exact Logic.I].
  - inversion Hs; subst. exists 0%nat. apply (Done _ rs r); [unfold rstep; rewrite Hrp; reflexivity|split; auto|repeat split; auto; rewrite Hpc, Hrp; reflexivity].
Qed.

(** Spawning: the RA frame additionally loads the Slot and reads the channel pointer. *)
Lemma spawn_refines s fs rs rfs kd :
  world_rel (s, fs) (rs, rfs) ->
  world_rel (s, fs ++ [mk_frame kd]) (rrun (rs, rfs) [RSpawn kd None; RStep (length rfs) 1]).
Proof.
  intros [Hst Hfr]. simpl in Hst, Hfr. unfold rrun. cbn [fold_left rwstep].
  rewrite nth_error_app2 by lia. rewrite Nat.sub_diag. cbn [nth_error].
  assert (E : rstep rs (mk_rframe kd vbot) 1 =
              (rs, rset (mk_rframe kd vbot) RDeqLoad 0 (vset (acq_join (slot_ord kd) vbot (msg_at slot_msgs 1)) LS 1))).
  { unfold rstep. cbn [mk_rframe rpcf rview rkind]. reflexivity. }
  rewrite E. split; simpl; auto.
  replace (upd (rfs ++ [mk_rframe kd vbot]) (length rfs) (rset (mk_rframe kd vbot) RDeqLoad 0 (vset (acq_join (slot_ord kd) vbot (msg_at slot_msgs 1)) LS 1)))
    with (rfs ++ [rset (mk_rframe kd vbot) RDeqLoad 0 (vset (acq_join (slot_ord kd) vbot (msg_at slot_msgs 1)) LS 1)]).
  - apply forall2_snoc; auto. repeat split; simpl; auto.
  - clear. induction rfs as [|a t IH]; simpl; auto. f_equal. exact IH.
Qed.

Lemma world_rel_init : world_rel init_world rinit_world.
Proof.
  unfold init_world, rinit_world, init_shared, rinit. destruct new_words as [[e f]|]; split; simpl; auto;
    split; auto; intros []; reflexivity.
Qed.

Lemma rrun_app w l1 l2 : rrun w (l1 ++ l2) = rrun (rrun w l1) l2.
Proof. unfold rrun. apply fold_left_app. Qed.

Theorem sc_refines_ra ls : forall w rw es,
  world_rel w rw -> RInv (fst rw) (snd rw) -> run w ls = (fst (run w ls), es) ->
  exists rls, world_rel (fst (run w ls)) (rrun rw rls).
Proof.
  induction ls as [|l r IH]; intros w rw es Hrel I _.
  - exists []. exact Hrel.
  - cbn [run]. destruct (wstep w l) as [w1 e1] eqn:Hw. destruct (run w1 r) as [w2 e2] eqn:Hr. cbn [fst].
    assert (Hstep : exists rl, world_rel w1 (rrun rw rl)).
    { destruct w as [s fs]. destruct rw as [rs rfs]. destruct l as [k c|kd]; simpl in Hw.
      - destruct (nth_error fs k) as [f|] eqn:Hk.
        + destruct (fstep s f c) as [[s1 f1] ee] eqn:Hf. inversion Hw; subst.
          destruct (step_refines s fs rs rfs k c s1 f1 ee f Hrel I Hk Hf) as [c' H]. exists [RStep k c']. exact H.
        + inversion Hw; subst. exists []. exact Hrel.
      - inversion Hw; subst. eexists. apply spawn_refines. exact Hrel. }
    destruct Hstep as [rl Hrel1].
    assert (I1 : RInv (fst (rrun rw rl)) (snd (rrun rw rl))) by (apply rinv_run; exact I).
    destruct (IH w1 (rrun rw rl) e2 Hrel1 I1) as [rls Hfin]; [rewrite Hr; reflexivity|].
    rewrite Hr in Hfin. exists (rl ++ rls). rewrite rrun_app. exact Hfin.
Qed.

(** Every world of the SC model reachable by any label list corresponds to a reachable world
    of the view semantics: same queue words (as last messages), same cells, same frames. *)
Corollary sc_worlds_are_ra_worlds ls w es :
  run init_world ls = (w, es) -> exists rls, world_rel w (rrun rinit_world rls).
Proof.
  intro H. destruct (sc_refines_ra ls init_world rinit_world es world_rel_init rinv_init) as [rls Hr].
  - rewrite H. reflexivity.
  - exists rls. rewrite H in Hr. exact Hr.
Qed.
