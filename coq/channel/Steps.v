(** Under the ownership invariant, a step of a frame is one of eleven concrete transitions.
    This case analysis of [fstep] is done once here and reused by the FIFO and accounting
    invariants. *)
From Coq Require Import List Arith NArith ZArith Bool Lia.
From SH Require Import base.Pool gen.Extracted_channel channel.Defs channel.Word channel.Model channel.Inv.
Import ListNotations.
Local Open Scope N_scope.

Definition add_dropped (s : shared) (v : nat) : shared :=
  {| qe := qe s; qf := qf s; cells := cells s; g_in := g_in s; g_out := g_out s;
     dropped := dropped s ++ [v]; clobbered := clobbered s |}.

Inductive Step (s : shared) (f : frame) : shared -> frame -> Prop :=
| S_idle : Step s f s f
| S_deq_retry m :
    fpc f = PDeqLoad \/ fpc f = PDeqCas -> dequeue_word m <> None ->
    Step s f s (set_cur f m PDeqCas)
| S_deq_none_send v :
    fkind f = KSend v -> fpc f = PDeqLoad \/ fpc f = PDeqCas -> qe s = 0 ->
    Step s f (add_dropped s v) (set_cur f (qe s) PDone)
| S_deq_none_recv :
    fkind f = KRecv -> fpc f = PDeqLoad \/ fpc f = PDeqCas -> qf s = 0 ->
    Step s f s (set_cur f (qf s) PDone)
| S_deq_ok_send v h t :
    fkind f = KSend v -> fpc f = PDeqCas -> decode (qe s) = h :: t -> valid (h :: t) ->
    Step s f (qset s QE (encode t))
             {| fkind := KSend v; fpc := PCell; cur := cur f; idx := h; got := got f; tick := tick f |}
| S_deq_ok_recv h t :
    fkind f = KRecv -> fpc f = PDeqCas -> decode (qf s) = h :: t -> valid (h :: t) ->
    Step s f {| qe := qe s; qf := encode t; cells := cells s; g_in := g_in s; g_out := g_out s ++ [h];
                dropped := dropped s; clobbered := clobbered s |}
             {| fkind := KRecv; fpc := PCell; cur := cur f; idx := h; got := got f; tick := Some (length (g_out s)) |}
| S_write v :
    fkind f = KSend v -> fpc f = PCell -> In (idx f) idxs -> cells s (idx f) = None ->
    Step s f (set_cell s (idx f) (Some v)) (set_pc f PEnqLoad)
| S_take x :
    fkind f = KRecv -> fpc f = PCell -> In (idx f) idxs -> cells s (idx f) = Some x ->
    Step s f (set_cell s (idx f) None)
             {| fkind := KRecv; fpc := PEnqLoad; cur := cur f; idx := idx f; got := Some x; tick := tick f |}
| S_enq_retry m :
    fpc f = PEnqLoad \/ fpc f = PEnqCas -> enq_find m <> None ->
    Step s f s (set_cur f m PEnqCas)
| S_enq_ok_send v :
    fkind f = KSend v -> fpc f = PEnqCas -> In (idx f) idxs -> ~ In (idx f) (decode (qf s)) ->
    valid (decode (qf s) ++ [idx f]) -> cells s (idx f) = Some v ->
    Step s f {| qe := qe s; qf := encode (decode (qf s) ++ [idx f]); cells := cells s;
                g_in := g_in s ++ [(idx f, v)]; g_out := g_out s; dropped := dropped s; clobbered := clobbered s |}
             {| fkind := KSend v; fpc := PDone; cur := cur f; idx := idx f; got := got f; tick := Some (length (g_in s)) |}
| S_enq_ok_recv :
    fkind f = KRecv -> fpc f = PEnqCas -> In (idx f) idxs -> ~ In (idx f) (decode (qe s)) ->
    valid (decode (qe s) ++ [idx f]) -> cells s (idx f) = None ->
    Step s f (qset s QE (encode (decode (qe s) ++ [idx f]))) (set_pc f PDone).

Lemma deq_read_cases s fs k f s' f' es :
  Inv s fs -> nth_error fs k = Some f -> fpc f = PDeqLoad \/ fpc f = PDeqCas ->
  after_deq_read s f (qget s (deq_q (fkind f))) = (s', f', es) -> Step s f s' f'.
Proof.
  intros I Hk Hpc H. unfold after_deq_read in H.
  destruct (dequeue_word (qget s (deq_q (fkind f)))) as [p|] eqn:E.
  - injection H as <- <- _. apply S_deq_retry; auto. congruence.
  - destruct (fkind f) eqn:K; simpl in *; injection H as <- <- _.
    + assert (Hz : qe s = 0) by (apply wordok_zero; auto; apply I).
      apply (S_deq_none_send s f v); auto.
    + assert (Hz : qf s = 0) by (apply wordok_zero; auto; apply I).
      apply (S_deq_none_recv s f); auto.
Qed.

Lemma enq_read_cases s fs k f s' f' es :
  Inv s fs -> nth_error fs k = Some f -> fpc f = PEnqLoad \/ fpc f = PEnqCas ->
  after_enq_read s f (qget s (enq_q (fkind f))) = (s', f', es) -> Step s f s' f'.
Proof.
  intros I Hk Hpc H.
  pose proof (enq_read_inv _ _ _ _ _ _ _ I Hk Hpc H) as I'.
  apply after_enq_read_spec in H. destruct H as (-> & _ & [(Hf & ->)|(_ & ->)]).
  - apply S_enq_retry; auto.
  - exfalso. assert (Hlen : (k < length fs)%nat) by (apply nth_error_Some; congruence).
    pose proof (i_fr _ _ I' k _ (nth_upd_eq _ _ _ Hlen)) as Fok. exact Fok.
Qed.

Lemma fstep_cases s fs k f c s' f' es :
  Inv s fs -> nth_error fs k = Some f -> fstep s f c = (s', f', es) -> Step s f s' f'.
Proof.
  intros I Hk Hs.
  pose proof (i_fr _ _ I k f Hk) as Fok.
  unfold fstep in Hs. destruct (fpc f) eqn:Hpc.
  - destruct (after_deq_read s f (qget s (deq_q (fkind f)))) as [[s1 f1] e1] eqn:E.
    inversion Hs; subst. eapply deq_read_cases; eauto.
  - unfold frame_ok in Fok. rewrite Hpc in Fok.
    destruct (dequeue_word (cur f)) as [[i w']|] eqn:Ed; [|contradiction].
    destruct (Nat.eqb c 1 || negb (qget s (deq_q (fkind f)) =? cur f)) eqn:Efail.
    + destruct (after_deq_read s f (qget s (deq_q (fkind f)))) as [[s1 f1] e1] eqn:E.
      inversion Hs; subst. eapply deq_read_cases; eauto.
    + apply orb_false_iff in Efail. destruct Efail as [_ Em]. apply negb_false_iff in Em. apply N.eqb_eq in Em.
      assert (Hw : WordOk (cur f)) by (rewrite <- Em; destruct (fkind f); apply I).
      rewrite (wordok_deq _ Hw) in Ed. destruct (decode (cur f)) as [|h t] eqn:El; [discriminate|].
      inversion Ed; subst i w'; clear Ed.
      assert (Hvl : valid (h :: t)) by (rewrite <- El; apply Hw).
      destruct (fkind f) eqn:K; cbn [deq_q qget] in Em; inversion Hs; subst s' f' es; clear Hs.
      * apply (S_deq_ok_send s f v h t); auto. congruence.
      * cbn [qset qe qf cells g_in g_out dropped clobbered]. apply (S_deq_ok_recv s f h t); auto. congruence.
  - unfold frame_ok in Fok. rewrite Hpc in Fok. destruct Fok as [Hi Hcell].
    rewrite (in_range_idxs _ Hi) in Hs. destruct (fkind f) eqn:K.
    + rewrite Hcell in Hs. inversion Hs; subst. apply (S_write s f v); auto.
    + destruct (cells s (idx f)) as [x|] eqn:Ec; [|contradiction].
      inversion Hs; subst. apply (S_take s f x); auto.
  - destruct (after_enq_read s f (qget s (enq_q (fkind f)))) as [[s1 f1] e1] eqn:E.
    inversion Hs; subst. eapply enq_read_cases; eauto.
  - unfold frame_ok in Fok. rewrite Hpc in Fok. destruct Fok as (Hi & Hfind & Hcell).
    assert (Hh : holds f = Some (idx f)) by (unfold holds; rewrite Hpc; reflexivity).
    destruct (held_not_queued s fs k f (idx f) I Hi Hk Hh) as [Hne Hnf].
    destruct (enqueue_word (cur f) (idx f)) as [w'|] eqn:Ee.
    2:{ inversion Hs; subst. apply S_idle. }
    destruct (Nat.eqb c 1 || negb (qget s (enq_q (fkind f)) =? cur f)) eqn:Efail.
    + destruct (after_enq_read s f (qget s (enq_q (fkind f)))) as [[s1 f1] e1] eqn:E.
      inversion Hs; subst. eapply enq_read_cases; eauto.
    + apply orb_false_iff in Efail. destruct Efail as [_ Em]. apply negb_false_iff in Em. apply N.eqb_eq in Em.
      destruct (fkind f) eqn:K; cbn [enq_q qget] in Em; inversion Hs; subst s' f' es; clear Hs.
      * assert (Hw : WordOk (qf s)) by apply I.
        destruct (wordok_enq (qf s) (idx f) Hw Hi Hnf) as [_ Hen]. rewrite <- Em in Ee. rewrite Ee in Hen.
        inversion Hen; subst w'; clear Hen.
        cbn [qset qe qf cells g_in g_out dropped clobbered].
        apply (S_enq_ok_send s f v); auto. apply valid_snoc; auto. apply Hw.
      * assert (Hw : WordOk (qe s)) by apply I.
        destruct (wordok_enq (qe s) (idx f) Hw Hi Hne) as [_ Hen]. rewrite <- Em in Ee. rewrite Ee in Hen.
        inversion Hen; subst w'; clear Hen.
        apply (S_enq_ok_recv s f); auto. apply valid_snoc; auto. apply Hw.
  - inversion Hs; subst. apply S_idle.
  - inversion Hs; subst. apply S_idle.
Qed.
